#include <sys/param.h>
#include <sys/types.h>
#include <sys/socket.h>
#include <inttypes.h>
#include <string.h>
#include <stdio.h>
#include <stdlib.h>
#include <errno.h>
#include <unistd.h>
#include <fcntl.h>
#include <pthread.h>
#include <time.h>
#include "threadpool/threadpool.h"
#include "threadpool/threadpool_task.h"

static void msleep(int ms) { struct timespec ts = { ms / 1000, (ms % 1000) * 1000000L }; nanosleep(&ts, NULL); }

#define TOT 5000
static uint8_t src[TOT], dst[TOT + 64];
typedef struct { size_t got; size_t win_off, win_len; int eofs, errs, tmo, done; size_t prev_off; int bad; int after_stop; int stopped; unsigned seed; int use_pipe;} st_t;
static st_t st;
static uint8_t guard_buf[sizeof(io_buf_t) + 256 + 64];

static void new_window(io_buf_p buf, st_t *s) {
	size_t off = rand_r(&s->seed) % 100, len = 1 + rand_r(&s->seed) % 100;
	memset(buf->data, 0xEE, 256);
	buf->used = off; buf->offset = off; buf->transfer_size = len;
	s->win_off = off; s->win_len = len; s->prev_off = off;
}

static int
cb(tp_task_p tptask, int error, io_buf_p buf, uint32_t eof, size_t tr, void *udata) {
	st_t *s = udata;
	if (s->stopped) { s->after_stop ++; return 0; }
	/* bytes are at [prev_off, prev_off+tr) */
	if (buf->offset != s->prev_off + tr) { printf("BAD offset %zu prev %zu tr %zu\n", buf->offset, s->prev_off, tr); s->bad ++; }
	if (buf->offset + buf->transfer_size != s->win_off + s->win_len) { printf("BAD window end\n"); s->bad ++; }
	if (s->got + tr > TOT) { printf("BAD too much\n"); s->bad ++; tr = TOT - s->got; }
	memcpy(dst + s->got, buf->data + s->prev_off, tr);
	/* guard check */
	for (size_t i = 0; i < 256; i ++) if ((i < s->win_off || i >= s->win_off + s->win_len) && buf->data[i] != 0xEE) { printf("BAD write outside window at %zu\n", i); s->bad ++; break; }
	s->got += tr; s->prev_off = buf->offset;
	if (ETIMEDOUT == error) { s->tmo ++; error = 0; }
	if (error) { s->errs ++; s->done = 1; s->stopped = 1; tp_task_stop(tptask); return 0; }
	if (eof) { s->eofs ++; if (eof & TP_TASK_IOF_F_BUF || s->got == TOT) { s->done = 1; s->stopped = 1; tp_task_stop(tptask); return TP_TASK_CB_EOF; } }
	if (0 == buf->transfer_size) new_window(buf, s);
	return TP_TASK_CB_CONTINUE;
}

typedef struct { int fd; unsigned seed; int slow; } wr_t;
static void *writer(void *a) {
	wr_t *w = a; size_t pos = 0;
	while (pos < TOT) {
		size_t n = 1 + rand_r(&w->seed) % 300; if (n > TOT - pos) n = TOT - pos;
		ssize_t r = write(w->fd, src + pos, n);
		if (r > 0) pos += r; 
		if (w->slow) msleep(rand_r(&w->seed) % 30); else if (rand_r(&w->seed) % 4 == 0) msleep(1);
	}
	close(w->fd);
	return NULL;
}

int main(int argc, char **argv) {
	tp_p tp; tp_settings_t s; int fail = 0;
	tp_settings_def(&s); s.threads_max = 1; s.flags = 0;
	if (tp_create(&s, &tp) || tp_threads_create(tp, 0)) return 2;
	for (int i = 0; i < TOT; i ++) src[i] = (uint8_t)(rand() % 251);
	uint16_t fl[3] = { 0, TP_F_DISPATCH, TP_F_ONESHOT };
	int iter = 0;
	for (int f = 0; f < 3; f ++) for (int every = 0; every < 2; every ++) for (int type = 0; type < 2; type ++) for (int first = 0; first < 2; first ++) for (int tmo = 0; tmo < 2; tmo ++) {
		int sv[2]; pthread_t th; wr_t w; tp_task_p task;
		if (type == 0) socketpair(AF_UNIX, SOCK_STREAM, 0, sv); else { int p[2]; pipe(p); sv[0] = p[0]; sv[1] = p[1]; }
		fcntl(sv[0], F_SETFL, O_NONBLOCK);
		memset(&st, 0, sizeof(st)); memset(dst, 0, sizeof(dst)); st.seed = 1000 + iter;
		io_buf_p buf = io_buf_init((io_buf_p)guard_buf, IO_BUF_F_DATA_SHARED, NULL, 256);
		new_window(buf, &st);
		w.fd = sv[1]; w.seed = 77 + iter; w.slow = tmo;
		if (first) { write(sv[1], "", 0); }
		pthread_create(&th, NULL, writer, &w);
		if (first) msleep(5);
		tp_task_create(tp_thread_get(tp, 0), sv[0], type ? tp_task_rw_handler : tp_task_sr_handler, every ? TP_TASK_F_CB_AFTER_EVERY_READ : 0, &st, &task);
		int e = tp_task_start_ex(!first, task, TP_EV_READ, fl[f], tmo ? 10 : 0, 0, buf, cb);
		if (e) { printf("start err %d\n", e); fail = 1; }
		for (int k = 0; k < 3000 && !st.done; k ++) msleep(5);
		pthread_join(th, NULL);
		msleep(30);
		int ok = st.done && st.got == TOT && 0 == memcmp(src, dst, TOT) && !st.bad && !st.after_stop && st.errs == 0 && st.eofs >= 1;
		printf("%s flags=%u every=%d type=%s first=%d tmo=%d: got=%zu eofs=%d errs=%d tmo=%d after_stop=%d\n", ok ? "ok  " : "FAIL", fl[f], every, type ? "rw" : "sr", first, tmo, st.got, st.eofs, st.errs, st.tmo, st.after_stop);
		if (!ok) fail = 1;
		tp_task_destroy(task); close(sv[0]);
		iter ++;
	}
	tp_shutdown(tp); tp_shutdown_wait(tp); tp_destroy(tp);
	return fail;
}
