#include <sys/param.h>
#include <sys/types.h>
#include <sys/socket.h>
#include <inttypes.h>
#include <string.h>
#include <stdio.h>
#include <stdlib.h>
#include <errno.h>
#include <unistd.h>
#include <fcntl.h>
#include <pthread.h>
#include <time.h>
#include "threadpool/threadpool.h"
#include "threadpool/threadpool_task.h"
static void msleep(int ms) { struct timespec ts = { ms / 1000, (ms % 1000) * 1000000L }; nanosleep(&ts, NULL); }
#define TOT 300000
static uint8_t *rbuf; static volatile size_t rgot; static volatile int rd_abort;
static void *reader(void *a) { int fd = *(int*)a; for (;;) { ssize_t r = read(fd, rbuf + rgot, 3000); if (r <= 0) break; rgot += r; if (rd_abort && rgot > 50000) { struct linger l = {1,0}; setsockopt(fd, SOL_SOCKET, SO_LINGER, &l, sizeof(l)); break;} msleep(1);} close(fd); return NULL; }
static volatile int ncb, done, tmo; static volatile size_t tr_sum; static volatile int lerr; static volatile uint32_t leof;
static int cb(tp_task_p t, int error, io_buf_p buf, uint32_t eof, size_t tr, void *u) {
	ncb ++; tr_sum += tr; 
	if (ETIMEDOUT == error) { tmo ++; return TP_TASK_CB_CONTINUE; }
	lerr = error; leof = eof;
	if (error || eof || 0 == buf->transfer_size) { done = 1; tp_task_stop(t); return 0; }
	return TP_TASK_CB_CONTINUE;
}
int main(void) {
	tp_p tp; tp_settings_t s; int fail = 0;
	tp_settings_def(&s); s.threads_max = 1; s.flags = 0;
	if (tp_create(&s, &tp) || tp_threads_create(tp, 0)) return 2;
	uint16_t fl[3] = { 0, TP_F_DISPATCH, TP_F_ONESHOT };
	rbuf = malloc(TOT + 4096);
	io_buf_p buf = io_buf_alloc(IO_BUF_F_DATA_ALLOC, TOT + 100);
	for (int i = 0; i < TOT + 100; i ++) buf->data[i] = (uint8_t)(rand() % 253);
	for (int f = 0; f < 3; f ++) for (int type = 0; type < 2; type ++) for (int first = 0; first < 2; first ++) for (int ab = 0; ab < 2; ab ++) {
		int sv[2]; pthread_t th; tp_task_p task;
		if (type && ab) continue;
		if (type == 0) socketpair(AF_UNIX, SOCK_STREAM, 0, sv); else { int p[2]; pipe(p); sv[1] = p[0]; sv[0] = p[1]; }
		fcntl(sv[0], F_SETFL, O_NONBLOCK);
		rgot = 0; ncb = done = tmo = 0; tr_sum = 0; rd_abort = ab;
		buf->used = TOT + 100; buf->offset = 37; buf->transfer_size = TOT;
		pthread_create(&th, NULL, reader, &sv[1]);
		tp_task_create(tp_thread_get(tp, 0), sv[0], type ? tp_task_rw_handler : tp_task_sr_handler, 0, NULL, &task);
		int e = tp_task_start_ex(!first, task, TP_EV_WRITE, fl[f], 3, 0, buf, cb);
		for (int k = 0; k < 3000 && !done; k ++) msleep(5);
		tp_task_destroy(task); close(sv[0]);
		pthread_join(th, NULL);
		int ok;
		if (!ab) ok = (0 == e && rgot == TOT && 0 == memcmp(rbuf, buf->data + 37, TOT) && tr_sum == TOT && buf->offset == 37 + TOT && lerr == 0);
		else ok = (0 == e && done && lerr != 0 && tr_sum + buf->transfer_size == TOT);
		printf("%s flags=%u type=%s first=%d abort=%d: e=%d rgot=%zu tr_sum=%zu cbs=%d tmo=%d err=%d eof=%u trleft=%zu\n", ok ? "ok  " : "FAIL", fl[f], type ? "rw" : "sr", first, ab, e, rgot, tr_sum, ncb, tmo, lerr, leof, buf->transfer_size);
		if (!ok) fail = 1;
	}
	tp_shutdown(tp); tp_shutdown_wait(tp); tp_destroy(tp);
	return fail;
}
