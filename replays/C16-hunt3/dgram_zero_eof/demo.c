/* recv task (tp_task_sr_handler) on a datagram socket: an empty datagram is
 * reported as end of stream (eof = TP_TASK_IOF_F_BUF) although the peer is
 * alive and more data follows; tp_task_cb_check() then answers TP_TASK_CB_EOF. */
#include <sys/param.h>
#include <sys/types.h>
#include <sys/socket.h>
#include <inttypes.h>
#include <string.h>
#include <stdio.h>
#include <stdlib.h>
#include <errno.h>
#include <unistd.h>
#include <time.h>
#include "threadpool/threadpool.h"
#include "threadpool/threadpool_task.h"
static volatile int cb_calls, eof_reports, check_eof; static volatile size_t cb_bytes;
static int
cb(tp_task_p tptask, int error, io_buf_p buf, uint32_t eof, size_t tr, void *udata) {
	int r = tp_task_cb_check(buf, eof, tr);
	cb_calls ++; cb_bytes += tr; if (eof) eof_reports ++; if (TP_TASK_CB_EOF == r) check_eof ++;
	printf("  cb: error=%d eof=%u transfered=%zu tp_task_cb_check()=%d\n", error, eof, tr, r);
	if (cb_calls > 20) { tp_task_stop(tptask); return (0); }
	return (TP_TASK_CB_CONTINUE);
}
static void msleep(int ms) { struct timespec ts = { ms / 1000, (ms % 1000) * 1000000L }; nanosleep(&ts, NULL); }
int
main(void) {
	tp_p tp; tp_settings_t s; tp_task_p task; int sv[2], fail = 0; io_buf_p buf;
	tp_settings_def(&s); s.threads_max = 1; s.flags = 0;
	if (tp_create(&s, &tp) || tp_threads_create(tp, 0)) return (2);
	if (socketpair(AF_UNIX, SOCK_DGRAM | SOCK_NONBLOCK, 0, sv)) return (2);
	buf = io_buf_alloc(IO_BUF_FLAGS_STD, 64);
	IO_BUF_MARK_TRANSFER_ALL_FREE(buf);
	if (tp_task_create_start(tp_thread_get(tp, 0), (uintptr_t)sv[0], tp_task_sr_handler,
	    TP_TASK_F_CB_AFTER_EVERY_READ, TP_EV_READ, 0, 0, 0, buf, cb, NULL, &task)) return (2);
	send(sv[1], "abc", 3, 0);
	msleep(50);
	send(sv[1], "", 0, 0);	/* empty datagram, peer stays open */
	msleep(50);
	send(sv[1], "defg", 4, 0);
	msleep(100);
	printf("peer still open; callbacks=%d bytes=%zu eof reports=%d cb_check said EOF %d times\n", cb_calls, cb_bytes, eof_reports, check_eof);
	if (0 != eof_reports) { printf("FAIL: end of stream reported while the peer is open and sending\n"); fail = 1; }
	tp_task_destroy(task); tp_shutdown(tp); tp_shutdown_wait(tp); tp_destroy(tp);
	return (fail);
}
