/* pkt receiver: window full -> datagrams are eaten silently; zero/truncation. */
#include <sys/param.h>
#include <sys/types.h>
#include <sys/socket.h>
#include <sys/un.h>
#include <inttypes.h>
#include <string.h>
#include <stdio.h>
#include <stdlib.h>
#include <errno.h>
#include <unistd.h>
#include <pthread.h>
#include <time.h>
#include "threadpool/threadpool.h"
#include "threadpool/threadpool_task.h"

static volatile int cb_calls = 0, cb_bytes = 0, cb_errs = 0;
static volatile size_t last_tr = 0;

static int
rcv_cb(tp_task_p tptask, int error, struct sockaddr_storage *addr,
    io_buf_p buf, size_t transfered_size, void *udata) {
	(void)tptask; (void)addr; (void)udata; (void)buf;
	cb_calls ++;
	if (0 != error) cb_errs ++;
	cb_bytes += (int)transfered_size;
	last_tr = transfered_size;
	/* Accumulate packets in the buffer (header: 'packets data will store in singe buffer'). */
	return (TP_TASK_CB_CONTINUE);
}

static void msleep(int ms) { struct timespec ts = { ms / 1000, (ms % 1000) * 1000000L }; nanosleep(&ts, NULL); }

int
main(void) {
	tp_p tp; tp_settings_t s; tp_task_p task; int sv[2], i, fail = 0;
	io_buf_p buf;
	char pkt[8];

	tp_settings_def(&s); s.threads_max = 1; s.flags = 0;
	if (0 != tp_create(&s, &tp)) return (2);
	if (0 != tp_threads_create(tp, 0)) return (2);
	if (0 != socketpair(AF_UNIX, SOCK_DGRAM | SOCK_NONBLOCK, 0, sv)) return (2);
	buf = io_buf_alloc(IO_BUF_FLAGS_STD, 16);
	IO_BUF_MARK_TRANSFER_ALL_FREE(buf); /* window = 16 bytes */
	if (0 != tp_task_pkt_rcvr_create(tp_thread_get(tp, 0), (uintptr_t)sv[0], 0, 0, buf,
	    rcv_cb, NULL, &task)) return (2);
	/* 5 datagrams of 8 bytes = 40 bytes into a 16 byte window. */
	for (i = 0; i < 5; i ++) {
		memset(pkt, 'a' + i, sizeof(pkt));
		if (8 != send(sv[1], pkt, 8, 0)) return (2);
	}
	msleep(300);
	/* What is left in the socket? */
	int left = 0; char tmp[64];
	tp_task_stop(task);
	msleep(50);
	while (0 < recv(sv[0], tmp, sizeof(tmp), MSG_DONTWAIT)) left ++;
	printf("sent 5 datagrams (40 bytes); callbacks=%d bytes_reported=%d errors_reported=%d, datagrams still queued=%d\n",
	    cb_calls, cb_bytes, cb_errs, left);
	if (cb_calls + left != 5 && 0 == cb_errs) {
		printf("FAIL: %d datagrams vanished: never given to the callback, no error, not left in the socket\n",
		    5 - cb_calls - left);
		fail = 1;
	}
	tp_task_destroy(task);
	tp_shutdown(tp); tp_shutdown_wait(tp); tp_destroy(tp);
	return (fail);
}
