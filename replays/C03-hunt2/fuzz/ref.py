import re, random, subprocess, sys
src = open('/tmp/hunt/C03/include/crypto/dsa/ecdsa.h').read()
tbl = src[src.index('static ec_curve_str_t ec_curve_str[]'):src.index('SEC 1 Ver. 2.0: 3.11')]
curves = []
for blk in re.findall(r'/\*\.name =\*/.*?/\*\.flags =\*/[^\n]*', tbl, re.S):
    g = lambda k: re.search(r'/\*\.%s =\*/\s*(.*?),\s*\n' % k, blk).group(1)
    s = lambda k: g(k).strip('"')
    c = dict(name=s('name'), m=int(g('m')), p=int(s('p'),16), a=int(s('a'),16), b=int(s('b'),16),
             Gx=int(s('Gx'),16), Gy=int(s('Gy'),16), n=int(s('n'),16), h=int(g('h')),
             gost=('GOST' in g('algo')))
    c['bytes'] = (c['m']+7)//8
    curves.append(c)
def inv(a, m): return pow(a, -1, m)
def add(c, P, Q):
    p = c['p']
    if P is None: return Q
    if Q is None: return P
    if P[0] == Q[0]:
        if (P[1] + Q[1]) % p == 0: return None
        l = (3*P[0]*P[0] + c['a']) * inv(2*P[1], p) % p
    else:
        l = (Q[1]-P[1]) * inv(Q[0]-P[0], p) % p
    x = (l*l - P[0] - Q[0]) % p
    return (x, (l*(P[0]-x) - P[1]) % p)
def mul(c, k, P):
    R = None
    while k:
        if k & 1: R = add(c, R, P)
        P = add(c, P, P); k >>= 1
    return R
def G(c): return (c['Gx'], c['Gy'])
def hash2e(c, h):  # h bytes big-endian; returns e reduced
    n = c['n']
    if c['gost']:
        e = int.from_bytes(h[:c['bytes']], 'big') % n
        return e if e else 1
    nb = n.bit_length()
    L = min(len(h), (nb+7)//8)
    e = int.from_bytes(h[:L], 'big')
    if 8*L > nb: e >>= 8*L - nb
    return e % n
def std_sign(c, e, d, k):
    n = c['n']
    R = mul(c, k, G(c))
    if R is None: return None
    r = R[0] % n
    if r == 0: return None
    if c['gost']: s = (r*d + k*e) % n
    else: s = inv(k, n) * (e + d*r) % n
    if s == 0: return None
    return r, s
def std_verify(c, e, r, s, Q):
    n = c['n']
    if not (1 <= r < n and 1 <= s < n): return False
    if c['gost']:
        v = inv(e, n); u1 = s*v % n; u2 = (-r*v) % n
    else:
        w = inv(s, n); u1 = e*w % n; u2 = r*w % n
    R = add(c, mul(c, u1, G(c)), mul(c, u2, Q))
    if R is None: return False
    return R[0] % n == r
class H:
    def __init__(self, cfg):
        self.p = subprocess.Popen(['./h%d' % cfg], stdin=subprocess.PIPE, stdout=subprocess.PIPE, text=True, bufsize=1)
    def q(self, *t):
        self.p.stdin.write(' '.join(t) + '\n'); self.p.stdin.flush()
        return self.p.stdout.readline().split()
def hx(b): return b.hex() if b else '-'
def ib(i, L): return i.to_bytes(L, 'big')
