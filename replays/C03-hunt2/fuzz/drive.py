import sys, random
from ref import *
cfg = int(sys.argv[1]); iters = int(sys.argv[2]); seed = int(sys.argv[3]) if len(sys.argv)>3 else 1
random.seed(seed)
h = H(cfg)
fails = 0
def fail(*a):
    global fails; fails += 1; print('FAIL cfg', cfg, *a); sys.stdout.flush()
def rnd_scalar(n):
    t = random.random()
    if t < 0.15: return random.choice([1,2,3,n-1,n-2,n-3, (n-1)//2, (n+1)//2])
    if t < 0.25: return random.randrange(1, 1<<random.randrange(1, n.bit_length()))
    if t < 0.3: return n - random.randrange(1, 1<<16)
    return random.randrange(1, n)
def rnd_hash(c):
    B = c['bytes']; n=c['n']
    t = random.random()
    if t < 0.2: L = random.randrange(1, B)
    elif t < 0.5: L = B
    elif t < 0.6: L = (n.bit_length()+7)//8
    else: L = B + random.randrange(1, 40)
    t = random.random()
    if t < 0.6: return random.randbytes(L)
    if t < 0.7: return b'\xff'*L
    if t < 0.8: return b'\x00'*L
    # numerically near n
    v = n + random.choice([-1,0,1, n, -2])
    bs = ib(v, (v.bit_length()+7)//8)
    return (bs + random.randbytes(max(0, L-len(bs))))[:max(L,1)] if random.random()<0.5 else bs.rjust(L, b'\0')[-L:]
for it in range(iters):
    c = random.choice(curves); n = c['n']; B = c['bytes']; name = c['name']
    SB = max(B, (n.bit_length()+7)//8)
    d = rnd_scalar(n); k = rnd_scalar(n)
    if k >= 1 << (8*B): k = random.randrange(1, 1<<(8*B)) % n or 1
    hb = rnd_hash(c)
    Q = mul(c, d, G(c))
    le = random.random() < 0.3
    sfx = 'L' if le else ''
    enc = (lambda b: b[::-1]) if le else (lambda b: b)
    dl = SB if d >= 1<<(8*B) else B
    kb = ib(k, B)
    kpad = b'\0'*(dl-B)
    if random.random() < 0.3: kb_ext = (kb + random.randbytes(5)) if not le else None
    else: kb_ext = None
    e = hash2e(c, hb)
    exp = std_sign(c, e, d, k)
    res = h.q('sign'+sfx, name, hx(enc(hb)), hx(enc(ib(d, dl))), hx(enc(kb) + kpad))
    rc = int(res[0])
    if exp is None:
        if rc == 0: fail('sign succeeded where std fails', name, hb.hex(), d, k)
        continue
    r, s = exp
    if rc != 0:
        if s >= 1 << (8*B) or r >= 1<<(8*B):
            pass # cannot export
        else:
            fail('sign rc', rc, name, 'hash', hb.hex(), 'd', hex(d), 'k', hex(k), 'le', le); continue
    else:
        lr = int.from_bytes(enc(bytes.fromhex(res[1])), 'big'); ls = int.from_bytes(enc(bytes.fromhex(res[2])), 'big')
        if (lr, ls) != (r, s):
            fail('sign mismatch', name, 'hash', hb.hex(), 'd', hex(d), 'k', hex(k), 'le', le, 'lib', hex(lr), hex(ls), 'std', hex(r), hex(s))
            if not std_verify(c, e, lr, ls, Q): print('   and lib signature not valid by std')
    assert std_verify(c, e, r, s, Q)
    # verification: valid + mutations
    L = B if max(r, s) < 1 << (8*B) else SB
    def ver(hb2, r2, s2, Q2, d2=None, Ls=None):
        Ls = Ls or L
        if r2 >= 1 << (8*Ls) or s2 >= 1 << (8*Ls): return None
        a = h.q('verify'+sfx, name, hx(enc(hb2)), hx(enc(ib(r2, Ls))), hx(enc(ib(s2, Ls))), hx(enc(ib(Q2[0], B))), hx(enc(ib(Q2[1], B))))
        b = None
        if d2 is not None:
            b = h.q('verifyp'+sfx, name, hx(enc(hb2)), hx(enc(ib(r2, Ls))), hx(enc(ib(s2, Ls))), hx(enc(ib(d2, SB if d2 >= 1<<(8*B) else B))))
            b = int(b[0])
        return int(a[0]), b
    cases = [('valid', hb, r, s, Q, d)]
    # mutations
    bit = random.randrange(n.bit_length())
    cases.append(('rflip', hb, r ^ (1 << bit), s, Q, d))
    cases.append(('sflip', hb, r, s ^ (1 << bit), Q, d))
    hb2 = bytearray(hb); hb2[random.randrange(len(hb2))] ^= 1 << random.randrange(8); cases.append(('hflip', bytes(hb2), r, s, Q, d))
    cases.append(('r+n', hb, r + n, s, Q, d)); cases.append(('s+n', hb, r, s + n, Q, d))
    cases.append(('r0', hb, 0, s, Q, d)); cases.append(('s0', hb, r, 0, Q, d))
    cases.append(('rn', hb, n, s, Q, d)); cases.append(('sn', hb, r, n, Q, d))
    cases.append(('n-s', hb, r, n - s, Q, d))
    d3 = rnd_scalar(n); cases.append(('wrongkey', hb, r, s, mul(c, d3, G(c)), d3))
    cases.append(('negQ', hb, r, s, (Q[0], c['p'] - Q[1]), n - d))
    # shorter encoding of valid
    for (tag, hbx, rx, sx, Qx, dx) in cases:
        e2 = hash2e(c, hbx)
        want = std_verify(c, e2, rx, sx, Qx)
        Ls = None
        if tag in ('r+n','s+n','rn','sn'):
            Ls = SB + (1 if (max(rx,sx) >= 1 << (8*SB)) else 0)
        got = ver(hbx, rx, sx, Qx, dx, Ls)
        if got is None: continue
        for which, g in (('pub', got[0]), ('priv', got[1])):
            if g is None: continue
            if want and g != 0: fail('verify', which, tag, 'rejects valid rc', g, name, 'hash', hbx.hex(), 'r', hex(rx), 's', hex(sx), 'd', hex(dx), 'le', le)
            if (not want) and g == 0: fail('verify', which, tag, 'ACCEPTS invalid', name, 'hash', hbx.hex(), 'r', hex(rx), 's', hex(sx), 'd', hex(dx), 'le', le)
print('cfg', cfg, 'done iters', iters, 'fails', fails)
