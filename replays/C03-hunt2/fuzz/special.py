import sys
from ref import *
cfg=int(sys.argv[1]); h=H(cfg); random.seed(5)
bad=0
for c in curves:
    name=c['name']; n=c['n']; B=c['bytes']; nb=n.bit_length(); SB=max(B,(nb+7)//8)
    def mkhash(e):
        if c['gost']: return ib(e,B)
        return ib(e << (8*SB-nb), SB) if 8*SB>nb else ib(e,SB)
    for trial in range(3):
        d = random.randrange(1, min(n, 1<<(8*B))); k = random.randrange(1, min(n,1<<(8*B)))
        Q = mul(c,d,G(c)); R = mul(c,k,G(c)); r=R[0]%n
        # cases: u1*G == u2*Q  (ECDSA: e = r*d ; GOST: u1 = s/e, u2=-r/e: s = -r*d => e*k = -2rd)
        if c['gost']:
            es = [(-2*r*d*inv(k,n))%n, 1, n-1]
        else:
            es = [r*d%n, 1, n-1, 0]
        for e in es:
            hb = mkhash(e)
            e2 = hash2e(c,hb)
            exp = std_sign(c,e2,d,k)
            res = h.q('sign',name,hx(hb),hx(ib(d,B)),hx(ib(k,B)))
            if exp is None:
                if res[0]=='0': print('FAIL sign succeeded, std fails',name,e); bad+=1
                continue
            r_,s_=exp
            if max(r_,s_)>=1<<(8*B): continue
            if res[0]!='0' or int(res[1],16)!=r_ or int(res[2],16)!=s_:
                print('FAIL sign',cfg,name,'e',hex(e),res,hex(r_),hex(s_)); bad+=1
            v = h.q('verify',name,hx(hb),hx(ib(r_,B)),hx(ib(s_,B)),hx(ib(Q[0],B)),hx(ib(Q[1],B)))
            vp = h.q('verifyp',name,hx(hb),hx(ib(r_,B)),hx(ib(s_,B)),hx(ib(d,B)))
            if v[0]!='0' or vp[0]!='0': print('FAIL verify special',cfg,name,'e',hex(e),'d',hex(d),'k',hex(k),v,vp); bad+=1
            # compressed key forms
            v = h.q('verify',name,hx(hb),hx(ib(r_,B)),hx(ib(s_,B)),hx(bytes([2+(Q[1]&1)])+ib(Q[0],B)),'-')
            if v[0]!='0': print('FAIL verify compressed',cfg,name,v); bad+=1
            v = h.q('verify',name,hx(hb),hx(ib(r_,B)),hx(ib(s_,B)),hx(bytes([3-(Q[1]&1)])+ib(Q[0],B)),'-')
            if v[0]=='0' and not std_verify(c,e2,r_,s_,(Q[0],c['p']-Q[1])): print('FAIL verify wrong-parity compressed accepted',cfg,name,v); bad+=1
    # nonce 0 and n, key 0 and n
    d = 5; hb = ib(0x1234, B)
    for kk,tag in ((0,'k=0'),):
        res = h.q('sign',name,hx(hb),hx(ib(d,B)),hx(ib(kk,B)))
        if res[0]=='0': print('FAIL',tag,'sign succeeded',cfg,name,res); bad+=1
    if n < 1<<(8*B):
        res = h.q('sign',name,hx(hb),hx(ib(d,B)),hx(ib(n,B)))
        # library maps k>=n to (k mod (n-1))+1 = 2 ; check valid vs that
        if res[0]=='0':
            Q=mul(c,d,G(c)); e2=hash2e(c,hb)
            if not std_verify(c,e2,int(res[1],16),int(res[2],16),Q): print('FAIL k=n signature invalid',cfg,name); bad+=1
        res = h.q('sign',name,hx(hb),hx(ib(n,B)),hx(ib(7,B)))
        if res[0]=='0': print('FAIL d=n sign succeeded',cfg,name); bad+=1
    res = h.q('sign',name,hx(hb),hx(ib(0,B)),hx(ib(7,B)))
    if res[0]=='0': print('NOTE d=0 sign succeeded',cfg,name, 'verifyp ->', h.q('verifyp',name,hx(hb),res[1],res[2],hx(ib(0,B))))
print('cfg',cfg,'special done bad',bad)
