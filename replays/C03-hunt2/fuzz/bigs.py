from ref import *
h = H(0)
for name in ['secp160k1','secp160r1','secp160r2','secp224k1']:
    c = [c for c in curves if c['name']==name][0]; n=c['n']; B=c['bytes']; SB=B+1
    d = 0x1234567890abcdef1234567890abcdef1234 % n; k = 0x0fedcba987654321fedcba9876543210aa % n
    R = mul(c,k,G(c)); r = R[0]%n; s = n-1
    e = (s*k - d*r) % n
    nb = n.bit_length()
    hb = ib(e << (8*SB-nb), SB)
    assert hash2e(c,hb)==e
    Q = mul(c,d,G(c))
    assert std_sign(c,e,d,k)==(r,s) and std_verify(c,e,r,s,Q)
    print(name, 'hash', hb.hex(), 'd', ib(d,B).hex(), 'k', ib(k,B).hex(), 'r', ib(r,SB).hex(), 's', ib(s,SB).hex(), 'Qx', ib(Q[0],B).hex(), 'Qy', ib(Q[1],B).hex())
    print('  sign   ', h.q('sign', name, hx(hb), hx(ib(d,B)), hx(ib(k,B))))
    print('  verify ', h.q('verify', name, hx(hb), hx(ib(r,SB)), hx(ib(s,SB)), hx(ib(Q[0],B)), hx(ib(Q[1],B))))
    print('  verifyp', h.q('verifyp', name, hx(hb), hx(ib(r,SB)), hx(ib(s,SB)), hx(ib(d,B))))
    # control: s' = 2^(8B)-1 (fits) valid signature
    s2 = (1<<(8*B)) - 1; e2 = (s2*k - d*r) % n; hb2 = ib(e2 << (8*SB-nb), SB)
    assert std_verify(c,e2,r,s2,Q)
    print('  control verify (s = 2^%d-1)'%(8*B), h.q('verify', name, hx(hb2), hx(ib(r,B)), hx(ib(s2,B)), hx(ib(Q[0],B)), hx(ib(Q[1],B))), h.q('sign', name, hx(hb2), hx(ib(d,B)), hx(ib(k,B)))[0])
