#include <sys/param.h>
#include <sys/types.h>
#include <inttypes.h>
#include <stdlib.h>
#include <stdio.h>
#include <unistd.h>
#include <string.h>
#include <errno.h>

#ifndef CFG
#define CFG 0
#endif
#if CFG == 0
#define BN_DIGIT_BIT_CNT 	64
#define BN_BIT_LEN		1408
#define BN_CC_MULL_DIV		1
#define BN_NO_POINTERS_CHK	1
#define BN_MOD_REDUCE_ALGO	BN_MOD_REDUCE_ALGO_BASIC
#define EC_USE_PROJECTIVE	1
#define EC_PROJ_REPEAT_DOUBLE	1
#define EC_PROJ_ADD_MIX		1
#define EC_PF_FXP_MULT_ALGO	EC_PF_FXP_MULT_ALGO_COMB_2T
#define EC_PF_FXP_MULT_WIN_BITS	9
#define EC_PF_UNKPT_MULT_ALGO	EC_PF_UNKPT_MULT_ALGO_COMB_1T
#define EC_PF_UNKPT_MULT_WIN_BITS 2
#define EC_PF_TWIN_MULT_ALGO	EC_PF_TWIN_MULT_ALGO_INTER
#elif CFG == 1 /* defaults */
#define BN_BIT_LEN		1408
#elif CFG == 2
#define BN_DIGIT_BIT_CNT 	32
#define BN_BIT_LEN		1408
#define BN_MOD_REDUCE_ALGO	BN_MOD_REDUCE_ALGO_BARRETT
#define EC_USE_PROJECTIVE	1
#define EC_PF_FXP_MULT_ALGO	EC_PF_FXP_MULT_ALGO_SLIDING_WIN
#define EC_PF_FXP_MULT_WIN_BITS	4
#define EC_PF_UNKPT_MULT_ALGO	EC_PF_UNKPT_MULT_ALGO_SLIDING_WIN
#define EC_PF_UNKPT_MULT_WIN_BITS 4
#define EC_PF_TWIN_MULT_ALGO	EC_PF_TWIN_MULT_ALGO_FXP_UNKPT
#elif CFG == 3 /* affine */
#define BN_DIGIT_BIT_CNT 	64
#define BN_BIT_LEN		1408
#define BN_CC_MULL_DIV		1
#define EC_PF_FXP_MULT_ALGO	EC_PF_FXP_MULT_ALGO_COMB_1T
#define EC_PF_FXP_MULT_WIN_BITS	4
#define EC_PF_UNKPT_MULT_ALGO	EC_PF_UNKPT_MULT_ALGO_BIN
#define EC_PF_TWIN_MULT_ALGO	EC_PF_TWIN_MULT_ALGO_JOINT
#elif CFG == 4
#define BN_DIGIT_BIT_CNT 	8
#define BN_BIT_LEN		1408
#define EC_USE_PROJECTIVE	1
#define EC_PROJ_ADD_MIX		1
#define EC_PF_FXP_MULT_ALGO	EC_PF_FXP_MULT_ALGO_BIN
#define EC_PF_UNKPT_MULT_ALGO	EC_PF_UNKPT_MULT_ALGO_BIN
#define EC_PF_TWIN_MULT_ALGO	EC_PF_TWIN_MULT_ALGO_BIN
#elif CFG == 5
#define BN_DIGIT_BIT_CNT 	64
#define BN_BIT_LEN		1408
#define BN_CC_MULL_DIV		1
#define EC_USE_PROJECTIVE	1
#define EC_PROJ_REPEAT_DOUBLE	1
#define EC_PF_FXP_MULT_ALGO	EC_PF_FXP_MULT_ALGO_BIN_PRECALC_DBL
#define EC_PF_UNKPT_MULT_ALGO	EC_PF_UNKPT_MULT_ALGO_COMB_2T
#define EC_PF_UNKPT_MULT_WIN_BITS 3
#define EC_PF_FXP_MULT_WIN_BITS	5
#define EC_PF_TWIN_MULT_ALGO	EC_PF_TWIN_MULT_ALGO_JOINT
#elif CFG == 6
#define BN_DIGIT_BIT_CNT 	16
#define BN_BIT_LEN		1408
#define EC_PF_FXP_MULT_ALGO	EC_PF_FXP_MULT_ALGO_BIN_PRECALC_DBL
#define EC_PF_UNKPT_MULT_ALGO	EC_PF_UNKPT_MULT_ALGO_COMB_1T
#define EC_PF_TWIN_MULT_ALGO	EC_PF_TWIN_MULT_ALGO_INTER
#endif

#include "crypto/dsa/ecdsa.h"

static int hex2bin(const char *h, uint8_t *out) {
	int n = 0; unsigned v;
	if (h[0]=='-' && h[1]==0) return 0;
	while (h[0] && h[1]) { sscanf(h, "%2x", &v); out[n++] = (uint8_t)v; h += 2; }
	return n;
}
static void phex(const uint8_t *b, size_t n) { for (size_t i=0;i<n;i++) printf("%02x", b[i]); if(!n) printf("-"); }

static ec_curve_t curves[40]; static int curve_ok[40];

int main(void) {
	char line[16384]; char op[32], cname[128]; static char a[6][4096];
	static uint8_t b[6][2048]; int bl[6];
	while (fgets(line, sizeof line, stdin)) {
		int nt = sscanf(line, "%31s %127s %4095s %4095s %4095s %4095s %4095s %4095s", op, cname, a[0],a[1],a[2],a[3],a[4],a[5]);
		if (nt < 2) continue;
		int idx = -1;
		for (size_t i=0;i<nitems(ec_curve_str);i++) if (!strcmp(ec_curve_str[i].name, cname)) idx=(int)i;
		if (idx<0) { printf("ERR nocurve\n"); continue; }
		if (!curve_ok[idx]) { int e = ecdsa_curve_from_str(&ec_curve_str[idx], &curves[idx]); if (e) {printf("ERR curve %d\n", e); continue;} curve_ok[idx]=1; }
		ec_curve_p c = &curves[idx];
		for (int i=0;i<nt-2;i++) bl[i]=hex2bin(a[i], b[i]);
		int le = (op[strlen(op)-1]=='L');
		if (!strncmp(op,"sign",4)) { /* hash d k */
			uint8_t r[256], s[256]; size_t ss=0; memset(r,0xAA,sizeof r); memset(s,0xAA,sizeof s);
			int rc = le ? ecdsa_sign_le(c,b[0],bl[0],b[1],bl[1],b[2],bl[2],r,s,&ss)
			            : ecdsa_sign_be(c,b[0],bl[0],b[1],bl[1],b[2],bl[2],r,s,&ss);
			printf("%d ", rc); if (rc==0) { phex(r,ss); printf(" "); phex(s,ss);} printf("\n");
		} else if (!strncmp(op,"verifyp",7)) { /* hash r s d */
			int rc = le ? ecdsa_verify_priv_key_le(c,b[0],bl[0],b[1],b[2],bl[1],b[3],bl[3])
			            : ecdsa_verify_priv_key_be(c,b[0],bl[0],b[1],b[2],bl[1],b[3],bl[3]);
			printf("%d\n", rc);
		} else if (!strncmp(op,"verify",6)) { /* hash r s Qx Qy  (Qy '-' => Qx is encoded) */
			int rc = le ? ecdsa_verify_le(c,b[0],bl[0],b[1],b[2],bl[1],b[3],(bl[4]?b[4]:NULL),bl[3])
			            : ecdsa_verify_be(c,b[0],bl[0],b[1],b[2],bl[1],b[3],(bl[4]?b[4]:NULL),bl[3]);
			printf("%d\n", rc);
		} else if (!strncmp(op,"pub",3)) { /* d */
			uint8_t x[256], y[256]; size_t ps=0;
			int rc = ecdsa_recover_pub_key_from_priv_key_be(c,b[0],bl[0],0,x,y,&ps);
			printf("%d ", rc); if (rc==0) { phex(x,ps); printf(" "); phex(y,ps);} printf("\n");
		} else printf("ERR op\n");
		fflush(stdout);
	}
	return 0;
}
