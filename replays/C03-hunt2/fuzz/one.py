import sys
from ref import *
h = H(int(sys.argv[1]))
def C(n): return [c for c in curves if c['name']==n][0]
tests = [('secp128r2', 'ffffffffffffffffffffffffffffffff', 0x3fffffff7fffffffbe0024720613b5a0, 0x36a538faab73738fcf1822ffbc688779),
 ('brainpoolP160r1','d2bc94bee6e0b3b8c1beb323a8a052813cc1f812',0x36b621f55d56a5a2db49f36261142cc4c9924ba7,0x2a9f8f235cd9ed6b7516de6e55afc8da13cf8a55)]
for name, hh, d, k in tests:
    c = C(name); B=c['bytes']; hb=bytes.fromhex(hh)
    r,s = std_sign(c, hash2e(c,hb), d, k)
    print(name, h.q('sign', name, hh, hx(ib(d,B)), hx(ib(k,B))), 'std', hex(r), hex(s))
