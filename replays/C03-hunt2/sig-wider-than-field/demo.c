/* secp160k1/r1/r2 and secp224k1: the order n is one bit longer than the field,
 * so s (in [1, n-1]) may need one byte more than (m + 7) / 8.  The byte API
 * sizes the signature by the field: such a signature cannot be presented to
 * the verifiers (sign_size > bytes -> EINVAL) and the signer cannot return it
 * (EOVERFLOW).  Test configuration of tests/ecdsa/main.c.
 * The tuple below was made with an independent textbook implementation
 * (e = leftmost 161 bits of the 21 byte hash, s = k^-1 (e + d r) mod n = n - 1). */
#include <sys/param.h>
#include <sys/types.h>
#include <inttypes.h>
#include <stdlib.h>
#include <stdio.h>
#include <string.h>
#include <errno.h>

#define BN_DIGIT_BIT_CNT 	64
#define BN_BIT_LEN		1408
#define BN_CC_MULL_DIV		1
#define BN_NO_POINTERS_CHK	1
#define BN_MOD_REDUCE_ALGO	BN_MOD_REDUCE_ALGO_BASIC
#define EC_USE_PROJECTIVE	1
#define EC_PROJ_REPEAT_DOUBLE	1
#define EC_PROJ_ADD_MIX		1
#define EC_PF_FXP_MULT_ALGO	EC_PF_FXP_MULT_ALGO_COMB_2T
#define EC_PF_FXP_MULT_WIN_BITS	9
#define EC_PF_UNKPT_MULT_ALGO	EC_PF_UNKPT_MULT_ALGO_COMB_1T
#define EC_PF_UNKPT_MULT_WIN_BITS 2
#define EC_PF_TWIN_MULT_ALGO	EC_PF_TWIN_MULT_ALGO_INTER
#include "crypto/dsa/ecdsa.h"

static int hex2bin(const char *h, uint8_t *out) { int n = 0; unsigned v; while (h[0] && h[1]) { sscanf(h, "%2x", &v); out[n++] = (uint8_t)v; h += 2; } return n; }

int main(void) {
	int bad = 0, rc;
	ec_curve_t c;
	uint8_t h[64], d[64], k[64], r[64], s[64], qx[64], qy[64], or_[64], os[64];
	size_t hl, dl, kl, rl, ql, ss = 0;

	if (ecdsa_curve_from_str(ecdsa_curve_str_get_by_name("secp160r1", 9), &c)) return 2;
	hl = hex2bin("525122a0d7e5c0b02219ebc20e00dc7ee0ace64900", h);
	dl = hex2bin("00001234567890abcdef1234567890abcdef1234", d);
	kl = hex2bin("0000000fedcba987654321fedcba9876543210aa", k);
	rl = hex2bin("00525fd7007d354710d16f3f2c01fdcfb3d0f393c4", r);	/* 21 bytes */
	hex2bin("0100000000000000000001f4c8f927aed3ca752256", s);		/* n - 1, 21 bytes */
	ql = hex2bin("f1052732fa4bc5c18db33e58a07ffdee6313aeff", qx);
	hex2bin("70a343c12276616ef673085f66640e325120e02b", qy);

	rc = ecdsa_verify_be(&c, h, hl, r, s, rl, qx, qy, ql);
	printf("ecdsa_verify_be(valid signature, s = n - 1, sign_size = 21) = %d (expected 0)\n", rc);
	if (rc != 0) bad = 1;
	rc = ecdsa_verify_priv_key_be(&c, h, hl, r, s, rl, d, dl);
	printf("ecdsa_verify_priv_key_be(same)                               = %d (expected 0)\n", rc);
	if (rc != 0) bad = 1;
	/* There is no other way to hand it over: 20 bytes cannot hold s. */
	rc = ecdsa_sign_be(&c, h, hl, d, dl, k, kl, or_, os, &ss);
	printf("ecdsa_sign_be(same hash, key, nonce)                         = %d (expected 0 and s = n - 1; EOVERFLOW = %d)\n", rc, EOVERFLOW);
	if (rc != 0) bad = 1;
	printf(bad ? "RESULT: FAIL\n" : "RESULT: ok\n");
	return bad;
}
