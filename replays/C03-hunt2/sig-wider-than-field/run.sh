#!/bin/sh
T=${1:-/tmp/hunt/C03}
D=$(dirname "$0")
F="-DHAVE_EXPLICIT_BZERO -DHAVE_MEMMEM -DHAVE_MEMRCHR -DHAVE_REALLOCARRAY -DHAVE_STRNCASECMP -DLINUX -D_GNU_SOURCE -D__USE_GNU=1 -I$T/include"
gcc -O2 -w $F "$D/demo.c" -o /tmp/c03_widesig || exit 3
/tmp/c03_widesig
