#!/bin/sh
# usage: run.sh <tree>
T=${1:-/tmp/hunt/C03}
D=$(dirname "$0")
F="-DHAVE_EXPLICIT_BZERO -DHAVE_MEMMEM -DHAVE_MEMRCHR -DHAVE_REALLOCARRAY -DHAVE_STRNCASECMP -DLINUX -D_GNU_SOURCE -D__USE_GNU=1 -I$T/include"
gcc -O2 -w $F "$D/demo.c" -o /tmp/c03_barrett_basic || exit 3
gcc -O2 -w $F -DUSE_BARRETT "$D/demo.c" -o /tmp/c03_barrett_barrett || exit 3
echo "--- BN_MOD_REDUCE_ALGO_BASIC (reference build)"; /tmp/c03_barrett_basic || { echo "reference build failed?"; }
echo "--- BN_MOD_REDUCE_ALGO_BARRETT"; /tmp/c03_barrett_barrett
