/* ECDSA/GOST through the public byte API in a build with
 * BN_MOD_REDUCE_ALGO = BN_MOD_REDUCE_ALGO_BARRETT (selectable option of big_num.h).
 * Expected values come from an independent implementation (python, textbook
 * affine arithmetic) and are also what the BASIC build of the library returns. */
#include <sys/param.h>
#include <sys/types.h>
#include <inttypes.h>
#include <stdlib.h>
#include <stdio.h>
#include <string.h>
#include <errno.h>

#define BN_BIT_LEN 1408
#ifdef USE_BARRETT
#define BN_MOD_REDUCE_ALGO BN_MOD_REDUCE_ALGO_BARRETT
#endif
#include "crypto/dsa/ecdsa.h"

static int hex2bin(const char *h, uint8_t *out) { int n = 0; unsigned v; while (h[0] && h[1]) { sscanf(h, "%2x", &v); out[n++] = (uint8_t)v; h += 2; } return n; }
static void phex(const char *t, const uint8_t *b, size_t n) { printf("%s", t); for (size_t i = 0; i < n; i++) printf("%02x", b[i]); printf("\n"); }

int main(void) {
	int bad = 0, rc;
	ec_curve_t c;
	uint8_t h[128], d[128], k[128], r[128], s[128], er[128], es[128], qx[128], qy[128];
	size_t hl, dl, kl, ss = 0, ps = 0;

	/* 1. GOST CryptoPro-XchA: sign returns 0 with a wrong s. */
	if (ecdsa_curve_from_str(ecdsa_curve_str_get_by_name("id-gostR3410-2001-CryptoPro-XchA-ParamSet", 41), &c)) return 2;
	hl = hex2bin("ffffffffffffffffffffffffffffffffffffffffffffffffffffffffffffffff", h);
	dl = hex2bin("774b15d7fa529ba3fe3bfada7cf20724d953ee261d87cec31f7296ab7961fd93", d);
	kl = hex2bin("43c71b9abd87a86557b6fb7ebfeaa1551a28f7b324e4e25a15fc899e4fd58dbf", k);
	hex2bin("2b42b4b6970fcffcc0430ffe8dd036db916db18d2c6a0e31fade196ab61d5d55", er);
	hex2bin("14e3834b7205d50f92c04ad73bd62eb66dd694cd4130c1d6f1675d1b98e7cef7", es);
	rc = ecdsa_sign_be(&c, h, hl, d, dl, k, kl, r, s, &ss);
	printf("GOST XchA sign rc=%d\n", rc); phex(" r=", r, ss); phex(" s=", s, ss); phex(" expected s=", es, 32);
	if (rc != 0 || memcmp(r, er, 32) || memcmp(s, es, 32)) { printf("FAIL: sign reported success with a wrong signature\n"); bad = 1; }
	rc = ecdsa_recover_pub_key_from_priv_key_be(&c, d, dl, 0, qx, qy, &ps);
	if (rc == 0) {
		rc = ecdsa_verify_be(&c, h, hl, r, s, ss, qx, qy, ps);
		printf(" own verify of own signature rc=%d\n", rc);
		if (rc != 0) { printf("FAIL: own signature not accepted\n"); bad = 1; }
		rc = ecdsa_verify_be(&c, h, hl, er, es, 32, qx, qy, ps);
		printf(" verify of the correct signature rc=%d\n", rc);
		if (rc != 0) { printf("FAIL: correct signature rejected\n"); bad = 1; }
	}

	/* 2. secp192k1, 8 byte hash: a correct signature is rejected. */
	if (ecdsa_curve_from_str(ecdsa_curve_str_get_by_name("secp192k1", 9), &c)) return 2;
	hl = hex2bin("ffffffffffffffff", h);
	dl = hex2bin("fc891b4a6a50df4db4d66a3a47469a4d8cdb305fdd2e160a", d);
	hex2bin("6b0ca765dc6144e494c609c38edda599c8f8f9f127dc73b6", er);
	hex2bin("808ce567fd6931c337a4b1202e4f758040f1c1be5bf8012f", es);
	rc = ecdsa_recover_pub_key_from_priv_key_be(&c, d, dl, 0, qx, qy, &ps);
	printf("secp192k1 pub rc=%d\n", rc);
	rc = ecdsa_verify_be(&c, h, hl, er, es, 24, qx, qy, ps);
	printf(" verify (pub key) of a correct signature rc=%d\n", rc);
	if (rc != 0) { printf("FAIL: correct signature rejected (pub)\n"); bad = 1; }
	rc = ecdsa_verify_priv_key_be(&c, h, hl, er, es, 24, d, dl);
	printf(" verify (priv key) of a correct signature rc=%d\n", rc);
	if (rc != 0) { printf("FAIL: correct signature rejected (priv)\n"); bad = 1; }
	printf(bad ? "RESULT: FAIL\n" : "RESULT: ok\n");
	return bad;
}
