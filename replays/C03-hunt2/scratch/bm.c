#include <sys/param.h>
#include <sys/types.h>
#include <inttypes.h>
#include <stdlib.h>
#include <stdio.h>
#include <string.h>
#include <errno.h>
#define BN_BIT_LEN 1408
#define BN_MOD_REDUCE_ALGO BN_MOD_REDUCE_ALGO_BARRETT
#include "math/big_num.h"
static void pr(const char*t, bn_p b){ uint8_t buf[400]; size_t n=0; bn_export_be_bin(b, BN_EXPORT_F_AUTO_SIZE, buf, sizeof buf, &n); printf("%s", t); for(size_t i=0;i<n;i++) printf("%02x", buf[i]); printf(" (digits %zu)\n", (size_t)b->digits);}
int main(int argc, char**argv){
	bn_t m, x, y; bn_mod_rd_data_t rd;
	bn_init(&m, 320); bn_init(&x, 576); bn_init(&y, 576);
	bn_import_be_hex(&m, (const uint8_t*)argv[1], strlen(argv[1]));
	bn_import_be_hex(&x, (const uint8_t*)argv[2], strlen(argv[2]));
	bn_mod_rd_data_init(&m, &rd);
	pr("mu=", &rd.Barrett);
	bn_assign(&y, &x);
	int rc = bn_mod(&y, &m, &rd); printf("rc=%d\n", rc); pr("barrett=", &y);
	bn_div(&x, &m, &y); pr("div    =", &y);
	return 0;
}
