/* EC_PF_FXP_MULT_ALGO = EC_PF_FXP_MULT_ALGO_BIN: ec_point_mult_bp() copies G into
 * the result and ec_point_bin_mult(res, 0) only sets res->infinity; ecdsa_sign()
 * tests R.x == 0 but never R.infinity.  With an all-zero nonce on a GOST curve
 * (no inversion of k) ecdsa_sign_be returns 0 with r = Gx mod n, s = r * d:
 * no verifier accepts it and d = s / r is disclosed. */
#include <sys/param.h>
#include <sys/types.h>
#include <inttypes.h>
#include <stdlib.h>
#include <stdio.h>
#include <string.h>
#include <errno.h>

#define BN_BIT_LEN		1408
#define EC_USE_PROJECTIVE	1
#define EC_PF_FXP_MULT_ALGO	EC_PF_FXP_MULT_ALGO_BIN
#include "crypto/dsa/ecdsa.h"

static void phex(const char *t, const uint8_t *b, size_t n) { printf("%s", t); for (size_t i = 0; i < n; i++) printf("%02x", b[i]); printf("\n"); }

int main(void) {
	int bad = 0, rc;
	ec_curve_t c;
	uint8_t h[32], d[32], k[32], r[64], s[64], qx[64], qy[64];
	size_t ss = 0, ps = 0;
	const char *name = "id-gostR3410-2001-CryptoPro-A-ParamSet";

	if (ecdsa_curve_from_str(ecdsa_curve_str_get_by_name(name, strlen(name)), &c)) return 2;
	memset(h, 0x11, sizeof h);
	memset(d, 0, sizeof d); d[31] = 5;	/* d = 5 */
	memset(k, 0, sizeof k);			/* nonce 0 */
	rc = ecdsa_sign_be(&c, h, 32, d, 32, k, 32, r, s, &ss);
	printf("ecdsa_sign_be(nonce = 0) = %d (expected: an error, 0 * G = O)\n", rc);
	if (rc == 0) {
		bad = 1;
		phex(" r = ", r, ss); phex(" s = ", s, ss);
		printf(" (r = Gx = 1, s = r * d = 5: the private key)\n");
		rc = ecdsa_recover_pub_key_from_priv_key_be(&c, d, 32, 0, qx, qy, &ps);
		if (rc == 0) {
			rc = ecdsa_verify_be(&c, h, 32, r, s, ss, qx, qy, ps);
			printf(" ecdsa_verify_be(that signature)          = %d\n", rc);
			rc = ecdsa_verify_priv_key_be(&c, h, 32, r, s, ss, d, 32);
			printf(" ecdsa_verify_priv_key_be(that signature) = %d\n", rc);
		}
	}
	printf(bad ? "RESULT: FAIL\n" : "RESULT: ok\n");
	return bad;
}
