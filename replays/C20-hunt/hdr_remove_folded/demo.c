/* http_hdr_val_remove(): removes only the first physical line of a field.  The folded continuation
 * line(s) ([CRLF] 1*(SP|HT), which http_hdr_val_get_ex() treats as part of the value) stay in the block and
 * become a continuation of the PRECEDING field, changing its value. */
#include <sys/param.h>
#include <sys/types.h>
#include <inttypes.h>
#include <string.h>
#include <stdio.h>
#include <stdlib.h>
#include <ctype.h>
#include <errno.h>
#include "proto/http.h"

static int fails = 0;
static int span_eq(const uint8_t *p, size_t n, const char *exp) { /* exp == NULL: span must be absent/empty */
	if (NULL == exp) return (NULL == p || 0 == n);
	return (NULL != p && strlen(exp) == n && 0 == memcmp(p, exp, n));
}
static void chk(const char *what, const uint8_t *p, size_t n, const char *exp) {
	if (span_eq(p, n, exp)) { printf("  ok   %-9s = [%.*s]\n", what, (int)(p ? n : 0), p ? (const char*)p : ""); return; }
	printf("  FAIL %-9s = [%.*s]%s, expected [%s]\n", what, (int)(p ? n : 0), p ? (const char*)p : "", p ? "" : "(null)", exp ? exp : "(none)");
	fails ++;
}
static uint8_t *hdup(const char *s, size_t *n) { *n = strlen(s); uint8_t *h = malloc(*n); memcpy(h, s, *n); return h; }

int main(void) {
	const char *s = "GET / HTTP/1.1\r\nHost: a\r\nConnection: keep-alive,\r\n close\r\nAccept: x";
	size_t n, i, nn = 0; uint8_t *h = hdup(s, &n), *l = hdup(s, &n);
	const uint8_t *v = NULL; size_t vl = 0;
	for (i = 0; i < n; i ++) l[i] = (uint8_t)tolower(l[i]);

	if (0 != http_hdr_val_get(h, n, (const uint8_t*)"connection", 10, &v, &vl)) return 2;
	printf("before: connection = [%.*s] (lookup honours the fold)\n", (int)vl, v);
	if (0 != http_hdr_val_get(h, n, (const uint8_t*)"host", 4, &v, &vl)) return 2;
	printf("before: host = [%.*s]\n", (int)vl, v);

	size_t c = http_hdr_val_remove(h, l, n, &nn, (const uint8_t*)"connection", 10);
	printf("removed %zu field(s), new size %zu:\n%.*s\n", c, nn, (int)nn, h);
	if (0 != http_hdr_val_get(h, nn, (const uint8_t*)"host", 4, &v, &vl)) { printf("FAIL host lost\n"); return 1; }
	printf("after: host = [%.*s]\n", (int)vl, v);
	chk("host", v, vl, "a");
	{
		const char *exp = "GET / HTTP/1.1\r\nHost: a\r\nAccept: x";
		if (nn != strlen(exp) || 0 != memcmp(h, exp, nn)) { printf("  FAIL block after removal differs from expected\n"); fails ++; }
	}
	free(h); free(l);
	if (fails) { printf("FAIL (%d)\n", fails); return 1; }
	printf("PASS\n"); return 0;
}
