/* http_query_val_get_ex(): the '=' that ends a name is searched over the whole rest of the query, not up
 * to the next '&'.  A parameter without '=' ("flag") therefore swallows the following pair: its "name"
 * becomes "flag&b" and b=... is never found (same for http_query_val_del()). */
#include <sys/param.h>
#include <sys/types.h>
#include <inttypes.h>
#include <string.h>
#include <stdio.h>
#include <stdlib.h>
#include <ctype.h>
#include <errno.h>
#include "proto/http.h"

static int fails = 0;
static int span_eq(const uint8_t *p, size_t n, const char *exp) { /* exp == NULL: span must be absent/empty */
	if (NULL == exp) return (NULL == p || 0 == n);
	return (NULL != p && strlen(exp) == n && 0 == memcmp(p, exp, n));
}
static void chk(const char *what, const uint8_t *p, size_t n, const char *exp) {
	if (span_eq(p, n, exp)) { printf("  ok   %-9s = [%.*s]\n", what, (int)(p ? n : 0), p ? (const char*)p : ""); return; }
	printf("  FAIL %-9s = [%.*s]%s, expected [%s]\n", what, (int)(p ? n : 0), p ? (const char*)p : "", p ? "" : "(null)", exp ? exp : "(none)");
	fails ++;
}
static uint8_t *hdup(const char *s, size_t *n) { *n = strlen(s); uint8_t *h = malloc(*n); memcpy(h, s, *n); return h; }

static void one(const char *q, const char *name, const char *exp) {
	size_t n; uint8_t *h = hdup(q, &n);
	const uint8_t *v = NULL; size_t vl = 0;
	int rc = http_query_val_get(h, n, (const uint8_t*)name, strlen(name), &v, &vl);
	printf("query [%s] get [%s]: rc=%d\n", q, name, rc);
	if (0 != rc) { v = NULL; vl = 0; }
	if (NULL != exp && 0 != rc) { printf("  FAIL not found, expected [%s]\n", exp); fails ++; }
	else chk(name, v, vl, exp);
	free(h);
}
int main(void) {
	one("a=1&b=2", "b", "2"); /* control */
	one("flag&b=1", "b", "1");
	one("a=1&debug&b=2", "b", "2");
	{
		size_t n, nn = 0; uint8_t *h = hdup("a=1&debug&b=2", &n);
		size_t c = http_query_val_del(h, n, (const uint8_t*)"b", 1, &nn);
		printf("del b from [a=1&debug&b=2]: deleted=%zu -> [%.*s]\n", c, (int)nn, h);
		if (1 != c) { printf("  FAIL expected 1 deletion\n"); fails ++; }
		free(h);
	}
	if (fails) { printf("FAIL (%d)\n", fails); return 1; }
	printf("PASS\n"); return 0;
}
