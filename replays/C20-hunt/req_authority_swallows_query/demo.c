/* http_parse_req_line(): in absolute-form the authority is ended only by '/', but RFC 3986 3.2 ends it at
 * '/', '?' or '#'.  http-URI = "http://" authority path-abempty [ "?" query ] allows an EMPTY path followed by a query. */
#include <sys/param.h>
#include <sys/types.h>
#include <inttypes.h>
#include <string.h>
#include <stdio.h>
#include <stdlib.h>
#include <ctype.h>
#include <errno.h>
#include "proto/http.h"

static int fails = 0;
static int span_eq(const uint8_t *p, size_t n, const char *exp) { /* exp == NULL: span must be absent/empty */
	if (NULL == exp) return (NULL == p || 0 == n);
	return (NULL != p && strlen(exp) == n && 0 == memcmp(p, exp, n));
}
static void chk(const char *what, const uint8_t *p, size_t n, const char *exp) {
	if (span_eq(p, n, exp)) { printf("  ok   %-9s = [%.*s]\n", what, (int)(p ? n : 0), p ? (const char*)p : ""); return; }
	printf("  FAIL %-9s = [%.*s]%s, expected [%s]\n", what, (int)(p ? n : 0), p ? (const char*)p : "", p ? "" : "(null)", exp ? exp : "(none)");
	fails ++;
}
static uint8_t *hdup(const char *s, size_t *n) { *n = strlen(s); uint8_t *h = malloc(*n); memcpy(h, s, *n); return h; }

static void one(const char *req, const char *scheme, const char *host, const char *path, const char *query) {
	size_t n; uint8_t *h = hdup(req, &n);
	http_req_line_data_t d;
	int rc = http_parse_req_line(h, n, &d);
	printf("%s\n  rc=%d\n", req, rc);
	if (0 != rc) { fails ++; free(h); return; }
	chk("scheme", d.scheme, d.scheme_size, scheme);
	chk("authority", d.host, d.host_size, host);
	chk("path", d.abs_path, d.abs_path_size, path);
	chk("query", d.query, d.query_size, query);
	free(h);
}
int main(void) {
	one("GET http://example.com?q=1 HTTP/1.1", "http", "example.com", NULL, "q=1");
	one("GET http://example.com?next=/admin HTTP/1.1", "http", "example.com", NULL, "next=/admin");
	/* control */
	one("GET http://example.com/?q=1 HTTP/1.1", "http", "example.com", "/", "q=1");
	if (fails) { printf("FAIL (%d)\n", fails); return 1; }
	printf("PASS\n"); return 0;
}
