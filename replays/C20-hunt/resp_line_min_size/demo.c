/* http_parse_resp_line(): status-line = HTTP-version SP status-code SP reason-phrase, and
 * reason-phrase = *( HTAB / SP / VCHAR / obs-text ) may be empty: the shortest status line is 13 bytes
 * ("HTTP/1.1 204 ").  The size guard is 14 > hdr_size, so a 13 byte header block (a response without
 * header fields, cut at CRLFCRLF the way http_server.c / upnp_ssdp.c cut it) is refused with EINVAL. */
#include <sys/param.h>
#include <sys/types.h>
#include <inttypes.h>
#include <string.h>
#include <stdio.h>
#include <stdlib.h>
#include <ctype.h>
#include <errno.h>
#include "proto/http.h"

static int fails = 0;
static int span_eq(const uint8_t *p, size_t n, const char *exp) { /* exp == NULL: span must be absent/empty */
	if (NULL == exp) return (NULL == p || 0 == n);
	return (NULL != p && strlen(exp) == n && 0 == memcmp(p, exp, n));
}
static void chk(const char *what, const uint8_t *p, size_t n, const char *exp) {
	if (span_eq(p, n, exp)) { printf("  ok   %-9s = [%.*s]\n", what, (int)(p ? n : 0), p ? (const char*)p : ""); return; }
	printf("  FAIL %-9s = [%.*s]%s, expected [%s]\n", what, (int)(p ? n : 0), p ? (const char*)p : "", p ? "" : "(null)", exp ? exp : "(none)");
	fails ++;
}
static uint8_t *hdup(const char *s, size_t *n) { *n = strlen(s); uint8_t *h = malloc(*n); memcpy(h, s, *n); return h; }

int main(void) {
	size_t n; uint8_t *h = hdup("HTTP/1.1 204 ", &n); /* what is left of "HTTP/1.1 204 \r\n\r\n" before CRLFCRLF */
	http_resp_line_data_t d; memset(&d, 0, sizeof(d));
	int rc = http_parse_resp_line(h, n, &d);
	printf("[HTTP/1.1 204 ] size=%zu rc=%d code=%u reason_size=%zu\n", n, rc, d.status_code, d.reason_phrase_size);
	if (0 != rc || 204 != d.status_code || 0 != d.reason_phrase_size) { printf("FAIL expected rc=0 code=204 empty reason\n"); fails ++; }
	free(h);
	/* control: same line, one byte of reason */
	h = hdup("HTTP/1.1 204 x", &n);
	rc = http_parse_resp_line(h, n, &d);
	printf("[HTTP/1.1 204 x] rc=%d code=%u reason=[%.*s]\n", rc, d.status_code, (int)d.reason_phrase_size, d.reason_phrase);
	if (0 != rc) fails ++;
	free(h);
	if (fails) { printf("FAIL (%d)\n", fails); return 1; }
	printf("PASS\n"); return 0;
}
