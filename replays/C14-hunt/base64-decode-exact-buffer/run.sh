#!/bin/sh
# usage: run.sh <tree>
T="${1:-/tmp/hunt/C14}"
D="$(cd "$(dirname "$0")" && pwd)"
OUT="$(mktemp -d)"
cc -O1 -g -w -I"$T/include" "$D/demo.c" -o "$OUT/demo" || exit 2
"$OUT/demo"; rc=$?
rm -rf "$OUT"
exit $rc
