/* base64_decode(): the capacity check and the size reported with ENOBUFS use
 * ceil(len/4)*3, not the number of bytes the decoder produces.  For every
 * byte string whose length is not a multiple of 3 a destination of exactly
 * the decoded length is refused and the "required" size reported is 1 or 2
 * bytes more than what a successful call then reports. */
#include <sys/param.h>
#include <sys/types.h>
#include <inttypes.h>
#include <string.h>
#include <stdio.h>
#include <stdlib.h>
#include <errno.h>
#include "utils/base64.h"

int
main(void) {
	int fails = 0;

	for (size_t n = 1; n <= 8; n ++) {
		uint8_t src[8], enc[16], *dec;
		size_t enc_size = 0, need = 0, got = 0;
		int e1, e2;

		for (size_t i = 0; i < n; i ++) {
			src[i] = (uint8_t)('a' + i);
		}
		base64_encode(src, n, enc, sizeof(enc), &enc_size);
		dec = malloc(n); /* Exactly the decoded size. */
		e1 = base64_decode(enc, enc_size, dec, n, &need);
		free(dec);
		dec = malloc(16);
		e2 = base64_decode(enc, enc_size, dec, 16, &got);
		free(dec);
		printf("len %zu \"%.*s\": decode into %zu bytes -> %d (reported %zu); into 16 bytes -> %d (reported %zu)\n",
		    n, (int)enc_size, enc, n, e1, need, e2, got);
		if (0 != e1 || need != got) {
			fails ++;
		}
	}
	if (0 != fails) {
		printf("FAIL (%d)\n", fails);
		return (1);
	}
	printf("OK\n");
	return (0);
}
