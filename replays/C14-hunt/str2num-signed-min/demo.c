/* str2s32()/str2s64()/str2ssize() (STR2SNUM): the magnitude is accumulated in
 * the signed result type and negated afterwards, so parsing the text of the
 * type's minimum overflows twice (214748364*10+8, then INT_MIN * -1).
 * gcc -O2 uses "no signed overflow" to decide that the result can never be
 * the minimum: a comparison of the parsed value with INT32_MIN / INT64_MIN is
 * folded to false although the text was produced by s322str()/s642str().
 * -ftrapv / UBSan builds abort. */
#include <sys/param.h>
#include <sys/types.h>
#include <inttypes.h>
#include <string.h>
#include <stdio.h>
#include <stdlib.h>
#include <errno.h>
#include "utils/num2str.h"
#include "utils/str2num.h"

__attribute__((noinline)) static int
parses_to_min32(const char *s, size_t n) {
	return (INT32_MIN == str2s32(s, n));
}
__attribute__((noinline)) static int
parses_to_min64(const char *s, size_t n) {
	return (INT64_MIN == str2s64(s, n));
}
__attribute__((noinline)) static int
parses_to_minssize(const char *s, size_t n) {
	return (SSIZE_MAX > str2ssize(s, n) && (-SSIZE_MAX) > str2ssize(s, n));
}

int
main(void) {
	char b[32];
	size_t n = 0;
	int fails = 0, r;

	s322str(INT32_MIN, b, sizeof(b), &n);
	r = parses_to_min32(b, n);
	printf("s322str(INT32_MIN) = \"%s\" (%zu); str2s32(text) == INT32_MIN -> %d\n", b, n, r);
	if (0 == r) fails ++;

	s642str(INT64_MIN, b, sizeof(b), &n);
	r = parses_to_min64(b, n);
	printf("s642str(INT64_MIN) = \"%s\" (%zu); str2s64(text) == INT64_MIN -> %d\n", b, n, r);
	if (0 == r) fails ++;

	ssize2str((-SSIZE_MAX - 1), b, sizeof(b), &n);
	r = parses_to_minssize(b, n);
	printf("ssize2str(SSIZE_MIN) = \"%s\" (%zu); str2ssize(text) < -SSIZE_MAX -> %d\n", b, n, r);
	if (0 == r) fails ++;

	if (0 != fails) {
		printf("FAIL (%d)\n", fails);
		return (1);
	}
	printf("OK\n");
	return (0);
}
