#!/bin/sh
# usage: run.sh <tree>
T="${1:-/tmp/hunt/C14}"
D="$(cd "$(dirname "$0")" && pwd)"
OUT="$(mktemp -d)"
rc=0
# 1. Ordinary optimised build with gcc: wrong answer.
gcc -O2 -w -I"$T/include" "$D/demo.c" -o "$OUT/demo_o2" || exit 2
"$OUT/demo_o2" || rc=1
# 2. UBSan build: the two overflows are reported.
if clang -O1 -g -w -fsanitize=signed-integer-overflow -I"$T/include" "$D/demo.c" -o "$OUT/demo_ub" 2>/dev/null; then
	if "$OUT/demo_ub" 2>&1 | grep "runtime error: signed integer overflow"; then
		echo "FAIL (UBSan)"
		rc=1
	fi
fi
rm -rf "$OUT"
exit $rc
