#!/bin/sh
# usage: run.sh <tree>
T="${1:-/tmp/hunt/C14}"
D="$(cd "$(dirname "$0")" && pwd)"
FLAGS="-DHAVE_ACCEPT4 -DHAVE_EXPLICIT_BZERO -DHAVE_MEMMEM -DHAVE_MEMRCHR -DHAVE_PIPE2 -DHAVE_POSIX_SPAWN_FILE_ACTIONS_ADDCLOSEFROM_NP -DHAVE_PTHREAD_SETNAME_NP -DHAVE_REALLOCARRAY -DHAVE_SOCK_CLOEXEC -DHAVE_SOCK_NONBLOCK -DHAVE_STRNCASECMP -DLINUX -D_GNU_SOURCE -D__USE_GNU=1"
OUT="$(mktemp -d)"
# Plain build: canary check (prints FAIL, exit 1).
cc -O1 -g $FLAGS -I"$T/include" "$D/demo.c" "$T/src/utils/xml.c" -o "$OUT/demo" || exit 2
"$OUT/demo"; rc=$?
# ASan build: aborts on the first overflow.
if clang -O1 -g -fsanitize=address $FLAGS -I"$T/include" "$D/demo.c" "$T/src/utils/xml.c" -o "$OUT/demo_asan" 2>/dev/null; then
	"$OUT/demo_asan" asan 2>&1 | grep -m3 -E "ERROR: AddressSanitizer|WRITE of size|in mem_replace_arr" && rc=1
fi
rm -rf "$OUT"
exit $rc
