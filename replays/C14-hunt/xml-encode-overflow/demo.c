/* xml_encode()/xml_decode() -> mem_replace_arr(): output capacity is checked
 * with the size of the *searched* item instead of the *replacement*, and the
 * copy of the text after the last replacement is not checked at all.
 * Build with -fsanitize=address: the heap overflow aborts the program. */
#include <sys/param.h>
#include <sys/types.h>
#include <inttypes.h>
#include <string.h>
#include <stdio.h>
#include <stdlib.h>
#include <errno.h>
#include "utils/xml.h"

static size_t GUARD = 64; /* 0 when run as "demo asan": exact allocation. */

static int
try_encode(const char *src, size_t dst_size) {
	size_t src_size = strlen(src), ret = 0, i;
	uint8_t *area = malloc(dst_size + GUARD); /* dst_size usable + canary. */
	int error, bad = 0;

	memset(area, 0xAA, (dst_size + GUARD));
	error = xml_encode((const uint8_t*)src, src_size, area, dst_size, &ret);
	for (i = dst_size; i < (dst_size + GUARD); i ++) {
		if (0xAA != area[i]) {
			bad ++;
		}
	}
	printf("xml_encode(\"%s\", %zu, buf, %zu) = %d, reported size %zu, bytes written past buf: %d\n",
	    src, src_size, dst_size, error, ret, bad);
	if (0 == error && ret > dst_size) {
		printf("  FAIL: success returned with reported size %zu > buffer size %zu\n",
		    ret, dst_size);
		bad ++;
	}
	free(area);
	return (bad);
}

int
main(int argc, char **argv) {
	int fails = 0;
	uint8_t buf[64];
	size_t ret = 0;
	int error;

	if (1 < argc && 0 == strcmp(argv[1], "asan")) {
		GUARD = 0;
	}
	/* 1. One special char, buffer big enough for the input but not for "&amp;". */
	fails += try_encode("&", 3);
	/* 2. Nothing to replace at all: tail copy is unchecked. */
	fails += try_encode("0123456789abcdef", 4);
	/* 3. Replacement fits the (wrong) check, tail does not. */
	fails += try_encode("<tag>", 9);

	/* 4. The reverse direction: the same wrong operand makes xml_decode()
	 * refuse a buffer that is large enough (output is 1 byte). */
	error = xml_decode((const uint8_t*)"&apos;", 6, buf, 6, &ret);
	printf("xml_decode(\"&apos;\", 6, buf, 6) = %d (output needs 1 byte)\n", error);
	if (0 != error) {
		printf("  FAIL: decode of a 1 byte result refused with a 6 byte buffer\n");
		fails ++;
	}

	if (0 != fails) {
		printf("FAIL (%d)\n", fails);
		return (1);
	}
	printf("OK\n");
	return (0);
}
