/* ONESHOT read/recv task: data arriving in two fragments is never delivered. */
#include <sys/param.h>
#include <sys/types.h>
#include <sys/socket.h>
#include <inttypes.h>
#include <string.h>
#include <stdio.h>
#include <stdlib.h>
#include <errno.h>
#include <unistd.h>
#include <fcntl.h>
#include <time.h>

#include "threadpool/threadpool.h"
#include "threadpool/threadpool_task.h"

static volatile int cb_calls = 0;
static volatile int cb_error = -2;
static volatile size_t cb_size = 0;
static volatile uint32_t cb_eof = 0;

static int
task_cb(tp_task_p tptask, int error, io_buf_p buf, uint32_t eof,
    size_t transfered_size, void *udata) {
	(void)tptask; (void)buf; (void)udata;
	cb_error = error;
	cb_size = transfered_size;
	cb_eof = eof;
	__sync_synchronize();
	cb_calls ++;
	return (TP_TASK_CB_NONE); /* One shot: never ask to continue. */
}

static void
msleep(long ms) {
	struct timespec ts = { ms / 1000, (ms % 1000) * 1000000L };
	nanosleep(&ts, NULL);
}

static const char *
fl_name(uint16_t f) {
	return ((TP_F_ONESHOT & f) ? "ONESHOT " : ((TP_F_DISPATCH & f) ? "DISPATCH" : "PERSIST "));
}

static int
run(tp_p tp, int is_write, uint64_t timeout, uint16_t evfl) {
	int sp[2], fail = 0;
	tp_task_p tptask = NULL;
	io_buf_p buf;
	int error;
	static uint8_t big[4 * 1024 * 1024];

	cb_calls = 0; cb_error = -2; cb_size = 0; cb_eof = 0;
	if (0 != socketpair(AF_UNIX, SOCK_STREAM, 0, sp)) { perror("socketpair"); return (1); }
	fcntl(sp[0], F_SETFL, O_NONBLOCK);

	if (0 == is_write) {
		buf = io_buf_alloc(IO_BUF_FLAGS_STD, 100);
		IO_BUF_MARK_TRANSFER_ALL_FREE(buf); /* window: 100 bytes. */
		error = tp_task_create_start(tp_thread_get(tp, 0), (uintptr_t)sp[0],
		    tp_task_sr_handler, 0, TP_EV_READ, evfl, timeout, 0, buf,
		    task_cb, NULL, &tptask);
		if (0 != error) { printf("start error %i\n", error); return (1); }
		memset(big, 'a', 100);
		if (50 != write(sp[1], big, 50)) return (1);	/* fragment 1 */
		msleep(200);
		if (50 != write(sp[1], big, 50)) return (1);	/* fragment 2: window is full now */
		msleep(500);
		printf("recv  %s timeout=%"PRIu64": callbacks=%i error=%i transfered=%zu "
		    "buf.used=%zu buf.transfer_size=%zu\n", fl_name(evfl), timeout, cb_calls, cb_error,
		    (size_t)cb_size, buf->used, buf->transfer_size);
		if (1 != cb_calls || 0 != cb_error || 100 != cb_size) {
			printf("FAIL: 100 bytes arrived (50 + 50), expected one callback "
			    "error=0 transfered=100\n");
			fail = 1;
		}
	} else {
		size_t total = sizeof(big), got = 0;
		ssize_t r;
		buf = io_buf_alloc(IO_BUF_F_DATA_ALLOC, total);
		memset(buf->data, 'b', total);
		buf->used = total;
		IO_BUF_MARK_TRANSFER_ALL_USED(buf); /* window: all. */
		error = tp_task_create_start(tp_thread_get(tp, 0), (uintptr_t)sp[0],
		    tp_task_sr_handler, 0, TP_EV_WRITE, evfl, timeout, 0, buf,
		    task_cb, NULL, &tptask);
		if (0 != error) { printf("start error %i\n", error); return (1); }
		msleep(200); /* First send fills the socket buffer. */
		fcntl(sp[1], F_SETFL, O_NONBLOCK);
		for (int i = 0; i < 50; i ++) { /* Drain the peer for 0.5 s. */
			while (0 < (r = read(sp[1], big, sizeof(big)))) got += (size_t)r;
			msleep(10);
		}
		printf("send  %s timeout=%"PRIu64": callbacks=%i error=%i transfered=%zu "
		    "peer got %zu of %zu, buf.transfer_size left=%zu\n", fl_name(evfl), timeout, cb_calls,
		    cb_error, (size_t)cb_size, got, total, buf->transfer_size);
		if (1 != cb_calls || 0 != cb_error || total != cb_size || total != got) {
			printf("FAIL: peer was reading all the time, expected the whole window "
			    "emitted and one callback error=0 transfered=%zu\n", total);
			fail = 1;
		}
	}
	tp_task_destroy(tptask);
	close(sp[0]); close(sp[1]);
	io_buf_free(buf);
	return (fail);
}

int
main(void) {
	tp_p tp = NULL;
	tp_settings_t s;
	int fail = 0;

	tp_settings_def(&s);
	s.threads_max = 1;
	s.flags = 0;
	if (0 != tp_create(&s, &tp)) { printf("tp_create failed\n"); return (2); }
	if (0 != tp_threads_create(tp, 0)) { printf("tp_threads_create failed\n"); return (2); }
	msleep(100);

	/* Control: the same feed with a dispatch task is delivered. */
	if (0 != run(tp, 0, 0, TP_F_DISPATCH) || 0 != run(tp, 1, 0, TP_F_DISPATCH)) {
		printf("harness problem: control failed\n");
		return (2);
	}
	fail |= run(tp, 0, 0, TP_F_ONESHOT);
	fail |= run(tp, 0, 300, TP_F_ONESHOT);
	fail |= run(tp, 1, 0, TP_F_ONESHOT);

	tp_shutdown(tp);
	tp_shutdown_wait(tp);
	tp_destroy(tp);
	printf(fail ? "FAIL\n" : "OK\n");
	return (fail);
}
