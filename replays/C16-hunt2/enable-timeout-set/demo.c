/* A task started without a timeout, whose timeout is set later with
 * tp_task_timeout_set(), can not be continued with tp_task_enable(1):
 * EINVAL, the I/O event stays disabled, no data and no ETIMEDOUT is reported. */
#include <sys/param.h>
#include <sys/types.h>
#include <sys/socket.h>
#include <inttypes.h>
#include <string.h>
#include <stdio.h>
#include <stdlib.h>
#include <errno.h>
#include <unistd.h>
#include <fcntl.h>
#include <time.h>

#include "threadpool/threadpool.h"
#include "threadpool/threadpool_msg_sys.h"
#include "threadpool/threadpool_task.h"

static volatile int cb_calls = 0, cb_last_error = -2, enable_ret = -2, enable_done = 0;
static volatile size_t cb_total = 0;

static int
task_cb(tp_task_p tptask, int error, io_buf_p buf, uint32_t eof,
    size_t transfered_size, void *udata) {
	(void)eof; (void)udata;
	cb_last_error = error;
	cb_total += transfered_size;
	cb_calls ++;
	/* Request head is here: from now on the peer must answer in 200 ms. */
	IO_BUF_MARK_AS_EMPTY(buf);
	IO_BUF_MARK_TRANSFER_ALL_FREE(buf);
	if (1 < cb_calls)
		return ((0 != error) ? TP_TASK_CB_NONE : TP_TASK_CB_CONTINUE);
	tp_task_timeout_set(tptask, 200);
	return (TP_TASK_CB_NONE); /* TP_F_DISPATCH: stay disabled until tp_task_enable(1). */
}

/* Runs on the task's pool thread. */
static void
enable_msg_cb(tpt_p tpt, void *udata) {
	(void)tpt;
	enable_ret = tp_task_enable((tp_task_p)udata, 1);
	__sync_synchronize();
	enable_done = 1;
}

static void
msleep(long ms) {
	struct timespec ts = { ms / 1000, (ms % 1000) * 1000000L };
	nanosleep(&ts, NULL);
}

static int
run(tp_p tp, uint64_t start_timeout) {
	int sp[2], fail = 0, error;
	tp_task_p tptask = NULL;
	io_buf_p buf;
	tpt_p tpt = tp_thread_get(tp, 0);

	cb_calls = 0; cb_last_error = -2; enable_ret = -2; enable_done = 0; cb_total = 0;
	socketpair(AF_UNIX, SOCK_STREAM, 0, sp);
	fcntl(sp[0], F_SETFL, O_NONBLOCK);
	buf = io_buf_alloc(IO_BUF_FLAGS_STD, 64);
	IO_BUF_MARK_TRANSFER_ALL_FREE(buf);
	error = tp_task_create_start(tpt, (uintptr_t)sp[0], tp_task_sr_handler,
	    TP_TASK_F_CB_AFTER_EVERY_READ, TP_EV_READ, TP_F_DISPATCH,
	    start_timeout, 0, buf, task_cb, NULL, &tptask);
	if (0 != error) { printf("start error %i\n", error); return (1); }

	write(sp[1], "hello", 5);
	msleep(100); /* cb #1: 5 bytes, sets timeout 200 ms, returns NONE. */
	tpt_msg_send(tpt, NULL, 0, enable_msg_cb, tptask);
	msleep(100);
	write(sp[1], "world", 5); /* must be delivered: cb #2. */
	msleep(100);
	/* Now silence for 400 ms: must give ETIMEDOUT once: cb #3. */
	msleep(400);

	printf("started with timeout=%"PRIu64": tp_task_enable(1) = %i (%s), callbacks=%i, "
	    "bytes reported=%zu, last error=%i\n", start_timeout, enable_ret,
	    strerror(enable_ret > 0 ? enable_ret : 0), cb_calls, (size_t)cb_total, cb_last_error);
	if (0 != enable_ret || 10 != cb_total || ETIMEDOUT != cb_last_error) {
		printf("FAIL: expected tp_task_enable() = 0, 10 bytes reported and then ETIMEDOUT\n");
		fail = 1;
	}
	tp_task_destroy(tptask);
	close(sp[0]); close(sp[1]);
	io_buf_free(buf);
	return (fail);
}

/* Variant: persistent task, the callback pauses it with tp_task_enable(0). */
static volatile int v_calls = 0, v_disable_ret = -2;
static int
task_v_cb(tp_task_p tptask, int error, io_buf_p buf, uint32_t eof,
    size_t transfered_size, void *udata) {
	(void)error; (void)eof; (void)udata; (void)transfered_size;
	v_calls ++;
	IO_BUF_MARK_AS_EMPTY(buf);
	IO_BUF_MARK_TRANSFER_ALL_FREE(buf);
	if (1 == v_calls) {
		tp_task_timeout_set(tptask, 200);
		/* Header: not TP_F_DISPATCH: call tp_task_enable(0) before a return code other than CONTINUE. */
		v_disable_ret = tp_task_enable(tptask, 0);
	}
	return (TP_TASK_CB_NONE);
}

static int
run_v(tp_p tp) {
	int sp[2], fail = 0;
	tp_task_p tptask = NULL;
	io_buf_p buf;

	socketpair(AF_UNIX, SOCK_STREAM, 0, sp);
	fcntl(sp[0], F_SETFL, O_NONBLOCK);
	buf = io_buf_alloc(IO_BUF_FLAGS_STD, 64);
	IO_BUF_MARK_TRANSFER_ALL_FREE(buf);
	if (0 != tp_task_create_start(tp_thread_get(tp, 0), (uintptr_t)sp[0], tp_task_sr_handler,
	    TP_TASK_F_CB_AFTER_EVERY_READ, TP_EV_READ, 0, 0, 0, buf, task_v_cb, NULL, &tptask))
		return (1);
	write(sp[1], "hello", 5);
	msleep(100);
	write(sp[1], "world", 5); /* Task is paused: no callback expected. */
	msleep(100);
	printf("persistent task, timeout set in callback: tp_task_enable(0) = %i, callbacks=%i\n",
	    v_disable_ret, v_calls);
	if (0 != v_disable_ret || 1 != v_calls) {
		printf("FAIL: expected tp_task_enable(0) = 0 and no callback while paused\n");
		fail = 1;
	}
	tp_task_destroy(tptask);
	close(sp[0]); close(sp[1]);
	io_buf_free(buf);
	return (fail);
}

int
main(void) {
	tp_p tp = NULL;
	tp_settings_t s;
	int fail = 0;

	tp_settings_def(&s);
	s.threads_max = 1;
	s.flags = 0;
	if (0 != tp_create(&s, &tp) || 0 != tp_threads_create(tp, 0)) return (2);
	msleep(100);

	/* Control: the same history, but a timeout was given at start. */
	if (0 != run(tp, 5000)) { printf("harness problem: control failed\n"); return (2); }
	fail |= run(tp, 0);
	fail |= run_v(tp);

	tp_shutdown(tp);
	tp_shutdown_wait(tp);
	tp_destroy(tp);
	printf(fail ? "FAIL\n" : "OK\n");
	return (fail);
}
