/* io_buf_realloc() clamps transfer_size against 'used' instead of the room
 * behind 'offset': after a shrink the I/O window lies behind the buffer (the
 * receive task writes past the allocation), after a grow a receive window
 * is cut down to 'used' bytes. */
#include <sys/param.h>
#include <sys/types.h>
#include <sys/socket.h>
#include <inttypes.h>
#include <string.h>
#include <stdio.h>
#include <stdlib.h>
#include <errno.h>
#include <unistd.h>
#include <fcntl.h>
#include <time.h>

#include "threadpool/threadpool.h"
#include "threadpool/threadpool_task.h"

static volatile int cb_calls;
static volatile size_t cb_size;

static void
msleep(long ms) {
	struct timespec ts = { ms / 1000, (ms % 1000) * 1000000L };
	nanosleep(&ts, NULL);
}

static int
recv_cb(tp_task_p tptask, int error, io_buf_p buf, uint32_t eof,
    size_t transfered_size, void *udata) {
	(void)error; (void)eof; (void)buf; (void)udata;
	cb_calls ++;
	cb_size = transfered_size;
	tp_task_stop(tptask);
	return (TP_TASK_CB_NONE);
}

int
main(void) {
	tp_p tp = NULL;
	tp_settings_t s;
	tp_task_p tptask;
	io_buf_p buf;
	int fail = 0, sp[2], error;
	uint8_t data[4096];

	setvbuf(stdout, NULL, _IONBF, 0);
	memset(data, 'd', sizeof(data));

	/* Grow: 10 bytes are in, receive window is the 90 free bytes. */
	buf = io_buf_alloc(IO_BUF_F_DATA_ALLOC, 100);
	buf->used = 10;
	IO_BUF_MARK_TRANSFER_ALL_FREE(buf); /* offset = 10, transfer_size = 90. */
	error = io_buf_realloc(&buf, 0, 200);
	printf("grow 100 -> 200: error=%i size=%zu used=%zu offset=%zu transfer_size=%zu\n",
	    error, buf->size, buf->used, buf->offset, buf->transfer_size);
	if (0 != error || 90 != buf->transfer_size) {
		printf("FAIL: the 90 byte window fits the bigger buffer, expected it unchanged\n");
		fail = 1;
	}
	io_buf_free(buf);

	/* Shrink: 60 bytes are in, receive window is the 40 free bytes. */
	buf = io_buf_alloc(IO_BUF_F_DATA_ALLOC, 100);
	buf->used = 60;
	IO_BUF_MARK_TRANSFER_ALL_FREE(buf); /* offset = 60, transfer_size = 40. */
	error = io_buf_realloc(&buf, 0, 80);
	printf("shrink 100 -> 80: error=%i size=%zu used=%zu offset=%zu transfer_size=%zu\n",
	    error, buf->size, buf->used, buf->offset, buf->transfer_size);
	if (0 != error || (buf->offset + buf->transfer_size) > buf->size) {
		printf("FAIL: offset + transfer_size = %zu is behind the buffer (size %zu)\n",
		    (buf->offset + buf->transfer_size), buf->size);
		fail = 1;
	}

	/* What the receive task does with it (ASan: heap-buffer-overflow in recv). */
	tp_settings_def(&s);
	s.threads_max = 1;
	s.flags = 0;
	if (0 != tp_create(&s, &tp) || 0 != tp_threads_create(tp, 0)) return (2);
	msleep(100);
	socketpair(AF_UNIX, SOCK_STREAM, 0, sp);
	fcntl(sp[0], F_SETFL, O_NONBLOCK);
	cb_calls = 0;
	if (0 != tp_task_create_start(tp_thread_get(tp, 0), (uintptr_t)sp[0],
	    tp_task_sr_handler, 0, TP_EV_READ, TP_F_DISPATCH, 0, 0, buf, recv_cb,
	    NULL, &tptask)) return (2);
	write(sp[1], data, 1000);
	msleep(300);
	printf("receive task: callbacks=%i transfered=%zu into a buffer with %zu bytes behind offset\n",
	    cb_calls, (size_t)cb_size, (size_t)(80 - 60));
	if (20 < cb_size)
		fail = 1;
	tp_task_destroy(tptask);
	close(sp[0]); close(sp[1]);
	io_buf_free(buf);
	tp_shutdown(tp);
	tp_shutdown_wait(tp);
	tp_destroy(tp);
	printf(fail ? "FAIL\n" : "OK\n");
	return (fail);
}
