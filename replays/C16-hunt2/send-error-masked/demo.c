/* A send task is told EPIPE instead of the socket's error: the pool takes
 * SO_ERROR (ECONNREFUSED / ECONNRESET) into the event, the handler then calls
 * send() anyway and reports send()'s errno. */
#include <sys/param.h>
#include <sys/types.h>
#include <sys/socket.h>
#include <netinet/in.h>
#include <inttypes.h>
#include <string.h>
#include <stdio.h>
#include <stdlib.h>
#include <errno.h>
#include <unistd.h>
#include <fcntl.h>
#include <time.h>

#include "threadpool/threadpool.h"
#include "threadpool/threadpool_task.h"

static volatile int cb_calls, cb_error;

static void
msleep(long ms) {
	struct timespec ts = { ms / 1000, (ms % 1000) * 1000000L };
	nanosleep(&ts, NULL);
}

static int
send_cb(tp_task_p tptask, int error, io_buf_p buf, uint32_t eof,
    size_t transfered_size, void *udata) {
	(void)buf; (void)udata;
	cb_calls ++;
	cb_error = error;
	printf("   send cb: error=%i (%s) eof=%u transfered=%zu\n", error,
	    strerror(error), eof, transfered_size);
	tp_task_stop(tptask);
	return (TP_TASK_CB_NONE);
}

static int
connect_cb(tp_task_p tptask, int error, void *udata) {
	(void)tptask; (void)udata;
	cb_calls ++;
	cb_error = error;
	printf("   connect cb: error=%i (%s)\n", error, strerror(error));
	return (TP_TASK_CB_NONE);
}

int
main(void) {
	tp_p tp = NULL;
	tp_settings_t s;
	tpt_p tpt;
	tp_task_p tptask;
	io_buf_p buf;
	uintptr_t skt;
	int fail = 0, sp[2], ls;
	struct sockaddr_storage ss;
	struct sockaddr_in *sin = (struct sockaddr_in*)&ss;
	socklen_t sl = sizeof(struct sockaddr_in);

	setvbuf(stdout, NULL, _IONBF, 0);
	tp_settings_def(&s);
	s.threads_max = 1;
	s.flags = 0;
	if (0 != tp_create(&s, &tp) || 0 != tp_threads_create(tp, 0)) return (2);
	tpt = tp_thread_get(tp, 0);
	msleep(100);

	/* 1. AF_UNIX, no network needed: peer closes with unread data: our end gets ECONNRESET. */
	printf("1. send task on a socketpair, the peer closes with unread data (SO_ERROR = ECONNRESET)\n");
	socketpair(AF_UNIX, SOCK_STREAM, 0, sp);
	fcntl(sp[0], F_SETFL, O_NONBLOCK);
	write(sp[0], "zz", 2); /* Peer never reads this. */
	buf = io_buf_alloc(IO_BUF_F_DATA_ALLOC, (1 << 20));
	memset(buf->data, 'x', buf->size);
	buf->used = buf->size;
	IO_BUF_MARK_TRANSFER_ALL_USED(buf);
	cb_calls = 0; cb_error = -2;
	if (0 != tp_task_create_start(tpt, (uintptr_t)sp[0], tp_task_sr_handler, 0,
	    TP_EV_WRITE, 0, 0, 0, buf, send_cb, NULL, &tptask)) return (2);
	msleep(100); /* Socket buffer is full now, the task waits. */
	close(sp[1]);
	msleep(200);
	if (1 != cb_calls || ECONNRESET != cb_error) {
		printf("   FAIL: expected one callback with ECONNRESET (%i)\n", ECONNRESET);
		fail = 1;
	}
	tp_task_destroy(tptask);
	close(sp[0]);
	io_buf_free(buf);

	/* 2. Loopback TCP: a port nobody listens on. */
	ls = socket(AF_INET, SOCK_STREAM, 0);
	memset(&ss, 0, sizeof(ss));
	sin->sin_family = AF_INET;
	sin->sin_addr.s_addr = htonl(INADDR_LOOPBACK);
	if (-1 == ls || 0 != bind(ls, (struct sockaddr*)sin, sizeof(*sin)) ||
	    0 != getsockname(ls, (struct sockaddr*)sin, &sl)) {
		printf("2. no loopback TCP here: skipped\n");
		goto done;
	}
	close(ls); /* The port is free and refused now. */

	printf("2a. control: tp_task_connect_create() to the refused port\n");
	if (0 != skt_connect(&ss, SOCK_STREAM, 0, SO_F_NONBLOCK, &skt)) { printf("   skipped\n"); goto done; }
	cb_calls = 0; cb_error = -2;
	tp_task_connect_create(tpt, skt, TP_TASK_F_CLOSE_ON_DESTROY, 1000, connect_cb, NULL, &tptask);
	msleep(200);
	tp_task_destroy(tptask);
	if (ECONNREFUSED != cb_error) { printf("   harness problem\n"); return (2); }

	printf("2b. tp_task_connect_send_create() to the refused port\n");
	if (0 != skt_connect(&ss, SOCK_STREAM, 0, SO_F_NONBLOCK, &skt)) { printf("   skipped\n"); goto done; }
	buf = io_buf_alloc(IO_BUF_FLAGS_STD, 100);
	memset(buf->data, 'x', 100);
	buf->used = 100;
	IO_BUF_MARK_TRANSFER_ALL_USED(buf);
	cb_calls = 0; cb_error = -2;
	tp_task_connect_send_create(tpt, skt, TP_TASK_F_CLOSE_ON_DESTROY, 1000, buf,
	    send_cb, NULL, &tptask);
	msleep(200);
	if (1 != cb_calls || ECONNREFUSED != cb_error) {
		printf("   FAIL: expected one callback with ECONNREFUSED (%i)\n", ECONNREFUSED);
		fail = 1;
	}
	tp_task_destroy(tptask);
	io_buf_free(buf);

done:
	tp_shutdown(tp);
	tp_shutdown_wait(tp);
	tp_destroy(tp);
	printf(fail ? "FAIL\n" : "OK\n");
	return (fail);
}
