/* tp_task_timeout_set(task, 0) while the task waits: the header says the new
 * value applies on continue after the next callback.  The I/O path touches the
 * armed timer only while ->timeout != 0, so the old timer keeps running and
 * ETIMEDOUT is reported although timeouts are off and data has just arrived. */
#include <sys/param.h>
#include <sys/types.h>
#include <sys/socket.h>
#include <inttypes.h>
#include <string.h>
#include <stdio.h>
#include <stdlib.h>
#include <errno.h>
#include <unistd.h>
#include <fcntl.h>
#include <time.h>

#include "threadpool/threadpool.h"
#include "threadpool/threadpool_msg_sys.h"
#include "threadpool/threadpool_task.h"

static volatile int cb_calls, tmo_calls;
static volatile size_t cb_bytes;
static uint64_t t0;

static uint64_t
now_ms(void) {
	struct timespec ts;
	clock_gettime(CLOCK_MONOTONIC, &ts);
	return (((uint64_t)ts.tv_sec * 1000) + ((uint64_t)ts.tv_nsec / 1000000));
}

static void
msleep(long ms) {
	struct timespec ts = { ms / 1000, (ms % 1000) * 1000000L };
	nanosleep(&ts, NULL);
}

static int
recv_cb(tp_task_p tptask, int error, io_buf_p buf, uint32_t eof,
    size_t transfered_size, void *udata) {
	(void)tptask; (void)udata;
	printf("   [%4"PRIu64" ms] cb: error=%i eof=%u transfered=%zu (task timeout is %"PRIu64")\n",
	    (now_ms() - t0), error, eof, transfered_size, tp_task_timeout_get(tptask));
	cb_calls ++;
	cb_bytes += transfered_size;
	if (ETIMEDOUT == error)
		tmo_calls ++;
	IO_BUF_MARK_AS_EMPTY(buf);
	IO_BUF_MARK_TRANSFER_ALL_FREE(buf);
	return (TP_TASK_CB_CONTINUE);
}

/* Runs on the task's pool thread. */
static void
timeout_off_msg_cb(tpt_p tpt, void *udata) {
	(void)tpt;
	tp_task_timeout_set((tp_task_p)udata, 0);
}

static int
run(tp_p tp, uint16_t evfl) {
	tp_task_p tptask;
	io_buf_p buf;
	int sp[2], fail = 0;
	tpt_p tpt = tp_thread_get(tp, 0);

	printf("%s recv task, timeout 300 ms; at 50 ms tp_task_timeout_set(0); at 100 ms 5 bytes arrive\n",
	    (0 != evfl) ? "dispatch" : "persistent");
	socketpair(AF_UNIX, SOCK_STREAM, 0, sp);
	fcntl(sp[0], F_SETFL, O_NONBLOCK);
	buf = io_buf_alloc(IO_BUF_FLAGS_STD, 64);
	IO_BUF_MARK_TRANSFER_ALL_FREE(buf);
	cb_calls = 0; tmo_calls = 0; cb_bytes = 0;
	t0 = now_ms();
	if (0 != tp_task_create_start(tpt, (uintptr_t)sp[0], tp_task_sr_handler,
	    TP_TASK_F_CB_AFTER_EVERY_READ, TP_EV_READ, evfl, 300, 0, buf, recv_cb,
	    NULL, &tptask)) return (2);
	msleep(50);
	tpt_msg_send(tpt, NULL, 0, timeout_off_msg_cb, tptask);
	msleep(50);
	write(sp[1], "hello", 5);
	msleep(600);
	printf("   callbacks=%i bytes=%zu ETIMEDOUT callbacks=%i\n", cb_calls,
	    (size_t)cb_bytes, tmo_calls);
	if (5 != cb_bytes || 0 != tmo_calls) {
		printf("   FAIL: timeout was switched off before the data callback, expected no ETIMEDOUT\n");
		fail = 1;
	}
	tp_task_destroy(tptask);
	close(sp[0]); close(sp[1]);
	io_buf_free(buf);
	return (fail);
}

int
main(void) {
	tp_p tp = NULL;
	tp_settings_t s;
	int fail = 0;

	setvbuf(stdout, NULL, _IONBF, 0);
	tp_settings_def(&s);
	s.threads_max = 1;
	s.flags = 0;
	if (0 != tp_create(&s, &tp) || 0 != tp_threads_create(tp, 0)) return (2);
	msleep(100);
	fail |= run(tp, 0);
	fail |= run(tp, TP_F_DISPATCH);
	tp_shutdown(tp);
	tp_shutdown_wait(tp);
	tp_destroy(tp);
	printf(fail ? "FAIL\n" : "OK\n");
	return (fail);
}
