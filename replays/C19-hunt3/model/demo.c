/* Model based random test of ring_buffer.c: one writer, several readers. */
#include <sys/param.h>
#include <sys/types.h>
#include <inttypes.h>
#include <stdlib.h>
#include <string.h>
#include <stdio.h>
#include <errno.h>
#include <signal.h>
#include "utils/ring_buffer.h"

typedef struct { size_t start, len; uint64_t soff; size_t round, idx; int live; } blk_t;
static blk_t *blks; static size_t nblk, cblk, first_live;
static uint64_t total;
static r_buf_p rb;
static volatile sig_atomic_t trapped;
static void on_trap(int s) { (void)s; trapped = 1; }

static uint64_t rs = 88172645463325252ULL;
static uint64_t rnd(void) { rs ^= rs << 13; rs ^= rs >> 7; rs ^= rs << 17; return rs; }
static size_t rr(size_t lo, size_t hi) { return lo + (size_t)(rnd() % (hi - lo + 1)); }
static uint8_t fb(uint64_t off) { return (uint8_t)((off * 2654435761ULL) >> 11) ^ (uint8_t)(off >> 3); }

static int verbose = 0;
static unsigned long st_drop, st_wrap, st_read, st_bytes, st_prev, st_init_prev;
static unsigned long seed_g;
static long step_g;
#define FAIL(...) do { printf("FAIL seed=%lu step=%ld: ", seed_g, step_g); printf(__VA_ARGS__); printf("\n"); return 1; } while (0)

static void kill_region(size_t s, size_t e) {
	for (size_t i = first_live; i < nblk; i++) {
		if (blks[i].live && blks[i].start < e && s < blks[i].start + blks[i].len)
			blks[i].live = 0;
	}
	while (first_live < nblk && !blks[first_live].live) first_live++;
}
static void add_blk(size_t start, size_t len, size_t round, size_t idx) {
	if (nblk == cblk) { cblk = cblk ? cblk * 2 : 1024; blks = realloc(blks, cblk * sizeof(blk_t)); }
	blks[nblk].start = start; blks[nblk].len = len; blks[nblk].soff = total;
	blks[nblk].round = round; blks[nblk].idx = idx; blks[nblk].live = 1;
	for (size_t i = 0; i < len; i++) rb->buf[start + i] = fb(total + i);
	total += len; nblk++;
}
static long find_blk_soff(uint64_t c) { /* block containing stream offset c */
	for (size_t i = nblk; i-- > 0;) {
		if (blks[i].soff <= c) { if (c < blks[i].soff + blks[i].len) return (long)i; return -1; }
	}
	return -1;
}
static long find_blk_ri(size_t round, size_t idx) {
	for (size_t i = nblk; i-- > 0;) {
		if (blks[i].round == round && blks[i].idx == idx) return (long)i;
		if (nblk - i > 100000) break;
	}
	return -1;
}
/* stream offset an rpos designates, or (uint64_t)-1 when unknown */
static uint64_t derive(r_buf_rpos_p rp) {
	size_t uncom = rb->iov_index + ((0 != rb->iov[rb->iov_index].iov_len) ? 1 : 0);
	long b;
	if (rp->round_num == rb->round_num) {
		if (rp->iov_index >= uncom) return total;
		b = find_blk_ri(rp->round_num, rp->iov_index);
		if (b < 0) return (uint64_t)-1;
		return blks[b].soff + rp->iov_off;
	}
	if ((size_t)(rp->round_num + 1) == rb->round_num) {
		if (rp->iov_index > rb->iov_index_max) {
			b = find_blk_ri(rb->round_num, 0);
			if (b < 0) return total;
			return blks[b].soff;
		}
		b = find_blk_ri(rp->round_num, rp->iov_index);
		if (b < 0) return (uint64_t)-1;
		return blks[b].soff + rp->iov_off;
	}
	return (uint64_t)-1;
}

#define NRD 4
typedef struct { r_buf_rpos_t rp; uint64_t cur; int active; size_t pend; int lapped; } rd_t;
static int opt_delay = 0, opt_dropchk = 0;
static unsigned long st_under, st_over, st_lapinc;
static rd_t rd[NRD];
#define IOVN 4096
static iovec_t iov[IOVN];

/* verify returned iovecs against the model starting at stream offset c; returns bytes or -1 */
static long long verify(uint64_t c, size_t n, const char **why) {
	long long tot = 0;
	for (size_t k = 0; k < n; k++) {
		uint8_t *p = iov[k].iov_base; size_t l = iov[k].iov_len;
		if (p < rb->buf || p + l > rb->buf + rb->size || l > rb->size) { *why = "region outside ring storage"; return -1; }
		if (l == 0) { *why = "empty region returned"; return -1; }
		while (l > 0) {
			long b = find_blk_soff(c);
			if (b < 0) { *why = "data returned beyond written stream"; return -1; }
			size_t o = (size_t)(c - blks[b].soff), take = blks[b].len - o;
			if (!blks[b].live) { *why = "overwritten block returned as in sequence"; return -1; }
			if (p != rb->buf + blks[b].start + o) { *why = "wrong address (out of order / repeated / skipped)"; return -1; }
			if (take > l) { *why = "region ends inside a block"; return -1; }
			for (size_t i = 0; i < take; i++) if (p[i] != fb(c + i)) { *why = "bytes differ"; return -1; }
			p += take; l -= take; c += take; tot += (long long)take;
		}
	}
	return tot;
}

static int run(unsigned long seed, long steps) {
	seed_g = seed; rs = seed * 6364136223846793005ULL + 1442695040888963407ULL; if (!rs) rs = 1;
	for (int i = 0; i < 5; i++) rnd();
	size_t minb = rr(1, 24);
	size_t size = minb * rr(1, 12) + rr(0, minb * 3);
	if (rnd() % 4 == 0) { minb = rr(1, 4); size = rr(minb, 64); }
	nblk = 0; first_live = 0; total = 0; trapped = 0;
	rb = r_buf_alloc((uintptr_t)-1, size, minb);
	if (!rb) { printf("alloc failed\n"); return 2; }
	memset(rd, 0, sizeof(rd));
	int use_set2 = (int)(rnd() % 3); /* 0: set only, 1: set2 only, 2: mixed */
	int use_off = (int)(rnd() % 2);
	int have_buf = 0; uint8_t *wb = NULL; size_t wsz = 0;
	long translate_at = (long)rr(0, (size_t)steps);

	for (step_g = 0; step_g < steps; step_g++) {
		if (step_g == translate_at) { /* shift all round counters: equivalent history near counter wrap */
			size_t K = (size_t)0 - rb->round_num - rr(1, 3);
			for (size_t i = 0; i < nblk; i++) blks[i].round += K;
			for (int r = 0; r < NRD; r++) if (rd[r].active) rd[r].rp.round_num += K;
			rb->round_num += K;
		}
		unsigned op = (unsigned)(rnd() % 10);
		if (op < 4) { /* writer */
			if (!have_buf || rnd() % 8 == 0) {
				size_t want = (rnd() % 3 == 0) ? 0 : rr(minb, MIN(size, minb * 6));
				if (rnd() % 16 == 0) want = size;
				size_t rnd_before = rb->round_num;
				wsz = r_buf_wbuf_get(rb, want, &wb);
				if (wsz == 0) FAIL("wbuf_get(%zu) returned 0", want);
				if (wb < rb->buf || wb + wsz > rb->buf + size) FAIL("writer region outside ring: off %td len %zu size %zu", wb - rb->buf, wsz, size);
				if (wsz < want || wsz < minb) FAIL("writer region too small %zu (want %zu minb %zu)", wsz, want, minb);
				if (rb->iov_index + 1 >= rb->iov_count) FAIL("iov table overflow idx %zu cnt %zu", rb->iov_index, rb->iov_count);
				if (rnd_before != rb->round_num) st_wrap++;
				have_buf = 1;
				continue;
			}
			/* commit */
			size_t off = (use_off && rnd() % 3 == 0 && wsz > minb) ? rr(1, MIN(wsz - minb, 9)) : 0;
			size_t len = rr(minb, MIN(wsz - off, minb * 5));
			size_t ws = (size_t)(wb - rb->buf);
			int s2 = (use_set2 == 2) ? (int)(rnd() % 2) : use_set2;
			size_t idx = rb->iov_index, round = rb->round_num;
			kill_region(ws, ws + off + len);
			memset(wb, 0xEE, off);
			int e;
			if (s2) {
				r_buf_rpos_t wr;
				e = r_buf_wbuf_set2(rb, wb + off, len, &wr);
				if (e) FAIL("set2 refused legal commit off %zu len %zu wsz %zu", off, len, wsz);
				add_blk(ws + off, len, round, idx);
				/* chained commit allowed in what is left */
				wb += off + len; wsz -= off + len;
				have_buf = (wsz >= minb && rnd() % 2) ? 1 : 0;
				uint64_t d = derive(&wr);
				if (d != blks[nblk - 1].soff) FAIL("set2 rpos does not designate the committed block");
			} else {
				e = r_buf_wbuf_set(rb, off, off + len);
				if (e) FAIL("set refused legal commit off %zu len %zu wsz %zu", off, len, wsz);
				add_blk(ws + off, len, round, idx);
				have_buf = 0;
			}
			if (rb->wpos > size) FAIL("wpos beyond size");
			continue;
		}
		int r = (int)(rnd() % NRD);
		rd_t *R = &rd[r];
		if (!R->active || rnd() % 200 == 0) { /* (re)init reader */
			size_t hist = (rnd() % 2) ? 0 : rr(0, size * 2);
			if (r_buf_rpos_init(rb, &R->rp, hist)) FAIL("rpos_init failed");
			uint64_t d = derive(&R->rp);
			if (d == (uint64_t)-1) FAIL("rpos_init(%zu) gave undesignated position r%zu/%zu i%zu (max %zu cur %zu)", hist, R->rp.round_num, rb->round_num, R->rp.iov_index, rb->iov_index_max, rb->iov_index);
			R->cur = d; R->active = 1; R->pend = 0; R->lapped = 0; if (R->rp.round_num != rb->round_num) st_init_prev++;
			if (d < total) {
				long b = find_blk_soff(d);
				if (b < 0 || !blks[b].live) FAIL("rpos_init(%zu) placed reader on overwritten block", hist);
			}
			continue;
		}
		if (R->pend) { /* delayed advance */
			size_t adv = R->pend; R->pend = 0;
			int dead = 0;
			for (uint64_t c = R->cur; c < R->cur + adv;) { long b = find_blk_soff(c); if (!blks[b].live) dead = 1; c = blks[b].soff + blks[b].len; }
			{ long b = find_blk_soff(R->cur + adv); if (b >= 0 && !blks[b].live) dead = 1; }
			if (getenv("LAPOK") && !r_buf_rpos_check_fast(rb, &R->rp)) dead = 1;
			r_buf_rpos_inc(rb, &R->rp, adv);
			R->cur += adv;
			if (dead) { R->lapped = 1; st_lapinc++; trapped = 0; }
			else {
				if (trapped) FAIL("delayed rpos_inc(%zu) hit the must-never-happen branch", adv);
				uint64_t d = derive(&R->rp);
				if (d != R->cur) FAIL("delayed rpos_inc(%zu) moved reader to %" PRIu64 ", expected %" PRIu64 " (rpos r%zu i%zu o%zu ring r%zu i%zu max %zu)", adv, d, R->cur,
				    R->rp.round_num, R->rp.iov_index, R->rp.iov_off, rb->round_num, rb->iov_index, rb->iov_index_max);
			}
		}
		/* read */
		{ r_buf_rpos_t t = R->rp, t2 = R->rp; size_t dd = 0; int f = r_buf_rpos_check_fast(rb, &t);
		  size_t a = r_buf_data_avail_size(rb, &t2, &dd);
		  int moved = (derive(&t2) != derive(&R->rp));
		  if (f && (dd || moved)) FAIL("check_fast says valid but reader is resynchronised (drop %zu)", dd);
		  if (!f && !dd && !moved && !(R->rp.round_num == rb->round_num)) FAIL("check_fast says invalid but reader is served (avail %zu) rpos r%zu i%zu ring r%zu i%zu max %zu", a, R->rp.round_num, R->rp.iov_index, rb->round_num, rb->iov_index, rb->iov_index_max);
		}
		size_t drop = 0, drop2 = 0, got = 0;
		int full = (int)(rnd() % 2);
		size_t req = full ? (size_t)1 << 40 : rr(1, size + 4);
		size_t icnt = full ? IOVN : rr(1, 6);
		size_t avail = 0; int did_avail = 0;
		r_buf_rpos_t before = R->rp;
		if (rnd() % 2) {
			avail = r_buf_data_avail_size(rb, &R->rp, &drop2); did_avail = 1;
			if (drop2) { /* resynchronised */
				if (opt_dropchk && !R->lapped) { if (drop2 < total - R->cur) { st_under++; if (opt_dropchk > 1) FAIL("drop %zu under-reports skipped %" PRIu64 " (size %zu) before r%zu i%zu o%zu ring r%zu i%zu max %zu wpos %zu", drop2, total - R->cur, rb->size, before.round_num, before.iov_index, before.iov_off, rb->round_num, rb->iov_index, rb->iov_index_max, rb->wpos); } else if (drop2 > total - R->cur + 2 * rb->size) st_over++; }
				R->lapped = 0;
				st_drop++; if (verbose) printf("r%d drop %zu (skipped %" PRIu64 ")\n", r, drop2, total - R->cur);
				R->cur = total;
				if (derive(&R->rp) != total) FAIL("resync (avail) not at writer position");
				continue;
			}
		}
		size_t n = r_buf_data_get(rb, &R->rp, req, iov, icnt, &drop, &got);
		if (n > icnt) FAIL("more regions than slots");
		if (drop) {
			if (n) FAIL("data and drop together");
			if (opt_dropchk && !R->lapped) { if (drop < total - R->cur) { st_under++; if (opt_dropchk > 1) FAIL("drop %zu under-reports skipped %" PRIu64 " (size %zu) before r%zu i%zu o%zu ring r%zu i%zu max %zu wpos %zu", drop, total - R->cur, rb->size, before.round_num, before.iov_index, before.iov_off, rb->round_num, rb->iov_index, rb->iov_index_max, rb->wpos); } else if (drop > total - R->cur + 2 * rb->size) st_over++; }
			R->lapped = 0;
			if (did_avail) FAIL("drop %zu reported by get right after avail_size reported none (avail %zu)", drop, avail);
			st_drop++; R->cur = total;
			if (derive(&R->rp) != total) FAIL("resync (get) not at writer position");
			continue;
		}
		uint64_t d = derive(&R->rp);
		if (R->lapped && getenv("LAPOK")) { R->active = 0; R->lapped = 0; continue; }
		if (R->lapped) {
			if (n) { const char *w = ""; long long vv = verify(R->cur, n, &w);
				FAIL("reader %d lapped between get and inc, next get reports no drop and returns %zu regions (%s)", r, n, vv < 0 ? w : "consistent"); }
			if (d == total) { R->cur = total; R->lapped = 0; continue; }
			continue;
		}
		if (d != R->cur) {
			FAIL("reader %d silently moved: model %" PRIu64 " rpos designates %" PRIu64 " total %" PRIu64 " (before r%zu i%zu o%zu after r%zu i%zu o%zu; ring r%zu i%zu max %zu wpos %zu)", r, R->cur, d, total,
			    before.round_num, before.iov_index, before.iov_off, R->rp.round_num, R->rp.iov_index, R->rp.iov_off, rb->round_num, rb->iov_index, rb->iov_index_max, rb->wpos);
		}
		const char *why = "";
		long long v = verify(R->cur, n, &why);
		if (v < 0) FAIL("reader %d get(req %zu, cnt %zu) -> %zu regions: %s (cur %" PRIu64 " total %" PRIu64 " rpos r%zu i%zu o%zu ring r%zu i%zu max %zu wpos %zu flags %u)", r, req, icnt, n, why, R->cur, total,
		    R->rp.round_num, R->rp.iov_index, R->rp.iov_off, rb->round_num, rb->iov_index, rb->iov_index_max, rb->wpos, rb->flags);
		st_read++; st_bytes += got; if (got && before.round_num != rb->round_num) st_prev++;
		if ((size_t)v != got) FAIL("data_size_ret %zu but regions hold %lld", got, v);
		if (got > req) FAIL("more than requested");
		if (full) {
			if (got != total - R->cur) FAIL("full read returned %zu of %" PRIu64 " unread bytes, no drop (rpos r%zu i%zu o%zu ring r%zu i%zu max %zu wpos %zu flags %u)", got, total - R->cur,
			    R->rp.round_num, R->rp.iov_index, R->rp.iov_off, rb->round_num, rb->iov_index, rb->iov_index_max, rb->wpos, rb->flags);
			if (did_avail && avail != got) FAIL("avail_size %zu != full read %zu (rpos r%zu i%zu o%zu ring r%zu i%zu max %zu wpos %zu flags %u)", avail, got,
			    R->rp.round_num, R->rp.iov_index, R->rp.iov_off, rb->round_num, rb->iov_index, rb->iov_index_max, rb->wpos, rb->flags);
		} else if (got == 0 && R->cur < total) {
			long b = find_blk_soff(R->cur);
			size_t rem = blks[b].len - (size_t)(R->cur - blks[b].soff);
			if (rem <= req) FAIL("nothing returned although first block remainder %zu <= req %zu", rem, req);
		}
		if (got) {
			size_t adv = (rnd() % 3) ? got : rr(1, got);
			if (opt_delay && rnd() % 2) { R->pend = adv; continue; }
			r_buf_rpos_inc(rb, &R->rp, adv);
			if (trapped) FAIL("rpos_inc(%zu of %zu) hit the must-never-happen branch", adv, got);
			R->cur += adv;
			d = derive(&R->rp);
			if (d != R->cur) FAIL("rpos_inc(%zu) moved reader to %" PRIu64 ", expected %" PRIu64 " (rpos r%zu i%zu o%zu ring r%zu i%zu max %zu)", adv, d, R->cur,
			    R->rp.round_num, R->rp.iov_index, R->rp.iov_off, rb->round_num, rb->iov_index, rb->iov_index_max);
		}
	}
	r_buf_free(rb);
	return 0;
}

int main(int argc, char **argv) {
	unsigned long s0 = argc > 1 ? strtoul(argv[1], NULL, 0) : 1;
	unsigned long cnt = argc > 2 ? strtoul(argv[2], NULL, 0) : 200;
	long steps = argc > 3 ? atol(argv[3]) : 20000;
	int maxfail = argc > 4 ? atoi(argv[4]) : 1;
	int fails = 0;
	if (getenv("DELAY")) opt_delay = 1;
	if (getenv("DROPCHK")) opt_dropchk = atoi(getenv("DROPCHK"));
	signal(SIGTRAP, on_trap);
	for (unsigned long s = s0; s < s0 + cnt; s++) {
		int e = run(s, steps);
		if (e) { fails++; if (fails >= maxfail) break; }
	}
	printf("under %lu over %lu lapinc %lu\n", st_under, st_over, st_lapinc);
	printf("drops %lu wraps %lu reads %lu bytes %lu prevround-reads %lu init-prev %lu\n", st_drop, st_wrap, st_read, st_bytes, st_prev, st_init_prev);
	printf("%s (%d failing seeds)\n", fails ? "FAIL" : "PASS", fails);
	return fails ? 1 : 0;
}
