#!/bin/sh
T=${1:-/tmp/hunt/C19}
D=$(dirname "$(readlink -f "$0")")
[ $# -gt 0 ] && shift
clang -g -O1 -fsanitize=address,undefined -fno-sanitize-recover=undefined -w \
 -DHAVE_ACCEPT4 -DHAVE_EXPLICIT_BZERO -DHAVE_MEMMEM -DHAVE_MEMRCHR -DHAVE_PIPE2 -DHAVE_POSIX_SPAWN_FILE_ACTIONS_ADDCLOSEFROM_NP -DHAVE_PTHREAD_SETNAME_NP -DHAVE_REALLOCARRAY -DHAVE_SOCK_CLOEXEC -DHAVE_SOCK_NONBLOCK -DHAVE_STRNCASECMP -DLINUX -D_GNU_SOURCE -D__USE_GNU=1 \
 -I"$T/include" "$D/demo.c" "$T/src/utils/ring_buffer.c" -o "$D/demo.bin" || exit 2
ASAN_OPTIONS=detect_leaks=0 "$D/demo.bin" "$@"
