/* A reader that is overrun between r_buf_data_get() and r_buf_rpos_inc() is
 * advanced through the rewritten block table: it lands on a wrong block of
 * the previous round that still passes the validity check; live, unread
 * blocks are skipped and nothing is reported as dropped. */
#include <sys/param.h>
#include <sys/types.h>
#include <inttypes.h>
#include <string.h>
#include <stdio.h>
#include <errno.h>
#include <signal.h>
#include "utils/ring_buffer.h"
static volatile sig_atomic_t trapped;
static void on_trap(int s) { (void)s; trapped = 1; }

static r_buf_p rb;
static void put(size_t want, size_t len, uint8_t v) {
	uint8_t *b; size_t n = r_buf_wbuf_get(rb, want, &b);
	if (n < len) { printf("wbuf_get\n"); _exit(2); }
	memset(b, v, len);
	if (r_buf_wbuf_set(rb, 0, len)) { printf("wbuf_set\n"); _exit(2); }
}
int main(void) {
	r_buf_rpos_t rp; iovec_t iov[8]; size_t drop = 0, got = 0, n, i;
	rb = r_buf_alloc((uintptr_t)-1, 100, 10);
	r_buf_rpos_init(rb, &rp, 0);
	put(40, 40, 0x00);                                   /* round 0: block 0 = 40 bytes */
	for (i = 1; i <= 6; i++) put(10, 10, (uint8_t)i);    /* blocks 1..6 = 10 bytes, value = index */
	n = r_buf_data_get(rb, &rp, 40, iov, 8, &drop, &got);/* reader is handed block 0 (e.g. starts a send) */
	printf("get: %zu region(s), %zu bytes, drop %zu\n", n, got, drop);
	put(100, 10, 0xAA);                                  /* writer wraps, round 1, block 0 = 10 bytes [0,10) */
	printf("check_fast before advance: %d (0 = reader no longer valid)\n", r_buf_rpos_check_fast(rb, &rp));
	r_buf_rpos_inc(rb, &rp, got);                        /* send finished: advance by what was handed out */
	printf("after inc(40): round %zu index %zu off %zu; check_fast %d\n", rp.round_num, rp.iov_index, rp.iov_off, r_buf_rpos_check_fast(rb, &rp));
	drop = 0; got = 0;
	n = r_buf_data_get(rb, &rp, 1000, iov, 8, &drop, &got);
	printf("next get: %zu region(s), %zu bytes, drop %zu, first byte 0x%02x at offset %td\n", n, got, drop,
	    n ? iov[0].iov_base[0] : 0, n ? iov[0].iov_base - rb->buf : 0);
	/* In sequence the next unread block is block 1 (value 1, offset 40), still intact. */
	int bad = 0;
	if (n && 0 == drop && (iov[0].iov_base != rb->buf + 40 || iov[0].iov_base[0] != 1)) {
		printf("FAIL: blocks 1..%u (still intact in the ring) were skipped silently, no drop reported\n", iov[0].iov_base[0] - 1);
		bad = 1;
	}
	/* Variant: the same interleaving raises SIGTRAP (debug_break() in the release build). */
	signal(SIGTRAP, on_trap);
	r_buf_free(rb);
	rb = r_buf_alloc((uintptr_t)-1, 100, 10);
	r_buf_rpos_init(rb, &rp, 0);
	put(50, 50, 1); put(50, 50, 2);                      /* round 0: two blocks of 50 */
	n = r_buf_data_get(rb, &rp, 50, iov, 8, &drop, &got);/* reader handed block 0 */
	put(100, 10, 3); put(10, 10, 4);                     /* round 1: two blocks of 10 */
	r_buf_rpos_inc(rb, &rp, got);
	if (trapped) { printf("FAIL: r_buf_rpos_inc(%zu) of the amount handed out raised SIGTRAP (kills a process without handler)\n", got); bad = 1; }
	if (!bad) printf("PASS\n");
	return bad;
}
