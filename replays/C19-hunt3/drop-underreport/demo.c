/* A reader one round behind whose block index is not ahead of the writer's
 * gets a dropped amount smaller than the data it actually lost. */
#include <sys/param.h>
#include <sys/types.h>
#include <inttypes.h>
#include <string.h>
#include <stdio.h>
#include <errno.h>
#include "utils/ring_buffer.h"

static r_buf_p rb;
static size_t written;
static void put(size_t len, uint8_t v) {
	uint8_t *b; size_t n = r_buf_wbuf_get(rb, len, &b);
	if (n < len) { printf("wbuf_get\n"); _exit(2); }
	memset(b, v, len);
	if (r_buf_wbuf_set(rb, 0, len)) { printf("wbuf_set\n"); _exit(2); }
	written += len;
}
int main(void) {
	r_buf_rpos_t rp; iovec_t iov[8]; size_t drop = 0, got = 0, consumed = 0, n, i;
	rb = r_buf_alloc((uintptr_t)-1, 100, 10);
	r_buf_rpos_init(rb, &rp, 0);
	for (i = 0; i < 10; i++) put(10, (uint8_t)i);        /* round 0: ten blocks of 10 */
	n = r_buf_data_get(rb, &rp, 10, iov, 8, &drop, &got);  /* reader takes block 0 */
	printf("reader got %zu bytes in %zu region(s)\n", got, n);
	r_buf_rpos_inc(rb, &rp, got); consumed += got;
	put(45, 0xA0);                                        /* round 1: two blocks of 45 */
	put(45, 0xA1);
	drop = 0;
	size_t avail = r_buf_data_avail_size(rb, &rp, &drop);
	size_t lost = written - consumed;                     /* reader is now at the writer: all of it is skipped */
	n = r_buf_data_get(rb, &rp, 1000, iov, 8, NULL, &got);
	printf("written %zu, consumed %zu, avail %zu, after resync readable %zu -> really skipped %zu bytes, reported dropped %zu\n",
	    written, consumed, avail, got, lost - got, drop);
	int bad = 0;
	if (drop < lost - got) { printf("FAIL: dropped amount %zu under-reports the %zu skipped bytes\n", drop, lost - got); bad = 1; }
	/* Same with a reader two rounds behind. */
	r_buf_free(rb); written = 0; consumed = 0;
	rb = r_buf_alloc((uintptr_t)-1, 100, 10);
	r_buf_rpos_init(rb, &rp, 0);
	for (i = 0; i < 10; i++) put(10, (uint8_t)i);        /* round 0 */
	n = r_buf_data_get(rb, &rp, 10, iov, 8, &drop, &got);
	r_buf_rpos_inc(rb, &rp, got); consumed += got;
	put(45, 0xA0); put(45, 0xA1);                         /* round 1 */
	put(45, 0xB0); put(45, 0xB1);                         /* round 2 */
	drop = 0;
	r_buf_data_avail_size(rb, &rp, &drop);
	n = r_buf_data_get(rb, &rp, 1000, iov, 8, NULL, &got);
	lost = written - consumed - got;
	printf("two rounds behind: written %zu, consumed %zu, readable after resync %zu -> skipped %zu, reported dropped %zu\n", written, consumed, got, lost, drop);
	if (drop < lost) { printf("FAIL: dropped amount %zu under-reports the %zu skipped bytes\n", drop, lost); bad = 1; }
	if (!bad) printf("PASS\n");
	return bad;
}
