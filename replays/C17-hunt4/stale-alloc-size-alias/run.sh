#!/bin/sh
# usage: run.sh <tree>
T="${1:-/tmp/hunt/C17}"
D="$(cd "$(dirname "$0")" && pwd)"
F="-DHAVE_ACCEPT4 -DHAVE_EXPLICIT_BZERO -DHAVE_MEMMEM -DHAVE_MEMRCHR -DHAVE_PIPE2 -DHAVE_PTHREAD_SETNAME_NP -DHAVE_REALLOCARRAY -DHAVE_SOCK_CLOEXEC -DHAVE_SOCK_NONBLOCK -DHAVE_STRNCASECMP -DLINUX -D_GNU_SOURCE -D__USE_GNU=1 -I$T/include"
gcc -O1 -g $F "$D/demo.c" "$T/src/utils/ini.c" "$T/src/utils/buf_str.c" -o "$D/demo" || exit 3
"$D/demo"
