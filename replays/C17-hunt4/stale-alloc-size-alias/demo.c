/* ini_val_set(): when realloc() grows a record in place (same pointer) the
 * record's data_allocated_size is NOT updated (ini.c: "if (ini->lines[val_off]
 * == line) goto update_value;").  It stays at the small initial size, so a later
 * set with a SHORTER value still calls realloc(), which now shrinks the block
 * and releases its tail before memmove() copies the new value.  If the new value
 * is a part of the record's own current value (pointer from ini_val_get(), the
 * case the memmove() was introduced for) the source bytes lie in the released
 * tail: heap metadata is copied into the stored value.
 * Must be built WITHOUT ASan (ASan's realloc always moves, hiding the stale size). */
#include <sys/param.h>
#include <sys/types.h>
#include <inttypes.h>
#include <string.h>
#include <stdio.h>
#include <errno.h>
#include <stdlib.h>
#include "utils/ini.h"

#define S(s) (const uint8_t*)(s), (sizeof(s) - 1)

int main(void) {
	ini_p ini;
	static uint8_t big[2000], expect[1000];
	const uint8_t *v; size_t vs, i; int bad = 0;

	for (i = 0; i < sizeof(big); i ++)
		big[i] = (uint8_t)('a' + (i % 26));
	ini_create(&ini);
	if (0 != ini_val_set(ini, S("s"), S("k"), S("0123456789"))) return 2;   /* small record */
	if (0 != ini_val_set(ini, S("s"), S("k"), big, sizeof(big))) return 2;  /* grows (in place on glibc) */
	if (0 != ini_val_get(ini, S("s"), S("k"), &v, &vs) || vs != sizeof(big)) return 2;
	memcpy(expect, v + 1000, 1000);
	/* keep only the second half of the current value: legal, val lies inside the record */
	if (0 != ini_val_set(ini, S("s"), S("k"), v + 1000, 1000)) return 2;
	if (0 != ini_val_get(ini, S("s"), S("k"), &v, &vs)) return 2;
	if (vs != 1000) { printf("FAIL: size %zu\n", vs); return 1; }
	for (i = 0; i < 1000; i ++) {
		if (v[i] != expect[i]) {
			if (bad < 12) printf("  value[%zu] = 0x%02x, expected 0x%02x ('%c')\n", i, v[i], expect[i], expect[i]);
			bad ++;
		}
	}
	if (bad) { printf("FAIL: %d bytes of the stored value are not what was set (heap metadata copied)\n", bad); return 1; }
	printf("OK\n");
	return 0;
}
