#include <sys/param.h>
#include <sys/types.h>
#include <inttypes.h>
#include <string.h>
#include <stdio.h>
#include <errno.h>
#include <stdlib.h>
#include <ctype.h>
#include "utils/ini.h"

typedef struct { uint8_t *n; size_t ns; uint8_t *v; size_t vs; } ent_t;
typedef struct { int global; uint8_t *n; size_t ns; ent_t *e; size_t ec; } rec_t;
static rec_t *recs; static size_t recc;
static unsigned long long seed_cur; static int opno;

static uint8_t *mdup(const uint8_t *p, size_t n){ uint8_t *r = malloc(n+1); memcpy(r,p,n); r[n]=0; return r; }
static void m_reset(void){ for(size_t i=0;i<recc;i++){ for(size_t j=0;j<recs[i].ec;j++){free(recs[i].e[j].n);free(recs[i].e[j].v);} free(recs[i].e); free(recs[i].n);} free(recs); recs=NULL; recc=0;
  recs = calloc(1,sizeof(rec_t)); recs[0].global=1; recs[0].n=mdup((const uint8_t*)"",0); recc=1; }
static rec_t *m_newrec(const uint8_t *n, size_t ns){ recs = realloc(recs,(recc+1)*sizeof(rec_t)); memset(&recs[recc],0,sizeof(rec_t)); recs[recc].n=mdup(n,ns); recs[recc].ns=ns; return &recs[recc++]; }
static void m_addent(rec_t *r,const uint8_t *n,size_t ns,const uint8_t *v,size_t vs){ r->e=realloc(r->e,(r->ec+1)*sizeof(ent_t)); r->e[r->ec].n=mdup(n,ns); r->e[r->ec].ns=ns; r->e[r->ec].v=mdup(v,vs); r->e[r->ec].vs=vs; r->ec++; }
static void m_line(const uint8_t *l, size_t n){
  if(n==0) return;
  if(l[0]==';'||l[0]=='#') return;
  if(l[0]=='['){ ssize_t k; for(k=(ssize_t)n-1;k>=0;k--) if(l[k]==']') break; if(k<0) return; m_newrec(l+1,(size_t)k-1); return; }
  size_t k; for(k=0;k<n;k++) if(l[k]=='=') break; if(k==n) return;
  m_addent(&recs[recc-1], l, k, l+k+1, n-k-1);
}
static void m_parse(const uint8_t *b, size_t n){
  size_t s=0;
  for(size_t i=0;i<n;i++){ if(b[i]=='\n'){ size_t e=i; if(e>s && b[e-1]=='\r') e--; m_line(b+s,e-s); s=i+1; } }
  if(s<n) m_line(b+s,n-s);
}
static int eq(const uint8_t*a,size_t as,const uint8_t*b,size_t bs){ return as==bs && (as==0||0==memcmp(a,b,as)); }
static int eqi(const uint8_t*a,size_t as,const uint8_t*b,size_t bs){ if(as!=bs) return 0; for(size_t i=0;i<as;i++){ uint8_t x=a[i],y=b[i]; if(x>='A'&&x<='Z')x|=32; if(y>='A'&&y<='Z')y|=32; if(x!=y) return 0;} return 1; }
static ent_t *m_find(int ci,const uint8_t*s,size_t ss,const uint8_t*n,size_t ns, rec_t **lastrec){
  ent_t *f=NULL; if(lastrec)*lastrec=NULL;
  for(size_t i=0;i<recc;i++){ if(recs[i].global) continue; if(!(ci?eqi(recs[i].n,recs[i].ns,s,ss):eq(recs[i].n,recs[i].ns,s,ss))) continue; if(lastrec)*lastrec=&recs[i];
    for(size_t j=0;j<recs[i].ec;j++) if(ci?eqi(recs[i].e[j].n,recs[i].e[j].ns,n,ns):eq(recs[i].e[j].n,recs[i].e[j].ns,n,ns)) f=&recs[i].e[j]; }
  return f;
}
static void m_set(const uint8_t*s,size_t ss,const uint8_t*n,size_t ns,const uint8_t*v,size_t vs){
  rec_t *lr; ent_t *e=m_find(0,s,ss,n,ns,&lr);
  if(e){ free(e->v); e->v=mdup(v,vs); e->vs=vs; return; }
  if(!lr) lr=m_newrec(s,ss);
  m_addent(lr,n,ns,v,vs);
}
static void hex(const char*t,const uint8_t*p,size_t n){ fprintf(stderr,"%s[%zu]=\"",t,n); for(size_t i=0;i<n;i++){ if(isprint(p[i])&&p[i]!='\\'&&p[i]!='"') fputc(p[i],stderr); else fprintf(stderr,"\\x%02x",p[i]);} fprintf(stderr,"\" "); }
#define FAIL(...) do{ fprintf(stderr,"FAIL seed=%llu op=%d: ",seed_cur,opno); fprintf(stderr,__VA_ARGS__); fprintf(stderr,"\n"); exit(1);}while(0)

/* compare enumeration of ini with model (skip global record) */
static void check_enum(ini_p ini, const char *what){
  size_t so=0, ri=1; const uint8_t *sn; size_t sns;
  while(0==ini_sect_enum(ini,&so,&sn,&sns)){
    if(ri>=recc) FAIL("%s: extra section in store",what);
    if(!eq(sn,sns,recs[ri].n,recs[ri].ns)){ hex("got",sn,sns); hex("want",recs[ri].n,recs[ri].ns); FAIL("%s: section name mismatch rec %zu",what,ri);}
    size_t vo=0, ei=0; const uint8_t *vn,*vv; size_t vns,vvs;
    while(0==ini_sect_val_enum(ini,so,&vo,&vn,&vns,&vv,&vvs)){
      if(ei>=recs[ri].ec){ hex("name",vn,vns); FAIL("%s: extra entry in rec %zu",what,ri);}
      ent_t *e=&recs[ri].e[ei];
      if(!eq(vn,vns,e->n,e->ns)||!eq(vv,vvs,e->v,e->vs)){ hex("gotn",vn,vns); hex("gotv",vv,vvs); hex("wantn",e->n,e->ns); hex("wantv",e->v,e->vs); FAIL("%s: entry mismatch rec %zu ent %zu",what,ri,ei);}
      ei++; vo++;
    }
    if(ei!=recs[ri].ec) FAIL("%s: missing entries rec %zu (%zu of %zu)",what,ri,ei,recs[ri].ec);
    ri++; so++;
  }
  if(ri!=recc) FAIL("%s: missing sections (%zu of %zu)",what,ri,recc);
}
static void check_get_all(ini_p ini,const char*what){
  for(size_t i=1;i<recc;i++) for(size_t j=0;j<recs[i].ec;j++){
    ent_t *e=&recs[i].e[j];
    /* size 0 means C string in API: only usable if the name is empty */
    for(int ci=0;ci<2;ci++){
      ent_t *w=m_find(ci,recs[i].n,recs[i].ns,e->n,e->ns,NULL);
      const uint8_t *v; size_t vs; int r;
      /* skip names with size 0 handled as "" */
      r = ci? ini_vali_get(ini,recs[i].n,recs[i].ns,e->n,e->ns,&v,&vs) : ini_val_get(ini,recs[i].n,recs[i].ns,e->n,e->ns,&v,&vs);
      if(r!=0){ hex("s",recs[i].n,recs[i].ns); hex("n",e->n,e->ns); FAIL("%s: get ci=%d returned %d",what,ci,r);}
      if(!eq(v,vs,w->v,w->vs)){ hex("s",recs[i].n,recs[i].ns); hex("n",e->n,e->ns); hex("got",v,vs); hex("want",w->v,w->vs); FAIL("%s: get ci=%d wrong value",what,ci);}
      if(!ci){ /* two step */
      }
    }
  }
}
static unsigned long long rs;
static unsigned rnd(void){ rs = rs*6364136223846793005ULL+1442695040888963407ULL; return (unsigned)(rs>>33); }
static size_t gen_name(uint8_t *o, int forsect){
  static const char al[]="aAbB ]\0[;#=x";
  size_t n = rnd()%4; if(rnd()%10==0) n=rnd()%40;
  for(size_t i=0;i<n;i++) o[i]=(uint8_t)al[rnd()%(forsect?12:8)];
  return n;
}
static size_t gen_val(uint8_t *o){
  static const char al[]="aA=[];# \0\tz";
  size_t n; unsigned k=rnd()%10; if(k<3)n=0; else if(k<7) n=rnd()%20; else if(k<9) n=rnd()%80; else n=rnd()%600;
  for(size_t i=0;i<n;i++) o[i]=(uint8_t)al[rnd()%(sizeof(al)-1)];
  return n;
}
static size_t gen_text(uint8_t *o){
  static const char al[]="aAbB=[];# \r\n\n\n==[]\0";
  size_t n=rnd()%120; for(size_t i=0;i<n;i++) o[i]=(uint8_t)al[rnd()%sizeof(al)];
  return n;
}
static int valid_set(const uint8_t*s,size_t ss,const uint8_t*n,size_t ns,const uint8_t*v,size_t vs){
  if(memchr(s,'\n',ss)||memchr(s,'\r',ss)) return 0;
  if(ns&&(memchr(n,'\n',ns)||memchr(n,'\r',ns)||memchr(n,'=',ns))) return 0;
  if(ns&&(n[0]==';'||n[0]=='#'||n[0]=='[')) return 0;
  if(vs&&(memchr(v,'\n',vs)||memchr(v,'\r',vs))) return 0;
  return 1;
}
int main(int argc,char**argv){
  unsigned long long s0 = argc>1?strtoull(argv[1],0,0):1, cnt = argc>2?strtoull(argv[2],0,0):1000;
  for(unsigned long long sd=s0; sd<s0+cnt; sd++){
    seed_cur=sd; rs=sd*2654435761ULL+12345; m_reset();
    ini_p ini; ini_create(&ini);
    int nops = 5+rnd()%80; if(rnd()%8==0) nops=300+rnd()%300;
    for(opno=0;opno<nops;opno++){
      unsigned op=rnd()%10;
      if(op<2){ uint8_t *t=malloc(200); size_t n=gen_text(t); uint8_t *tt=malloc(n?n:1); memcpy(tt,t,n); free(t);
        int r=ini_buf_parse(ini,tt,n); if(r) FAIL("parse ret %d",r); m_parse(tt,n); free(tt); }
      else if(op<8){
        uint8_t sb[64],nb[64],*vb=malloc(700); size_t ss,ns,vs;
        /* reuse existing names often */
        if(recc>1 && rnd()%3){ rec_t *r=&recs[1+rnd()%(recc-1)]; ss=r->ns>60?0:r->ns; memcpy(sb,r->n,ss); if(r->ns>60) ss=gen_name(sb,1);
           if(r->ec && rnd()%2){ ent_t *e=&r->e[rnd()%r->ec]; if(e->ns<60){ns=e->ns; memcpy(nb,e->n,ns);} else ns=gen_name(nb,0);} else ns=gen_name(nb,0);
        } else { ss=gen_name(sb,1); ns=gen_name(nb,0); }
        vs=gen_val(vb);
        /* API: size 0 => strlen; give a NUL-terminated empty string then */
        uint8_t *sp=malloc(ss+1); memcpy(sp,sb,ss); sp[ss]=0; uint8_t *np=malloc(ns+1); memcpy(np,nb,ns); np[ns]=0;
        uint8_t *vp = vs? malloc(vs):NULL; if(vs) memcpy(vp,vb,vs);
        int ok=valid_set(sp,ss,np,ns,vp,vs);
        int r=ini_val_set(ini,sp,ss,np,ns,vp,vs);
        if(ok && r) FAIL("set refused valid r=%d",r);
        if(!ok && !r){ hex("s",sp,ss); hex("n",np,ns); FAIL("set accepted invalid"); }
        if(ok) m_set(sp,ss,np,ns,vp?vp:(const uint8_t*)"",vs);
        free(sp);free(np);free(vp);free(vb);
      } else if(op==8 && recc>1 && !getenv("NOALIAS")){ /* self alias: set a key to (part of) its own value */
        rec_t *r=&recs[1+rnd()%(recc-1)]; if(r->ec){ ent_t *e=&r->e[rnd()%r->ec];
          if(valid_set(r->n,r->ns,e->n,e->ns,e->v,e->vs) ){
            const uint8_t *v; size_t vs; if(0==ini_val_get(ini,r->n,r->ns,e->n,e->ns,&v,&vs)){
              ent_t *w=m_find(0,r->n,r->ns,e->n,e->ns,NULL);
              size_t off= vs? rnd()%(vs+1):0; size_t len = rnd()%(vs-off+1);
              uint8_t *cp=mdup(w->v+off,len);
              if(valid_set(r->n,r->ns,e->n,e->ns,cp,len)){
              uint8_t *sn=mdup(r->n,r->ns),*nn=mdup(e->n,e->ns); size_t sns=r->ns,nns=e->ns;
              int rr=ini_val_set(ini,sn,sns,nn,nns,v+off,len); if(rr) FAIL("alias set r=%d",rr);
              m_set(sn,sns,nn,nns,cp,len); free(sn);free(nn);}
              free(cp);
            }}}
      } else { /* gen */
        size_t sz=0; ini_buf_calc_size(ini,&sz); uint8_t *b=malloc(sz?sz:1); size_t w=0;
        int r=ini_buf_gen(ini,b,sz,&w); if(r||w!=sz) FAIL("gen r=%d w=%zu calc=%zu",r,w,sz);
        if(sz){ size_t small=rnd()%sz; uint8_t *b2=malloc(small?small:1); size_t w2=0; int r2=ini_buf_gen(ini,b2,small,&w2); if(r2==0||w2>small) FAIL("gen small ok? r=%d w=%zu small=%zu",r2,w2,small); if(memcmp(b,b2,w2)) FAIL("small gen prefix differs"); free(b2);}
        ini_p i2; ini_create(&i2); if(ini_buf_parse(i2,b,sz)) FAIL("reparse");
        check_enum(i2,"roundtrip"); check_get_all(i2,"roundtrip-get");
        size_t sz2=0; ini_buf_calc_size(i2,&sz2); if(sz2!=sz) FAIL("roundtrip size %zu != %zu",sz2,sz);
        uint8_t *b3=malloc(sz2?sz2:1); size_t w3; ini_buf_gen(i2,b3,sz2,&w3); if(w3!=sz||memcmp(b,b3,sz)) FAIL("roundtrip text differs");
        free(b3); ini_destroy(i2); free(b);
      }
      check_enum(ini,"enum"); check_get_all(ini,"get");
    }
    ini_destroy(ini);
  }
  printf("OK\n"); return 0;
}
