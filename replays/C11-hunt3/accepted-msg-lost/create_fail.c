/* Deterministic variant: a slot is STARTING (tpt_is_running() != 0) while
 * pthread_create() runs; a message sent then is accepted; pthread_create()
 * fails; slot goes back to STOP and nobody ever reads its queue. */
#include <sys/param.h>
#include <sys/types.h>
#include <inttypes.h>
#include <string.h>
#include <stdio.h>
#include <stdlib.h>
#include <errno.h>
#include <unistd.h>
#include <pthread.h>
#include "threadpool/threadpool.h"
#include "threadpool/threadpool_msg_sys.h"

static tp_p g_pool;
static int fail_now, send_rc = -1, ran;

static void msg_cb(tpt_p tpt, void *udata) { (void)tpt; free(udata); ran ++; }

int __real_pthread_create(pthread_t *, const pthread_attr_t *, void *(*)(void *), void *);
int
__wrap_pthread_create(pthread_t *t, const pthread_attr_t *a, void *(*fn)(void *), void *arg) {
	if (0 == fail_now)
		return (__real_pthread_create(t, a, fn, arg));
	/* What any other thread may do at this moment: */
	send_rc = tpt_msg_send(tp_thread_get(g_pool, 0), NULL, 0, msg_cb, malloc(64));
	return (EPERM); /* e.g. not allowed by seccomp / cgroup pids limit gives EAGAIN. */
}

int
main(void) {
	tp_settings_t s;
	int error;

	setvbuf(stdout, NULL, _IONBF, 0);
	tp_settings_def(&s);
	s.flags = 0;
	s.threads_max = 1;
	if (0 != tp_create(&s, &g_pool)) return (2);
	fail_now = 1;
	error = tp_threads_create(g_pool, 0);
	fail_now = 0;
	printf("tp_threads_create = %i (%s), tpt_msg_send during it = %i\n", error, strerror(error), send_rc);
	error = tp_destroy(g_pool);
	printf("tp_destroy = %i, callbacks ran = %i\n", error, ran);
	if (0 == send_rc && 0 == ran) {
		printf("FAIL: message was accepted (0) and never run: payload leaked\n");
		return (1);
	}
	printf("OK\n");
	return (0);
}
