#!/bin/sh
# usage: run.sh <tree>
T=${1:-/tmp/hunt/C11}
D=$(dirname "$0")
B=$(mktemp -d)
CF="-DHAVE_ACCEPT4 -DHAVE_EXPLICIT_BZERO -DHAVE_MEMMEM -DHAVE_MEMRCHR -DHAVE_PIPE2 -DHAVE_POSIX_SPAWN_FILE_ACTIONS_ADDCLOSEFROM_NP -DHAVE_PTHREAD_SETNAME_NP -DHAVE_REALLOCARRAY -DHAVE_SOCK_CLOEXEC -DHAVE_SOCK_NONBLOCK -DHAVE_STRNCASECMP -DLINUX -D_GNU_SOURCE -D__USE_GNU=1"
SRC="$T/src/threadpool/threadpool.c $T/src/threadpool/threadpool_msg_sys.c"
rc=0
# 1. senders race with shutdown: accepted (return 0) messages must run.
gcc -g -O1 -w $CF -I"$T/include" "$D/demo.c" $SRC -lpthread -o "$B/demo" || exit 3
timeout 300 "$B/demo" 20000 3 || rc=1
# 2. consequence: synchronous broadcast from outside never returns.
gcc -g -O1 -w $CF -I"$T/include" "$D/sync_hang.c" $SRC -lpthread -o "$B/sync_hang" || exit 3
timeout 300 "$B/sync_hang" 5000 || rc=1
# 3. deterministic: message accepted by a STARTING slot whose pthread_create() fails.
gcc -g -O1 -w $CF -I"$T/include" "$D/create_fail.c" $SRC -Wl,--wrap=pthread_create -lpthread -o "$B/create_fail" || exit 3
timeout 60 "$B/create_fail" || rc=1
rm -rf "$B"
exit $rc
