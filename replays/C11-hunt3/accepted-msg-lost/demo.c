/* Senders race with shutdown: every tpt_msg_send() that returned 0 must run. */
#include <sys/param.h>
#include <sys/types.h>
#include <inttypes.h>
#include <string.h>
#include <stdio.h>
#include <stdlib.h>
#include <errno.h>
#include <unistd.h>
#include <pthread.h>
#include <time.h>
#include <sched.h>
#include "threadpool/threadpool.h"
#include "threadpool/threadpool_msg_sys.h"

static tp_p g_pool;
static volatile int g_stop;
static volatile size_t accepted, ran;

static void msg_cb(tpt_p tpt, void *udata) { (void)tpt; (void)udata; __sync_fetch_and_add(&ran, 1); }

static void *
sender(void *arg) {
	tpt_p dst = tp_thread_get(g_pool, 0);
	(void)arg;
	while (0 == g_stop) {
		if (0 == tpt_msg_send(dst, NULL, 0, msg_cb, NULL)) {
			__sync_fetch_and_add(&accepted, 1);
		} else {
			sched_yield();
		}
	}
	return (NULL);
}

int
main(int argc, char **argv) {
	int rounds = (argc > 1 ? atoi(argv[1]) : 20000), nsend = (argc > 2 ? atoi(argv[2]) : 3);
	int lost_rounds = 0;
	pthread_t th[16];
	tp_settings_t s;

	setvbuf(stdout, NULL, _IONBF, 0);
	for (int r = 0; r < rounds; r ++) {
		tp_settings_def(&s);
		s.flags = 0;
		s.threads_max = 1;
		accepted = ran = 0; g_stop = 0;
		if (0 != tp_create(&s, &g_pool)) return (2);
		if (0 != tp_threads_create(g_pool, 0)) return (2);
		for (int i = 0; i < nsend; i ++) pthread_create(&th[i], NULL, sender, NULL);
		usleep(200 + (r % 7) * 50);
		tp_shutdown(g_pool);
		tp_shutdown_wait(g_pool); /* worker joined: nothing will run any more. */
		g_stop = 1;
		for (int i = 0; i < nsend; i ++) pthread_join(th[i], NULL);
		tp_destroy(g_pool); /* Last chance to run them. */
		if (accepted != ran) {
			lost_rounds ++;
			if (lost_rounds <= 5)
				printf("round %i: tpt_msg_send() returned 0 for %zu messages, %zu callbacks ran until tp_destroy() returned: %zu lost\n",
				    r, accepted, ran, accepted - ran);
		}
		if (lost_rounds >= 3) break;
	}
	if (lost_rounds) { printf("FAIL: accepted messages were never run (%i rounds)\n", lost_rounds); return (1); }
	printf("OK: no loss in %i rounds\n", rounds);
	return (0);
}
