/* Consequence of the lost message: a synchronous broadcast from an outside
 * thread that races with shutdown never returns. */
#include <sys/param.h>
#include <sys/types.h>
#include <inttypes.h>
#include <string.h>
#include <stdio.h>
#include <stdlib.h>
#include <errno.h>
#include <unistd.h>
#include <pthread.h>
#include <time.h>
#include <sched.h>
#include "threadpool/threadpool.h"
#include "threadpool/threadpool_msg_sys.h"

static tp_p g_pool;
static volatile int g_done;

static void msg_cb(tpt_p tpt, void *udata) { (void)tpt; (void)udata; }

static void *
caller(void *arg) {
	size_t sent, failed;
	(void)arg;
	for (;;) {
		sent = failed = 0;
		tpt_msg_bsend_ex(g_pool, NULL, TP_BMSG_F_SYNC, msg_cb, NULL, &sent, &failed);
		if (0 == sent) /* Pool is down: refused. */
			break;
	}
	g_done = 1;
	return (NULL);
}

int
main(int argc, char **argv) {
	int rounds = (argc > 1 ? atoi(argv[1]) : 3000);
	pthread_t th;
	tp_settings_t s;

	setvbuf(stdout, NULL, _IONBF, 0);
	for (int r = 0; r < rounds; r ++) {
		tp_settings_def(&s);
		s.flags = 0;
		s.threads_max = 1;
		g_done = 0;
		if (0 != tp_create(&s, &g_pool)) return (2);
		if (0 != tp_threads_create(g_pool, 0)) return (2);
		pthread_create(&th, NULL, caller, NULL);
		usleep(200 + (r % 7) * 50);
		tp_shutdown(g_pool);
		tp_shutdown_wait(g_pool); /* Worker joined. */
		for (int w = 0; w < 300 && 0 == g_done; w ++) usleep(10000);
		if (0 == g_done) {
			printf("FAIL: round %i: tpt_msg_bsend_ex(TP_BMSG_F_SYNC) still has not returned 3 s after "
			    "tp_shutdown_wait() joined the only worker (it waits for a message nobody will run)\n", r);
			return (1);
		}
		pthread_join(th, NULL);
		tp_destroy(g_pool);
	}
	printf("OK: %i rounds\n", rounds);
	return (0);
}
