/* tp_thread_dettach() of an idle worker from another thread, then tp_destroy():
 * the worker is left in epoll_wait(-1) in state STOPING, tp_shutdown() skips it
 * (tpt_is_running() == 0, no stop message), tp_shutdown_wait() joins it for ever. */
#include <sys/param.h>
#include <sys/types.h>
#include <inttypes.h>
#include <string.h>
#include <stdio.h>
#include <stdlib.h>
#include <errno.h>
#include <unistd.h>
#include <signal.h>
#include <time.h>
#include "threadpool/threadpool.h"
#include "threadpool/threadpool_msg_sys.h"

static volatile int n_start, n_stop;
static void on_start(tpt_p tpt) { (void)tpt; __sync_fetch_and_add(&n_start, 1); }
static void on_stop(tpt_p tpt) { (void)tpt; __sync_fetch_and_add(&n_stop, 1); }

static void
on_alarm(int sig) {
	static const char m[] = "FAIL: tp_destroy() did not return within 5 s after tp_thread_dettach() of an idle worker (deadlock)\n";
	(void)sig;
	(void)!write(1, m, sizeof(m) - 1);
	_exit(1);
}

int
main(void) {
	tp_p tp = NULL;
	tp_settings_t s;
	int error;
	struct timespec ts = { 0, 200000000 };

	setvbuf(stdout, NULL, _IONBF, 0);

	tp_settings_def(&s);
	s.flags = 0;
	s.threads_max = 2;
	s.tpt_on_start = on_start;
	s.tpt_on_stop = on_stop;
	error = tp_create(&s, &tp);
	if (0 != error) { printf("tp_create: %i\n", error); return (2); }
	error = tp_threads_create(tp, 0);
	if (0 != error) { printf("tp_threads_create: %i\n", error); return (2); }
	nanosleep(&ts, NULL); /* Workers are idle in the loop now. */
	printf("running threads before dettach: %zu\n", tp_thread_count_get(tp));
	error = tp_thread_dettach(tp_thread_get(tp, 1));
	printf("tp_thread_dettach(thread 1) = %i, running threads: %zu\n",
	    error, tp_thread_count_get(tp));

	signal(SIGALRM, on_alarm);
	alarm(5);
	error = tp_destroy(tp);
	alarm(0);
	printf("tp_destroy = %i, start hooks %i, stop hooks %i\n", error, n_start, n_stop);
	if (0 != error || n_start != n_stop) { printf("FAIL\n"); return (1); }
	printf("OK\n");
	return (0);
}
