#include <sys/param.h>
#include <sys/types.h>
#include <inttypes.h>
#include <string.h>
#include <stdio.h>
#include <errno.h>
#include <stdlib.h>
#include "utils/buf_str.h"
int main(void){ char *b = malloc(4); memcpy(b, "    ", 4);
 printf("r(4 spaces)=%zu\n", calc_sptab_count_r(b,4));
 printf("r(empty)=%zu\n", calc_sptab_count_r(b,0));
 printf("nr(empty)=%zu\n", calc_non_sptab_count_r(b,0));
 free(b); return 0; }
