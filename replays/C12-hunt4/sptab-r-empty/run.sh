#!/bin/sh
T=${1:-/tmp/hunt/C12}
D=$(dirname "$0")
clang -g -O1 -fsanitize=address,undefined \
 -DHAVE_ACCEPT4 -DHAVE_EXPLICIT_BZERO -DHAVE_MEMMEM -DHAVE_MEMRCHR -DHAVE_PIPE2 -DHAVE_PTHREAD_SETNAME_NP -DHAVE_REALLOCARRAY -DHAVE_SOCK_CLOEXEC -DHAVE_SOCK_NONBLOCK -DHAVE_STRNCASECMP -DLINUX -D_GNU_SOURCE -D__USE_GNU=1 \
 -I$T/include $D/demo.c $T/src/utils/buf_str.c -o /tmp/c12_sptab || exit 3
/tmp/c12_sptab > /tmp/c12_sptab.log 2>&1; cat /tmp/c12_sptab.log
if grep -q "runtime error" /tmp/c12_sptab.log; then echo "FAIL: pointer before the buffer formed for an empty input"; exit 1; fi
echo OK; exit 0
