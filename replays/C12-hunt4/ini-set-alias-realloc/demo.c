/* ini_val_set(): the value may point into the record that is updated (the
 * function uses memmove() for exactly that reason), but when the new text does
 * not fit the record is realloc()ed first and the value is copied from the
 * freed block afterwards. */
#include <sys/param.h>
#include <sys/types.h>
#include <inttypes.h>
#include <string.h>
#include <stdio.h>
#include <errno.h>
#include <stdlib.h>
#include "utils/ini.h"

int
main(void) {
	ini_p ini;
	const char *txt = "[s]\r\nkkkkkkkkkkkkkkkkkkkkkkkkkkkkkkkkkkkkkkkk=0123456789012345678901234567890123456789\r\n";
	const uint8_t *name, *val;
	size_t name_size, val_size, off = 0, sect;
	void *spray[64];

	if (0 != ini_create(&ini) ||
	    0 != ini_buf_parse(ini, (const uint8_t*)txt, strlen(txt)))
		return (2);
	sect = ini_sect_find(ini, (const uint8_t*)"s", 1);
	if (0 != ini_sect_val_enum(ini, sect, &off, &name, &name_size, &val, &val_size))
		return (2);
	/* Make sure realloc() can not grow the record in place. */
	for (size_t i = 0; i < 64; i ++) {
		spray[i] = malloc(200);
	}
	/* New value = the whole text of the record ("name=value"): it is a
	 * counted byte string inside the store, as legal as the record's own
	 * value; it is longer than the old value, so the record must grow. */
	int error = ini_val_set(ini, (const uint8_t*)"s", 1, name, name_size,
	    name, (name_size + 1 + val_size));
	printf("ini_val_set = %i\n", error);
	if (0 == ini_val_get(ini, (const uint8_t*)"s", 1, (const uint8_t*)"kkkkkkkkkkkkkkkkkkkkkkkkkkkkkkkkkkkkkkkk", 40, &val, &val_size)) {
		printf("value now: %.*s\n", (int)val_size, val);
		if (81 != val_size || 0 != memcmp(val, txt + 5, 81)) {
			printf("FAIL: value is not the text that was passed\n");
			return (1);
		}
	}
	for (size_t i = 0; i < 64; i ++) {
		free(spray[i]);
	}
	ini_destroy(ini);
	return (0);
}
