#!/bin/sh
T=${1:-/tmp/hunt/C12}
D=$(dirname "$0")
clang -g -O1 -fsanitize=address,undefined -fno-omit-frame-pointer \
 -DHAVE_ACCEPT4 -DHAVE_EXPLICIT_BZERO -DHAVE_MEMMEM -DHAVE_MEMRCHR -DHAVE_PIPE2 -DHAVE_PTHREAD_SETNAME_NP -DHAVE_REALLOCARRAY -DHAVE_SOCK_CLOEXEC -DHAVE_SOCK_NONBLOCK -DHAVE_STRNCASECMP -DLINUX -D_GNU_SOURCE -D__USE_GNU=1 \
 -I$T/include $D/demo.c $T/src/utils/ini.c $T/src/utils/buf_str.c -o /tmp/c12_ini_alias || exit 3
/tmp/c12_ini_alias 2>&1 | tee /tmp/c12_ini_alias.log | head -30
if grep -q -E "heap-use-after-free|FAIL" /tmp/c12_ini_alias.log; then echo "FAIL: ini_val_set read the value from the freed record"; exit 1; fi
echo OK; exit 0
