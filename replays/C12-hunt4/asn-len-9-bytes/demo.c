/* asn_parse(): a long-form length with 9 significant octets is accepted: the
 * most significant octet is shifted out of the 64 bit accumulator, so an
 * element that declares 2^64 + 1 content octets (it reaches far behind the
 * buffer) is returned as a valid element with 1 content octet. */
#include <sys/param.h>
#include <sys/types.h>
#include <inttypes.h>
#include <string.h>
#include <stdio.h>
#include <errno.h>
#include <stdlib.h>
#include "utils/asn1.h"

int
main(void) {
	static const uint8_t msg[] = { /* OCTET STRING, length = 0x01 00000000 00000001 */
		0x04, 0x89, 0x01, 0x00, 0x00, 0x00, 0x00, 0x00, 0x00, 0x00, 0x01, 0xaa
	};
	static const uint8_t msg8[] = { /* control: 8 octets, 2^56 + 1: must be (and is) refused. */
		0x04, 0x88, 0x01, 0x00, 0x00, 0x00, 0x00, 0x00, 0x00, 0x01, 0xaa
	};
	uint8_t *buf, *data = NULL, cls, ps;
	size_t off = 0, hdr = 0, tag = 0, data_size = 0;
	int error, ret = 0;

	buf = malloc(sizeof(msg8));
	memcpy(buf, msg8, sizeof(msg8));
	error = asn_parse(buf, sizeof(msg8), &off, &hdr, &cls, &ps, &tag, &data, &data_size);
	printf("8 length octets (2^56+1): error = %i\n", error);
	free(buf);

	buf = malloc(sizeof(msg));
	memcpy(buf, msg, sizeof(msg));
	off = 0;
	error = asn_parse(buf, sizeof(msg), &off, &hdr, &cls, &ps, &tag, &data, &data_size);
	printf("9 length octets (2^64+1): error = %i, data_size = %zu, next offset = %zu\n",
	    error, data_size, off);
	if (0 == error) {
		printf("FAIL: element whose declared length does not fit the buffer (nor size_t) accepted\n");
		ret = 1;
	}
	free(buf);
	return (ret);
}
