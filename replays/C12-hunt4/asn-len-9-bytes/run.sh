#!/bin/sh
T=${1:-/tmp/hunt/C12}
D=$(dirname "$0")
clang -g -O1 -fsanitize=address,undefined -I$T/include $D/demo.c -o /tmp/c12_asn9 || exit 3
/tmp/c12_asn9; rc=$?
[ $rc -ne 0 ] && { echo "FAIL"; exit 1; }
echo OK; exit 0
