#include <sys/param.h>
#include <sys/types.h>
#include <inttypes.h>
#include <string.h>
#include <stdio.h>
#include <errno.h>
#include <stdlib.h>
#include <time.h>
#include "utils/mem_utils.h"
#include "utils/base64.h"
#include "utils/num2str.h"
#include "utils/str2num.h"
#include "utils/strh2num.h"
#include "utils/utf8.h"
#include "utils/asn1.h"
#include "utils/buf_str.h"
#include "utils/xml.h"
#include "utils/ini.h"
#include "utils/bt_encode.h"

static uint64_t rs = 88172645463325252ull;
static uint32_t rnd(void){ rs ^= rs<<13; rs ^= rs>>7; rs ^= rs<<17; return (uint32_t)(rs>>11);} 
static uint8_t *mk(size_t n, const char *alpha){ uint8_t *p = malloc(n?n:1); /* flush at end */
  if(n==0){ free(p); p = malloc(1); return p; }
  size_t al = strlen(alpha); for(size_t i=0;i<n;i++) p[i] = alpha[rnd()%al]; return p; }

static void fz_xml(void){
  const char *alpha = "<>/!?-[]a b:=\"CDATA";
  for (int it=0; it<400000; it++){
    size_t n = 1 + rnd()%24; uint8_t *p = malloc(n); for(size_t i=0;i<n;i++) p[i]=alpha[rnd()%14];
    const uint8_t *tags[3] = {(const uint8_t*)"a",(const uint8_t*)"b",(const uint8_t*)"a"}; size_t cn[3]={1,1,1};
    size_t tc = 1 + rnd()%3; const uint8_t *next=NULL,*attr,*val; size_t as,vs; int guard=0;
    while (0 == xml_get_val_arr(p,n,&next,tc,tags,cn,&attr,&as,&val,&vs)){
      if (val){ if (val < p || val+vs > p+n) {printf("FAIL xml val range\n"); exit(1);} volatile uint8_t s=0; for(size_t i=0;i<vs;i++) s+=val[i]; }
      if (attr){ if (attr < p || attr+as > p+n) {printf("FAIL xml attr range as=%zu\n",as); exit(1);} }
      if (++guard>100){printf("FAIL xml loop\n"); exit(1);} }
    const uint8_t *ns[3]; size_t nss[3]; next=NULL; guard=0;
    while (0 == xml_get_val_ns_arr(p,n,&next,tc,tags,cn,ns,nss,&attr,&as,&val,&vs)){
      if (val){ if (val < p || val+vs > p+n) {printf("FAIL xmlns val range\n"); exit(1);} }
      if (attr){ if (attr < p || attr+as > p+n) {printf("FAIL xmlns attr range\n"); exit(1);} }
      if (++guard>100){printf("FAIL xmlns loop\n"); exit(1);} }
    free(p);
  }
}
static void fz_bt(void){
  const char *alpha="lide0123:ea-";
  for(int it=0; it<400000; it++){
    size_t n = 1+rnd()%20; uint8_t *p = malloc(n); for(size_t i=0;i<n;i++) p[i]=alpha[rnd()%12];
    bt_en_node_p nd=NULL; size_t off=0; int e = bt_en_decode(p,n,&nd,&off);
    if (e==0){ if(off>n){printf("FAIL bt off\n"); exit(1);} bt_en_free(nd);} free(p);
  }
}
static void fz_asn(void){
  for(int it=0; it<2000000; it++){
    size_t n = 1+rnd()%14; uint8_t *p = malloc(n); for(size_t i=0;i<n;i++){ uint32_t r=rnd(); p[i]= (r&0x300)?(uint8_t)(r&0x8f)|((r>>4)&0x10): (uint8_t)r; }
    size_t off = rnd()%(n+1), hs, tag, ds; uint8_t c, ps, *d; size_t o=off;
    int e = asn_parse(p,n,&o,&hs,&c,&ps,&tag,&d,&ds);
    if (e==0){ if (d<p || d+ds>p+n || o>n || o != (size_t)(d-p)+ds){printf("FAIL asn range off=%zu o=%zu ds=%zu hs=%zu n=%zu\n",off,o,ds,hs,n); for(size_t i=0;i<n;i++)printf("%02x ",p[i]); puts(""); exit(1);} }
    free(p);
  }
}
static void fz_lines(void){
  const char *alpha="\r\nab";
  for(int it=0; it<300000; it++){
    size_t n = 1+rnd()%12; uint8_t *p = malloc(n); for(size_t i=0;i<n;i++) p[i]=alpha[rnd()%4];
    const uint8_t *l=NULL; size_t ls=0; int g=0;
    while(0==buf_get_next_line(p,n,l,ls,&l,&ls)){ if(l<p||l+ls>p+n){printf("FAIL line range\n");exit(1);} if(++g>50){printf("FAIL line loop\n");exit(1);} }
    ini_p ini; ini_create(&ini); ini_buf_parse(ini,p,n);
    size_t need; ini_buf_calc_size(ini,&need); uint8_t *o = malloc(need?need:1); size_t w;
    int e = ini_buf_gen(ini,o,need,&w); if(e||w!=need){printf("FAIL ini gen\n");exit(1);} free(o);
    ini_destroy(ini);
    char *q = malloc(n); memcpy(q,p,n); for(size_t i=0;i<n;i++) if(q[i]=='\r')q[i]=' '; else if(q[i]=='\n') q[i]='"';
    char *args[4]; size_t as[4]; size_t ma = 1+rnd()%4; size_t r = buf2args(q,n,ma,args,as);
    for(size_t i=0;i<r;i++){ if(args[i]<q||args[i]+as[i]>q+n){printf("FAIL args\n");exit(1);} }
    free(q); free(p);
  }
}
static void fz_ini_set(void){
  for(int it=0; it<20000; it++){
    ini_p ini; ini_create(&ini);
    const char *t = "[s]\r\nk=v\r\n\r\n[t]\r\nlongname=1\r\n"; if (rnd()&1) ini_buf_parse(ini,(const uint8_t*)t,strlen(t));
    for(int j=0;j<40;j++){
      char sn[8], kn[24]; snprintf(sn,sizeof sn,"%c",'s'+rnd()%3); size_t kl=1+rnd()%20; for(size_t i=0;i<kl;i++)kn[i]='a'+rnd()%2; 
      size_t vl = rnd()%60; uint8_t *v = malloc(vl?vl:1); memset(v,'x',vl);
      int e = ini_val_set(ini,(uint8_t*)sn,1,(uint8_t*)kn,kl,v,vl); free(v);
      if(e){printf("FAIL set %d\n",e);exit(1);}
      const uint8_t *gv; size_t gs; e = ini_val_get(ini,(uint8_t*)sn,1,(uint8_t*)kn,kl,&gv,&gs); if(e||gs!=vl){printf("FAIL get\n");exit(1);} 
    }
    size_t need; ini_buf_calc_size(ini,&need); uint8_t *o = malloc(need?need:1); size_t w;
    int e = ini_buf_gen(ini,o,need,&w); if(e||w!=need){printf("FAIL ini gen2\n");exit(1);} 
    ini_p i2; ini_create(&i2); ini_buf_parse(i2,o,need); size_t n2; ini_buf_calc_size(i2,&n2); if(n2!=need){printf("FAIL reparse\n");exit(1);} ini_destroy(i2);
    free(o); ini_destroy(ini);
  }
}
static void fz_stream(void){
  for(int it=0; it<2000000; it++){
    size_t wl = 1+rnd()%5; uint8_t w[8]; for(size_t i=0;i<wl;i++) w[i]='a'+rnd()%2;
    size_t n = 1+rnd()%14; uint8_t all[16]; for(size_t i=0;i<n;i++) all[i]='a'+rnd()%2;
    /* reference: first occurrence end */
    uint8_t *ref = memmem(all,n,w,wl); size_t refend = ref? (size_t)(ref-all)+wl : 0;
    size_t state=0, pos=0; int found=0; size_t fend=0;
    while(pos<n){ size_t c = 1+rnd()%4; if(c>n-pos)c=n-pos; uint8_t *p = malloc(c); memcpy(p,all+pos,c); size_t oe=0;
      int e = mem_find_stream(p,c,w,wl,&state,&oe); free(p);
      if(e==0){found=1; fend=pos+oe; break;} if(e!=ENOENT){printf("FAIL stream err\n");exit(1);} pos+=c; }
    if(found != (ref!=NULL) || (found && fend!=refend)){ printf("FAIL stream mismatch what=%.*s data=%.*s found=%d fend=%zu ref=%zu\n",(int)wl,w,(int)n,all,found,fend,refend); exit(1);} 
  }
}
static void fz_repl(void){
  for(int it=0; it<300000; it++){
    const char *alpha="&<>'\"altgmpqo;"; size_t n = rnd()%16; uint8_t *p = malloc(n?n:1); for(size_t i=0;i<n;i++)p[i]=alpha[rnd()%15];
    size_t cap = rnd()%40; uint8_t *o = malloc(cap?cap:1); size_t os=0;
    int e = (rnd()&1)? xml_encode(p,n,o,cap,&os): xml_decode(p,n,o,cap,&os);
    if(e==0 && os>cap){printf("FAIL repl\n");exit(1);} free(o); free(p);
  }
}
static void fz_b64(void){
  for(int it=0; it<300000; it++){
    size_t n = rnd()%20; uint8_t *p = malloc(n?n:1); for(size_t i=0;i<n;i++)p[i]=rnd();
    size_t need=0; base64_encode(p,n,NULL,0,&need); for(size_t cap = (need?need-1:0); cap<=need+1; cap++){ uint8_t *o=malloc(cap?cap:1); size_t es; int e=base64_encode(p,n,o,cap,&es); if((cap>=need)!=(e==0)){printf("FAIL b64enc\n");exit(1);} 
      if(e==0){ size_t dn=0; base64_decode(o,es,NULL,0,&dn); for(size_t c2=(dn?dn-1:0);c2<=dn+1;c2++){ uint8_t *d=malloc(c2?c2:1); size_t ds; int e2=base64_decode(o,es,d,c2,&ds); if((c2>=dn)!=(e2==0)){printf("FAIL b64dec n=%zu c2=%zu dn=%zu e=%d\n",n,c2,dn,e2);exit(1);} if(e2==0&&(ds!=n||memcmp(d,p,n))){printf("FAIL b64rt\n");exit(1);} free(d);} 
        uint8_t *d=malloc(es?es:1); size_t ds; int e3=base64_decode_fmt(o,es,d,es,&ds); if(e3||ds!=n){printf("FAIL fmt\n");exit(1);} free(d);} free(o);} 
    /* junk decode */
    { size_t m = rnd()%12; uint8_t *j=malloc(m?m:1); const char *al="AB=+ \n"; for(size_t i=0;i<m;i++)j[i]=al[rnd()%6]; for(size_t c=0;c<=m+1;c++){uint8_t *d=malloc(c?c:1); size_t ds; base64_decode(j,m,d,c,&ds); base64_decode_fmt(j,m,d,c,&ds); free(d);} free(j);} 
    /* hex */
    { size_t hn = 2*n; size_t cap = rnd()%(hn+3); uint8_t *h = malloc(cap?cap:1); size_t hs; int e = cvt_bin2hex(p,n,rnd()&1,h,cap,&hs); if(e==0&&hs>cap){printf("FAIL hex\n");exit(1);} 
      if(e==0){ size_t bc = rnd()%(n+3); uint8_t *b=malloc(bc?bc:1); size_t bs; int e2=cvt_hex2bin(h,hs,rnd()&1,b,bc,&bs); if(e2==0&&bs>bc){printf("FAIL hex2\n");exit(1);} free(b);} free(h);} 
    free(p);
  }
}
static void fz_num(void){
  uint64_t vals[] = {0,1,9,10,99,100,255,256,65535,65536,4294967295ull,4294967296ull,9999999999999999999ull,10000000000000000000ull,18446744073709551615ull,9223372036854775807ull,9223372036854775808ull};
  for(size_t i=0;i<nitems(vals);i++){ char ref[32]; int rl = snprintf(ref,sizeof ref,"%"PRIu64,vals[i]);
    for(size_t cap=1;cap<=(size_t)rl+2;cap++){ char *b=malloc(cap); size_t r=0; int e=u642str(vals[i],b,cap,&r); if((cap>=(size_t)rl+1)!=(e==0)){printf("FAIL u64 %s cap %zu\n",ref,cap);exit(1);} if(e==0&&(r!=(size_t)rl||strcmp(b,ref))){printf("FAIL u64 txt\n");exit(1);} if(e&&r!=(size_t)rl+1){printf("FAIL u64 need\n");exit(1);} free(b);} 
    int64_t sv = (int64_t)vals[i]; for(int k=0;k<2;k++){ sv = -sv; rl = snprintf(ref,sizeof ref,"%"PRId64,sv);
    for(size_t cap=1;cap<=(size_t)rl+2;cap++){ char *b=malloc(cap); size_t r=0; int e=s642str(sv,b,cap,&r); if((cap>=(size_t)rl+1)!=(e==0)){printf("FAIL s64 %s cap %zu\n",ref,cap);exit(1);} if(e==0&&(r!=(size_t)rl||strcmp(b,ref))){printf("FAIL s64 txt\n");exit(1);} free(b);} }
    { char b[8]; size_t r; int8_t s8=(int8_t)vals[i]; s82str(s8,b,8,&r); if(atoi(b)!=s8){printf("FAIL s8\n");exit(1);} int16_t s16=(int16_t)vals[i]; s162str(s16,b,8,&r); if(atoi(b)!=s16){printf("FAIL s16\n");exit(1);} }
  }
}
static void fz_utf8(void){ for(int it=0;it<300000;it++){ size_t n=rnd()%10; uint8_t *p=malloc(n?n:1); for(size_t i=0;i<n;i++)p[i]=rnd(); size_t c=rnd()%10; uint8_t *o=malloc(c?c:1); size_t r=utf8_decode(p,n,o,c); if(r>c){printf("FAIL utf8\n");exit(1);} free(o);free(p);} }
int main(int argc,char**argv){ const char *w = argc>1?argv[1]:"all"; 
#define R(n) if(!strcmp(w,"all")||!strcmp(w,#n)){ fz_##n(); printf(#n " ok\n"); fflush(stdout);} 
 R(num) R(utf8) R(b64) R(repl) R(lines) R(ini_set) R(bt) R(asn) R(xml) R(stream)
 return 0; }
