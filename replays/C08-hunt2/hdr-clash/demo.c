/* A translation unit that uses both anchored cipher headers. */
#include <sys/param.h>
#include <sys/types.h>
#include <inttypes.h>
#include <string.h>
#include <stdio.h>
#include <errno.h>
#include "crypto/cipher/chacha.h"
#include "crypto/cipher/gost28147.h"

int
main(void) {
	uint8_t key[32] = { 1 }, iv[8] = { 2 }, buf[64] = { 0 }, mac[8];
	gost28147_context_t g;

	chacha(key, 32, NULL, iv, 20, NULL, sizeof(buf), buf);
	if (0 != gost28147_init(key, 32, id_tc26_gost_28147_param_z_sbox, &g))
		return (1);
	gost28147_blocks_encrypt(&g, buf, 8, buf);
	gost28147_blocks_mac(&g, buf, 8);
	gost28147_final(&g, mac, sizeof(mac));
	printf("OK %02x%02x\n", buf[0], mac[0]);
	return (0);
}
