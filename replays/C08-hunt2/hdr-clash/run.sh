#!/bin/sh
# usage: run.sh <tree>
T="${1:-/tmp/hunt/C08}"
D="$(dirname "$0")"
rc=0
for cc in gcc clang; do
	if ! $cc -O2 -D_GNU_SOURCE -I"$T/include" "$D/demo.c" -o "$D/demo.bin" 2>"$D/err.txt"; then
		echo "FAIL: $cc cannot compile a unit that includes chacha.h and gost28147.h:"
		grep -m2 'error' "$D/err.txt"
		rc=1
	else
		"$D/demo.bin" || rc=1
	fi
done
rm -f "$D/demo.bin" "$D/err.txt"
exit $rc
