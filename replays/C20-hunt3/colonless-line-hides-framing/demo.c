/* A header line without ':' is glued to the next line's name by
 * http_hdr_val_get_ex(): the following Host / Content-Length /
 * Transfer-Encoding field is invisible to http_hdr_val_get_count(), so
 * http_req_sec_chk() rules 3,4,5,6,7 are bypassed and it returns 0. */
#include <sys/param.h>
#include <sys/types.h>
#include <inttypes.h>
#include <string.h>
#include <stdio.h>
#include <errno.h>
#include "utils/macro.h"
#include "utils/mem_utils.h"
#include "proto/http.h"

static int fails;
static void t(const char *what, const char *blk, uint32_t m, const char *name) {
	size_t n = strlen(blk);
	int rc = http_req_sec_chk((const uint8_t*)blk, n, m);
	size_t cnt = http_hdr_val_get_count((const uint8_t*)blk, n, (const uint8_t*)name, strlen(name));
	printf("%-46s sec_chk=%d  count(%s)=%zu  %s\n", what, rc, name, cnt, rc == 0 ? "FAIL (accepted)" : "ok");
	if (rc == 0) fails++;
}
int main(void) {
	/* Controls: the same fields without the malformed line are refused. */
	t("control: TE + CL", "POST / HTTP/1.1\r\nHost: a\r\nTransfer-Encoding: chunked\r\nContent-Length: 5", HTTP_REQ_METHOD_POST, "transfer-encoding");
	t("control: two Host", "GET / HTTP/1.1\r\nHost: a\r\nHost: b", HTTP_REQ_METHOD_GET, "host");
	fails = 0;
	/* One line without colon in front of the second framing field. */
	t("colon-less line, then TE, then CL (rule 7)", "POST / HTTP/1.1\r\nHost: a\r\nX\r\nTransfer-Encoding: chunked\r\nContent-Length: 5", HTTP_REQ_METHOD_POST, "transfer-encoding");
	t("colon-less line before 2nd Host (rule 3)", "GET / HTTP/1.1\r\nHost: a\r\nX\r\nHost: b", HTTP_REQ_METHOD_GET, "host");
	t("colon-less line before 2nd CL (rule 4)", "POST / HTTP/1.1\r\nContent-Length: 0\r\nX\r\nContent-Length: 44", HTTP_REQ_METHOD_POST, "content-length");
	t("colon-less line before CL on GET (rule 5)", "GET / HTTP/1.1\r\nHost: a\r\nX\r\nContent-Length: 44", HTTP_REQ_METHOD_GET, "content-length");
	/* Same effect: first header line starts with SP (no field to continue). */
	t("SP-prefixed first header line hides Host", "GET / HTTP/1.1\r\n Host: a\r\nHost: b", HTTP_REQ_METHOD_GET, "host");
	t("SP-prefixed first header line hides TE", "POST / HTTP/1.1\r\n Transfer-Encoding: chunked\r\nContent-Length: 5", HTTP_REQ_METHOD_POST, "transfer-encoding");
	if (fails) { printf("FAIL: %d smuggling blocks accepted\n", fails); return 1; }
	printf("PASS\n");
	return 0;
}
