#include <sys/param.h>
#include <sys/types.h>
#include <inttypes.h>
#include <string.h>
#include <stdio.h>
#include <stdlib.h>
#include <errno.h>
#include <ctype.h>
#include "utils/macro.h"
#include "utils/mem_utils.h"
#include "proto/http.h"

static uint64_t rs = 88172645463325252ULL;
static uint32_t rnd(void){ rs ^= rs<<13; rs ^= rs>>7; rs ^= rs<<17; return (uint32_t)(rs>>16); }
static uint32_t rn(uint32_t n){ return n? rnd()%n : 0; }
static int fails = 0;
#define MAXF 40

static void dump(const char *t, const uint8_t *b, size_t n){
	printf("%s[%zu]=\"", t, n);
	for(size_t i=0;i<n;i++){ uint8_t c=b[i]; if(c=='\r')printf("\\r"); else if(c=='\n')printf("\\n"); else if(c=='\t')printf("\\t"); else if(c<32||c>126)printf("\\x%02x",c); else putchar(c);} 
	printf("\"\n");
}
static uint8_t *xdup(const uint8_t *b, size_t n){ uint8_t *p = malloc(n?n:1); memcpy(p,b,n); return p; }

/* ---------- request line ---------- */
static const char *methods[] = {"OPTIONS","GET","HEAD","POST","PUT","DELETE","TRACE","CONNECT","NOTIFY","M-SEARCH","M-POST","SUBSCRIBE","UNSUBSCRIBE","PATCH","PROPFIND","GETX","PU","MKCOL","COPY","LOCK","X","REPORT"};
static const uint32_t mcodes[] = {1,2,3,4,5,6,7,8,9,10,11,12,13,0,0,0,0,0,0,0,0,0};
static const char pch[] = "abcXYZ019-._~!$&'()*+,;=:@%";
static const char qch[] = "abcXYZ019-._~!$&'()*+,;=:@%/?";
static const char *hosts[] = {"h","example.com","example.com:8080","[::1]","[::1]:80","user@host","u:p@host:1","1.2.3.4","","a-b.c"};
static const char *schemes[] = {"http","https","ws","HTTP","h2+x.y-z"};

static size_t gen_path(char *o, int allow_empty){
	size_t n=0; uint32_t segs = rn(5);
	if(segs==0 && allow_empty && rn(2)) return 0;
	if(segs==0){ o[n++]='/'; if(rn(3)==0){ uint32_t k=rn(3); while(k--) o[n++]='/'; } return n; }
	for(uint32_t s=0;s<segs;s++){
		uint32_t sl = 1 + (rn(4)==0? rn(3):0); while(sl--) o[n++]='/';
		uint32_t l = rn(4); if (rn(5)) l++; while(l--) o[n++]=pch[rn(sizeof(pch)-1)];
	}
	if(rn(3)==0){ uint32_t k=1+rn(3); while(k--) o[n++]='/'; }
	return n;
}
/* canonical path: strip redundant leading and trailing slashes for comparison */
static void canon(const uint8_t *p, size_t n, const uint8_t **rp, size_t *rn_){
	while(n>=2 && p[0]=='/' && p[1]=='/'){p++;n--;}
	while(n>=2 && p[n-1]=='/'){n--;}
	*rp=p;*rn_=n;
}
static int span_eq(const uint8_t *a, size_t an, const uint8_t *b, size_t bn){ return an==bn && (an==0 || a==b); }

static void test_reqline(void){
	char line[512], path[128], query[64]; size_t n=0, pn=0, qn=0; int hasq=0;
	uint32_t mi = rn(nitems(methods));
	const char *m = methods[mi];
	int form; /* 0 origin 1 absolute 2 authority 3 asterisk */
	if (mcodes[mi]==8) form=2; else if (mcodes[mi]==1 && rn(3)==0) form=3; else form = rn(2);
	n += sprintf(line+n, "%s ", m);
	size_t uri_off=n, sch_off=0, sch_n=0, host_off=0, host_n=0, path_off=0, q_off=0;
	int has_s=0;
	if(form==0){ pn=gen_path(path,0); path_off=n; memcpy(line+n,path,pn); n+=pn; }
	else if(form==1){ const char *s=schemes[rn(nitems(schemes))]; const char *h=hosts[rn(nitems(hosts))];
		has_s=1; sch_off=n; sch_n=strlen(s); n+=sprintf(line+n,"%s://",s); host_off=n; host_n=strlen(h); n+=sprintf(line+n,"%s",h);
		pn=gen_path(path,1); path_off=n; memcpy(line+n,path,pn); n+=pn; }
	else if(form==2){ const char *h=hosts[1+rn(4)]; host_off=n; host_n=strlen(h); n+=sprintf(line+n,"%s",h); }
	else { path_off=n; line[n++]='*'; pn=1; }
	if(form<2 && rn(2)){ hasq=1; line[n++]='?'; q_off=n; qn=rn(12); for(size_t i=0;i<qn;i++) line[n++]=qch[rn(sizeof(qch)-1)];
		if (rn(4)==0){ n-=qn; qn=sprintf(line+n,"u=http://evil/x//"); n+=qn; } }
	size_t uri_n = n-uri_off;
	int vh=rn(10), vl=rn(10);
	n+=sprintf(line+n," HTTP/%d.%d",vh,vl);
	size_t line_n=n;
	int tail=rn(3);
	if(tail==1){ n+=sprintf(line+n,"\r\nHost: x y"); } else if (tail==2){ n+=sprintf(line+n,"\r\n"); }
	uint8_t *b=xdup((uint8_t*)line,n);
	http_req_line_data_t rd; memset(&rd,0xAA,sizeof(rd));
	int rc=http_parse_req_line(b,n,&rd);
	int bad=0; const char *why="";
#define CHK(c,w) do{ if(!(c)){bad=1; why=w; goto out;} }while(0)
	CHK(rc==0,"rc");
	CHK(rd.line_size==line_n,"line_size");
	CHK(rd.method==b && rd.method_size==strlen(m),"method");
	CHK(rd.method_code==mcodes[mi],"method_code");
	CHK(rd.method_code==http_get_method_fast(b,strlen(m)),"method_fast");
	CHK(rd.uri==b+uri_off && rd.uri_size==uri_n,"uri");
	CHK(rd.proto_ver==MAKEDWORD(vl,vh),"ver");
	if(has_s) CHK(rd.scheme==b+sch_off && rd.scheme_size==sch_n,"scheme"); else CHK(rd.scheme==NULL||rd.scheme_size==0,"scheme0");
	if(form==1||form==2) CHK(rd.host_size==host_n && (rd.host==b+host_off),"host"); else CHK(rd.host_size==0,"host0");
	if(hasq) CHK(rd.query_size==qn && rd.query==b+q_off,"query"); else CHK(rd.query_size==0,"query0");
	if(form!=2){
		const uint8_t *e,*g; size_t en,gn;
		canon(b+path_off,pn,&e,&en);
		if (rd.abs_path_size) { CHK(rd.abs_path>=b+path_off && rd.abs_path+rd.abs_path_size<=b+path_off+pn,"path-subspan"); }
		canon(rd.abs_path,rd.abs_path_size,&g,&gn);
		CHK(en==gn && (en==0|| e==g),"path");
	}
out:
	if(bad){ if(fails++<MAXF){ printf("REQLINE FAIL(%s) rc=%d: ",why,rc); dump("in",b,n);
		if(rc==0){ printf("  path=%.*s| host=%.*s| query=%.*s| scheme=%.*s|\n",(int)rd.abs_path_size,rd.abs_path?(char*)rd.abs_path:"",(int)rd.host_size,rd.host?(char*)rd.host:"",(int)rd.query_size,rd.query?(char*)rd.query:"",(int)rd.scheme_size,rd.scheme?(char*)rd.scheme:""); } } }
	free(b);
}

/* ---------- status line ---------- */
static void test_respline(void){
	char line[256]; size_t n=0; int vh=rn(10),vl=rn(10),code=100+rn(500);
	n+=sprintf(line,"HTTP/%d.%d %03d ",vh,vl,code);
	size_t ro=n, rl=rn(20); for(size_t i=0;i<rl;i++){ uint32_t r=rn(100); line[n++]= r<5?'\t': r<15?' ' : (char)(33+rn(94)); }
	size_t ln=n; int tail=rn(3); if(tail==1) n+=sprintf(line+n,"\r\nA: b"); else if(tail==2) n+=sprintf(line+n,"\r\n");
	uint8_t *b=xdup((uint8_t*)line,n); http_resp_line_data_t rd; memset(&rd,0xAA,sizeof(rd));
	int rc=http_parse_resp_line(b,n,&rd);
	if(rc!=0||rd.line_size!=ln||rd.status_code!=(uint32_t)code||rd.proto_ver!=MAKEDWORD(vl,vh)||rd.reason_phrase_size!=rl||(rl&&rd.reason_phrase!=b+ro)){
		if(fails++<MAXF){printf("RESP FAIL rc=%d ",rc); dump("in",b,n);} }
	free(b);
}

/* ---------- headers ---------- */
static const char *names[] = {"Host","Content-Length","Transfer-Encoding","Hos","Host2","X-Host","Content-Length2","Accept","X","Te","Connection","a!#$%&'*+-.^_`|~z","Content-Lengt","ransfer-Encoding","Transfer-Encoding-X"};
typedef struct { size_t name_off,name_n,val_off,val_n; size_t tv_off,tv_n; size_t end_off; } fld_t;
static int iws(uint8_t c){ return c==' '||c=='\t'||c=='\r'||c=='\n'; }
static int ieq(const uint8_t *a,size_t an,const char *b){ size_t bn=strlen(b); if(an!=bn)return 0; for(size_t i=0;i<an;i++) if(tolower(a[i])!=tolower((uint8_t)b[i])) return 0; return 1; }

static size_t gen_value(uint8_t *o){
	size_t n=0; uint32_t l=rn(14); if(rn(6)==0) l=0;
	uint32_t lead=rn(3); while(lead--) o[n++]= rn(2)?' ':'\t';
	for(uint32_t i=0;i<l;i++){
		uint32_t r=rn(100);
		if(r<8){ o[n++]='\r';o[n++]='\n'; o[n++]= rn(2)?' ':'\t'; }
		else if(r<18) o[n++]=' ';
		else if(r<22) o[n++]='\t';
		else if(r<30) o[n++]=':';
		else o[n++]=(uint8_t)(33+rn(94));
	}
	uint32_t tr=rn(3); while(tr--) o[n++]= rn(2)?' ':'\t';
	/* avoid SP ':' unless wanted */
	for(size_t i=0;i+1<n;i++) if(o[i]==' '&&o[i+1]==':') o[i+1]='x';
	return n;
}
static void rcase(uint8_t *p,size_t n){ for(size_t i=0;i<n;i++){ if(isalpha(p[i])) p[i]= rn(2)? toupper(p[i]):tolower(p[i]); } }

/* independent reference: parse block into fields */
static size_t ref_parse(const uint8_t *b,size_t n, fld_t *f, size_t maxf){
	size_t i=0,k=0;
	/* skip first line */
	while(i+1<n && !(b[i]=='\r'&&b[i+1]=='\n')) i++;
	if(i+1>=n) return 0;
	i+=2;
	while(i<n && k<maxf){
		if(b[i]=='\r') break; /* empty line */
		size_t s=i; while(i<n && b[i]!=':') i++;
		if(i>=n) break;
		f[k].name_off=s; f[k].name_n=i-s; i++;
		f[k].val_off=i;
		for(;;){ while(i+1<n && !(b[i]=='\r'&&b[i+1]=='\n')) i++;
			if(i+1>=n){ i=n; break; }
			if(i+2<n && (b[i+2]==' '||b[i+2]=='\t')){ i+=2; continue; }
			break; }
		f[k].val_n=i-f[k].val_off; f[k].end_off=i;
		size_t a=f[k].val_off,e=i; while(a<e&&iws(b[a]))a++; while(e>a&&iws(b[e-1]))e--;
		f[k].tv_off=a; f[k].tv_n=e-a;
		k++;
		if(i<n) i+=2;
	}
	return k;
}
static int ref_sec(const uint8_t *b,size_t n, uint32_t method){
	/* zero/nonzero */
	for(size_t i=0;i<n;i++){
		uint8_t c=b[i];
		if(c>126) return 2;
		if(c<32 && c!='\t'){ if(c=='\r'&&i+1<n&&b[i+1]=='\n'){i++;continue;} return 2; }
	}
	for(size_t i=0;i+1<n;i++) if(b[i]==' '&&b[i+1]==':') return 1;
	fld_t f[64]; size_t k=ref_parse(b,n,f,64); size_t h=0,cl=0,te=0;
	for(size_t i=0;i<k;i++){
		if(f[i].name_n && (b[f[i].name_off+f[i].name_n-1]=='\t')) return 1;
		if(ieq(b+f[i].name_off,f[i].name_n,"host"))h++;
		if(ieq(b+f[i].name_off,f[i].name_n,"content-length"))cl++;
		if(ieq(b+f[i].name_off,f[i].name_n,"transfer-encoding"))te++;
	}
	if(h>1) return 3; if(cl>1) return 4; if(cl&&method==HTTP_REQ_METHOD_GET) return 5; if(te>1) return 6; if(cl&&te) return 7;
	return 0;
}

static void test_headers(void){
	uint8_t blk[4096]; size_t n=0;
	uint32_t method = rn(3)==0? HTTP_REQ_METHOD_GET : HTTP_REQ_METHOD_POST;
	n+=sprintf((char*)blk, "%s %s HTTP/1.1", method==HTTP_REQ_METHOD_GET?"GET":"POST", rn(2)?"/":"http://h:80/a?b=c");
	uint32_t nf=rn(7);
	for(uint32_t i=0;i<nf;i++){
		blk[n++]='\r';blk[n++]='\n';
		const char *nm=names[ rn(4)==0 ? rn(3) : rn(nitems(names)) ];
		size_t l=strlen(nm); memcpy(blk+n,nm,l); rcase(blk+n,l); n+=l;
		blk[n++]=':';
		n+=gen_value(blk+n);
	}
	int tail=rn(4); if(tail==1){blk[n++]='\r';blk[n++]='\n';} else if(tail==2){memcpy(blk+n,"\r\n\r\n",4);n+=4;}
	/* edits */
	uint32_t ed=rn(8);
	if(ed==1 && n>20){ size_t p=rn(n); blk[p]= (uint8_t)(rn(2)? rn(9): 127); }
	else if((ed==2||ed==3) && nf){ /* insert SP or HT before a name's colon */
		fld_t f[64]; size_t k=ref_parse(blk,n,f,64); if(k){ size_t j=rn(k); size_t p=f[j].name_off+f[j].name_n; memmove(blk+p+1,blk+p,n-p); blk[p]= ed==2?' ':'\t'; n++; } }
	if (tail==2 && memmem(blk,n-4,"\r\n\r\n",4)) return; /* keep single terminator */
	uint8_t *b=xdup(blk,n);
	fld_t f[64]; size_t k=ref_parse(b,n,f,64);
	int es=ref_sec(b,n,method);
	int gs=http_req_sec_chk(b,n,method); {extern long st[8]; st[gs]++; extern long kk; kk+=k; if(getenv("SHOW")&&rn(20000)==0) dump("sample",b,n);}
	if((es==0)!=(gs==0) ){ if(fails++<MAXF){ printf("SEC FAIL exp=%d got=%d ",es,gs); dump("in",b,n);} }
	else if (es!=gs && es>2) { if(fails++<MAXF){ printf("SEC CODE exp=%d got=%d ",es,gs); dump("in",b,n);} }
	/* lookups only on clean blocks (no ctl edits) */
	if(ed==1) { free(b); return; }
	if(ed==2||ed==3){ free(b); return; }
	static const char *look[]={"host","content-length","transfer-encoding","HOST","x","te","accept","hos","host2","x-host","A!#$%&'*+-.^_`|~Z","nope"};
	for(size_t li=0;li<nitems(look);li++){
		const char *q=look[li]; size_t ql=strlen(q);
		size_t ec=0; for(size_t i=0;i<k;i++) if(ieq(b+f[i].name_off,f[i].name_n,q)) ec++;
		size_t gc=http_hdr_val_get_count(b,n,(const uint8_t*)q,ql);
		if(ec!=gc){ if(fails++<MAXF){ printf("COUNT FAIL %s exp=%zu got=%zu ",q,ec,gc); dump("in",b,n);} continue; }
		size_t off=0;
		for(size_t i=0;i<k;i++){ if(!ieq(b+f[i].name_off,f[i].name_n,q)) continue;
			const uint8_t *v=(void*)1; size_t vs=12345,no=0;
			int rc=http_hdr_val_get_ex(b,n,(const uint8_t*)q,ql,off,&v,&vs,&no);
			if(rc!=0||vs!=f[i].tv_n||(vs&&v!=b+f[i].tv_off)||no!=f[i].end_off){ if(fails++<MAXF){ printf("GET FAIL %s rc=%d vs=%zu exp=%zu no=%zu expno=%zu ",q,rc,vs,f[i].tv_n,no,f[i].end_off); dump("in",b,n);} break; }
			off=no;
		}
	}
	/* remove */
	if (1) {
	for(size_t li=0;li<3;li++){
		const char *q=look[li]; size_t ql=strlen(q);
		uint8_t *h=xdup(b,n), *lc=xdup(b,n); for(size_t i=0;i<n;i++) lc[i]=(uint8_t)tolower(lc[i]);
		/* expected */
		uint8_t ex[4096]; size_t en=0, ec=0;
		{ size_t prev_end= k? f[0].name_off-2 : n; memcpy(ex,b,prev_end); en=prev_end;
		  for(size_t i=0;i<k;i++){ size_t fe= f[i].end_off; if(ieq(b+f[i].name_off,f[i].name_n,q)){ec++;continue;} memcpy(ex+en,b+f[i].name_off-2,fe-(f[i].name_off-2)); en+=fe-(f[i].name_off-2);} 
		  if(k && f[k-1].end_off<n){ memcpy(ex+en,b+f[k-1].end_off,n-f[k-1].end_off); en+=n-f[k-1].end_off; } }
		size_t gn=0; size_t gc=http_hdr_val_remove(h,lc,n,&gn,(const uint8_t*)q,ql);
		if(gc!=ec||gn!=en||memcmp(h,ex,en)!=0){ if(fails++<MAXF){ printf("REMOVE FAIL %s cnt exp=%zu got=%zu ",q,ec,gc); dump("in",b,n); dump(" exp",ex,en); dump(" got",h,gn);} }
		free(h);free(lc);
	}}
	free(b);
}

/* ---------- query ---------- */
static void test_query(void){
	uint8_t q[256]; size_t n=0; const char *ks[]={"a","b","ab","A","flag","","x-y","a"};
	struct {size_t ko,kn,vo,vn; int haseq;} p[16]; size_t np=0;
	uint32_t cnt=rn(6);
	uint32_t la=rn(3)==0?rn(3):0; while(la--) q[n++]='&';
	for(uint32_t i=0;i<cnt;i++){
		const char *k=ks[rn(nitems(ks))]; size_t kl=strlen(k);
		p[np].ko=n; p[np].kn=kl; memcpy(q+n,k,kl); n+=kl;
		p[np].haseq= rn(6)!=0;
		if(p[np].haseq){ q[n++]='='; p[np].vo=n; uint32_t vl=rn(5); p[np].vn=vl; while(vl--){ uint32_t r=rn(10); q[n++]= r==0?'=': (uint8_t)("abc019%+/:?"[rn(11)]); } }
		else { p[np].vo=n; p[np].vn=0; }
		np++;
		if(i+1<cnt){ uint32_t a=1+(rn(5)==0?rn(3):0); while(a--) q[n++]='&'; }
	}
	uint32_t ta=rn(4)==0?1+rn(2):0; while(ta--) q[n++]='&';
	if(n==0) return;
	uint8_t *b=xdup(q,n);
	const char *look[]={"a","b","ab","flag","x-y","zz"};
	for(size_t li=0;li<nitems(look);li++){
		const char *k=look[li]; size_t kl=strlen(k);
		int found=-1; for(size_t i=0;i<np;i++){ if(p[i].haseq && p[i].kn==kl && 0==strncasecmp((char*)b+p[i].ko,k,kl)){found=(int)i;break;} }
		const uint8_t *v=NULL,*vn=NULL; size_t vs=999;
		int rc=http_query_val_get_ex(b,n,(const uint8_t*)k,kl,&vn,&v,&vs);
		if((found<0)!=(rc!=0) || (found>=0 && (vs!=p[found].vn || v!=b+p[found].vo || vn!=b+p[found].ko))){
			if(fails++<MAXF){ printf("QUERY FAIL key=%s rc=%d found=%d vs=%zu ",k,rc,found,vs); dump("q",b,n);} }
	}

	for(size_t li=0;li<nitems(look);li++){
		const char *k=look[li]; size_t kl=strlen(k);
		uint8_t *w=xdup(b,n); size_t wn=777;
		/* expected pieces */
		char ex[512]; size_t en=0, ec=0;
		for(size_t i=0;i<np;i++){ int m = p[i].haseq && p[i].kn==kl && 0==strncasecmp((char*)b+p[i].ko,k,kl);
			if(m){ec++;continue;}
			size_t pe = p[i].haseq? p[i].vo+p[i].vn : p[i].ko+p[i].kn;
			if(pe==p[i].ko) continue; /* empty piece */
			if(en) ex[en++]='&'; memcpy(ex+en,b+p[i].ko,pe-p[i].ko); en+=pe-p[i].ko; }
		size_t dc=http_query_val_del(w,n,(const uint8_t*)k,kl,&wn);
		/* normalise got: collapse & runs, strip ends */
		char g[512]; size_t gn=0; if (wn<=n) for(size_t i=0;i<wn;i++){ if(w[i]=='&'){ if(gn==0||g[gn-1]=='&') continue; } g[gn++]=(char)w[i]; } while(gn&&g[gn-1]=='&')gn--;
		if(dc!=ec||wn>n||gn!=en||memcmp(g,ex,en)){ if(fails++<MAXF){ printf("QDEL FAIL key=%s exp cnt=%zu got=%zu ",k,ec,dc); dump("q",b,n); dump(" exp",(uint8_t*)ex,en); dump(" got",w,wn<=n?wn:0);} }
		free(w);
	}
	free(b);
}

long st[8]; long kk;
int main(int argc,char**argv){
	long iters= argc>1? atol(argv[1]):200000; if(argc>2) rs^= (uint64_t)atol(argv[2])*0x9E3779B97F4A7C15ULL;
	for(long i=0;i<iters;i++){ test_reqline(); test_respline(); test_headers(); test_query(); }
	printf("fails=%d\n",fails); for(int i=0;i<8;i++)printf("sec[%d]=%ld ",i,st[i]); printf("fields=%ld\n",kk); return fails!=0;
}
