#include <sys/param.h>
#include <sys/types.h>
#include <inttypes.h>
#include <string.h>
#include <stdio.h>
#include <stdlib.h>
#include <errno.h>
#include <ctype.h>
#include "utils/macro.h"
#include "utils/mem_utils.h"
#include "proto/http.h"
static uint64_t rs = 88172645463325252ULL;
static uint32_t rnd(void){ rs ^= rs<<13; rs ^= rs>>7; rs ^= rs<<17; return (uint32_t)(rs>>16); }
static uint32_t rn(uint32_t n){ return n? rnd()%n : 0; }
static const char *frag[] = {"\r\n","\r","\n"," ","\t",":","/","?","&","=","Host","host","GET","CONNECT","HTTP/1.1","HTTP/","1",".","://","http","a","b","%","+","0","5","f","\r\n ","\r\n\t","Content-Length","*","200","OPTIONS","A"};
static size_t gen(uint8_t *o, size_t max){ size_t n=0; uint32_t k=rn(14); while(k--){ const char *f=frag[rn(nitems(frag))]; size_t l=strlen(f); if(n+l>max)break; memcpy(o+n,f,l); n+=l;} return n; }
static void dump(const char *t, const uint8_t *b, size_t n){
	fprintf(stderr,"%s[%zu]=\"", t, n);
	for(size_t i=0;i<n;i++){ uint8_t c=b[i]; if(c=='\r')fprintf(stderr,"\\r"); else if(c=='\n')fprintf(stderr,"\\n"); else if(c=='\t')fprintf(stderr,"\\t"); else if(c<32||c>126)fprintf(stderr,"\\x%02x",c); else fputc(c,stderr);} 
	fprintf(stderr,"\"\n");
}
static uint8_t *cur; static size_t curn; static const char *stage;
#include <signal.h>
int main(int argc,char**argv){
	long iters= argc>1? atol(argv[1]):200000; if(argc>2) rs^= (uint64_t)atol(argv[2])*0x9E3779B97F4A7C15ULL;
	uint8_t tmp[256];
	for(long it=0;it<iters;it++){
		size_t n=gen(tmp,200);
		uint8_t *b=malloc(n?n:1); memcpy(b,tmp,n);
		if (getenv("TRACE")) dump("in",b,n);
		http_req_line_data_t rd; http_resp_line_data_t rp;
		if (0==http_parse_req_line(b,n,&rd)) {
			/* spans inside input */
			const uint8_t *e=b+n;
#define IN(p,s) ((s)==0 || ((p)>=b && (p)+(s)<=e))
			if(!IN(rd.method,rd.method_size)||!IN(rd.uri,rd.uri_size)||!IN(rd.scheme,rd.scheme_size)||!IN(rd.host,rd.host_size)||!IN(rd.abs_path,rd.abs_path_size)||!IN(rd.query,rd.query_size)||rd.abs_path_size>n||rd.query_size>n){ dump("SPAN OUT",b,n); return 1; }
		}
		if (0==http_parse_resp_line(b,n,&rp)) { if(!(rp.reason_phrase_size==0 || (rp.reason_phrase>=b && rp.reason_phrase+rp.reason_phrase_size<=b+n))){dump("RESP SPAN",b,n);return 1;} }
		http_req_sec_chk(b,n,rn(14));
		const uint8_t *v; size_t vs, no;
		const char *nm=frag[rn(nitems(frag))];
		http_hdr_val_get_count(b,n,(const uint8_t*)nm,strlen(nm));
		if (0==http_hdr_val_get_ex(b,n,(const uint8_t*)nm,strlen(nm),rn(n+2),&v,&vs,&no)) { if(!(vs==0||(v>=b&&v+vs<=b+n))||no>n){dump("HDR SPAN",b,n);return 1;} }
		if (0==http_query_val_get_ex(b,n,(const uint8_t*)nm,strlen(nm),NULL,&v,&vs)) { if(!(v>=b&&v+vs<=b+n)){dump("Q SPAN",b,n);return 1;} }
		{ uint8_t *w=malloc(n?n:1); memcpy(w,b,n); size_t wn=0; http_query_val_del(w,n,(const uint8_t*)nm,strlen(nm),&wn); if(wn>n){dump("QDEL SIZE",b,n);return 1;} free(w);} 
		{ uint8_t *h=malloc(n?n:1), *lc=malloc(n?n:1); memcpy(h,b,n); for(size_t i=0;i<n;i++) lc[i]=(uint8_t)tolower(b[i]); size_t wn=n; char lnm[32]; size_t l=strlen(nm); for(size_t i=0;i<=l;i++) lnm[i]=(char)tolower(nm[i]);
		  http_hdr_val_remove(h,lc,n,&wn,(const uint8_t*)lnm,l); if(wn>n){dump("REM SIZE",b,n);return 1;} free(h);free(lc);} 
		if(n){ uint8_t *o=malloc(n), *w=malloc(n); memcpy(w,b,n); size_t on=0; wsp2sp(w,n,o,&on); if(on>n){dump("WSP",b,n);return 1;} ht2sp(w,n,o,&on); free(o);free(w);} 
		{ uint8_t *w=malloc(n?n:1); memcpy(w,b,n); uint8_t *dr=NULL; size_t dn=0; if(0==http_data_decode_chunked(w,n,&dr,&dn)){ if(dn && !(dr>=w&&dr+dn<=w+n)){dump("CHUNK",b,n);return 1;} } free(w);} 
		if(n){ size_t bs=1+rn((uint32_t)n+2); uint8_t *o=malloc(bs); size_t r=http_url_decode(b,n,o,bs); if(r>=bs){dump("URLDEC",b,n);return 1;} free(o);} 
		skip_spwsp(b,n,&v,&vs); skip_spwsp2(b,n,&v,&vs);
		http_get_method_fast(b,n>11?11:n);
		free(b);
	}
	printf("raw ok\n"); return 0;
}
