/* The empty block (NULL, 0) is accepted by the argument checks of
 * http_hdr_val_get_ex() / http_hdr_val_get_count() / http_req_sec_chk()
 * (only NULL with a non-zero size is EINVAL) but they then compute
 * NULL + 0, which is undefined in C (UBSan: applying zero offset to null
 * pointer).  The same thing was already repaired in http_query_val_get_ex(). */
#include <sys/param.h>
#include <sys/types.h>
#include <inttypes.h>
#include <string.h>
#include <stdio.h>
#include <errno.h>
#include "utils/macro.h"
#include "utils/mem_utils.h"
#include "proto/http.h"
int main(void) {
	const uint8_t *v = NULL; size_t vs = 0;
	int rc = http_hdr_val_get(NULL, 0, (const uint8_t*)"host", 4, &v, &vs);
	printf("http_hdr_val_get(NULL,0) = %d\n", rc);
	printf("count = %zu\n", http_hdr_val_get_count(NULL, 0, (const uint8_t*)"host", 4));
	printf("sec_chk = %d\n", http_req_sec_chk(NULL, 0, HTTP_REQ_METHOD_GET));
	printf("PASS\n");
	return 0;
}
