#!/bin/sh
T=${1:-/tmp/hunt/C20}
D=$(dirname "$0")
clang -g -O0 -w -fsanitize=undefined -fno-sanitize-recover=undefined -DHAVE_ACCEPT4 -DHAVE_EXPLICIT_BZERO -DHAVE_MEMMEM -DHAVE_MEMRCHR -DHAVE_PIPE2 -DHAVE_POSIX_SPAWN_FILE_ACTIONS_ADDCLOSEFROM_NP -DHAVE_PTHREAD_SETNAME_NP -DHAVE_REALLOCARRAY -DHAVE_SOCK_CLOEXEC -DHAVE_SOCK_NONBLOCK -DHAVE_STRNCASECMP -DLINUX -D_GNU_SOURCE -D__USE_GNU=1 -I"$T/include" "$D/demo.c" "$T/src/proto/http.c" -o /tmp/c20_demo_null0 || exit 2
/tmp/c20_demo_null0 || { echo "FAIL: undefined behaviour on the empty block (NULL, 0)"; exit 1; }
