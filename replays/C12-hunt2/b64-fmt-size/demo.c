/* base64_decode_fmt(): returns ENOBUFS without telling the size it needs
 * (*dcd_size_ret is left untouched = uninitialised in the caller) and it
 * refuses a destination that has exactly (and more than) the decoded size:
 * the test is src_size > dst_size, not decoded size > dst_size.
 * base64_decode() on the same input reports 1 and works with 1 byte. */
#include <sys/param.h>
#include <sys/types.h>
#include <inttypes.h>
#include <string.h>
#include <stdio.h>
#include <errno.h>
#include <stdlib.h>
#include "utils/base64.h"

int
main(void) {
	int fail = 0, error;
	const uint8_t src[4] = { 'Y', 'Q', '=', '=' }; /* "a" */
	uint8_t *dst;
	size_t need;

	/* 1. Ask for the size with capacity 0, as with base64_decode(). */
	need = 0xdeadbeef;
	dst = malloc(1);
	error = base64_decode(src, sizeof(src), dst, 0, &need);
	printf("base64_decode     cap 0: error %i, reported size %zu\n", error, need);
	need = 0xdeadbeef;
	error = base64_decode_fmt(src, sizeof(src), dst, 0, &need);
	printf("base64_decode_fmt cap 0: error %i, reported size 0x%zx\n", error, need);
	if (ENOBUFS == error && 0xdeadbeef == need) {
		printf("FAIL: ENOBUFS but no size reported (caller reads garbage)\n");
		fail ++;
	}
	/* 2. Exactly sized / larger than the decoded size. */
	for (size_t cap = 1; cap <= 3; cap ++) {
		free(dst);
		dst = malloc(cap);
		need = 0xdeadbeef;
		error = base64_decode_fmt(src, sizeof(src), dst, cap, &need);
		printf("base64_decode_fmt cap %zu: error %i, size 0x%zx\n", cap, error, need);
		if (0 != error) {
			printf("FAIL: %zu byte buffer refused for 1 decoded byte\n", cap);
			fail ++;
		}
	}
	free(dst);
	return (fail);
}
