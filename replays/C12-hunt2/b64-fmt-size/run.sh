#!/bin/sh
# usage: run.sh <tree>
T=${1:-/tmp/hunt/C12}
D=$(dirname "$0")
O=$(mktemp -d)
clang -O1 -g -fsanitize=address,undefined -D_GNU_SOURCE -I"$T/include" "$D/demo.c" -o "$O/demo" || { echo "build failed"; exit 2; }
"$O/demo"; RC=$?
rm -rf "$O"
exit $RC
