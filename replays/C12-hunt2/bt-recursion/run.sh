#!/bin/sh
# usage: run.sh <tree>
T=${1:-/tmp/hunt/C12}
D=$(dirname "$0")
FL="-DHAVE_ACCEPT4 -DHAVE_EXPLICIT_BZERO -DHAVE_MEMMEM -DHAVE_MEMRCHR -DHAVE_PIPE2 -DHAVE_PTHREAD_SETNAME_NP -DHAVE_REALLOCARRAY -DHAVE_SOCK_CLOEXEC -DHAVE_SOCK_NONBLOCK -DHAVE_STRNCASECMP -DLINUX -D_GNU_SOURCE -D__USE_GNU=1 -I$T/include"
O=$(mktemp -d)
gcc -O2 -g $FL "$D/demo.c" "$T/src/utils/bt_encode.c" -o "$O/demo" 2>/dev/null || { echo "build failed"; exit 2; }
"$O/demo" 300000
RC=$?
rm -rf "$O"
exit $RC
