/* bt_en_decode(): recursion depth is bounded only by the input length.
 * A buffer of N times 'l' (or 'd' keys can not nest, lists can) recurses N deep:
 * the process dies with SIGSEGV (stack exhausted) instead of returning EBADMSG. */
#include <sys/param.h>
#include <sys/types.h>
#include <sys/wait.h>
#include <inttypes.h>
#include <string.h>
#include <stdio.h>
#include <errno.h>
#include <stdlib.h>
#include <unistd.h>
#include <signal.h>
#include "utils/bt_encode.h"

int
main(int argc, char **argv) {
	size_t n = (argc > 1) ? (size_t)atol(argv[1]) : 300000; /* 300 KB "torrent". */
	uint8_t *buf = malloc(n);
	pid_t pid;
	int st = 0;

	memset(buf, 'l', n);
	fflush(stdout);
	pid = fork();
	if (0 == pid) {
		bt_en_node_p node = NULL;
		size_t off = 0;
		int error = bt_en_decode(buf, n, &node, &off);
		printf("child: bt_en_decode(%zu x 'l') returned %i\n", n, error);
		_exit((0 != error && NULL == node) ? 0 : 3);
	}
	waitpid(pid, &st, 0);
	if (WIFSIGNALED(st)) {
		printf("FAIL: bt_en_decode() on %zu bytes of 'l' killed the process with signal %i (%s)\n",
		    n, WTERMSIG(st), strsignal(WTERMSIG(st)));
		return (1);
	}
	if (0 != WEXITSTATUS(st)) {
		printf("FAIL: unexpected result\n");
		return (1);
	}
	printf("OK: malformed input refused\n");
	return (0);
}
