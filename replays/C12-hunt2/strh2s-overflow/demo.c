/* strh2num.h signed parsers: the value is accumulated in the signed result
 * type ((_res) << 4 on a negative / too large int, then _res *= _sign):
 * signed overflow (undefined behaviour) for 8 hex digits with the top bit
 * set, for the type minimum and for every over-long input.
 * str2num.h was repaired for exactly this (commit 642c380), strh2num.h not. */
#include <sys/param.h>
#include <sys/types.h>
#include <inttypes.h>
#include <string.h>
#include <stdio.h>
#include <errno.h>
#include <stdlib.h>
#include "utils/strh2num.h"

int
main(void) {
	int fail = 0;
	volatile size_t l1 = 8, l2 = 9, l3 = 17;
	int32_t a = strh2s32("80000000", l1);   /* 0x08000000 << 4 in int. */
	int32_t b = strh2s32("-80000000", l2);  /* INT32_MIN * -1. */
	int64_t c = strh2s64("-8000000000000000", l3); /* INT64_MIN * -1. */
	ssize_t d = strh2ssize("fffffffffffffffff", l3); /* 17 digits: shifts a negative value. */

	printf("strh2s32(\"80000000\") = %"PRIi32"\n", a);
	printf("strh2s32(\"-80000000\") = %"PRIi32"\n", b);
	printf("strh2s64(\"-8000000000000000\") = %"PRIi64"\n", c);
	printf("strh2ssize(\"fffffffffffffffff\") = %zi\n", d);
	if (INT32_MIN != b || INT64_MIN != c)
		fail ++;
	if (fail)
		printf("FAIL\n");
	return (fail);
}
