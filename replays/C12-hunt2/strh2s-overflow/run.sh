#!/bin/sh
# usage: run.sh <tree>   - exits non-zero when UBSan reports in strh2num.h
T=${1:-/tmp/hunt/C12}
D=$(dirname "$0")
O=$(mktemp -d)
clang -O1 -g -fsanitize=undefined -fno-sanitize-recover=undefined -D_GNU_SOURCE -I"$T/include" "$D/demo.c" -o "$O/demo" || { echo "build failed"; exit 2; }
"$O/demo" 2>&1 | tee "$O/out"
if grep -q "runtime error" "$O/out"; then echo "FAIL: undefined behaviour in strh2num.h"; rm -rf "$O"; exit 1; fi
rm -rf "$O"
exit 0
