#include <sys/param.h>
#include <sys/types.h>
#include <inttypes.h>
#include <string.h>
#include <stdio.h>
#include <errno.h>
#include <stdlib.h>
#include "utils/mem_utils.h"
static uint64_t rs = 88172645463325252ull;
static uint32_t rnd(void){ rs ^= rs<<13; rs ^= rs>>7; rs ^= rs<<17; return (uint32_t)(rs>>11);}
int main(void){
	for(long it=0; it<2000000; it++){
		size_t n=rnd()%12; uint8_t *s=malloc(n?n:1); for(size_t i=0;i<n;i++)s[i]="ab"[rnd()%2];
		size_t rc=rnd()%4; const void *sp[4],*dp[4]; size_t sc[4],dc[4]; uint8_t *pp[8];
		for(size_t k=0;k<rc;k++){ sc[k]=rnd()%4; dc[k]=rnd()%5; pp[k]=malloc(sc[k]?sc[k]:1); for(size_t i=0;i<sc[k];i++)pp[k][i]="ab"[rnd()%2]; pp[4+k]=malloc(dc[k]?dc[k]:1); memset(pp[4+k],'X',dc[k]); sp[k]=pp[k]; dp[k]=pp[4+k]; }
		size_t cap=rnd()%30; uint8_t *d=malloc(cap?cap:1); size_t ds=0, rp=0;
		int e=mem_replace_arr(s,n,rc,NULL,sp,sc,dp,dc,d,cap,&ds,&rp);
		if(e==0 && ds>cap){printf("ds>cap\n");abort();}
		/* with big cap must succeed and then exact must succeed */
		uint8_t *big=malloc(200); size_t bs; if(mem_replace_arr(s,n,rc,NULL,sp,sc,dp,dc,big,200,&bs,NULL)){printf("big fail\n");abort();}
		uint8_t *ex=malloc(bs?bs:1); size_t es; if(mem_replace_arr(s,n,rc,NULL,sp,sc,dp,dc,ex,bs,&es,NULL)||es!=bs||memcmp(ex,big,bs)){printf("exact fail\n");abort();}
		if(bs){ uint8_t *sh=malloc(bs-1?bs-1:1); if(0==mem_replace_arr(s,n,rc,NULL,sp,sc,dp,dc,sh,bs-1,&es,NULL)){printf("short ok?\n");abort();} free(sh);} 
		free(big);free(ex);free(d);free(s); for(size_t k=0;k<rc;k++){free(pp[k]);free(pp[4+k]);}
	}
	printf("done\n");return 0;}
