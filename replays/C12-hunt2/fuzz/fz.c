#include <sys/param.h>
#include <sys/types.h>
#include <inttypes.h>
#include <string.h>
#include <stdio.h>
#include <errno.h>
#include <stdlib.h>
#include "utils/base64.h"
#include "utils/num2str.h"
#include "utils/str2num.h"
#include "utils/strh2num.h"
#include "utils/utf8.h"
#include "utils/asn1.h"
#include "utils/mem_utils.h"
#include "utils/buf_str.h"
#include "utils/xml.h"
#include "utils/ini.h"
#include "utils/bt_encode.h"

static uint64_t rs = 88172645463325252ull;
static uint32_t rnd(void){ rs ^= rs<<13; rs ^= rs>>7; rs ^= rs<<17; return (uint32_t)(rs>>11);}
static uint8_t *mk(size_t n){ uint8_t *p = malloc(n?n:1); return p; }

static void gen(uint8_t *b, size_t n, const char *alpha){ size_t al=strlen(alpha); for(size_t i=0;i<n;i++) b[i]= (rnd()%16==0)?(uint8_t)rnd():(uint8_t)alpha[rnd()%al]; }

int main(int argc,char**argv){
	long iters = argc>1?atol(argv[1]):200000;
	int which = argc>2?atoi(argv[2]):-1;
	for(long it=0; it<iters; it++){
		size_t n = rnd()%24;
		/* xml */
		if (which<0||which==0){
			n = rnd()%40;
			uint8_t *b = malloc(n?n:1); gen(b,n,"<>/ab !-[]CDATA?: \t\"=");
			const uint8_t *tags[3]={(const uint8_t*)"a",(const uint8_t*)"b",(const uint8_t*)"a"}; size_t tc[3]={1,1,1};
			size_t cnt = 1+rnd()%3;
			const uint8_t *np=NULL,*at,*v; size_t as,vs; int guard=0;
			while (0==xml_get_val_arr(b,n,&np,cnt,tags,tc,&at,&as,&v,&vs)){
				if (v){ if(v<b||v+vs>b+n){printf("xml OOB val\n");abort();} volatile uint8_t s=0; for(size_t i=0;i<vs;i++)s+=v[i]; }
				if (at){ if(at<b||at+as>b+n){printf("xml OOB attr n=%zu as=%zu\n",n,as);fwrite(b,1,n,stdout);abort();} }
				if(++guard>1000){printf("xml loop\n");abort();}
			}
			const uint8_t *ns[3]; size_t nss[3]; np=NULL; guard=0;
			while (0==xml_get_val_ns_arr(b,n,&np,cnt,tags,tc,ns,nss,&at,&as,&v,&vs)){
				if (v){ if(v<b||v+vs>b+n){printf("xmlns OOB val\n");abort();} }
				if (at){ if(at<b||at+as>b+n){printf("xmlns OOB attr\n");abort();} }
				if(++guard>1000){printf("xmlns loop\n");abort();}
			}
			/* encode/decode */
			size_t cap = rnd()%60; uint8_t *o=malloc(cap?cap:1); size_t os;
			xml_encode(b,n,o,cap,&os); xml_decode(b,n,o,cap,&os);
			free(o); free(b);
		}
		if (which<0||which==1){ /* lines / args */
			n = 1+rnd()%20; uint8_t *b=malloc(n); gen(b,n,"a\r\n \t\"b");
			const uint8_t *l=NULL; size_t ls=0; int g=0;
			while(0==buf_get_next_line(b,n,l,ls,&l,&ls)){ if(l<b||l+ls>b+n){printf("line OOB\n");abort();} if(++g>100){printf("line loop\n");abort();} }
			char *args[4]; size_t asz[4]; size_t ma=1+rnd()%4;
			size_t r=buf2args((char*)b,n,ma,args,asz);
			for(size_t i=0;i<r;i++){ if((uint8_t*)args[i]<b||(uint8_t*)args[i]+asz[i]>b+n){printf("args OOB\n");abort();} }
			free(b);
		}
		if (which<0||which==2){ /* asn */
			n = 1+rnd()%16; uint8_t *b=malloc(n); for(size_t i=0;i<n;i++){ uint32_t r=rnd(); b[i]= (r&3)==0?0x80|(r>>8&0xf):(r&3)==1?0x1f|(r>>8&0xe0):(r&3)==2?0:(uint8_t)(r>>8);} 
			size_t off=0,hs,tag,ds; uint8_t cls,ps,*d; int g=0;
			while(0==asn_parse(b,n,&off,&hs,&cls,&ps,&tag,&d,&ds)){ if(d<b||d+ds>b+n||off>n){printf("asn OOB\n");abort();} if(++g>100){printf("asn loop\n");abort();} }
			free(b);
		}
		if (which<0||which==3){ /* base64/hex */
			n = rnd()%20; uint8_t *b=malloc(n?n:1); gen(b,n,"ABab01+/=\n");
			size_t cap=rnd()%24; uint8_t *o=malloc(cap?cap:1); size_t os=0;
			int e=base64_decode(b,n,o,cap,&os);
			if(e==ENOBUFS){ uint8_t *o2=malloc(os?os:1); size_t os2; int e2=base64_decode(b,n,o2,os,&os2); if(e2){printf("b64dec exact fail %d\n",e2);abort();} free(o2);} 
			e=base64_encode(b,n,o,cap,&os);
			if(e==ENOBUFS){ uint8_t *o2=malloc(os?os:1); size_t os2; int e2=base64_encode(b,n,o2,os,&os2); if(e2){printf("b64enc exact fail\n");abort();} free(o2);} 
			base64_decode_fmt(b,n,o,cap,&os);
			cvt_hex2bin(b,n,rnd()&1,o,cap,&os);
			e=cvt_bin2hex(b,n,rnd()&1,o,cap,&os);
			if(e==EOVERFLOW){ uint8_t *o2=malloc(os); size_t os2; int e2=cvt_bin2hex(b,n,1,o2,os,&os2); if(e2){printf("b2h exact fail\n");abort();} free(o2);} 
			utf8_decode(b,n,o,cap);
			free(o); free(b);
		}
		if (which<0||which==4){ /* bt */
			n = 1+rnd()%24; uint8_t *b=malloc(n); gen(b,n,"ldie0123:ab-");
			bt_en_node_p nd=NULL; size_t off=0;
			if(0==bt_en_decode(b,n,&nd,&off)){ if(off>n){printf("bt off OOB\n");abort();} if(nd->raw<b||nd->raw+nd->raw_size>b+n){printf("bt raw OOB type %d n=%zu rs=%zu\n",nd->type,n,nd->raw_size);abort();} bt_en_free(nd);} 
			free(b);
		}
		if (which<0||which==5){ /* ini */
			n = rnd()%40; uint8_t *b=malloc(n?n:1); gen(b,n,"[]s=k\r\n;v ");
			ini_p ini; ini_create(&ini); ini_buf_parse(ini,b,n);
			for(int k=0;k<6;k++){
				uint8_t sn[4],vn[4]; size_t vl=rnd()%40; uint8_t *v=malloc(vl?vl:1); memset(v,'x',vl);
				sn[0]="s[]k"[rnd()%4]; vn[0]="ksv "[rnd()%4];
				ini_val_set(ini,sn,1,vn,1,v,vl);
				free(v);
				const uint8_t *gv; size_t gs; if(0==ini_val_get(ini,sn,1,vn,1,&gv,&gs)){ volatile uint8_t s=0; for(size_t i=0;i<gs;i++)s+=gv[i]; }
			}
			size_t fs,gs; ini_buf_calc_size(ini,&fs);
			uint8_t *o=malloc(fs?fs:1); if(0!=ini_buf_gen(ini,o,fs,&gs)||gs!=fs){printf("ini gen exact fail\n");abort();}
			if(fs){ int e=ini_buf_gen(ini,o,fs-1,&gs); if(e==0){printf("ini gen short ok?\n");abort();} }
			free(o); ini_destroy(ini); free(b);
		}
		if (which<0||which==6){ /* mem_find_stream */
			const char *alpha="ab"; size_t wl=1+rnd()%5; uint8_t w[8]; for(size_t i=0;i<wl;i++)w[i]=alpha[rnd()%2];
			size_t tl=1+rnd()%16; uint8_t t[20]; for(size_t i=0;i<tl;i++)t[i]=alpha[rnd()%2];
			uint8_t *ref=memmem(t,tl,w,wl); size_t refend = ref? (size_t)(ref-t)+wl : 0;
			size_t pos=0, st=0; int found=0; size_t fend=0;
			while(pos<tl){ size_t cl=1+rnd()%4; if(cl>tl-pos)cl=tl-pos; uint8_t *c=malloc(cl); memcpy(c,t+pos,cl); size_t oe=0; int e=mem_find_stream(c,cl,w,wl,&st,&oe); free(c); if(e==0){found=1;fend=pos+oe;break;} pos+=cl; }
			if(found!=(ref!=NULL) || (found&&fend!=refend)){ printf("mfs mismatch w=%.*s t=%.*s found=%d fend=%zu ref=%zu\n",(int)wl,w,(int)tl,t,found,fend,refend); abort(); }
		}
		if (which<0||which==7){ /* num2str */
			static const uint64_t sp[]={0,1,9,10,99,100,18446744073709551615ull,10000000000000000000ull,9999999999999999999ull,9223372036854775807ull,9223372036854775808ull};
			uint64_t v = sp[rnd()%11]; size_t cap=rnd()%24; char *o=malloc(cap?cap:1); size_t os=0;
			int e=u642str(v,o,cap,&os); if(e==ENOSPC){char*o2=malloc(os);size_t o3; if(u642str(v,o2,os,&o3)){printf("n2s exact\n");abort();} if(strlen(o2)!=o3)abort(); free(o2);} 
			e=s642str((int64_t)v,o,cap,&os); if(e==ENOSPC){char*o2=malloc(os);size_t o3; if(s642str((int64_t)v,o2,os,&o3)){printf("sn2s exact\n");abort();} if(strlen(o2)!=o3)abort(); free(o2);} 
			s82str((int8_t)v,o,cap,&os); u82str((uint8_t)v,o,cap,&os); s322str((int32_t)v,o,cap,&os);
			free(o);
		}
	}
	printf("done\n"); return 0;
}
