/* fmt_as_uptime(): with capacity 0 the 'truncated' branch returns
 * buf_size - 1 = SIZE_MAX as the number of characters written. */
#include <sys/param.h>
#include <sys/types.h>
#include <inttypes.h>
#include <string.h>
#include <stdio.h>
#include <errno.h>
#include <stdlib.h>
#include <time.h>
#include "utils/buf_str.h"

int
main(void) {
	int fail = 0;
	time_t ut = 90061; /* 1+01:01:01 */
	char *buf = malloc(16);
	size_t off = 0, cap = 16, r;

	/* Usual append pattern: off += fmt(buf + off, cap - off). */
	for (int i = 0; i < 3; i ++) {
		r = fmt_as_uptime(&ut, (buf + off), (cap - off));
		printf("cap left %zu -> returned %zu\n", (cap - off), r);
		if (r > (cap - off)) {
			printf("FAIL: reported %zu (0x%zx) characters written into %zu bytes\n", r, r, (cap - off));
			fail ++;
			break;
		}
		off += r + 1; /* Keep the terminators. */
		if (off > cap)
			off = cap;
	}
	r = fmt_as_uptime(&ut, buf, 0);
	if (0 != r) {
		printf("FAIL: fmt_as_uptime(buf, 0) = 0x%zx\n", r);
		fail ++;
	}
	free(buf);
	return (fail);
}
