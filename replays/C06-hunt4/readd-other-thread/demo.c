/* A live read registration is added again on ANOTHER pool thread
 * (tpt_ev_add_args(t1, ...) with the same tp_udata, return 0).
 * Expected: the event now belongs to t1 only (or the call is refused).
 * Observed: the descriptor stays in t0's epoll set too: callbacks run on both
 * threads, and after tpt_ev_del (returns 0) thread 0 keeps receiving the
 * level-triggered event of the "deleted" registration for ever (busy loop,
 * pointer to the user's record still in the kernel). */
#include "common.h"
static volatile int cnt_thr[3];
static void cb(tp_event_p ev, tp_udata_p u) {
	tpt_p c = tpt_get_current();
	size_t n = c ? tpt_get_num(c) : 2;
	__sync_fetch_and_add(&cnt_thr[n > 2 ? 2 : n], 1);
	usleep(1000); /* data is left unread: persistent event keeps firing. */
}
static tp_udata_t u;
static int rc;
static void do_add(tpt_p tpt, void *p) { rc = tpt_ev_add_args(tpt, TP_EV_READ, 0, 0, 0, &u); }
static void do_del(tpt_p tpt, void *p) { rc = tpt_ev_del_args1(TP_EV_READ, &u); }
static long cpu_ms(void) { struct timespec a; clock_gettime(CLOCK_PROCESS_CPUTIME_ID, &a); return (long)(a.tv_sec * 1000 + a.tv_nsec / 1000000); }
int main(void) {
	int sp[2], fail = 0, c0, c1; long cpu;
	pool_start(2);
	tpt_p t0 = tp_thread_get(g_pool, 0), t1 = tp_thread_get(g_pool, 1);
	socketpair(AF_UNIX, SOCK_STREAM | SOCK_NONBLOCK, 0, sp);
	u.cb_func = cb; u.ident = (uintptr_t)sp[0];
	write(sp[1], "x", 1);
	run_on(t0, do_add, NULL); printf("add on thread 0: rc=%d\n", rc);
	msleep(50);
	printf("callbacks: thr0=%d thr1=%d\n", cnt_thr[0], cnt_thr[1]);
	run_on(t1, do_add, NULL); printf("add on thread 1: rc=%d, tp_udata->tpt is thread %zu\n", rc, tpt_get_num(u.tpt));
	c0 = cnt_thr[0]; c1 = cnt_thr[1];
	msleep(100);
	printf("100 ms after the second add: thr0 +%d, thr1 +%d\n", cnt_thr[0] - c0, cnt_thr[1] - c1);
	if (0 == rc && cnt_thr[0] - c0 > 1) { printf("FAIL: registration moved to thread 1 but callback still runs on thread 0\n"); fail = 1; }
	run_on(t1, do_del, NULL); printf("del: rc=%d\n", rc);
	msleep(20);
	c0 = cnt_thr[0] + cnt_thr[1]; cpu = cpu_ms(); msleep(300); cpu = cpu_ms() - cpu;
	printf("after del: callbacks +%d, process CPU time in 300 ms of idle: %ld ms\n", cnt_thr[0] + cnt_thr[1] - c0, cpu);
	if (cpu > 150) { printf("FAIL: deleted event is still delivered to thread 0 (busy loop in tpt_loop)\n"); fail = 1; }
	if (!fail) printf("PASS\n");
	return fail;
}
