#include <sys/param.h>
#include <sys/types.h>
#include <sys/socket.h>
#include <sys/timerfd.h>
#include <sys/epoll.h>
#include <inttypes.h>
#include <string.h>
#include <stdio.h>
#include <stdlib.h>
#include <errno.h>
#include <unistd.h>
#include <pthread.h>
#include <time.h>
#include <fcntl.h>
#include <signal.h>
#include <sys/wait.h>
#include "threadpool/threadpool.h"
#include "threadpool/threadpool_msg_sys.h"

static tp_p g_pool;
typedef void (*on_thr_fn)(tpt_p tpt, void *arg);
struct on_thr { on_thr_fn fn; void *arg; volatile int done; };
static void on_thr_cb(tpt_p tpt, void *udata) {
	struct on_thr *o = udata;
	o->fn(tpt, o->arg);
	__sync_synchronize();
	o->done = 1;
}
/* run fn on thread and wait */
static void run_on(tpt_p tpt, on_thr_fn fn, void *arg) {
	struct on_thr o = { fn, arg, 0 };
	int e = tpt_msg_send(tpt, NULL, 0, on_thr_cb, &o);
	if (e) { printf("tpt_msg_send error %d\n", e); exit(2); }
	while (!o.done) usleep(1000);
}
static void pool_start(size_t n) {
	tp_settings_t s;
	tp_settings_def(&s);
	s.threads_max = n;
	s.flags = 0;
	strcpy(s.name, "t");
	if (tp_create(&s, &g_pool)) { printf("tp_create failed\n"); exit(2); }
	if (tp_threads_create(g_pool, 0)) { printf("threads create failed\n"); exit(2); }
	usleep(100000);
}
static void msleep(int ms) { usleep(ms * 1000); }
