/* A running periodic timer; tpt_ev_enable_args(1, TP_EV_TIMER, 0, TP_FF_T_SEC, 2^63)
 * is refused (EINVAL from timerfd_settime: (time_t)data is negative), but the
 * refusal closes the timerfd and zeroes tpdata: the registered, enabled,
 * persistent timer never fires again.  Same call with data = 0 (refused by
 * tpt_ev_validate) leaves the timer alone. */
#include "common.h"
static volatile int cnt;
static void cb(tp_event_p ev, tp_udata_p u) { cnt++; }
static tp_udata_t tmr;
static int rc;
static void add_tmr(tpt_p tpt, void *a) { rc = tpt_ev_add_args(tpt, TP_EV_TIMER, 0, TP_FF_T_MSEC, 20, &tmr); }
static void en(tpt_p tpt, void *a) { rc = tpt_ev_enable_args(1, TP_EV_TIMER, 0, TP_FF_T_SEC, *(uint64_t*)a, &tmr); }
static void del(tpt_p tpt, void *a) { rc = tpt_ev_del_args1(TP_EV_TIMER, &tmr); }
int main(void) {
	int c0, fail = 0; uint64_t v;
	pool_start(1);
	tpt_p t0 = tp_thread_get(g_pool, 0);
	tmr.cb_func = cb; tmr.ident = 1234;
	run_on(t0, add_tmr, NULL); printf("add periodic 20 ms: rc=%d\n", rc);
	msleep(200); printf("fired %d times in 200 ms\n", cnt);
	v = 0; run_on(t0, en, &v); printf("enable data=0 s: rc=%d tpdata=%#llx\n", rc, (unsigned long long)tmr.tpdata);
	c0 = cnt; msleep(200); printf("  next 200 ms: +%d\n", cnt - c0);
	if (cnt - c0 < 5) fail = 1;
	v = 0x8000000000000000ull; run_on(t0, en, &v); printf("enable data=2^63 s: rc=%d tpdata=%#llx\n", rc, (unsigned long long)tmr.tpdata);
	c0 = cnt; msleep(200); printf("  next 200 ms: +%d\n", cnt - c0);
	if (0 != rc && cnt - c0 < 5) { printf("FAIL: a refused enable destroyed the live periodic timer\n"); fail = 1; }
	run_on(t0, del, NULL); printf("del: rc=%d (ENOENT=%d)\n", rc, ENOENT);
	if (!fail) printf("PASS\n");
	return fail;
}
