#include "harness.h"

static int
run_case(const char *name, const char *payload, size_t want_callbacks) {
	char rbuf[16384];
	int s, bad = 0;
	size_t n200, n400;

	g_log_cnt = 0;
	s = h_connect();
	if (-1 == s) return (1);
	send(s, payload, strlen(payload), MSG_NOSIGNAL);
	h_read_all(s, rbuf, sizeof(rbuf), 700);
	close(s);
	n200 = h_count(rbuf, "HTTP/1.1 200");
	n400 = h_count(rbuf, " 400 Bad request\r\n");
	printf("[%s]\n  responses: 200 x %zu, 400 x %zu; callbacks: %zu (a conforming server: %zu)\n",
	    name, n200, n400, (size_t)g_log_cnt, want_callbacks);
	h_dump_log();
	if (g_log_cnt != want_callbacks) bad = 1;
	for (size_t i = 0; i < g_log_cnt; i ++)
		if (NULL != strstr(g_log[i].uri, "smuggled")) bad = 1;
	printf("  => %s\n", bad ? "FAIL" : "ok");
	return (bad);
}

int
main(void) {
	int bad = 0;

	setvbuf(stdout, NULL, _IONBF, 0);
	if (0 != h_start()) return (2);
	/* Control: a correct body is not a request. */
	bad |= run_case("control: Content-Length: 44 (exact body)",
	    "POST /a HTTP/1.1\r\nHost: x\r\nContent-Length: 44\r\n\r\n"
	    "GET /smuggled HTTP/1.1\r\nHost: x\r\nX: yyyyy\r\n\r\n", 1);
	/* 2^64: wraps to 0. RFC 7230 3.3.3 (4): invalid Content-Length = 400 + close. */
	bad |= run_case("Content-Length: 18446744073709551616 (2^64)",
	    "POST /a HTTP/1.1\r\nHost: x\r\nContent-Length: 18446744073709551616\r\n\r\n"
	    "GET /smuggled HTTP/1.1\r\nHost: x\r\nX: yyyyy\r\n\r\n", 0);
	/* Not a number at all: read as 0. */
	bad |= run_case("Content-Length: abc",
	    "POST /a HTTP/1.1\r\nHost: x\r\nContent-Length: abc\r\n\r\n"
	    "GET /smuggled HTTP/1.1\r\nHost: x\r\nX: yyyyy\r\n\r\n", 0);
	/* Non-digits are skipped: "4x4" / "4, 4" / "+44" / "4 4" are 44, "-0" and "0x2c" differ from what a front end reads. */
	bad |= run_case("Content-Length: 0x2c (hex 44 for a lenient front end; read as 02 here)",
	    "POST /a HTTP/1.1\r\nHost: x\r\nContent-Length: 0x2c\r\n\r\n"
	    "GET /smuggled HTTP/1.1\r\nHost: x\r\nX: yyyyy\r\n\r\n", 0);
	bad |= run_case("Content-Length: 4, 4 (list of 4 and 4; read as 44)",
	    "PUT /a HTTP/1.1\r\nHost: x\r\nContent-Length: 4, 4\r\n\r\n"
	    "GET /smuggled HTTP/1.1\r\nHost: x\r\nX: yyyyy\r\n\r\n", 0);
	printf("%s\n", bad ? "FAIL" : "PASS");
	_exit(bad ? 1 : 0);
}
