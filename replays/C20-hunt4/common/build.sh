#!/bin/sh
# build.sh <tree> <demo.c> <out>
T="$1"; SRC="$2"; OUT="$3"
HERE="$(cd "$(dirname "$0")" && pwd)"
FL="-DHAVE_ACCEPT4 -DHAVE_EXPLICIT_BZERO -DHAVE_MEMMEM -DHAVE_MEMRCHR -DHAVE_PIPE2 -DHAVE_POSIX_SPAWN_FILE_ACTIONS_ADDCLOSEFROM_NP -DHAVE_PTHREAD_SETNAME_NP -DHAVE_REALLOCARRAY -DHAVE_SOCK_CLOEXEC -DHAVE_SOCK_NONBLOCK -DHAVE_STRNCASECMP -DLINUX -D_GNU_SOURCE -D__USE_GNU=1"
exec cc -g -O1 -w -fsanitize=address,undefined -fno-sanitize-recover=undefined $FL -I"$T/include" -I"$HERE" "$SRC" \
  "$T/src/proto/http_server.c" "$T/src/proto/http.c" \
  "$T/src/threadpool/threadpool.c" "$T/src/threadpool/threadpool_msg_sys.c" "$T/src/threadpool/threadpool_task.c" \
  "$T/src/net/socket.c" "$T/src/net/socket_address.c" "$T/src/net/socket_options.c" "$T/src/net/utils.c" \
  "$T/src/utils/info.c" "$T/src/utils/sys.c" \
  -lpthread -o "$OUT"
