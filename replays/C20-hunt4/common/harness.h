/* Tiny harness: real http_server.c on 127.0.0.1, a raw TCP client, a log of
 * what the on_req_rcv callback was given. */
#include <sys/param.h>
#include <sys/types.h>
#include <sys/socket.h>
#include <netinet/in.h>
#include <arpa/inet.h>
#include <inttypes.h>
#include <string.h>
#include <stdio.h>
#include <stdlib.h>
#include <errno.h>
#include <unistd.h>
#include <poll.h>
#include <pthread.h>

#include "threadpool/threadpool.h"
#include "threadpool/threadpool_task.h"
#include "net/socket_address.h"
#include "proto/http.h"
#include "proto/http_server.h"

#define LOG_MAX 16
static struct { char method[16]; char uri[128]; size_t data_size; char data[256]; } g_log[LOG_MAX];
static volatile size_t g_log_cnt = 0;

static int
h_on_req(http_srv_cli_p cli, void *udata, http_srv_req_p req, http_srv_resp_p resp) {
	size_t n = g_log_cnt;
	(void)cli; (void)udata;
	if (n < LOG_MAX) {
		snprintf(g_log[n].method, sizeof(g_log[n].method), "%.*s", (int)req->line.method_size, req->line.method);
		snprintf(g_log[n].uri, sizeof(g_log[n].uri), "%.*s", (int)req->line.uri_size, req->line.uri);
		g_log[n].data_size = req->data_size;
		snprintf(g_log[n].data, sizeof(g_log[n].data), "%.*s", (int)MIN(req->data_size, 200), req->data);
		g_log_cnt = (n + 1);
	}
	resp->status_code = 200;
	return (HTTP_SRV_CB_CONTINUE);
}

static tp_p g_tp;
static http_srv_p g_srv;
static uint16_t g_port;

static int
h_start(void) {
	tp_settings_t tps;
	http_srv_settings_t ss;
	http_srv_bind_settings_t bs;
	http_srv_cli_ccb_t ccb;
	skt_opts_t so;
	int error, p;

	tp_settings_def(&tps);
	tps.threads_max = 1;
	tps.flags = 0;
	error = tp_create(&tps, &g_tp);
	if (0 != error) { printf("tp_create %i\n", error); return (error); }
	error = tp_threads_create(g_tp, 0);
	if (0 != error) { printf("tp_threads_create %i\n", error); return (error); }
	usleep(200000);

	http_srv_def_settings(0, "t", 0, &ss);
	ss.resp_p_flags = (HTTP_SRV_RESP_P_F_CONTENT_LEN); /* keep-alive. */
	ss.req_p_flags = (HTTP_SRV_REQ_P_F_CONNECTION);
	memset(&ccb, 0, sizeof(ccb));
	ccb.on_req_rcv = h_on_req;
	error = http_srv_create(g_tp, NULL, &ccb, NULL, &ss, NULL, &g_srv);
	if (0 != error) { printf("http_srv_create %i\n", error); return (error); }
	for (p = 0; p < 50; p ++) {
		g_port = (uint16_t)(20000 + (getpid() * 7 + p * 131) % 30000);
		memcpy(&so, &ss.skt_opts, sizeof(so));
		http_srv_bind_def_settings(&so, &bs);
		sa_init(&bs.addr, AF_INET, NULL, g_port);
		((struct sockaddr_in*)&bs.addr)->sin_addr.s_addr = htonl(INADDR_LOOPBACK);
		error = http_srv_bind_add(g_srv, &bs, NULL, NULL, NULL);
		if (0 == error)
			return (0);
	}
	printf("http_srv_bind_add %i\n", error);
	return (error);
}

static int
h_connect(void) {
	struct sockaddr_in sin;
	int s = socket(AF_INET, SOCK_STREAM, 0);
	memset(&sin, 0, sizeof(sin));
	sin.sin_family = AF_INET;
	sin.sin_port = htons(g_port);
	sin.sin_addr.s_addr = htonl(INADDR_LOOPBACK);
	if (0 != connect(s, (struct sockaddr*)&sin, sizeof(sin))) { perror("connect"); return (-1); }
	return (s);
}

/* Read everything that comes within ms after the last byte. */
static size_t
h_read_all(int s, char *buf, size_t buf_size, int ms) {
	size_t n = 0;
	struct pollfd pfd;
	ssize_t r;
	for (;;) {
		pfd.fd = s; pfd.events = POLLIN; pfd.revents = 0;
		if (0 >= poll(&pfd, 1, ms))
			break;
		r = recv(s, (buf + n), (buf_size - 1 - n), 0);
		if (0 >= r)
			break;
		n += (size_t)r;
	}
	buf[n] = 0;
	return (n);
}

static size_t
h_count(const char *hay, const char *needle) {
	size_t c = 0;
	for (const char *p = hay; NULL != (p = strstr(p, needle)); p ++) c ++;
	return (c);
}

static void
h_dump_log(void) {
	for (size_t i = 0; i < g_log_cnt; i ++)
		printf("  callback #%zu: method=%s uri=%s data_size=%zu data=\"%s\"\n",
		    i, g_log[i].method, g_log[i].uri, g_log[i].data_size, g_log[i].data);
}
