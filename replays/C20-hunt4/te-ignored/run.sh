#!/bin/sh
T="${1:-/tmp/hunt/C20}"
D="$(cd "$(dirname "$0")" && pwd)"
"$D/../common/build.sh" "$T" "$D/demo.c" "$D/demo.bin" || exit 2
"$D/demo.bin"
