#include "harness.h"

int
main(void) {
	char rbuf[16384];
	int s, bad = 0, rc;
	size_t n200, n400, n501, n411;
	const char *hdr_get =
	    "GET /a HTTP/1.1\r\nHost: x\r\nTransfer-Encoding: chunked";
	const char *req_put =
	    "PUT /a HTTP/1.1\r\nHost: x\r\nTransfer-Encoding: chunked\r\n\r\n"
	    "5\r\nhello\r\n0\r\n\r\n";
	const char *req_get =
	    "GET /a HTTP/1.1\r\nHost: x\r\nTransfer-Encoding: chunked\r\n\r\n"
	    "5\r\nhello\r\n0\r\n\r\n";

	setvbuf(stdout, NULL, _IONBF, 0);
	/* 1. the check itself: a GET that announces a body with Transfer-Encoding. */
	rc = http_req_sec_chk((const uint8_t*)hdr_get, strlen(hdr_get), HTTP_REQ_METHOD_GET);
	printf("http_req_sec_chk(GET + Transfer-Encoding: chunked) = %i; "
	    "GET + Content-Length: 5 = %i\n", rc,
	    http_req_sec_chk((const uint8_t*)"GET /a HTTP/1.1\r\nHost: x\r\nContent-Length: 5", 43, HTTP_REQ_METHOD_GET));

	if (0 != h_start()) return (2);
	/* RFC 7230 4.1.1 grammar-valid chunked body (chunk-ext with a quoted value) that
	 * this server reads as a second request line + header block. */
	const char *req_smuggle =
	    "PUT /a HTTP/1.1\r\nHost: x\r\nTransfer-Encoding: chunked\r\n\r\n"
	    "A;x=\"a /smuggled HTTP/1.1\"\r\nAa: bcdefg\r\n0\r\n\r\n";
	for (int i = 0; i < 3; i ++) {
		const char *req = (0 == i) ? req_put : ((1 == i) ? req_get : req_smuggle);
		g_log_cnt = 0;
		s = h_connect();
		if (-1 == s) return (2);
		send(s, req, strlen(req), MSG_NOSIGNAL);
		h_read_all(s, rbuf, sizeof(rbuf), 700);
		close(s);
		printf("--- raw reply ---\n%s\n--- end ---\n", rbuf);
		n200 = h_count(rbuf, "HTTP/1.1 200");
		n400 = h_count(rbuf, " 400 Bad request\r\n");
		n501 = h_count(rbuf, "HTTP/1.1 501");
		n411 = h_count(rbuf, "HTTP/1.1 411");
		printf("[%s, chunked body] responses: 200 x %zu, 400 x %zu, 411 x %zu, 501 x %zu; callbacks: %zu\n",
		    (0 == i) ? "PUT" : ((1 == i) ? "GET" : "PUT, chunk-ext"), n200, n400, n411, n501, (size_t)g_log_cnt);
		h_dump_log();
		/* Conforming: one request with body "hello" (decoded or raw chunked), or a refusal (400/411/501)
		 * without the callback; never: request accepted with an empty body and the body read as the next request. */
		if (1 <= g_log_cnt && 0 == g_log[0].data_size && 0 != n200) {
			printf("  => FAIL: request accepted with data_size 0, its chunked body was parsed as the next pipelined request (%s)\n",
			    (0 != n400) ? "answered 400" : "answered 200: smuggled request served");
			bad = 1;
		}
	}
	printf("%s\n", bad ? "FAIL" : "PASS");
	_exit(bad ? 1 : 0);
}
