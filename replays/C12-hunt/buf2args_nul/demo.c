/* buf2args() stores the terminating NUL of the last argument at buf[buf_size]. */
#include <sys/param.h>
#include <sys/types.h>
#include <inttypes.h>
#include <string.h>
#include <stdio.h>
#include <stdlib.h>
#include <errno.h>
#include "utils/buf_str.h"
#include "harness.h"

static int
run_case(int n) {
	static const char *inputs[] = {
		"abc",		/* last argument ends at the end of the buffer */
		"a b",		/* same, two arguments */
		"x \"",		/* opening quote is the last byte: empty arg at buf+buf_size */
		"\"ab",		/* unterminated quoted argument */
	};
	const char *in = inputs[n];
	size_t len = strlen(in), cnt, sizes[8];
	char *args[8];
	char *buf = malloc(len); /* exactly buf_size bytes, redzone right behind */

	memcpy(buf, in, len);
	cnt = buf2args(buf, len, 8, args, sizes);
	printf("case%d buf2args(\"%s\", %zu) -> %zu args\n", n, in, len, cnt);
	free(buf);
	return (0);
}

int
main(int argc, char **argv) {
	return (harness_main(argc, argv, 4, 10));
}
