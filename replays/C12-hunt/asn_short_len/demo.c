/* asn_parse(): a short-form length is never compared with the bytes that are left,
 * so a truncated element is "parsed": data/data_size and the new offset lie outside
 * the caller's buffer (the long-form length branch does make this check). */
#include <sys/param.h>
#include <sys/types.h>
#include <inttypes.h>
#include <string.h>
#include <stdio.h>
#include <stdlib.h>
#include <errno.h>
#include "utils/asn1.h"
#include "harness.h"

static int
parse(int n, const uint8_t *in, size_t len) {
	uint8_t *buf = malloc(len), *data = NULL, cls = 0, ps = 0;
	size_t off = 0, hdr = 0, tag = 0, data_size = 0;
	int error, bad = 0;

	memcpy(buf, in, len);
	error = asn_parse(buf, len, &off, &hdr, &cls, &ps, &tag, &data, &data_size);
	printf("case%d asn_parse(", n);
	for (size_t i = 0; i < len; i ++)
		printf("%02x%s", in[i], (i + 1 < len) ? " " : "");
	printf(", %zu) -> %d", len, error);
	if (0 == error) {
		printf(", tag=%zu hdr=%zu data_off=%zd data_size=%zu next_off=%zu",
		    tag, hdr, (ssize_t)(data - buf), data_size, off);
		if (off > len || (size_t)(data - buf) + data_size > len) {
			printf("\nnote: success, but the element ends %zu bytes behind the %zu byte buffer",
			    ((size_t)(data - buf) + data_size - len), len);
			bad = 1;
		}
	}
	printf("\n");
	free(buf);
	return (bad);
}

static int
run_case(int n) {
	static const uint8_t c4[] = { 0x02, 0x01 };			/* INTEGER len 1, content missing */
	static const uint8_t c2[] = { 0x04, 0x7f };			/* OCTET STRING, short length 127, no content */
	static const uint8_t c3[] = { 0x30, 0x05, 0x02, 0x01, 0x01 };	/* SEQUENCE len 5, only 3 bytes follow */

	switch (n) {
	case 0: return (parse(n, c2, sizeof(c2)));
	case 1: return (parse(n, c3, sizeof(c3)));
	case 2: return (parse(n, c4, sizeof(c4)));
	}
	return (0);
}

int
main(int argc, char **argv) {
	return (harness_main(argc, argv, 3, 10));
}
