/* xml_get_val_arr() / xml_get_val_ns_arr(): a closing tag met while cur_tag == 0
 * (unbalanced markup, or the resume path with tag_arr_count == 1) is compared with
 * tag_arr[cur_tag - 1]: reads tag_arr[-1] / tag_arr_cnt[-1] (and ret_ns_size[-1]). */
#include <sys/param.h>
#include <sys/types.h>
#include <inttypes.h>
#include <string.h>
#include <stdio.h>
#include <stdlib.h>
#include <errno.h>
#include "utils/xml.h"
#include "harness.h"

static uint8_t *
dup_exact(const char *s, size_t *len) {
	uint8_t *p;
	(*len) = strlen(s);
	p = malloc((*len));
	memcpy(p, s, (*len));
	return (p);
}

static int
run_case(int n) {
	size_t xml_size, val_size = 0, attr_size = 0;
	const uint8_t *val = NULL, *attr = NULL, *next = NULL;
	uint8_t *xml;
	/* Exactly sized one-element arrays on the heap: redzones on both sides. */
	const uint8_t **tag_arr = malloc(sizeof(uint8_t*) * 1);
	size_t *tag_arr_cnt = malloc(sizeof(size_t) * 1);
	size_t *ns_size = malloc(sizeof(size_t) * 1);
	const uint8_t **ns = malloc(sizeof(uint8_t*) * 1);
	int error = 0;

	tag_arr[0] = (const uint8_t*)"a";
	tag_arr_cnt[0] = 1;

	switch (n) {
	case 0: /* stray closing tag: tag_arr[cur_tag - 1] with cur_tag == 0 */
		xml = dup_exact("</a>", &xml_size);
		error = xml_get_val_arr(xml, xml_size, NULL, 1, tag_arr, tag_arr_cnt,
		    &attr, &attr_size, &val, &val_size);
		break;
	case 1: /* resume after the first <a>: cur_tag = tag_arr_count - 1 = 0, then "</r>" */
		xml = dup_exact("<a>1</a></r> ", &xml_size);
		error = xml_get_val_arr(xml, xml_size, &next, 1, tag_arr, tag_arr_cnt,
		    &attr, &attr_size, &val, &val_size);
		printf("case1 first call -> %d value='%.*s'\n", error, (int)val_size, (const char*)val);
		error = xml_get_val_arr(xml, xml_size, &next, 1, tag_arr, tag_arr_cnt,
		    &attr, &attr_size, &val, &val_size);
		break;
	case 2: /* same as 0 in the name-space variant (ret_ns_size[-1], tag_arr[-1]) */
		xml = dup_exact("</a>", &xml_size);
		error = xml_get_val_ns_arr(xml, xml_size, NULL, 1, tag_arr, tag_arr_cnt,
		    ns, ns_size, &attr, &attr_size, &val, &val_size);
		break;
	default:
		return (0);
	}
	printf("case%d -> %d\n", n, error);
	return (0);
}

int
main(int argc, char **argv) {
	return (harness_main(argc, argv, 3, 10));
}
