/* bt_en_decode() recurses once per nesting level with no depth limit: a buffer of
 * 'l' bytes overflows the stack (default 8 MiB). Built without sanitizers as well
 * (run.sh) the process dies with SIGSEGV. */
#include <sys/param.h>
#include <sys/types.h>
#include <inttypes.h>
#include <string.h>
#include <stdio.h>
#include <stdlib.h>
#include <errno.h>
#include "utils/bt_encode.h"
#include "harness.h"

static int
run_case(int n) {
	size_t len = ((0 == n) ? 1000 : 1000000), off = 0;
	uint8_t *buf = malloc(len);
	bt_en_node_p node = NULL;
	int error;

	memset(buf, ((2 == n) ? 'd' : 'l'), len);
	printf("case%d bt_en_decode(%zu x '%c') ...\n", n, len, buf[0]);
	error = bt_en_decode(buf, len, &node, &off);
	printf("case%d -> %d\n", n, error);
	return (0);
}

int
main(int argc, char **argv) {
	return (harness_main(argc, argv, 2, 60));
}
