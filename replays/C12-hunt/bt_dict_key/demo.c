/* bt_en_decode(): a dictionary whose key is not a byte string leaves the loop with
 * error == 0, so the malformed dictionary is reported as decoded. When it is the first
 * key, raw_size = (cur_pos - buf) - 2 = 1 - 2 wraps to SIZE_MAX and the reported
 * consumed size points into the middle of the dictionary. */
#include <sys/param.h>
#include <sys/types.h>
#include <inttypes.h>
#include <string.h>
#include <stdio.h>
#include <stdlib.h>
#include <errno.h>
#include "utils/bt_encode.h"
#include "harness.h"

static int
run_case(int n) {
	static const char *inputs[] = {
		"di1ei2ee",		/* integer as key */
		"dli1eei2ee",		/* list as key */
		"d1:ai1ei2ei3ee",	/* second key is an integer */
	};
	const char *in = inputs[n];
	size_t len = strlen(in), off = 0;
	uint8_t *buf = malloc(len);
	bt_en_node_p node = NULL;
	int error, bad = 0;

	memcpy(buf, in, len);
	error = bt_en_decode(buf, len, &node, &off);
	printf("case%d bt_en_decode(\"%s\", %zu) -> %d", n, in, len, error);
	if (0 == error && NULL != node) {
		printf(", type=%u items=%zu raw_size=%zu consumed=%zu",
		    (unsigned)node->type, node->val_count, node->raw_size, off);
		if (node->raw_size > len) {
			printf("\nnote: raw/raw_size describe %zu bytes, the buffer has %zu", node->raw_size, len);
			bad = 1;
		}
		if (off != len) {
			printf("\nnote: malformed dictionary accepted, consumed %zu of %zu bytes", off, len);
			bad = 1;
		}
	}
	printf("\n");
	bt_en_free(node);
	free(buf);
	return (bad);
}

int
main(int argc, char **argv) {
	return (harness_main(argc, argv, 3, 10));
}
