/* xml_get_val_ns_arr() reads tag_arr[tag_arr_count] / tag_arr_cnt[tag_arr_count] for an
 * element nested in the target element (well-formed input). xml_get_val_arr() got a
 * "cur_tag >= tag_arr_count" guard for this, the name-space twin did not. */
#include <sys/param.h>
#include <sys/types.h>
#include <inttypes.h>
#include <string.h>
#include <stdio.h>
#include <stdlib.h>
#include <errno.h>
#include "utils/xml.h"
#include "harness.h"

static uint8_t *
dup_exact(const char *s, size_t *len) {
	uint8_t *p;
	(*len) = strlen(s);
	p = malloc((*len));
	memcpy(p, s, (*len));
	return (p);
}

static int
run_case(int n) {
	size_t xml_size, val_size = 0, attr_size = 0;
	const uint8_t *val = NULL, *attr = NULL, *next = NULL;
	uint8_t *xml;
	/* Exactly sized one-element arrays on the heap: redzones on both sides. */
	const uint8_t **tag_arr = malloc(sizeof(uint8_t*) * 1);
	size_t *tag_arr_cnt = malloc(sizeof(size_t) * 1);
	size_t *ns_size = malloc(sizeof(size_t) * 1);
	const uint8_t **ns = malloc(sizeof(uint8_t*) * 1);
	int error = 0;

	tag_arr[0] = (const uint8_t*)"a";
	tag_arr_cnt[0] = 1;

	switch (n) {
	case 0: /* well-formed: element nested in the target, tag_arr[tag_arr_count] */
		xml = dup_exact("<a><b>x</b></a>", &xml_size);
		error = xml_get_val_ns_arr(xml, xml_size, NULL, 1, tag_arr, tag_arr_cnt,
		    ns, ns_size, &attr, &attr_size, &val, &val_size);
		break;
	default:
		return (0);
	}
	printf("case%d -> %d\n", n, error);
	return (0);
}

int
main(int argc, char **argv) {
	return (harness_main(argc, argv, 1, 10));
}
