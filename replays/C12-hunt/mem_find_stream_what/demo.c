/* mem_find_stream(): when a partial match that started in an earlier buffer breaks,
 * the function looks for a shorter prefix of 'what' inside the part already matched:
 *     off  = wptr_max - wptr;
 *     wptr = memchr(wptr, what[0], off);
 *     memcmp(wptr, what, off)            <- off still measured from the OLD wptr
 * so the compare runs (new wptr - old wptr) bytes past wptr_max and, for a match close
 * to the end, past what + what_size. */
#include <sys/param.h>
#include <sys/types.h>
#include <inttypes.h>
#include <string.h>
#include <stdio.h>
#include <stdlib.h>
#include <errno.h>
#include "utils/mem_utils.h"
#include "harness.h"

static uint8_t *
dup_exact(const char *s, size_t len) {
	uint8_t *p = malloc(len);
	memcpy(p, s, len);
	return (p);
}

static int
run_case(int n) {
	/* what, then the stream split in two buffers. */
	static const char *cases[][3] = {
		{ "abcab", "abca", "x" },
		{ "abcdab", "zzabcda", "x" },
	};
	const char *w = cases[n][0];
	size_t state = 0, off_end = 0, wl = strlen(w);
	uint8_t *what = dup_exact(w, wl); /* exactly what_size bytes */
	int error;

	for (int i = 1; i < 3; i ++) {
		size_t bl = strlen(cases[n][i]);
		uint8_t *buf = dup_exact(cases[n][i], bl);
		error = mem_find_stream(buf, bl, what, wl, &state, &off_end);
		printf("case%d mem_find_stream(buf=\"%s\", what=\"%s\") -> %d, state=%zu\n",
		    n, cases[n][i], w, error, state);
		free(buf);
	}
	free(what);
	return (0);
}

int
main(int argc, char **argv) {
	return (harness_main(argc, argv, 2, 10));
}
