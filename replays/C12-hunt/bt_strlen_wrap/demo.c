/* bt_en_decode(): the byte-string length check "buf_max <= (raw_size + ptm)" wraps
 * for lengths close to 2^64, so a string that lies outside the buffer is accepted;
 * inside a list the (wrapped) consumed size moves the cursor backwards. */
#include <sys/param.h>
#include <sys/types.h>
#include <inttypes.h>
#include <string.h>
#include <stdio.h>
#include <stdlib.h>
#include <errno.h>
#include "utils/bt_encode.h"
#include "harness.h"

static int
decode(int n, const char *in) {
	size_t len = strlen(in), off = 0;
	uint8_t *buf = malloc(len); /* exactly sized: redzones on both sides */
	bt_en_node_p node = NULL;
	int error, bad = 0;

	memcpy(buf, in, len);
	error = bt_en_decode(buf, len, &node, &off);
	printf("case%d bt_en_decode(\"%s\", %zu) -> %d", n, in, len, error);
	if (0 == error && NULL != node) {
		printf(", type=%u raw_off=%zd raw_size=%zu consumed=%zu",
		    (unsigned)node->type, (ssize_t)(node->raw - buf), node->raw_size, off);
		if (node->raw_size > len || off > len) {
			printf("\nnote: accepted although raw_size/consumed exceed the %zu byte buffer", len);
			bad = 1;
		}
	}
	printf("\n");
	bt_en_free(node);
	free(buf);
	return (bad);
}

static int
run_case(int n) {
	switch (n) {
	case 0: /* 2^64-10: string "of 2^64-10 bytes" accepted in a 24 byte buffer. */
		return (decode(n, "18446744073709551606:abc"));
	case 1: /* 2^64-23: consumed = -2, list cursor = buf - 1, reads buf[-1]. */
		return (decode(n, "l18446744073709551593:e"));
	case 2: /* 2^64-22: consumed = -1, list cursor = buf again: endless recursion. */
		return (decode(n, "l18446744073709551594:e"));
	}
	return (0);
}

int
main(int argc, char **argv) {
	return (harness_main(argc, argv, 3, 20));
}
