/* asn_parse(): a long-form tag number (> 30) of the universal class indexes the
 * 32 entry table asn_class_uni_ps[] with the decoded tag: read outside the table. */
#include <sys/param.h>
#include <sys/types.h>
#include <inttypes.h>
#include <string.h>
#include <stdio.h>
#include <stdlib.h>
#include <errno.h>
#include "utils/asn1.h"
#include "harness.h"

static int
parse(int n, const uint8_t *in, size_t len) {
	uint8_t *buf = malloc(len), *data = NULL, cls = 0, ps = 0;
	size_t off = 0, hdr = 0, tag = 0, data_size = 0;
	int error, bad = 0;

	memcpy(buf, in, len);
	error = asn_parse(buf, len, &off, &hdr, &cls, &ps, &tag, &data, &data_size);
	printf("case%d asn_parse(", n);
	for (size_t i = 0; i < len; i ++)
		printf("%02x%s", in[i], (i + 1 < len) ? " " : "");
	printf(", %zu) -> %d", len, error);
	if (0 == error) {
		printf(", tag=%zu hdr=%zu data_off=%zd data_size=%zu next_off=%zu",
		    tag, hdr, (ssize_t)(data - buf), data_size, off);
		if (off > len || (size_t)(data - buf) + data_size > len) {
			printf("\nnote: success, but the element ends %zu bytes behind the %zu byte buffer",
			    ((size_t)(data - buf) + data_size - len), len);
			bad = 1;
		}
	}
	printf("\n");
	free(buf);
	return (bad);
}

static int
run_case(int n) {
	static const uint8_t c0[] = { 0x1f, 0x7f, 0x00 };		/* universal, long-form tag 127, len 0 */
	static const uint8_t c1[] = { 0x1f, 0xff, 0xff, 0x7f, 0x00 };	/* universal, long-form tag 2097151 */
	static const uint8_t c2[] = { 0x1f, 0xff, 0xff, 0xff, 0xff, 0xff, 0xff, 0x7f, 0x00 }; /* tag 2^49-1: wild read */

	switch (n) {
	case 0: return (parse(n, c0, sizeof(c0)));
	case 1: return (parse(n, c1, sizeof(c1)));
	case 2: return (parse(n, c2, sizeof(c2)));
	}
	return (0);
}

int
main(int argc, char **argv) {
	return (harness_main(argc, argv, 3, 10));
}
