#!/bin/sh
# usage: run.sh <tree>   -- exits non-zero (and prints FAIL) when the defect shows.
T="${1:?usage: run.sh <tree>}"
HERE="$(cd "$(dirname "$0")" && pwd)"
CC="${CC:-clang}"
DEFS="-DHAVE_ACCEPT4 -DHAVE_EXPLICIT_BZERO -DHAVE_MEMMEM -DHAVE_MEMRCHR -DHAVE_PIPE2 -DHAVE_POSIX_SPAWN_FILE_ACTIONS_ADDCLOSEFROM_NP -DHAVE_PTHREAD_SETNAME_NP -DHAVE_REALLOCARRAY -DHAVE_SOCK_CLOEXEC -DHAVE_SOCK_NONBLOCK -DHAVE_STRNCASECMP -DLINUX -D_GNU_SOURCE -D__USE_GNU=1"
SAN="-g -O0 -fno-omit-frame-pointer -fsanitize=address,undefined -fno-sanitize-recover=undefined"
export ASAN_OPTIONS="detect_leaks=0:exitcode=99:detect_stack_use_after_return=0"
export UBSAN_OPTIONS="print_stacktrace=1"
OUT="$(mktemp -d)"; trap 'rm -rf "$OUT"' EXIT
SRCS=""
SRCS="$SRCS $T/src/utils/xml.c"
$CC $DEFS $SAN  -I"$T/include" "$HERE/demo.c" $SRCS -o "$OUT/demo" || { echo 'BUILD ERROR'; exit 2; }
"$OUT/demo" > "$OUT/log" 2>&1
rc=$?
grep -E '^(case|FAIL|OK|note)|ERROR: AddressSanitizer|(WRITE|READ) of size|^    #[0-3] |runtime error|SUMMARY' "$OUT/log" | head -n 300
exit $rc
