/* mem_replace_arr() / xml_encode() / xml_decode(): output capacity is not honoured.
 * Each case runs in a child; the child places dst flush against an ASan redzone. */
#include <sys/param.h>
#include <sys/types.h>
#include <sys/wait.h>
#include <inttypes.h>
#include <string.h>
#include <stdio.h>
#include <stdlib.h>
#include <unistd.h>
#include <errno.h>
#include "utils/mem_utils.h"
#include "utils/xml.h"

static int
run_case(int n) {
	int error = 0;
	size_t ret = 0;
	uint8_t *dst;

	switch (n) {
	case 0: { /* replacement longer than the pattern: check uses src_repl_counts. */
		const uint8_t src[1] = { '<' };
		dst = malloc(2);
		error = xml_encode(src, 1, dst, 2, &ret); /* "&lt;" = 4 bytes into 2 */
		printf("case0 xml_encode('<', dst_size=2) -> %d, size_ret=%zu\n", error, ret);
		break;
	}
	case 1: { /* tail after the last match is copied without any check. */
		const uint8_t src[6] = { 'a','b','c','d','e','f' };
		dst = malloc(1);
		error = xml_decode(src, 6, dst, 1, &ret);
		printf("case1 xml_decode('abcdef', dst_size=1) -> %d, size_ret=%zu\n", error, ret);
		break;
	}
	case 2: { /* direct call, no replacements at all. */
		const uint8_t src[8] = "12345678";
		dst = malloc(4);
		error = mem_replace_arr(src, 8, 0, NULL, NULL, NULL, NULL, NULL, dst, 4, &ret, NULL);
		printf("case2 mem_replace_arr(no repl, src=8, dst_size=4) -> %d, size_ret=%zu\n", error, ret);
		break;
	}
	case 3: { /* exactly sized buffer is refused and no size is reported. */
		const uint8_t src[5] = { '&','a','m','p',';' };
		dst = malloc(1);
		ret = 12345;
		error = xml_decode(src, 5, dst, 1, &ret); /* result is "&": 1 byte */
		printf("case3 xml_decode('&amp;', dst_size=1) -> %d, size_ret=%zu\n", error, ret);
		if (0 != error) {
			printf("note: exactly sized buffer refused (and required size not reported)\n");
			return (1);
		}
		break;
	}
	}
	return (0);
}

int
main(int argc, char **argv) {
	int fails = 0;

	if (argc > 1)
		return (run_case(atoi(argv[1])));
	for (int i = 0; i < 4; i ++) {
		pid_t pid = fork();
		if (0 == pid) {
			char num[8];
			snprintf(num, sizeof(num), "%d", i);
			execl(argv[0], argv[0], num, (char*)NULL);
			_exit(127);
		}
		int st = 0;
		waitpid(pid, &st, 0);
		if (!WIFEXITED(st) || 0 != WEXITSTATUS(st)) {
			printf("FAIL: case %d (status 0x%x)\n", i, st);
			fails ++;
		}
	}
	printf(fails ? "FAIL: %d cases\n" : "OK\n", fails);
	return (fails ? 1 : 0);
}
