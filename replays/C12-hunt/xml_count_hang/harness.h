/* Tiny harness: every case runs in its own child (re-exec of this binary with the
 * case number) so that one sanitizer abort / crash / hang does not hide the others. */
#ifndef HUNT_HARNESS_H
#define HUNT_HARNESS_H
#include <sys/wait.h>
#include <signal.h>
#include <unistd.h>
#include <stdio.h>
#include <stdlib.h>

static int run_case(int n); /* 0 = property holds, non-zero = violated. */

static int
harness_main(int argc, char **argv, int cases, unsigned timeout_sec) {
	int fails = 0;

	setvbuf(stdout, NULL, _IONBF, 0);

	if (argc > 1) {
		alarm(timeout_sec);
		return (run_case(atoi(argv[1])));
	}
	for (int i = 0; i < cases; i ++) {
		fflush(NULL);
		pid_t pid = fork();
		if (0 == pid) {
			char num[16];
			snprintf(num, sizeof(num), "%d", i);
			execl(argv[0], argv[0], num, (char*)NULL);
			_exit(127);
		}
		int st = 0;
		waitpid(pid, &st, 0);
		if (WIFSIGNALED(st)) {
			printf("FAIL: case %d killed by signal %d%s\n", i, WTERMSIG(st),
			    (SIGALRM == WTERMSIG(st)) ? " (SIGALRM: did not terminate)" :
			    ((SIGSEGV == WTERMSIG(st)) ? " (SIGSEGV)" : ""));
			fails ++;
		} else if (0 != WEXITSTATUS(st)) {
			printf("FAIL: case %d exit status %d%s\n", i, WEXITSTATUS(st),
			    (99 == WEXITSTATUS(st)) ? " (sanitizer report)" : "");
			fails ++;
		}
	}
	if (fails)
		printf("FAIL: %d of %d cases\n", fails, cases);
	else
		printf("OK: %d cases\n", cases);
	return (fails ? 1 : 0);
}
#endif
