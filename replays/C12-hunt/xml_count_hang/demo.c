/* xml_calc_tag_count_args() never returns when the last matching element ends with
 * the last byte of the data: xml_get_val_arr() stores next_pos = xml_data + xml_data_size,
 * and on the next call treats exactly that position as "out of range" and restarts
 * from the beginning of the document. */
#include <sys/param.h>
#include <sys/types.h>
#include <inttypes.h>
#include <string.h>
#include <stdio.h>
#include <stdlib.h>
#include <errno.h>
#include "utils/xml.h"
#include "harness.h"

static int
run_case(int n) {
	static const char *docs[] = {
		"<a>1</a>",
		"<r><a>1</a><a>2</a></r>",	/* control: ends with another tag, terminates */
		"<?xml version=\"1.0\"?><a>1</a><a>2</a>",	/* no trailing newline */
		"<x:a>1</x:a>",
	};
	const char *doc = docs[n];
	size_t len = strlen(doc), cnt;
	uint8_t *xml = malloc(len);

	memcpy(xml, doc, len);
	if (3 == n) { /* the same iteration idiom with the name-space variant */
		const uint8_t *next = NULL, *val = NULL;
		size_t val_size = 0, ns_size[2];
		for (cnt = 0; 0 == xml_get_val_ns_args(xml, len, &next, NULL, ns_size,
		    NULL, NULL, &val, &val_size, (const uint8_t*)"a", NULL); cnt ++) {
			if (1000 < cnt) {
				printf("case%d xml_get_val_ns_args(\"%s\") returned the same single element %zu times, next_pos = xml + %zd\n",
				    n, doc, cnt, (ssize_t)(next - xml));
				return (1);
			}
		}
		return (0);
	}
	if (1 == n) {
		cnt = xml_calc_tag_count_args(xml, len, (const uint8_t*)"r", (const uint8_t*)"a", NULL);
		printf("case%d xml_calc_tag_count_args(\"%s\", \"r\", \"a\") -> %zu\n", n, doc, cnt);
		return ((2 == cnt) ? 0 : 1);
	}
	printf("case%d xml_calc_tag_count_args(\"%s\", \"a\") ...\n", n, doc);
	cnt = xml_calc_tag_count_args(xml, len, (const uint8_t*)"a", NULL);
	printf("case%d -> %zu\n", n, cnt);
	return (0);
}

int
main(int argc, char **argv) {
	return (harness_main(argc, argv, 4, 5)); /* 5 s alarm per case */
}
