#include <sys/param.h>
#include <sys/types.h>
#include <inttypes.h>
#include <stdlib.h>
#include <stdio.h>
#include <string.h>
#include <errno.h>
#define BN_BIT_LEN 1408
#define BN_MOD_REDUCE_ALGO 1 /* BN_MOD_REDUCE_ALGO_BARRETT */
#include "math/big_num.h"
static void pr(const char*t, bn_p b){ uint8_t h[600]; size_t n=0; bn_export_be_hex(b, BN_EXPORT_F_AUTO_SIZE, h, sizeof h, &n); printf("%s=%.*s\n", t, (int)n, h);}
int main(void){
 const char *ps="c302f41d932a36cda7a3463093d18db78fce476de1a86297";
 bn_t p, x, q, r, x0; bn_mod_rd_data_t rd;
 bn_init(&p, 192); bn_import_be_hex(&p,(const uint8_t*)ps,strlen(ps));
 printf("rd_init=%d\n", bn_mod_rd_data_init(&p,&rd));
 pr("mu", &rd.Barrett);
 uint64_t s=12345; int bad=0;
 for(int it=0; it<20000; it++){
  uint8_t b[48]; for(int i=0;i<48;i++){ s^=s<<13; s^=s>>7; s^=s<<17; b[i]=(uint8_t)s;}
  /* x = a*b with a,b < p : emulate product */
  bn_t a,c; bn_init(&a,448); bn_init(&c,448); bn_import_be_bin(&a,b,24); bn_import_be_bin(&c,b+24,24);
  bn_div(&a,&p,&a); bn_div(&c,&p,&c); /* a mod p? bn_div(bn,d,rem) */
  bn_init(&x,448); bn_assign(&x,&a); bn_mult(&x,&c);
  bn_assign_init(&x0,&x);
  bn_assign_init(&q,&x); bn_init(&r,448); bn_div(&q,&p,&r);
  int e=bn_mod(&x,&p,&rd);
  if(e||bn_cmp(&x,&r)){ if(bad<3){printf("MISMATCH e=%d\n",e); pr("in",&x0); pr("barrett",&x); pr("ref",&r);} bad++; }
 }
 printf("bad=%d\n",bad); return bad?1:0; }
