/* BN_MOD_REDUCE_ALGO_BARRETT: bn_mod() drops the top digit of the partial
 * remainder -> wrong residues -> key recovery / key generation / import
 * validation fail on brainpoolP192r1 (and other curves whose p is not
 * close to a power of the digit base). */
#include <sys/param.h>
#include <sys/types.h>
#include <inttypes.h>
#include <stdlib.h>
#include <stdio.h>
#include <string.h>
#include <errno.h>
#define BN_BIT_LEN 1408
#define BN_MOD_REDUCE_ALGO 1 /* BN_MOD_REDUCE_ALGO_BARRETT */
#include "crypto/dsa/ecdsa.h"

static ec_curve_t curve;
static void pr(const char *t, bn_p b) { uint8_t h[700]; size_t n = 0;
	bn_export_be_hex(b, BN_EXPORT_F_AUTO_SIZE, h, sizeof h, &n); printf("  %s=%.*s\n", t, (int)n, h); }

int main(void) {
	int fail = 0, e;
	ec_curve_str_p cs = ecdsa_curve_str_get_by_name("brainpoolP192r1", 15);
	if (NULL == cs || 0 != ecdsa_curve_from_str(cs, &curve)) { printf("curve init error\n"); return 2; }

	/* 1. public API: private key d = 1 must give Q = G. */
	uint8_t d[24] = {0}, pub[49]; size_t pub_size = 0;
	d[23] = 1;
	e = ecdsa_recover_pub_key_from_priv_key_be(&curve, d, sizeof d, 0, pub, NULL, &pub_size);
	printf("ecdsa_recover_pub_key_from_priv_key_be(brainpoolP192r1, d=1) = %d (expected 0, Q = G)\n", e);
	if (0 != e) fail++;
	/* 2. the base point itself is refused as a public key. */
	e = ec_point_check_as_pub_key(&curve.G, &curve);
	printf("ec_point_check_as_pub_key(G) = %d (expected 0)\n", e);
	if (0 != e) fail++;
	/* 3. key generation from seed = 1. */
	{ uint8_t priv[24], px[25], py[24]; size_t ps = 0, qs = 0;
	  e = ecdsa_key_gen_be(&curve, d, sizeof d, 1, priv, &ps, px, py, &qs);
	  printf("ecdsa_key_gen_be(seed=1) = %d (expected 0)\n", e);
	  if (0 != e) fail++; }
	/* 4. root cause: bn_mod() against plain division. */
	{ const char *xs = "8bdf3f3d1b46acf4af8135f77d5356552f8131deef76bf8831c78119507115d4a69ea44a57f33ae85064aa5c26315608";
	  bn_t x, q, r; bn_init(&x, 448); bn_init(&q, 448); bn_init(&r, 448);
	  bn_import_be_hex(&x, (const uint8_t*)xs, strlen(xs)); bn_assign(&q, &x);
	  bn_div(&q, &curve.p, &r);
	  e = bn_mod(&x, &curve.p, &curve.p_mod_rd_data);
	  printf("bn_mod(x, p) = %d\n", e); pr("barrett  ", &x); pr("x mod p  ", &r);
	  if (0 != e || 0 != bn_cmp(&x, &r)) { printf("  -> wrong residue reported as success\n"); fail++; } }
	printf(fail ? "FAIL (%d)\n" : "OK\n", fail);
	return (fail ? 1 : 0);
}
