#!/bin/sh
# usage: build.sh out [extra flags]
out=$1; shift
T=/tmp/hunt/C09
clang -g -O1 -fsanitize=address,undefined -fno-omit-frame-pointer -w \
 -DHAVE_EXPLICIT_BZERO -DHAVE_MEMMEM -DHAVE_MEMRCHR -DHAVE_REALLOCARRAY -DHAVE_STRNCASECMP -DLINUX -D_GNU_SOURCE -D__USE_GNU=1 \
 -I$T/include "$@" harness.c -o $out
