#include <sys/param.h>
#include <sys/types.h>
#include <inttypes.h>
#include <stdlib.h>
#include <stdio.h>
#include <unistd.h>
#include <string.h>
#include <errno.h>

#ifndef BN_DIGIT_BIT_CNT
#define BN_DIGIT_BIT_CNT 64
#endif
#define BN_BIT_LEN 1408
#define BN_CC_MULL_DIV 1
#define BN_NO_POINTERS_CHK 1

#include "crypto/dsa/ecdsa.h"

static int fails = 0, hyb = 0;
#define FAIL(fmt, ...) do { fails++; if (fails < 200) printf("FAIL [%s] " fmt "\n", cname, ##__VA_ARGS__); } while (0)

static uint64_t rs = 0x9E3779B97F4A7C15ULL;
static uint64_t rnd64(void) { rs ^= rs << 13; rs ^= rs >> 7; rs ^= rs << 17; return rs; }

static const char *cname = "";
static ec_curve_t curve;

static uint8_t *xb(size_t n) { uint8_t *p = malloc(n ? n : 1); memset(p, 0xA5, n); return p; }

static void hex(const char *t, const uint8_t *b, size_t n) {
	printf("   %s=", t); for (size_t i = 0; i < n; i++) printf("%02x", b[i]); printf("\n");
}

static void rev(uint8_t *d, const uint8_t *s, size_t n) { for (size_t i = 0; i < n; i++) d[i] = s[n - 1 - i]; }

/* reference d*P affine binary */
static int ref_mult(ec_point_p res, ec_point_p P, bn_p d) {
	ec_point_init(res, EC_CURVE_CALC_BITS_DBL(&curve));
	ec_point_assign(res, P);
	return ec_point_affine_bin_mult(res, d, &curve);
}

typedef int (*imp_fn)(ec_curve_p, uint8_t*, uint8_t*, size_t, ec_point_p);
typedef int (*rec_fn)(ec_curve_p, uint8_t*, size_t, int, uint8_t*, uint8_t*, size_t*);
typedef int (*dh_fn)(ec_curve_p, int, uint8_t*, uint8_t*, size_t, uint8_t*, size_t, uint8_t*, size_t*);
typedef int (*kg_fn)(ec_curve_p, uint8_t*, size_t, int, uint8_t*, size_t*, uint8_t*, uint8_t*, size_t*);

/* encode point in form f (0 compressed,1 packed,2 separate,3 concat) endianness le */
static size_t enc_point(ec_point_p P, int f, int le, uint8_t **px, uint8_t **py) {
	size_t bytes = EC_CURVE_CALC_BYTES(&curve);
	uint8_t xbuf[200], ybuf[200], t[200];
	bn_export_be_bin(&P->x, 0, xbuf, bytes, NULL);
	bn_export_be_bin(&P->y, 0, ybuf, bytes, NULL);
	if (le) { rev(t, xbuf, bytes); memcpy(xbuf, t, bytes); rev(t, ybuf, bytes); memcpy(ybuf, t, bytes); }
	*py = NULL;
	switch (f) {
	case 0: *px = xb(1 + bytes); (*px)[0] = bn_is_odd(&P->y) ? 3 : 2; memcpy(*px + 1, xbuf, bytes); return 1 + bytes;
	case 1: *px = xb(1 + 2 * bytes); (*px)[0] = 4; memcpy(*px + 1, xbuf, bytes); memcpy(*px + 1 + bytes, ybuf, bytes); return 1 + 2 * bytes;
	case 2: *px = xb(bytes); *py = xb(bytes); memcpy(*px, xbuf, bytes); memcpy(*py, ybuf, bytes); return bytes;
	default: *px = xb(2 * bytes); memcpy(*px, xbuf, bytes); memcpy(*px + bytes, ybuf, bytes); return 2 * bytes;
	}
}

static int pt_eq(ec_point_p a, ec_point_p b) {
	if (a->infinity || b->infinity) return a->infinity && b->infinity;
	return 0 == bn_cmp(&a->x, &b->x) && 0 == bn_cmp(&a->y, &b->y);
}

static void test_scalar(bn_p d, const char *what) {
	size_t bytes = EC_CURVE_CALC_BYTES(&curve), sbytes = EC_CURVE_CALC_SCALAR_BYTES(&curve);
	ec_point_t R, I;
	uint8_t dbe[200], dle[200];
	int e;

	if (0 != ref_mult(&R, &curve.G, d)) { FAIL("ref mult err %s", what); return; }
	size_t dsz = (bn_calc_bits(d) + 7) / 8; if (dsz == 0) dsz = 1;
	/* use several private key sizes: minimal, bytes, sbytes */
	size_t sizes[3] = { dsz, bytes, sbytes };
	for (int si = 0; si < 3; si++) {
		size_t ps = sizes[si];
		if (ps < dsz) continue;
		bn_export_be_bin(d, 0, dbe, ps, NULL); rev(dle, dbe, ps);
		for (int le = 0; le < 2; le++) {
			rec_fn rec = le ? ecdsa_recover_pub_key_from_priv_key_le : ecdsa_recover_pub_key_from_priv_key_be;
			imp_fn imp = le ? ecdsa_pub_key_import_le : ecdsa_pub_key_import_be;
			for (int f = 0; f < 3; f++) {
				size_t expsz = (f == 0) ? 1 + bytes : (f == 1) ? 1 + 2 * bytes : bytes;
				uint8_t *pk = xb(ps); memcpy(pk, le ? dle : dbe, ps);
				uint8_t *ox = xb(expsz), *oy = (f == 2) ? xb(bytes) : NULL;
				size_t osz = 0;
				e = rec(&curve, pk, ps, f == 0, ox, oy, &osz);
				if (e != 0) { FAIL("recover %s le=%d f=%d ps=%zu err=%d", what, le, f, ps, e); goto nx; }
				if (osz != expsz) { FAIL("recover size %s le=%d f=%d %zu!=%zu", what, le, f, osz, expsz); goto nx; }
				/* compare to ref encoding */
				{
					uint8_t *rx, *ry; size_t rsz = enc_point(&R, f, le, &rx, &ry);
					if (rsz != osz || memcmp(rx, ox, osz) || (ry && memcmp(ry, oy, bytes))) {
						FAIL("recover != ref %s le=%d f=%d", what, le, f); hex("got", ox, osz); hex("ref", rx, rsz);
					}
					free(rx); free(ry);
				}
				/* import back */
				ec_point_init(&I, EC_CURVE_CALC_BITS_DBL(&curve));
				/* poison I with prior different value */
				ec_point_assign(&I, &curve.G); I.infinity = 1;
				e = imp(&curve, ox, oy, osz, &I);
				if (e != 0) FAIL("import of exported %s le=%d f=%d err=%d", what, le, f, e);
				else if (!pt_eq(&I, &R)) FAIL("import != point %s le=%d f=%d", what, le, f);
				if (f == 2) { /* concat */
					uint8_t *cc = xb(2 * bytes); memcpy(cc, ox, bytes); memcpy(cc + bytes, oy, bytes);
					ec_point_assign(&I, &curve.G);
					e = imp(&curve, cc, NULL, 2 * bytes, &I);
					if (e != 0) FAIL("import concat %s le=%d err=%d", what, le, e);
					else if (!pt_eq(&I, &R)) FAIL("import concat != point %s le=%d", what, le);
					free(cc);
				}
				if (f == 1) { /* hybrid right parity */
					ox[0] = bn_is_odd(&R.y) ? 7 : 6;
					e = imp(&curve, ox, NULL, osz, &I);
					if (e != 0) FAIL("import hybrid %s le=%d err=%d", what, le, e);
					else if (!pt_eq(&I, &R)) FAIL("import hybrid != point %s le=%d", what, le);
#ifndef EC_DISABLE_PUB_KEY_CHK
					ox[0] = bn_is_odd(&R.y) ? 6 : 7;
					e = imp(&curve, ox, NULL, osz, &I);
					if (e == 0) hyb++;
#endif
				}
nx:
				free(pk); free(ox); free(oy);
			}
		}
	}
	/* key gen: seed = d in `bytes` bytes, if fits */
	if (dsz <= bytes) {
		bn_export_be_bin(d, 0, dbe, bytes, NULL); rev(dle, dbe, bytes);
		for (int le = 0; le < 2; le++) for (int comp = 0; comp < 2; comp++) {
			kg_fn kg = le ? ecdsa_key_gen_le : ecdsa_key_gen_be;
			uint8_t *seed = xb(bytes); memcpy(seed, le ? dle : dbe, bytes);
			uint8_t *pr = xb(bytes), *ox = xb(comp ? 1 + bytes : bytes), *oy = xb(bytes);
			size_t prs = 0, osz = 0;
			e = kg(&curve, seed, bytes, comp, pr, &prs, ox, oy, &osz);
			if (e != 0) FAIL("keygen %s le=%d comp=%d err=%d", what, le, comp, e);
			else {
				if (prs != bytes || memcmp(pr, seed, bytes)) FAIL("keygen priv != seed %s le=%d", what, le);
				uint8_t *rx, *ry; size_t rsz = enc_point(&R, comp ? 0 : 2, le, &rx, &ry);
				if (rsz != osz || memcmp(rx, ox, osz) || (ry && memcmp(ry, oy, bytes))) FAIL("keygen pub != ref %s le=%d comp=%d", what, le, comp);
				free(rx); free(ry);
			}
			free(seed); free(pr); free(ox); free(oy);
		}
	}
}

static void test_dh(bn_p da, bn_p db, const char *what) {
	size_t bytes = EC_CURVE_CALC_BYTES(&curve), sbytes = EC_CURVE_CALC_SCALAR_BYTES(&curve);
	ec_point_t QA, QB, S, Sh;
	bn_t hh;
	int e;
	ref_mult(&QA, &curve.G, da);
	ref_mult(&QB, &curve.G, db);
	ref_mult(&S, &QB, da);
	bn_init(&hh, 64); bn_assign_digit(&hh, curve.h);
	ref_mult(&Sh, &S, &hh);
	uint8_t dab[200], dbb[200], t[200];
	for (int le = 0; le < 2; le++) {
		dh_fn dh = le ? ecdsa_dh_le : ecdsa_dh_be;
		bn_export_be_bin(da, 0, dab, sbytes, NULL); bn_export_be_bin(db, 0, dbb, sbytes, NULL);
		if (le) { rev(t, dab, sbytes); memcpy(dab, t, sbytes); rev(t, dbb, sbytes); memcpy(dbb, t, sbytes); }
		for (int cof = 0; cof < 2; cof++) for (int f = 0; f < 4; f++) {
			uint8_t *ax, *ay, *bx, *by; size_t asz = enc_point(&QA, f, le, &ax, &ay), bsz = enc_point(&QB, f, le, &bx, &by);
			uint8_t *ka = xb(sbytes), *kb = xb(sbytes); memcpy(ka, dab, sbytes); memcpy(kb, dbb, sbytes);
			uint8_t *s1 = xb(bytes), *s2 = xb(bytes); size_t z1 = 0, z2 = 0;
			int e1 = dh(&curve, cof, bx, by, bsz, ka, sbytes, s1, &z1);
			int e2 = dh(&curve, cof, ax, ay, asz, kb, sbytes, s2, &z2);
			ec_point_p SS = cof ? &Sh : &S;
			if (SS->infinity) {
				if (e1 == 0 || e2 == 0) FAIL("dh inf accepted %s", what);
			} else if (e1 || e2) FAIL("dh err %s le=%d cof=%d f=%d e1=%d e2=%d", what, le, cof, f, e1, e2);
			else {
				uint8_t rx[200]; bn_export_be_bin(&SS->x, 0, rx, bytes, NULL); if (le) { rev(t, rx, bytes); memcpy(rx, t, bytes); }
				if (z1 != bytes || z2 != bytes || memcmp(s1, s2, bytes)) FAIL("dh asym %s le=%d cof=%d f=%d", what, le, cof, f);
				if (memcmp(s1, rx, bytes)) FAIL("dh != ref %s le=%d cof=%d f=%d", what, le, cof, f);
			}
			(void)e;
			free(ax); free(ay); free(bx); free(by); free(ka); free(kb); free(s1); free(s2);
		}
	}
}

/* Try import of a raw (x,y) in all forms; expect: accept iff `valid`. */
static void test_raw(bn_p x, bn_p y, int valid, const char *what) {
#ifdef EC_DISABLE_PUB_KEY_CHK
	(void)x; (void)y; (void)valid; (void)what; return;
#else
	size_t bytes = EC_CURVE_CALC_BYTES(&curve);
	ec_point_t P, I;
	ec_point_init(&P, EC_CURVE_CALC_BITS_DBL(&curve));
	bn_assign(&P.x, x); bn_assign(&P.y, y); P.infinity = 0;
	if ((bn_calc_bits(x) + 7) / 8 > bytes || (bn_calc_bits(y) + 7) / 8 > bytes) return;
	for (int le = 0; le < 2; le++) for (int f = 0; f < 4; f++) {
		imp_fn imp = le ? ecdsa_pub_key_import_le : ecdsa_pub_key_import_be;
		uint8_t *px, *py; size_t sz = enc_point(&P, f, le, &px, &py);
		ec_point_init(&I, EC_CURVE_CALC_BITS_DBL(&curve));
		int e = imp(&curve, px, py, sz, &I);
		if (valid && e != 0) FAIL("valid rejected %s le=%d f=%d err=%d", what, le, f, e);
		if (!valid && e == 0) {
			/* for compressed: the decoded point may be a different (valid) point; check consistency */
			if (f == 0) {
				/* accepted: decoded x must equal encoded x and be < p and on curve & order */
				if (bn_cmp(&I.x, x) != 0 || bn_cmp(&I.x, &curve.p) >= 0 || 0 != ec_point_check_affine(&I, &curve)) FAIL("invalid accepted (compressed) %s le=%d", what, le);
				else {
					ec_point_t T; ref_mult(&T, &I, &curve.n);
					if (!T.infinity) FAIL("compressed accepted out-of-subgroup %s le=%d", what, le);
					if ((int)bn_is_odd(&I.y) != (px[0] & 1)) FAIL("compressed parity wrong %s le=%d", what, le);
				}
			} else FAIL("invalid accepted %s le=%d f=%d", what, le, f);
		}
		free(px); free(py);
	}
#endif
}

static void rnd_bn(bn_p r, bn_p mod) {
	uint8_t b[200]; size_t n = (bn_calc_bits(mod) + 7) / 8 + 8;
	for (size_t i = 0; i < n; i++) b[i] = (uint8_t)rnd64();
	bn_init(r, EC_CURVE_CALC_BITS_DBL(&curve) + 128 <= BN_BIT_LEN ? EC_CURVE_CALC_BITS_DBL(&curve) + 128 : BN_BIT_LEN);
	bn_import_be_bin(r, b, n);
	bn_t q; bn_assign_init(&q, r);
	bn_div(&q, mod, r);
}

int main(int argc, char **argv) {
	int only = (argc > 1) ? atoi(argv[1]) : -1;
	int iters = (argc > 2) ? atoi(argv[2]) : 3;
	for (size_t ci = 0; ci < nitems(ec_curve_str); ci++) {
		if (only >= 0 && (size_t)only != ci) continue;
		cname = ec_curve_str[ci].name;
		int e = ecdsa_curve_from_str(&ec_curve_str[ci], &curve);
		if (e) { FAIL("curve_from_str %d", e); continue; }
		size_t bits = EC_CURVE_CALC_BITS_DBL(&curve);
		bn_t d, d2, one;
		bn_init(&d, bits); bn_init(&d2, bits); bn_init(&one, bits);
		bn_assign_digit(&d, 1); test_scalar(&d, "1");
		bn_assign_digit(&d, 2); test_scalar(&d, "2");
		bn_assign_digit(&d, 3); test_scalar(&d, "3");
		bn_assign(&d, &curve.n); bn_sub_digit(&d, 1, NULL); test_scalar(&d, "n-1");
		bn_assign(&d, &curve.n); bn_sub_digit(&d, 2, NULL); test_scalar(&d, "n-2");
		bn_assign(&d, &curve.n); bn_r_shift(&d, 1); test_scalar(&d, "n/2");
		bn_assign_2exp(&d, curve.m); if (bn_cmp(&d, &curve.n) < 0) { test_scalar(&d, "2^m"); bn_add_digit(&d, 5, NULL); test_scalar(&d, "2^m+5"); }
		bn_assign_2exp(&d, curve.m - 1); if (bn_cmp(&d, &curve.n) < 0) test_scalar(&d, "2^(m-1)");
		bn_assign_2exp(&d, curve.m - 1); bn_sub_digit(&d, 1, NULL); if (bn_cmp(&d, &curve.n) < 0) test_scalar(&d, "2^(m-1)-1");
		bn_assign_2exp(&d, 64); test_scalar(&d, "2^64");
		for (int i = 0; i < iters; i++) { rnd_bn(&d, &curve.n); if (!bn_is_zero(&d)) test_scalar(&d, "rnd"); }
		/* DH */
		bn_assign(&d, &curve.n); bn_sub_digit(&d, 1, NULL);
		bn_assign_digit(&d2, 2); test_dh(&d, &d2, "n-1,2");
		bn_assign_digit(&d2, 1); test_dh(&d, &d2, "n-1,1");
		test_dh(&d, &d, "n-1,n-1");
		for (int i = 0; i < iters; i++) { rnd_bn(&d, &curve.n); rnd_bn(&d2, &curve.n); if (!bn_is_zero(&d) && !bn_is_zero(&d2)) test_dh(&d, &d2, "rnd"); }
		/* invalid points */
		{
			ec_point_t R; bn_t x, y;
			rnd_bn(&d, &curve.n); ref_mult(&R, &curve.G, &d);
			bn_init(&x, bits); bn_init(&y, bits);
			test_raw(&R.x, &R.y, 1, "valid");
			bn_assign(&x, &R.x); bn_assign(&y, &R.y); bn_add_digit(&y, 1, NULL); if (bn_cmp(&y, &curve.p) < 0) test_raw(&x, &y, 0, "y+1");
			bn_assign(&y, &R.y); bn_add(&y, &curve.p, NULL); test_raw(&x, &y, 0, "y+p");
			bn_assign(&y, &R.y); bn_add(&x, &curve.p, NULL); test_raw(&x, &y, 0, "x+p");
			bn_add(&y, &curve.p, NULL); test_raw(&x, &y, 0, "x+p,y+p");
			/* small-x points with x+p fitting */
			for (unsigned k = 0; k < 40; k++) {
				ec_point_t P; ec_point_init(&P, bits); bn_assign_digit(&P.x, k);
				P.infinity = 0;
				/* compute rhs and sqrt manually via restore (auto) – use library sqrt */
				bn_t t1, t2; bn_init(&t1, bits); bn_init(&t2, bits);
				bn_assign(&t1, &P.x); bn_mod_exp_digit(&t1, 3, &curve.p, &curve.p_mod_rd_data);
				bn_assign(&t2, &curve.a); bn_mod_mult(&t2, &P.x, &curve.p, &curve.p_mod_rd_data);
				bn_mod_add(&t1, &t2, &curve.p, &curve.p_mod_rd_data); bn_mod_add(&t1, &curve.b, &curve.p, &curve.p_mod_rd_data);
				int se = bn_mod_sqrt(&t1, &curve.p, &curve.p_mod_rd_data);
				if (se != 0) {
					/* non residue: compressed must be rejected */
					bn_assign_digit(&y, 2); test_raw(&P.x, &y, 0, "nonresidue-x");
					continue;
				}
				bn_assign(&P.y, &t1);
				if (0 != ec_point_check_affine(&P, &curve)) { FAIL("sqrt gave off-curve k=%u", k); continue; }
				ec_point_t T; ref_mult(&T, &P, &curve.n);
				int ok = T.infinity;
				char w[64]; snprintf(w, sizeof w, "smallx k=%u insub=%d", k, ok);
				test_raw(&P.x, &P.y, ok, w);
				if (!ok) { test_raw(&T.x, &T.y, 0, "loworder n*P");
					ec_point_t T2; bn_t two; bn_init(&two, 64); bn_assign_digit(&two, 2); ref_mult(&T2, &T, &two);
					if (!T2.infinity) test_raw(&T2.x, &T2.y, 0, "loworder 2n*P"); }
				bn_assign(&y, &curve.p); bn_sub(&y, &P.y, NULL); if (!bn_is_zero(&P.y)) test_raw(&P.x, &y, ok, w);
				bn_assign(&x, &P.x); bn_add(&x, &curve.p, NULL); test_raw(&x, &P.y, 0, "smallx+p");
			}
		}
		/* wrong prefixes & sizes */
#ifndef EC_DISABLE_PUB_KEY_CHK
		{
			size_t bytes = EC_CURVE_CALC_BYTES(&curve);
			ec_point_t R, I; rnd_bn(&d, &curve.n); ref_mult(&R, &curve.G, &d);
			for (int le = 0; le < 2; le++) {
				imp_fn imp = le ? ecdsa_pub_key_import_le : ecdsa_pub_key_import_be;
				uint8_t *px, *py; size_t sz;
				ec_point_init(&I, bits);
				for (int f = 0; f < 2; f++) {
					sz = enc_point(&R, f, le, &px, &py);
					for (int pf = 0; pf < 256; pf++) {
						int okp = (f==1 && (pf==6||pf==7)) ? 1 : f == 0 ? (pf == (bn_is_odd(&R.y) ? 3 : 2) || pf == (bn_is_odd(&R.y) ? 2 : 3)) : (pf == 4 || pf == (bn_is_odd(&R.y) ? 7 : 6));
						px[0] = (uint8_t)pf;
						e = imp(&curve, px, NULL, sz, &I);
						if (e == 0 && !okp) FAIL("prefix %02x accepted f=%d le=%d", pf, f, le);
						if (e != 0 && okp) FAIL("prefix %02x rejected f=%d le=%d", pf, f, le);
					}
					free(px); free(py);
				}
				/* odd sizes */
				for (size_t s = 1; s <= 2 * bytes + 3; s++) {
					if (s == 1 || s == bytes || s == bytes + 1 || s == 2 * bytes || s == 2 * bytes + 1) continue;
					px = xb(s); py = xb(s); px[0] = 4;
					e = imp(&curve, px, py, s, &I);
					if (e == 0) FAIL("size %zu accepted", s);
					free(px); free(py);
				}
				/* infinity */
				px = xb(1); px[0] = 0; e = imp(&curve, px, NULL, 1, &I);
				if (e != 0 || !I.infinity) FAIL("00 not accepted as O");
				px[0] = 1; e = imp(&curve, px, NULL, 1, &I); if (e == 0) FAIL("01 accepted");
				free(px);
			}
		}
#endif
		printf("curve %zu %s done, fails=%d\n", ci, cname, fails);
		fflush(stdout);
	}
	printf("hybrid wrong parity accepted: %d\n", hyb); printf(fails ? "FAIL total=%d\n" : "OK %d\n", fails);
	return fails ? 1 : 0;
}
