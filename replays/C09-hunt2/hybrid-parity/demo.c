/* Hybrid encodings 06/07 || x || y carry the parity of y in the prefix
 * (X9.62 4.3.7, SEC 1 2.3.4 step 3.2 "or 06/07" forms): 06 = y even, 07 = y odd.
 * ecdsa_pub_key_import_be/le accept both prefixes whatever the parity of y,
 * with validation enabled (EC_DISABLE_PUB_KEY_CHK not defined). */
#include <sys/param.h>
#include <sys/types.h>
#include <inttypes.h>
#include <stdlib.h>
#include <stdio.h>
#include <string.h>
#include <errno.h>
#define BN_BIT_LEN 1408
#include "crypto/dsa/ecdsa.h"

static ec_curve_t curve;

int main(void) {
	int fail = 0, e, le;
	ec_curve_str_p cs = ecdsa_curve_str_get_by_name("secp256r1", 9);
	if (NULL == cs || 0 != ecdsa_curve_from_str(cs, &curve)) { printf("curve init error\n"); return 2; }
	for (le = 0; le < 2; le ++) {
		uint8_t *buf = malloc(65); size_t size = 0; ec_point_t Q;
		e = (le ? ecdsa_pub_key_export_le : ecdsa_pub_key_export_be)(&curve, 0, &curve.G, buf, NULL, &size);
		if (0 != e || 65 != size || 4 != buf[0]) { printf("export error\n"); return 2; }
		int y_odd = bn_is_odd(&curve.G.y);
		ec_point_init(&Q, EC_CURVE_CALC_BITS_DBL(&curve));
		buf[0] = (y_odd ? 7 : 6); /* right parity */
		e = (le ? ecdsa_pub_key_import_le : ecdsa_pub_key_import_be)(&curve, buf, NULL, size, &Q);
		printf("%s: prefix %02x (matches parity of y, y is %s) -> %d (expected 0)\n", le ? "le" : "be", buf[0], y_odd ? "odd" : "even", e);
		if (0 != e) fail ++;
		buf[0] = (y_odd ? 6 : 7); /* wrong parity: not an encoding of any point */
		e = (le ? ecdsa_pub_key_import_le : ecdsa_pub_key_import_be)(&curve, buf, NULL, size, &Q);
		printf("%s: prefix %02x (contradicts parity of y) -> %d (expected != 0)\n", le ? "le" : "be", buf[0], e);
		if (0 == e) fail ++;
		free(buf);
	}
	printf(fail ? "FAIL (%d)\n" : "OK\n", fail);
	return (fail ? 1 : 0);
}
