#!/bin/sh
# usage: run.sh <tree>
T=${1:-/tmp/hunt/C09}
D=$(dirname "$0")
cc -O1 -w -DLINUX -D_GNU_SOURCE -I"$T/include" "$D/demo.c" -o /tmp/c09_hybrid_demo.$$ || exit 2
/tmp/c09_hybrid_demo.$$; rc=$?
rm -f /tmp/c09_hybrid_demo.$$
exit $rc
