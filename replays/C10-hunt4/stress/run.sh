#!/bin/sh
T=${1:-/tmp/hunt/C10}; D=$(dirname "$0"); SAN=${SAN:--fsanitize=address,undefined}
F="-DHAVE_ACCEPT4 -DHAVE_EXPLICIT_BZERO -DHAVE_MEMMEM -DHAVE_MEMRCHR -DHAVE_PIPE2 -DHAVE_POSIX_SPAWN_FILE_ACTIONS_ADDCLOSEFROM_NP -DHAVE_PTHREAD_SETNAME_NP -DHAVE_REALLOCARRAY -DHAVE_SOCK_CLOEXEC -DHAVE_SOCK_NONBLOCK -DHAVE_STRNCASECMP -DLINUX -D_GNU_SOURCE -D__USE_GNU=1 -I$T/include"
clang -std=gnu11 -g -O1 $SAN -fsanitize-address-use-after-return=always $F $D/demo.c $T/src/threadpool/threadpool.c $T/src/threadpool/threadpool_msg_sys.c -o $D/demo -lpthread 2>$D/build.log || { cat $D/build.log; exit 2; }
ASAN_OPTIONS=detect_stack_use_after_return=1 $D/demo ${2:-4}
