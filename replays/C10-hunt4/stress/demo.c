#include <sys/param.h>
#include <sys/types.h>
#include <inttypes.h>
#include <string.h>
#include <stdio.h>
#include <stdlib.h>
#include <errno.h>
#include <pthread.h>
#include <unistd.h>
#include <time.h>
#include <semaphore.h>
#include "threadpool/threadpool.h"
#include "threadpool/threadpool_msg_sys.h"

#define MAXT 8
static tp_p tp, tp2;
static pthread_t thr_id[MAXT + 1];
static volatile int cb_cnt[MAXT + 1], cb_wrong_thr, in_cb, overlap, order_bad, last_idx;
static volatile int done_cnt, done_wrong_thr, done_early; static volatile size_t done_sent, done_fail;
static volatile int total_cb;
static int obo_mode; static tpt_p orig_tpt; static int fails;
static int use_force;

static void on_start(tpt_p tpt) { if (tpt_get_tp(tpt) == tp && tpt_get_num(tpt) < MAXT) thr_id[tpt_get_num(tpt)] = pthread_self(); }

static void msleep(int ms) { struct timespec t = { ms / 1000, (ms % 1000) * 1000000L }; nanosleep(&t, NULL); }

static void cb(tpt_p tpt, void *udata) {
	size_t n = tpt_get_num(tpt);
	if (1 != __sync_add_and_fetch(&in_cb, 1) && obo_mode) overlap++;
	if (tpt_get_tp(tpt) != tp || n >= MAXT) { cb_wrong_thr++; }
	else {
		__sync_add_and_fetch(&cb_cnt[n], 1);
		if (!use_force && !pthread_equal(thr_id[n], pthread_self())) cb_wrong_thr++;
	}
	if (obo_mode) { struct timespec t = {0, 200000}; nanosleep(&t, NULL); }
	__sync_add_and_fetch(&total_cb, 1);
	__sync_sub_and_fetch(&in_cb, 1);
	(void)udata;
}
static void done(tpt_p tpt, size_t s, size_t f, void *udata) {
	(void)udata;
	done_sent = s; done_fail = f;
	if (tpt != orig_tpt) done_wrong_thr++;
	if (tpt_get_tp(tpt) == tp && tpt != tp_thread_get_pvt(tp) && tpt_get_num(tpt) < MAXT && !pthread_equal(thr_id[tpt_get_num(tpt)], pthread_self())) done_wrong_thr++;
	if ((size_t)total_cb != s || in_cb != 0) done_early++;
	__sync_add_and_fetch(&done_cnt, 1);
}

typedef struct { int is_cb; tpt_p src; uint32_t flags; int ret; size_t s, f; sem_t sem; int total_at_ret; } call_t;
static void do_call(call_t *c) {
	if (c->is_cb) c->ret = tpt_msg_cbsend(tp, c->src, c->flags, cb, NULL, done);
	else { c->s = 777; c->f = 777; c->ret = tpt_msg_bsend_ex(tp, c->src, c->flags, cb, NULL, &c->s, &c->f); }
	c->total_at_ret = total_cb;
}
static void call_msg(tpt_p tpt, void *udata) { (void)tpt; do_call(udata); sem_post(&((call_t*)udata)->sem); }

static const char *fl(uint32_t f) { static char b[128]; snprintf(b, sizeof b, "%s%s%s%s%s%s%s", f&TP_BMSG_F_SELF_SKIP?"SKIP ":"", f&TP_MSG_F_SELF_DIRECT?"DIRECT ":"", f&TP_BMSG_F_SYNC?"SYNC ":"", f&TP_BMSG_F_SYNC_USLEEP?"USLEEP ":"", f&TP_CBMSG_F_ONE_BY_ONE?"OBO ":"", f&TP_MSG_F_FORCE?"FORCE ":"", f&TP_MSG_F_FAIL_DIRECT?"FAILD ":""); return b; }

int main(int argc, char **argv) {
	int nmax = argc > 1 ? atoi(argv[1]) : 4;
	tp_settings_t s;
	/* second pool for foreign originator */
	tp_settings_def(&s); s.threads_max = 2; s.flags = 0; s.tpt_on_start = on_start;
	if (tp_create(&s, &tp2) || tp_threads_create(tp2, 0)) return 2;
	for (int n = 1; n <= nmax; n++) for (unsigned mask = 0; mask < (1u << n); mask++) { /* mask: stopped threads */
		tp_settings_def(&s); s.threads_max = (size_t)n; s.flags = 0; s.tpt_on_start = on_start;
		if (tp_create(&s, &tp) || tp_threads_create(tp, 0)) return 2;
		msleep(30);
		for (int i = 0; i < n; i++) if (mask & (1u << i)) tp_thread_dettach(tp_thread_get(tp, (size_t)i));
		for (int w = 0; w < 100; w++) { int ok = 1; for (int i = 0; i < n; i++) if ((mask & (1u << i)) && tpt_is_running(tp_thread_get(tp, (size_t)i))) ok = 0; /* STOPING isn't running */ if (ok) break; msleep(5);} 
		msleep(20);
		/* caller kinds: -1 outside src NULL; -2 outside src=pvt; -3 outside src = foreign worker (tp2 thr 0); 100+k outside, src declared worker k;  k inside worker k src NULL; 200+k inside worker k src=pvt ; 300+k: inside foreign tp2 worker 0, src NULL*/
		int callers[64], nc = 0;
		callers[nc++] = -1; callers[nc++] = -2; callers[nc++] = -3; callers[nc++] = 300;
		for (int k = 0; k < n; k++) { callers[nc++] = 100 + k; if (!(mask & (1u << k))) { callers[nc++] = k; callers[nc++] = 200 + k; } }
		for (int ci = 0; ci < nc; ci++) for (int is_cb = 0; is_cb < 2; is_cb++) for (unsigned fi = 0; fi < 32; fi++) {
			uint32_t flags = 0; int caller = callers[ci];
			if (fi & 1) flags |= TP_BMSG_F_SELF_SKIP;
			if (fi & 2) flags |= TP_MSG_F_SELF_DIRECT;
			if (is_cb) { if (fi & 4) flags |= TP_CBMSG_F_ONE_BY_ONE; if (fi & 8) continue; }
			else { if (fi & 4) flags |= TP_BMSG_F_SYNC; if (fi & 8) flags |= TP_BMSG_F_SYNC_USLEEP; }
			if (fi & 16) flags |= TP_MSG_F_FORCE;
			use_force = !!(fi & 16);
			/* known/left: SELF_DIRECT with declared originator != calling thread */
			if ((flags & TP_MSG_F_SELF_DIRECT) && caller >= 100 && caller < 200) continue;
			call_t c; memset(&c, 0, sizeof c); sem_init(&c.sem, 0, 0);
			c.is_cb = is_cb; c.flags = flags;
			tpt_p inside = NULL;
			if (caller == -1) c.src = NULL; else if (caller == -2) c.src = tp_thread_get_pvt(tp); else if (caller == -3) c.src = tp_thread_get(tp2, 0);
			else if (caller >= 300) { inside = tp_thread_get(tp2, 0); c.src = NULL; }
			else if (caller >= 200) { inside = tp_thread_get(tp, (size_t)(caller - 200)); c.src = tp_thread_get_pvt(tp); }
			else if (caller >= 100) c.src = tp_thread_get(tp, (size_t)(caller - 100));
			else { inside = tp_thread_get(tp, (size_t)caller); c.src = NULL; }
			/* effective originator */
			tpt_p eff = c.src ? c.src : inside;
			orig_tpt = eff;
			int eff_slot = -1; if (eff && tpt_get_tp(eff) == tp && eff != tp_thread_get_pvt(tp)) eff_slot = (int)tpt_get_num(eff);
			int inside_slot = (inside && tpt_get_tp(inside) == tp) ? (int)tpt_get_num(inside) : -1;
			int sync = 0 != (flags & (TP_BMSG_F_SYNC | TP_BMSG_F_SYNC_USLEEP));
			int skip_slot = (flags & TP_BMSG_F_SELF_SKIP) ? eff_slot : -1;
			if (!is_cb && sync && inside_slot >= 0 && eff_slot != inside_slot) skip_slot = -1; /* documented by fix 40a1e07 */
			memset((void*)cb_cnt, 0, sizeof cb_cnt); cb_wrong_thr = in_cb = overlap = 0; done_cnt = done_wrong_thr = done_early = 0; total_cb = 0; done_sent = done_fail = 999;
			obo_mode = is_cb && (flags & TP_CBMSG_F_ONE_BY_ONE);
			int targeted = 0, exp_run = 0;
			for (int i = 0; i < n; i++) { if (i == skip_slot) continue; targeted++; if (!(mask & (1u << i)) || use_force) exp_run++; }
			if (inside) { if (tpt_msg_send(inside, NULL, 0, call_msg, &c)) { printf("cannot send call\n"); return 2; } 
				struct timespec ts; clock_gettime(CLOCK_REALTIME, &ts); ts.tv_sec += 3;
				if (sem_timedwait(&c.sem, &ts)) { printf("FAIL hang n=%d mask=%x caller=%d is_cb=%d flags=%s\n", n, mask, caller, is_cb, fl(flags)); fails++; return 1; } }
			else do_call(&c);
			/* wait for async completion */
			int expect_done = is_cb && c.ret == 0;
			for (int w = 0; w < 100; w++) { if (total_cb >= exp_run && (!expect_done || done_cnt >= 1)) break; msleep(1); }
			msleep(1);
			int bad = 0; char why[256] = "";
			if (cb_wrong_thr) { bad = 1; strcat(why, "cb-on-wrong-thread "); }
			if (overlap) { bad = 1; strcat(why, "overlap "); }
			for (int i = 0; i < n; i++) { int e = (i != skip_slot && (!(mask & (1u << i)) || use_force)) ? 1 : 0; if (cb_cnt[i] != e) { bad = 1; char t[64]; snprintf(t, sizeof t, "thr%d ran %d exp %d; ", i, cb_cnt[i], e); strcat(why, t);} }
			if (!is_cb) {
				if (c.ret == EINVAL) { bad = (total_cb != 0); if (!bad) goto next; }
				if ((int)(c.s + c.f) != targeted || (int)c.s != exp_run) { bad = 1; char t[64]; snprintf(t, sizeof t, "counts s=%zu f=%zu targeted=%d; ", c.s, c.f, targeted); strcat(why, t);} 
				if (sync && c.total_at_ret != exp_run) { bad = 1; strcat(why, "sync-returned-early "); }
				if ((c.ret == 0) != (exp_run > 0) && !(n == 1 && inside_slot == 0)) { bad = 1; char t[64]; snprintf(t, sizeof t, "ret=%d; ", c.ret); strcat(why, t);} 
			} else {
				if (c.ret == EHOSTDOWN && eff && !tpt_is_running(eff)) { bad = (total_cb != 0); goto rep; }
				if (c.ret == EINVAL && eff == NULL) { bad = (total_cb != 0); goto rep; }
				if (mask == (1u << n) - 1 && eff == tp_thread_get_pvt(tp)) { bad = 0; goto rep; }
				if (c.ret == 0) {
					if (done_cnt != 1) { bad = 1; char t[64]; snprintf(t, sizeof t, "done_cnt=%d; ", done_cnt); strcat(why, t);} 
					else {
						if (done_wrong_thr) { bad = 1; strcat(why, "done-wrong-thread "); }
						if (done_early) { bad = 1; strcat(why, "done-early "); }
						if ((int)(done_sent + done_fail) != targeted || (int)done_sent != exp_run) { bad = 1; char t[64]; snprintf(t, sizeof t, "done counts s=%zu f=%zu targeted=%d; ", done_sent, done_fail, targeted); strcat(why, t);} 
					}
				} else { if (done_cnt != 0 || exp_run != 0) { bad = 1; char t[64]; snprintf(t, sizeof t, "ret=%d done_cnt=%d exp_run=%d; ", c.ret, done_cnt, exp_run); strcat(why, t);} }
			}
rep:
			if (bad) { fails++; printf("FAIL n=%d stopped=%x caller=%d %s flags=[%s] ret=%d: %s\n", n, mask, caller, is_cb ? "cbsend" : "bsend", fl(flags), c.ret, why); }
next:			sem_destroy(&c.sem);
		}
		tp_shutdown(tp); tp_shutdown_wait(tp); tp_destroy(tp); tp = NULL;
	}
	printf("fails=%d\n", fails);
	return fails ? 1 : 0;
}
