/* user_home_dir_get(buf, buf_size, &size_ret): the capacity test is
 *   if (NULL == buf && buf_size < homedir_size) return (-1);
 * '&&' instead of '||': with a real buffer the test is never true and
 * strlen($HOME) bytes are copied whatever buf_size is. */
#include <sys/param.h>
#include <sys/types.h>
#include <inttypes.h>
#include <string.h>
#include <stdio.h>
#include <stdlib.h>
#include <errno.h>
#include "utils/sys.h"

int
main(void) {
	int rc;
	size_t need = 0, cap;
	char *buf;
	const char *home = "/home/some-user-with-a-long-name";

	setenv("HOME", home, 1);
	/* Ask for the size first (legal: NULL, 0). */
	rc = user_home_dir_get(NULL, 0, &need);
	printf("size query: rc=%d size_ret=%zu (strlen=%zu)\n", rc, need, strlen(home));
	/* Exact capacity must work. */
	buf = malloc(need);
	rc = user_home_dir_get(buf, need, &need);
	printf("capacity %zu: rc=%d\n", need, rc);
	free(buf);
	/* One byte less than required must be refused, not overflowed
	 * (heap buffer flush against the ASan redzone). */
	for (cap = need - 1; cap > 0; cap /= 2) {
		buf = malloc(cap);
		printf("capacity %zu: ", cap); fflush(stdout);
		rc = user_home_dir_get(buf, cap, &need);
		printf("rc=%d size_ret=%zu\n", rc, need);
		if (0 == rc) {
			printf("FAIL: returned success for a %zu byte buffer, %zu bytes were copied\n", cap, need);
			return (1);
		}
		free(buf);
	}
	printf("PASS\n");
	return (0);
}
