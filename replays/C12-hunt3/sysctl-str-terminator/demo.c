/* sysctl_str_to_buf() (Linux branch) reads the value with
 *   read_file_buf(path, rc, buf + descr_size, buf_size - descr_size, &tm)
 * which may fill the whole rest of the buffer, then does
 *   tm += descr_size; ...trim...; buf[tm] = 0;
 * With a value that does not fit, tm == buf_size: the terminator is
 * stored at buf[buf_size].  info_sysinfo() passes (buf_size - buf_used)
 * down, so a short caller buffer gets the same one byte overflow. */
#include <sys/param.h>
#include <sys/types.h>
#include <inttypes.h>
#include <string.h>
#include <stdio.h>
#include <stdlib.h>
#include <errno.h>
#include "utils/info.h"

int
main(int argc, char **argv) {
	int rc, mib[2] = { 0 /* CTL_KERN */, 0 /* KERN_OSTYPE: "Linux\n" */ };
	size_t cap, got;
	char *buf;

	if (argc > 1) { /* Second scenario: info_sysinfo() with a short buffer. */
		for (cap = 12; cap < 64; cap ++) {
			buf = malloc(cap);
			got = 0;
			printf("info_sysinfo capacity %zu: ", cap); fflush(stdout);
			rc = info_sysinfo(buf, cap, &got);
			printf("rc=%d size_ret=%zu\n", rc, got);
			free(buf);
		}
		return (0);
	}
	/* "OS: " + "Linux" needs 9 + terminator = 10 bytes. */
	for (cap = 12; cap > 4; cap --) {
		buf = malloc(cap); /* flush against the ASan redzone */
		got = 0;
		printf("sysctl_str_to_buf capacity %zu: ", cap); fflush(stdout);
		rc = sysctl_str_to_buf(mib, 2, "OS: ", 4, buf, cap, &got);
		printf("rc=%d size_ret=%zu\n", rc, got);
		if (0 == rc && got >= cap) {
			printf("FAIL: %zu characters + terminator reported for a %zu byte buffer\n", got, cap);
			return (1);
		}
		free(buf);
	}
	printf("PASS\n");
	return (0);
}
