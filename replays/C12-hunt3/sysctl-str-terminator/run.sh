#!/bin/sh
# usage: run.sh <tree>     (needs /proc/sys/kernel/ostype)
T=${1:-/tmp/hunt/C12}
D=$(dirname "$0")
O=$(mktemp -d)
clang -g -O1 -fsanitize=address,undefined -fno-sanitize-recover=undefined \
  -DHAVE_ACCEPT4 -DHAVE_EXPLICIT_BZERO -DHAVE_MEMMEM -DHAVE_MEMRCHR -DHAVE_PIPE2 \
  -DHAVE_POSIX_SPAWN_FILE_ACTIONS_ADDCLOSEFROM_NP -DHAVE_PTHREAD_SETNAME_NP \
  -DHAVE_REALLOCARRAY -DHAVE_SOCK_CLOEXEC -DHAVE_SOCK_NONBLOCK -DHAVE_STRNCASECMP \
  -DLINUX -D_GNU_SOURCE -D__USE_GNU=1 -I"$T/include" \
  "$D/demo.c" "$T/src/utils/info.c" "$T/src/utils/sys.c" -o "$O/demo" -lpthread || exit 2
"$O/demo" > "$O/out1" 2>&1; rc1=$?
head -n 12 "$O/out1"
"$O/demo" sysinfo > "$O/out2" 2>&1; rc2=$?
head -n 8 "$O/out2"
rm -rf "$O"
if [ $rc1 -ne 0 ] || [ $rc2 -ne 0 ]; then echo "FAIL (exit $rc1 / $rc2)"; exit 1; fi
exit 0
