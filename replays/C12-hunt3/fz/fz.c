#include <sys/param.h>
#include <sys/types.h>
#include <inttypes.h>
#include <string.h>
#include <stdio.h>
#include <stdlib.h>
#include <errno.h>
#include <time.h>
#include "utils/mem_utils.h"
#include "utils/utf8.h"
#include "utils/asn1.h"
#include "utils/base64.h"
#include "utils/num2str.h"
#include "utils/str2num.h"
#include "utils/strh2num.h"
#include "utils/buf_str.h"
#include "utils/xml.h"
#include "math/crc32.h"

#define DIE(...) do { fprintf(stderr, "FAIL: " __VA_ARGS__); fprintf(stderr, "\n"); abort(); } while (0)

static uint8_t *dupx(const uint8_t *d, size_t n) { /* exact heap copy (n may be 0) */
	uint8_t *p = malloc(n ? n : 1);
	if (n) memcpy(p, d, n);
	return p;
}

static void in_range(const uint8_t *p, size_t n, const uint8_t *b, size_t bn, const char *what) {
	if (p == NULL) return;
	if (p < b || p > b + bn || n > (size_t)((b + bn) - p))
		DIE("%s out of range: off=%td size=%zu buf=%zu", what, p - b, n, bn);
}

static void fz_xml(const uint8_t *d, size_t n, int ns) {
	/* header: count(1..3), then tags separated by 0, then data */
	if (n < 2) return;
	size_t cnt = (d[0] % 3) + 1; d++; n--;
	const uint8_t *tags[4]; size_t tcnt[4];
	static const char *names[] = {"a", "b", "cc", "ns", "x:y", "", "a b"};
	for (size_t i = 0; i < cnt; i++) {
		if (n == 0) return;
		tags[i] = (const uint8_t*)names[d[0] % 7];
		tcnt[i] = strlen((const char*)tags[i]);
		d++; n--;
	}
	if (n == 0) return;
	uint8_t *x = dupx(d, n);
	const uint8_t *next = NULL, *attr, *val, *nsp[4];
	size_t attr_sz, val_sz, ns_sz[4];
	int it = 0;
	for (;;) {
		int r;
		attr = val = NULL; attr_sz = val_sz = 0;
		memset(nsp, 0, sizeof(nsp));
		if (ns)
			r = xml_get_val_ns_arr(x, n, &next, cnt, tags, tcnt, nsp, ns_sz, &attr, &attr_sz, &val, &val_sz);
		else
			r = xml_get_val_arr(x, n, &next, cnt, tags, tcnt, &attr, &attr_sz, &val, &val_sz);
		if (r != 0) break;
		in_range(attr, attr_sz, x, n, "attr");
		in_range(val, val_sz, x, n, "value");
		if (ns) for (size_t i = 0; i < cnt; i++) if (ns_sz[i]) in_range(nsp[i], ns_sz[i], x, n, "ns");
		in_range(next, 0, x, n, "next");
		if (++it > (int)n + 8) DIE("xml no termination");
	}
	free(x);
}

static void fz_asn(const uint8_t *d, size_t n) {
	if (n == 0) return;
	uint8_t *x = dupx(d, n);
	size_t off = 0, hs, tag, ds; uint8_t cls, ps, *dt;
	int it = 0;
	for (;;) {
		size_t prev = off;
		int r = asn_parse(x, n, &off, &hs, &cls, &ps, &tag, &dt, &ds);
		if (r) break;
		in_range(dt, ds, x, n, "asn data");
		if (off > n) DIE("asn offset %zu > %zu", off, n);
		if (off <= prev) DIE("asn no progress");
		if (dt != x + prev + hs) DIE("asn hdr size mismatch");
		if (++it > (int)n + 2) DIE("asn loop");
	}
	free(x);
}

static void fz_stream(const uint8_t *d, size_t n) {
	if (n < 3) return;
	size_t wl = (d[0] % 6) + 1; size_t split = d[1]; d += 2; n -= 2;
	if (n < wl + 1) return;
	uint8_t *w = dupx(d, wl); d += wl; n -= wl;
	/* reduce alphabet so matches happen */
	uint8_t *all = dupx(d, n);
	for (size_t i = 0; i < n; i++) all[i] = 'a' + (all[i] & 1);
	for (size_t i = 0; i < wl; i++) w[i] = 'a' + (w[i] & 1);
	uint8_t *ref = memmem(all, n, w, wl);
	size_t ref_end = ref ? (size_t)(ref - all) + wl : (size_t)-1;
	/* chunks of size (split%4)+1 */
	size_t cs = (split % 4) + 1, state = 0, pos = 0, found = (size_t)-1;
	while (pos < n) {
		size_t c = (n - pos < cs) ? n - pos : cs;
		uint8_t *ch = dupx(all + pos, c);
		size_t oe = 0;
		int r = mem_find_stream(ch, c, w, wl, &state, &oe);
		free(ch);
		if (r == 0) { found = pos + oe; break; }
		if (r != ENOENT) DIE("stream rc %d", r);
		pos += c;
	}
	if (found != ref_end) DIE("stream mismatch found=%zu ref=%zu wl=%zu cs=%zu", found, ref_end, wl, cs);
	free(all); free(w);
}

static void fz_repl(const uint8_t *d, size_t n) {
	if (n < 8) return;
	size_t rc = d[0] % 4;
	const void *sr[4], *dr[4]; size_t sc[4], dc[4];
	static const char *pats[] = {"a", "ab", "ba", "aaa", "b", "abab", "", "bb"};
	for (size_t i = 0; i < 4; i++) {
		sr[i] = pats[d[1 + i] % 8]; sc[i] = strlen(sr[i]);
		dr[i] = pats[(d[1 + i] >> 3) % 8]; dc[i] = strlen(dr[i]);
	}
	size_t slack = d[5] % 3; /* 0: exact, 1: one less, 2: one more */
	d += 6; n -= 6;
	uint8_t *s = dupx(d, n);
	for (size_t i = 0; i < n; i++) s[i] = 'a' + (s[i] & 1);
	uint8_t *big = malloc(n * 5 + 16);
	size_t need = 0, repl = 0;
	int r = mem_replace_arr(s, n, rc, NULL, sr, sc, dr, dc, big, n * 5 + 16, &need, &repl);
	if (r != 0) DIE("repl big rc %d", r);
	size_t cap = need;
	if (slack == 1) { if (cap == 0) goto out; cap--; }
	if (slack == 2) cap++;
	uint8_t *o = malloc(cap ? cap : 1);
	size_t got = 0;
	r = mem_replace_arr(s, n, rc, NULL, sr, sc, dr, dc, o, cap, &got, NULL);
	if (slack == 1) { if (r == 0) DIE("repl fits in less"); }
	else {
		if (r != 0) DIE("repl exact refused rc %d need %zu cap %zu", r, need, cap);
		if (got != need || memcmp(o, big, need)) DIE("repl differs");
	}
	free(o);
out:
	free(big); free(s);
}

static void fz_misc(const uint8_t *d, size_t n) {
	if (n < 2) return;
	size_t capsel = d[0]; d++; n--;
	uint8_t *x = dupx(d, n);
	/* buf2args (modifies) */
	{
		uint8_t *y = dupx(d, n);
		char *args[4]; size_t as[4];
		size_t c = buf2args((char*)y, n, (capsel % 4) + 1, args, as);
		for (size_t i = 0; i < c; i++) in_range((uint8_t*)args[i], as[i], y, n, "arg");
		free(y);
	}
	/* lines */
	{
		const uint8_t *ln = NULL; size_t ls = 0; int it = 0;
		while (0 == buf_get_next_line(x, n, ln, ls, &ln, &ls)) {
			in_range(ln, ls, x, n, "line");
			if (++it > (int)n + 2) DIE("line loop");
		}
	}
	/* hex2bin */
	{
		size_t digits = 0;
		for (size_t i = 0; i < n; i++) if (strchr("0123456789abcdefABCDEF", x[i]) && x[i]) digits++;
		size_t need = digits / 2;
		for (size_t cap = 0; cap <= need + 1; cap++) {
			uint8_t *o = malloc(cap ? cap : 1); size_t got = 0;
			int r = cvt_hex2bin(x, n, capsel & 1, o, cap, &got);
			if (r == 0 && got > cap) DIE("hex2bin got>cap");
			(void)r;
			free(o);
		}
	}
	/* bin2hex */
	{
		for (size_t cap = 0; cap <= 2 * n + 2; cap++) {
			uint8_t *o = malloc(cap ? cap : 1); size_t got = 0;
			int r = cvt_bin2hex(x, n, capsel & 1, o, cap, &got);
			if (r == 0 && got > cap) DIE("bin2hex got>cap");
			if (cap >= 2 * n && cap >= 2 && r != 0) DIE("bin2hex refused cap %zu n %zu", cap, n);
			free(o);
		}
	}
	/* utf8 */
	{
		for (size_t cap = 0; cap <= n + 1; cap += (n > 16 ? n / 4 + 1 : 1)) {
			uint8_t *o = malloc(cap ? cap : 1);
			size_t got = utf8_decode(x, n, o, cap);
			if (got > cap) DIE("utf8");
			free(o);
		}
	}
	/* base64 */
	{
		size_t need = 0;
		base64_encode(x, n, NULL, 0, &need);
		for (size_t cap = (need ? need - 1 : 0); cap <= need + 1; cap++) {
			uint8_t *o = malloc(cap ? cap : 1); size_t got = 0;
			int r = base64_encode(x, n, o, cap, &got);
			if (cap >= need && r) DIE("b64enc refused");
			free(o);
		}
		need = 0;
		int r0 = base64_decode(x, n, NULL, 0, &need);
		if (r0 == ENOBUFS || r0 == 0) for (size_t cap = (need ? need - 1 : 0); cap <= need + 1; cap++) {
			uint8_t *o = malloc(cap ? cap : 1); size_t got = 0;
			int r = base64_decode(x, n, o, cap, &got);
			if (cap >= need && r) DIE("b64dec refused %d", r);
			free(o);
		}
		need = 0;
		r0 = base64_decode_fmt(x, n, NULL, 0, &need);
		if (r0 == ENOBUFS) for (size_t cap = (need ? need - 1 : 0); cap <= need + 1; cap++) {
			uint8_t *o = malloc(cap ? cap : 1); size_t got = 0;
			int r = base64_decode_fmt(x, n, o, cap, &got);
			if (cap >= need && r == ENOBUFS) DIE("b64decfmt refused %d", r);
			free(o);
		}
	}
	/* str2num family */
	{
		(void)ustr2u64(x, n); (void)ustr2s64(x, n); (void)ustr2u32(x, n); (void)ustr2s32(x, n);
		(void)ustr2usize(x, n); (void)ustr2ssize(x, n);
		(void)ustr2u8(x, n); (void)ustr2s8(x, n); (void)ustr2u16(x, n); (void)ustr2s16(x, n);
		(void)ustrh2u64(x, n); (void)ustrh2u32(x, n); (void)ustrh2u8(x, n); (void)ustrh2u16(x, n); (void)ustrh2usize(x, n);
	}
	/* xml enc/dec */
	{
		size_t need = 0;
		uint8_t *big = malloc(n * 6 + 8);
		if (0 != xml_encode(x, n, big, n * 6 + 8, &need)) DIE("xml_encode big");
		for (size_t cap = (need ? need - 1 : 0); cap <= need + 1; cap++) {
			uint8_t *o = malloc(cap ? cap : 1); size_t got = 0;
			int r = xml_encode(x, n, o, cap, &got);
			if (cap >= need && r) DIE("xml_encode refused");
			if (cap < need && !r) DIE("xml_encode short ok");
			free(o);
		}
		if (0 != xml_decode(x, n, big, n * 6 + 8, &need)) DIE("xml_decode big");
		for (size_t cap = (need ? need - 1 : 0); cap <= need + 1; cap++) {
			uint8_t *o = malloc(cap ? cap : 1); size_t got = 0;
			int r = xml_decode(x, n, o, cap, &got);
			if (cap >= need && r) DIE("xml_decode refused");
			if (cap < need && !r) DIE("xml_decode short ok");
			free(o);
		}
		free(big);
	}
	(void)crc32b(x, n); (void)crc32a(x, n);
	(void)calc_sptab_count((char*)x, n); (void)calc_non_sptab_count((char*)x, n);
	if (n) { (void)calc_sptab_count_r((char*)x, n); (void)calc_non_sptab_count_r((char*)x, n); }
	free(x);
}

static void fz_num(const uint8_t *d, size_t n) {
	if (n < 9) return;
	uint64_t v; memcpy(&v, d, 8);
	unsigned sh = d[8] % 65; if (sh < 64) v >>= sh; else v = 0;
	if (n > 9 && (d[9] & 1)) { /* power of ten neighbourhood */
		v = 1; for (unsigned i = 0; i < (unsigned)(d[9] >> 1) % 20; i++) v *= 10;
		if (n > 10) v += (int8_t)(d[10] % 3) - 1;
	}
	char ref[32];
	int rl = snprintf(ref, sizeof(ref), "%" PRIu64, v);
	for (size_t cap = 0; cap <= (size_t)rl + 2; cap++) {
		char *o = malloc(cap ? cap : 1); size_t got = 0;
		int r = u642str(v, o, cap, &got);
		if (cap >= (size_t)rl + 1) { if (r || got != (size_t)rl || memcmp(o, ref, rl + 1)) DIE("u642str %s cap %zu", ref, cap); }
		else if (cap > 0) { if (r != ENOSPC || got != (size_t)rl + 1) DIE("u642str short %s cap %zu r %d got %zu", ref, cap, r, got); }
		free(o);
	}
	int64_t sv = (int64_t)v;
	rl = snprintf(ref, sizeof(ref), "%" PRId64, sv);
	for (size_t cap = 0; cap <= (size_t)rl + 2; cap++) {
		char *o = malloc(cap ? cap : 1); size_t got = 0;
		int r = s642str(sv, o, cap, &got);
		if (cap >= (size_t)rl + 1) { if (r || got != (size_t)rl || memcmp(o, ref, rl + 1)) DIE("s642str %s cap %zu", ref, cap); }
		else if (cap > 0) { if (r != ENOSPC || got != (size_t)rl + 1) DIE("s642str short"); }
		free(o);
	}
	int32_t s3 = (int32_t)v; rl = snprintf(ref, sizeof(ref), "%d", s3);
	{ char *o = malloc(rl + 1); size_t got; if (s322str(s3, o, rl + 1, &got) || strcmp(o, ref)) DIE("s322str"); free(o); }
	int8_t s1 = (int8_t)v; rl = snprintf(ref, sizeof(ref), "%d", s1);
	{ char *o = malloc(rl + 1); size_t got; if (s82str(s1, o, rl + 1, &got) || strcmp(o, ref)) DIE("s82str"); free(o); }
	time_t t = (time_t)v;
	for (size_t cap = 0; cap < 40; cap++) { char *o = malloc(cap ? cap : 1); size_t g = fmt_as_uptime(&t, o, cap); if (g > cap) DIE("uptime"); free(o); }
}

int LLVMFuzzerTestOneInput(const uint8_t *d, size_t n) {
	if (n < 1) return 0;
	switch (d[0] % 7) {
	case 0: fz_xml(d + 1, n - 1, 0); break;
	case 1: fz_xml(d + 1, n - 1, 1); break;
	case 2: fz_asn(d + 1, n - 1); break;
	case 3: fz_stream(d + 1, n - 1); break;
	case 4: fz_repl(d + 1, n - 1); break;
	case 5: fz_misc(d + 1, n - 1); break;
	case 6: fz_num(d + 1, n - 1); break;
	}
	return 0;
}
