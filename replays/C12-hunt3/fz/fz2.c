#include <sys/param.h>
#include <sys/types.h>
#include <inttypes.h>
#include <string.h>
#include <stdio.h>
#include <stdlib.h>
#include <errno.h>
#include "utils/ini.h"
#include "utils/bt_encode.h"
#define DIE(...) do { fprintf(stderr, "FAIL: " __VA_ARGS__); fprintf(stderr, "\n"); abort(); } while (0)
static uint8_t *dupx(const uint8_t *d, size_t n) { uint8_t *p = malloc(n ? n : 1); if (n) memcpy(p, d, n); return p; }

static void walk(bt_en_node_p nd, uint8_t *b, size_t n, int depth) {
	if (!nd) return;
	if (nd->raw && (nd->raw < b || nd->raw > b + n || nd->raw_size > (size_t)(b + n - nd->raw))) DIE("bt raw out of range");
	switch (nd->type) {
	case BT_EN_TYPE_STR: if (nd->val.s && (nd->val.s < b || nd->val.s + nd->raw_size > b + n)) {/* may differ */} break;
	case BT_EN_TYPE_LIST: for (size_t i = 0; i < nd->val_count; i++) walk(nd->val.l[i], b, n, depth + 1); break;
	case BT_EN_TYPE_DICT: for (size_t i = 0; i < nd->val_count; i++) { walk(nd->val.d[i].key, b, n, depth + 1); walk(nd->val.d[i].val, b, n, depth + 1);
		size_t off = 0; bt_en_node_p r = NULL; if (nd->val.d[i].key && nd->val.d[i].key->type == BT_EN_TYPE_STR) bt_dict_find(nd, &off, nd->val.d[i].key->val.s, nd->val.d[i].key->raw_size, BT_EN_TYPE_ALL, &r); } break;
	}
}

static void fz_bt(const uint8_t *d, size_t n) {
	if (n == 0) return;
	/* limit nesting so the known recursion defect does not fire */
	size_t depth = 0; for (size_t i = 0; i < n; i++) if (d[i] == 'l' || d[i] == 'd') depth++;
	if (depth > 200) return;
	uint8_t *x = dupx(d, n);
	bt_en_node_p nd = NULL; size_t off = 0;
	int r = bt_en_decode(x, n, &nd, &off);
	if (r == 0) { if (off > n) DIE("bt off"); walk(nd, x, n, 0); }
	if (nd) bt_en_free(nd);
	free(x);
}

static void fz_ini(const uint8_t *d, size_t n) {
	if (n < 4) return;
	uint8_t ops = d[0]; size_t k1 = d[1] % 8, k2 = d[2] % 8; d += 3; n -= 3;
	static const char *names[] = {"a", "b", "Sect", "key", "", "x y", "A", "long_name_value"};
	uint8_t *x = dupx(d, n);
	ini_p ini = NULL;
	if (ini_create(&ini)) { free(x); return; }
	int r = ini_buf_parse(ini, x, n);
	free(x); /* store must not reference the input */
	(void)r;
	for (int round = 0; round < 2; round++) {
		size_t so = 0; const uint8_t *sn; size_t sns; int it = 0;
		while (0 == ini_sect_enum(ini, &so, &sn, &sns)) {
			volatile uint8_t c = 0; for (size_t i = 0; i < sns; i++) c ^= sn[i];
			size_t vo = so; const uint8_t *vn, *v; size_t vns, vs; int it2 = 0;
			while (0 == ini_sect_val_enum(ini, so, &vo, &vn, &vns, &v, &vs)) {
				for (size_t i = 0; i < vns; i++) c ^= vn[i];
				for (size_t i = 0; i < vs; i++) c ^= v[i];
				vo++; if (++it2 > 10000) DIE("ini val enum loop");
			}
			so++; if (++it > 10000) DIE("ini sect enum loop");
		}
		const uint8_t *v; size_t vs; ssize_t iv; size_t uv;
		ini_val_get(ini, (const uint8_t*)names[k1], strlen(names[k1]), (const uint8_t*)names[k2], strlen(names[k2]), &v, &vs);
		ini_vali_get(ini, (const uint8_t*)names[k1], strlen(names[k1]), (const uint8_t*)names[k2], strlen(names[k2]), &v, &vs);
		ini_val_get_int(ini, (const uint8_t*)names[k1], strlen(names[k1]), (const uint8_t*)names[k2], strlen(names[k2]), &iv);
		ini_vali_get_uint(ini, (const uint8_t*)names[k1], strlen(names[k1]), (const uint8_t*)names[k2], strlen(names[k2]), &uv);
		size_t need = 0;
		if (0 == ini_buf_calc_size(ini, &need)) {
			for (size_t cap = (need ? need - 1 : 0); cap <= need + 1; cap++) {
				uint8_t *o = malloc(cap ? cap : 1); size_t got = 0;
				int rr = ini_buf_gen(ini, o, cap, &got);
				if (cap >= need && rr) DIE("ini gen refused cap %zu need %zu rc %d", cap, need, rr);
				if (rr == 0 && got > cap) DIE("ini gen got > cap");
				if (rr == 0 && cap == need + 1 && got != need) DIE("ini gen size %zu != calc %zu", got, need);
				free(o);
			}
		}
		if (round == 0) {
			if (ops & 1) ini_val_set(ini, (const uint8_t*)names[k1], strlen(names[k1]), (const uint8_t*)names[k2], strlen(names[k2]), (const uint8_t*)"value", 5);
			if (ops & 2) ini_val_set(ini, (const uint8_t*)names[k2], strlen(names[k2]), (const uint8_t*)names[k1], strlen(names[k1]), NULL, 0);
			if (ops & 4) ini_val_set_int(ini, (const uint8_t*)names[k1], strlen(names[k1]), (const uint8_t*)names[(k2 + 1) % 8], strlen(names[(k2 + 1) % 8]), -1 - (ssize_t)(((size_t)-1) >> 1));
			if (ops & 8) ini_val_set_uint(ini, (const uint8_t*)names[k1], strlen(names[k1]), (const uint8_t*)names[k2], strlen(names[k2]), (size_t)-1);
			if (ops & 16) ini_val_set(ini, (const uint8_t*)names[k1], strlen(names[k1]), (const uint8_t*)names[k2], strlen(names[k2]), (const uint8_t*)"a much longer value than before, to force the realloc path 0123456789", 70);
			if (ops & 32) ini_val_set(ini, (const uint8_t*)names[k1], strlen(names[k1]), (const uint8_t*)names[k2], strlen(names[k2]), (const uint8_t*)"v", 1);
		}
	}
	ini_destroy(ini);
}

int LLVMFuzzerTestOneInput(const uint8_t *d, size_t n) {
	if (n < 1) return 0;
	if (d[0] & 1) fz_bt(d + 1, n - 1); else fz_ini(d + 1, n - 1);
	return 0;
}
