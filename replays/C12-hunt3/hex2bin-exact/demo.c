/* cvt_hex2bin() skips every non-hex character (so "00:1b:21:3c:9d:f8" is a
 * legal input that produces 6 bytes), but it sizes the output from the raw
 * input length: bin_size < hex_size / 2 -> EOVERFLOW.  An exactly sized
 * output buffer is refused, and the size needed is never reported. */
#include <sys/param.h>
#include <sys/types.h>
#include <inttypes.h>
#include <string.h>
#include <stdio.h>
#include <stdlib.h>
#include <errno.h>
#include "utils/buf_str.h"

static int
try(const char *txt, size_t need) {
	int fail = 0, rc;
	size_t n = strlen(txt), got, cap;
	uint8_t *in = malloc(n), *out;

	memcpy(in, txt, n); /* flush against the redzone, no NUL */
	/* Reference run with a big buffer: how many bytes are produced? */
	out = malloc(64);
	got = 12345;
	rc = cvt_hex2bin(in, n, 0, out, 64, &got);
	printf("\"%s\": big buffer rc=%d produced=%zu (expected %zu)\n", txt, rc, got, need);
	if (0 != rc || got != need)
		fail = 1;
	free(out);
	/* All capacities from 1 to need + 1. */
	for (cap = 1; cap <= need + 1; cap ++) {
		out = malloc(cap);
		got = 12345;
		rc = cvt_hex2bin(in, n, 0, out, cap, &got);
		printf("  capacity %zu: rc=%d (%s) size_ret=%zu\n", cap, rc,
		    (0 == rc ? "ok" : strerror(rc)), got);
		if (cap >= need && 0 != rc) {
			printf("  FAIL: a buffer of %zu bytes is enough for %zu bytes of output, refused\n", cap, need);
			fail = 1;
		}
		if (cap < need && 0 != rc && got != need) {
			printf("  FAIL: refused without reporting the required size %zu\n", need);
			fail = 1;
		}
		free(out);
	}
	free(in);
	return (fail);
}

int
main(void) {
	int fail = 0;

	fail |= try("00:1b:21:3c:9d:f8", 6);	/* MAC address: 17 chars -> 6 bytes */
	fail |= try("de ad be ef", 4);		/* 11 chars -> 4 bytes */
	fail |= try("0x7f", 1);			/* 4 chars -> 1 byte ('x' skipped) */
	printf(fail ? "FAIL\n" : "PASS\n");
	return (fail);
}
