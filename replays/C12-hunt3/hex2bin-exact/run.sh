#!/bin/sh
# usage: run.sh <tree>
T=${1:-/tmp/hunt/C12}
D=$(dirname "$0")
O=$(mktemp -d)
clang -g -O1 -fsanitize=address,undefined -fno-sanitize-recover=undefined \
  -DHAVE_ACCEPT4 -DHAVE_EXPLICIT_BZERO -DHAVE_MEMMEM -DHAVE_MEMRCHR -DHAVE_PIPE2 \
  -DHAVE_POSIX_SPAWN_FILE_ACTIONS_ADDCLOSEFROM_NP -DHAVE_PTHREAD_SETNAME_NP \
  -DHAVE_REALLOCARRAY -DHAVE_SOCK_CLOEXEC -DHAVE_SOCK_NONBLOCK -DHAVE_STRNCASECMP \
  -DLINUX -D_GNU_SOURCE -D__USE_GNU=1 -I"$T/include" \
  "$D/demo.c" "$T/src/utils/buf_str.c" -o "$O/demo" || exit 2
"$O/demo"; rc=$?
rm -rf "$O"
exit $rc
