#!/bin/sh
# usage: run.sh <tree>
T=${1:-/tmp/hunt/C12}
D=$(dirname "$0")
O=$(mktemp -d)
clang -g -O1 -fsanitize=address,undefined -fno-sanitize-recover=undefined \
  -DHAVE_ACCEPT4 -DHAVE_EXPLICIT_BZERO -DHAVE_MEMMEM -DHAVE_MEMRCHR -DHAVE_PIPE2 \
  -DHAVE_POSIX_SPAWN_FILE_ACTIONS_ADDCLOSEFROM_NP -DHAVE_PTHREAD_SETNAME_NP \
  -DHAVE_REALLOCARRAY -DHAVE_SOCK_CLOEXEC -DHAVE_SOCK_NONBLOCK -DHAVE_STRNCASECMP \
  -DLINUX -D_GNU_SOURCE -D__USE_GNU=1 -I"$T/include" \
  "$D/demo.c" -o "$O/demo" || exit 2
"$O/demo" 2>&1; rc=$?
rm -rf "$O"
[ $rc -ne 0 ] && echo "FAIL (exit $rc)"
exit $rc
