/* mem_replace_arr(): "delete this pattern" given as the empty replacement
 * (NULL, 0) reaches memcpy(dst_cur, NULL, 0) - undefined behaviour (memcpy
 * arguments are declared nonnull; the compiler may assume dst_repl[i] != NULL
 * afterwards).  The search side explicitly tolerates NULL items (mem_find
 * returns NULL for NULL == what_find), the replace side does not. */
#include <sys/param.h>
#include <sys/types.h>
#include <inttypes.h>
#include <string.h>
#include <stdio.h>
#include <stdlib.h>
#include <errno.h>
#include "utils/mem_utils.h"

int
main(void) {
	const char *text = "a--b--c";
	const void *from[1] = { "--" };
	const size_t from_cnt[1] = { 2 };
	const void *to[1] = { NULL };	/* empty replacement */
	const size_t to_cnt[1] = { 0 };
	uint8_t *src = malloc(7), *dst = malloc(3);
	size_t got = 0, cnt = 0;
	int rc;

	memcpy(src, text, 7);
	rc = mem_replace_arr(src, 7, 1, NULL, from, from_cnt, to, to_cnt, dst, 3, &got, &cnt);
	printf("rc=%d size=%zu replaced=%zu result=%.*s\n", rc, got, cnt, (int)got, dst);
	return ((0 == rc && 3 == got && 0 == memcmp(dst, "abc", 3)) ? 0 : 1);
}
