#!/bin/sh
# usage: run.sh <tree>
T=${1:-/tmp/hunt/C04}
D=$(dirname "$0")
GCC=$(command -v gcc-12 || command -v gcc)
rc=0
for flags in "-O2" "-O3" "-O2 -msha" "-O2 -mssse3" "-O1"; do
	if $GCC $flags -w -I"$T/include" "$D/demo.c" -o /tmp/c04_sha1_demo.$$ 2>/tmp/c04_sha1_err.$$; then
		/tmp/c04_sha1_demo.$$ || rc=1
	else
		echo "FAIL: $GCC $flags: sha1.h does not compile: $(grep -m1 error /tmp/c04_sha1_err.$$)"
		rc=1
	fi
done
# control: the same source builds with SSE4.1 enabled
$GCC -O2 -msse4.1 -w -I"$T/include" "$D/demo.c" -o /tmp/c04_sha1_demo.$$ && /tmp/c04_sha1_demo.$$
rm -f /tmp/c04_sha1_demo.$$ /tmp/c04_sha1_err.$$
exit $rc
