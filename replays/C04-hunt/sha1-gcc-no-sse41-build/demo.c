/* sha1.h cannot be compiled by gcc -O1..-O3/-Os unless SSE4.1 is enabled:
 * sha1_transform_sse() is compiled for every __SSE2__ target (= every x86-64
 * build) but extracts the lanes with _mm_extract_epi32(), an SSE4.1 intrinsic. */
#include <sys/param.h>
#include <sys/types.h>
#include <inttypes.h>
#include <string.h>
#include <stdio.h>
#include <errno.h>
#include "crypto/hash/sha1.h"

int
main(void) {
	char str[SHA1_HASH_STR_SIZE + 1];

	sha1_get_digest_str("abc", 3, str);
	if (0 != strcmp(str, "a9993e364706816aba3e25717850c26c9cd0d89d")) {
		printf("FAIL: wrong digest %s\n", str);
		return (1);
	}
	printf("ok %s\n", str);
	return (0);
}
