#include <sys/param.h>
#include <sys/types.h>
#include <inttypes.h>
#include <string.h>
#include <stdio.h>
#include <stdlib.h>
#include <errno.h>
#include <gcrypt.h>
#ifdef HUNT_NOSIMD
#undef __SSE2__
#endif
#include "crypto/hash/md5.h"
#include "crypto/hash/sha1.h"
#include "crypto/hash/sha2.h"
#include "crypto/hash/gost3411-2012.h"

static int fails = 0;
#define FAIL(...) do { if (fails < 40) { printf("FAIL: " __VA_ARGS__); printf("\n"); } fails++; } while (0)

enum { A_MD5, A_SHA1, A_224, A_256, A_384, A_512, A_G256, A_G512, A_CNT };
static const char *names[] = {"md5","sha1","sha224","sha256","sha384","sha512","gost256","gost512"};
static const int galgo[] = {GCRY_MD_MD5, GCRY_MD_SHA1, GCRY_MD_SHA224, GCRY_MD_SHA256, GCRY_MD_SHA384, GCRY_MD_SHA512, GCRY_MD_STRIBOG256, GCRY_MD_STRIBOG512};
static const size_t dsz[] = {16,20,28,32,48,64,32,64};
static const size_t bsz[] = {64,64,64,64,128,128,64,64};
static const size_t bits[] = {0,0,224,256,384,512,256,512};

typedef union { md5_ctx_t m; sha1_ctx_t s1; sha2_ctx_t s2; gost3411_2012_ctx_t g; } __attribute__((aligned(64))) uctx_t;

static void h_init(int a, uctx_t *c) {
	memset(c, 0xA5, sizeof(*c));
	switch (a) {
	case A_MD5: md5_init(&c->m); break;
	case A_SHA1: sha1_init(&c->s1); break;
	case A_224: case A_256: case A_384: case A_512: sha2_init(bits[a], &c->s2); break;
	default: gost3411_2012_init(bits[a], &c->g); break;
	}
}
static void h_upd(int a, uctx_t *c, const uint8_t *d, size_t n) {
	switch (a) {
	case A_MD5: md5_update(&c->m, d, n); break;
	case A_SHA1: sha1_update(&c->s1, d, n); break;
	case A_224: case A_256: case A_384: case A_512: sha2_update(&c->s2, d, n); break;
	default: gost3411_2012_update(&c->g, d, n); break;
	}
}
static size_t ctxsz(int a) {
	switch (a) {
	case A_MD5: return sizeof(md5_ctx_t);
	case A_SHA1: return sizeof(sha1_ctx_t);
	case A_224: case A_256: case A_384: case A_512: return sizeof(sha2_ctx_t);
	default: return sizeof(gost3411_2012_ctx_t);
	}
}
static void h_fin(int a, uctx_t *c, uint8_t *out) {
	size_t i, n = ctxsz(a);
	switch (a) {
	case A_MD5: md5_final(&c->m, out); break;
	case A_SHA1: sha1_final(&c->s1, out); break;
	case A_224: case A_256: case A_384: case A_512: sha2_final(&c->s2, out); break;
	default: gost3411_2012_final(&c->g, out); break;
	}
	for (i = 0; i < n; i++) if (((uint8_t*)c)[i]) { FAIL("%s ctx not zero at %zu after final", names[a], i); break; }
}
static void h_one(int a, const uint8_t *d, size_t n, uint8_t *out) {
	size_t ds = 0;
	switch (a) {
	case A_MD5: md5_get_digest(d, n, out); break;
	case A_SHA1: sha1_get_digest(d, n, out); break;
	case A_224: case A_256: case A_384: case A_512: sha2_get_digest(bits[a], d, n, out, &ds); if (ds != dsz[a]) FAIL("dsz"); break;
	default: gost3411_2012_get_digest(bits[a], d, n, out, &ds); if (ds != dsz[a]) FAIL("dsz"); break;
	}
}
static void h_str(int a, const uint8_t *d, size_t n, char *out) {
	size_t ds = 0;
	switch (a) {
	case A_MD5: md5_get_digest_str((const char*)d, n, out); break;
	case A_SHA1: sha1_get_digest_str((const char*)d, n, out); break;
	case A_224: case A_256: case A_384: case A_512: sha2_get_digest_str(bits[a], (const char*)d, n, out, &ds); if (ds != 2*dsz[a]) FAIL("dssz"); break;
	default: gost3411_2012_get_digest_str(bits[a], (const char*)d, n, out, &ds); if (ds != 2*dsz[a]) FAIL("dssz"); break;
	}
}
static void ref(int a, const uint8_t *d, size_t n, uint8_t *out) {
	gcry_md_hash_buffer(galgo[a], out, d, n);
}
static void hex(const uint8_t *b, size_t n, char *o) { size_t i; for (i=0;i<n;i++) sprintf(o+2*i, "%02x", b[i]); }

static uint64_t rs = 88172645463325252ull;
static uint32_t rnd(void) { rs ^= rs << 13; rs ^= rs >> 7; rs ^= rs << 17; return (uint32_t)(rs >> 16); }

#define BIG (1<<20)
int main(int argc, char **argv) {
	int a, only = -1;
	size_t len, i, j, al;
	uint8_t *raw = aligned_alloc(64, BIG + 256), *msg;
	uint8_t *raw2 = aligned_alloc(64, BIG + 256);
	uint8_t want[64], got[64];
	char s1[140], s2[140];
	uctx_t c;
	if (argc > 1) only = atoi(argv[1]);
	if (!gcry_check_version(NULL)) return 2;
	gcry_control(GCRYCTL_DISABLE_SECMEM, 0);
	gcry_control(GCRYCTL_INITIALIZATION_FINISHED, 0);
	for (i = 0; i < BIG + 256; i++) raw[i] = (uint8_t)rnd();
	msg = raw;
	for (a = 0; a < A_CNT; a++) {
		if (only >= 0 && a != only) continue;
		size_t B = bsz[a], D = dsz[a];
		size_t maxlen = 4 * B + 3;
		/* 1: every length, one-shot, str, streaming single update, every 2-way split */
		for (len = 0; len <= maxlen; len++) {
			for (i = 0; i < len; i++) msg[i] = (uint8_t)rnd();
			ref(a, msg, len, want);
			h_one(a, msg, len, got);
			if (memcmp(want, got, D)) { hex(want,D,s1); hex(got,D,s2); FAIL("%s one-shot len %zu want %s got %s", names[a], len, s1, s2); }
			h_str(a, msg, len, s2); hex(want, D, s1);
			if (strcmp(s1, s2)) FAIL("%s str len %zu want %s got %s", names[a], len, s1, s2);
			h_init(a, &c); h_upd(a, &c, msg, len); h_fin(a, &c, got);
			if (memcmp(want, got, D)) FAIL("%s stream len %zu", names[a], len);
			/* with empty updates, NULL */
			h_init(a, &c); h_upd(a, &c, NULL, 0); h_upd(a, &c, msg, len); h_upd(a, &c, msg, 0); h_fin(a, &c, got);
			if (memcmp(want, got, D)) FAIL("%s stream+empty len %zu", names[a], len);
			for (i = 0; i <= len; i++) {
				h_init(a, &c); h_upd(a, &c, msg, i); h_upd(a, &c, msg + i, 0); h_upd(a, &c, msg + i, len - i); h_fin(a, &c, got);
				if (memcmp(want, got, D)) FAIL("%s split %zu+%zu", names[a], i, len - i);
			}
			/* all alignments */
			for (al = 0; al < 64; al++) {
				memcpy(raw2 + al, msg, len);
				h_one(a, raw2 + al, len, got);
				if (memcmp(want, got, D)) FAIL("%s align %zu len %zu", names[a], al, len);
				/* split at misaligned with prefix */
				if (len > 3) {
					h_init(a, &c); h_upd(a, &c, raw2 + al, 3); h_upd(a, &c, raw2 + al + 3, len - 3); h_fin(a, &c, got);
					if (memcmp(want, got, D)) FAIL("%s align %zu len %zu split3", names[a], al, len);
				}
			}
		}
		/* 2: exhaustive 3-way splits for len up to 2B+2 */
		for (len = 0; len <= 2 * B + 2; len += (a >= A_G256 ? 7 : 1)) {
			ref(a, msg, len, want);
			for (i = 0; i <= len; i++) for (j = i; j <= len; j++) {
				h_init(a, &c); h_upd(a, &c, msg, i); h_upd(a, &c, msg + i, j - i); h_upd(a, &c, msg + j, len - j); h_fin(a, &c, got);
				if (memcmp(want, got, D)) FAIL("%s 3split len %zu %zu %zu", names[a], len, i, j);
			}
		}
		/* 3: long messages, random chunking and alignment */
		for (i = 0; i < BIG + 256; i++) raw[i] = (uint8_t)rnd();
		for (j = 0; j < 30; j++) {
			size_t off = rnd() % 64, L = (j < 3) ? BIG : (rnd() % BIG), pos = 0;
			int mode = j % 3;
			ref(a, raw + off, L, want);
			h_init(a, &c);
			while (pos < L) {
				size_t ch;
				switch (mode) { case 0: ch = rnd() % 300; break; case 1: ch = rnd() % 5000; break; default: ch = rnd() % 70000; }
				if (ch > L - pos) ch = L - pos;
				h_upd(a, &c, raw + off + pos, ch); pos += ch;
			}
			h_fin(a, &c, got);
			if (memcmp(want, got, D)) FAIL("%s long L %zu off %zu mode %d", names[a], L, off, mode);
			h_one(a, raw + off, L, got);
			if (memcmp(want, got, D)) FAIL("%s long one-shot L %zu off %zu", names[a], L, off);
		}
		printf("%s done, fails so far %d\n", names[a], fails);
	}
	printf("%s\n", fails ? "FAILED" : "ALL OK");
	return fails ? 1 : 0;
}
