#include <sys/param.h>
#include <sys/types.h>
#include <sys/mman.h>
#include <inttypes.h>
#include <string.h>
#include <stdio.h>
#include <stdlib.h>
#include <errno.h>
#include <gcrypt.h>
#ifdef HUNT_NOSIMD
#undef __SSE2__
#endif
#include "crypto/hash/md5.h"
#include "crypto/hash/sha1.h"
#include "crypto/hash/sha2.h"
#include "crypto/hash/gost3411-2012.h"
static const int galgo[] = {GCRY_MD_MD5, GCRY_MD_SHA1, GCRY_MD_SHA224, GCRY_MD_SHA256, GCRY_MD_SHA384, GCRY_MD_SHA512, GCRY_MD_STRIBOG256, GCRY_MD_STRIBOG512};
static const size_t dsz[] = {16,20,28,32,48,64,32,64};
static void one(int a, const uint8_t *d, size_t n, uint8_t *out) {
	size_t ds;
	switch (a) {
	case 0: md5_get_digest(d, n, out); break;
	case 1: sha1_get_digest(d, n, out); break;
	case 2: sha2_get_digest(224, d, n, out, &ds); break;
	case 3: sha2_get_digest(256, d, n, out, &ds); break;
	case 4: sha2_get_digest(384, d, n, out, &ds); break;
	case 5: sha2_get_digest(512, d, n, out, &ds); break;
	case 6: gost3411_2012_get_digest(256, d, n, out, &ds); break;
	case 7: gost3411_2012_get_digest(512, d, n, out, &ds); break;
	}
}
int main(void) {
	size_t PG = 4096, len, i; int a, rc = 0;
	uint8_t *m = mmap(NULL, 4 * PG, PROT_READ | PROT_WRITE, MAP_PRIVATE | MAP_ANONYMOUS, -1, 0);
	uint8_t w[64], g[64];
	gcry_check_version(NULL);
	mprotect(m, PG, PROT_NONE); mprotect(m + 3 * PG, PG, PROT_NONE);
	for (i = PG; i < 3 * PG; i++) m[i] = (uint8_t)(i * 2654435761u >> 13);
	for (a = 0; a < 8; a++) for (len = 0; len <= 1100; len++) {
		const uint8_t *e = m + 3 * PG - len; /* ends at guard */
		const uint8_t *s = m + PG;           /* starts after guard */
		gcry_md_hash_buffer(galgo[a], w, e, len); one(a, e, len, g);
		if (memcmp(w, g, dsz[a])) { printf("FAIL end a=%d len=%zu\n", a, len); rc = 1; }
		gcry_md_hash_buffer(galgo[a], w, s, len); one(a, s, len, g);
		if (memcmp(w, g, dsz[a])) { printf("FAIL start a=%d len=%zu\n", a, len); rc = 1; }
	}
	puts(rc ? "FAILED" : "guard ok");
	return rc;
}
