#include <sys/param.h>
#include <sys/types.h>
#include <inttypes.h>
#include <string.h>
#include <stdio.h>
#include <errno.h>
#ifdef HUNT_NOSIMD
#undef __SSE2__
#endif
#define MD5_SELF_TEST 1
#define SHA1_SELF_TEST 1
#define SHA2_SELF_TEST 1
#define GOST3411_2012_SELF_TEST 1
#include "crypto/hash/md5.h"
#include "crypto/hash/sha1.h"
#include "crypto/hash/sha2.h"
#include "crypto/hash/gost3411-2012.h"
int main(void){ int a=md5_self_test(), b=sha1_self_test(), c=sha2_self_test(), d=gost3411_2012_self_test(); printf("%d %d %d %d\n", a,b,c,d); return a|b|c|d; }
