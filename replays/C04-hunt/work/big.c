#include <sys/param.h>
#include <sys/types.h>
#include <sys/mman.h>
#include <inttypes.h>
#include <string.h>
#include <stdio.h>
#include <stdlib.h>
#include <errno.h>
#include <gcrypt.h>
#ifdef HUNT_NOSIMD
#undef __SSE2__
#endif
#include "crypto/hash/md5.h"
#include "crypto/hash/sha1.h"
#include "crypto/hash/sha2.h"
#include "crypto/hash/gost3411-2012.h"
int main(int argc, char **argv) {
	size_t L = (size_t)5 * 1024 * 1024 * 1024 + 77, ds; int rc = 0;
	uint8_t *p = mmap(NULL, L + 4096, PROT_READ, MAP_PRIVATE | MAP_ANONYMOUS | MAP_NORESERVE, -1, 0);
	uint8_t w[64], g[64];
	int which = atoi(argv[1]);
	if (p == MAP_FAILED) { perror("mmap"); return 2; }
	p += 3;
	gcry_check_version(NULL);
	switch (which) {
	case 0: gcry_md_hash_buffer(GCRY_MD_MD5, w, p, L); md5_get_digest(p, L, g); if (memcmp(w,g,16)) { puts("FAIL md5"); rc=1; } break;
	case 1: gcry_md_hash_buffer(GCRY_MD_SHA1, w, p, L); sha1_get_digest(p, L, g); if (memcmp(w,g,20)) { puts("FAIL sha1"); rc=1; } break;
	case 2: gcry_md_hash_buffer(GCRY_MD_SHA256, w, p, L); sha2_get_digest(256, p, L, g, &ds); if (memcmp(w,g,32)) { puts("FAIL sha256"); rc=1; } break;
	case 3: gcry_md_hash_buffer(GCRY_MD_SHA512, w, p, L); sha2_get_digest(512, p, L, g, &ds); if (memcmp(w,g,64)) { puts("FAIL sha512"); rc=1; } break;
	case 4: gcry_md_hash_buffer(GCRY_MD_STRIBOG512, w, p, L); gost3411_2012_get_digest(512, p, L, g, &ds); if (memcmp(w,g,64)) { puts("FAIL gost512"); rc=1; } break;
	case 5: { /* split: 2^32+5 then rest */
		gost3411_2012_ctx_t c; sha2_ctx_t s;
		gcry_md_hash_buffer(GCRY_MD_STRIBOG256, w, p, L); gost3411_2012_init(256, &c); gost3411_2012_update(&c, p, 5); gost3411_2012_update(&c, p+5, L-5); gost3411_2012_final(&c, g); if (memcmp(w,g,32)) { puts("FAIL gost256 split"); rc=1; }
		gcry_md_hash_buffer(GCRY_MD_SHA384, w, p, L); sha2_init(384, &s); sha2_update(&s, p, 5); sha2_update(&s, p+5, L-5); sha2_final(&s, g); if (memcmp(w,g,48)) { puts("FAIL sha384 split"); rc=1; }
		} break;
	}
	printf("case %d rc %d\n", which, rc);
	return rc;
}
