#include <sys/param.h>
#include <sys/types.h>
#include <inttypes.h>
#include <string.h>
#include <stdio.h>
#include <stdlib.h>
#include <errno.h>
#include <gcrypt.h>
#ifdef HUNT_NOSIMD
#undef __SSE2__
#endif
#include "crypto/hash/md5.h"
#include "crypto/hash/sha1.h"
#include "crypto/hash/sha2.h"
#include "crypto/hash/gost3411-2012.h"
static const int galgo[] = {GCRY_MD_MD5, GCRY_MD_SHA1, GCRY_MD_SHA224, GCRY_MD_SHA256, GCRY_MD_SHA384, GCRY_MD_SHA512, GCRY_MD_STRIBOG256, GCRY_MD_STRIBOG512};
static const size_t dsz[] = {16,20,28,32,48,64,32,64};
int main(void) {
	uint8_t key[400], msg[600], w[64], g[64]; size_t kl, ml, ds; int a, rc = 0, i;
	gcry_check_version(NULL);
	for (i = 0; i < 400; i++) key[i] = (uint8_t)(i * 37 + 11);
	for (i = 0; i < 600; i++) msg[i] = (uint8_t)(i * 101 + 7);
	for (a = 0; a < 8; a++) for (kl = 0; kl < 300; kl++) for (ml = 0; ml < 600; ml += 37) {
		gcry_md_hd_t h; gcry_md_open(&h, galgo[a], GCRY_MD_FLAG_HMAC); gcry_md_setkey(h, key, kl); gcry_md_write(h, msg, ml); memcpy(w, gcry_md_read(h, 0), dsz[a]); gcry_md_close(h);
		switch (a) {
		case 0: md5_hmac_get_digest(key, kl, msg, ml, g); break;
		case 1: sha1_hmac_get_digest(key, kl, msg, ml, g); break;
		case 2: sha2_hmac_get_digest(224, key, kl, msg, ml, g, &ds); break;
		case 3: sha2_hmac_get_digest(256, key, kl, msg, ml, g, &ds); break;
		case 4: sha2_hmac_get_digest(384, key, kl, msg, ml, g, &ds); break;
		case 5: sha2_hmac_get_digest(512, key, kl, msg, ml, g, &ds); break;
		case 6: gost3411_2012_hmac_get_digest(256, key, kl, msg, ml, g, &ds); break;
		case 7: gost3411_2012_hmac_get_digest(512, key, kl, msg, ml, g, &ds); break;
		}
		if (memcmp(w, g, dsz[a])) { if (rc < 20) printf("FAIL hmac a=%d kl=%zu ml=%zu\n", a, kl, ml); rc++; }
	}
	printf("hmac fails %d\n", rc); return rc != 0;
}
