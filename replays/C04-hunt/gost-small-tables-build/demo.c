/* GOST3411_2012_USE_SMALL_TABLES removes gost3411_2012_Ax[][], but the SSE
 * (and AVX) transforms, compiled for every __SSE2__ target, still use it. */
#include <sys/param.h>
#include <sys/types.h>
#include <inttypes.h>
#include <string.h>
#include <stdio.h>
#include <errno.h>
#include "crypto/hash/gost3411-2012.h"

int
main(void) {
	char str[GOST3411_2012_HASH_STR_MAX_SIZE + 1];
	size_t n;

	gost3411_2012_get_digest_str(256,
	    "012345678901234567890123456789012345678901234567890123456789012", 63,
	    str, &n);
	if (0 != strcmp(str, "9d151eefd8590b89daa6ba6cb74af9275dd051026bb149a452fd84e5e57b5500")) {
		printf("FAIL: wrong digest %s\n", str);
		return (1);
	}
	printf("ok %s\n", str);
	return (0);
}
