#!/bin/sh
# usage: run.sh <tree>
T=${1:-/tmp/hunt/C04}
D=$(dirname "$0")
rc=0
for CC in gcc-12 clang-14; do
	command -v $CC >/dev/null || continue
	for flags in "-O2" "-O2 -mavx2"; do
		if $CC $flags -w -DGOST3411_2012_USE_SMALL_TABLES=1 -I"$T/include" "$D/demo.c" -o /tmp/c04_st_demo.$$ 2>/tmp/c04_st_err.$$; then
			/tmp/c04_st_demo.$$ || rc=1
		else
			echo "FAIL: $CC $flags -DGOST3411_2012_USE_SMALL_TABLES=1 does not compile: $(grep -m1 error /tmp/c04_st_err.$$)"
			rc=1
		fi
	done
done
rm -f /tmp/c04_st_demo.$$ /tmp/c04_st_err.$$
exit $rc
