/* SequenceOfLabelsGetSize(): when the first byte of a compression pointer
 * (11xxxxxx) is the last byte of buf, the function reports success and a
 * size of buf_size + 1: the second pointer byte is counted without being
 * there.  The resolver's SOA decoder (src/proto/dns_resolv.c, NXDOMAIN branch)
 * subtracts that size from a uint16_t remaining length, which wraps to 65535,
 * and then walks labels far outside the received datagram. */
#include <sys/param.h>
#include <sys/types.h>
#include <inttypes.h>
#include <string.h>
#include <stdio.h>
#include <stdlib.h>
#include <errno.h>
#include "proto/dns.h"

int
main(void) {
	int fails = 0, rc;
	size_t tm = 0;

	/* Part 1: 1 byte buffer. */
	uint8_t *b = malloc(1);
	b[0] = 0xC0;
	rc = SequenceOfLabelsGetSize(b, 1, &tm);
	printf("part1: rc=%d size=%zu (buf_size=1)\n", rc, tm);
	if (0 == rc && tm > 1) {
		printf("FAIL: returned size is larger than the buffer\n");
		fails ++;
	}
	free(b);
	/* same at the end of a longer name */
	static const uint8_t nm[] = { 3, 'w', 'w', 'w', 0xC0 };
	rc = SequenceOfLabelsGetSize(nm, sizeof(nm), &tm);
	printf("part1b: rc=%d size=%zu (buf_size=%zu)\n", rc, tm, sizeof(nm));
	if (0 == rc && tm > sizeof(nm)) {
		printf("FAIL: returned size is larger than the buffer\n");
		fails ++;
	}
	fflush(stdout);

	/* Part 2 (ASan): NXDOMAIN reply with one SOA record whose RDATA is the
	 * single byte C0, in an exactly sized heap block; then the statements
	 * of dns_resolver_recv_cb() (dns_resolv.c:1019-1040) verbatim. */
	static const uint8_t msg_bytes[] = {
		0x12, 0x34, 0x81, 0x83,	/* id, flags: response, rcode = NXDOMAIN */
		0, 1, 0, 0, 0, 1, 0, 0,	/* qd = 1, an = 0, ns = 1, ar = 0 */
		1, 'a', 0, 0, 1, 0, 1,	/* question: "a" A IN */
		0xC0, 0x0C,		/* RR name -> question name */
		0, 6, 0, 1,		/* SOA IN */
		0, 0, 0, 60,		/* ttl */
		0, 1,			/* rdlength = 1 */
		0xC0			/* rdata: first half of a pointer */
	};
	size_t transfered_size = sizeof(msg_bytes);
	uint8_t *buf = malloc(transfered_size);
	memcpy(buf, msg_bytes, transfered_size);
	dns_hdr_p dns_hdr = (dns_hdr_p)buf;
	size_t qd_off, an_off = 0, ns_off, ar_off, total_rr_count = 0, msg_size = 0;
	size_t Offset, rr_size = 0;
	uint8_t *rr_data;
	uint32_t rr_ttl = 0, tmu32;
	uint16_t rr_type = 0, rr_class = 0, rr_data_size = 0;

	rc = dns_msg_info_get(dns_hdr, transfered_size, &qd_off, &an_off, &ns_off,
	    &ar_off, &total_rr_count, &msg_size);
	printf("part2: dns_msg_info_get=%d msg_size=%zu rr_count=%zu\n", rc, msg_size, total_rr_count);
	fflush(stdout);
	if (0 != rc)
		return (3); /* demo broken */
	Offset = an_off;
	while (0 == dns_msg_rr_get_data(dns_hdr, msg_size, Offset,
	    NULL, 0, &rr_type, &rr_class, &rr_ttl, &rr_data_size,
	    (void**)&rr_data, &rr_size)) {
		Offset += rr_size;
		if (DNS_RR_TYPE_SOA != rr_type)
			continue;
		/* Skeep MName. */
		if (0 != SequenceOfLabelsGetSize(rr_data, rr_data_size, &tm))
			break;
		rr_data += tm;
		rr_data_size -= tm;
		printf("part2: after MName: consumed %zu of 1, remaining rr_data_size=%u\n", tm, rr_data_size);
		fflush(stdout);
		if (rr_data_size > 1) {
			printf("FAIL: remaining RDATA size wrapped\n");
			fails ++;
			fflush(stdout);
		}
		/* Skeep RName. */
		if (0 != SequenceOfLabelsGetSize(rr_data, rr_data_size, &tm)) /* ASan: heap-buffer-overflow */
			break;
		rr_data += tm;
		rr_data_size -= tm;
		if ((sizeof(uint32_t) * 5) > rr_data_size)
			break;
		rr_data += (sizeof(uint32_t) * 4);
		memcpy(&tmu32, rr_data, sizeof(tmu32));
		break;
	}
	free(buf);

	return (fails ? 1 : 0);
}
