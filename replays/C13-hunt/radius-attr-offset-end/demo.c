/* radius_pkt_attr_get_from_offset() accepts offset <= pkt->len and then
 * evaluates RADIUS_PKT_ATTR_NEXT(attr), i.e. reads attr->len at
 * pkt[offset + 1], without checking that the 2 byte attribute header is
 * inside the packet.  offset == pkt->len is what every "find next" iteration
 * produces after the last attribute (radius_pkt_attr_get_data_to_buf() does
 * exactly that), so a checked, well formed packet is read 2 bytes past its end. */
#include <sys/param.h>
#include <sys/types.h>
#include <inttypes.h>
#include <string.h>
#include <stdio.h>
#include <stdlib.h>
#include <errno.h>
#include "proto/radius.h"

static const uint8_t pkt_bytes[] = {
	2, 0x01, 0x00, 32,		/* Access-Accept, id 1, len 32 */
	0,0,0,0,0,0,0,0,0,0,0,0,0,0,0,0, /* authenticator */
	18, 6, 'a', 'b', 'c', 'd',	/* Reply-Message "abcd" */
	18, 6, 'e', 'f', 'g', 'h',	/* Reply-Message "efgh" (last attribute) */
};

int
main(void) {
	int fails = 0, rc1, rc2;
	size_t off;
	uint8_t out[64];
	size_t out_size = 0;

	/* Part 1 (no sanitizer needed): same packet, different memory behind it. */
	uint8_t mem[sizeof(pkt_bytes) + 2];
	memcpy(mem, pkt_bytes, sizeof(pkt_bytes));
	mem[32] = 0x00; mem[33] = 0x00;
	off = 0;
	rc1 = radius_pkt_attr_find((rad_pkt_hdr_p)mem, sizeof(pkt_bytes), 18, &off);
	mem[32] = 0x12; mem[33] = 0x07;
	off = 0;
	rc2 = radius_pkt_attr_find((rad_pkt_hdr_p)mem, sizeof(pkt_bytes), 18, &off);
	printf("part1: find(offset = pkt_len): %d with 00 00 behind the packet, %d with 12 07 behind it (ENOATTR=%d EINVAL=%d)\n",
	    rc1, rc2, ENOATTR, EINVAL);
	if (rc1 != rc2) {
		printf("FAIL: result depends on bytes outside the packet\n");
		fails ++;
	}
	fflush(stdout);

	/* Part 2 (ASan): the packet in an exactly sized heap block, validated,
	 * then all Reply-Message values collected with the library's own helper. */
	uint8_t *pkt = malloc(sizeof(pkt_bytes));
	memcpy(pkt, pkt_bytes, sizeof(pkt_bytes));
	rc1 = radius_pkt_chk((rad_pkt_hdr_p)pkt, sizeof(pkt_bytes));
	printf("part2: radius_pkt_chk = %d\n", rc1);
	fflush(stdout);
	rc1 = radius_pkt_attr_get_data_to_buf((rad_pkt_hdr_p)pkt, 0, 0, 18,
	    out, sizeof(out), &out_size); /* ASan: heap-buffer-overflow READ */
	printf("part2: get_data_to_buf = %d, %zu bytes: %.*s\n", rc1, out_size,
	    (int)out_size, out);
	free(pkt);

	return (fails ? 1 : 0);
}
