/* SequenceOfLabelsToDomainName(): the output-size precondition is
 * name_buf_size >= buf_size - 1, which is enough for a terminated name
 * (the last dot is replaced by the NUL), but for a name WITHOUT the
 * terminating null label every label is copied followed by a '.', i.e.
 * buf_size bytes are written before the missing terminator is noticed:
 * one byte past the caller's buffer. */
#include <sys/param.h>
#include <sys/types.h>
#include <inttypes.h>
#include <string.h>
#include <stdio.h>
#include <stdlib.h>
#include <errno.h>
#include "proto/dns.h"

int
main(void) {
	int fails = 0, rc;
	size_t len = 0;
	static const uint8_t labels[] = { 3, 'a', 'b', 'c' }; /* truncated: no null label */

	/* Part 1 (no sanitizer needed): canary behind a 3 byte name buffer
	 * (3 == buf_size - 1 is accepted by the function). */
	uint8_t mem[8];
	memset(mem, 0xEE, sizeof(mem));
	rc = SequenceOfLabelsToDomainName(labels, sizeof(labels), mem, 3, &len);
	printf("part1: rc=%d, bytes behind the 3 byte buffer: %02x %02x\n", rc, mem[3], mem[4]);
	if (0xEE != mem[3]) {
		printf("FAIL: wrote past name_buf_size\n");
		fails ++;
	}
	fflush(stdout);

	/* Part 2 (ASan). */
	uint8_t *name = malloc(3);
	rc = SequenceOfLabelsToDomainName(labels, sizeof(labels), name, 3, &len); /* heap-buffer-overflow WRITE */
	printf("part2: rc=%d\n", rc);
	free(name);

	return (fails ? 1 : 0);
}
