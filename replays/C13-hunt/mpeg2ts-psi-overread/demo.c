/* mpeg2_ts_pkt_is_valid(): the adaptation field may legally fill the whole
 * packet (af->len == pkt_size - 5 when there is no payload, pkt_size - 6 when
 * there is one); the function accepts that, moves buf_pos to / next to the end
 * of the packet and then, for the PSI PIDs (PAT, CAT, TSDT, SDT, EIT), reads a
 * table header from there. */
#include <sys/param.h>
#include <sys/types.h>
#include <inttypes.h>
#include <string.h>
#include <stdio.h>
#include <stdlib.h>
#include <errno.h>
#include "proto/mpeg2ts.h"

int
main(void) {
	int fails = 0, r1, r2;

	/* Part 1 (no sanitizer needed): adaptation-only PID 0 packet (188
	 * bytes); the byte behind the packet decides whether it is "valid". */
	uint8_t mem[192];
	memset(mem, 0xff, sizeof(mem));
	mem[0] = 0x47;		/* sync */
	mem[1] = 0x00;		/* PID hi = 0 */
	mem[2] = 0x00;		/* PID lo = 0 -> PAT */
	mem[3] = 0x20;		/* afe = 1, cp = 0, cc = 0 */
	mem[4] = 183;		/* adaptation_field_length: fills the packet */
	mem[188] = 0xff;	/* not part of the packet */
	r1 = mpeg2_ts_pkt_is_valid((const mpeg2_ts_hdr_t*)mem, 188);
	mem[188] = 0x00; mem[189] = 0xb0; /* not part of the packet (looks like a PAT header) */
	r2 = mpeg2_ts_pkt_is_valid((const mpeg2_ts_hdr_t*)mem, 188);
	printf("part1: is_valid = %d with ff behind the packet, %d with 00 behind it\n", r1, r2);
	if (r1 != r2) {
		printf("FAIL: verdict depends on a byte outside the 188 byte packet\n");
		fails ++;
	}
	fflush(stdout);

	/* Part 2 (ASan): same packet in an exactly sized heap block. */
	uint8_t *pkt = malloc(188);
	memcpy(pkt, mem, 188);
	r1 = mpeg2_ts_pkt_is_valid((const mpeg2_ts_hdr_t*)pkt, 188); /* heap-buffer-overflow READ */
	printf("part2: is_valid = %d\n", r1);
	/* With payload flag: af->len = 182 puts the table header on the last byte,
	 * table_id 0 there makes the ss/pr bit-fields be read from pkt[188]. */
	pkt[3] = 0x30; pkt[4] = 182; pkt[187] = 0x00;
	r1 = mpeg2_ts_pkt_is_valid((const mpeg2_ts_hdr_t*)pkt, 188);
	printf("part2b: is_valid = %d\n", r1);
	free(pkt);

	return (fails ? 1 : 0);
}
