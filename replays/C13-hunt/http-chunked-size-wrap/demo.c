/* http_data_decode_chunked(): the chunk size taken from the body is added to
 * a pointer ("cur_pos = end_line + 2 + tm") and only then compared with the
 * end of the data; a size close to SIZE_MAX wraps the pointer back into the
 * buffer, so the range check passes. */
#include <sys/param.h>
#include <sys/types.h>
#include <inttypes.h>
#include <string.h>
#include <stdio.h>
#include <stdlib.h>
#include <stddef.h>
#include <errno.h>
#include "proto/http.h"

int
main(void) {
	int fails = 0, rc;
	uint8_t *ret;
	size_t ret_size;

	/* Part 1: one chunk that claims 2^64-2 bytes in a 18 byte body. */
	static const char body1[] = "FFFFFFFFFFFFFFFE\r\n";
	size_t n1 = (sizeof(body1) - 1);
	uint8_t *b1 = malloc(n1);
	memcpy(b1, body1, n1);
	ret = NULL; ret_size = 0;
	rc = http_data_decode_chunked(b1, n1, &ret, &ret_size);
	printf("part1: rc=%d data_size=%zu ret=b1+%td ret_size=%zu\n", rc, n1,
	    (NULL != ret) ? (ret - b1) : (ptrdiff_t)-1, ret_size);
	if (0 == rc && (NULL == ret || ret < b1 || ret > (b1 + n1) ||
	    ret_size > (size_t)((b1 + n1) - ret))) {
		printf("FAIL: success returned with a decoded length outside the body\n");
		fails ++;
	}
	fflush(stdout);
	free(b1);

	/* Part 2: a good first chunk, then a wrapping second chunk:
	 * memmove(dst, src, 0xFFFFFFFFFFFFFFF0). */
	static const char body2[] = "1\r\nA" "FFFFFFFFFFFFFFF0\r\n" "0123456789";
	size_t n2 = (sizeof(body2) - 1);
	uint8_t *b2 = malloc(n2);
	memcpy(b2, body2, n2);
	ret = NULL; ret_size = 0;
	rc = http_data_decode_chunked(b2, n2, &ret, &ret_size); /* ASan: negative-size-param / SEGV */
	printf("part2: rc=%d ret_size=%zu\n", rc, ret_size);
	if (0 == rc && ret_size > n2) {
		printf("FAIL: part2 length outside the body\n");
		fails ++;
	}
	free(b2);

	return (fails ? 1 : 0);
}
