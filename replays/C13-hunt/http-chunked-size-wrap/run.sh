#!/bin/sh
# usage: run.sh <liblcb tree>; exits non-zero (ASan report and/or "FAIL") when the defect is present.
T="${1:-/tmp/hunt/C13}"
D="$(cd "$(dirname "$0")" && pwd)"
O="$(mktemp -d)"
${CC:-clang} -g -O0 -fsanitize=address,undefined -fno-omit-frame-pointer \
  -DHAVE_ACCEPT4 -DHAVE_EXPLICIT_BZERO -DHAVE_MEMMEM -DHAVE_MEMRCHR -DHAVE_PIPE2 \
  -DHAVE_POSIX_SPAWN_FILE_ACTIONS_ADDCLOSEFROM_NP -DHAVE_PTHREAD_SETNAME_NP \
  -DHAVE_REALLOCARRAY -DHAVE_SOCK_CLOEXEC -DHAVE_SOCK_NONBLOCK -DHAVE_STRNCASECMP \
  -DLINUX -D_GNU_SOURCE -D__USE_GNU=1 -I"$T/include" -w -o "$O/demo" "$D/demo.c" "$T/src/proto/http.c" || { rm -rf "$O"; exit 2; }
"$O/demo"; rc=$?
rm -rf "$O"
[ $rc -eq 0 ] && echo PASS || echo "FAIL (exit $rc)"
exit $rc
