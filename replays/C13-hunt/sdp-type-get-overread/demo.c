/* sdp_msg_type_get() dereferences the byte(s) after the last CRLF of the
 * message without checking that they are inside sdp_msg_size. */
#include <sys/param.h>
#include <sys/types.h>
#include <inttypes.h>
#include <string.h>
#include <stdio.h>
#include <stdlib.h>
#include <stddef.h>
#include <errno.h>
#include "proto/sdp.h"

int
main(void) {
	int fails = 0, rc;
	uint8_t *val = NULL;
	size_t val_size = 0;

	/* Part 1 (no sanitizer needed): the received SDP is the first 10 bytes;
	 * whatever follows in memory is not part of the message. */
	static uint8_t mem[] = "v=0\r\ns=x\r\n" "m=not-part-of-message";
	const size_t msg_size = 10;

	rc = sdp_msg_type_get(mem, msg_size, 'm', NULL, &val, &val_size);
	printf("part1: rc=%d val=mem+%td val_size=%zu (msg_size=%zu)\n",
	    rc, (NULL != val) ? (val - mem) : (ptrdiff_t)-1, val_size, msg_size);
	if (0 == rc && (val < mem || val > (mem + msg_size) ||
	    val_size > (size_t)((mem + msg_size) - val))) {
		printf("FAIL: sdp_msg_type_get() returned a value outside the message\n");
		fails ++;
	}
	if (0 != sdp_msg_type_get_count(mem, msg_size, 'm')) {
		printf("FAIL: sdp_msg_type_get_count() counted an 'm=' line that is not in the message\n");
		fails ++;
	}
	fflush(stdout);

	/* Part 2 (ASan): a perfectly well formed announcement, in an exactly
	 * sized heap block, given to the validator. */
	static const char sdp[] =
	    "v=0\r\n"
	    "o=- 1 1 IN IP4 10.0.0.1\r\n"
	    "s=test\r\n"
	    "c=IN IP4 239.0.0.1\r\n"
	    "t=0 0\r\n"
	    "m=video 1234 udp 33\r\n";
	size_t n = (sizeof(sdp) - 1);
	uint8_t *heap = malloc(n);
	memcpy(heap, sdp, n);
	rc = sdp_msg_sec_chk(heap, n); /* ASan: heap-buffer-overflow READ of size 1 */
	printf("part2: sdp_msg_sec_chk=%d\n", rc);
	free(heap);

	return (fails ? 1 : 0);
}
