/* radius_pkt_chk(pkt, pkt_size) reads the 16 bit length field (bytes 2..3)
 * before it has established that pkt_size covers the header: a truncated
 * datagram of 0..3 bytes is read past its end. */
#include <sys/param.h>
#include <sys/types.h>
#include <inttypes.h>
#include <string.h>
#include <stdio.h>
#include <stdlib.h>
#include <errno.h>
#include "proto/radius.h"

int
main(void) {
	int rc;

	/* Exactly sized heap blocks of 3, 2, 1 bytes (truncated datagrams). */
	for (size_t n = 3; n >= 1; n --) {
		uint8_t *p = malloc(n);
		memset(p, 2, n);
		rc = radius_pkt_chk((rad_pkt_hdr_p)p, n); /* ASan: heap-buffer-overflow READ of size 2 */
		printf("n=%zu rc=%d (expected EBADMSG without touching byte %zu)\n", n, rc, n);
		free(p);
	}
	return (0);
}
