/* http_url_decode(): a '%' in one of the last two bytes of the URL makes the
 * decoder read the two "hex digits" from beyond url + url_size. */
#include <sys/param.h>
#include <sys/types.h>
#include <inttypes.h>
#include <string.h>
#include <stdio.h>
#include <stdlib.h>
#include <errno.h>
#include "proto/http.h"

int
main(void) {
	int fails = 0;
	uint8_t out[64];
	size_t n;

	/* Part 1 (no sanitizer needed): the URL is "a%" (2 bytes), the bytes
	 * "41" after it are not part of it; a correct decoder can not
	 * produce 'A' (0x41) from this input. */
	static uint8_t mem[] = "a%" "41";
	memset(out, 0xee, sizeof(out));
	n = http_url_decode(mem, 2, out, sizeof(out));
	printf("part1: n=%zu out=%02x %02x\n", n, out[0], out[1]);
	if (2 <= n && 0x41 == out[1]) {
		printf("FAIL: decoded byte 0x41 was taken from outside the 2 byte URL\n");
		fails ++;
	}
	fflush(stdout);

	/* Part 2 (ASan): exactly sized heap block ending in '%'. */
	uint8_t *url = malloc(4);
	memcpy(url, "/ab%", 4);
	n = http_url_decode(url, 4, out, sizeof(out)); /* heap-buffer-overflow READ */
	printf("part2: n=%zu\n", n);
	free(url);

	return (fails ? 1 : 0);
}
