/* A record that was live on a pool that is destroyed (tp_destroy does not
 * touch user records) is added on a thread of a new pool: tpt_ev_add now
 * dereferences the stale tp_udata->tpt (freed memory) for the "move". */
#include <sys/param.h>
#include <sys/types.h>
#include <sys/socket.h>
#include <inttypes.h>
#include <stdlib.h>
#include <stdio.h>
#include <unistd.h>
#include <string.h>
#include <errno.h>
#include "al/os.h"
#include "threadpool/threadpool.h"

static volatile int cnt;
static void cb(tp_event_p ev, tp_udata_p u) { (void)ev; char c; cnt ++; if (read((int)u->ident, &c, 1)) {} }

int main(void) {
	tp_settings_t s; tp_p tp; int sv[2], e;
	tp_udata_t A;
	void *pad;

	socketpair(AF_UNIX, SOCK_STREAM, 0, sv);
	memset(&A, 0, sizeof(A));
	A.cb_func = cb; A.ident = (uintptr_t)sv[0];

	tp_settings_def(&s);
	s.threads_max = 3; s.flags = 0;
	if (0 != tp_create(&s, &tp)) return (2);
	if (0 != tp_threads_create(tp, 0)) return (2);
	usleep(100000);
	e = tpt_ev_add_args2(tp_thread_get(tp, 2), TP_EV_READ, 0, &A);
	printf("pool1 add: %d\n", e);
	tp_shutdown(tp);
	tp_shutdown_wait(tp);
	tp_destroy(tp);

	pad = malloc(100);
	s.threads_max = 1;
	if (0 != tp_create(&s, &tp)) return (2);
	if (0 != tp_threads_create(tp, 0)) return (2);
	usleep(100000);
	e = tpt_ev_add_args2(tp_thread_get(tp, 0), TP_EV_READ, 0, &A);
	printf("pool2 add: %d\n", e);
	free(pad);
	if (EBUSY == e) { printf("refused without touching the stale thread (behaviour before 09595ea)\n"); return (0); }
	if (write(sv[1], "x", 1)) {}
	usleep(200000);
	printf("cnt=%d\n", cnt);
	if (0 != e || 0 == cnt) { printf("FAIL\n"); return (1); }
	printf("OK\n");
	return (0);
}
