#!/bin/sh
T=${1:-/tmp/hunt/C06}
D=$(dirname "$0")
cc -fsanitize=address -fno-omit-frame-pointer -g -O0 -DHAVE_ACCEPT4 -DHAVE_EXPLICIT_BZERO -DHAVE_MEMMEM -DHAVE_MEMRCHR -DHAVE_PIPE2 -DHAVE_POSIX_SPAWN_FILE_ACTIONS_ADDCLOSEFROM_NP -DHAVE_PTHREAD_SETNAME_NP -DHAVE_REALLOCARRAY -DHAVE_SOCK_CLOEXEC -DHAVE_SOCK_NONBLOCK -DHAVE_STRNCASECMP -DLINUX -D_GNU_SOURCE -D__USE_GNU=1 -I$T/include $SAN -o /tmp/hunt_C06_$$.bin $D/demo.c $T/src/threadpool/threadpool.c $T/src/threadpool/threadpool_msg_sys.c -lpthread 2>&1 | grep -v warning | head -20
ASAN_OPTIONS=detect_leaks=0 /tmp/hunt_C06_$$.bin; rc=$?
rm -f /tmp/hunt_C06_$$.bin
exit $rc
