/* Two records on one descriptor. A (write, DISPATCH) was registered on T0 and
 * fired (live, disabled). B (persistent read) is then registered on T0 for the
 * same descriptor (it replaces A in that epoll set: known). The writer A is
 * now added on T1 so that both live: the "move" does EPOLL_CTL_DEL of the
 * descriptor on T0 and silently destroys B's persistent registration. */
#include <sys/param.h>
#include <sys/types.h>
#include <sys/socket.h>
#include <inttypes.h>
#include <stdlib.h>
#include <stdio.h>
#include <unistd.h>
#include <string.h>
#include <errno.h>
#include <pthread.h>
#include "al/os.h"
#include "threadpool/threadpool.h"

static volatile int a_cnt, b_cnt;
static void cb_a(tp_event_p ev, tp_udata_p u) { (void)ev; (void)u; a_cnt ++; }
static void cb_b(tp_event_p ev, tp_udata_p u) { (void)ev; char c; b_cnt ++; if (read((int)u->ident, &c, 1)) {} }

int main(void) {
	tp_settings_t s; tp_p tp; int sv[2], e, before;
	tp_udata_t A, B;

	tp_settings_def(&s);
	s.threads_max = 2; s.flags = 0;
	if (0 != tp_create(&s, &tp)) return (2);
	if (0 != tp_threads_create(tp, 0)) return (2);
	usleep(100000);
	socketpair(AF_UNIX, SOCK_STREAM, 0, sv);
	memset(&A, 0, sizeof(A)); memset(&B, 0, sizeof(B));
	A.cb_func = cb_a; A.ident = (uintptr_t)sv[0];
	B.cb_func = cb_b; B.ident = (uintptr_t)sv[0];
	e = tpt_ev_add_args2(tp_thread_get(tp, 0), TP_EV_WRITE, TP_F_DISPATCH, &A);
	printf("add A write/dispatch T0: %d\n", e);
	usleep(100000);
	printf("a_cnt=%d\n", a_cnt);
	e = tpt_ev_add_args2(tp_thread_get(tp, 0), TP_EV_READ, 0, &B);
	printf("add B read/persistent T0: %d\n", e);
	if (write(sv[1], "x", 1)) {}
	usleep(100000);
	printf("b_cnt=%d (B works)\n", b_cnt);
	e = tpt_ev_add_args2(tp_thread_get(tp, 1), TP_EV_WRITE, TP_F_DISPATCH, &A);
	printf("add A write/dispatch T1: %d\n", e);
	usleep(100000);
	printf("a_cnt=%d\n", a_cnt);
	before = b_cnt;
	if (write(sv[1], "y", 1)) {}
	usleep(300000);
	printf("b_cnt before=%d after=%d\n", before, b_cnt);
	if (b_cnt == before) { printf("FAIL: persistent read record B silently lost its registration\n"); return (1); }
	printf("OK\n");
	return (0);
}
