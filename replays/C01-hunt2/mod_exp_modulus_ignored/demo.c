/* bn_mod_exp() / bn_mod_exp_digit() shortcuts (exponent 0, base 0 or 1)
 * return before the modulus is looked at: the result is not reduced for
 * m = 1 and m = 0 is accepted (the general path reports EINVAL for it). */
#include <sys/param.h>
#include <sys/types.h>
#include <inttypes.h>
#include <string.h>
#include <stdio.h>
#include <errno.h>
#include "math/big_num.h"

static int
run(int use_digit, bn_digit_t base, bn_digit_t e, bn_digit_t mod, int exp_ret, bn_digit_t exp_val) {
	bn_t a, x, m;
	int ret;
	bn_digit_t got;

	bn_init(&a, 256); bn_init(&x, 256); bn_init(&m, 256);
	bn_assign_digit(&a, base); bn_assign_digit(&x, e); bn_assign_digit(&m, mod);
	ret = ((0 != use_digit) ? bn_mod_exp_digit(&a, (size_t)e, &m, NULL) : bn_mod_exp(&a, &x, &m, NULL));
	got = ((0 != a.digits) ? a.num[0] : 0);
	printf("  %s: %u^%u mod %u -> ret = %i, value = %u", ((0 != use_digit) ? "bn_mod_exp_digit" : "bn_mod_exp      "),
	    (unsigned)base, (unsigned)e, (unsigned)mod, ret, (unsigned)got);
	if (0 != exp_ret) {
		printf("  (expected an error)\n");
		return (0 == ret);
	}
	printf("  (expected %u)\n", (unsigned)exp_val);
	return (0 != ret || got != exp_val);
}

int
main(void) {
	int bad = 0;

	printf("reference, general path:\n");
	bad |= run(0, 7, 5, 1, 0, 0);	/* 0 */
	bad |= run(0, 7, 5, 0, 1, 0);	/* EINVAL */
	printf("shortcuts:\n");
	bad |= run(0, 1, 5, 1, 0, 0);	/* 1^5 mod 1 */
	bad |= run(0, 7, 0, 1, 0, 0);	/* 7^0 mod 1 */
	bad |= run(1, 1, 5, 1, 0, 0);
	bad |= run(1, 7, 0, 1, 0, 0);
	bad |= run(0, 1, 5, 0, 1, 0);	/* modulus 0 */
	bad |= run(0, 7, 0, 0, 1, 0);
	bad |= run(1, 7, 0, 0, 1, 0);
	if (0 != bad) {
		printf("FAIL: result not in [0, m) / modulus 0 accepted\n");
		return (1);
	}
	printf("OK\n");
	return (0);
}
