/* bn_mod_inv2() and bn_mod_inv_mont() (alternatives offered by the
 * bn_mod_inv() selector macro, bn_mod_inv2 is part of bn_self_test())
 * return 0 with a number that is not an inverse when gcd(bn, m) != 1;
 * bn_mod_inv_bin() reports EINVAL for the same input. */
#include <sys/param.h>
#include <sys/types.h>
#include <inttypes.h>
#include <string.h>
#include <stdio.h>
#include <errno.h>
#include "math/big_num.h"

typedef int (*inv_fn)(bn_p, bn_p, bn_mod_rd_data_p);

static int
run(const char *name, inv_fn fn, bn_digit_t v, bn_digit_t mod) {
	bn_t a, m, chk;
	int ret;

	bn_init(&a, 256); bn_init(&m, 256); bn_init(&chk, 256);
	bn_assign_digit(&a, v); bn_assign_digit(&m, mod);
	ret = fn(&a, &m, NULL);
	printf("  %-16s(%u, m = %u) -> ret = %i, value = %u", name, (unsigned)v, (unsigned)mod, ret,
	    (unsigned)((0 != a.digits) ? a.num[0] : 0));
	if (0 != ret) {
		printf("  (error, fine)\n");
		return (0);
	}
	bn_assign_digit(&chk, v);
	bn_mod_mult(&chk, &a, &m, NULL);
	printf(", %u * value mod m = %u\n", (unsigned)v, (unsigned)((0 != chk.digits) ? chk.num[0] : 0));
	return (0 == bn_is_one(&chk));
}

int
main(void) {
	int bad = 0;

	/* gcd(6, 15) = 3, gcd(10, 25) = 5: no inverse. */
	bad |= run("bn_mod_inv_bin", bn_mod_inv_bin, 6, 15);
	bad |= run("bn_mod_inv2", bn_mod_inv2, 6, 15);
	bad |= run("bn_mod_inv_mont", bn_mod_inv_mont, 6, 15);
	bad |= run("bn_mod_inv2", bn_mod_inv2, 10, 25);
	bad |= run("bn_mod_inv_mont", bn_mod_inv_mont, 10, 25);
	if (0 != bad) {
		printf("FAIL: success reported although no inverse exists\n");
		return (1);
	}
	printf("OK\n");
	return (0);
}
