#!/bin/sh
# usage: run.sh <tree>   (exits non-zero and prints FAIL when the defect is present)
HERE="$(cd "$(dirname "$0")" && pwd)"
TREE="${1:-$HERE/../..}"
exec "$HERE/../common_run.sh" "$TREE" "$HERE"
