/* bn_digit_egcd(a, a, &x, &y) returns x = 1, y = 1: a*x + a*y = 2a != gcd = a. */
#include <sys/param.h>
#include <sys/types.h>
#include <inttypes.h>
#include <string.h>
#include <stdio.h>
#include <errno.h>
#include "math/big_num.h"

int
main(void) {
	bn_digit_t a, b, g, x, y;
	int bad = 0;

	for (a = 1; a < 200; a ++) {
		for (b = 1; b < 200; b ++) {
			x = 77; y = 77;
			g = bn_digit_egcd(a, b, &x, &y);
			if (g != bn_digit_gcd(a, b) ||
			    ((bn_digit_t)((a * x) + (b * y))) != g) {
				if (3 > bad)
					printf("  bn_digit_egcd(%u, %u) = %u, x = %i, y = %i: a*x + b*y = %u\n",
					    (unsigned)a, (unsigned)b, (unsigned)g, (int)x, (int)y,
					    (unsigned)((bn_digit_t)((a * x) + (b * y))));
				bad ++;
			}
		}
	}
	if (0 != bad) {
		printf("FAIL: %i pairs where a*x + b*y != gcd(a, b) (all with a == b)\n", bad);
		return (1);
	}
	printf("OK\n");
	return (0);
}
