/* bn_calc_digits() / bn_update() count over the whole capacity, i.e. over
 * the lazily-zeroed storage above the significant digits: called on a number
 * that was made shorter by bn_assign_digit()/bn_assign_zero()/bn_assign()
 * (none of them clears the rest) they resurrect the old high digits. */
#include <sys/param.h>
#include <sys/types.h>
#include <inttypes.h>
#include <string.h>
#include <stdio.h>
#include <errno.h>
#include "math/big_num.h"

int
main(void) {
	bn_t x, five;
	uint8_t buf[600];
	size_t l = 0, digits;

	bn_init(&x, 256);
	bn_init(&five, 256);
	bn_assign_digit(&five, 5);

	bn_assign_2exp(&x, 200);	/* x = 2^200 */
	bn_assign_digit(&x, 5);		/* x = 5 */
	if (0 != bn_cmp(&x, &five)) {
		printf("unexpected: x != 5 before bn_calc_digits()\n");
		return (2);
	}
	digits = bn_calc_digits(&x);	/* "Returns: the significant length of bn in digits." */
	bn_export_be_hex(&x, BN_EXPORT_F_AUTO_SIZE, buf, sizeof(buf), &l);
	printf("x = 2^200; x = 5; bn_calc_digits(x) = %zu (expected %zu), x = 0x%s (expected 0x05)\n",
	    digits, (size_t)1, buf);
	if (1 != digits || 0 != bn_cmp(&x, &five)) {
		printf("FAIL: bn_calc_digits() took stale storage above the significant digits into the value\n");
		return (1);
	}
	printf("OK\n");
	return (0);
}
