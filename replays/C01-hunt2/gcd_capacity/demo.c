/* bn_gcd() / bn_gcd_bin() overwrite the declared capacity (count) of the
 * RESULT object with the capacity of an operand (bn_assign_init(ta = bn, ...)):
 *  1. a result that does not fit the declared capacity is stored with
 *     success (no EOVERFLOW) - bn_gcd(bn, a, a) with the same value does
 *     report EOVERFLOW;
 *  2. a wide result object silently becomes a narrow one: later arithmetic
 *     on it wraps / truncates at the operand's width. */
#include <sys/param.h>
#include <sys/types.h>
#include <inttypes.h>
#include <string.h>
#include <stdio.h>
#include <errno.h>
#include "math/big_num.h"

static void
show(const char *name, bn_p bn) {
	uint8_t buf[600];
	size_t l = 0;

	bn_export_be_hex(bn, BN_EXPORT_F_AUTO_SIZE, buf, sizeof(buf), &l);
	printf("    %s = 0x%s, capacity = %zu bit\n", name, buf,
	    (bn->count * BN_DIGIT_BITS));
}

int
main(void) {
	int bad = 0, ret;
	bn_t r, a, b, expect;

	/* 1. gcd(2^200, 3 * 2^201) = 2^200 into a 64 bit result object. */
	bn_init(&a, 320);
	bn_init(&b, 320);
	bn_assign_2exp(&a, 200);
	bn_assign_2exp(&b, 201);
	bn_mult_digit(&b, 3);

	bn_init(&r, 64);
	ret = bn_gcd_bin(&r, &a, &b);
	printf("1a. bn_gcd_bin(r[64 bit], 2^200, 3*2^201) = %i (EOVERFLOW = %i expected)\n", ret, EOVERFLOW);
	show("r", &r);
	if (0 == ret)
		bad |= 1;
	bn_init(&r, 64);
	ret = bn_gcd(&r, &a, &b);
	printf("1b. bn_gcd(r[64 bit], 2^200, 3*2^201) = %i (EOVERFLOW = %i expected)\n", ret, EOVERFLOW);
	show("r", &r);
	if (0 == ret)
		bad |= 1;
	bn_init(&r, 64);
	ret = bn_gcd(&r, &a, &a);
	printf("    for comparison bn_gcd(r[64 bit], 2^200, 2^200) = %i\n", ret);

	/* 2. gcd(54, 24) = 6 into a 2048 bit result object, then r <<= 70. */
	bn_init(&a, 128);
	bn_init(&b, 128);
	bn_assign_digit(&a, 54);
	bn_assign_digit(&b, 24);
	bn_init(&expect, BN_BIT_LEN);
	bn_assign_digit(&expect, 6);
	bn_l_shift(&expect, 200);

	bn_init(&r, BN_BIT_LEN);
	ret = bn_gcd_bin(&r, &a, &b);
	printf("2a. bn_gcd_bin(r[%i bit], 54, 24) = %i\n", BN_BIT_LEN, ret);
	show("r", &r);
	bn_l_shift(&r, 200);
	printf("    r <<= 200 (expected 6 * 2^200):\n");
	show("r", &r);
	if (0 != ret || 0 != bn_cmp(&r, &expect) || r.count != (BN_BIT_LEN / BN_DIGIT_BITS))
		bad |= 2;

	bn_init(&r, BN_BIT_LEN);
	ret = bn_gcd(&r, &a, &b);
	printf("2b. bn_gcd(r[%i bit], 54, 24) = %i\n", BN_BIT_LEN, ret);
	show("r", &r);
	bn_l_shift(&r, 200);
	printf("    r <<= 200 (expected 6 * 2^200):\n");
	show("r", &r);
	if (0 != ret || 0 != bn_cmp(&r, &expect) || r.count != (BN_BIT_LEN / BN_DIGIT_BITS))
		bad |= 2;

	if (0 != bad) {
		printf("FAIL (%i): bn_gcd()/bn_gcd_bin() replace the capacity of the result object\n", bad);
		return (1);
	}
	printf("OK\n");
	return (0);
}
