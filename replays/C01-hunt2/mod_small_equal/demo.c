/* bn_mod_small() subtracts while bn > m: a value that is a multiple of m
 * is left at m instead of 0. */
#include <sys/param.h>
#include <sys/types.h>
#include <inttypes.h>
#include <string.h>
#include <stdio.h>
#include <errno.h>
#include "math/big_num.h"

int
main(void) {
	bn_t a, m;
	int ret;

	bn_init(&a, 256); bn_init(&m, 256);
	bn_assign_digit(&a, 10); bn_assign_digit(&m, 5);
	ret = bn_mod_small(&a, &m, NULL);
	printf("bn_mod_small(10, 5) -> ret = %i, value = %u (expected 0)\n", ret,
	    (unsigned)((0 != a.digits) ? a.num[0] : 0));
	if (0 != ret || 0 == bn_is_zero(&a)) {
		printf("FAIL: result is not below the modulus\n");
		return (1);
	}
	printf("OK\n");
	return (0);
}
