import random, subprocess, sys, math
W=int(sys.argv[1]); M=int(sys.argv[2]); N=int(sys.argv[3]); seed=int(sys.argv[4]) if len(sys.argv)>4 else 1
MAXD=2048//W
rnd=random.Random(seed)
EINVAL=22; EOVERFLOW=75
def digits(x): return (x.bit_length()+W-1)//W
def gen(capd):
    bits=capd*W
    t=rnd.randrange(12)
    if t==0: return 0
    if t==1: return 1
    if t==2: return (1<<bits)-1
    if t==3: return 1<<rnd.randrange(bits)
    if t==4: return (1<<rnd.randrange(1,bits+1))-1
    if t==5:
        # digit pattern of 0 / MAX / 1 / HI
        v=0
        for i in range(rnd.randrange(1,capd+1)):
            v|=rnd.choice([0,(1<<W)-1,1,1<<(W-1),(1<<W)-2, rnd.randrange(1<<W)])<<(i*W)
        return v
    if t==6: return rnd.randrange(1<<min(bits,W))
    if t==7:
        b=rnd.randrange(1,bits+1); return rnd.randrange(1<<b)
    if t==8:
        v=(1<<rnd.randrange(bits))+rnd.choice([-1,1,0]); return max(0,min(v,(1<<bits)-1))
    if t==9:
        v=((1<<bits)-1) ^ (1<<rnd.randrange(bits)); return v
    return rnd.randrange(1<<bits)
def capd():
    t=rnd.randrange(6)
    if t==0: return 1
    if t==1: return 2
    if t==2: return rnd.randrange(1,5)
    if t==3: return MAXD
    return rnd.randrange(1,min(MAXD,12)+1)
def hx(x): return '%x'%x
ops2=['add','sub','mult','and','or','xor','cmp','assign']
cases=[]
def mk(op,ca,a,cb,b,cm,m,k=0):
    cases.append((op,ca,a,cb,b,cm,m,k))
SMALLPRIMES=[3,5,7,11,13,17,19,23,29,31,37,41,73,97,113,193,257,65537,2**31-1,2**61-1,2**89-1,2**107-1,2**127-1, 2**255-19, 2**224-2**96+1, 2**256-2**224+2**192+2**96-1, 2**192-2**64-1,
  0xfffffffffffffffffffffffffffffffeffffffffffffffff, 2**521-1, 0xFFFFFFFFFFFFFFFFFFFFFFFFFFFFFFFFFFFFFFFFFFFFFFFFFFFFFFFEFFFFE56D,
  2**64-59, 2**32-5, 2**16-15, 2**128-159, 12289, 40961, 2**64-2**32+1, 7681]
for i in range(N):
    g=rnd.randrange(100)
    ca=capd(); cb=capd(); cm=capd()
    a=gen(ca); b=gen(cb); m=gen(cm)
    if g<8: mk(rnd.choice(['add','add_aa','sub','sub_aa']),ca,a,cb,b,cm,m)
    elif g<12: mk(rnd.choice(['add_digit','sub_digit']),ca,a,cb,b,cm,m, rnd.choice([0,1,2,(1<<min(W,63))-1, rnd.randrange(1<<min(W,63))]))
    elif g<20: mk(rnd.choice(['mult','mult_aa']),ca,a,cb,b,cm,m)
    elif g<24: mk('mult_digit',ca,a,cb,b,cm,m, rnd.choice([0,1,2,3,4,5,(1<<min(W,63))-1, 1<<rnd.randrange(min(W,63)), rnd.randrange(1<<min(W,63))]))
    elif g<40:
        if rnd.randrange(3)==0:
            # make b related to a to stress quotient estimation
            b=max(1,a>>rnd.randrange(1,ca*W+1)); b=min(b,(1<<(cb*W))-1)
        mk(rnd.choice(['div','div','div_null','div_rema','div_remd']),ca,a,cb,b,cm,m)
    elif g<46: mk(rnd.choice(['lsh','rsh']),ca,a,cb,b,cm,m, rnd.choice([0,1,7,8,9,W-1,W,W+1,2*W,ca*W-1,ca*W,ca*W+1,rnd.randrange(ca*W+2*W)]))
    elif g<50: mk(rnd.choice(['and','or','xor','xor_aa','cmp','assign']),ca,a,cb,b,cm,m)
    elif g<55: mk(rnd.choice(['gcd','gcd_ra','gcd_rb','gcdb','gcdb_ra','gcdb_rb']),ca,a,cb,b,cm,m)
    elif g<59: mk(rnd.choice(['sqrt1','sqrt2','sqrt3','sqrt5']),ca,a,cb,b,cm,m)
    elif g<62: mk('mod',ca,a,cb,b,cm,m)
    elif g<70:
        if m>1:
            a=a%m if rnd.randrange(4) else a; b=b%m if rnd.randrange(4) else b
            a=min(a,(1<<(ca*W))-1)
        mk(rnd.choice(['mod_add','mod_add_aa','mod_sub','mod_sub_aa','mod_mult','mod_mult_aa']),ca,a,cb,b,cm,m)
    elif g<72: mk('mod_mult_digit',ca,a,cb,b,cm,m, rnd.choice([0,1,2,3,5,rnd.randrange(1<<min(W,63))]))
    elif g<76:
        if rnd.randrange(2): b=rnd.randrange(40)
        mk('mod_exp',ca,a,cb,b,cm,m)
    elif g<78: mk('mod_exp_digit',ca,a,cb,b,cm,m, rnd.choice([0,1,2,3,4,5,17,65537,rnd.randrange(1<<20)]))
    elif g<84:
        if rnd.randrange(2): m|=1
        if m>1 and rnd.randrange(4): a%=m
        mk(rnd.choice(['mod_inv','mod_inv','mod_inv1','mod_inv2','mod_inv_mont','mod_div']),ca,a,cb,b,cm,m)
    elif g<90:
        p=rnd.choice(SMALLPRIMES)
        cm=max(cm,digits(p)); 
        if cm>MAXD: continue
        if rnd.randrange(2): a=pow(rnd.randrange(p),2,p)
        if rnd.randrange(3)==0: ca=max(ca, 2*digits(p)+1)
        if digits(a)>ca: a%=p
        if digits(a)>ca: continue
        mk(rnd.choice(['mod_sqrt','legendre']),ca,a,cb,b,cm,p)
    elif g<92: mk('mod_reduce',ca,a,cb,b,cm,m)
    elif g<95: mk(rnd.choice(['bits','ctz','ispow2','isbit','bitset']),ca,a,cb,b,cm,m, rnd.randrange(2*(ca*W+W)))
    elif g<97: mk('naf',ca,a,cb,b,cm,m, rnd.choice([2,2,3,4,5,6,7,8])+100*rnd.randrange(2))
    elif g<99: mk('jsf',ca,a,cb,b,cm,m)
    else: mk('exp_digit',ca,a,cb,b,cm,m,rnd.choice([0,1,2,3,4,5,7,rnd.randrange(70)]))
inp=''.join('%s %d %x %d %x %d %x %d\n'%c for c in cases)
p=subprocess.run([__import__('os').environ.get('HBIN','./h_%d_%d'%(W,M))],input=inp.encode(),stdout=subprocess.PIPE,stderr=subprocess.PIPE)
err=p.stderr.decode()
if err:
    ls=[l for l in err.splitlines() if 'runtime error' in l or 'ERROR' in l]
    seen=set()
    for l in ls:
        key=l.split('runtime error')[0]
        if key not in seen:
            seen.add(key); print('SAN:',l)
out=p.stdout.decode().splitlines()
if len(out)!=len(cases): print('LINES',len(out),len(cases), 'rc',p.returncode)
def isqrt(n): return math.isqrt(n)
stat={}
def note(tag,c,o,why=''):
    if tag in ('INV','LEG','M0','DOM','NOINV','SQA') or (tag=='ERR' and c[0] in('sqrt3','sqrt5','naf','mod_sqrt')): 
        stat[(tag,c[0])]=stat.get((tag,c[0]),0)+1; return
    k=(tag,c[0])
    stat[k]=stat.get(k,0)+1
    def sh(x):
        x=str(x) if not isinstance(x,int) or x<1000 else hex(x)
        return x if len(x)<70 else x[:30]+'..('+str(len(x))+')..'+x[-20:]
    if stat[k]<=2: print(tag,why,'|',' '.join(sh(x) for x in c),'=>',' '.join(sh(x) for x in o.split()))
for c,o in zip(cases,out):
    op,ca,a,cb,b,cm,m,k=c
    if 'COUNTCHG' in o or 'NOTNORM' in o or 'DIGITS>COUNT' in o: note('INV',c,o)
    t=o.replace(' COUNTCHG','#').split()
    t=[x for x in o.split() if not (x.startswith('COUNTCHG') or x in('NOTNORM','DIGITS>COUNT'))]
    if op in('naf','jsf'):
        ret=int(t[0])
        if op=='naf':
            w=k%100
            if ret!=0:
                note('ERR',c,o); continue
            n=int(t[3]); arr=list(map(int,t[4:4+n]))
            v=sum(d<<i for i,d in enumerate(arr))
            if v!=a: note('BAD',c,o,'naf value'); continue
            ok=True
            for i,d in enumerate(arr):
                if d!=0:
                    if d%2==0 or abs(d)>=(1<<(w-1)): ok=False
                    if any(arr[i+1:i+w]): ok=False
            if not ok and w<=8: note('BADNAF',c,o,'naf form')
        else:
            if ret!=0: note('ERR',c,o); continue
            n=int(t[4]); rest=t[5:]; bar=rest.index('|'); A=list(map(int,rest[:bar])); B=list(map(int,rest[bar+1:]))
            va=sum(d<<i for i,d in enumerate(A)); vb=sum(d<<i for i,d in enumerate(B))
            if va!=a or vb!=b: note('BAD',c,o,'jsf value')
        continue
    ret=int(t[0]); ra=int(t[1],16); rb=int(t[2],16); rm=int(t[3],16); E=int(t[5]) if len(t)>5 else None
    capA=1<<(ca*W); capB=1<<(cb*W); capM=1<<(cm*W)
    exp=None  # (ra,rb,rm,E) expected when ret==0
    allowerr=False
    if op=='add': s=a+b; exp=(s%capA,b,m,s//capA); allowerr=digits(b)>ca
    elif op=='add_aa': s=a+a; exp=(s%capA,b,m,s//capA)
    elif op=='sub': s=a-b; exp=(s%capA,b,m,1 if s<0 else 0); allowerr=digits(b)>ca
    elif op=='sub_aa': exp=(0,b,m,0)
    elif op=='add_digit': s=a+k; exp=(s%capA,b,m,s//capA if k else 0)
    elif op=='sub_digit': s=a-k; exp=(s%capA,b,m,1 if s<0 else 0)
    elif op=='mult': exp=(a*b,b,m,None); allowerr=(a!=0 and b!=0 and digits(a)+digits(b)>ca)
    elif op=='mult_aa': exp=(a*a,b,m,None); allowerr=(a!=0 and 2*digits(a)>ca)
    elif op=='mult_digit':
        kk=k % (1<<W); exp=(a*kk,b,m,None); allowerr=(a*kk>=capA) or (kk>3 and a!=0 and digits(a)>=ca)
    elif op in('div','div_null','div_rema','div_remd'):
        if b==0: 
            if ret!=EINVAL: note('BAD',c,o,'div0')
            continue
        q,r=divmod(a,b)
        if op=='div': exp=(q,b,r,None); allowerr = digits(r)>cm
        elif op=='div_null': exp=(q,b,m,None)
        elif op=='div_rema': exp=(r,b,m,None)
        else: exp=(q,r,m,None); allowerr = False
        if a>b and digits(a)==ca: allowerr=True  # normalisation
    elif op=='lsh': exp=((a<<k)%capA,b,m,None)
    elif op=='rsh': exp=(a>>k,b,m,None)
    elif op=='and': exp=(a&b,b,m,None)
    elif op=='or': exp=(a|b,b,m,None); allowerr=digits(b)>ca
    elif op=='xor': exp=(a^b,b,m,None); allowerr=digits(b)>ca
    elif op=='xor_aa': exp=(0,b,m,None)
    elif op=='cmp': exp=(a,b,m,(a>b)-(a<b))
    elif op=='assign': exp=(b,b,m,None); allowerr=digits(b)>ca
    elif op in('gcd','gcdb'): g=math.gcd(a,b); exp=(a,b,g,None); allowerr=True
    elif op in('gcd_ra','gcdb_ra'): g=math.gcd(a,b); exp=(g,b,m,None); allowerr=True
    elif op in('gcd_rb','gcdb_rb'): g=math.gcd(a,b); exp=(a,g,m,None); allowerr=True
    elif op.startswith('sqrt'): exp=(isqrt(a),b,m,None)
    elif op=='mod':
        if m==0:
            if ret!=EINVAL: note('BAD',c,o,'mod0')
            continue
        exp=(a%m,b,m,None); allowerr=(a>m and digits(a)==ca)
    elif op in('mod_add','mod_add_aa','mod_sub','mod_sub_aa','mod_mult','mod_mult_aa','mod_mult_digit','mod_exp','mod_exp_digit'):
        bb=a if op.endswith('_aa') else b
        if m==0:
            if ret==0: note('M0',c,o,'m=0 success')
            continue
        if op.startswith('mod_add'):
            if a>=m or bb>=m: continue
            exp=((a+bb)%m,b,m,None); allowerr=digits(bb)>ca or digits(m)>ca
        elif op.startswith('mod_sub'):
            if a>=m or bb>=m: continue
            exp=((a-bb)%m,b,m,None); allowerr=digits(bb)>ca or digits(m)>ca
        elif op.startswith('mod_mult_digit'):
            exp=((a*(k%(1<<W)))%m,b,m,None); allowerr=True
        elif op.startswith('mod_mult'):
            exp=((a*bb)%m,b,m,None); allowerr=True
        elif op=='mod_exp': exp=(pow(a,b,m),b,m,None); allowerr=True
        else: exp=(pow(a,k,m),b,m,None); allowerr=True
    elif op in('mod_inv','mod_inv1','mod_inv2','mod_inv_mont'):
        if a==0 or m==0 or a>=m or (op in('mod_inv',) and m%2==0) :
            if ret==0: note('DOM',c,o,'domain success')
            continue
        if math.gcd(a,m)!=1:
            if ret==0: note('NOINV',c,o,'no inverse but success')
            continue
        if op=='mod_inv_mont' and m%2==0: continue
        exp=(pow(a,-1,m),b,m,None); allowerr=True
    elif op=='mod_div':
        continue
    elif op=='mod_sqrt':
        p=m
        aa=a%p
        if ret==0:
            if (ra*ra)%p!=aa or ra>=p: note('BAD',c,o,'sqrt wrong')
        elif ret==-1:
            if pow(aa,(p-1)//2,p) in(0,1):
                if cm>1+2*max(digits(aa),digits(p)): note('SQA',c,o,'caseA')
                else: note('BAD',c,o,'root exists but -1')
        else:
            if ca<cm or 2*digits(aa)>ca or 2*digits(p)>ca or (p%8==1 and 1+2*digits(p)>MAXD): stat[('okerr',op)]=stat.get(('okerr',op),0)+1
            else: note('ERR2',c,o)
        continue
    elif op=='legendre':
        p=m; l=pow(a%p,(p-1)//2,p); l=-1 if l==p-1 else l
        if E!=l: note('LEG',c,o,'expected %d'%l)
        continue
    elif op=='mod_reduce':
        if m<=1: 
            if ret==0 and not (a<m): note('DOM',c,o,'reduce m<=1')
            continue
        exp=(a if a<m else (a%(m-1))+1,b,m,None); allowerr=(a>m and digits(a)==ca)
    elif op=='bits': exp=(a,b,m,a.bit_length())
    elif op=='ctz': exp=(a,b,m,(a&-a).bit_length()-1 if a else 0)
    elif op=='ispow2': exp=(a,b,m,1 if a and a&(a-1)==0 else 0)
    elif op=='isbit': exp=(a,b,m,(a>>k)&1)
    elif op=='bitset':
        bit=k>>1; v=k&1
        if bit>=ca*W:
            if ret==0: note('BAD',c,o,'bitset beyond')
            continue
        exp=((a|(1<<bit)) if v else (a&~(1<<bit)),b,m,None)
    elif op=='exp_digit':
        kk=k; exp=(a**kk,b,m,None); allowerr=True
    if exp is None: continue
    if ret!=0:
        if not allowerr: note('ERR',c,o,'unexpected error')
        else: stat[('okerr',op)]=stat.get(('okerr',op),0)+1
        continue
    if exp[0]>=capA and op not in('gcd','gcdb'): note('NOFIT',c,o,'success but result does not fit'); continue
    got=(ra,rb,rm,E if exp[3] is not None else None)
    if got!=exp: note('BAD',c,o,'expected %x %x %x %s'%(exp[0],exp[1],exp[2],exp[3]))
print('done',W,M,len(cases),{k:v for k,v in stat.items() if k[0]!='okerr'})
