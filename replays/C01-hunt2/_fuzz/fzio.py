import random, subprocess, sys
W=int(sys.argv[1]); M=int(sys.argv[2]); N=int(sys.argv[3]); seed=int(sys.argv[4])
MAXD=2048//W; SZ=W//8
rnd=random.Random(seed)
def digits(x): return (x.bit_length()+W-1)//W
def nbytes(x): return (x.bit_length()+7)//8
def gen(capd):
    bits=capd*W; t=rnd.randrange(8)
    if t==0: return 0
    if t==1: return rnd.randrange(1,256)
    if t==2: return (1<<bits)-1
    if t==3: return 1<<rnd.randrange(bits)
    if t==4: return rnd.randrange(1<<rnd.randrange(1,bits+1))
    if t==5: return rnd.randrange(1<<bits)
    if t==6: return rnd.randrange(1<<(8*rnd.randrange(1,capd*SZ+1)))
    return (1<<rnd.randrange(1,bits+1))-1
cases=[]
for i in range(N):
    ca=rnd.choice([1,1,2,3,4,rnd.randrange(1,min(MAXD,9)+1),MAXD])
    a=gen(ca); old=gen(ca)
    g=rnd.randrange(8)
    if g<4:
        op=['exp_be_bin','exp_le_bin','exp_be_hex','exp_le_hex'][g]
        nb=nbytes(a); mul=2 if 'hex' in op else 1
        bs=rnd.choice([0,1,2,3,nb*mul,nb*mul+1,max(0,nb*mul-1),nb*mul+2,max(0,nb*mul-2),digits(a)*SZ*mul,digits(a)*SZ*mul-1 if a else 0,digits(a)*SZ*mul+1,ca*SZ*mul,rnd.randrange(0,ca*SZ*mul+5)])
        bs=min(bs,2040)
        cases.append((op,ca,a,'0',bs*2+rnd.randrange(2)))
    else:
        op=['imp_be_bin','imp_le_bin','imp_be_hex','imp_le_hex'][g-4]
        v=gen(rnd.choice([ca,ca,ca,min(MAXD,ca+1)]))
        if 'bin' in op:
            n=max(nbytes(v),0)+rnd.choice([0,0,0,1,2,SZ]); n=min(n,2040)
            if rnd.randrange(20)==0: n=0
            raw=v.to_bytes(n,'big' if 'be' in op else 'little') if n>=nbytes(v) else b''
            txt=raw.hex() if raw else '-'
            cases.append((op,ca,old,txt,0,raw))
        else:
            h='%x'%v
            if rnd.randrange(2) and len(h)%2: h='0'+h
            if rnd.randrange(4)==0: h='0'*rnd.randrange(1,5)+h
            if rnd.randrange(3)==0: h=''.join(c.upper() if rnd.randrange(2) else c for c in h)
            if 'le' in op:
                if len(h)%2 and rnd.randrange(4): h='0'+h
                bs=bytes.fromhex(h) if len(h)%2==0 else None
                if bs is not None: h=bs[::-1].hex()
            if rnd.randrange(4)==0:
                # separators
                pos=rnd.randrange(len(h)+1); h=h[:pos]+rnd.choice([':','-','_','x','g'])+h[pos:]
            cases.append((op,ca,old,h,0,None))
inp=''.join('%s %d %x 1 %s 1 0 %d\n'%(c[0],c[1],c[2],c[3],c[4]) for c in cases)
p=subprocess.run([__import__('os').environ.get('HBIN','./h_%d_%d'%(W,M))],input=inp.encode(),stdout=subprocess.PIPE,stderr=subprocess.PIPE)
for l in set(x.split('runtime error')[0]+x.split('runtime error')[-1][:80] for x in p.stderr.decode().splitlines() if 'runtime error' in x or 'ERROR' in x): print('SAN',l)
out=p.stdout.decode().splitlines()
if len(out)!=len(cases): print('LINES',len(out),len(cases),p.returncode, p.stderr.decode()[-2000:])
stat={}
def note(tag,c,o,why=''):
    k=(tag,c[0]); stat[k]=stat.get(k,0)+1
    if stat[k]<=4: print(tag,why,'|',c[:5],'=>',o[:300])
for c,o in zip(cases,out):
    op,ca,a=c[0],c[1],c[2]
    t=o.split()
    ret=int(t[0])
    if op.startswith('exp'):
        k=c[4]; auto=k&1; bs=k>>1
        L=int(t[2]); 
        if ret==0:
            data=t[3] if len(t)>4 else ''
            guard=t[-1]
            if guard!='cc': note('GUARD',c,o)
            if L>bs: note('BAD',c,o,'L>bs'); continue
            try:
                if op=='exp_be_bin': v=int(data,16) if data else None; 
                elif op=='exp_le_bin': v=int.from_bytes(bytes.fromhex(data),'little') if data else (0 if L==0 else None)
                elif op=='exp_be_hex': v=int(data,16) if data else None
                else: v=int.from_bytes(bytes.fromhex(data),'little') if data else None
            except Exception as e: note('BAD',c,o,'decode '+str(e)); continue
            if v!=a: note('BAD',c,o,'value'); continue
            if not auto and op.endswith('bin') and L!=bs: note('BAD',c,o,'L!=bs')
            if auto and op=='exp_be_bin' and L!=max(1,nbytes(a)): note('BAD',c,o,'auto L')
        else:
            mul=2 if 'hex' in op else 1
            minbs=1 if mul==1 else 2
            if bs<minbs: continue
            if op in('exp_be_bin','exp_be_hex','exp_le_bin'):
                if nbytes(a)*mul>bs: continue
            else:
                if digits(a)*SZ*mul>bs: continue
            note('ERR',c,o,'unexpected')
    else:
        raw=c[5]; txt=c[3]
        if 'bin' in op:
            if raw==b'' :
                if ret==0: note('BAD',c,o,'empty ok')
                continue
            v=int.from_bytes(raw,'big' if 'be' in op else 'little')
            fits=len(raw)<=ca*SZ
        else:
            clean=''.join(ch for ch in txt if ch in '0123456789abcdefABCDEF')
            if 'be' in op: v=int(clean,16) if clean else 0
            else:
                if len(clean)%2:
                    if ret==0: note('BAD',c,o,'odd le ok')
                    continue
                v=int.from_bytes(bytes.fromhex(clean),'little') if clean else 0
            fits=(len(clean)+1)//2<=ca*SZ and len(txt)//2<=ca*SZ
        if ret==0:
            got=int(t[-1],16)
            if 'COUNTCHG' in o or 'NOTNORM' in o: note('INV',c,o)
            if got!=v: note('BAD',c,o,'value exp %x'%v)
        else:
            if fits: note('ERR',c,o,'unexpected')
print('done',W,M,len(cases),stat)
