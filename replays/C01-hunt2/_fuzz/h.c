#include <sys/param.h>
#include <sys/types.h>
#include <inttypes.h>
#include <string.h>
#include <stdio.h>
#include <stdlib.h>
#include <errno.h>
#include "math/big_num.h"

static char line[1<<16];
static bn_t X[4];
static size_t CNT[4];

static void load(bn_p b, size_t cnt, const char *hex){
	memset(b, 0xA5, sizeof(*b));
	if (0 != bn_init(b, cnt * BN_DIGIT_BITS)) { printf("INITFAIL\n"); exit(2);} 
	if (0 != bn_import_be_hex(b, (const uint8_t*)hex, strlen(hex))) { printf("IMPFAIL\n"); exit(2);} 
	/* stale garbage above the significant digits */
	memset(&b->num[b->digits], 0xA5, (BN_MAX_DIGITS - b->digits) * BN_DIGIT_SIZE);
}
static void dump(bn_p b, size_t cnt){
	static uint8_t buf[8192]; size_t l = 0;
	/* invariants */
	if (b->count != cnt) printf(" COUNTCHG(%zu->%zu)", cnt, b->count);
	if (b->digits > b->count) printf(" DIGITS>COUNT");
	if (b->digits && b->num[b->digits-1]==0) printf(" NOTNORM");
	/* manual export independent of lib? use lib but fine */
	if (b->digits == 0) { printf(" 0"); return; }
	printf(" ");
	int started=0;
	for (ssize_t i=(ssize_t)b->digits-1;i>=0;i--){
		for (int k=(int)BN_DIGIT_SIZE-1;k>=0;k--){
			unsigned byte=(unsigned)((b->num[i]>>(8*k))&0xff);
			if(!started){ if(byte==0) continue; started=1; printf("%x",byte);} else printf("%02x",byte);
		}
	}
	if(!started) printf("0");
}
int main(void){
	while (fgets(line, sizeof(line), stdin)) {
		char op[64]; size_t c[3]; static char hx[3][4200]; unsigned long k;
		if (sscanf(line, "%63s %zu %4199s %zu %4199s %zu %4199s %lu", op, &c[0], hx[0], &c[1], hx[1], &c[2], hx[2], &k) != 8) { printf("PARSE\n"); continue; }
		for (int i=0;i<3;i++){ load(&X[i], c[i], (i==1 && 0==strncmp(op,"imp",3)) ? "0" : hx[i]); CNT[i]=c[i]; }
		bn_p a=&X[0], b=&X[1], m=&X[2];
		int ret=0; bn_digit_t cb=0; long extra=-999; int ex_set=0;
		#define OP(s) (0==strcmp(op,s))
		if OP("add") { cb=77; ret=bn_add(a,b,&cb); extra=(long)cb; ex_set=1; }
		else if OP("add_aa") { cb=77; ret=bn_add(a,a,&cb); extra=(long)cb; ex_set=1; }
		else if OP("sub") { cb=77; ret=bn_sub(a,b,&cb); extra=(long)cb; ex_set=1; }
		else if OP("sub_aa") { cb=77; ret=bn_sub(a,a,&cb); extra=(long)cb; ex_set=1; }
		else if OP("add_digit") { cb=0; bn_add_digit(a,(bn_digit_t)k,&cb); extra=(long)cb; ex_set=1; }
		else if OP("sub_digit") { cb=0; bn_sub_digit(a,(bn_digit_t)k,&cb); extra=(long)cb; ex_set=1; }
		else if OP("mult") { ret=bn_mult(a,b); }
		else if OP("mult_aa") { ret=bn_mult(a,a); }
		else if OP("mult_digit") { ret=bn_mult_digit(a,(bn_digit_t)k); }
		else if OP("div") { ret=bn_div(a,b,m); }
		else if OP("div_null") { ret=bn_div(a,b,NULL); }
		else if OP("div_rema") { ret=bn_div(a,b,a); }
		else if OP("div_remd") { ret=bn_div(a,b,b); }
		else if OP("lsh") { bn_l_shift(a,k); }
		else if OP("rsh") { bn_r_shift(a,k); }
		else if OP("and") { ret=bn_and(a,b); }
		else if OP("or") { ret=bn_or(a,b); }
		else if OP("xor") { ret=bn_xor(a,b); }
		else if OP("xor_aa") { ret=bn_xor(a,a); }
		else if OP("cmp") { extra=bn_cmp(a,b); ex_set=1; }
		else if OP("gcd") { ret=bn_gcd(m,a,b); }
		else if OP("gcd_ra") { ret=bn_gcd(a,a,b); }
		else if OP("gcd_rb") { ret=bn_gcd(b,a,b); }
		else if OP("gcdb") { ret=bn_gcd_bin(m,a,b); }
		else if OP("gcdb_ra") { ret=bn_gcd_bin(a,a,b); }
		else if OP("gcdb_rb") { ret=bn_gcd_bin(b,a,b); }
		else if OP("sqrt1") { ret=bn_sqrt1(a); }
		else if OP("sqrt2") { ret=bn_sqrt2(a); }
		else if OP("sqrt3") { ret=bn_sqrt3(a); }
		else if OP("sqrt5") { ret=bn_sqrt5(a); }
		else if OP("mod") { ret=bn_mod(a,m,NULL); }
		else if OP("mod_add") { ret=bn_mod_add(a,b,m,NULL); }
		else if OP("mod_add_aa") { ret=bn_mod_add(a,a,m,NULL); }
		else if OP("mod_sub") { ret=bn_mod_sub(a,b,m,NULL); }
		else if OP("mod_sub_aa") { ret=bn_mod_sub(a,a,m,NULL); }
		else if OP("mod_mult") { ret=bn_mod_mult(a,b,m,NULL); }
		else if OP("mod_mult_aa") { ret=bn_mod_mult(a,a,m,NULL); }
		else if OP("mod_mult_digit") { ret=bn_mod_mult_digit(a,(bn_digit_t)k,m,NULL); }
		else if OP("mod_exp") { ret=bn_mod_exp(a,b,m,NULL); }
		else if OP("mod_exp_digit") { ret=bn_mod_exp_digit(a,k,m,NULL); }
		else if OP("mod_inv") { ret=bn_mod_inv(a,m,NULL); }
		else if OP("mod_inv1") { ret=bn_mod_inv1(a,m,NULL); }
		else if OP("mod_inv2") { ret=bn_mod_inv2(a,m,NULL); }
		else if OP("mod_inv_mont") { ret=bn_mod_inv_mont(a,m,NULL); }
		else if OP("mod_div") { ret=bn_mod_div(a,b,m,NULL); }
		else if OP("mod_sqrt") { ret=bn_mod_sqrt(a,m,NULL); }
		else if OP("mod_reduce") { ret=bn_mod_reduce(a,m,NULL); }
		else if OP("legendre") { extra=bn_mod_legendre(a,m,NULL); ex_set=1; }
		else if OP("bits") { extra=(long)bn_calc_bits(a); ex_set=1; }
		else if OP("ctz") { extra=(long)bn_ctz(a); ex_set=1; }
		else if OP("bitset") { ret=bn_bit_set(a,k>>1,(int)(k&1)); }
		else if OP("isbit") { extra=bn_is_bit_set(a,k); ex_set=1; }
		else if OP("ispow2") { extra=(long)bn_is_pow2(a); ex_set=1; }
		else if OP("assign") { ret=bn_assign(a,b); }
		else if OP("exp_digit") { ret=bn_exp_digit(a,(bn_digit_t)k); }
		else if OP("naf") {
			static int8_t arr[BN_BIT_LEN+8]; size_t n=0; memset(arr,0x55,sizeof(arr));
			size_t sz = bn_calc_bits(a)+1; if (k>=100) { sz = BN_BIT_LEN+4; k-=100; }
			ret=bn_calc_naf(a,k,sz,arr,&n);
			printf("%d", ret); dump(a,CNT[0]); printf(" N %zu", n);
			if(ret==0) for(size_t i=0;i<n;i++) printf(" %d", arr[i]);
			printf("\n"); continue;
		}
		else if OP("jsf") {
			static int8_t arr[2*BN_BIT_LEN+8]; size_t n=0, off=0; memset(arr,0x55,sizeof(arr));
			size_t bits = MAX(bn_calc_bits(a), bn_calc_bits(b))+1;
			ret=bn_calc_jsf(a,b,2*bits,arr,&n,&off);
			printf("%d", ret); dump(a,CNT[0]); dump(b,CNT[1]); printf(" N %zu", n);
			if(ret==0){ for(size_t i=0;i<n;i++) printf(" %d", arr[i]); printf(" |"); for(size_t i=0;i<n;i++) printf(" %d", arr[i+off]); }
			printf("\n"); continue;
		}
		else if OP("exp_be_bin") {
			static uint8_t buf[2048]; size_t l=9999; memset(buf,0xCC,sizeof(buf));
			ret=bn_export_be_bin(a,(uint32_t)(k&1),buf,k>>1,&l);
			printf("%d L %zu ", ret, l); if(ret==0) for(size_t i=0;i<l&&i<(k>>1);i++) printf("%02x",buf[i]); printf(" G %02x\n", buf[k>>1]); continue;
		}
		else if OP("exp_le_bin") {
			static uint8_t buf[2048]; size_t l=9999; memset(buf,0xCC,sizeof(buf));
			ret=bn_export_le_bin(a,(uint32_t)(k&1),buf,k>>1,&l);
			printf("%d L %zu ", ret, l); if(ret==0) for(size_t i=0;i<l&&i<(k>>1);i++) printf("%02x",buf[i]); printf(" G %02x\n", buf[k>>1]); continue;
		}
		else if OP("exp_be_hex") {
			static uint8_t buf[4096]; size_t l=9999; memset(buf,0xCC,sizeof(buf));
			ret=bn_export_be_hex(a,(uint32_t)(k&1),buf,k>>1,&l);
			printf("%d L %zu ", ret, l); if(ret==0) for(size_t i=0;i<l&&i<(k>>1);i++) printf("%c",buf[i]); printf(" G %02x\n", buf[k>>1]); continue;
		}
		else if OP("exp_le_hex") {
			static uint8_t buf[4096]; size_t l=9999; memset(buf,0xCC,sizeof(buf));
			ret=bn_export_le_hex(a,(uint32_t)(k&1),buf,k>>1,&l);
			printf("%d L %zu ", ret, l); if(ret==0) for(size_t i=0;i<l&&i<(k>>1);i++) printf("%c",buf[i]); printf(" G %02x\n", buf[k>>1]); continue;
		}
		else if (OP("imp_be_bin")||OP("imp_le_bin")||OP("imp_be_hex")||OP("imp_le_hex")) {
			/* hx[1] is the raw text; for bin variants it is hex of the bytes */
			static uint8_t raw[4200]; size_t rl=0; const char *s=hx[1];
			if (OP("imp_be_bin")||OP("imp_le_bin")) { size_t sl=strlen(s); for(size_t i=0;i+1<sl;i+=2){ unsigned v; sscanf(s+i,"%2x",&v); raw[rl++]=(uint8_t)v; } }
			else { rl=strlen(s); memcpy(raw,s,rl); if (rl==1 && raw[0]=='-') rl=0; }
			if OP("imp_be_bin") ret=bn_import_be_bin(a,raw,rl);
			else if OP("imp_le_bin") ret=bn_import_le_bin(a,raw,rl);
			else if OP("imp_be_hex") ret=bn_import_be_hex(a,raw,rl);
			else ret=bn_import_le_hex(a,raw,rl);
			printf("%d", ret); dump(a,CNT[0]); printf("\n"); continue;
		}
		else { printf("UNKOP\n"); continue; }
		printf("%d", ret); dump(a,CNT[0]); dump(b,CNT[1]); dump(m,CNT[2]);
		if (ex_set) printf(" E %ld", extra);
		printf("\n");
	}
	return 0;
}
