#include <sys/param.h>
#include <sys/types.h>
#include <inttypes.h>
#include <string.h>
#include <stdio.h>
#include <stdlib.h>
#include <errno.h>
#include "math/big_num.h"
/* 8-bit digits: exhaustive digit ops + small bn ops vs native */
static void setv(bn_p b, size_t cnt, uint64_t v){ memset(b,0x5A,sizeof(*b)); bn_init(b,cnt*8); size_t d=0; for(size_t i=0;i<cnt&&i<8;i++){ b->num[i]=(uint8_t)(v>>(8*i)); if(b->num[i]) d=i+1;} b->digits=d; memset(&b->num[d],0x5A,BN_MAX_DIGITS-d); }
static uint64_t getv(bn_p b){ uint64_t v=0; for(size_t i=0;i<b->digits&&i<8;i++) v|=((uint64_t)b->num[i])<<(8*i); return v; }
static int chk(bn_p b, size_t cnt){ return b->count==cnt && b->digits<=cnt && (b->digits==0||b->num[b->digits-1]!=0); }
int main(void){
	long bad=0;
	for(unsigned a=0;a<256;a++) for(unsigned b=0;b<256;b++){ bn_digit_t lo,hi; bn_digit_mult__int(a,b,&lo,&hi); if(((unsigned)hi<<8|lo)!=a*b){ if(bad++<5) printf("mult %u %u\n",a,b);} bn_digit_mult(a,b,&lo,&hi); if(((unsigned)hi<<8|lo)!=a*b){ if(bad++<5) printf("mult2 %u %u\n",a,b);} }
	for(unsigned n=0;n<65536;n++) for(unsigned d=1;d<256;d++){ bn_digit_t ql,qh,rl,rh,qs; int e=bn_digit_div__int(n&255,n>>8,d,&ql,&qh,&rl,&rh); if(e||((unsigned)qh<<8|ql)!=n/d||rl!=n%d||rh!=0){ if(bad++<5) printf("div %u %u\n",n,d);} if((n>>8)<d){ bn_digit_div__int_short(n&255,n>>8,d,&qs); if(qs!=n/d){ if(bad++<5) printf("divs %u %u\n",n,d);} } }
	for(unsigned a=0;a<256;a++) for(unsigned b=0;b<256;b++){ unsigned g=bn_digit_gcd(a,b), g2=bn_digit_gcd_bin(a,b); unsigned x=a,y=b; while(y){unsigned t=x%y;x=y;y=t;} if(g!=x||g2!=x){ if(bad++<5) printf("gcd %u %u -> %u %u exp %u\n",a,b,g,g2,x);} }
	for(unsigned a=0;a<256;a++){ unsigned pc=__builtin_popcount(a); if(bn_digit_bits(a)!=pc) {if(bad++<5)printf("bits %u\n",a);} if(a){ if(bn_digit_ctz(a)!=(size_t)__builtin_ctz(a)||bn_digit_clz(a)!=(size_t)(__builtin_clz(a)-24)) {if(bad++<5)printf("ctz/clz %u\n",a);} } }
	printf("digit ops bad=%ld\n",bad);
	/* bn ops, caps 1..3 */
	bn_t A,B,R; bn_digit_t c;
	for(size_t ca=1;ca<=3;ca++) for(size_t cb=1;cb<=2;cb++){
		uint64_t ma=1ull<<(8*ca), mb=1ull<<(8*cb);
		uint64_t sa = ca==3? 257:1;
		for(uint64_t a=0;a<ma;a+=sa) for(uint64_t b=0;b<mb;b+= (cb==2? 13:1)){
			uint64_t aa = ca==3 ? (a*2654435761u)%ma : a;
			setv(&A,ca,aa); setv(&B,cb,b); c=9; int e=bn_add(&A,&B,&c);
			if(B.digits>ca){ if(e!=EOVERFLOW) {if(bad++<20)printf("add noerr\n");} } else if(e||getv(&A)!=(aa+b)%ma||c!=(aa+b)/ma||!chk(&A,ca)){ if(bad++<20) printf("add %zu %zu %lx %lx -> %lx c%u\n",ca,cb,aa,b,getv(&A),c);} 
			setv(&A,ca,aa); c=9; e=bn_sub(&A,&B,&c);
			if(B.digits>ca){ if(e!=EOVERFLOW) {if(bad++<20)printf("sub noerr\n");} } else if(e||getv(&A)!=((aa-b)&(ma-1))||c!=(aa<b)||!chk(&A,ca)){ if(bad++<20) printf("sub %zu %zu %lx %lx -> %lx c%u\n",ca,cb,aa,b,getv(&A),c);} 
			setv(&A,ca,aa); e=bn_mult(&A,&B);
			if(e==0){ if(getv(&A)!=aa*b||!chk(&A,ca)||aa*b>=ma){ if(bad++<20) printf("mult %zu %zu %lx %lx -> %lx\n",ca,cb,aa,b,getv(&A));} }
			else if(!(aa&&b&&A.digits+B.digits>ca)) { /* A unchanged on error? */ if(bad++<20) printf("mult err %d %lx %lx\n",e,aa,b);} 
			if(b){ setv(&A,ca,aa); setv(&R,ca,0x5a5a5a&(ma-1)); e=bn_div(&A,&B,&R);
				if(e==0){ if(getv(&A)!=aa/b||getv(&R)!=aa%b||!chk(&A,ca)||!chk(&R,ca)){ if(bad++<20) printf("div %zu %zu %lx %lx -> %lx %lx\n",ca,cb,aa,b,getv(&A),getv(&R));} }
				else if(!(e==EOVERFLOW && aa>b && ((aa>>(8*(ca-1)))!=0))) { if(bad++<20) printf("div err %d %zu %zu %lx %lx\n",e,ca,cb,aa,b);} 
				setv(&A,ca,aa); e=bn_div(&A,&B,&A);
				if(e==0){ if(getv(&A)!=aa%b||!chk(&A,ca)){ if(bad++<20) printf("mod %zu %zu %lx %lx -> %lx\n",ca,cb,aa,b,getv(&A));} }
			}
		}
		for(uint64_t a=0;a<ma;a+=sa) for(unsigned k=0;k<=8*ca+9;k++){
			setv(&A,ca,a); bn_l_shift(&A,k); uint64_t ex=(k>=64)?0:((a<<k)&(ma-1)); if(getv(&A)!=ex||!chk(&A,ca)){ if(bad++<20) printf("lsh %zu %lx %u -> %lx\n",ca,a,k,getv(&A));}
			setv(&A,ca,a); bn_r_shift(&A,k); ex=(k>=64)?0:(a>>k); if(getv(&A)!=ex||!chk(&A,ca)){ if(bad++<20) printf("rsh %zu %lx %u -> %lx\n",ca,a,k,getv(&A));}
		}
		for(uint64_t a=0;a<ma;a+=sa) for(unsigned d=0;d<256;d++){
			setv(&A,ca,a); int e=bn_mult_digit(&A,d); if(e==0){ if(getv(&A)!=a*d||a*d>=ma||!chk(&A,ca)){ if(bad++<20) printf("multd %zu %lx %u -> %lx\n",ca,a,d,getv(&A));} }
			setv(&A,ca,a); c=9; bn_add_digit(&A,d,&c); if(getv(&A)!=((a+d)&(ma-1))||(d&&c!=(a+d)/ma)||!chk(&A,ca)){ if(bad++<20) printf("addd %zu %lx %u -> %lx c%u\n",ca,a,d,getv(&A),c);} 
			setv(&A,ca,a); c=9; bn_sub_digit(&A,d,&c); if(getv(&A)!=((a-d)&(ma-1))||(d&&c!=(a<d))||!chk(&A,ca)){ if(bad++<20) printf("subd %zu %lx %u -> %lx c%u\n",ca,a,d,getv(&A),c);} 
		}
		for(uint64_t a=0;a<ma;a+=sa){ setv(&A,ca,a); int e=bn_sqrt1(&A); uint64_t r=0; while((r+1)*(r+1)<=a) r++; if(e||getv(&A)!=r){ if(bad++<20) printf("sqrt1 %lx -> %lx\n",a,getv(&A)); } setv(&A,ca,a); e=bn_sqrt2(&A); if(e||getv(&A)!=r){ if(bad++<20) printf("sqrt2 %lx -> %lx\n",a,getv(&A)); } }
	}
	printf("total bad=%ld\n",bad);
	return bad!=0;
}
