#!/bin/sh
# usage: common_run.sh <tree> <dir-of-demo> [extra cflags]
TREE="$1"; DIR="$2"; shift 2
CC="${CC:-gcc}"
FLAGS="-DHAVE_ACCEPT4 -DHAVE_EXPLICIT_BZERO -DHAVE_MEMMEM -DHAVE_MEMRCHR -DHAVE_PIPE2 -DHAVE_POSIX_SPAWN_FILE_ACTIONS_ADDCLOSEFROM_NP -DHAVE_PTHREAD_SETNAME_NP -DHAVE_REALLOCARRAY -DHAVE_SOCK_CLOEXEC -DHAVE_SOCK_NONBLOCK -DHAVE_STRNCASECMP -DLINUX -D_GNU_SOURCE -D__USE_GNU=1"
OUT="$(mktemp -d)"
$CC -O2 -g -fsanitize=address,undefined $FLAGS "$@" -I"$TREE/include" "$DIR/demo.c" -o "$OUT/demo" || { echo "BUILD FAILED"; exit 2; }
"$OUT/demo"; RC=$?
rm -rf "$OUT"
exit $RC
