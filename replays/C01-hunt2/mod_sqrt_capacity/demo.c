/* bn_mod_sqrt() answers -1 ("no square root") for a residue when the modulus
 * OBJECT has more capacity than 1 + 2 * MAX(bn->digits, m->digits) digits and
 * m = 1 (mod 8) (Tonelli-Shanks branch).  Same numbers, smaller capacity of
 * m: the root is found. */
#include <sys/param.h>
#include <sys/types.h>
#include <inttypes.h>
#include <string.h>
#include <stdio.h>
#include <errno.h>
#include "math/big_num.h"

static int
try_sqrt(size_t m_bits, size_t a_bits, const char *m_hex, const char *a_hex,
    const char *root1, const char *root2) {
	bn_t m, a, r1, r2;
	int ret;
	uint8_t buf[600];
	size_t l = 0;

	bn_init(&m, m_bits);
	bn_init(&a, a_bits);
	bn_init(&r1, BN_BIT_LEN);
	bn_init(&r2, BN_BIT_LEN);
	bn_import_be_hex(&m, (const uint8_t*)m_hex, strlen(m_hex));
	bn_import_be_hex(&a, (const uint8_t*)a_hex, strlen(a_hex));
	bn_import_be_hex(&r1, (const uint8_t*)root1, strlen(root1));
	bn_import_be_hex(&r2, (const uint8_t*)root2, strlen(root2));
	ret = bn_mod_sqrt(&a, &m, NULL);
	bn_export_be_hex(&a, BN_EXPORT_F_AUTO_SIZE, buf, sizeof(buf), &l);
	printf("  capacity(m) = %4zu bit, capacity(a) = %4zu bit: sqrt(%s) mod %s -> ret = %i, a = %s\n",
	    m_bits, a_bits, a_hex, m_hex, ret, buf);
	if (0 != ret)
		return (1);
	if (0 != bn_cmp(&a, &r1) && 0 != bn_cmp(&a, &r2))
		return (1);
	return (0);
}

int
main(void) {
	int bad = 0;
	const char *p224 = "ffffffffffffffffffffffffffffffff000000000000000000000001";
	const char *p224m2 = "fffffffffffffffffffffffffffffffeffffffffffffffffffffffff";

	printf("6^2 = 36 = 2 (mod 17): the square roots of 2 are 6 and 11 (0x0b)\n");
	bad |= try_sqrt(192, 192, "11", "02", "06", "0b"); /* OK */
	bad |= try_sqrt(BN_BIT_LEN, BN_BIT_LEN, "11", "02", "06", "0b"); /* -1 */
	bad |= try_sqrt(BN_BIT_LEN, 192, "11", "02", "06", "0b"); /* error? */
	printf("secp224r1 prime, sqrt(4) = 2 or p - 2\n");
	bad |= try_sqrt(576, 576, p224, "04", "02", p224m2); /* OK */
	bad |= try_sqrt(BN_BIT_LEN, BN_BIT_LEN, p224, "04", "02", p224m2); /* -1 */
	if (0 != bad) {
		printf("FAIL: bn_mod_sqrt() reports 'no root' (-1) depending on the capacity of the modulus object\n");
		return (1);
	}
	printf("OK\n");
	return (0);
}
