/* tp_thread_get_rr() - the documented way to pick a destination thread for a
 * message - updates tp->rr_idx with an unlocked increment / test / reset /
 * re-read sequence.  With concurrent senders the re-read sees the value
 * another sender has just incremented: the function returns
 * &threads[threads_max] (the shared virtual thread: the message is then run by
 * ANY worker) or an address behind the array. */
#include <sys/param.h>
#include <sys/types.h>
#include <inttypes.h>
#include <string.h>
#include <stdio.h>
#include <stdlib.h>
#include <errno.h>
#include <unistd.h>
#include <pthread.h>
#include "threadpool/threadpool.h"
#include "threadpool/threadpool_msg_sys.h"

#define NT 2
#define NS 4
static tp_p tp;
static volatile long n_pvt, n_oob, n_calls;
static volatile int stop;

static void *sender(void *arg) {
	tpt_p first = tp_thread_get(tp, 0), last = tp_thread_get(tp, NT - 1), pvt = tp_thread_get_pvt(tp);
	(void)arg;
	while (0 == stop) {
		tpt_p dst = tp_thread_get_rr(tp);
		__sync_fetch_and_add(&n_calls, 1);
		if ((uintptr_t)dst >= (uintptr_t)first && (uintptr_t)dst <= (uintptr_t)last)
			continue;
		if (dst == pvt) __sync_fetch_and_add(&n_pvt, 1);
		else __sync_fetch_and_add(&n_oob, 1);
	}
	return NULL;
}

int main(void) {
	tp_settings_t s; pthread_t th[NS];
	tp_settings_def(&s); s.flags = 0; s.threads_max = NT;
	if (0 != tp_create(&s, &tp)) return 2;
	for (int i = 0; i < NS; i ++) pthread_create(&th[i], NULL, sender, NULL);
	for (int i = 0; i < 100 && 0 == n_pvt && 0 == n_oob; i ++) usleep(100000);
	stop = 1;
	for (int i = 0; i < NS; i ++) pthread_join(th[i], NULL);
	printf("calls=%ld returned pvt (threads[threads_max])=%ld returned behind the array=%ld\n", n_calls, n_pvt, n_oob);
	if (0 != n_pvt || 0 != n_oob) { printf("FAIL: tp_thread_get_rr() returned something that is not a worker thread\n"); return 1; }
	tp_destroy(tp);
	printf("OK\n");
	return 0;
}
