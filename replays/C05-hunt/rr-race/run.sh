#!/bin/sh
# usage: run.sh <tree>
T=${1:-/tmp/hunt/C05}
D=$(cd "$(dirname "$0")" && pwd)
CF="-DHAVE_ACCEPT4 -DHAVE_EXPLICIT_BZERO -DHAVE_MEMMEM -DHAVE_MEMRCHR -DHAVE_PIPE2 -DHAVE_POSIX_SPAWN_FILE_ACTIONS_ADDCLOSEFROM_NP -DHAVE_PTHREAD_SETNAME_NP -DHAVE_REALLOCARRAY -DHAVE_SOCK_CLOEXEC -DHAVE_SOCK_NONBLOCK -DHAVE_STRNCASECMP -DLINUX -D_GNU_SOURCE -D__USE_GNU=1"
O=$(mktemp -d)
gcc -O1 -g -w  $CF -I"$T/include" "$D/demo.c" "$T/src/threadpool/threadpool.c" "$T/src/threadpool/threadpool_msg_sys.c" -lpthread -o "$O/demo" || exit 3
timeout 60 "$O/demo" 2>&1 | grep -v '^    #[0-9]* .*libasan\|^$' | head -60
rc=$(timeout 60 "$O/demo" >/dev/null 2>&1; echo $?)
rm -rf "$O"
[ "$rc" = 0 ] || exit 1
exit 0
