#!/bin/sh
# usage: run.sh <tree>
T=${1:-/tmp/hunt/C05}
D=$(cd "$(dirname "$0")" && pwd)
CF="-DHAVE_ACCEPT4 -DHAVE_EXPLICIT_BZERO -DHAVE_MEMMEM -DHAVE_MEMRCHR -DHAVE_PIPE2 -DHAVE_POSIX_SPAWN_FILE_ACTIONS_ADDCLOSEFROM_NP -DHAVE_PTHREAD_SETNAME_NP -DHAVE_REALLOCARRAY -DHAVE_SOCK_CLOEXEC -DHAVE_SOCK_NONBLOCK -DHAVE_STRNCASECMP -DLINUX -D_GNU_SOURCE -D__USE_GNU=1"
O=$(mktemp -d)
gcc -O1 -g -w -fsanitize=address -fno-omit-frame-pointer $CF -I"$T/include" "$D/demo.c" "$T/src/threadpool/threadpool.c" "$T/src/threadpool/threadpool_msg_sys.c" -lpthread -o "$O/demo" || exit 3
ASAN_OPTIONS=detect_leaks=0 timeout 60 "$O/demo" > "$O/out.txt" 2>&1; rc=$?
head -40 "$O/out.txt"
rm -rf "$O"
[ "$rc" = 0 ] || exit 1
exit 0
