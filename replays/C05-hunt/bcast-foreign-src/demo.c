/* Broadcast helpers assume that a non-NULL sender (src, or tpt_get_current()
 * when src is NULL) is a member of the destination pool.  A worker of pool B
 * that broadcasts to pool A is a legal sender (tpt_msg_cbsend() only needs a
 * src that can receive the done message):
 *  1. A has one thread: the callback is run in the CALLER (B's worker, with
 *     B's tpt) instead of on A's thread - or not at all with SELF_SKIP - and
 *     success is returned;
 *  2. A has two threads + TP_BMSG_F_SELF_SKIP: the active counter is
 *     decremented for a thread that is never skipped, so done_cb runs (and
 *     msg_data is freed) while A's second thread has not run the callback yet.
 */
#include <sys/param.h>
#include <sys/types.h>
#include <inttypes.h>
#include <string.h>
#include <stdio.h>
#include <stdlib.h>
#include <errno.h>
#include <unistd.h>
#include <pthread.h>
#include "threadpool/threadpool.h"
#include "threadpool/threadpool_msg_sys.h"

static tp_p tpA1, tpA2, tpB;
static volatile int fails;
static volatile int phase_done;

/* ---- case 1 ---- */
static volatile int c1_runs, c1_wrong;
static void c1_cb(tpt_p tpt, void *udata) {
	(void)udata;
	c1_runs ++;
	if (tpt != tp_thread_get(tpA1, 0) || tpt_get_current() != tp_thread_get(tpA1, 0)) {
		c1_wrong ++;
	}
}
static volatile int c1_done_runs;
static void c1_done(tpt_p tpt, size_t send_msg_cnt, size_t error_cnt, void *udata) {
	(void)tpt; (void)send_msg_cnt; (void)error_cnt; (void)udata;
	c1_done_runs ++;
}

/* ---- case 2 ---- */
static volatile int c2_finished, c2_done_seen, c2_finished_at_done = -1;
static volatile size_t c2_done_cnt;
static void c2_cb(tpt_p tpt, void *udata) {
	(void)udata;
	if (1 == tpt_get_num(tpt)) { /* A2's second thread is slow. */
		for (int i = 0; i < 300 && 0 == c2_done_seen; i ++) usleep(10000);
	}
	__sync_fetch_and_add(&c2_finished, 1);
}
static void c2_done(tpt_p tpt, size_t send_msg_cnt, size_t error_cnt, void *udata) {
	(void)tpt; (void)error_cnt; (void)udata;
	c2_finished_at_done = c2_finished;
	c2_done_cnt = send_msg_cnt;
	c2_done_seen = 1;
}

static void on_B_worker(tpt_p tpt, void *udata) {
	size_t sent = 99, errs = 99;
	int rc;
	(void)udata;

	/* case 1a: SYNC broadcast to the one thread pool A1. */
	c1_runs = 0; c1_wrong = 0;
	rc = tpt_msg_bsend_ex(tpA1, NULL, TP_BMSG_F_SYNC, c1_cb, NULL, &sent, &errs);
	printf("1a bsend(A1, SYNC) from B worker: rc=%d sent=%zu runs=%d on_wrong_thread=%d\n", rc, sent, c1_runs, c1_wrong);
	if (0 == rc && (1 != c1_runs || 0 != c1_wrong)) { fails ++; printf("FAIL 1a: callback did not run on A1's thread\n"); }

	/* case 1b: SELF_SKIP: the caller is not in A1, nothing to skip. */
	c1_runs = 0; c1_wrong = 0;
	rc = tpt_msg_bsend_ex(tpA1, NULL, TP_BMSG_F_SELF_SKIP, c1_cb, NULL, &sent, &errs);
	usleep(300000);
	printf("1b bsend(A1, SELF_SKIP) from B worker: rc=%d sent=%zu runs=%d\n", rc, sent, c1_runs);
	if (0 == rc && 1 != c1_runs) { fails ++; printf("FAIL 1b: success returned, A1's only thread never got the message\n"); }

	/* case 1c: cbsend. */
	c1_runs = 0; c1_wrong = 0;
	rc = tpt_msg_cbsend(tpA1, NULL, 0, c1_cb, NULL, c1_done);
	usleep(300000);
	printf("1c cbsend(A1) from B worker: rc=%d runs=%d on_wrong_thread=%d done=%d\n", rc, c1_runs, c1_wrong, c1_done_runs);
	if (0 == rc && (1 != c1_runs || 0 != c1_wrong)) { fails ++; printf("FAIL 1c: callback ran in the caller (pool B) instead of on A1's thread\n"); }

	/* case 2. */
	rc = tpt_msg_cbsend(tpA2, NULL, TP_CBMSG_F_SELF_SKIP, c2_cb, NULL, c2_done);
	printf("2  cbsend(A2, SELF_SKIP) from B worker: rc=%d\n", rc);
	phase_done = 1;
}

static tp_p mk(size_t n) {
	tp_settings_t s; tp_p tp = NULL;
	tp_settings_def(&s); s.flags = 0; s.threads_max = n;
	if (0 != tp_create(&s, &tp) || 0 != tp_threads_create(tp, 0)) { printf("pool create failed\n"); exit(2); }
	for (size_t i = 0; i < n; i ++) while (0 == tpt_is_running(tp_thread_get(tp, i))) usleep(1000);
	return tp;
}

int main(void) {
	setvbuf(stdout, NULL, _IONBF, 0);
	tpA1 = mk(1); tpA2 = mk(2); tpB = mk(1);
	usleep(50000);
	if (0 != tpt_msg_send(tp_thread_get(tpB, 0), NULL, 0, on_B_worker, NULL)) return 2;
	while (0 == phase_done) usleep(1000);
	for (int i = 0; i < 400 && 0 == c2_done_seen; i ++) usleep(10000);
	printf("2  done_cb: seen=%d send_msg_cnt=%zu callbacks finished when done_cb ran=%d\n",
	    c2_done_seen, c2_done_cnt, c2_finished_at_done);
	if (0 != c2_done_seen && (size_t)c2_finished_at_done != c2_done_cnt) {
		fails ++;
		printf("FAIL 2: done_cb(send_msg_cnt=%zu) ran after only %d callbacks; msg_data is freed while A2's thread 1 still uses it\n",
		    c2_done_cnt, c2_finished_at_done);
	}
	if (0 != fails) { printf("FAIL (%d)\n", fails); fflush(stdout); }
	usleep(500000); /* with ASan: heap-use-after-free in tpt_msg_active_thr_count_dec shows here */
	if (0 != fails) _exit(1);
	tp_destroy(tpB); tp_destroy(tpA1); tp_destroy(tpA2);
	printf("OK\n");
	return 0;
}
