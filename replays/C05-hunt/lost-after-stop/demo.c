/* A message whose tpt_msg_send() returned 0 is never delivered when the
 * destination's stop message was already read (in the same read() batch) by
 * the destination: tpt_loop() leaves as soon as the state is not RUNNING and
 * nobody looks at the queue again.
 * Scenario 1: pool size 1, only self-sends from callbacks, no timing at all.
 * Scenario 2: external sender, worker busy in a callback while tp_shutdown()
 *             is called (ordering forced with flags, no sleeps involved in
 *             the outcome). */
#include <sys/param.h>
#include <sys/types.h>
#include <inttypes.h>
#include <string.h>
#include <stdio.h>
#include <stdlib.h>
#include <errno.h>
#include <unistd.h>
#include "threadpool/threadpool.h"
#include "threadpool/threadpool_msg_sys.h"

static tp_p tp;
static int fails;

static tp_p mk(void) {
	tp_settings_t s; tp_p p = NULL;
	tp_settings_def(&s); s.flags = 0; s.threads_max = 1;
	if (0 != tp_create(&s, &p) || 0 != tp_threads_create(p, 0)) { printf("pool create failed\n"); exit(2); }
	while (0 == tpt_is_running(tp_thread_get(p, 0))) usleep(1000);
	return p;
}

/* ---------- scenario 1 ---------- */
static volatile int ran_A, ran_B, ran_M, rc_B = -1, rc_M = -1;
static void cb_M(tpt_p tpt, void *udata) { (void)tpt; (void)udata; ran_M ++; }
static void cb_B(tpt_p tpt, void *udata) {
	(void)udata;
	ran_B ++;
	/* The thread is RUNNING, the queue is almost empty: plain send to self. */
	rc_M = tpt_msg_send(tpt, tpt, 0, cb_M, (void*)0x1234);
}
static void cb_A(tpt_p tpt, void *udata) {
	(void)udata;
	ran_A ++;
	rc_B = tpt_msg_send(tpt, tpt, 0, cb_B, NULL); /* queue: [B] */
	tp_shutdown(tp);                               /* queue: [B, stop] */
}
static void scenario1(void) {
	int rc_A;
	tp = mk();
	rc_A = tpt_msg_send(tp_thread_get(tp, 0), NULL, 0, cb_A, NULL);
	while (EBUSY == tp_shutdown_wait(tp)) usleep(1000); /* until cb_A has called tp_shutdown(); then the worker is joined */
	printf("1: send A rc=%d ran=%d | send B rc=%d ran=%d | send M rc=%d ran=%d\n",
	    rc_A, ran_A, rc_B, ran_B, rc_M, ran_M);
	tp_destroy(tp);
	if (0 == rc_M && 1 != ran_M) {
		fails ++;
		printf("FAIL 1: tpt_msg_send() of M reported success but its callback ran %d times\n", ran_M);
	}
}

/* ---------- scenario 2 ---------- */
static volatile int in_L1, go_L1, in_L2, go_L2, ran_M2;
static void cb_L1(tpt_p tpt, void *udata) { (void)tpt; (void)udata; in_L1 = 1; while (0 == go_L1) usleep(100); }
static void cb_L2(tpt_p tpt, void *udata) { (void)tpt; (void)udata; in_L2 = 1; while (0 == go_L2) usleep(100); }
static void cb_M2(tpt_p tpt, void *udata) { (void)tpt; (void)udata; ran_M2 ++; }
static void scenario2(void) {
	tpt_p t0;
	int rc1, rc2, rcm;
	tp = mk();
	t0 = tp_thread_get(tp, 0);
	rc1 = tpt_msg_send(t0, NULL, 0, cb_L1, NULL);
	while (0 == in_L1) usleep(100);	/* worker is busy with the batch [L1] */
	rc2 = tpt_msg_send(t0, NULL, 0, cb_L2, NULL);
	tp_shutdown(tp);		/* queue: [L2, stop] */
	go_L1 = 1;
	while (0 == in_L2) usleep(100);	/* worker has read [L2, stop], runs L2, is RUNNING */
	rcm = tpt_msg_send(t0, NULL, 0, cb_M2, NULL);
	go_L2 = 1;
	tp_shutdown_wait(tp);
	printf("2: send L1 rc=%d, L2 rc=%d, M rc=%d (tpt_is_running at that time: yes) ran=%d\n", rc1, rc2, rcm, ran_M2);
	tp_destroy(tp);
	if (0 == rcm && 1 != ran_M2) {
		fails ++;
		printf("FAIL 2: tpt_msg_send() of M reported success but its callback ran %d times\n", ran_M2);
	}
}

int main(void) {
	setvbuf(stdout, NULL, _IONBF, 0);
	scenario1();
	scenario2();
	if (0 != fails) { printf("FAIL (%d)\n", fails); return 1; }
	printf("OK\n");
	return 0;
}
