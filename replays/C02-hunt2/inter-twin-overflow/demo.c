/* EC_PF_TWIN_MULT_ALGO_INTER: k*G + l*Q fails with EOVERFLOW (75) when a scalar
 * fills its bignum object (k >= 2^capacity - 7, k odd, k mod 16 >= 9), while the
 * binary / JSF twin multipliers return the right point for the same arguments. */
#include <sys/param.h>
#include <sys/types.h>
#include <inttypes.h>
#include <stdlib.h>
#include <stdio.h>
#include <string.h>
#include <errno.h>

/* configuration of tests/ecdsa/main.c */
#define BN_DIGIT_BIT_CNT 	64
#define BN_BIT_LEN		1408
#define BN_CC_MULL_DIV		1
#define BN_NO_POINTERS_CHK	1
#define BN_MOD_REDUCE_ALGO	BN_MOD_REDUCE_ALGO_BASIC
#define EC_USE_PROJECTIVE	1
#define EC_PROJ_REPEAT_DOUBLE	1
#define EC_PROJ_ADD_MIX		1
#define EC_PF_FXP_MULT_ALGO	EC_PF_FXP_MULT_ALGO_COMB_2T
#define EC_PF_FXP_MULT_WIN_BITS	9
#define EC_PF_UNKPT_MULT_ALGO	EC_PF_UNKPT_MULT_ALGO_COMB_1T
#define EC_PF_UNKPT_MULT_WIN_BITS 2
#define EC_PF_TWIN_MULT_ALGO	EC_PF_TWIN_MULT_ALGO_INTER
#include "crypto/dsa/ecdsa.h"

static ec_curve_t curve;

int main(void) {
	int e1, e2, e3, bad = 0;
	bn_t k, l;
	ec_point_t R1, R2, R3;
	const char *names[] = { "secp192k1", "secp256k1", "secp384r1" };
	size_t i;

	for (i = 0; i < 3; i ++) {
		if (0 != ecdsa_curve_from_str(ecdsa_curve_str_get_by_name(names[i], strlen(names[i])), &curve))
			return (2);
		/* k = 2^m - 1: bit length == curve size, object of curve size. */
		bn_init(&k, curve.m);
		bn_assign_2exp(&k, curve.m - 1);
		bn_sub_digit(&k, 1, NULL);
		bn_l_shift(&k, 1);
		bn_add_digit(&k, 1, NULL);
		bn_init(&l, curve.m);
		bn_assign_digit(&l, 5);
		ec_point_init(&R1, curve.m); ec_point_init(&R2, curve.m); ec_point_init(&R3, curve.m);
		/* dispatch macro of this build (INTER) */
		e1 = ec_point_twin_mult_bp(&k, &curve.G, &l, &curve, &R1);
		/* other selectable algorithms, same arguments */
		e2 = ec_point_proj_joint_twin_mult_affine(&curve.G, &k, &curve.G, &l, &curve, &R2);
		e3 = ec_point_proj_bin_twin_mult_affine(&curve.G, &k, &curve.G, &l, &curve, &R3);
		printf("%s: k=2^%zu-1 l=5: INTER err=%d  JSF err=%d  BIN err=%d  JSF==BIN:%d",
		    names[i], curve.m, e1, e2, e3, ec_point_is_eq(&R2, &R3));
		if (0 != e1 || 0 == ec_point_is_eq(&R1, &R3)) {
			printf("  -> FAIL (INTER does not return the point)\n");
			bad ++;
		} else {
			printf("  ok\n");
		}
	}
	return (bad ? 1 : 0);
}
