#!/bin/sh
T=${1:-/tmp/hunt/C02}
D=$(dirname "$0")
gcc -O1 -w -DHAVE_EXPLICIT_BZERO -DHAVE_MEMMEM -DHAVE_MEMRCHR -DHAVE_REALLOCARRAY -DHAVE_STRNCASECMP -DLINUX -D_GNU_SOURCE -D__USE_GNU=1 -I"$T/include" -o "$D/demo" "$D/demo.c" || exit 3
"$D/demo"
