/* A call-back broadcast (tpt_msg_cbsend) that is in flight when the pool is
 * shut down is never completed: the last worker reports to the originator
 * with tpt_msg_send(dst, ..., FAIL_DIRECT | SELF_DIRECT, done_proxy, msg_data);
 * the originator has already left its loop, tpt_msg_send() returns EHOSTDOWN
 * (FAIL_DIRECT only covers a failed write), the status is ignored, and the
 * msg_data block the library calloc()ed stays allocated after tp_destroy();
 * done_cb is never run. */
#define _GNU_SOURCE
#include <sys/param.h>
#include <sys/types.h>
#include <inttypes.h>
#include <string.h>
#include <stdio.h>
#include <stdlib.h>
#include <errno.h>
#include <unistd.h>
#include <semaphore.h>
#include <pthread.h>
#include "threadpool/threadpool.h"
#include "threadpool/threadpool_msg_sys.h"

static tp_p tp;
static sem_t busy, gate, sent;
static volatile int cbsend_ret = -1, n_work, n_done;

static void
slow_cb(tpt_p tpt, void *udata) { /* Thread 0: long running work. */
	sem_post(&busy);
	sem_wait(&gate);
}
static void work_cb(tpt_p tpt, void *udata) { __sync_fetch_and_add(&n_work, 1); }
static void
done_cb(tpt_p tpt, size_t send_msg_cnt, size_t error_cnt, void *udata) {
	__sync_fetch_and_add(&n_done, 1);
}
static void
originator_cb(tpt_p tpt, void *udata) { /* Thread 1 starts a broadcast with completion call-back. */
	cbsend_ret = tpt_msg_cbsend(tp, tpt, 0, work_cb, NULL, done_cb);
	sem_post(&sent);
}

int
main(void) {
	tp_settings_t s;
	int error;

	setvbuf(stdout, NULL, _IONBF, 0);
	sem_init(&busy, 0, 0); sem_init(&gate, 0, 0); sem_init(&sent, 0, 0);
	tp_settings_def(&s);
	s.flags = 0;
	s.threads_max = 2;
	if (0 != (error = tp_create(&s, &tp))) { printf("tp_create: %i\n", error); return (2); }
	tp_threads_create(tp, 0);
	tpt_msg_send(tp_thread_get(tp, 0), NULL, 0, slow_cb, NULL);
	sem_wait(&busy);
	tpt_msg_send(tp_thread_get(tp, 1), NULL, 0, originator_cb, NULL);
	sem_wait(&sent);
	tp_shutdown(tp);
	while (0 != tpt_is_running(tp_thread_get(tp, 1))) usleep(1000); /* Thread 1 did its share and left. */
	sem_post(&gate); /* Thread 0 continues: broadcast item, then the stop message. */
	error = tp_destroy(tp);
	printf("tpt_msg_cbsend = %i, tp_destroy = %i, msg_cb ran %i time(s), done_cb ran %i time(s)\n",
	    cbsend_ret, error, n_work, n_done);
	if (0 == cbsend_ret && 1 != n_done)
		puts("FAIL: accepted broadcast never completed; its msg_data is leaked (see LeakSanitizer)");
	else
		puts("OK");
	return ((0 == cbsend_ret && 1 != n_done) ? 1 : 0);
}
