/* tp_create() computes the allocation size as
 *   sizeof(tp_t) + (threads_max + 1) * sizeof(tp_thread_t)
 * without an overflow check.  A threads_max (it comes straight from the
 * "threadsCountMax" setting of tp_settings_load_xml()/_ini()) for which the
 * product wraps makes calloc() succeed with a block that has no room for the
 * thread array, and tp->threads[threads_max] (the virtual thread) is
 * initialised outside the block instead of tp_create() failing with ENOMEM. */
#define _GNU_SOURCE
#include <sys/param.h>
#include <sys/types.h>
#include <inttypes.h>
#include <string.h>
#include <stdio.h>
#include <stdlib.h>
#include <errno.h>
#include <unistd.h>
#include "threadpool/threadpool.h"

int
main(int argc, char **argv) {
	tp_p tp = NULL;
	tp_settings_t s;
	int error;

	setvbuf(stdout, NULL, _IONBF, 0);
	tp_settings_def(&s);
	s.flags = 0;
	/* (SIZE_MAX + 1) * size wraps to 0: only the header is allocated and
	 * threads[SIZE_MAX] is the element in front of the array. */
	s.threads_max = SIZE_MAX;
	printf("tp_create(threads_max = %zu) ...\n", s.threads_max);
	error = tp_create(&s, &tp);
	printf("tp_create = %i (%s)\n", error, strerror(error));
	if (0 == error) {
		puts("FAIL: pool with an impossible thread count was created");
		return (1);
	}
	puts("OK");
	return (0);
}
