/* tp_threads_create() throws the status of pthread_create() away: it returns
 * 0 when some - or all - worker threads could not be created.  The caller gets
 * a "started" pool with dead slots (here: with no thread at all) that
 * tp_thread_get_rr()/tp_thread_get() keep handing out. */
#define _GNU_SOURCE
#include <sys/param.h>
#include <sys/types.h>
#include <inttypes.h>
#include <string.h>
#include <stdio.h>
#include <stdlib.h>
#include <errno.h>
#include <unistd.h>
#include <dlfcn.h>
#include <pthread.h>
#include "threadpool/threadpool.h"
#include "threadpool/threadpool_msg_sys.h"

static int fail_from = 0, fail_to = 0, calls;

int
pthread_create(pthread_t *t, const pthread_attr_t *a, void *(*fn)(void*), void *arg) {
	static int (*real)(pthread_t*, const pthread_attr_t*, void *(*)(void*), void*);
	if (!real) real = dlsym(RTLD_NEXT, "pthread_create");
	calls ++;
	if (calls >= fail_from && calls <= fail_to)
		return (ENOMEM); /* Fault injection: k-th thread creation fails. */
	return (real(t, a, fn, arg));
}
static void nop_cb(tpt_p tpt, void *udata) { }

static int
run(int from, int to, size_t expect_running) {
	tp_p tp;
	tp_settings_t s;
	int error, e2, fail = 0;
	size_t running;

	tp_settings_def(&s);
	s.flags = 0;
	s.threads_max = 4;
	if (0 != (error = tp_create(&s, &tp))) { printf("tp_create: %i\n", error); exit(2); }
	calls = 0; fail_from = from; fail_to = to;
	error = tp_threads_create(tp, 0);
	fail_from = fail_to = 0;
	usleep(100000);
	running = tp_thread_count_get(tp);
	e2 = tpt_msg_send(tp_thread_get_rr(tp), NULL, 0, nop_cb, NULL);
	printf("pthread_create calls %i..%i fail: tp_threads_create = %i, running threads %zu of 4, "
	    "tpt_msg_send(tp_thread_get_rr()) = %i\n", from, to, error, running, e2);
	if (0 == error && 4 != running) fail = 1;
	tp_destroy(tp);
	return (fail);
}

int
main(void) {
	int fail = 0;
	setvbuf(stdout, NULL, _IONBF, 0);
	fail |= run(2, 2, 3);	/* One creation fails. */
	fail |= run(1, 4, 0);	/* Every creation fails. */
	puts(fail ? "FAIL: tp_threads_create() reported success although thread creation failed" : "OK");
	return (fail);
}
