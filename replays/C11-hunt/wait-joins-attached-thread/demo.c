/* tp_thread_attach_first() stores pthread_self() of the CALLER in
 * threads[0].pt_id; tp_shutdown_wait() then pthread_join()s it like a thread
 * the pool created.  The wait therefore does not end when thread 0 has left
 * the pool (tp_thread_attach_first() returned) but only when the caller's
 * thread function ends - and it consumes the caller's join (the owner's own
 * pthread_join() afterwards is a double join; for main() as thread 0 the wait
 * ends at process exit).  Here the attached thread waits, after
 * tp_thread_attach_first() returned, for the "pool is stopped" notification
 * that main posts after tp_shutdown_wait(): dead lock. */
#define _GNU_SOURCE
#include <sys/param.h>
#include <sys/types.h>
#include <inttypes.h>
#include <string.h>
#include <stdio.h>
#include <stdlib.h>
#include <errno.h>
#include <unistd.h>
#include <signal.h>
#include <semaphore.h>
#include <pthread.h>
#include "threadpool/threadpool.h"

static tp_p tp;
static sem_t stopped;
static volatile int attach_ret = -1, attach_returned;

static void *
first_thread(void *arg) {
	attach_ret = tp_thread_attach_first(tp); /* Runs the loop of thread 0. */
	attach_returned = 1;
	sem_wait(&stopped); /* Wait until the owner says that the pool is down, then clean up. */
	return (NULL);
}
static void
on_alarm(int sig) {
	char m[256];
	int n = snprintf(m, sizeof(m), "FAIL: tp_shutdown_wait() still blocked after 5 s although "
	    "tp_thread_attach_first() returned (%i) and tp_thread_count_get() = %zu\n",
	    attach_ret, tp_thread_count_get(tp));
	(void)!write(1, m, (size_t)n);
	_exit(1);
}

int
main(void) {
	tp_settings_t s;
	pthread_t t;
	int error;

	setvbuf(stdout, NULL, _IONBF, 0);
	sem_init(&stopped, 0, 0);
	tp_settings_def(&s);
	s.flags = 0;
	s.threads_max = 2;
	if (0 != (error = tp_create(&s, &tp))) { printf("tp_create: %i\n", error); return (2); }
	tp_threads_create(tp, 1); /* Thread 1. */
	pthread_create(&t, NULL, first_thread, NULL); /* Thread 0: attached. */
	while (2 != tp_thread_count_get(tp)) usleep(1000);

	tp_shutdown(tp);
	signal(SIGALRM, on_alarm);
	alarm(5);
	error = tp_shutdown_wait(tp);
	alarm(0);
	printf("tp_shutdown_wait = %i, attach returned: %i\n", error, attach_returned);
	sem_post(&stopped);
	error = pthread_join(t, NULL);
	printf("owner's pthread_join of its own thread = %i\n", error);
	error = tp_destroy(tp);
	printf("tp_destroy = %i\nOK\n", error);
	return (0);
}
