#define _GNU_SOURCE
#include <sys/param.h>
#include <sys/types.h>
#include <inttypes.h>
#include <string.h>
#include <stdio.h>
#include <stdlib.h>
#include <errno.h>
#include <unistd.h>
#include <pthread.h>
#include "threadpool/threadpool.h"
int main(void) {
	tp_p tp; tp_settings_t s;
	tp_settings_def(&s); s.flags = 0; s.threads_max = 2;
	if (tp_create(&s, &tp)) return 2;
	tp_threads_create(tp, 0);
	usleep(100000);
	tp_shutdown(tp);
	usleep(200000);
	tp_destroy(tp);
	return 0;
}
