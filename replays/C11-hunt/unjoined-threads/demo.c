/* tp_shutdown_wait()/tp_destroy() never join a worker that already reached
 * TP_THREAD_STATE_STOP: the joinable pthread is left behind (thread leak) and
 * tp_destroy() frees the pool without a happens-before edge to that thread. */
#define _GNU_SOURCE
#include <sys/param.h>
#include <sys/types.h>
#include <inttypes.h>
#include <string.h>
#include <stdio.h>
#include <stdlib.h>
#include <errno.h>
#include <unistd.h>
#include <dlfcn.h>
#include <pthread.h>
#include "threadpool/threadpool.h"

static volatile int n_create, n_join_ok;

/* Interpose (no library source is touched). */
int
pthread_create(pthread_t *t, const pthread_attr_t *a, void *(*fn)(void*), void *arg) {
	static int (*real)(pthread_t*, const pthread_attr_t*, void *(*)(void*), void*);
	int r;
	if (!real) real = dlsym(RTLD_NEXT, "pthread_create");
	r = real(t, a, fn, arg);
	if (0 == r) __sync_fetch_and_add(&n_create, 1);
	return (r);
}
int
pthread_join(pthread_t t, void **ret) {
	static int (*real)(pthread_t, void**);
	int r;
	if (!real) real = dlsym(RTLD_NEXT, "pthread_join");
	r = real(t, ret);
	if (0 == r) __sync_fetch_and_add(&n_join_ok, 1);
	return (r);
}

static size_t
vm_size_kb(void) {
	FILE *f = fopen("/proc/self/statm", "r");
	size_t pages = 0;
	if (f) { if (1 != fscanf(f, "%zu", &pages)) pages = 0; fclose(f); }
	return (pages * (size_t)sysconf(_SC_PAGESIZE) / 1024);
}

int
main(void) {
	tp_p tp;
	tp_settings_t s;
	int fail = 0, error;
	size_t vm0, vm1;
	const size_t thr = 4;

	/* Case 1: shutdown, threads finish, then destroy. */
	tp_settings_def(&s);
	s.flags = 0;
	s.threads_max = thr;
	if (0 != (error = tp_create(&s, &tp))) { printf("tp_create: %i\n", error); return (2); }
	tp_threads_create(tp, 0);
	usleep(100000);
	tp_shutdown(tp);
	usleep(200000); /* Every worker has left its loop and set state = STOP. */
	error = tp_destroy(tp);
	printf("case 1 (shutdown, idle 200 ms, destroy): tp_destroy = %i, threads created %i, joined %i\n",
	    error, n_create, n_join_ok);
	if (n_join_ok != n_create) fail = 1;

	/* Case 2: plain tp_destroy() of an idle pool, what the test-suite does. */
	n_create = 0; n_join_ok = 0;
	s.threads_max = 16;
	if (0 != (error = tp_create(&s, &tp))) { printf("tp_create: %i\n", error); return (2); }
	tp_threads_create(tp, 0);
	usleep(100000);
	error = tp_destroy(tp);
	printf("case 2 (destroy of an idle 16 thread pool): tp_destroy = %i, threads created %i, joined %i\n",
	    error, n_create, n_join_ok);
	if (n_join_ok != n_create) fail = 1;

	/* Case 3: the leak is real memory: stacks of never joined threads stay mapped. */
	vm0 = vm_size_kb();
	s.threads_max = thr;
	for (int i = 0; i < 200; i ++) {
		if (0 != (error = tp_create(&s, &tp))) { printf("tp_create: %i at %i\n", error, i); fail = 1; break; }
		tp_threads_create(tp, 0);
		while (thr != tp_thread_count_get(tp)) usleep(100);
		usleep(1000);
		tp_shutdown(tp);
		while (0 != tp_thread_count_get(tp)) usleep(100);
		usleep(2000);
		tp_destroy(tp);
	}
	vm1 = vm_size_kb();
	printf("case 3 (200 create/shutdown/destroy cycles, 4 threads): VmSize %zu kB -> %zu kB (+%zu MB)\n",
	    vm0, vm1, (vm1 - vm0) / 1024);
	if ((vm1 - vm0) > 512 * 1024) fail = 1;

	puts(fail ? "FAIL: worker threads are not joined (thread / stack leak)" : "OK");
	return (fail);
}
