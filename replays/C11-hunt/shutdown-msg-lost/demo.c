/* tp_shutdown() delivers the stop request as an ordinary message and ignores
 * the status of tpt_msg_send().  When the (non-blocking, 64 kB = 2048 message)
 * queue of a busy worker is full the request is dropped and nothing else ever
 * stops that worker: tp_shutdown_wait()/tp_destroy() block for ever. */
#define _GNU_SOURCE
#include <sys/param.h>
#include <sys/types.h>
#include <inttypes.h>
#include <string.h>
#include <stdio.h>
#include <stdlib.h>
#include <errno.h>
#include <unistd.h>
#include <signal.h>
#include <semaphore.h>
#include <pthread.h>
#include "threadpool/threadpool.h"
#include "threadpool/threadpool_msg_sys.h"

static sem_t gate, busy;
static volatile size_t processed;

static void
slow_cb(tpt_p tpt, void *udata) { /* A long running piece of work. */
	sem_post(&busy);
	sem_wait(&gate);
}
static void
work_cb(tpt_p tpt, void *udata) {
	processed ++;
}
static void
on_alarm(int sig) {
	static const char m[] = "FAIL: tp_destroy() still blocked 5 s after the worker drained "
	    "its queue: the shutdown request was lost\n";
	(void)!write(1, m, sizeof(m) - 1);
	_exit(1);
}

int
main(void) {
	tp_p tp;
	tp_settings_t s;
	int error;
	size_t sent = 0;

	setvbuf(stdout, NULL, _IONBF, 0);
	sem_init(&gate, 0, 0);
	sem_init(&busy, 0, 0);
	tp_settings_def(&s);
	s.flags = 0;
	s.threads_max = 1;
	if (0 != (error = tp_create(&s, &tp))) { printf("tp_create: %i\n", error); return (2); }
	tp_threads_create(tp, 0);

	/* In-flight work: the worker is busy, senders keep queueing. */
	tpt_msg_send(tp_thread_get(tp, 0), NULL, 0, slow_cb, NULL);
	sem_wait(&busy);
	while (0 == (error = tpt_msg_send(tp_thread_get(tp, 0), NULL, 0, work_cb, NULL)))
		sent ++;
	printf("queued %zu messages, then tpt_msg_send() = %i (%s)\n", sent, error, strerror(error));

	tp_shutdown(tp); /* Its message does not fit either; status ignored. */
	sem_post(&gate); /* The worker continues and drains the queue. */
	usleep(300000);
	printf("worker processed %zu of %zu messages, tp_thread_count_get() = %zu after tp_shutdown()\n",
	    processed, sent, tp_thread_count_get(tp));

	signal(SIGALRM, on_alarm);
	alarm(5);
	error = tp_destroy(tp);
	alarm(0);
	printf("tp_destroy = %i\nOK\n", error);
	return (0);
}
