/* tp_signal_handler_add_tp() stores the pool in the file-scope g_tp; only
 * tp_signal_handler() itself ever clears it.  tp_destroy() does not, so when
 * the pool was stopped any other way (tp_shutdown() from a pool thread, plain
 * tp_destroy()) the next SIGINT/SIGTERM makes tp_signal_handler() call
 * tp_shutdown() on the freed pool: write into freed memory, and - if the
 * latch word reads 0 there - the stop hook and tpt_msg_send() on freed
 * threads after tp_destroy() returned. */
#define _GNU_SOURCE
#include <sys/param.h>
#include <sys/types.h>
#include <inttypes.h>
#include <string.h>
#include <stdio.h>
#include <stdlib.h>
#include <errno.h>
#include <unistd.h>
#include <signal.h>
#include <pthread.h>
#include "threadpool/threadpool.h"

int
main(void) {
	tp_p tp;
	tp_settings_t s;
	int error;

	setvbuf(stdout, NULL, _IONBF, 0);
	tp_settings_def(&s);
	s.flags = 0;
	s.threads_max = 2;
	if (0 != (error = tp_create(&s, &tp))) { printf("tp_create: %i\n", error); return (2); }
	tp_signal_handler_add_tp(tp);
	signal(SIGTERM, tp_signal_handler);
	tp_threads_create(tp, 0);
	usleep(50000);
	error = tp_destroy(tp); /* Normal end of the pool, no signal was involved. */
	printf("tp_destroy = %i; now SIGTERM arrives\n", error);
	raise(SIGTERM); /* -> tp_signal_handler() -> tp_shutdown(g_tp): g_tp dangles. */
	puts("OK (no sanitizer report)");
	return (0);
}
