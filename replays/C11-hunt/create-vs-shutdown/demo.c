/* tp_threads_create() tests tp->shutdown once, before its loop.  A shutdown
 * issued while the loop is still creating threads (here: by the first worker,
 * from its start hook - "tp_shutdown() can be called by one of thread pool
 * thread") only reaches the workers that already exist.  The workers created
 * afterwards start in a pool that is shut down, get no stop message and
 * tp_shutdown_wait()/tp_destroy() never return.
 *
 * The schedule is fixed by interposing pthread_create(): the creator is held
 * after the first successful creation until the shutdown has been done. */
#define _GNU_SOURCE
#include <sys/param.h>
#include <sys/types.h>
#include <inttypes.h>
#include <string.h>
#include <stdio.h>
#include <stdlib.h>
#include <errno.h>
#include <unistd.h>
#include <signal.h>
#include <dlfcn.h>
#include <pthread.h>
#include "threadpool/threadpool.h"

#define NTHR 4
static tp_p tp;
static volatile int shutdown_done, n_create, hold = 1;
static volatile size_t started, stopped;

int
pthread_create(pthread_t *t, const pthread_attr_t *a, void *(*fn)(void*), void *arg) {
	static int (*real)(pthread_t*, const pthread_attr_t*, void *(*)(void*), void*);
	int r;
	if (!real) real = dlsym(RTLD_NEXT, "pthread_create");
	r = real(t, a, fn, arg);
	if (0 == r && 1 == __sync_add_and_fetch(&n_create, 1) && hold) {
		while (0 == shutdown_done) /* Scheduling point. */
			usleep(100);
	}
	return (r);
}

static void
on_start(tpt_p tpt) {
	if (NTHR == tpt_get_num(tpt)) /* Virtual thread. */
		return;
	__sync_fetch_and_add(&started, 1);
	if (0 == tpt_get_num(tpt)) {
		tp_shutdown(tp); /* Legal: from a pool thread. */
		shutdown_done = 1;
	}
}
static void
on_stop(tpt_p tpt) {
	if (NTHR == tpt_get_num(tpt)) /* Virtual thread. */
		return;
	__sync_fetch_and_add(&stopped, 1);
}
static void
on_alarm(int sig) {
	char m[256];
	int n = snprintf(m, sizeof(m), "FAIL: tp_destroy() blocked: %zu workers started, %zu stopped, "
	    "tp_thread_count_get() = %zu in a pool that is shut down\n",
	    started, stopped, tp_thread_count_get(tp));
	(void)!write(1, m, (size_t)n);
	_exit(1);
}

int
main(void) {
	tp_settings_t s;
	int error;

	setvbuf(stdout, NULL, _IONBF, 0);
	if (NULL != getenv("NOHOLD")) hold = 0; /* Natural timing instead of the fixed schedule. */
	tp_settings_def(&s);
	s.flags = 0;
	s.threads_max = NTHR;
	s.tpt_on_start = on_start;
	s.tpt_on_stop = on_stop;
	if (0 != (error = tp_create(&s, &tp))) { printf("tp_create: %i\n", error); return (2); }
	error = tp_threads_create(tp, 0);
	printf("tp_threads_create = %i, pthread_create calls that succeeded: %i\n", error, n_create);
	usleep(200000);
	printf("after 200 ms: started %zu, stopped %zu, running %zu\n",
	    started, stopped, tp_thread_count_get(tp));
	tp_shutdown(tp); /* Repeated call: no effect, the latch is taken. */

	signal(SIGALRM, on_alarm);
	alarm(5);
	error = tp_destroy(tp);
	alarm(0);
	printf("tp_destroy = %i, started %zu, stopped %zu\nOK\n", error, started, stopped);
	return (0);
}
