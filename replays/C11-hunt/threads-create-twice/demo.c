/* tp_threads_create() does not look at tpt->state (tp_thread_attach_first()
 * does: ESPIPE).  A repeated call - or tp_threads_create(tp, 0) while a thread
 * is attached as thread 0 - starts a second OS thread on every slot: the start
 * hook runs twice per pool thread, the first pthread id is overwritten and
 * never joined, and the extra threads (blocked in epoll_wait on the shared
 * descriptor, the single stop message is consumed by their twin) outlive
 * tp_destroy() and then use the freed pool. */
#define _GNU_SOURCE
#include <sys/param.h>
#include <sys/types.h>
#include <inttypes.h>
#include <string.h>
#include <stdio.h>
#include <stdlib.h>
#include <errno.h>
#include <unistd.h>
#include <dirent.h>
#include <pthread.h>
#include "threadpool/threadpool.h"

#define NTHR 3
static volatile size_t n_start[NTHR + 1], n_stop[NTHR + 1];

static void on_start(tpt_p tpt) { __sync_fetch_and_add(&n_start[tpt_get_num(tpt)], 1); }
static void on_stop(tpt_p tpt) { __sync_fetch_and_add(&n_stop[tpt_get_num(tpt)], 1); }

static size_t
os_threads(void) {
	DIR *d = opendir("/proc/self/task");
	struct dirent *e;
	size_t n = 0;
	while (NULL != (e = readdir(d)))
		if ('.' != e->d_name[0]) n ++;
	closedir(d);
	return (n);
}

int
main(void) {
	tp_p tp;
	tp_settings_t s;
	int e1, e2, error, fail = 0;
	size_t thr0, thr1, thr2;

	setvbuf(stdout, NULL, _IONBF, 0);
	thr0 = os_threads();
	tp_settings_def(&s);
	s.flags = 0;
	s.threads_max = NTHR;
	s.tpt_on_start = on_start;
	s.tpt_on_stop = on_stop;
	if (0 != (error = tp_create(&s, &tp))) { printf("tp_create: %i\n", error); return (2); }
	e1 = tp_threads_create(tp, 0);
	usleep(100000);
	e2 = tp_threads_create(tp, 0); /* Repeated call. */
	usleep(100000);
	thr1 = os_threads();
	printf("tp_threads_create #1 = %i, #2 = %i; OS threads %zu -> %zu for a pool of %i, "
	    "tp_thread_count_get() = %zu\n", e1, e2, thr0, thr1, NTHR, tp_thread_count_get(tp));
	for (size_t i = 0; i <= NTHR; i ++) {
		printf("  thread %zu%s: start hook ran %zu time(s)\n", i,
		    (NTHR == i ? " (virtual)" : ""), n_start[i]);
		if (1 != n_start[i]) fail = 1;
	}
	error = tp_destroy(tp);
	usleep(200000);
	thr2 = os_threads();
	printf("tp_destroy = %i; OS threads still alive after it returned: %zu (expected %zu)\n",
	    error, thr2, thr0);
	for (size_t i = 0; i <= NTHR; i ++) {
		printf("  thread %zu: stop hook ran %zu time(s)\n", i, n_stop[i]);
		if (n_stop[i] != n_start[i]) fail = 1;
	}
	if (thr2 != thr0) fail = 1;
	puts(fail ? "FAIL: hooks not exactly once per thread / threads left behind" : "OK");
	return (fail);
}
