/* The Linux back end keeps the timerfd/pidfd the pool creates for a
 * TP_EV_TIMER/TP_EV_PROC event in tp_udata->tpdata and uses 0 for "none".
 * In a process without descriptor 0 (stdin closed, usual for services)
 * timerfd_create() returns 0: the timer is armed and fires, but
 * tpt_ev_del()/disable answer ENOENT, the descriptor is never closed and the
 * call-back keeps running after the event was "deleted"; a second add creates
 * a second timerfd.  The descriptor stays open after tp_destroy(). */
#define _GNU_SOURCE
#include <sys/param.h>
#include <sys/types.h>
#include <sys/stat.h>
#include <inttypes.h>
#include <string.h>
#include <stdio.h>
#include <stdlib.h>
#include <errno.h>
#include <unistd.h>
#include <fcntl.h>
#include <pthread.h>
#include "threadpool/threadpool.h"

static volatile size_t fired;
static void timer_cb(tp_event_p ev, tp_udata_p tp_udata) { fired ++; }

static int
fd_is_open(int fd) { return (-1 != fcntl(fd, F_GETFD)); }

int
main(void) {
	tp_p tp;
	tp_settings_t s;
	tp_udata_t ud;
	int error, e_add, e_del, fail = 0;
	size_t f0, f1;
	char lnk[64] = "";

	setvbuf(stdout, NULL, _IONBF, 0);
	tp_settings_def(&s);
	s.flags = 0;
	s.threads_max = 1;
	if (0 != (error = tp_create(&s, &tp))) { printf("tp_create: %i\n", error); return (2); }
	tp_threads_create(tp, 0);
	close(0); /* No stdin. */

	memset(&ud, 0x00, sizeof(ud));
	ud.cb_func = timer_cb;
	ud.ident = 12345;
	e_add = tpt_ev_add_args(tp_thread_get(tp, 0), TP_EV_TIMER, 0, TP_FF_T_MSEC, 10, &ud);
	usleep(100000);
	f0 = fired;
	e_del = tpt_ev_del_args1(TP_EV_TIMER, &ud);
	usleep(20000);
	f1 = fired;
	usleep(100000);
	printf("add = %i, fired %zu times in 100 ms; del = %i (%s); fired %zu more times in the 100 ms after del\n",
	    e_add, f0, e_del, strerror(e_del), fired - f1);
	if (0 != e_del || fired != f1) fail = 1;
	error = tp_destroy(tp);
	if (fd_is_open(0)) {
		(void)!readlink("/proc/self/fd/0", lnk, sizeof(lnk) - 1);
		printf("tp_destroy = %i; descriptor 0 is still open after it: %s\n", error, lnk);
		fail = 1;
	}
	puts(fail ? "FAIL: timer descriptor 0 can not be deleted and is leaked" : "OK");
	return (fail);
}
