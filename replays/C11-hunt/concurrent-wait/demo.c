/* Two threads wait for the same pool: tp_shutdown_wait() in a helper and
 * tp_shutdown_wait() (or tp_destroy(), which calls it) in main - the case the
 * "Probably other thread also call this right now" arm of tp_shutdown_wait()
 * was written for.  Both waiters call pthread_join() on the same pthread_t.
 *
 * mode "raw":  what really happens here (glibc 2.36): the second
 *   pthread_join() never returns, not even after the worker is gone: the second
 *   waiter (and a tp_destroy() built on it) hangs for ever.
 * mode "einval": the documented behaviour the arm relies on is emulated by an
 *   interposed pthread_join() (EINVAL: "another thread is already waiting to
 *   join with this thread", pthread_join(3)).  The arm then overwrites the live
 *   worker's state with TP_THREAD_STATE_STOP, the "fallback polling"
 *   tp_thread_count_get() therefore sees 0 running threads and the wait
 *   returns 0 at once while the worker is still inside a callback:
 *   tp_destroy() would free the pool under the running worker. */
#define _GNU_SOURCE
#include <sys/param.h>
#include <sys/types.h>
#include <inttypes.h>
#include <string.h>
#include <stdio.h>
#include <stdlib.h>
#include <errno.h>
#include <unistd.h>
#include <signal.h>
#include <time.h>
#include <dlfcn.h>
#include <pthread.h>
#include "threadpool/threadpool.h"
#include "threadpool/threadpool_msg_sys.h"

static tp_p tp;
static volatile int in_cb, cb_done, helper_ret = -1, emulate_einval;
static pthread_t being_joined;
static volatile int being_joined_set;
static pthread_mutex_t jl = PTHREAD_MUTEX_INITIALIZER;

int
pthread_join(pthread_t t, void **ret) {
	static int (*real)(pthread_t, void**);
	int r;
	if (!real) real = dlsym(RTLD_NEXT, "pthread_join");
	if (0 == emulate_einval)
		return (real(t, ret));
	pthread_mutex_lock(&jl);
	if (being_joined_set && pthread_equal(being_joined, t)) {
		pthread_mutex_unlock(&jl);
		return (EINVAL); /* Another thread is already waiting to join with this thread. */
	}
	being_joined = t;
	being_joined_set = 1;
	pthread_mutex_unlock(&jl);
	r = real(t, ret);
	return (r); /* Entry stays: a joined id must not be joined again. */
}

static void
slow_cb(tpt_p tpt, void *udata) { /* In-flight work: 1 s. */
	in_cb = 1;
	usleep(1000000);
	cb_done = 1;
	in_cb = 0;
}
static void *
helper(void *arg) {
	helper_ret = tp_shutdown_wait(tp);
	return (NULL);
}
static double
now(void) {
	struct timespec ts;
	clock_gettime(CLOCK_MONOTONIC, &ts);
	return ((double)ts.tv_sec + (double)ts.tv_nsec / 1e9);
}
static void
on_alarm(int sig) {
	char m[256];
	int n = snprintf(m, sizeof(m), "FAIL: second tp_shutdown_wait() still blocked after 5 s; "
	    "first waiter returned %i, callback finished: %i, tp_thread_count_get() = %zu\n",
	    helper_ret, cb_done, tp_thread_count_get(tp));
	(void)!write(1, m, (size_t)n);
	_exit(1);
}

int
main(int argc, char **argv) {
	tp_settings_t s;
	pthread_t h;
	int error, fail = 0;
	double t0;
	size_t cnt;

	setvbuf(stdout, NULL, _IONBF, 0);
	emulate_einval = (1 < argc && 0 == strcmp(argv[1], "einval"));
	printf("mode: %s\n", (emulate_einval ? "einval (documented pthread_join error emulated)" : "raw"));
	tp_settings_def(&s);
	s.flags = 0;
	s.threads_max = 1;
	if (0 != (error = tp_create(&s, &tp))) { printf("tp_create: %i\n", error); return (2); }
	tp_threads_create(tp, 0);
	tpt_msg_send(tp_thread_get(tp, 0), NULL, 0, slow_cb, NULL);
	while (0 == in_cb) usleep(1000);

	tp_shutdown(tp);
	pthread_create(&h, NULL, helper, NULL); /* First waiter. */
	usleep(100000);

	signal(SIGALRM, on_alarm);
	alarm(5);
	t0 = now();
	error = tp_shutdown_wait(tp); /* Second, concurrent waiter. */
	alarm(0);
	cnt = tp_thread_count_get(tp);
	printf("second tp_shutdown_wait() = %i after %.3f s; worker still inside its callback: %s; "
	    "tp_thread_count_get() = %zu\n", error, now() - t0, (in_cb ? "YES" : "no"), cnt);
	if (0 == error && 0 != in_cb) {
		puts("FAIL: tp_shutdown_wait() returned success while a pool thread is still running "
		    "(tp_destroy() would now free the pool under it)");
		fail = 1;
	}
	pthread_join(h, NULL);
	printf("first waiter returned %i, callback finished: %i\n", helper_ret, cb_done);
	error = tp_destroy(tp);
	printf("tp_destroy = %i\n%s\n", error, (fail ? "FAIL" : "OK"));
	return (fail);
}
