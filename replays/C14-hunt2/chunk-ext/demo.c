/* http_data_decode_chunked(): the chunk-size line is parsed with ustrh2usize(),
 * which skips non-hex bytes and keeps accumulating: every hex letter/digit of a
 * chunk extension (RFC 7230 4.1.1, RFC 9112 7.1.1: "chunk-size [ chunk-ext ] CRLF",
 * a recipient MUST ignore unrecognized chunk extensions) becomes part of the size. */
#include <sys/param.h>
#include <sys/types.h>
#include <inttypes.h>
#include <string.h>
#include <stdio.h>
#include <errno.h>
#include <stdlib.h>
#include <time.h>
#include "proto/http.h"

int
main(void) {
	int error, fail = 0;
	uint8_t *ret;
	size_t ret_size;

	/* 1: a standard body with an extension is refused. */
	char b1[] = "5;ext=1\r\nhello\r\n0\r\n\r\n";
	ret = NULL; ret_size = 0;
	error = http_data_decode_chunked((uint8_t*)b1, (sizeof(b1) - 1), &ret, &ret_size);
	if (0 != error || 5 != ret_size || 0 != memcmp(ret, "hello", 5)) {
		printf("FAIL 1: \"5;ext=1 CRLF hello CRLF 0 CRLF CRLF\": error=%d size=%zu, expected 0 / 5 \"hello\"\n",
		    error, ret_size);
		fail ++;
	}

	/* 2: wrong data with success: "1;a" is read as 0x1a = 26. */
	char b2[] = "1;a\r\nX\r\n13\r\n0123456789012345678\r\n0\r\n\r\n";
	const char *exp2 = "X0123456789012345678";
	ret = NULL; ret_size = 0;
	error = http_data_decode_chunked((uint8_t*)b2, (sizeof(b2) - 1), &ret, &ret_size);
	if (0 != error || 20 != ret_size || 0 != memcmp(ret, exp2, 20)) {
		printf("FAIL 2: chunks \"1;a\"=X, \"13\"=19 digits: error=%d size=%zu data=\"",
		    error, ret_size);
		for (size_t i = 0; 0 == error && i < ret_size; i ++) {
			if (ret[i] < 0x20) printf("\\x%02x", ret[i]); else putchar(ret[i]);
		}
		printf("\", expected 0 / 20 \"%s\"\n", exp2);
		fail ++;
	}
	if (0 == fail)
		printf("OK\n");
	return (fail ? 1 : 0);
}
