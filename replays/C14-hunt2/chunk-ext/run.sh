#!/bin/sh
# usage: run.sh <tree>
T="${1:-/tmp/hunt/C14}"
D="$(dirname "$0")"
FL="-DHAVE_ACCEPT4 -DHAVE_EXPLICIT_BZERO -DHAVE_MEMMEM -DHAVE_MEMRCHR -DHAVE_PIPE2 -DHAVE_POSIX_SPAWN_FILE_ACTIONS_ADDCLOSEFROM_NP -DHAVE_PTHREAD_SETNAME_NP -DHAVE_REALLOCARRAY -DHAVE_SOCK_CLOEXEC -DHAVE_SOCK_NONBLOCK -DHAVE_STRNCASECMP -DLINUX -D_GNU_SOURCE -D__USE_GNU=1"
OUT="$(mktemp -d)"
gcc -O1 -g -fsanitize=address,undefined $FL -I"$T/include" "$D/demo.c" "$T/src/proto/http.c" -o "$OUT/demo" 2>"$OUT/build.log" || { cat "$OUT/build.log"; echo "BUILD FAIL"; exit 2; }
"$OUT/demo"
rc=$?
rm -rf "$OUT"
exit $rc
