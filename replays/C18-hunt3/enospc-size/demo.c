#include <sys/param.h>
#include <sys/types.h>
#include <inttypes.h>
#include <string.h>
#include <stdio.h>
#include <errno.h>
#include <stdlib.h>
#include "net/socket_address.h"
#include "net/utils.h"

/* On ENOSPC the formatters report three different things in *buf_size_ret:
 *  - port does not fit:         needed size including the terminator (usable),
 *  - UNIX path does not fit:    strlen (retry with it fails again),
 *  - IPv4/IPv6 text does not fit: sa_addr_to_str leaves it untouched,
 *                                 sa_addr_port_to_str reports 0.
 * A caller that sizes the buffer from the reported value never gets the text. */
static int try_grow(const struct sockaddr_storage *ss, const char *name, int with_port) {
	size_t bs = 4, r; int e = -1;
	for (int i = 0; i < 4; i ++) {
		char *b = malloc(bs);
		r = 0xdeadbeef;
		e = with_port ? sa_addr_port_to_str(ss, b, bs, &r) : sa_addr_to_str(ss, b, bs, &r);
		printf("  %s: buf_size %zu -> status %d, reported 0x%zx\n", name, bs, e, r);
		free(b);
		if (ENOSPC != e)
			break;
		if (0xdeadbeef == r) { printf("  reported size not written\n"); break; }
		if (0 == r) { printf("  reported size 0\n"); break; }
		bs = r;
	}
	return (0 != e);
}
int main(void) {
	int bad = 0; struct sockaddr_storage ss; struct in_addr a4; struct in6_addr a6;
	inet_pton(AF_INET, "192.168.100.200", &a4); inet_pton(AF_INET6, "2001:db8::1", &a6);
	sa_init(&ss, AF_INET, &a4, 8080);  bad += try_grow(&ss, "IPv4 addr", 0); bad += try_grow(&ss, "IPv4 addr:port", 1);
	sa_init(&ss, AF_INET6, &a6, 8080); bad += try_grow(&ss, "IPv6 addr", 0); bad += try_grow(&ss, "IPv6 [addr]:port", 1);
	sa_init(&ss, AF_UNIX, "/var/run/some.sock", 0); bad += try_grow(&ss, "UNIX", 0);
	printf("%s (%d of 5 sequences never produced the text)\n", bad ? "FAIL" : "ok", bad);
	return (bad ? 1 : 0);
}
