T=${1:-/tmp/hunt/C18}
F="-DHAVE_ACCEPT4 -DHAVE_EXPLICIT_BZERO -DHAVE_MEMMEM -DHAVE_MEMRCHR -DHAVE_PIPE2 -DHAVE_POSIX_SPAWN_FILE_ACTIONS_ADDCLOSEFROM_NP -DHAVE_PTHREAD_SETNAME_NP -DHAVE_REALLOCARRAY -DHAVE_SOCK_CLOEXEC -DHAVE_SOCK_NONBLOCK -DHAVE_STRNCASECMP -DLINUX -D_GNU_SOURCE -D__USE_GNU=1 -I$T/include"
clang -g -O1 -fsanitize=address,undefined -fno-sanitize-recover=undefined $F -o ${2:-probe} ${2:-probe}.c $T/src/net/socket_address.c $T/src/net/utils.c
