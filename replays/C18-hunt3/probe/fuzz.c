#include <sys/param.h>
#include <sys/types.h>
#include <inttypes.h>
#include <string.h>
#include <stdio.h>
#include <errno.h>
#include <stdlib.h>
#include "net/socket_address.h"
#include "net/utils.h"
static const char *frag[]={"1","2","255","256","0",".",":","::","[","]","/"," ","\t","ffff","80","65535","65536","1.2.3.4","::1","fe80","a","x","%","00","-","+","tmp","\0","12345678901234567890","aaaaaaaaaaaaaaaaaaaaaaaaaaaaaaaaaaaaaaaaaaaaaaaaaaaaa"};
int main(int argc,char**argv){ srand(argc>1?atoi(argv[1]):1); int bad=0; long acc=0;
 for(long it=0; it<3000000; it++){ char t[600]; size_t n=0; int k=1+rand()%8; for(int i=0;i<k;i++){ int f=rand()%(sizeof frag/sizeof*frag); size_t l = (f==27)?1:strlen(frag[f]); memcpy(t+n,frag[f],l); n+=l; }
  char *b=malloc(n?n:1); memcpy(b,t,n);
  struct sockaddr_storage s1,s2; char out[256]; size_t r; uint16_t pl;
  int e=sa_addr_port_from_str(&s1,b,n);
  if(!e){acc++; if(sa_addr_port_to_str(&s1,out,sizeof out,&r)){bad++;printf("fmt fail\n");} else { int e2=sa_addr_port_from_str(&s2,out,r); if(e2||!sa_addr_port_is_eq(&s1,&s2)){ /* known: unix trailing blank cannot occur since trimmed */ bad++; printf("RT fail: in='%.*s' out='%s' e2=%d\n",(int)n,b,out,e2);} } }
  e=sa_addr_from_str(&s1,b,n);
  if(!e){ if(sa_addr_to_str(&s1,out,sizeof out,&r)){bad++;printf("fmt2 fail\n");} else {int e2=sa_addr_from_str(&s2,out,r); if(e2||!sa_addr_is_eq(&s1,&s2)){bad++;printf("RT2 fail: in='%.*s' out='%s'\n",(int)n,b,out);} } }
  e=str_net_to_ss(b,n,&s1,&pl);
  if(!e){ if((s1.ss_family==AF_INET&&pl>32)||(s1.ss_family==AF_INET6&&pl>128)||(s1.ss_family!=AF_INET&&s1.ss_family!=AF_INET6)){bad++;printf("net bad: '%.*s' pl=%u\n",(int)n,b,pl);} }
  free(b);
 }
 printf("accepted=%ld bad=%d\n",acc,bad); return bad!=0; }
