#include <sys/param.h>
#include <sys/types.h>
#include <inttypes.h>
#include <string.h>
#include <stdio.h>
#include <errno.h>
#include <stdlib.h>
#include "net/socket_address.h"
#include "net/utils.h"

static void show(const char *t, size_t n) {
	struct sockaddr_storage ss; char out[256]; size_t r=999;
	memset(&ss,0xAA,sizeof ss);
	int e = sa_addr_port_from_str(&ss, t, n);
	printf("port_from_str(\"%.*s\"|%zu) = %d", (int)n, t, n, e);
	if (!e) { int e2 = sa_addr_port_to_str(&ss,out,sizeof out,&r); printf("  fam=%d -> \"%s\" (%d,%zu)", ss.ss_family, out, e2, r);} 
	printf("\n");
	memset(&ss,0xAA,sizeof ss);
	e = sa_addr_from_str(&ss, t, n);
	printf("     from_str = %d", e);
	if (!e) { int e2 = sa_addr_to_str(&ss,out,sizeof out,&r); printf("  fam=%d -> \"%s\" (%d,%zu)", ss.ss_family, out, e2, r);} 
	printf("\n");
	uint16_t pl=777;
	memset(&ss,0xAA,sizeof ss);
	e = str_net_to_ss(t,n,&ss,&pl);
	printf("     net = %d", e);
	if (!e) { sa_addr_to_str(&ss,out,sizeof out,&r); printf("  fam=%d -> \"%s\"/%u", ss.ss_family, out, pl);} 
	printf("\n");
}
int main(int argc, char **argv) {
	char line[1024];
	while (fgets(line,sizeof line,stdin)) { size_t n=strlen(line); if(n&&line[n-1]=='\n')n--; 
		/* \0 escapes */
		char b[1024]; size_t m=0; for(size_t i=0;i<n;i++){ if(line[i]=='\\'&&line[i+1]=='0'){b[m++]=0;i++;} else if(line[i]=='\\'&&line[i+1]=='t'){b[m++]='\t';i++;} else b[m++]=line[i];}
		show(b,m);} 
	return 0;
}
