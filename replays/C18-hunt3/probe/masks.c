#include <sys/param.h>
#include <sys/types.h>
#include <inttypes.h>
#include <string.h>
#include <stdio.h>
#include <errno.h>
#include <stdlib.h>
#include "net/socket_address.h"
#include "net/utils.h"
typedef unsigned __int128 u128;
static u128 ld(const uint8_t *b){u128 v=0;for(int i=0;i<16;i++)v=(v<<8)|b[i];return v;}
int main(){int bad=0;
 for(size_t l=0;l<=40;l++){struct in_addr m={0xdeadbeef};int e=inet_len2mask(l,&m);
  if(l>32){if(!e){bad++;printf("len2mask %zu accepted\n",l);}continue;}
  uint32_t exp=l?htonl(0xffffffffu<<(32-l)):0; if(e||m.s_addr!=exp){bad++;printf("len2mask %zu\n",l);} if(inet_mask2len(&m)!=(int)l){bad++;printf("mask2len %zu\n",l);} }
 for(size_t l=0;l<=140;l++){struct in6_addr m;memset(&m,0xAB,sizeof m);int e=inet6_len2mask(l,&m);
  if(l>128){if(!e){bad++;printf("6len2mask %zu accepted\n",l);}continue;}
  u128 exp=l?(~(u128)0)<<(128-l):0; if(e||ld(m.s6_addr)!=exp){bad++;printf("6len2mask %zu\n",l);} if(inet6_mask2len(&m)!=(int)l){bad++;printf("6mask2len %zu -> %d\n",l,inet6_mask2len(&m));}
  /* truncate */
  struct sockaddr_storage ss; struct in6_addr a; for(int t=0;t<50;t++){ for(int i=0;i<16;i++)a.s6_addr[i]=rand(); if(t==0)memset(&a,0xff,16);
   sa_init(&ss,AF_INET6,&a,0); net_addr_truncate_preflen(&ss,l); u128 got=ld(((struct sockaddr_in6*)&ss)->sin6_addr.s6_addr); if(got!=(ld(a.s6_addr)&exp)){bad++;printf("trunc6 %zu\n",l);} 
   struct in6_addr n; memcpy(&n,&((struct sockaddr_in6*)&ss)->sin6_addr,16);
   if(!is_addr_in_net(AF_INET6,(uint32_t*)&n,(uint32_t*)&m,(uint32_t*)&a)){bad++;printf("innet6 %zu\n",l);} 
   struct in6_addr b; for(int i=0;i<16;i++)b.s6_addr[i]=rand(); int in=((ld(b.s6_addr)&exp)==got); if(in!=is_addr_in_net(AF_INET6,(uint32_t*)&n,(uint32_t*)&m,(uint32_t*)&b)){bad++;printf("innet6b %zu\n",l);} 
   if(l<128){ u128 bb=got | ((~exp)&ld(b.s6_addr)); bb ^= ((u128)1)<<(127-l) ; /* flip first host bit: still in */ }
  }
 }
 /* v4 all masks non-contiguous sample: every 2-bit pattern */
 long nc=0; for(uint64_t v=0; v<=0xffffffffull; v+= 1){ struct in_addr m; m.s_addr=htonl((uint32_t)v); int r=inet_mask2len(&m); uint32_t x=(uint32_t)v; int valid = ((~x & (~x+1))==0) ? 1 : (((~x)+1 & (~x))==0); 
   int expl=-1; if(valid){expl=__builtin_popcount(x);} if(valid? r!=expl : r!=0){ if(nc++<5)printf("mask2len %08x -> %d exp %d\n",x,r,expl); } }
 printf("v4 mismatches %ld\n",nc); bad+=nc!=0;
 /* v4 trunc */
 for(int l=0;l<=32;l++)for(int t=0;t<1000;t++){uint32_t a=rand()*65536u^rand(); struct in_addr ia={htonl(a)}; struct sockaddr_storage ss; sa_init(&ss,AF_INET,&ia,0); net_addr_truncate_preflen(&ss,l); uint32_t mk=l?0xffffffffu<<(32-l):0; if(ntohl(((struct sockaddr_in*)&ss)->sin_addr.s_addr)!=(a&mk)){bad++;printf("trunc4 %d\n",l);} }
 /* 6 non contiguous */
 {struct in6_addr m; memset(&m,0xff,16); m.s6_addr[5]=0xfe; printf("nc6a %d\n",inet6_mask2len(&m)); memset(&m,0,16); m.s6_addr[15]=1; printf("nc6b %d\n",inet6_mask2len(&m)); memset(&m,0xff,16); m.s6_addr[4]=0x7f; printf("nc6c %d\n",inet6_mask2len(&m)); memset(&m,0,16); m.s6_addr[0]=0xff; m.s6_addr[3]=0x80; printf("nc6d %d\n",inet6_mask2len(&m)); m.s6_addr[3]=0; m.s6_addr[2]=0xff; printf("nc6e %d\n",inet6_mask2len(&m));}
 printf("bad=%d\n",bad);return bad!=0;}
