#include <sys/param.h>
#include <sys/types.h>
#include <inttypes.h>
#include <string.h>
#include <stdio.h>
#include <errno.h>
#include <stdlib.h>
#include "net/socket_address.h"
#include "net/utils.h"
static int bad=0;
static void chk(struct sockaddr_storage *ss, const char *exp_port, const char *exp_addr){
	for (int withport=0; withport<2; withport++){
		const char *exp = withport?exp_port:exp_addr; size_t L=strlen(exp);
		for (size_t bs=1; bs<=L+20; bs++){
			char *b = malloc(bs); memset(b,'#',bs); size_t r=12345;
			int e = withport? sa_addr_port_to_str(ss,b,bs,&r) : sa_addr_to_str(ss,b,bs,&r);
			int ok = (bs>=L+1);
			if (ok && (e!=0 || strcmp(b,exp) || r!=L)) {bad++; printf("FAIL %s bs=%zu e=%d r=%zu out=%.*s\n",exp,bs,e,r,(int)bs,b);} 
			if (!ok && e==0) {bad++; printf("FAIL short-ok %s bs=%zu e=%d r=%zu\n",exp,bs,e,r);} 
			if (!ok && e!=0 && e!=ENOSPC) {bad++; printf("FAIL errcode %s bs=%zu e=%d\n",exp,bs,e);} 
			if (!ok && e==ENOSPC && (r==12345 || r< L)) { static int n; if(n++<12) printf("note: %s bs=%zu ENOSPC r=%zu (need %zu)\n",exp,bs,r,L+1);} 
			free(b);
		}
	}
}
int main(){
	struct sockaddr_storage ss; char e1[300],e2[300],a[100];
	const char *v4[]={"0.0.0.0","255.255.255.255","1.2.3.4","127.0.0.1","100.100.100.100","9.9.9.9"};
	const char *v6[]={"::","::1","1::","1:2:3:4:5:6:7:8","ffff:ffff:ffff:ffff:ffff:ffff:ffff:ffff","2001:db8::1","1:0:0:2::3","1::2:0:0:3","::ffff:1.2.3.4","::ffff:255.255.255.255","1:0:2:0:3:0:4:0","0:1:0:2:0:3:0:4","fe80::1:80", "1:2:3:4:5:6:7::","::2:3:4:5:6:7:8","64:ff9b::1.2.3.4"};
	int ports[]={0,1,9,10,99,100,999,1000,9999,10000,65535,80};
	for(unsigned i=0;i<sizeof v4/sizeof*v4;i++) for(unsigned p=0;p<sizeof ports/sizeof*ports;p++){
		struct in_addr ia; inet_pton(AF_INET,v4[i],&ia); sa_init(&ss,AF_INET,&ia,ports[p]);
		if(ports[p]) sprintf(e1,"%s:%d",v4[i],ports[p]); else sprintf(e1,"%s",v4[i]);
		chk(&ss,e1,v4[i]);
	}
	for(unsigned i=0;i<sizeof v6/sizeof*v6;i++) for(unsigned p=0;p<sizeof ports/sizeof*ports;p++){
		struct in6_addr ia; inet_pton(AF_INET6,v6[i],&ia); inet_ntop(AF_INET6,&ia,a,sizeof a); sa_init(&ss,AF_INET6,&ia,ports[p]);
		if(ports[p]) sprintf(e1,"[%s]:%d",a,ports[p]); else sprintf(e1,"[%s]",a);
		chk(&ss,e1,a);
	}
	/* unix */
	for (int L=1; L<=108; L++){ char p[200]; memset(p,'a',L); p[0]='/'; p[L]=0; 
		int e=sa_init(&ss,AF_UNIX,p,0); if (L<=107 && e){bad++;printf("FAIL unix init L=%d e=%d\n",L,e);} if(L==108){ if(!e){bad++;printf("FAIL 108 accepted\n");} sa_init(&ss,AF_UNIX,NULL,0); memcpy(((struct sockaddr_un*)&ss)->sun_path,p,108);} 
		chk(&ss,p,p);
		/* round trip */
		struct sockaddr_storage s2; e=sa_addr_port_from_str(&s2,p,L); if(e||!sa_addr_is_eq(&ss,&s2)) {printf("unix rt L=%d e=%d\n",L,e);} 
	}
	printf("bad=%d\n",bad); return bad!=0;
}
