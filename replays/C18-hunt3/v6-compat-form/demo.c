#include <sys/param.h>
#include <sys/types.h>
#include <inttypes.h>
#include <string.h>
#include <stdio.h>
#include <errno.h>
#include <stdlib.h>
#include "net/socket_address.h"
#include "net/utils.h"

/* sa_addr_to_str()/sa_addr_port_to_str() write addresses of ::/96 whose upper
 * 16 bits of the last 32 are not zero in the deprecated IPv4-compatible mixed
 * form: ::1:80 -> "::0.1.0.128".  RFC 5952 4/5 (and Python ipaddress) give "::1:80". */
static const struct { uint8_t a[16]; uint16_t port; const char *exp_addr, *exp_port; } tv[] = {
	{ {0,0,0,0,0,0,0,0,0,0,0,0,0,1,0,0x80}, 0,   "::1:80",    "[::1:80]" },
	{ {0,0,0,0,0,0,0,0,0,0,0,0,0,1,0,0},    80,  "::1:0",     "[::1:0]:80" },
	{ {0,0,0,0,0,0,0,0,0,0,0,0,0xab,0xcd,0x12,0x34}, 443, "::abcd:1234", "[::abcd:1234]:443" },
	/* controls, must stay as they are */
	{ {0,0,0,0,0,0,0,0,0,0,0xff,0xff,1,2,3,4}, 80, "::ffff:1.2.3.4", "[::ffff:1.2.3.4]:80" },
	{ {0,0,0,0,0,0,0,0,0,0,0,0,0,0,0,1}, 80, "::1", "[::1]:80" },
};
int main(void) {
	int bad = 0;
	for (size_t i = 0; i < sizeof(tv) / sizeof(tv[0]); i ++) {
		struct sockaddr_storage ss; char b1[128], b2[128];
		sa_init(&ss, AF_INET6, tv[i].a, tv[i].port);
		sa_addr_to_str(&ss, b1, sizeof(b1), NULL);
		sa_addr_port_to_str(&ss, b2, sizeof(b2), NULL);
		int f = (0 != strcmp(b1, tv[i].exp_addr) || 0 != strcmp(b2, tv[i].exp_port));
		printf("%s  got \"%s\" / \"%s\"  expected \"%s\" / \"%s\"\n", f ? "FAIL" : "ok  ",
		    b1, b2, tv[i].exp_addr, tv[i].exp_port);
		bad += f;
	}
	return (bad ? 1 : 0);
}
