#include <sys/param.h>
#include <sys/types.h>
#include <inttypes.h>
#include <string.h>
#include <stdio.h>
#include <errno.h>
#include <stdlib.h>
#include "net/socket_address.h"
#include "net/utils.h"

/* str_net_to_ss(): blanks are tolerated in front of the text and between the
 * address and '/', but not behind the prefix length; "10.0.0.0 /8" is not a
 * network spelling anywhere (Python ipaddress refuses it), while the address
 * parsers of the same library accept " text " (blanks around the whole). */
static const struct { const char *t; int exp_ok; } tv[] = {
	{ "10.0.0.0/8", 1 },
	{ "10.0.0.0 /8", 0 },          /* accepted: blank inside the text */
	{ "10.0.0.0\t \t/8", 0 },      /* accepted */
	{ "[2001:db8::] /32", 0 },     /* accepted */
	{ "10.0.0.0/ 8", 0 },          /* refused (good) */
};
int main(void) {
	int bad = 0;
	for (size_t i = 0; i < sizeof(tv) / sizeof(tv[0]); i ++) {
		struct sockaddr_storage ss; uint16_t pl = 0;
		int e = str_net_to_ss(tv[i].t, strlen(tv[i].t), &ss, &pl);
		int f = ((0 == e) != tv[i].exp_ok);
		printf("%s  str_net_to_ss(\"%s\") = %d (preflen %u), expected %s\n", f ? "FAIL" : "ok  ",
		    tv[i].t, e, pl, tv[i].exp_ok ? "0" : "EINVAL");
		bad += f;
	}
	/* The asymmetry: leading blank accepted, trailing blank refused. */
	{
		struct sockaddr_storage ss; uint16_t pl;
		int e1 = str_net_to_ss(" 10.0.0.0/8", 11, &ss, &pl);
		int e2 = str_net_to_ss("10.0.0.0/8 ", 11, &ss, &pl);
		int f = ((0 == e1) != (0 == e2));
		printf("%s  \" 10.0.0.0/8\" -> %d, \"10.0.0.0/8 \" -> %d: expected the same answer\n", f ? "FAIL" : "ok  ", e1, e2);
		bad += f;
	}
	return (bad ? 1 : 0);
}
