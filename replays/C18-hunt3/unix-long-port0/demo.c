#include <sys/param.h>
#include <sys/types.h>
#include <inttypes.h>
#include <string.h>
#include <stdio.h>
#include <errno.h>
#include <stdlib.h>
#include "net/socket_address.h"
#include "net/utils.h"

/* sa_addr_port_from_str(): a UNIX path too long for sun_path (whole text is
 * therefore not an address) is cut at its last ':' when only "0"s follow,
 * and the shorter path is returned with status 0.  The same text one
 * character shorter keeps its ":0".  A path that does not fit must be EINVAL
 * (that is what the 2dfe438 fix established for truncation). */
int main(void) {
	int bad = 0;
	char t[256]; struct sockaddr_storage ss; char out[256]; size_t r;
	/* 109 characters: '/' + 106 'a' + ":0"; path part = 107 = fits. */
	memset(t, 'a', sizeof(t)); t[0] = '/'; memcpy(t + 107, ":0", 3);
	int e = sa_addr_port_from_str(&ss, t, strlen(t));
	printf("text of %zu chars \"/aaa...a:0\": status %d", strlen(t), e);
	if (0 == e) {
		sa_addr_to_str(&ss, out, sizeof(out), &r);
		printf(", family %d, path length %zu, ends with \"%s\"", ss.ss_family, r, out + r - 3);
		printf("\nFAIL  a 109 character path was accepted as a different, 107 character path\n");
		bad ++;
	} else printf("\nok\n");
	/* Control: short text keeps ':0' in the path. */
	e = sa_addr_port_from_str(&ss, "/tmp/x:0", 8);
	sa_addr_to_str(&ss, out, sizeof(out), &r);
	printf("control \"/tmp/x:0\" -> %d \"%s\"\n", e, out);
	/* Same with more zeros and 200 chars before: */
	memset(t, 'a', sizeof(t)); t[0] = '.'; memcpy(t + 107, ":00000", 7);
	e = sa_addr_port_from_str(&ss, t, strlen(t));
	printf("text of %zu chars \".aaa...a:00000\": status %d %s\n", strlen(t), e, e ? "ok" : "FAIL");
	bad += (0 == e);
	return (bad ? 1 : 0);
}
