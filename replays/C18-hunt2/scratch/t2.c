#include <sys/param.h>
#include <sys/types.h>
#include <inttypes.h>
#include <string.h>
#include <stdio.h>
#include <errno.h>
#include <stdlib.h>
#include "net/socket_address.h"
#include "net/utils.h"
static int fails;
#define F(...) do { if (fails++ < 40) { printf("FAIL "); printf(__VA_ARGS__); printf("\n"); } } while (0)
static void m128(unsigned len, uint8_t *m) { memset(m, 0, 16); for (unsigned i = 0; i < len; i++) m[i/8] |= (uint8_t)(0x80 >> (i%8)); }
int main(void) {
	/* v4 masks */
	for (unsigned l = 0; l <= 40; l++) {
		struct in_addr m; m.s_addr = 0x12345678;
		int e = inet_len2mask(l, &m);
		if (l > 32) { if (!e) F("len2mask %u accepted", l); continue; }
		uint32_t ex = l ? htonl(0xffffffffu << (32 - l)) : 0;
		if (e || m.s_addr != ex) F("len2mask %u -> %x", l, m.s_addr);
		if (inet_mask2len(&m) != (int)l) F("mask2len %u -> %d", l, inet_mask2len(&m));
	}
	/* non-contiguous v4 */
	srand(1);
	for (int i = 0; i < 2000000; i++) {
		uint32_t h = ((uint32_t)rand() << 16) ^ (uint32_t)rand(); if (i < 64) h ^= 0; 
		struct in_addr m; m.s_addr = htonl(h);
		uint32_t inv = ~h; int contig = ((inv & (inv + 1)) == 0);
		int r = inet_mask2len(&m);
		int ex = contig ? __builtin_popcount(h) : 0;
		if (r != ex) F("mask2len %08x -> %d ex %d", h, r, ex);
	}
	for (unsigned l = 0; l <= 140; l++) {
		struct in6_addr m; memset(&m, 0x5a, sizeof m); uint8_t ex[16];
		int e = inet6_len2mask(l, &m);
		if (l > 128) { if (!e) F("len2mask6 %u accepted", l); continue; }
		m128(l, ex);
		if (e || memcmp(&m, ex, 16)) F("len2mask6 %u", l);
		if (inet6_mask2len(&m) != (int)l) F("mask2len6 %u -> %d", l, inet6_mask2len(&m));
		/* one bit flips: non-contiguous */
		for (unsigned b = 0; b < 128; b++) {
			struct in6_addr x = m; x.s6_addr[b/8] ^= (uint8_t)(0x80 >> (b%8));
			int exl; if (b == l) exl = (int)l + 1; else if (l > 0 && b == l - 1) exl = (int)l - 1; else exl = 0;
			if (inet6_mask2len(&x) != exl) F("mask2len6 len %u flip %u -> %d ex %d", l, b, inet6_mask2len(&x), exl);
		}
	}
	/* truncate + membership */
	for (int i = 0; i < 200000; i++) {
		struct sockaddr_storage ss; uint8_t a[16], m[16], ex[16], o[16]; unsigned l = (unsigned)rand() % 129;
		for (int k = 0; k < 16; k++) { a[k] = (uint8_t)rand(); o[k] = (uint8_t)rand(); }
		if (rand() & 1) memcpy(o, a, l / 8);
		sa_init(&ss, AF_INET6, a, 0);
		net_addr_truncate_preflen(&ss, (uint16_t)l);
		m128(l, m); int in = 1; for (int k = 0; k < 16; k++) { ex[k] = a[k] & m[k]; if ((o[k] & m[k]) != ex[k]) in = 0; }
		if (memcmp(&((struct sockaddr_in6*)&ss)->sin6_addr, ex, 16)) F("trunc6 %u", l);
		uint32_t n32[4], m32[4], o32[4]; memcpy(n32, ex, 16); memcpy(m32, m, 16); memcpy(o32, o, 16);
		if (is_addr_in_net(AF_INET6, n32, m32, o32) != in) F("in_net6 %u", l);
		/* v4 */
		unsigned l4 = (unsigned)rand() % 33; uint32_t ha = ((uint32_t)rand() << 16) ^ (uint32_t)rand(), ho = ((uint32_t)rand() << 16) ^ (uint32_t)rand();
		uint32_t hm = l4 ? 0xffffffffu << (32 - l4) : 0; if (rand() & 1) ho = (ha & hm) | (ho & ~hm);
		uint32_t na = htonl(ha);
		sa_init(&ss, AF_INET, &na, 0);
		net_addr_truncate_preflen(&ss, (uint16_t)l4);
		if (((struct sockaddr_in*)&ss)->sin_addr.s_addr != htonl(ha & hm)) F("trunc4 %u", l4);
		uint32_t n = htonl(ha & hm), mm = htonl(hm), oo = htonl(ho);
		if (is_addr_in_net(AF_INET, &n, &mm, &oo) != ((ho & hm) == (ha & hm))) F("in_net4");
	}
	/* IPv6 shapes round trip */
	uint16_t vals[] = {0, 1, 0x80, 0xabcd, 0xffff, 0x0a00};
	uint16_t ports[] = {0, 1, 80, 443, 9999, 10000, 65535};
	for (unsigned shape = 0; shape < 256; shape++) for (unsigned v = 1; v < 6; v++) for (unsigned pi = 0; pi < 7; pi++) {
		uint16_t g[8]; for (int k = 0; k < 8; k++) g[k] = htons((shape >> k) & 1 ? vals[(v + (unsigned)k) % 5 + 1] : 0);
		struct sockaddr_storage ss, b1, b2, b3; char t1[128], t2[128], ref[64]; size_t r1, r2;
		sa_init(&ss, AF_INET6, g, ports[pi]);
		inet_ntop(AF_INET6, g, ref, sizeof ref);
		if (sa_addr_to_str(&ss, t1, sizeof t1, &r1) || strcmp(t1, ref) || r1 != strlen(ref)) F("to_str %s", ref);
		if (sa_addr_port_to_str(&ss, t2, sizeof t2, &r2) || r2 != strlen(t2)) F("port_to_str %s", ref);
		char ex[128]; if (ports[pi]) snprintf(ex, sizeof ex, "[%s]:%u", ref, ports[pi]); else snprintf(ex, sizeof ex, "[%s]", ref);
		if (strcmp(ex, t2)) F("port_to_str %s != %s", t2, ex);
		if (sa_addr_from_str(&b1, t1, r1) || !sa_addr_is_eq(&b1, &ss)) F("from_str(%s)", t1);
		if (sa_addr_port_from_str(&b2, t1, r1) || !sa_addr_is_eq(&b2, &ss) || sa_port_get(&b2)) F("port_from_str(%s)", t1);
		if (sa_addr_port_from_str(&b3, t2, r2) || !sa_addr_port_is_eq(&b3, &ss)) F("port_from_str(%s)", t2);
	}
	for (int i = 0; i < 300000; i++) {
		uint32_t ha = ((uint32_t)rand() << 16) ^ (uint32_t)rand(); if (i < 4) ha = (uint32_t[]){0, 0xffffffff, 0x7f000001, 0x01020304}[i];
		uint16_t port = (uint16_t)rand(); uint32_t na = htonl(ha);
		struct sockaddr_storage ss, b; char t[64], ex[64]; size_t r;
		sa_init(&ss, AF_INET, &na, port);
		if (port) snprintf(ex, sizeof ex, "%u.%u.%u.%u:%u", ha >> 24, (ha >> 16) & 255, (ha >> 8) & 255, ha & 255, port); else snprintf(ex, sizeof ex, "%u.%u.%u.%u", ha >> 24, (ha >> 16) & 255, (ha >> 8) & 255, ha & 255);
		if (sa_addr_port_to_str(&ss, t, sizeof t, &r) || strcmp(t, ex) || r != strlen(ex)) F("v4 port_to_str %s", ex);
		if (sa_addr_port_from_str(&b, t, r) || !sa_addr_port_is_eq(&b, &ss)) F("v4 port_from_str %s", ex);
	}
	for (unsigned p = 0; p < 65536; p++) {
		struct sockaddr_storage ss, b; char t[64]; size_t r; uint32_t na = htonl(0x0a000001);
		sa_init(&ss, AF_INET, &na, (uint16_t)p);
		if (sa_addr_port_to_str(&ss, t, sizeof t, &r) || sa_addr_port_from_str(&b, t, r) || sa_port_get(&b) != p) F("port %u", p);
	}
	printf("fails=%d\n", fails);
	return fails != 0;
}
