#include <sys/param.h>
#include <sys/types.h>
#include <inttypes.h>
#include <string.h>
#include <stdio.h>
#include <errno.h>
#include <stdlib.h>
#include "net/socket_address.h"
#include "net/utils.h"

static int fails;
static void chk_fmt(struct sockaddr_storage *ss, const char *exp) {
	size_t need = strlen(exp) + 1;
	for (size_t bs = 1; bs <= need + 8; bs++) {
		char *buf = malloc(bs); size_t ret = 12345;
		memset(buf, 'X', bs);
		int e = sa_addr_port_to_str(ss, buf, bs, &ret);
		if (bs >= need) {
			if (e != 0 || strcmp(buf, exp) || ret != need - 1) {
				if (fails++ < 40) printf("FAIL port_to_str exp=%s bs=%zu need=%zu e=%d ret=%zu\n", exp, bs, need, e, ret);
			}
		} else if (e == 0) { if (fails++ < 40) printf("FAIL port_to_str success small exp=%s bs=%zu\n", exp, bs);}
		free(buf);
	}
}
int main(void) {
	struct sockaddr_storage ss;
	uint32_t a4 = htonl(0x7f000001);
	uint16_t ports[] = {0,1,9,10,80,99,100,999,1000,9999,10000,65535};
	for (size_t i = 0; i < sizeof(ports)/2; i++) {
		char exp[128];
		sa_init(&ss, AF_INET, &a4, ports[i]);
		if (ports[i]) snprintf(exp, sizeof exp, "127.0.0.1:%u", ports[i]); else snprintf(exp, sizeof exp, "127.0.0.1");
		chk_fmt(&ss, exp);
		struct in6_addr a6; inet_pton(AF_INET6, "2001:db8::1", &a6);
		sa_init(&ss, AF_INET6, &a6, ports[i]);
		if (ports[i]) snprintf(exp, sizeof exp, "[2001:db8::1]:%u", ports[i]); else snprintf(exp, sizeof exp, "[2001:db8::1]");
		chk_fmt(&ss, exp);
	}
	printf("fails=%d\n", fails);
	return fails != 0;
}
