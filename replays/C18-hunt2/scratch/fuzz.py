import random, subprocess, ipaddress, sys
random.seed(int(sys.argv[1]) if len(sys.argv)>1 else 1)
def addr_ref(t):
    # t: bytes, exactly address text
    if len(t)==0 or b'\0' in t or len(t)>111: return None
    try: s=t.decode('ascii')
    except: s=None
    if s is not None and '%' not in s:
        try:
            a=ipaddress.IPv4Address(s); return ('4',str(a))
        except Exception: pass
        try:
            a=ipaddress.IPv6Address(s); return ('6',a)
        except Exception: pass
    if t[:1] in (b'/',b'.'):
        if len(t)>107: return None
        return ('U',t)
    return None
def strip(b):
    return b.strip(b' \t')
def port_ref(p,mx=65535):
    if not (1<=len(p)<=5) or not all(48<=c<=57 for c in p): return None
    v=int(p)
    return v if v<=mx else None
def bounds(b):
    b=strip(b)
    if not b: return None
    if b[:1]==b'[':
        i=b.find(b']')
        if i<0: return None
        return (b[1:i], b[i+1:], True)
    return (b,b'',False)
def refA(b):
    r=bounds(b)
    if r is None: return None
    a,tail,br=r
    if br and tail: return None
    x=addr_ref(a)
    return None if x is None else x+(0,)
def refP(b):
    r=bounds(b)
    if r is None: return None
    a,tail,br=r
    if br:
        port=0
        if tail:
            if tail[:1]!=b':': return None
            port=port_ref(tail[1:])
            if port is None: return None
        x=addr_ref(a)
        if x is None: return None
        if x[0]=='U' and port: return None
        return x+(port,)
    x=addr_ref(a)
    if x: return x+(0,)
    i=a.rfind(b':')
    if i<=0: return None
    port=port_ref(a[i+1:])
    if port is None: return None
    x=addr_ref(a[:i])
    if x is None: return None
    if x[0]=='U' and port: return None
    return x+(port,)
def refN(b):
    i=b.rfind(b'/')
    pl=None
    if i>=0:
        pl=port_ref(b[i+1:],128)
        if pl is None: return None
        a=b[:i]
    else: a=b
    if len(a)==0: return None
    x=refA(a)
    if x is None: return None
    if x[0]=='4':
        if pl is None: pl=32
        if pl>32: return None
    elif x[0]=='6':
        if pl is None: pl=128
    else:
        return ('UNIXNET',)
    return x+(pl,)
toks=[b'1.2.3.4',b'255.255.255.255',b'0.0.0.0',b'::',b'::1',b'fe80::1',b'2001:db8:0:1:1:2:3:4',b'::ffff:1.2.3.4',b'1:2:3:4:5:6:7::',b'[',b']',b':',b'/',b'.',b' ',b'\t',b'80',b'65535',b'65536',b'0',b'00080',b'128',b'129',b'32',b'33',b'\0',b'x',b'%',b'+',b'-',b'/tmp/s',b'./s',b'01',b'256',b'12345',b'ffff',b'g',b'\n',b'\r',b'1',b'::1:80']
def gen():
    n=random.randint(1,6)
    b=b''.join(random.choice(toks) for _ in range(n))
    if random.random()<0.3 and b:
        l=list(b); 
        for _ in range(random.randint(1,2)):
            k=random.randrange(len(l)); 
            op=random.random()
            if op<0.4: l[k]=random.choice(b'0123456789abcdef:.[]/ \t\0%zF')
            elif op<0.7: del l[k]
            else: l.insert(k, random.choice(b'0123456789abcdef:.[]/ '))
            if not l: break
        b=bytes(l)
    return b
cases=[]
for _ in range(int(sys.argv[2]) if len(sys.argv)>2 else 20000):
    b=gen()
    if not b: continue
    cases.append((random.choice('APN'),b))
inp=''.join('%s %s\n'%(m,b.hex()) for m,b in cases)
out=subprocess.run(['./drv'],input=inp.encode(),capture_output=True)
if out.returncode!=0: print("CRASH",out.stderr.decode()[-3000:])
lines=out.stdout.decode('latin1').split('\n')
bad=0
seen=set()
for (m,b),l in zip(cases,lines):
    ref={'A':refA,'P':refP,'N':refN}[m](b)
    f=l.split(' ')
    ok=True
    if ref is None:
        ok = f[0]!='0'
    elif ref==('UNIXNET',):
        ok = f[0]!='0'
    else:
        if f[0]!='0': ok=False
        else:
            fam=f[1]
            if fam!=ref[0]: ok=False
            elif fam=='4': ok = f[2]==ref[1] and int(f[3])==ref[2]
            elif fam=='6': ok = ipaddress.IPv6Address(f[2])==ref[1] and int(f[3])==ref[2]
            else: ok = bytes.fromhex(f[2])==ref[1]
            if ok and m=='N' and fam in '46': ok = int(f[4])==ref[3]
    if not ok:
        key=(m,ref is None, f[0])
        bad+=1
        if bad<=60: print("DIFF",m,b,"lib:",l,"ref:",ref)
print("cases",len(cases),"bad",bad)
