#include <sys/param.h>
#include <sys/types.h>
#include <inttypes.h>
#include <string.h>
#include <stdio.h>
#include <errno.h>
#include <stdlib.h>
#include <sys/mman.h>
#include "net/socket_address.h"
int main(void) {
	size_t sz = (1ULL << 32) + 8;
	char *b = mmap(NULL, sz, PROT_READ|PROT_WRITE, MAP_PRIVATE|MAP_ANONYMOUS|MAP_NORESERVE, -1, 0);
	if (b == MAP_FAILED) { perror("mmap"); return 2; }
	struct sockaddr_storage ss; uint32_t a = htonl(0x7f000001); size_t r = 0;
	sa_init(&ss, AF_INET, &a, 80);
	int e = sa_addr_to_str(&ss, b, sz, &r);
	printf("sa_addr_to_str e=%d r=%zu\n", e, r);
	e = sa_addr_port_to_str(&ss, b, sz, &r);
	printf("sa_addr_port_to_str e=%d r=%zu\n", e, r);
	return e != 0;
}
