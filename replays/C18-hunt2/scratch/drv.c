#include <sys/param.h>
#include <sys/types.h>
#include <inttypes.h>
#include <string.h>
#include <stdio.h>
#include <errno.h>
#include <stdlib.h>
#include "net/socket_address.h"
#include "net/utils.h"
/* line: mode hex ; modes: A (addr_from_str) P (addr_port_from_str) N (str_net_to_ss) */
static void pr(struct sockaddr_storage *ss) {
	char b[200]; 
	switch (ss->ss_family) {
	case AF_INET: inet_ntop(AF_INET, &((struct sockaddr_in*)ss)->sin_addr, b, sizeof b); printf("4 %s %u", b, ntohs(((struct sockaddr_in*)ss)->sin_port)); break;
	case AF_INET6: inet_ntop(AF_INET6, &((struct sockaddr_in6*)ss)->sin6_addr, b, sizeof b); printf("6 %s %u", b, ntohs(((struct sockaddr_in6*)ss)->sin6_port)); break;
	case AF_UNIX: { printf("U "); for (char *p = ((struct sockaddr_un*)ss)->sun_path; *p; p++) printf("%02x", (unsigned char)*p); printf(" 0"); } break;
	default: printf("? ? 0");
	}
}
int main(void) {
	char line[4096];
	while (fgets(line, sizeof line, stdin)) {
		char mode = line[0]; char *h = line + 2; size_t n = 0; 
		char *in = malloc(2048);
		while (h[0] && h[1] && h[0] != '\n') { unsigned v; sscanf(h, "%2x", &v); in[n++] = (char)v; h += 2; }
		char *ex = malloc(n ? n : 1); memcpy(ex, in, n); /* exact size for asan */
		struct sockaddr_storage ss; memset(&ss, 0xAA, sizeof ss);
		int e; uint16_t pl = 7777;
		if (mode == 'A') e = sa_addr_from_str(&ss, ex, n);
		else if (mode == 'P') e = sa_addr_port_from_str(&ss, ex, n);
		else e = str_net_to_ss(ex, n, &ss, &pl);
		printf("%d ", e);
		if (e == 0) { pr(&ss); if (mode == 'N') printf(" %u", pl); }
		printf("\n");
		free(ex); free(in);
	}
	return 0;
}
