/* sa_addr_port_to_str() refuses buffers in which the text fits whenever the
 * port has fewer than 5 digits: it demands strlen(addr) + 7 bytes. */
#include <sys/param.h>
#include <sys/types.h>
#include <inttypes.h>
#include <string.h>
#include <stdio.h>
#include <errno.h>
#include <stdlib.h>
#include "net/socket_address.h"

static int fails;

static void
chk(struct sockaddr_storage *ss, const char *exp) {
	size_t need = (strlen(exp) + 1);

	for (size_t bs = 1; bs <= (need + 6); bs ++) {
		char *buf = malloc(bs); /* Exact size: ASan sees overruns. */
		size_t ret = 0;
		memset(buf, 'X', bs);
		int e = sa_addr_port_to_str(ss, buf, bs, &ret);
		if (bs >= need) {
			if (0 != e || 0 != strcmp(buf, exp) || ret != (need - 1)) {
				fails ++;
				printf("FAIL: \"%s\" needs %zu bytes, buf_size=%zu: error=%d (%s), size_ret=%zu\n",
				    exp, need, bs, e, strerror(e), ret);
			}
		} else if (0 == e) {
			fails ++;
			printf("FAIL: \"%s\" success with too small buffer %zu\n", exp, bs);
		}
		free(buf);
	}
}

int
main(void) {
	struct sockaddr_storage ss;
	uint32_t a4 = htonl(0x7f000001);
	struct in6_addr a6;
	const uint16_t ports[] = { 0, 1, 80, 443, 8080, 10000, 65535 };
	char exp[128];

	inet_pton(AF_INET6, "2001:db8::1", &a6);
	for (size_t i = 0; i < (sizeof(ports) / sizeof(ports[0])); i ++) {
		sa_init(&ss, AF_INET, &a4, ports[i]);
		if (0 != ports[i]) {
			snprintf(exp, sizeof(exp), "127.0.0.1:%u", ports[i]);
		} else {
			snprintf(exp, sizeof(exp), "127.0.0.1");
		}
		chk(&ss, exp);
		sa_init(&ss, AF_INET6, &a6, ports[i]);
		if (0 != ports[i]) {
			snprintf(exp, sizeof(exp), "[2001:db8::1]:%u", ports[i]);
		} else {
			snprintf(exp, sizeof(exp), "[2001:db8::1]");
		}
		chk(&ss, exp);
	}
	printf("%s: %d failures\n", (fails ? "FAIL" : "OK"), fails);
	return (0 != fails);
}
