/* AF_UNIX address -> text -> address is not the identity: a path that ends
 * with a blank or tab comes back as ANOTHER path with status 0 (the parser
 * strips blanks around the text, the formatter does not protect them). */
#include <sys/param.h>
#include <sys/types.h>
#include <inttypes.h>
#include <string.h>
#include <stdio.h>
#include <errno.h>
#include <stdlib.h>
#include "net/socket_address.h"

static int fails;

static void
rt(const char *path, int with_port) {
	struct sockaddr_storage ss, back;
	char txt[STR_ADDR_LEN];
	size_t txt_size = 0;
	int e;

	if (0 != sa_init(&ss, AF_UNIX, path, 0)) {
		printf("sa_init(\"%s\") failed\n", path);
		fails ++;
		return;
	}
	e = (with_port ? sa_addr_port_to_str(&ss, txt, sizeof(txt), &txt_size) :
	    sa_addr_to_str(&ss, txt, sizeof(txt), &txt_size));
	if (0 != e) {
		printf("to_str(\"%s\") failed: %d\n", path, e);
		fails ++;
		return;
	}
	memset(&back, 0, sizeof(back));
	e = (with_port ? sa_addr_port_from_str(&back, txt, txt_size) :
	    sa_addr_from_str(&back, txt, txt_size));
	if (0 != e) {
		fails ++;
		printf("FAIL: %s: path \"%s\" -> text \"%s\" -> error %d\n",
		    (with_port ? "addr_port" : "addr"), path, txt, e);
		return;
	}
	if (0 == sa_addr_is_eq(&ss, &back)) {
		fails ++;
		printf("FAIL: %s: path \"%s\" -> text \"%s\" -> status 0, path \"%s\" (different address)\n",
		    (with_port ? "addr_port" : "addr"), path, txt,
		    ((struct sockaddr_un*)&back)->sun_path);
	}
}

int
main(void) {
	static const char *paths[] = {
		"/tmp/a", "./a b", "/var/run/x:80",	/* These are fine. */
		"/tmp/sock ", "/tmp/sock\t", "./run/my sock \t ",
		NULL
	};

	for (size_t i = 0; NULL != paths[i]; i ++) {
		rt(paths[i], 0);
		rt(paths[i], 1);
	}
	printf("%s: %d failures\n", (fails ? "FAIL" : "OK"), fails);
	return (0 != fails);
}
