/* str_net_to_ss() returns success for text that is not a network: everything
 * sa_addr_from_str() takes for an AF_UNIX path (starts with '.' or '/'),
 * e.g. the typo ".0.0.0/8"; without '/' the prefix length reported is 65535. */
#include <sys/param.h>
#include <sys/types.h>
#include <inttypes.h>
#include <string.h>
#include <stdio.h>
#include <errno.h>
#include <stdlib.h>
#include "net/socket_address.h"
#include "net/utils.h"

int
main(void) {
	static const char *bad[] = {
		".0.0.0/8", "./24", ".", "/tmp/24", "//8", "./x/128", ".10.0.0.0", NULL
	};
	static const char *good[] = { "127.0.0.0/8", "[2001:4f8:fff6::]/32", "2001:4f8:fff6::28/32", "10.1.2.3", NULL };
	int fails = 0;

	for (size_t i = 0; NULL != bad[i]; i ++) {
		struct sockaddr_storage ss;
		uint16_t preflen = 0;
		memset(&ss, 0, sizeof(ss));
		int e = str_net_to_ss(bad[i], strlen(bad[i]), &ss, &preflen);
		if (0 == e) {
			fails ++;
			printf("FAIL: str_net_to_ss(\"%s\") = 0, family=%d%s path=\"%s\" preflen=%u\n",
			    bad[i], ss.ss_family, ((AF_UNIX == ss.ss_family) ? " (AF_UNIX)" : ""),
			    ((struct sockaddr_un*)&ss)->sun_path, preflen);
		}
	}
	for (size_t i = 0; NULL != good[i]; i ++) { /* Sanity. */
		struct sockaddr_storage ss;
		uint16_t preflen = 0;
		if (0 != str_net_to_ss(good[i], strlen(good[i]), &ss, &preflen)) {
			fails ++;
			printf("FAIL: documented form \"%s\" refused\n", good[i]);
		}
	}
	printf("%s: %d failures\n", (fails ? "FAIL" : "OK"), fails);
	return (0 != fails);
}
