#!/bin/sh
# usage: run.sh <tree>   exits non-zero / prints FAIL when the defect shows
T="${1:-/tmp/hunt/C18}"
D="$(cd "$(dirname "$0")" && pwd)"
FLAGS="-DHAVE_ACCEPT4 -DHAVE_EXPLICIT_BZERO -DHAVE_MEMMEM -DHAVE_MEMRCHR -DHAVE_PIPE2 -DHAVE_POSIX_SPAWN_FILE_ACTIONS_ADDCLOSEFROM_NP -DHAVE_PTHREAD_SETNAME_NP -DHAVE_REALLOCARRAY -DHAVE_SOCK_CLOEXEC -DHAVE_SOCK_NONBLOCK -DHAVE_STRNCASECMP -DLINUX -D_GNU_SOURCE -D__USE_GNU=1"
OUT="$(mktemp -d)"
SANFLAGS="-O1"
${CC:-clang} -g -w $SANFLAGS $FLAGS -I"$T/include" "$D/demo.c" "$T/src/net/socket_address.c" "$T/src/net/utils.c" -o "$OUT/demo" || { echo "BUILD FAILED"; exit 2; }
"$OUT/demo"; rc=$?
rm -rf "$OUT"
exit $rc
