/* sa_addr_to_str() hands its size_t buf_size to inet_ntop(), whose size
 * parameter is socklen_t (32 bit): a buffer of 4 GiB + 8 bytes is "8 bytes"
 * (or 0 bytes for exactly 4 GiB) and the call fails with ENOSPC. */
#include <sys/param.h>
#include <sys/types.h>
#include <inttypes.h>
#include <string.h>
#include <stdio.h>
#include <errno.h>
#include <stdlib.h>
#include <sys/mman.h>
#include "net/socket_address.h"

int
main(void) {
	const size_t sz = ((((size_t)1) << 32) + 8);
	struct sockaddr_storage ss;
	uint32_t a4 = htonl(0xc0a80a0b); /* 192.168.10.11 */
	size_t r = 0;
	int e, fails = 0;
	char *b = mmap(NULL, sz, (PROT_READ | PROT_WRITE),
	    (MAP_PRIVATE | MAP_ANONYMOUS | MAP_NORESERVE), -1, 0);

	if (MAP_FAILED == b) {
		perror("mmap (cannot test here)");
		return (0);
	}
	sa_init(&ss, AF_INET, &a4, 8080);
	e = sa_addr_to_str(&ss, b, sz, &r);
	if (0 != e) {
		fails ++;
		printf("FAIL: sa_addr_to_str(192.168.10.11, buf_size = 2^32 + 8) = %d (%s)\n", e, strerror(e));
	}
	e = sa_addr_port_to_str(&ss, b, sz, &r);
	if (0 != e) {
		fails ++;
		printf("FAIL: sa_addr_port_to_str(192.168.10.11:8080, buf_size = 2^32 + 8) = %d (%s)\n", e, strerror(e));
	}
	e = sa_addr_to_str(&ss, b, (((size_t)1) << 32), &r);
	if (0 != e) {
		fails ++;
		printf("FAIL: sa_addr_to_str(192.168.10.11, buf_size = 2^32) = %d (%s)\n", e, strerror(e));
	}
	printf("%s: %d failures\n", (fails ? "FAIL" : "OK"), fails);
	return (0 != fails);
}
