/* A slot is STARTING (tpt_is_running() true, messages accepted) while
 * tp_threads_create() retries a failing pthread_create(); when it gives up
 * the slot goes back to STOP and the accepted messages stay in the pipe:
 * nobody drains a worker queue whose thread never ran; tp_destroy() closes it. */
#include <sys/param.h>
#include <sys/types.h>
#include <inttypes.h>
#include <string.h>
#include <stdio.h>
#include <stdlib.h>
#include <errno.h>
#include <pthread.h>
#include <unistd.h>
#include "threadpool/threadpool.h"
#include "threadpool/threadpool_msg_sys.h"

static volatile int fail_create;
int __real_pthread_create(pthread_t *, const pthread_attr_t *, void *(*)(void*), void *);
int __wrap_pthread_create(pthread_t *t, const pthread_attr_t *a, void *(*f)(void*), void *d) {
	if (fail_create) return (EAGAIN); /* What the kernel answers at the thread limit. */
	return __real_pthread_create(t, a, f, d);
}

static tp_p tp;
static volatile int accepted, ran, stop;
static void cb(tpt_p tpt, void *udata) { (void)tpt; (void)udata; __sync_fetch_and_add(&ran, 1); }
static void *sender(void *arg) {
	(void)arg;
	while (!stop) {
		if (0 == tpt_msg_send(tp_thread_get(tp, 0), NULL, 0, cb, NULL))
			accepted++;
		usleep(1000);
	}
	return NULL;
}

int main(void) {
	tp_settings_t s; pthread_t th; int error;
	tp_settings_def(&s); s.threads_max = 1;
	if (tp_create(&s, &tp)) return 2;
	__real_pthread_create(&th, NULL, sender, NULL);
	usleep(20000);
	fail_create = 1;
	error = tp_threads_create(tp, 0); /* ~210 ms of retries in STARTING. */
	stop = 1;
	pthread_join(th, NULL);
	printf("tp_threads_create = %d, accepted (return 0) = %d\n", error, accepted);
	tp_destroy(tp);
	printf("ran = %d\n", ran);
	if (ran != accepted) { printf("FAIL: %d messages reported success and never ran\n", accepted - ran); return 1; }
	printf("OK\n");
	return 0;
}
