#!/bin/sh
T=${1:-/tmp/hunt/C05}
D=$(dirname "$0")
gcc -O1 -g -pthread -DHAVE_ACCEPT4 -DHAVE_EXPLICIT_BZERO -DHAVE_MEMMEM -DHAVE_MEMRCHR -DHAVE_PIPE2 -DHAVE_POSIX_SPAWN_FILE_ACTIONS_ADDCLOSEFROM_NP -DHAVE_PTHREAD_SETNAME_NP -DHAVE_REALLOCARRAY -DHAVE_SOCK_CLOEXEC -DHAVE_SOCK_NONBLOCK -DHAVE_STRNCASECMP -DLINUX -D_GNU_SOURCE -D__USE_GNU=1  -I$T/include -o $D/demo $D/demo.c $T/src/threadpool/threadpool.c $T/src/threadpool/threadpool_msg_sys.c 2>/dev/null || { echo BUILD FAILED; exit 2; }
$D/demo
