/* The library itself adds TP_MSG_F_FAIL_DIRECT for the completion messages
 * (done_cb of tpt_msg_cbsend, op_cb of tpt_msg_async_op_cb_free) although the
 * caller asked for no direct call: when the destination queue is full
 * (EAGAIN) the callback runs on ANOTHER thread, with tpt = destination, while
 * the destination thread is inside its own callback. */
#include <sys/param.h>
#include <sys/types.h>
#include <inttypes.h>
#include <string.h>
#include <stdio.h>
#include <stdlib.h>
#include <errno.h>
#include <pthread.h>
#include <unistd.h>
#include "threadpool/threadpool.h"
#include "threadpool/threadpool_msg_sys.h"

static tp_p tp;
static volatile int gate, blocked, fails, op_ran, done_ran, msg_ran;

static void block_cb(tpt_p tpt, void *udata) { (void)tpt; (void)udata; blocked = 1; while (!gate) usleep(1000); }
static void noop_cb(tpt_p tpt, void *udata) { (void)tpt; (void)udata; }
static void check(const char *what, tpt_p tpt) {
	if (tpt_get_current() != tpt) {
		fails++;
		printf("FAIL: %s for thread %zu ran on %s (destination still blocked=%d)\n",
		    what, tpt_get_num(tpt),
		    (NULL == tpt_get_current()) ? "a non-pool thread" : "another pool thread", !gate);
	}
}
static void op_cb(tpt_p tpt, void **udata) { (void)udata; op_ran++; check("async op_cb", tpt); }
static void msg_cb(tpt_p tpt, void *udata) { (void)udata; msg_ran++; check("msg_cb", tpt); }
static void done_cb(tpt_p tpt, size_t s, size_t e, void *udata) { (void)s; (void)e; (void)udata; done_ran++; check("cbsend done_cb", tpt); }

int main(void) {
	tp_settings_t s; tpt_p t0; int n = 0; tpt_msg_async_op_p aop;
	tp_settings_def(&s); s.threads_max = 2;
	if (tp_create(&s, &tp) || tp_threads_create(tp, 0)) return 2;
	t0 = tp_thread_get(tp, 0);
	usleep(100000);
	tpt_msg_send(t0, NULL, 0, block_cb, NULL);
	while (!blocked) usleep(1000);
	while (0 == tpt_msg_send(t0, NULL, 0, noop_cb, NULL)) n++; /* Until EAGAIN. */
	printf("queue of thread 0 full after %d messages (errno %d)\n", n, errno);

	aop = tpt_msg_async_op_alloc(t0, op_cb);
	tpt_msg_async_op_cb_free(aop, NULL);

	if (0 != tpt_msg_cbsend(tp, t0, TP_CBMSG_F_SELF_SKIP, msg_cb, NULL, done_cb)) printf("cbsend refused\n");
	usleep(300000);
	printf("while thread 0 is blocked: op_ran=%d msg_ran=%d done_ran=%d\n", op_ran, msg_ran, done_ran);
	gate = 1;
	usleep(300000);
	tp_destroy(tp);
	if (1 != op_ran || 1 != done_ran) { printf("FAIL: counts op=%d done=%d\n", op_ran, done_ran); fails++; }
	printf(fails ? "FAIL\n" : "OK\n");
	return fails ? 1 : 0;
}
