/* tpt_msg_async_op_alloc(NULL, cb) from a thread that is no pool thread
 * returns a live handle with destination NULL; tpt_msg_async_op_cb_free()
 * then drops the operation: op_cb never runs, the record leaks. */
#include <sys/param.h>
#include <sys/types.h>
#include <inttypes.h>
#include <string.h>
#include <stdio.h>
#include <stdlib.h>
#include <errno.h>
#include <unistd.h>
#include "threadpool/threadpool.h"
#include "threadpool/threadpool_msg_sys.h"

static volatile int ran;
static void op_cb(tpt_p tpt, void **udata) { (void)tpt; (void)udata; ran++; }

int main(void) {
	tp_p tp; tp_settings_t s;
	tpt_msg_async_op_p aop;
	tp_settings_def(&s); s.threads_max = 2;
	if (tp_create(&s, &tp) || tp_threads_create(tp, 0)) return 2;
	usleep(100000);
	aop = tpt_msg_async_op_alloc(NULL, op_cb); /* NULL = "current thread". */
	if (NULL == aop) { printf("OK: refused\n"); tp_destroy(tp); return 0; }
	tpt_msg_async_op_udata_set(aop, TP_MSG_AOP_ARG0, (void*)1);
	tpt_msg_async_op_cb_free(aop, NULL); /* FORCE|FAIL_DIRECT|SELF_DIRECT: must always complete. */
	usleep(300000);
	tp_destroy(tp);
	if (1 != ran) { printf("FAIL: handle accepted, op_cb ran %d times (expected 1), record leaked\n", ran); return 1; }
	printf("OK\n");
	return 0;
}
