/* C10: tpt_msg_cbsend(TP_CBMSG_F_ONE_BY_ONE) issued by a thread of ANOTHER pool.
 * The originator is not a target (cbsend itself says so: "Thread from other pool
 * is not a target"), but the last worker's tpt_msg_one_by_one_proxy_cb() only tests
 * msg_data->tpt != tpt and schedules the foreign originator as "the caller thread";
 * there the proxy continues the walk in the ORIGINATOR's pool from index
 * threads_max(target) + 1. */
#include <sys/param.h>
#include <sys/types.h>
#include <inttypes.h>
#include <stdlib.h>
#include <stdio.h>
#include <unistd.h>
#include <string.h>
#include <errno.h>
#include <pthread.h>
#include "al/os.h"
#include "threadpool/threadpool.h"
#include "threadpool/threadpool_msg_sys.h"

#define NA 6	/* Originator's pool. */
#define NB 2	/* Target pool. */
static tp_p tpA, tpB;
static volatile int cb_on_B[NB], cb_on_A[NA], done_cnt, ret = -1;
static volatile size_t d_sent, d_fail;

static void
cb(tpt_p tpt, void *udata) {
	(void)udata;
	printf("  callback on pool %s thread %zu\n",
	    (tpt_get_tp(tpt) == tpB ? "B(target)" : "A(originator's)"), tpt_get_num(tpt));
	if (tpt_get_tp(tpt) == tpB) {
		__sync_fetch_and_add(&cb_on_B[tpt_get_num(tpt)], 1);
	} else {
		__sync_fetch_and_add(&cb_on_A[tpt_get_num(tpt)], 1);
	}
}
static void
done_cb(tpt_p tpt, size_t send_msg_cnt, size_t error_cnt, void *udata) {
	(void)udata;
	printf("  done_cb on pool %s thread %zu: sent=%zu failed=%zu\n",
	    (tpt_get_tp(tpt) == tpB ? "B" : "A"), tpt_get_num(tpt), send_msg_cnt, error_cnt);
	d_sent = send_msg_cnt;
	d_fail = error_cnt;
	__sync_fetch_and_add(&done_cnt, 1);
}
static void
start_cb(tpt_p tpt, void *udata) { /* Runs on pool A thread 0. */
	(void)tpt; (void)udata;
	ret = tpt_msg_cbsend(tpB, NULL, TP_CBMSG_F_ONE_BY_ONE, cb, NULL, done_cb);
}
static tp_p
mk(size_t n) {
	tp_p tp;
	tp_settings_t s;

	tp_settings_def(&s);
	s.threads_max = n;
	s.flags = 0;
	if (0 != tp_create(&s, &tp) || 0 != tp_threads_create(tp, 0))
		exit(2);
	return (tp);
}

int
main(void) {
	int bad = 0, extra = 0;

	setvbuf(stdout, NULL, _IONBF, 0);
	tpA = mk(NA);
	tpB = mk(NB);
	usleep(300000);
	printf("pool A (originator) %d threads, pool B (target) %d threads, "
	    "tpt_msg_cbsend(tpB, NULL, TP_CBMSG_F_ONE_BY_ONE) from A thread 0\n", NA, NB);
	tpt_msg_send(tp_thread_get(tpA, 0), NULL, 0, start_cb, NULL);
	for (int i = 0; i < 3000 && 0 == done_cnt; i ++) {
		usleep(1000);
	}
	usleep(300000);
	for (int i = 0; i < NA; i ++) {
		extra += cb_on_A[i];
	}
	printf("ret=%d done_cnt=%d sent=%zu failed=%zu, callbacks on non-target threads=%d\n",
	    ret, done_cnt, d_sent, d_fail, extra);
	for (int i = 0; i < NB; i ++) {
		if (1 != cb_on_B[i]) bad ++;
	}
	if (0 != extra) bad ++;
	if (1 != done_cnt || NB != (d_sent + d_fail)) bad ++;
	if (bad) {
		printf("FAIL: expected %d callbacks (pool B only) and sent+failed=%d\n", NB, NB);
		_exit(1);
	}
	printf("OK\n");
	_exit(0);
}
