/* C10: "invokes the completion callback ... on the originating thread".
 * tpt_msg_cbsend(tp, tp_thread_get(tp, 1), 0, cb, udata, done_cb) called from the
 * main thread - exactly how tests/threadpool/main.c calls it (originator passed
 * explicitly).  One target is not running, so the sender has its own decrement
 * (tpt_msg_active_thr_count_dec(msg_data, src, err_cnt)).  If the workers are
 * done before it (sender preempted after its last write; simulated here with a
 * scheduling point in write(), linked with -Wl,--wrap=write), the sender is the
 * last one and posts the completion with
 *     tpt_msg_send(dst = originator, src = originator, TP_MSG_F_SELF_DIRECT ...)
 * src is the DECLARED originator, not the thread that is running: src == dst,
 * so done_cb is called directly on the main thread, concurrently with whatever
 * the originating pool thread is doing. */
#include <sys/param.h>
#include <sys/types.h>
#include <inttypes.h>
#include <stdlib.h>
#include <stdio.h>
#include <unistd.h>
#include <string.h>
#include <errno.h>
#include <pthread.h>
#include "al/os.h"
#include "threadpool/threadpool.h"
#include "threadpool/threadpool_msg_sys.h"

#define NT 3
static tp_p tp;
static pthread_t pt[NT], main_pt;
static volatile int done_cnt, done_on_origin = -1, done_on_main = -1, finished, delay_armed, writes;

ssize_t __real_write(int fd, const void *buf, size_t n);
ssize_t
__wrap_write(int fd, const void *buf, size_t n) { /* Scheduling point after the sender's write. */
	ssize_t rc = __real_write(fd, buf, n);

	if (0 != delay_armed && pthread_equal(main_pt, pthread_self()) &&
	    2 == __sync_add_and_fetch(&writes, 1)) { /* After the last successful send. */
		usleep(300000);
	}
	return (rc);
}

static void
reg_cb(tpt_p tpt, void *udata) {
	(void)udata;
	pt[tpt_get_num(tpt)] = pthread_self();
}
static void
cb(tpt_p tpt, void *udata) {
	(void)tpt; (void)udata;
	__sync_fetch_and_add(&finished, 1);
}
static void
done_cb(tpt_p tpt, size_t send_msg_cnt, size_t error_cnt, void *udata) {
	(void)udata;
	done_on_origin = pthread_equal(pt[1], pthread_self());
	done_on_main = pthread_equal(main_pt, pthread_self());
	printf("  done_cb(tpt = thread %zu): sent=%zu failed=%zu, callbacks finished=%d; "
	    "running on: %s\n", tpt_get_num(tpt), send_msg_cnt, error_cnt, finished,
	    (done_on_origin ? "pool thread 1 (originator)" :
	    (done_on_main ? "MAIN thread (the caller of tpt_msg_cbsend)" : "another thread")));
	__sync_fetch_and_add(&done_cnt, 1);
}

int
main(void) {
	int error;
	tp_settings_t s;

	setvbuf(stdout, NULL, _IONBF, 0);
	main_pt = pthread_self();
	tp_settings_def(&s);
	s.threads_max = NT;
	s.flags = 0;
	/* skip_first: thread 0 is not running -> one failed send. */
	if (0 != tp_create(&s, &tp) || 0 != tp_threads_create(tp, 1))
		return (2);
	usleep(300000);
	tpt_msg_send(tp_thread_get(tp, 1), NULL, 0, reg_cb, NULL);
	tpt_msg_send(tp_thread_get(tp, 2), NULL, 0, reg_cb, NULL);
	usleep(200000);

	printf("3-thread pool, thread 0 not running; main thread: "
	    "tpt_msg_cbsend(tp, tp_thread_get(tp, 1), 0, cb, NULL, done_cb)\n");
	delay_armed = 1;
	error = tpt_msg_cbsend(tp, tp_thread_get(tp, 1), 0, cb, NULL, done_cb);
	delay_armed = 0;
	for (int i = 0; i < 3000 && 0 == done_cnt; i ++) usleep(1000);
	printf("  tpt_msg_cbsend = %d, done_cb calls = %d\n", error, done_cnt);
	tp_shutdown(tp);
	tp_shutdown_wait(tp);
	tp_destroy(tp);
	if (1 != done_cnt || 1 != done_on_origin) {
		printf("FAIL: completion callback did not run on the originating thread\n");
		return (1);
	}
	printf("OK\n");
	return (0);
}
