/* C10: tpt_msg_cbsend() without ONE_BY_ONE when every send fails (all targeted
 * threads are not running): the function returns ESPIPE ("error code if none
 * messages sended") AND the completion callback is delivered (sent=0).  A caller
 * that releases its context on the error return gets the completion on top of it.
 * With TP_CBMSG_F_ONE_BY_ONE the very same request returns ESPIPE and does not
 * call done_cb; the header says done_cb belongs to the 0 return. */
#include <sys/param.h>
#include <sys/types.h>
#include <inttypes.h>
#include <stdlib.h>
#include <stdio.h>
#include <unistd.h>
#include <string.h>
#include <errno.h>
#include <pthread.h>
#include "al/os.h"
#include "threadpool/threadpool.h"
#include "threadpool/threadpool_msg_sys.h"

static tp_p tp;
static volatile int done_cnt, cb_cnt, ret_in, in_returned;
static uint32_t in_flags;

static void
cb(tpt_p tpt, void *udata) {
	(void)tpt; (void)udata;
	__sync_fetch_and_add(&cb_cnt, 1);
}
static void
done_cb(tpt_p tpt, size_t send_msg_cnt, size_t error_cnt, void *udata) {
	(void)udata;
	printf("    done_cb(thread %zu): sent=%zu failed=%zu\n",
	    tpt_get_num(tpt), send_msg_cnt, error_cnt);
	__sync_fetch_and_add(&done_cnt, 1);
}
static void
inside_cb(tpt_p tpt, void *udata) { /* Runs on thread 1, the only running thread. */
	(void)udata;
	ret_in = tpt_msg_cbsend(tp, tpt, in_flags, cb, NULL, done_cb);
	in_returned = 1;
}
static int
run(uint32_t flags, const char *name) {
	done_cnt = 0;
	in_returned = 0;
	in_flags = flags;
	tpt_msg_send(tp_thread_get(tp, 1), NULL, 0, inside_cb, NULL);
	for (int i = 0; i < 2000 && 0 == in_returned; i ++) usleep(1000);
	usleep(300000);
	printf("  %-42s ret=%d (%s) done_cb calls=%d\n", name, ret_in,
	    (0 == ret_in ? "ok" : strerror(ret_in)), done_cnt);
	return ((0 == ret_in) != (1 == done_cnt) || 1 < done_cnt); /* Completion <=> success. */
}

int
main(void) {
	int bad = 0;
	tp_settings_t s;

	setvbuf(stdout, NULL, _IONBF, 0);
	tp_settings_def(&s);
	s.threads_max = 2;
	s.flags = 0;
	/* skip_first = 1: thread 0 is never started (not running), thread 1 runs. */
	if (0 != tp_create(&s, &tp) || 0 != tp_threads_create(tp, 1))
		return (2);
	usleep(300000);
	printf("2-thread pool, thread 0 not running; thread 1 calls tpt_msg_cbsend(tp, self, flags, ...):\n");
	bad += run(TP_CBMSG_F_SELF_SKIP, "TP_CBMSG_F_SELF_SKIP");
	bad += run((TP_CBMSG_F_SELF_SKIP | TP_CBMSG_F_ONE_BY_ONE), "TP_CBMSG_F_SELF_SKIP|TP_CBMSG_F_ONE_BY_ONE");
	tp_shutdown(tp);
	tp_shutdown_wait(tp);
	tp_destroy(tp);
	if (bad) {
		printf("FAIL: error return together with a completion callback (two outcomes for one request)\n");
		return (1);
	}
	printf("OK\n");
	return (0);
}
