/* C10: TP_BMSG_F_SELF_SKIP with src = the pool virtual thread (tp_thread_get_pvt(),
 * the tpt every callback of a pvt event / pvt message receives as its "tpt").
 * tpt_msg_broadcast_send__int() pre-decrements active_thr_count because
 * tpt_get_tp(src) == tp, but the send loop skips nobody (pvt is not one of
 * threads[0..threads_max)): the count reaches 0 one callback early.
 *  - tpt_msg_bsend_ex(SYNC|SELF_SKIP) returns while a worker still runs the
 *    callback and then uses the caller's dead on-stack record;
 *  - tpt_msg_cbsend(SELF_SKIP) fires done_cb before the last callback finished,
 *    the last worker then uses the freed msg_data (and would post a second
 *    completion if the count had not wrapped).
 * Same root as the fixed "foreign-pool caller treated as self". */
#include <sys/param.h>
#include <sys/types.h>
#include <inttypes.h>
#include <stdlib.h>
#include <stdio.h>
#include <unistd.h>
#include <string.h>
#include <errno.h>
#include <pthread.h>
#include "al/os.h"
#include "threadpool/threadpool.h"
#include "threadpool/threadpool_msg_sys.h"

#define NT 3
static tp_p tp;
static volatile int started, finished, done_cnt, fin_at_done = -1;

static void
cb(tpt_p tpt, void *udata) {
	(void)udata;
	__sync_fetch_and_add(&started, 1);
	usleep(100000 * (1 + (useconds_t)tpt_get_num(tpt))); /* Thread 2 is the slowest. */
	__sync_fetch_and_add(&finished, 1);
}
static void
done_cb(tpt_p tpt, size_t send_msg_cnt, size_t error_cnt, void *udata) {
	(void)tpt; (void)udata;
	fin_at_done = finished;
	printf("  done_cb: sent=%zu failed=%zu, callbacks finished so far=%d of %d\n",
	    send_msg_cnt, error_cnt, finished, NT);
	__sync_fetch_and_add(&done_cnt, 1);
}
static void
on_pvt_cb(tpt_p tpt, void *udata) { /* A message handler running on the pool virtual thread. */
	int error;

	(void)udata;
	printf("  handler runs with tpt == pvt: %s; calls tpt_msg_cbsend(tp, tpt, TP_CBMSG_F_SELF_SKIP, ...)\n",
	    (tpt == tp_thread_get_pvt(tp) ? "yes" : "no"));
	error = tpt_msg_cbsend(tp, tpt, TP_CBMSG_F_SELF_SKIP, cb, NULL, done_cb);
	printf("  tpt_msg_cbsend = %d\n", error);
}

int
main(int argc, char **argv) {
	int error, bad = 0;
	size_t sent = 99, failed = 99;
	tp_settings_t s;

	setvbuf(stdout, NULL, _IONBF, 0);
	tp_settings_def(&s);
	s.threads_max = NT;
	s.flags = 0;
	if (0 != tp_create(&s, &tp) || 0 != tp_threads_create(tp, 0))
		return (2);
	usleep(300000);

	if (1 < argc) { /* Completion form. */
		printf("completion form, originator = pool virtual thread:\n");
		tpt_msg_send(tp_thread_get_pvt(tp), NULL, 0, on_pvt_cb, NULL);
		for (int i = 0; i < 3000 && 0 == done_cnt; i ++) usleep(1000);
		if (NT != fin_at_done) {
			printf("FAIL: completion fired before the last callback finished\n");
			bad = 1;
		}
		usleep(600000); /* ASan: heap-use-after-free in tpt_msg_active_thr_count_dec. */
	} else { /* Synchronous form. */
		printf("synchronous form: tpt_msg_bsend_ex(tp, tp_thread_get_pvt(tp), SYNC|SELF_SKIP) from the main thread:\n");
		error = tpt_msg_bsend_ex(tp, tp_thread_get_pvt(tp),
		    (TP_BMSG_F_SYNC | TP_BMSG_F_SELF_SKIP), cb, NULL, &sent, &failed);
		printf("  returned %d: sent=%zu failed=%zu, callbacks started=%d finished=%d of %d\n",
		    error, sent, failed, started, finished, NT);
		if (NT != finished) {
			printf("FAIL: synchronous broadcast returned before every callback finished\n");
			bad = 1;
		}
		usleep(600000); /* ASan: stack-use-after-return in tpt_msg_sync_proxy_cb. */
	}
	tp_shutdown(tp);
	tp_shutdown_wait(tp);
	tp_destroy(tp);
	if (!bad) printf("OK\n");
	return (bad);
}
