#include <sys/param.h>
#include <sys/types.h>
#include <inttypes.h>
#include <stdlib.h>
#include <stdio.h>
#include <unistd.h>
#include <string.h>
#include <errno.h>
#include <pthread.h>
#include "al/os.h"
#include "threadpool/threadpool.h"
#include "threadpool/threadpool_msg_sys.h"
static tp_p tp; static size_t N;
static volatile long cbs, dones; static volatile int pending;
static void cb(tpt_p tpt, void *u){ __sync_fetch_and_add(&cbs,1); if (u) __sync_fetch_and_add((long*)u,1); }
static void dcb(tpt_p tpt, size_t s, size_t f, void *u){ if (s+f != (size_t)(uintptr_t)0 + N && s+f != N-1) printf("BAD counts %zu %zu\n",s,f); __sync_fetch_and_add(&dones,1); __sync_fetch_and_sub(&pending,1);}
static void inside(tpt_p tpt, void *u){
  long loc=0; size_t a,b; uint32_t fl=(uint32_t)(uintptr_t)u;
  int e=tpt_msg_bsend_ex(tp,NULL,fl,cb,&loc,&a,&b);
  size_t exp = N - ((fl&TP_BMSG_F_SELF_SKIP)?1:0);
  if (e|| a!=exp || (size_t)loc!=exp) printf("BAD inside sync e=%d a=%zu loc=%ld exp=%zu\n",e,a,loc,exp);
  __sync_fetch_and_sub(&pending,1);
}
int main(int argc,char**argv){ N=atoi(argv[1]); int iters=atoi(argv[2]);
 tp_settings_t s; tp_settings_def(&s); s.threads_max=N; s.flags=0; if(tp_create(&s,&tp))return 2; tp_threads_create(tp,0); usleep(200000);
 for(int i=0;i<iters;i++){
   long loc=0; size_t a,b;
   int e=tpt_msg_bsend_ex(tp,NULL,TP_BMSG_F_SYNC,cb,&loc,&a,&b);
   if(e||a!=N||(size_t)loc!=N) printf("BAD sync e=%d a=%zu loc=%ld\n",e,a,loc);
   pending=1; tpt_msg_send(tp_thread_get(tp,i%N),NULL,0,inside,(void*)(uintptr_t)(TP_BMSG_F_SYNC|((i&1)?TP_BMSG_F_SELF_SKIP:0))); while(pending) sched_yield();
   pending=1; e=tpt_msg_cbsend(tp,tp_thread_get(tp,i%N),(i&1)?TP_CBMSG_F_SELF_SKIP:0,cb,NULL,dcb); if(e) printf("BAD cbsend %d\n",e); while(pending) sched_yield();
   pending=1; e=tpt_msg_cbsend(tp,tp_thread_get(tp,i%N),TP_CBMSG_F_ONE_BY_ONE|((i&1)?TP_CBMSG_F_SELF_SKIP:0),cb,NULL,dcb); if(e) printf("BAD cbsend obo %d\n",e); while(pending) sched_yield();
 }
 printf("cbs=%ld dones=%ld\n",cbs,dones);
 tp_shutdown(tp); tp_shutdown_wait(tp); tp_destroy(tp); return 0;}
