#include <sys/param.h>
#include <sys/types.h>
#include <inttypes.h>
#include <stdlib.h>
#include <stdio.h>
#include <unistd.h>
#include <string.h>
#include <errno.h>
#include <pthread.h>
#include "al/os.h"
#include "threadpool/threadpool.h"
#include "threadpool/threadpool_msg_sys.h"
static tp_p tpA;
static volatile int done, cbs;
static void cb(tpt_p tpt, void *u){ cbs++; printf("  cb on thread %zu\n", tpt_get_num(tpt)); }
static void dcb(tpt_p tpt, size_t s, size_t f, void *u){ printf("  done on thread %zu sent=%zu fail=%zu\n", tpt_get_num(tpt), s, f); done++; }
static tp_p mk(size_t n, int skip){ tp_p tp; tp_settings_t s; tp_settings_def(&s); s.threads_max=n; s.flags=0; if (tp_create(&s,&tp)) exit(2); tp_threads_create(tp,skip); return tp;}
int main(int argc, char**argv){
 int e;
 /* case 2: 1 thread, SELF_SKIP, src = thread 0 passed by main thread (as tests do) */
 tpA=mk(1,0); usleep(200000);
 done=0; e=tpt_msg_cbsend(tpA, tp_thread_get(tpA,0), TP_CBMSG_F_SELF_SKIP, cb, NULL, dcb); usleep(300000);
 printf("case2 nonOBO: ret=%d done=%d\n", e, done);
 done=0; e=tpt_msg_cbsend(tpA, tp_thread_get(tpA,0), TP_CBMSG_F_SELF_SKIP|TP_CBMSG_F_ONE_BY_ONE, cb, NULL, dcb); usleep(300000);
 printf("case2 OBO: ret=%d done=%d\n", e, done);
 tp_shutdown(tpA); tp_shutdown_wait(tpA); tp_destroy(tpA);
 /* case C: 2 threads, thread 0 not started, src = thread 1, SELF_SKIP */
 tpA=mk(2,1); usleep(200000);
 done=0; e=tpt_msg_cbsend(tpA, tp_thread_get(tpA,1), TP_CBMSG_F_SELF_SKIP, cb, NULL, dcb); usleep(300000);
 printf("caseC nonOBO: ret=%d done=%d\n", e, done);
 done=0; e=tpt_msg_cbsend(tpA, tp_thread_get(tpA,1), TP_CBMSG_F_SELF_SKIP|TP_CBMSG_F_ONE_BY_ONE, cb, NULL, dcb); usleep(300000);
 printf("caseC OBO: ret=%d done=%d\n", e, done);
 tp_shutdown(tpA); tp_shutdown_wait(tpA); tp_destroy(tpA);
 return 0;}
