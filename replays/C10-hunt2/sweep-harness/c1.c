#include <sys/param.h>
#include <sys/types.h>
#include <inttypes.h>
#include <stdlib.h>
#include <stdio.h>
#include <unistd.h>
#include <string.h>
#include <errno.h>
#include <pthread.h>
#include "al/os.h"
#include "threadpool/threadpool.h"
#include "threadpool/threadpool_msg_sys.h"
static tp_p tpA, tpB;
static volatile int done, dsent, dfail;
static void cb(tpt_p tpt, void *u){ printf("  cb on pool %s thread %zu\n", tpt_get_tp(tpt)==tpA?"A":"B", tpt_get_num(tpt)); }
static void dcb(tpt_p tpt, size_t s, size_t f, void *u){ printf("  done on pool %s thread %zu sent=%zu fail=%zu\n", tpt_get_tp(tpt)==tpA?"A":"B", tpt_get_num(tpt), s, f); dsent=s; dfail=f; done++; }
static void start(tpt_p tpt, void *u){ int e=tpt_msg_cbsend(tpB, NULL, (uint32_t)(uintptr_t)u, cb, NULL, dcb); printf("  cbsend=%d\n", e);}
static tp_p mk(size_t n){ tp_p tp; tp_settings_t s; tp_settings_def(&s); s.threads_max=n; s.flags=0; if (tp_create(&s,&tp)) exit(2); tp_threads_create(tp,0); return tp;}
int main(int argc, char**argv){
 tpA=mk(atoi(argv[1])); tpB=mk(atoi(argv[2])); usleep(200000);
 tpt_msg_send(tp_thread_get(tpA,0), NULL, 0, start, (void*)(uintptr_t)TP_CBMSG_F_ONE_BY_ONE);
 usleep(500000);
 printf("done=%d\n", done);
 tp_shutdown(tpA); tp_shutdown_wait(tpA); tp_destroy(tpA);
 tp_shutdown(tpB); tp_shutdown_wait(tpB); tp_destroy(tpB); return 0;}
