#include <sys/param.h>
#include <sys/types.h>
#include <inttypes.h>
#include <stdlib.h>
#include <stdio.h>
#include <unistd.h>
#include <string.h>
#include <errno.h>
#include <pthread.h>
#include <time.h>
#include "al/os.h"
#include "threadpool/threadpool.h"
#include "threadpool/threadpool_msg_sys.h"
#define MAXT 20
static tp_p tp, tpF;
static size_t N;
static volatile int cb_cnt[MAXT], cb_wrong_thr, cb_foreign, in_cb, overlap, order_bad, last_idx;
static volatile int done_cnt, done_wrong_thr, fin_cnt;
static volatile size_t d_sent, d_fail;
static volatile int fin_at_done;
static pthread_t pts[MAXT];
static tpt_p origin; static pthread_t origin_pt; static int origin_virtual;
static int obo; static volatile int seq[64], seqn;
static pthread_t fpt;
static void reg(tpt_p tpt, void *u){ if (tpt_get_tp(tpt)==tp) pts[tpt_get_num(tpt)] = pthread_self(); else fpt = pthread_self(); }
static void cb(tpt_p tpt, void *u){
  if (tpt_get_tp(tpt) != tp) { __sync_fetch_and_add(&cb_foreign,1); return; }
  size_t n = tpt_get_num(tpt);
  if (n >= N) { __sync_fetch_and_add(&cb_foreign,1); return; }
  if (!pthread_equal(pts[n], pthread_self())) __sync_fetch_and_add(&cb_wrong_thr,1);
  if (__sync_fetch_and_add(&in_cb,1) != 0) overlap = 1;
  __sync_fetch_and_add(&cb_cnt[n],1); { int q=__sync_fetch_and_add(&seqn,1); if(q<64) seq[q]=(int)n; }
  usleep(2000);
  __sync_fetch_and_sub(&in_cb,1);
  __sync_fetch_and_add(&fin_cnt,1);
}
static void dcb(tpt_p tpt, size_t s, size_t f, void *u){
  d_sent = s; d_fail = f; fin_at_done = fin_cnt;
  if (tpt != origin || !pthread_equal(origin_pt, pthread_self())) done_wrong_thr++;
  __sync_fetch_and_add(&done_cnt,1);
}
static void stop_me(tpt_p tpt, void *u){ tp_thread_dettach(tpt); }
struct call { int is_cb; uint32_t flags; tpt_p src; int ret; size_t sent, fail; volatile int returned; int fin_at_ret; };
static void do_call(struct call *c){
  if (c->is_cb) c->ret = tpt_msg_cbsend(tp, c->src, c->flags, cb, NULL, dcb);
  else { c->sent = 777; c->fail = 777; c->ret = tpt_msg_bsend_ex(tp, c->src, c->flags, cb, NULL, &c->sent, &c->fail); }
  c->fin_at_ret = fin_cnt;
  c->returned = 1;
}
static void call_msg(tpt_p tpt, void *u){ do_call(u); }
static tp_p mk(size_t n){ tp_p p; tp_settings_t s; tp_settings_def(&s); s.threads_max=n; s.flags=0; if (tp_create(&s,&p)) exit(2); tp_threads_create(p,0); return p;}
static const char *fl(uint32_t f){ static char b[128]; b[0]=0;
 if (f&TP_MSG_F_SELF_DIRECT) strcat(b,"DIRECT|"); if (f&TP_BMSG_F_SELF_SKIP) strcat(b,"SKIP|"); if (f&TP_BMSG_F_SYNC) strcat(b,"SYNC|"); if (f&TP_BMSG_F_SYNC_USLEEP) strcat(b,"USLEEP|"); if (f&TP_CBMSG_F_ONE_BY_ONE) strcat(b,"OBO|"); if(!b[0]) strcat(b,"0"); return b; }
int main(int argc, char **argv){
  N = atoi(argv[1]); unsigned stopmask = strtoul(argv[2],0,0);
  alarm(300); setvbuf(stdout,NULL,_IONBF,0);
  tp = mk(N); tpF = mk(2); usleep(200000);
  for (size_t i=0;i<N;i++) tpt_msg_send(tp_thread_get(tp,i),NULL,0,reg,NULL);
  tpt_p f0 = tp_thread_get(tpF,0);
  usleep(100000);
  for (size_t i=0;i<N;i++) if (stopmask & (1u<<i)) tpt_msg_send(tp_thread_get(tp,i),NULL,0,stop_me,NULL);
  usleep(200000);
  int running[MAXT]; for (size_t i=0;i<N;i++){ running[i]=tpt_is_running(tp_thread_get(tp,i)); }
  tpt_msg_send(f0,NULL,0,reg,NULL); usleep(50000);
  int bad=0;
  /* caller kinds: 0 outside NULL src (bsend only), 1 outside explicit src=k, 2 inside thread k src NULL, 3 foreign pool thread src NULL */
  static const uint32_t bflags[] = {0, TP_BMSG_F_SELF_SKIP, TP_MSG_F_SELF_DIRECT, TP_BMSG_F_SYNC, TP_BMSG_F_SYNC|TP_BMSG_F_SELF_SKIP, TP_BMSG_F_SYNC|TP_MSG_F_SELF_DIRECT, TP_BMSG_F_SYNC_USLEEP, TP_BMSG_F_SYNC_USLEEP|TP_BMSG_F_SELF_SKIP, TP_BMSG_F_SYNC|TP_BMSG_F_SYNC_USLEEP};
  static const uint32_t cflags[] = {0, TP_BMSG_F_SELF_SKIP, TP_MSG_F_SELF_DIRECT, TP_BMSG_F_SELF_SKIP|TP_MSG_F_SELF_DIRECT, TP_CBMSG_F_ONE_BY_ONE, TP_CBMSG_F_ONE_BY_ONE|TP_BMSG_F_SELF_SKIP, TP_CBMSG_F_ONE_BY_ONE|TP_MSG_F_SELF_DIRECT, TP_CBMSG_F_ONE_BY_ONE|TP_BMSG_F_SELF_SKIP|TP_MSG_F_SELF_DIRECT};
  for (int is_cb=0; is_cb<2; is_cb++)
  for (int kind=0; kind<4; kind++)
  for (size_t k=0; k<N; k++) {
    if ((kind==0 || kind==3) && k>0) continue;
    if (kind==0 && is_cb) continue;
    if ((kind==2) && !running[k]) continue;
    if (kind==1 && is_cb && !running[k]) continue;
    size_t nf = is_cb ? sizeof(cflags)/sizeof(cflags[0]) : sizeof(bflags)/sizeof(bflags[0]);
    for (size_t fi=0; fi<nf; fi++) {
      uint32_t flags = is_cb ? cflags[fi] : bflags[fi];
      if (kind==1 && (flags & TP_MSG_F_SELF_DIRECT)) continue; /* explicit src from another thread + SELF_DIRECT: misuse */
      if (kind==1 && !is_cb && (flags&(TP_BMSG_F_SYNC|TP_BMSG_F_SYNC_USLEEP)) && 0) continue;
      memset((void*)cb_cnt,0,sizeof(cb_cnt)); cb_wrong_thr=cb_foreign=in_cb=overlap=0; done_cnt=done_wrong_thr=0; fin_cnt=0; seqn=0; d_sent=d_fail=999;
      struct call c; memset(&c,0,sizeof(c)); c.is_cb=is_cb; c.flags=flags;
      tpt_p self = NULL; /* which pool thread is 'self' */
      obo = !!(flags & TP_CBMSG_F_ONE_BY_ONE);
      switch(kind){
      case 0: c.src=NULL; origin=NULL; do_call(&c); break;
      case 1: c.src=tp_thread_get(tp,k); self=c.src; origin=c.src; origin_pt=pts[k]; do_call(&c); break;
      case 2: c.src=NULL; self=tp_thread_get(tp,k); origin=self; origin_pt=pts[k]; tpt_msg_send(self,NULL,0,call_msg,&c); break;
      case 3: c.src=NULL; origin=f0; origin_pt=fpt; tpt_msg_send(f0,NULL,0,call_msg,&c); break;
      }
      /* wait */
      int waited=0; while(!c.returned && waited<3000){ usleep(1000); waited++; }
      if (!c.returned){ printf("HANG N=%zu stop=%#x is_cb=%d kind=%d k=%zu flags=%s\n",N,stopmask,is_cb,kind,k,fl(flags)); exit(3); }
      { int w=0; if (is_cb && c.ret==0) while(!done_cnt && w<5000){usleep(1000);w++;}
        if (!is_cb) while((size_t)fin_cnt < c.sent && c.sent!=777 && w<5000){usleep(1000);w++;}
        usleep(40000); }
      /* expectations */
      size_t targeted=0, exp_run=0; int exp[MAXT];
      for (size_t i=0;i<N;i++){ int t = 1; if ((flags&TP_BMSG_F_SELF_SKIP) && self==tp_thread_get(tp,i)) t=0; exp[i]= t && running[i]; targeted+=t; exp_run+=exp[i]; }
      char why[512]; why[0]=0;
      size_t sent = is_cb ? d_sent : c.sent, fail = is_cb ? d_fail : c.fail;
      for (size_t i=0;i<N;i++) if (cb_cnt[i]!=exp[i]) { char t[64]; snprintf(t,sizeof t," cb[%zu]=%d exp %d;",i,cb_cnt[i],exp[i]); strcat(why,t);} 
      if (cb_foreign) strcat(why," cb-on-nontarget;");
      if (cb_wrong_thr && !(kind==2 && 0)) strcat(why," cb-wrong-os-thread;");
      if (is_cb) {
        if (c.ret==0 && done_cnt!=1) { char t[64]; snprintf(t,sizeof t," ret=0 done_cnt=%d;",done_cnt); strcat(why,t);} 
        if (c.ret!=0 && done_cnt!=0) { char t[64]; snprintf(t,sizeof t," ret=%d done_cnt=%d;",c.ret,done_cnt); strcat(why,t);} 
        if (done_cnt && (sent+fail!=targeted || sent!=exp_run)) { char t[96]; snprintf(t,sizeof t," done sent=%zu fail=%zu targeted=%zu exp_run=%zu;",sent,fail,targeted,exp_run); strcat(why,t);} 
        if (done_cnt && done_wrong_thr) strcat(why," done-wrong-thread;");
        if (done_cnt && fin_at_done != (int)exp_run && !cb_foreign) { char t[64]; snprintf(t,sizeof t," done-early fin=%d;",fin_at_done); strcat(why,t);} 
        if (obo && overlap) strcat(why," overlap;");
        if (obo && self) { int e[64], en=0; size_t si=tpt_get_num(self);
          if ((flags&(TP_BMSG_F_SELF_SKIP|TP_MSG_F_SELF_DIRECT))==TP_MSG_F_SELF_DIRECT) e[en++]=(int)si;
          for (size_t i=0;i<N;i++) if (i!=si && running[i]) e[en++]=(int)i;
          if ((flags&(TP_BMSG_F_SELF_SKIP|TP_MSG_F_SELF_DIRECT))==0) e[en++]=(int)si;
          int okk = (en==seqn); for (int i=0;okk&&i<en;i++) if (e[i]!=seq[i]) okk=0;
          if (!okk) { strcat(why," order:"); for(int i=0;i<seqn&&i<20;i++){ char t[8]; snprintf(t,8,"%d,",seq[i]); strcat(why,t);} }
        }
      } else {
        if (sent+fail!=targeted || sent!=exp_run) { char t[96]; snprintf(t,sizeof t," sent=%zu fail=%zu targeted=%zu exp_run=%zu ret=%d;",sent,fail,targeted,exp_run,c.ret); strcat(why,t);} 
        if ((flags&(TP_BMSG_F_SYNC|TP_BMSG_F_SYNC_USLEEP)) && c.fin_at_ret != (int)exp_run) { char t[64]; snprintf(t,sizeof t," sync-early fin=%d;",c.fin_at_ret); strcat(why,t);} 
        if ((sent==0) != (c.ret!=0)) { char t[64]; snprintf(t,sizeof t," ret=%d sent=%zu;",c.ret,sent); strcat(why,t);} 
      }
      if (why[0]) { bad++; printf("N=%zu stop=%#x %s kind=%d k=%zu flags=%s ret=%d:%s\n",N,stopmask,is_cb?"cbsend":"bsend",kind,k,fl(flags),c.ret,why); }
    }
  }
  printf("N=%zu stop=%#x bad=%d\n",N,stopmask,bad);
  _exit(bad?1:0);
}
