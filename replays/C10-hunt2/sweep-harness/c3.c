#include <sys/param.h>
#include <sys/types.h>
#include <inttypes.h>
#include <stdlib.h>
#include <stdio.h>
#include <unistd.h>
#include <string.h>
#include <errno.h>
#include <pthread.h>
#include "al/os.h"
#include "threadpool/threadpool.h"
#include "threadpool/threadpool_msg_sys.h"
static tp_p tpA;
static volatile int done, cbs, fin;
static void cb(tpt_p tpt, void *u){ __sync_fetch_and_add(&cbs,1); usleep(100000*(1+tpt_get_num(tpt))); __sync_fetch_and_add(&fin,1); }
static void dcb(tpt_p tpt, size_t s, size_t f, void *u){ printf("  done on thread %zu sent=%zu fail=%zu, callbacks finished=%d\n", tpt_get_num(tpt), s, f, fin); done++; }
static tp_p mk(size_t n, int skip){ tp_p tp; tp_settings_t s; tp_settings_def(&s); s.threads_max=n; s.flags=0; if (tp_create(&s,&tp)) exit(2); tp_threads_create(tp,skip); return tp;}
static void evcb(tpt_p tpt, void *u){
 size_t a,b; int e;
 printf("in msg cb with tpt num %zu (pvt=%d)\n", tpt_get_num(tpt), tpt==tp_thread_get_pvt(tpA));
 if (u) { e=tpt_msg_cbsend(tpA, tpt, TP_CBMSG_F_SELF_SKIP, cb, NULL, dcb); printf("cbsend=%d\n", e); return; }
 e=tpt_msg_bsend_ex(tpA, tpt, TP_BMSG_F_SYNC|TP_BMSG_F_SELF_SKIP, cb, NULL, &a, &b);
 printf("sync ret=%d sent=%zu failed=%zu finished-at-return=%d\n", e,a,b,fin);
}
int main(int argc, char**argv){
 tpA=mk(3,0); usleep(200000);
 /* run on the pool virtual thread */
 tpt_msg_send(tp_thread_get_pvt(tpA), NULL, 0, evcb, (void*)(uintptr_t)(argc>1));
 usleep(1500000);
 printf("cbs=%d fin=%d done=%d\n", cbs, fin, done);
 tp_shutdown(tpA); tp_shutdown_wait(tpA); tp_destroy(tpA);
 return 0;}
