/* C10: tpt_msg_cbsend(tp, thread0, TP_CBMSG_F_SELF_SKIP, ...) on a 1-thread pool,
 * called the way tests/threadpool/main.c calls tpt_msg_cbsend(): from the main
 * thread with the originator passed explicitly.
 * Nothing is targeted: tpt_msg_broadcast_send__int() returns err_cnt = 0 with
 * send_msg_cnt = 0, tpt_msg_cbsend() takes "0 == tm_cnt -> return (0); OK, sheduled"
 * although nobody was scheduled: it reports success, done_cb never runs and
 * msg_data (+ its mutex) leaks.  The same request issued from thread 0 itself
 * (1-thread shortcut) returns 0 and runs done_cb(0, 0). */
#include <sys/param.h>
#include <sys/types.h>
#include <inttypes.h>
#include <stdlib.h>
#include <stdio.h>
#include <unistd.h>
#include <string.h>
#include <errno.h>
#include <pthread.h>
#include "al/os.h"
#include "threadpool/threadpool.h"
#include "threadpool/threadpool_msg_sys.h"

static tp_p tp;
static volatile int done_cnt, cb_cnt, ret_in = -1, in_returned;

static void
cb(tpt_p tpt, void *udata) {
	(void)tpt; (void)udata;
	__sync_fetch_and_add(&cb_cnt, 1);
}
static void
done_cb(tpt_p tpt, size_t send_msg_cnt, size_t error_cnt, void *udata) {
	(void)udata;
	printf("  done_cb on thread %zu: sent=%zu failed=%zu\n",
	    tpt_get_num(tpt), send_msg_cnt, error_cnt);
	__sync_fetch_and_add(&done_cnt, 1);
}
static void
inside_cb(tpt_p tpt, void *udata) { /* Same request from thread 0 itself. */
	(void)udata;
	ret_in = tpt_msg_cbsend(tp, tpt, TP_CBMSG_F_SELF_SKIP, cb, NULL, done_cb);
	in_returned = 1;
}

int
main(void) {
	int ret, bad = 0;
	tp_settings_t s;

	setvbuf(stdout, NULL, _IONBF, 0);
	tp_settings_def(&s);
	s.threads_max = 1;
	s.flags = 0;
	if (0 != tp_create(&s, &tp) || 0 != tp_threads_create(tp, 0))
		return (2);
	usleep(300000);

	printf("reference: same call made on thread 0 itself\n");
	tpt_msg_send(tp_thread_get(tp, 0), NULL, 0, inside_cb, NULL);
	for (int i = 0; i < 2000 && 0 == in_returned; i ++) usleep(1000);
	usleep(100000);
	printf("  ret=%d done_cnt=%d\n", ret_in, done_cnt);

	done_cnt = 0;
	printf("main thread: tpt_msg_cbsend(tp, tp_thread_get(tp, 0), TP_CBMSG_F_SELF_SKIP, cb, NULL, done_cb)\n");
	ret = tpt_msg_cbsend(tp, tp_thread_get(tp, 0), TP_CBMSG_F_SELF_SKIP,
	    cb, NULL, done_cb);
	for (int i = 0; i < 2000 && 0 == done_cnt; i ++) usleep(1000);
	printf("  ret=%d done_cnt=%d (after 2 s) callbacks=%d\n", ret, done_cnt, cb_cnt);
	if (0 == ret && 1 != done_cnt) {
		printf("FAIL: success returned but the completion callback never ran (and msg_data leaked)\n");
		bad = 1;
	}
	if (0 != ret && 0 != done_cnt) {
		printf("FAIL: error returned and completion callback ran\n");
		bad = 1;
	}
	tp_shutdown(tp);
	tp_shutdown_wait(tp);
	tp_destroy(tp);
	if (!bad) printf("OK\n");
	return (bad); /* LeakSanitizer also reports the 112 byte msg_data. */
}
