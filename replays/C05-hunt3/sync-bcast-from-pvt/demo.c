/* A callback that runs for the pool virtual thread does a synchronous
 * broadcast and names the thread it was given (pvt) as the source.
 * Expected: every worker runs the callback once and the call returns.
 * Observed: the worker's own copy is queued into the queue of the very
 * worker that spins inside tpt_msg_bsend_ex(): never delivered, never returns. */
#include <sys/param.h>
#include <sys/types.h>
#include <inttypes.h>
#include <string.h>
#include <stdio.h>
#include <stdlib.h>
#include <errno.h>
#include <pthread.h>
#include <unistd.h>
#include "threadpool/threadpool.h"
#include "threadpool/threadpool_msg_sys.h"

#define NTHR 3
static tp_p tp;
static volatile int ran[NTHR + 1], returned, ret_err;
static volatile size_t sent, failed;
static uint32_t bflags;
static int use_other;

static void bcb(tpt_p tpt, void *ud) {
	(void)ud;
	__sync_fetch_and_add(&ran[tpt_get_num(tpt)], 1);
}
static void on_pvt(tpt_p tpt, void *ud) {
	size_t s = 0, f = 0;
	(void)ud;
	/* tpt is the pool virtual thread here. */
	if (use_other) /* Variant: declared source is another worker of the pool. */
		tpt = tp_thread_get(tp, (tpt_get_num(tpt_get_current()) + 1) % NTHR);
	ret_err = tpt_msg_bsend_ex(tp, tpt, bflags, bcb, NULL, &s, &f);
	sent = s; failed = f;
	returned = 1;
}
int main(int argc, char **argv) {
	tp_settings_t s; int i, tot = 0;
	setvbuf(stdout, NULL, _IONBF, 0);
	bflags = TP_BMSG_F_SYNC;
	if (argc > 1 && 0 == strcmp(argv[1], "skip")) bflags |= TP_BMSG_F_SELF_SKIP;
	if (argc > 1 && 0 == strcmp(argv[1], "other")) use_other = 1;
	tp_settings_def(&s); s.threads_max = NTHR; s.flags = 0;
	if (tp_create(&s, &tp)) return 2;
	tp_threads_create(tp, 0);
	usleep(200000);
	if (tpt_msg_send(tp_thread_get_pvt(tp), NULL, 0, on_pvt, NULL)) return 2;
	for (i = 0; i < 30 && !returned; i++) usleep(100000);
	for (i = 0; i < NTHR; i++) tot += ran[i];
	printf("flags 0x%x%s: returned=%d err=%d sent=%zu failed=%zu callbacks run=%d of %d (per thread:", bflags, (use_other ? " (src = other worker)" : " (src = pvt)"), returned, ret_err, sent, failed, tot, NTHR);
	for (i = 0; i < NTHR; i++) printf(" %d", ran[i]);
	printf(")\n");
	if (!returned) { printf("FAIL: tpt_msg_bsend_ex(SYNC) from a pool worker whose declared source is not that worker never returns; the accepted message for the calling worker is never delivered\n"); _exit(1); }
	tp_destroy(tp);
	return 0;
}
