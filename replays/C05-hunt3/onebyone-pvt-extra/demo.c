/* tpt_msg_cbsend() with the pool virtual thread as originator.
 * All-at-once mode: the callback runs once on each of the N workers, done_cb says N.
 * ONE_BY_ONE mode: same request, but the callback runs N + 1 times: once more
 * with tpt == pvt (the virtual thread is treated as "the caller thread that is
 * also a target" although it is not a slot of the pool). */
#include <sys/param.h>
#include <sys/types.h>
#include <inttypes.h>
#include <string.h>
#include <stdio.h>
#include <stdlib.h>
#include <errno.h>
#include <pthread.h>
#include <unistd.h>
#include "threadpool/threadpool.h"
#include "threadpool/threadpool_msg_sys.h"

#define NTHR 3
static tp_p tp;
static volatile int ran[NTHR + 2], done, done_sent, done_err;

static void bcb(tpt_p tpt, void *ud) {
	size_t n = tpt_get_num(tpt);
	(void)ud;
	__sync_fetch_and_add(&ran[n <= NTHR ? n : NTHR + 1], 1);
}
static void dcb(tpt_p tpt, size_t s, size_t e, void *ud) {
	(void)tpt; (void)ud;
	done_sent = (int)s; done_err = (int)e; done = 1;
}
static int one(uint32_t flags, const char *name) {
	int i, tot = 0, err;
	memset((void*)ran, 0, sizeof(ran)); done = 0;
	err = tpt_msg_cbsend(tp, tp_thread_get_pvt(tp), flags, bcb, NULL, dcb);
	for (i = 0; i < 30 && !done; i++) usleep(100000);
	usleep(200000);
	for (i = 0; i < NTHR + 2; i++) tot += ran[i];
	printf("%s: ret=%d done=%d done_cb(sent=%d, err=%d) callback runs=%d (workers:", name, err, done, done_sent, done_err, tot);
	for (i = 0; i < NTHR; i++) printf(" %d", ran[i]);
	printf("; virtual thread: %d)\n", ran[NTHR]);
	return (tot);
}
int main(void) {
	tp_settings_t s; int a, b, c, rc = 0;
	setvbuf(stdout, NULL, _IONBF, 0);
	tp_settings_def(&s); s.threads_max = NTHR; s.flags = 0;
	if (tp_create(&s, &tp)) return 2;
	tp_threads_create(tp, 0);
	usleep(200000);
	a = one(0, "all-at-once          ");
	b = one(TP_CBMSG_F_ONE_BY_ONE, "one-by-one           ");
	c = one(TP_CBMSG_F_ONE_BY_ONE | TP_MSG_F_SELF_DIRECT, "one-by-one+SELF_DIRECT");
	if (a != NTHR) { printf("FAIL all-at-once %d\n", a); rc = 1; }
	if (b != NTHR) { printf("FAIL: one-by-one broadcast of a %d thread pool ran the callback %d times (extra run with tpt == pool virtual thread)\n", NTHR, b); rc = 1; }
	if (c != NTHR) { printf("FAIL: one-by-one+SELF_DIRECT ran the callback %d times; the extra run is a direct call in the calling (non pool) thread\n", c); rc = 1; }
	tp_destroy(tp);
	return rc;
}
