/* Stress: many senders -> real threads and pvt, check exactly once + order. */
#include <sys/param.h>
#include <sys/types.h>
#include <inttypes.h>
#include <string.h>
#include <stdio.h>
#include <stdlib.h>
#include <errno.h>
#include <pthread.h>
#include <unistd.h>
#include "threadpool/threadpool.h"
#include "threadpool/threadpool_msg_sys.h"

#define NTHR 4
#define NSND 6
#define NMSG 20000
static tp_p tp;
typedef struct { int snd, dst; uint32_t seq; volatile int runs; tpt_p on; int direct_ok; } m_t;
static m_t *msgs[NSND];
static volatile uint32_t last_seq[NSND][NTHR+1];
static volatile int fails;
static __thread int in_direct;

static void cb(tpt_p tpt, void *ud) {
	m_t *m = ud;
	int r = __sync_add_and_fetch(&m->runs, 1);
	if (r != 1) { fails++; printf("FAIL dup snd %d seq %u\n", m->snd, m->seq); }
	size_t num = tpt_get_num(tpt);
	if ((int)num != m->dst) { fails++; printf("FAIL wrong thread %zu != %d\n", num, m->dst); }
	if (!in_direct && m->dst < NTHR) {
		if (tpt_get_current() != tpt) { fails++; printf("FAIL not on dst thread\n"); }
		uint32_t l = last_seq[m->snd][m->dst];
		if (l >= m->seq) { fails++; printf("FAIL order snd %d dst %d last %u seq %u\n", m->snd, m->dst, l, m->seq); }
		last_seq[m->snd][m->dst] = m->seq;
	}
}
static void *sender(void *a) {
	int s = (int)(intptr_t)a;
	unsigned rs = s * 7919 + 1;
	for (uint32_t i = 0; i < NMSG; i++) {
		m_t *m = &msgs[s][i];
		m->snd = s; m->seq = i + 1; m->dst = rand_r(&rs) % (NTHR + 1);
		tpt_p dst = (m->dst == NTHR) ? tp_thread_get_pvt(tp) : tp_thread_get(tp, m->dst);
		int e = tpt_msg_send(dst, NULL, 0, cb, m);
		if (e) { m->runs = -1000; if (e != EAGAIN) printf("err %d\n", e); }
	}
	return NULL;
}
int main(void) {
	tp_settings_t s; tp_settings_def(&s); s.threads_max = NTHR; s.flags = 0;
	if (tp_create(&s, &tp)) return 2;
	tp_threads_create(tp, 0);
	usleep(100000);
	pthread_t t[NSND];
	for (int i = 0; i < NSND; i++) { msgs[i] = calloc(NMSG, sizeof(m_t)); pthread_create(&t[i], NULL, sender, (void*)(intptr_t)i); }
	for (int i = 0; i < NSND; i++) pthread_join(t[i], NULL);
	sleep(1);
	size_t acc = 0, rej = 0;
	for (int i = 0; i < NSND; i++) for (int j = 0; j < NMSG; j++) {
		m_t *m = &msgs[i][j];
		if (m->runs == 1) acc++; else if (m->runs == -1000) rej++;
		else { fails++; printf("FAIL snd %d seq %d runs %d dst %d\n", i, j, m->runs, m->dst); }
	}
	printf("accepted %zu rejected %zu fails %d\n", acc, rej, fails);
	tp_destroy(tp);
	return fails ? 1 : 0;
}
