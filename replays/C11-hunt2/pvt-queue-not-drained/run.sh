#!/bin/sh
T="${1:-/tmp/hunt/C11}"; D="$(dirname "$0")"
sh "$D/../common/build.sh" "$T" "$D/demo.c" /tmp/hunt_c11_pvt.bin || exit 3
/tmp/hunt_c11_pvt.bin > /tmp/hunt_c11_pvt.log 2>&1; rc=$?
head -40 /tmp/hunt_c11_pvt.log
if [ $rc -ne 0 ] || grep -q -e "FAIL" -e "Sanitizer" /tmp/hunt_c11_pvt.log; then echo "FAIL: defect shown"; exit 1; fi
exit 0
