/* Messages accepted by the pool virtual thread (tpt_msg_send(pvt) returned 0)
 * are lost at shutdown: every worker drains only its own queue after the
 * stop message (tpt_msg_queue_drain(tpt->msg_queue) in tp_thread_proc()),
 * nobody drains the queue of the virtual thread, tp_destroy() just closes
 * the pipe.
 * Case A: worker is busy, then finds [message, stop message] in its own
 *         queue before the readiness of the virtual thread: it stops without
 *         looking at the virtual thread's queue.
 * Case B: pool without started workers (legal: tp_create -> send -> destroy). */
#include <sys/param.h>
#include <sys/types.h>
#include <inttypes.h>
#include <string.h>
#include <stdio.h>
#include <errno.h>
#include <stdlib.h>
#include <unistd.h>
#include <pthread.h>
#include <time.h>
#include "threadpool/threadpool.h"
#include "threadpool/threadpool_msg_sys.h"

static volatile int busy_entered, m0_run, pvt_run, done_run;
static void msleep(long ms) {
	struct timespec ts = { ms / 1000, (ms % 1000) * 1000000L };
	nanosleep(&ts, NULL);
}
static void busy_cb(tpt_p tpt, void *udata) { (void)tpt; (void)udata; busy_entered = 1; msleep(200); }
static void m0_cb(tpt_p tpt, void *udata) { (void)tpt; (void)udata; m0_run ++; }
static void pvt_cb(tpt_p tpt, void *udata) { (void)tpt; free(udata); pvt_run ++; }

int main(void) {
	setvbuf(stdout, NULL, _IOLBF, 0);
	tp_p tp = NULL;
	tp_settings_t s;
	int error, fail = 0;

	/* Case A. */
	tp_settings_def(&s);
	s.flags = 0;
	s.threads_max = 1;
	if (0 != (error = tp_create(&s, &tp))) { printf("tp_create: %i\n", error); return (2); }
	if (0 != (error = tp_threads_create(tp, 0))) { printf("tp_threads_create: %i\n", error); return (2); }
	msleep(20);
	error = tpt_msg_send(tp_thread_get(tp, 0), NULL, 0, busy_cb, NULL);
	while (0 == busy_entered) msleep(1);
	if (0 == error) error = tpt_msg_send(tp_thread_get(tp, 0), NULL, 0, m0_cb, NULL);
	if (0 != error) { printf("tpt_msg_send: %i\n", error); return (2); }
	error = tpt_msg_send(tp_thread_get_pvt(tp), NULL, 0, pvt_cb, malloc(64)); /* Work item that owns memory. */
	printf("A: tpt_msg_send(pvt) = %i (accepted)\n", error);
	if (0 != error) return (2);
	tp_shutdown(tp);
	tp_shutdown_wait(tp);
	error = tp_destroy(tp);
	printf("A: tp_destroy() = %i, worker message run %i time(s), virtual thread message run %i time(s)\n",
	    error, m0_run, pvt_run);
	if (1 != pvt_run) { printf("A: FAIL: accepted message of the virtual thread was dropped (its memory leaks)\n"); fail ++; }

	/* Case B. */
	pvt_run = 0;
	tp = NULL;
	if (0 != (error = tp_create(&s, &tp))) { printf("tp_create: %i\n", error); return (2); }
	error = tpt_msg_send(tp_thread_get_pvt(tp), NULL, 0, pvt_cb, malloc(64));
	printf("B: tpt_msg_send(pvt) = %i (accepted)\n", error);
	error = tp_destroy(tp);
	printf("B: tp_destroy() = %i, virtual thread message run %i time(s)\n", error, pvt_run);
	if (1 != pvt_run) { printf("B: FAIL: accepted message of the virtual thread was dropped (its memory leaks)\n"); fail ++; }

	if (0 != fail) { printf("FAIL\n"); return (1); }
	printf("OK\n");
	return (0);
}
