/* tpt_ev_add(TP_EV_TIMER / TP_EV_PROC) makes the pool create a timerfd / pidfd
 * that the caller never sees (it is hidden in tp_udata.tpdata, "Internal data,
 * do not use!!!").  Nobody records it in the pool: tp_destroy() closes the
 * epoll and pipe descriptors only, every timer / process watch that is armed
 * (periodic, one-shot not yet fired, DISPATCH) when the pool goes away keeps
 * its descriptor open for ever.  (With kqueue the timers die with the queue.) */
#include <sys/param.h>
#include <sys/types.h>
#include <sys/wait.h>
#include <inttypes.h>
#include <string.h>
#include <stdio.h>
#include <errno.h>
#include <stdlib.h>
#include <unistd.h>
#include <dirent.h>
#include <pthread.h>
#include <time.h>
#include "threadpool/threadpool.h"
#include "threadpool/threadpool_msg_sys.h"

static volatile int ticks;
static void tmr_cb(tp_event_p ev, tp_udata_p tp_udata) { (void)ev; (void)tp_udata; ticks ++; }
static int count_fds(void) {
	int n = 0; DIR *d = opendir("/proc/self/fd"); struct dirent *e;
	while (NULL != (e = readdir(d))) if ('.' != e->d_name[0]) n ++;
	closedir(d);
	return (n);
}
static void show_fds(void) {
	char path[64], lnk[128]; ssize_t l; int fd;
	for (fd = 3; fd < 64; fd ++) {
		snprintf(path, sizeof(path), "/proc/self/fd/%i", fd);
		if (0 < (l = readlink(path, lnk, sizeof(lnk) - 1))) { lnk[l] = 0; printf("  fd %i -> %s\n", fd, lnk); }
	}
}

int main(void) {
	setvbuf(stdout, NULL, _IOLBF, 0);
	tp_p tp = NULL;
	tp_settings_t s;
	tp_udata_t periodic, oneshot, pvt_tmr, proc;
	int error, fds0, fds1, cycle;
	pid_t pid;
	struct timespec ts = { 0, 60000000 };

	fds0 = count_fds();
	for (cycle = 0; cycle < 3; cycle ++) {
		tp_settings_def(&s);
		s.flags = 0;
		s.threads_max = 2;
		if (0 != (error = tp_create(&s, &tp))) { printf("tp_create: %i\n", error); return (2); }
		if (0 != (error = tp_threads_create(tp, 0))) { printf("tp_threads_create: %i\n", error); return (2); }
		memset(&periodic, 0x00, sizeof(periodic)); periodic.cb_func = tmr_cb; periodic.ident = 1;
		memset(&oneshot, 0x00, sizeof(oneshot)); oneshot.cb_func = tmr_cb; oneshot.ident = 2;
		memset(&pvt_tmr, 0x00, sizeof(pvt_tmr)); pvt_tmr.cb_func = tmr_cb; pvt_tmr.ident = 3;
		memset(&proc, 0x00, sizeof(proc)); proc.cb_func = tmr_cb;
		pid = fork();
		if (0 == pid) { sleep(2); _exit(0); }
		proc.ident = (uintptr_t)pid;
		error = tpt_ev_add_args(tp_thread_get(tp, 0), TP_EV_TIMER, 0, TP_FF_T_MSEC, 10, &periodic);
		if (0 == error) error = tpt_ev_add_args(tp_thread_get(tp, 1), TP_EV_TIMER, TP_F_ONESHOT, TP_FF_T_SEC, 3600, &oneshot);
		if (0 == error) error = tpt_ev_add_args(tp_thread_get_pvt(tp), TP_EV_TIMER, 0, TP_FF_T_MSEC, 10, &pvt_tmr);
		if (0 == error) error = tpt_ev_add_args(tp_thread_get(tp, 0), TP_EV_PROC, 0, 0, 0, &proc);
		if (0 != error) { printf("tpt_ev_add_args: %i\n", error); return (2); }
		nanosleep(&ts, NULL);
		tp_shutdown(tp);
		tp_shutdown_wait(tp);
		error = tp_destroy(tp);
		kill(pid, SIGKILL); waitpid(pid, NULL, 0);
		printf("cycle %i: tp_destroy() = %i, timer ticks so far %i, open descriptors %i (before the first pool: %i)\n",
		    cycle, error, ticks, count_fds(), fds0);
	}
	fds1 = count_fds();
	if (fds0 != fds1) {
		show_fds();
		printf("FAIL: %i descriptors acquired by the pools are still open after tp_destroy()\n", (fds1 - fds0));
		return (1);
	}
	printf("OK\n");
	return (0);
}
