#!/bin/sh
T="${1:-/tmp/hunt/C11}"; D="$(dirname "$0")"
sh "$D/../common/build.sh" "$T" "$D/demo.c" /tmp/hunt_c11_tfd.bin || exit 3
/tmp/hunt_c11_tfd.bin > /tmp/hunt_c11_tfd.log 2>&1 3<&- 4<&- 5<&- 6<&- 7<&- 8<&- 9<&-; rc=$?
cat /tmp/hunt_c11_tfd.log
if [ $rc -ne 0 ] || grep -q -e "FAIL" -e "AddressSanitizer" /tmp/hunt_c11_tfd.log; then echo "FAIL: defect shown"; exit 1; fi
exit 0
