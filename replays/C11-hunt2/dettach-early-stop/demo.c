/* tp_thread_dettach() publishes TP_THREAD_STATE_STOP ("thread is gone") while
 * the thread is still inside tpt_loop(): it has yet to drain its queue, run
 * the stop hook and touch the pool.  tp_shutdown_wait()/tp_destroy() trust
 * STOP for an attached thread, so tp_destroy() returns 0 and frees the pool
 * under the running thread. */
#include <sys/param.h>
#include <sys/types.h>
#include <inttypes.h>
#include <string.h>
#include <stdio.h>
#include <errno.h>
#include <stdlib.h>
#include <unistd.h>
#include <pthread.h>
#include <time.h>
#include "threadpool/threadpool.h"
#include "threadpool/threadpool_msg_sys.h"

static volatile int destroy_returned = 0, stop_hook_entered = 0, late = 0;
static pthread_t attached_id;

static void msleep(long ms) {
	struct timespec ts = { ms / 1000, (ms % 1000) * 1000000L };
	nanosleep(&ts, NULL);
}
static void on_stop(tpt_p tpt) {
	if (0 == pthread_equal(pthread_self(), attached_id))
		return; /* Virtual thread: not interesting. */
	(void)tpt;
	stop_hook_entered = 1;
	msleep(300);
	if (0 != destroy_returned) {
		late = 1;
		fprintf(stderr, "FAIL: stop hook of the attached thread runs after tp_destroy() returned 0\n");
	}
}
static void detach_cb(tpt_p tpt, void *udata) {
	(void)udata;
	tp_thread_dettach(tpt); /* Leave the pool. */
}
static void *attach_thr(void *arg) {
	attached_id = pthread_self();
	tp_thread_attach_first((tp_p)arg);
	return (NULL);
}

int main(void) {
	setvbuf(stdout, NULL, _IOLBF, 0);
	tp_p tp = NULL;
	tp_settings_t s;
	pthread_t thr;
	int error;

	tp_settings_def(&s);
	s.flags = 0;
	s.threads_max = 1;
	s.tpt_on_stop = on_stop;
	if (0 != (error = tp_create(&s, &tp))) { printf("tp_create: %i\n", error); return (2); }
	pthread_create(&thr, NULL, attach_thr, tp);
	while (0 == tpt_is_running(tp_thread_get(tp, 0))) msleep(1);
	msleep(20);
	error = tpt_msg_send(tp_thread_get(tp, 0), NULL, 0, detach_cb, NULL);
	if (0 != error) { printf("tpt_msg_send: %i\n", error); return (2); }
	while (0 == stop_hook_entered) msleep(1);
	error = tp_destroy(tp); /* Must wait for the attached thread (or fail). */
	destroy_returned = 1;
	printf("tp_destroy() = %i while the attached thread is in its stop hook\n", error);
	pthread_join(thr, NULL); /* ASan: heap-use-after-free in tp_thread_proc(). */
	if (late) { printf("FAIL\n"); return (1); }
	printf("OK\n");
	return (0);
}
