#!/bin/sh
T="${1:-/tmp/hunt/C11}"; D="$(dirname "$0")"
sh "$D/../common/build.sh" "$T" "$D/demo.c" /tmp/hunt_c11_det.bin || exit 3
/tmp/hunt_c11_det.bin > /tmp/hunt_c11_det.log 2>&1
head -30 /tmp/hunt_c11_det.log
if grep -q -e "FAIL" -e "AddressSanitizer" /tmp/hunt_c11_det.log; then echo "FAIL: defect shown"; exit 1; fi
exit 0
