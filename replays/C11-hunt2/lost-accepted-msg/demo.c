/* A message for which tpt_msg_send() returned 0 is never run when the send
 * races with the stop of the destination thread:
 *   sender: tpt_is_running(dst) -> yes        worker: runs stop message (state = STOPING)
 *                                             worker: leaves tpt_loop(), tpt_msg_queue_drain() reads until EAGAIN
 *   sender: write(pipe) -> ok, return 0       worker: stop hook, exit.   Nobody reads the pipe again.
 * Phase 1 counts accepted vs executed messages over many pool life cycles.
 * Phase 2 shows the consequence for tpt_msg_bsend_ex(TP_BMSG_F_SYNC): the
 * caller waits for ever for the lost message (all pool threads are joined).
 * No pool function is called after tp_shutdown_wait() returned except by the
 * senders that are already in flight; tp_destroy() is called only after all
 * senders have finished. */
#include <sys/param.h>
#include <sys/types.h>
#include <inttypes.h>
#include <string.h>
#include <stdio.h>
#include <errno.h>
#include <stdlib.h>
#include <unistd.h>
#include <pthread.h>
#include <time.h>
#include "threadpool/threadpool.h"
#include "threadpool/threadpool_msg_sys.h"

#define NT	2	/* Pool threads. */
#define NSEND	8	/* Outside sender threads. */

static tp_p g;
static volatile size_t accepted, executed;
static volatile int stop_senders, done_cnt;

static void msleep(long ms) {
	struct timespec ts = { ms / 1000, (ms % 1000) * 1000000L };
	nanosleep(&ts, NULL);
}
static void cnt_cb(tpt_p tpt, void *udata) {
	(void)tpt; (void)udata;
	__sync_fetch_and_add(&executed, 1);
}
static void *sender(void *arg) {
	size_t i = (size_t)arg;
	while (0 == stop_senders) {
		if (0 == tpt_msg_send(tp_thread_get(g, ((i ++) % NT)), NULL, 0, cnt_cb, NULL)) {
			__sync_fetch_and_add(&accepted, 1);
		}
	}
	return (NULL);
}
static void nop_cb(tpt_p tpt, void *udata) { (void)tpt; (void)udata; }
static void *sync_sender(void *arg) {
	size_t sent, failed;
	(void)arg;
	for (;;) {
		sent = 0; failed = 0;
		if (0 != tpt_msg_bsend_ex(g, NULL, TP_BMSG_F_SYNC, nop_cb, NULL, &sent, &failed) &&
		    0 == sent)
			break; /* Pool is down. */
	}
	__sync_fetch_and_add(&done_cnt, 1);
	return (NULL);
}
static int pool_up(void) {
	tp_settings_t s;
	tp_settings_def(&s);
	s.flags = 0;
	s.threads_max = NT;
	if (0 != tp_create(&s, &g) || 0 != tp_threads_create(g, 0))
		return (-1);
	return (0);
}

int main(int argc, char **argv) {
	setvbuf(stdout, NULL, _IOLBF, 0);
	int iters = ((1 < argc) ? atoi(argv[1]) : 300), it, i, w, bad = 0;
	size_t lost_total = 0;
	pthread_t thr[NSEND];

	/* Phase 1. */
	for (it = 0; it < iters; it ++) {
		accepted = 0; executed = 0; stop_senders = 0;
		if (0 != pool_up()) return (2);
		for (i = 0; i < NSEND; i ++) pthread_create(&thr[i], NULL, sender, (void*)(size_t)i);
		msleep(2);
		tp_shutdown(g);
		tp_shutdown_wait(g); /* All pool threads have exited. */
		stop_senders = 1;
		for (i = 0; i < NSEND; i ++) pthread_join(thr[i], NULL);
		tp_destroy(g);
		if (accepted != executed) {
			bad ++;
			lost_total += (accepted - executed);
			if (bad <= 5)
				printf("life cycle %i: tpt_msg_send() returned 0 for %zu messages, %zu were run: %zu LOST\n",
				    it, accepted, executed, (accepted - executed));
		}
	}
	printf("phase 1: %i of %i pool life cycles lost accepted messages (%zu messages)\n", bad, iters, lost_total);

	/* Phase 2. */
	for (it = 0; it < iters; it ++) {
		done_cnt = 0;
		if (0 != pool_up()) return (2);
		for (i = 0; i < NSEND; i ++) pthread_create(&thr[i], NULL, sync_sender, NULL);
		msleep(2);
		tp_shutdown(g);
		tp_shutdown_wait(g);
		for (w = 0; w < 300 && NSEND != done_cnt; w ++) msleep(10);
		if (NSEND != done_cnt) {
			printf("phase 2: life cycle %i: %i of %i tpt_msg_bsend_ex(TP_BMSG_F_SYNC) callers still wait 3 s after every pool thread was joined: DEADLOCK\n",
			    it, (NSEND - done_cnt), NSEND);
			printf("FAIL\n");
			fflush(stdout);
			_exit(1); /* Cant join them. */
		}
		for (i = 0; i < NSEND; i ++) pthread_join(thr[i], NULL);
		tp_destroy(g);
	}
	if (0 != bad) { printf("FAIL\n"); return (1); }
	printf("OK\n");
	return (0);
}
