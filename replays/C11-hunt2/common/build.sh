#!/bin/sh
# usage: build.sh <tree> <demo.c> <out> [extra flags]
T="$1"; SRC="$2"; OUT="$3"; shift 3
CC=${CC:-clang}
$CC -g -O1 -fno-omit-frame-pointer -fsanitize=address,undefined -fno-sanitize-recover=undefined \
 -DHAVE_ACCEPT4 -DHAVE_EXPLICIT_BZERO -DHAVE_MEMMEM -DHAVE_MEMRCHR -DHAVE_PIPE2 \
 -DHAVE_POSIX_SPAWN_FILE_ACTIONS_ADDCLOSEFROM_NP -DHAVE_PTHREAD_SETNAME_NP -DHAVE_REALLOCARRAY \
 -DHAVE_SOCK_CLOEXEC -DHAVE_SOCK_NONBLOCK -DHAVE_STRNCASECMP -DLINUX -D_GNU_SOURCE -D__USE_GNU=1 \
 -I"$T/include" "$@" "$SRC" "$T/src/threadpool/threadpool.c" "$T/src/threadpool/threadpool_msg_sys.c" \
 -lpthread -o "$OUT"
