/* tp_destroy() returns (and frees the pool) while a tp_shutdown() that an
 * other thread started is still in progress: the stop hook of the virtual
 * thread is still running after destruction returned, and tp_shutdown() then
 * reads the freed pool. */
#include <sys/param.h>
#include <sys/types.h>
#include <inttypes.h>
#include <string.h>
#include <stdio.h>
#include <errno.h>
#include <stdlib.h>
#include <unistd.h>
#include <pthread.h>
#include <time.h>
#include "threadpool/threadpool.h"
#include "threadpool/threadpool_msg_sys.h"

static volatile int destroy_returned = 0;
static volatile int hook_running = 0;
static volatile int late_hook = 0;

static void msleep(long ms) {
	struct timespec ts = { ms / 1000, (ms % 1000) * 1000000L };
	nanosleep(&ts, NULL);
}

static void on_stop(tpt_p tpt) {
	(void)tpt;
	hook_running = 1;
	msleep(300); /* e.g. the application flushes its state here. */
	if (0 != destroy_returned) {
		late_hook = 1;
		fprintf(stderr, "FAIL: stop hook still running after tp_destroy() returned 0\n");
	}
	hook_running = 0;
}

static void *shutdown_thr(void *arg) { /* e.g. signal handling thread. */
	tp_shutdown((tp_p)arg);
	return (NULL);
}

int main(void) {
	setvbuf(stdout, NULL, _IOLBF, 0);
	tp_p tp = NULL;
	tp_settings_t s;
	pthread_t thr;
	int error;

	tp_settings_def(&s);
	s.flags = 0;
	s.threads_max = 2;
	s.tpt_on_stop = on_stop;
	error = tp_create(&s, &tp);
	if (0 != error) { printf("tp_create: %i\n", error); return (2); }
	/* No worker threads needed: the same happens with them. */
	pthread_create(&thr, NULL, shutdown_thr, tp);
	while (0 == hook_running) msleep(1);
	error = tp_destroy(tp);
	destroy_returned = 1;
	printf("tp_destroy() = %i while tp_shutdown() of other thread in progress: %s\n",
	    error, (hook_running ? "yes" : "no"));
	pthread_join(thr, NULL); /* ASan: heap-use-after-free in tp_shutdown(). */
	if (late_hook) { printf("FAIL\n"); return (1); }
	printf("OK\n");
	return (0);
}
