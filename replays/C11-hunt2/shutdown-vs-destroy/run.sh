#!/bin/sh
T="${1:-/tmp/hunt/C11}"; D="$(dirname "$0")"
sh "$D/../common/build.sh" "$T" "$D/demo.c" /tmp/hunt_c11_svd.bin || exit 3
/tmp/hunt_c11_svd.bin 2>&1 | tee /tmp/hunt_c11_svd.log
if grep -q -e "FAIL" -e "AddressSanitizer" /tmp/hunt_c11_svd.log; then echo "FAIL: defect shown"; exit 1; fi
exit 0
