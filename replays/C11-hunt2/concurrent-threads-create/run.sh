#!/bin/sh
T="${1:-/tmp/hunt/C11}"; D="$(dirname "$0")"
sh "$D/../common/build_plain.sh" "$T" "$D/demo.c" /tmp/hunt_c11_ctc.bin || exit 3
timeout 600 /tmp/hunt_c11_ctc.bin 5000 > /tmp/hunt_c11_ctc.log 2>&1; rc=$?
cat /tmp/hunt_c11_ctc.log
if [ $rc -ne 0 ] || grep -q "FAIL" /tmp/hunt_c11_ctc.log; then echo "FAIL: defect shown"; exit 1; fi
exit 0
