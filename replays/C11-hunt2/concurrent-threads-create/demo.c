/* Two concurrent tp_threads_create() calls on the same pool: the slot claim
 * (test state == STOP && created == 0, then state = STARTING, created = 1) is
 * not atomic, both callers start an OS thread for the same slot.  pt_id is
 * overwritten (first thread can never be joined), the start hook runs twice
 * for the slot, only one of the two threads gets the stop message: the other
 * sleeps in epoll_wait() for ever -> tp_destroy() blocks in pthread_join() or
 * returns and frees the pool under the leaked thread. */
#include <sys/param.h>
#include <sys/types.h>
#include <inttypes.h>
#include <string.h>
#include <stdio.h>
#include <errno.h>
#include <stdlib.h>
#include <unistd.h>
#include <dirent.h>
#include <pthread.h>
#include <time.h>
#include "threadpool/threadpool.h"
#include "threadpool/threadpool_msg_sys.h"

#define NT	8

static tp_p g;
static volatile int n_start, n_stop, slot_start[NT + 1];
static pthread_barrier_t bar;

static void msleep(long ms) {
	struct timespec ts = { ms / 1000, (ms % 1000) * 1000000L };
	nanosleep(&ts, NULL);
}
static void on_start(tpt_p tpt) {
	__sync_fetch_and_add(&n_start, 1);
	__sync_fetch_and_add(&slot_start[tpt_get_num(tpt)], 1);
}
static void on_stop(tpt_p tpt) { (void)tpt; __sync_fetch_and_add(&n_stop, 1); }
static void *starter(void *arg) {
	int *ret = arg;
	pthread_barrier_wait(&bar);
	(*ret) = tp_threads_create(g, 0);
	return (NULL);
}
static int count_thr(void) {
	int n = 0; DIR *d = opendir("/proc/self/task"); struct dirent *e;
	while (NULL != (e = readdir(d))) if ('.' != e->d_name[0]) n ++;
	closedir(d);
	return (n);
}

int main(int argc, char **argv) {
	setvbuf(stdout, NULL, _IOLBF, 0);
	int iters = ((1 < argc) ? atoi(argv[1]) : 3000), it, i, w, thr0, thr1, ret[2];
	tp_settings_t s;
	pthread_t thr[2];

	for (it = 0; it < iters; it ++) {
		tp_settings_def(&s);
		s.flags = 0;
		s.threads_max = NT;
		s.tpt_on_start = on_start;
		s.tpt_on_stop = on_stop;
		n_start = 0; n_stop = 0;
		memset((void*)slot_start, 0x00, sizeof(slot_start));
		thr0 = count_thr();
		if (0 != tp_create(&s, &g)) return (2);
		pthread_barrier_init(&bar, NULL, 2);
		for (i = 0; i < 2; i ++) pthread_create(&thr[i], NULL, starter, &ret[i]);
		for (i = 0; i < 2; i ++) pthread_join(thr[i], NULL);
		pthread_barrier_destroy(&bar);
		/* Let every started thread reach its start hook. */
		for (w = 0; w < 20; w ++) { thr1 = count_thr(); msleep(1); if (thr1 == count_thr() && (NT + 1) <= n_start) break; }
		msleep(2);
		thr1 = count_thr();
		if ((NT + 1) != n_start || (thr0 + NT) != thr1) {
			printf("life cycle %i: tp_threads_create() x2 concurrently returned %i and %i: "
			    "start hook ran %i times (expected %i = %i workers + virtual thread), OS threads alive: %i (expected %i)\n",
			    it, ret[0], ret[1], n_start, (NT + 1), NT, (thr1 - thr0), NT);
			for (i = 0; i < NT; i ++) if (1 < slot_start[i])
				printf("  slot %i: start hook ran %i times, %i OS threads run tp_thread_proc() on it\n", i, slot_start[i], slot_start[i]);
			printf("FAIL (tp_destroy() would now block for ever in pthread_join() or leak the extra thread)\n");
			fflush(stdout);
			_exit(1);
		}
		tp_destroy(g);
	}
	printf("OK: no double start in %i life cycles\n", iters);
	return (0);
}
