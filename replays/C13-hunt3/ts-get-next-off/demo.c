/* mpeg2_ts_pkt_get_next() validates off with
 *   if (mpeg2_ts_pkt_size > (buf_size - off)) return (0);
 * For off > buf_size the subtraction wraps, the test passes and buf[off]
 * is read (and, if it is 0x47, returned as a packet) behind the buffer. */
#include <sys/param.h>
#include <sys/types.h>
#include <inttypes.h>
#include <string.h>
#include <stdlib.h>
#include <stdio.h>
#include <errno.h>
#include "proto/mpeg2ts.h"

int
main(void) {
	size_t buf_size = (2 * MPEG2_TS_PKT_SIZE_188);
	uint8_t *buf = malloc(buf_size), *pkt = NULL;
	int ret;

	memset(buf, 0xff, buf_size);
	buf[0] = MPEG2_TS_SB;
	buf[MPEG2_TS_PKT_SIZE_188] = MPEG2_TS_SB;
	/* off == buf_size is refused ... */
	ret = mpeg2_ts_pkt_get_next(buf, buf_size, buf_size, MPEG2_TS_PKT_SIZE_188, &pkt);
	printf("off = buf_size     -> %i\n", ret);
	/* ... off = buf_size + 1 must be refused too. */
	fflush(stdout);
	ret = mpeg2_ts_pkt_get_next(buf, buf_size, (buf_size + 1), MPEG2_TS_PKT_SIZE_188, &pkt);
	printf("off = buf_size + 1 -> %i, pkt off = %td\n", ret, (NULL != pkt) ? (pkt - buf) : -1);
	if (0 != ret && (pkt < buf || (pkt + MPEG2_TS_PKT_SIZE_188) > (buf + buf_size))) {
		printf("FAIL: packet outside the buffer returned\n");
		return (1);
	}
	printf("OK (no ASan report)\n");
	return (0);
}
