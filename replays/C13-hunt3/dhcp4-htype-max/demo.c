/* dhcp4_hdr_check() bounds hdr->htype with DHCP4_HDR_HTYPE_MAX (38), but the
 * name table of the same header, dhcp4_header_htype[], has 38 entries
 * (indexes 0..37).  A packet with htype = 38 passes the check and the table
 * lookup that the check is there to protect reads behind the table. */
#include <sys/param.h>
#include <sys/types.h>
#include <inttypes.h>
#include <string.h>
#include <stdio.h>
#include <errno.h>
#include "proto/dhcpv4.h"

int
main(void) {
	uint8_t pkt[sizeof(dhcp4_hdr_t) + 4];
	dhcp4_hdr_p hdr = (dhcp4_hdr_p)pkt;
	const char *volatile name;
	int error;

	memset(pkt, 0x00, sizeof(pkt));
	hdr->op = DHCP4_HDR_OP_BOOTREQUEST;
	hdr->htype = 38; /* hostile value: first one behind the table. */
	hdr->hlen = 6;
	memcpy(hdr->magic_cookie, dhcp4_hdr_magic_cookie, 4);
	pkt[sizeof(dhcp4_hdr_t)] = DHCP4_OPT_END;

	error = dhcp4_hdr_check(pkt, sizeof(pkt));
	printf("dhcp4_hdr_check(htype = %u) = %i, nitems(dhcp4_header_htype) = %zu\n",
	    hdr->htype, error, nitems(dhcp4_header_htype));
	if (0 != error) {
		printf("OK: refused\n");
		return (0);
	}
	if (hdr->htype >= nitems(dhcp4_header_htype)) {
		printf("FAIL: accepted htype %u has no entry in dhcp4_header_htype[%zu]\n",
		    hdr->htype, nitems(dhcp4_header_htype));
		fflush(stdout);
		name = dhcp4_header_htype[hdr->htype]; /* ASan: global-buffer-overflow. */
		printf("name ptr = %p\n", (const void*)name);
		return (1);
	}
	printf("OK\n");
	return (0);
}
