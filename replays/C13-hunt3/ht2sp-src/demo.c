/* ht2sp(buf, size, ret_buf, &n) with ret_buf != buf copies buf to ret_buf and
 * then replaces the TABs in buf - the input - instead of in ret_buf: the
 * output still has every HT, and the caller's input is modified. */
#include <sys/param.h>
#include <sys/types.h>
#include <inttypes.h>
#include <string.h>
#include <stdio.h>
#include <errno.h>
#include "proto/http.h"

int
main(void) {
	uint8_t in[] = "a:\tb\tc", orig[sizeof(in)], out[sizeof(in)];
	size_t n = 0;
	int error, fail = 0;

	memcpy(orig, in, sizeof(in));
	memset(out, 0x00, sizeof(out));
	error = ht2sp(in, (sizeof(in) - 1), out, &n);
	printf("ht2sp() = %i, n = %zu, out = \"%s\", in = \"%s\"\n", error, n, out, in);
	if (NULL != memchr(out, '\t', n)) {
		printf("FAIL: HT left in the output buffer\n");
		fail = 1;
	}
	if (0 != memcmp(in, orig, sizeof(in))) {
		printf("FAIL: input buffer was modified\n");
		fail = 1;
	}
	if (0 == fail)
		printf("OK\n");
	return (fail);
}
