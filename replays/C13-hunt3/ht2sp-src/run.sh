#!/bin/sh
# usage: run.sh <tree>   exits non-zero when the defect shows
T=${1:-/tmp/hunt/C13}
D=$(cd "$(dirname "$0")" && pwd)
F="-DHAVE_ACCEPT4 -DHAVE_EXPLICIT_BZERO -DHAVE_MEMMEM -DHAVE_MEMRCHR -DHAVE_PIPE2 -DHAVE_POSIX_SPAWN_FILE_ACTIONS_ADDCLOSEFROM_NP -DHAVE_PTHREAD_SETNAME_NP -DHAVE_REALLOCARRAY -DHAVE_SOCK_CLOEXEC -DHAVE_SOCK_NONBLOCK -DHAVE_STRNCASECMP -DLINUX -D_GNU_SOURCE -D__USE_GNU=1 -I$T/include"
O=$(mktemp -d)
clang -g -O0 -w -fsanitize=address,undefined -fno-sanitize-recover=undefined $F "$D/demo.c" "$T/src/proto/http.c" -o "$O/demo" || exit 2
"$O/demo"
rc=$?
rm -rf "$O"
if [ $rc -ne 0 ]; then echo "FAIL (rc=$rc)"; exit 1; fi
exit 0
