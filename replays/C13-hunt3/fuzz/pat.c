#include <sys/param.h>
#include <sys/types.h>
#include <inttypes.h>
#include <string.h>
#include <stdio.h>
#include <errno.h>
#include "proto/mpeg2ts.h"
int main(void){ uint8_t p[188]; memset(p,0xff,188); uint8_t h[]={0x47,0x40,0x00,0x10,0x00,0x00,0xB0,0x0D,0x00,0x01,0xC1,0x00,0x00,0x00,0x01,0xE1,0x00}; memcpy(p,h,sizeof(h));
printf("standard PAT packet (pointer_field=0): is_valid=%d\n", mpeg2_ts_pkt_is_valid((mpeg2_ts_hdr_t*)p,188)); return 0;}
