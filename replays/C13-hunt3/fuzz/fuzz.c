#include <sys/param.h>
#include <sys/types.h>
#include <inttypes.h>
#include <string.h>
#include <stdio.h>
#include <stdlib.h>
#include <errno.h>
#include <arpa/inet.h>
#include "proto/http.h"
#include "proto/sdp.h"
#include "proto/rtp.h"
#include "proto/mpeg2ts.h"
#include "proto/dns.h"
#include "proto/sap.h"
#include "proto/dhcpv4.h"

static void chk(const uint8_t *b, size_t n, const uint8_t *p, size_t l, const char *w) {
	if (p == NULL && l == 0) return;
	if (p < b || p > b + n || l > (size_t)((b + n) - p)) { printf("FAIL span %s: off=%td len=%zu n=%zu\n", w, p - b, l, n); abort(); }
}

int LLVMFuzzerTestOneInput(const uint8_t *data, size_t size) {
	if (size < 2) return 0;
	uint8_t sel = data[0] % 12; data++; size--;
	uint8_t *b = malloc(size ? size : 1); memcpy(b, data, size);
	switch (sel) {
	case 0: { http_req_line_data_t r; if (0 == http_parse_req_line(b, size, &r)) {
		chk(b,size,r.method,r.method_size,"method"); chk(b,size,r.uri,r.uri_size,"uri"); chk(b,size,r.scheme,r.scheme_size,"scheme");
		chk(b,size,r.host,r.host_size,"host"); chk(b,size,r.abs_path,r.abs_path_size,"abs_path"); chk(b,size,r.query,r.query_size,"query");
		if (r.line_size > size) abort();
		const uint8_t *v; size_t vs;
		if (r.query && 0 == http_query_val_get(r.query, r.query_size, (const uint8_t*)"a", 1, &v, &vs)) chk(b,size,v,vs,"qval");
		} break; }
	case 1: { http_resp_line_data_t r; if (0 == http_parse_resp_line(b, size, &r)) { chk(b,size,r.reason_phrase,r.reason_phrase_size,"reason"); } break; }
	case 2: { const uint8_t *v=NULL; size_t vs=0, off=0; int n=0;
		while (0 == http_hdr_val_get_ex(b, size, (const uint8_t*)"ab", 2, off, &v, &vs, &off)) { chk(b,size,v,vs,"hdrval"); if (off > size) abort(); if (++n > 100000) abort(); }
		http_req_sec_chk(b, size, 2);
		break; }
	case 3: { if (size < 2) break; uint8_t *l = malloc(size); for (size_t i=0;i<size;i++) l[i]= (b[i]>='A'&&b[i]<='Z')? b[i]|32 : b[i]; size_t ns=size;
		http_hdr_val_remove(b, l, size, &ns, (const uint8_t*)"ab", 2); if (ns > size) abort(); free(l); break; }
	case 4: { uint8_t *q = b; size_t ns = size; http_query_val_del(q, size, (const uint8_t*)"a", 1, &ns); if (ns > size) abort();
		const uint8_t *v,*vn; size_t vs; if (0 == http_query_val_get_ex(b, ns, (const uint8_t*)"b", 1, &vn, &v, &vs)) chk(b,ns,v,vs,"qv"); break; }
	case 5: { uint8_t *r=NULL; size_t rs=0; if (0 == http_data_decode_chunked(b, size, &r, &rs)) { if (rs) chk(b,size,r,rs,"chunk"); } break; }
	case 6: { size_t os = (size % 7) + 1; uint8_t *o = malloc(os); size_t r = http_url_decode(b, size, o, os); if (r >= os) abort(); free(o);
		uint8_t *o2 = malloc(size+1); http_url_decode(b,size,o2,size+1); free(o2);
		uint8_t *o3 = malloc(size ? size : 1); size_t rs; if (size) wsp2sp(b, size, o3, &rs); free(o3); break; }
	case 7: { if (0 == sdp_msg_sec_chk(b, size)) {} uint8_t *v; size_t vs, line = 0; int n = 0;
		while (0 == sdp_msg_type_get(b, size, 'a', &line, &v, &vs)) { chk(b,size,v,vs,"sdp"); line++; if (++n>100000) abort();
			uint8_t *f[4]; size_t fs[4]; size_t c = sdp_msg_feilds_get(v, vs, 4, f, fs); for (size_t i=0;i<c;i++) chk(b,size,f[i],fs[i],"sdpf"); }
		break; }
	case 8: { size_t s,e; if (0 == rtp_payload_get(b, size, &s, &e)) { if (s+e > size) abort(); } break; }
	case 9: { if (size >= 188) { size_t ps; mpeg2_ts_pkt_size_detect(b, size, &ps); uint8_t *p; size_t off=0; int n=0;
			while (off <= size && mpeg2_ts_pkt_get_next(b, size, off, 188, &p)) { if (p < b || p+188 > b+size) abort(); mpeg2_ts_pkt_is_valid((mpeg2_ts_hdr_t*)p, 188); off = (p-b)+188; if(++n>100000) abort(); } }
		break; }
	case 10: { size_t qd,an,ns,ar,rc,ms; if (size < 12) break; if (0 == dns_msg_info_get((dns_hdr_p)b, size, &qd,&an,&ns,&ar,&rc,&ms)) {
			if (ms > size) abort(); size_t off = an, cnt = rc; uint16_t t,c,ds; uint32_t ttl; void *d; size_t rs; int n=0;
			while (cnt && 0 == dns_msg_rr_find((dns_hdr_p)b, ms, &off, &cnt, (const uint8_t*)"a.b", 3, &t,&c,&ttl,&ds,&d,&rs)) { chk(b,size,d,ds,"rdata"); off += rs; if(++n>70000) abort(); }
			uint8_t name[300]; size_t nl = sizeof(name); uint16_t qt,qc; size_t qs;
			if (dns_hdr_qd_get((dns_hdr_p)b)) dns_msg_question_get_data((dns_hdr_p)b, ms, qd, name, &nl, &qt,&qc,&qs);
		} break; }
	case 11: { sap_packet_is_valid(b, size); dhcp4_hdr_check(b, size); break; }
	}
	free(b);
	return 0;
}
