/* http_parse_req_line() leaves query = NULL, query_size = 0 for a request
 * target without '?'.  http_query_val_get*() explicitly accept (NULL, 0)
 * (their guard only refuses NULL with a non-zero size), but then compute
 * NULL + 1 (and NULL + 0 in C): undefined behaviour, reported by UBSan. */
#include <sys/param.h>
#include <sys/types.h>
#include <inttypes.h>
#include <string.h>
#include <stdio.h>
#include <errno.h>
#include "proto/http.h"

int
main(void) {
	static const uint8_t req[] = "GET /index.html HTTP/1.1\r\nHost: a\r\n";
	http_req_line_data_t rd;
	const uint8_t *val = NULL;
	size_t val_size = 0;
	int error;

	error = http_parse_req_line(req, (sizeof(req) - 1), &rd);
	printf("http_parse_req_line() = %i, query = %p, query_size = %zu\n",
	    error, (const void*)rd.query, rd.query_size);
	if (0 != error || NULL != rd.query || 0 != rd.query_size) {
		printf("unexpected parse result, demo not applicable\n");
		return (0);
	}
	/* The way http_server_auth.c uses it. */
	error = http_query_val_get(rd.query, rd.query_size,
	    (const uint8_t*)"login", 5, &val, &val_size);
	printf("http_query_val_get(NULL, 0) = %i\n", error);
	if (ESPIPE != error) {
		printf("FAIL: expected ESPIPE\n");
		return (1);
	}
	printf("OK\n");
	return (0);
}
