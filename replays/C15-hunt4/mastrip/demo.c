/* One modified byte of a signed Access-Request is not rejected: changing the type octet of
 * the Message-Authenticator attribute (80) into another type for which 16 bytes are a legal
 * value makes radius_pkt_chk()+radius_pkt_verify() return 0: verify() only checks the
 * HMAC "if it exists" and has no way to be told that it must exist; for codes 1/12/13
 * nothing else is checked. */
#include <sys/param.h>
#include <sys/types.h>
#include <inttypes.h>
#include <string.h>
#include <stdio.h>
#include <errno.h>
#include "proto/radius.h"

int main(void) {
	uint8_t key[] = "secret", ra[16] = {1,2,3,4,5,6,7,8,9,10,11,12,13,14,15,16};
	uint8_t req[4096], rx[4096];
	size_t sz = 0, i, ma_off = 0;
	rad_pkt_hdr_p p = (rad_pkt_hdr_p)req;
	int e, bit, accepted = 0;

	e = radius_pkt_init(p, sizeof(req), &sz, RADIUS_PKT_TYPE_ACCESS_REQUEST, 42, ra);
	e |= radius_pkt_attr_add(p, sizeof(req), &sz, RADIUS_ATTR_TYPE_USER_NAME, 3, (uint8_t*)"bob", NULL);
	e |= radius_pkt_attr_add(p, sizeof(req), &sz, RADIUS_ATTR_TYPE_USER_PASSWORD, 5, (uint8_t*)"hello", NULL);
	e |= radius_pkt_sign(p, sizeof(req), &sz, key, 6, 1 /* add Message-Authenticator */);
	if (e) { printf("setup failed %d\n", e); return 2; }
	radius_pkt_attr_find(p, 0, RADIUS_ATTR_TYPE_MSG_AUTHENTIC, &ma_off);
	memcpy(rx, req, sz);
	if (radius_pkt_chk((rad_pkt_hdr_p)rx, sz) || radius_pkt_verify((rad_pkt_hdr_p)rx, key, 6, NULL)) {
		printf("intact packet refused?\n"); return 2;
	}
	/* every single-bit corruption of every byte */
	for (i = 0; i < sz; i ++) {
		for (bit = 0; bit < 8; bit ++) {
			memcpy(rx, req, sz);
			rx[i] ^= (uint8_t)(1 << bit);
			e = radius_pkt_chk((rad_pkt_hdr_p)rx, sz);
			if (0 == e)
				e = radius_pkt_verify((rad_pkt_hdr_p)rx, key, 6, NULL);
			if (0 == e) {
				printf("byte %zu (%s) %02x -> %02x: accepted\n", i,
				    (i == ma_off) ? "Message-Authenticator type octet" : "other",
				    req[i], rx[i]);
				accepted ++;
			}
		}
	}
	if (accepted) { printf("FAIL: %d single-byte corruptions of a signed Access-Request accepted\n", accepted); return 1; }
	printf("OK\n");
	return 0;
}
