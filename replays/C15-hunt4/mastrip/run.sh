#!/bin/sh
exec "$(dirname "$0")/../common_run.sh" "$(dirname "$0")" "$1"
