#include <sys/param.h>
#include <sys/types.h>
#include <inttypes.h>
#include <string.h>
#include <stdio.h>
#include <stdlib.h>
#include <errno.h>
#include <openssl/md5.h>
#include <openssl/hmac.h>
#include "utils/mem_utils.h"
#include "proto/dns.h"
#include "proto/radius.h"

static int fails = 0;
#define FAIL(...) do { printf("FAIL: " __VA_ARGS__); printf("\n"); fails++; } while (0)

static unsigned rnd(void) { return (unsigned)rand(); }

/* independent DNS name encoder */
static size_t enc_name(const uint8_t *n, size_t len, uint8_t *out) {
	size_t o = 0, i = 0, s;
	if (len == 0) { out[0] = 0; return 1; }
	while (i <= len) {
		s = i;
		while (i < len && n[i] != '.') i++;
		out[o++] = (uint8_t)(i - s);
		memcpy(out + o, n + s, i - s); o += i - s;
		i++;
	}
	out[o++] = 0;
	return o;
}
static size_t gen_name(uint8_t *n, size_t maxlen) {
	size_t len = 0, target = 1 + rnd() % maxlen, l, i;
	for (;;) {
		l = 1 + rnd() % 63;
		if (rnd() % 4 == 0) l = 63;
		if (rnd() % 4 == 0) l = 1;
		if (len + (len ? 1 : 0) + l > target) {
			if (len == 0) { l = target; if (l > 63) l = 63; }
			else break;
		}
		if (len) n[len++] = '.';
		for (i = 0; i < l; i++) n[len++] = (uint8_t)('a' + rnd() % 26);
		if (len >= target) break;
	}
	return len;
}

static void test_dns(void) {
	int it;
	for (it = 0; it < 20000; it++) {
		uint8_t name[300], ref[300];
		size_t nlen = gen_name(name, (it % 3) ? 253 : 20), rlen, sz = 0, nl2 = 0;
		int e;
		if (nlen > 253) continue;
		rlen = enc_name(name, nlen, ref);
		/* exact buffer */
		uint8_t *b = malloc(rlen);
		uint8_t *nm = malloc(nlen); memcpy(nm, name, nlen);
		e = DomainNameToSequenceOfLabels(nm, nlen, b, rlen, &sz);
		if (e || sz != rlen || memcmp(b, ref, rlen)) FAIL("D2S e=%d sz=%zu rlen=%zu nlen=%zu", e, sz, rlen, nlen);
		/* one less */
		if (rlen > 1) { uint8_t *b2 = malloc(rlen - 1); e = DomainNameToSequenceOfLabels(nm, nlen, b2, rlen - 1, &sz); if (e != EOVERFLOW) FAIL("D2S short e=%d", e); free(b2);} 
		/* back */
		uint8_t *o = malloc(nlen + 1);
		e = SequenceOfLabelsToDomainName(b, rlen, o, nlen + 1, &nl2);
		if (e == EOVERFLOW) { /* reported size must be enough */
			uint8_t *o2 = malloc(nl2); size_t t = 0;
			e = SequenceOfLabelsToDomainName(b, rlen, o2, nl2, &t);
			if (e || memcmp(o2, name, nlen) || o2[nlen]) FAIL("S2D retry e=%d", e);
			free(o2);
		} else if (e || memcmp(o, name, nlen) || o[nlen] != 0) FAIL("S2D e=%d", e);
		e = SequenceOfLabelsGetSize(b, rlen, &sz);
		if (e || sz != rlen) FAIL("SGetSize e=%d sz=%zu", e, sz);
		free(o); free(b); free(nm);

		/* message */
		{
			uint16_t qt = rnd(), qc = rnd(), rt = rnd() , rc = rnd(), dl = rnd() % 600;
			if (rt == DNS_RR_TYPE_OPT) rt = 1;
			uint32_t ttl = ((uint32_t)rnd() << 16) ^ rnd();
			uint8_t data[600]; size_t i; for (i = 0; i < dl; i++) data[i] = rnd();
			uint8_t refm[2000]; size_t ro = 12;
			uint8_t name2[300]; size_t n2len = (rnd() % 5 == 0) ? 0 : gen_name(name2, 253);
			if (n2len > 253) n2len = 0;
			memset(refm, 0, 12);
			refm[0] = 0x34; refm[1] = 0x12; /* raw id */
			refm[2] = 0x01; refm[3] = 0x00;
			refm[5] = 1; refm[7] = 1; refm[11] = 1;
			ro += enc_name(name, nlen, refm + ro);
			refm[ro++] = qt >> 8; refm[ro++] = qt; refm[ro++] = qc >> 8; refm[ro++] = qc;
			ro += enc_name(name2, n2len, refm + ro);
			refm[ro++] = rt >> 8; refm[ro++] = rt; refm[ro++] = rc >> 8; refm[ro++] = rc;
			refm[ro++] = ttl >> 24; refm[ro++] = ttl >> 16; refm[ro++] = ttl >> 8; refm[ro++] = ttl;
			refm[ro++] = dl >> 8; refm[ro++] = dl; memcpy(refm + ro, data, dl); ro += dl;
			/* OPT */
			refm[ro++] = 0; refm[ro++] = 0; refm[ro++] = 41; refm[ro++] = 0x10; refm[ro++] = 0x00;
			refm[ro++] = 0xAB; refm[ro++] = 0x01; refm[ro++] = 0x80; refm[ro++] = 0x00; refm[ro++] = 0; refm[ro++] = 3; refm[ro++] = 1; refm[ro++] = 2; refm[ro++] = 3;

			size_t cap = ro; /* exact fit */
			uint8_t *m = malloc(cap); dns_hdr_p h = (dns_hdr_p)m; size_t ms = 0, tmp;
			dns_hdr_flags_t fl; fl.u16 = 0; fl.bits.rd = 1;
			dns_ex_flags_t ef; ef.u16 = 0; ef.bits.d0 = 1;
			e = dns_hdr_create(0x1234, fl.u16, h, cap, &ms);
			if (e) FAIL("hdr_create");
			e = dns_msg_question_add(h, ms, cap, 0, name, nlen, qt, qc, &ms);
			if (e) FAIL("question_add e=%d", e);
			size_t an_off_ref = ms;
			e = dns_msg_rr_add(h, ms, cap, 0, name2, n2len, rt, rc, ttl, dl, data, &tmp);
			if (e) FAIL("rr_add e=%d", e); else ms = tmp;
			dns_hdr_an_inc(h, 1);
			size_t ar_off_ref = ms;
			uint8_t od[3] = {1,2,3};
			e = dns_msg_optrr_add(h, ms, cap, 4096, 1, 0xAB, ef.u16, 3, od, &tmp);
			if (e) FAIL("optrr_add e=%d ms=%zu cap=%zu tmp=%zu", e, ms, cap, tmp); else ms = tmp;
			dns_hdr_ar_inc(h, 1);
			if (ms != ro || memcmp(m, refm, ro)) { FAIL("msg bytes differ ms=%zu ro=%zu", ms, ro); }
			size_t qd, an, ns, ar, cnt, rs;
			e = dns_msg_info_get(h, ms, &qd, &an, &ns, &ar, &cnt, &rs);
			if (e || qd != 12 || an != an_off_ref || ns != ar_off_ref || ar != ar_off_ref || cnt != 2 || rs != ms) FAIL("info_get e=%d", e);
			if (dns_msg_validate(h, ms)) FAIL("validate");
			/* parse back */
			uint8_t *pn = malloc(nlen + 1); size_t pl = nlen + 1; uint16_t t1, c1;
			e = dns_msg_question_get_data(h, ms, qd, pn, &pl, &t1, &c1, &tmp);
			if (e || pl != nlen || memcmp(pn, name, nlen) || t1 != qt || c1 != qc) FAIL("q get e=%d pl=%zu nlen=%zu", e, pl, nlen);
			free(pn);
			pn = malloc(n2len + 1); pl = n2len + 1; uint32_t ttl1; uint16_t ds; void *dp;
			e = dns_msg_rr_get_data(h, ms, an, pn, &pl, &t1, &c1, &ttl1, &ds, &dp, &tmp);
			if (e || pl != n2len || memcmp(pn, name2, n2len) || t1 != rt || c1 != rc || ttl1 != ttl || ds != dl || memcmp(dp, data, dl)) FAIL("rr get e=%d pl=%zu n2len=%zu", e, pl, n2len);
			free(pn);
			/* short name buffer: reported size should suffice */
			if (n2len > 2) {
				pn = malloc(n2len); pl = n2len;
				e = dns_msg_rr_get_data(h, ms, an, pn, &pl, NULL, NULL, NULL, NULL, NULL, NULL);
				if (e != EOVERFLOW || pl != n2len + 1) FAIL("rr short e=%d pl=%zu want %zu", e, pl, n2len + 1);
				free(pn);
			}
			/* rr_find */
			{
				size_t off = an, rcnt = cnt;
				e = dns_msg_rr_find(h, ms, &off, &rcnt, name2, n2len, &t1, &c1, &ttl1, &ds, &dp, &tmp);
				if (e || off != an) FAIL("rr_find e=%d", e);
			}
			/* truncations must not crash and must fail validate */
			for (i = 12; i < ms; i += 1 + rnd() % 7) {
				uint8_t *tcp = malloc(i); memcpy(tcp, m, i);
				if (0 == dns_msg_validate((dns_hdr_p)tcp, i)) FAIL("trunc %zu validated", i);
				free(tcp);
			}
			/* one byte too small buffers */
			{
				uint8_t *m2 = malloc(cap); memcpy(m2, m, 12); dns_hdr_p h2 = (dns_hdr_p)m2; size_t s2 = 12;
				((dns_hdr_p)m2)->qd_count = 0; ((dns_hdr_p)m2)->an_count = 0; ((dns_hdr_p)m2)->ar_count = 0;
				e = dns_msg_question_add(h2, s2, an_off_ref - 1, 0, name, nlen, qt, qc, &s2);
				if (e != EOVERFLOW) FAIL("q_add short e=%d", e);
				free(m2);
			}
			free(m);
		}
	}
}

static void ref_md5(uint8_t *out, ...) ;

static const uint8_t codes[] = {1,2,3,4,5,11,12,13,40,41,42,43,44,45};
static int is_reply(uint8_t c) { return c==2||c==3||c==5||c==11||c==41||c==42||c==44||c==45; }

static void test_radius(void) {
	int it;
	for (it = 0; it < 4000; it++) {
		uint8_t code = codes[rnd() % sizeof(codes)];
		uint8_t key[256]; size_t klen = rnd() % 200; size_t i;
		for (i = 0; i < klen; i++) key[i] = rnd();
		uint8_t ra[16]; for (i = 0; i < 16; i++) ra[i] = rnd();
		uint8_t reqbuf[20]; rad_pkt_hdr_p req = (rad_pkt_hdr_p)reqbuf;
		size_t sz;
		radius_pkt_init(req, 20, &sz, is_reply(code) ? (code == 5 ? 4 : 1) : 1, 7, ra);
		memcpy(req->authenticator, ra, 16);
		size_t cap = 4096; uint8_t *b = malloc(cap); rad_pkt_hdr_p p = (rad_pkt_hdr_p)b;
		int e = radius_pkt_init(p, cap, &sz, code, 7, ra);
		if (e) { FAIL("init code %d e=%d", code, e); free(b); continue; }
		/* attrs */
		uint8_t pw[128]; size_t pwlen = rnd() % 129; if (rnd()%5==0) pwlen = 128; if (rnd()%7==0) pwlen=0; if (rnd()%7==0) pwlen=16;
		for (i = 0; i < pwlen; i++) pw[i] = 1 + rnd() % 255;
		int have_pw = (code == 1) && (rnd() % 2);
		int want_ma = rnd() % 2; if (code == 12) want_ma = 1;
		uint8_t un[253]; size_t unlen = 1 + rnd() % 253; for (i = 0; i < unlen; i++) un[i] = rnd();
		size_t off;
		e = radius_pkt_attr_add(p, cap, &sz, RADIUS_ATTR_TYPE_USER_NAME, unlen, un, &off);
		if (e || off != 20) FAIL("add un e=%d", e);
		if (have_pw) { e = radius_pkt_attr_add(p, cap, &sz, RADIUS_ATTR_TYPE_USER_PASSWORD, pwlen, pw, &off); if (e) FAIL("add pw e=%d", e); }
		e = radius_pkt_attr_add_uint32(p, cap, &sz, RADIUS_ATTR_TYPE_NAS_PORT, htonl(0x01020304), &off);
		if (e) FAIL("add u32 e=%d", e);
		int ma_first = rnd() % 2;
		if (want_ma && ma_first) { e = radius_pkt_attr_add(p, cap, &sz, RADIUS_ATTR_TYPE_MSG_AUTHENTIC, 0, NULL, &off); if (e) FAIL("add ma e=%d", e); 
			e = radius_pkt_attr_add(p, cap, &sz, RADIUS_ATTR_TYPE_REPLY_MESSAGE, 3, (uint8_t*)"abc", &off); }
		e = radius_pkt_sign(p, cap, &sz, key, klen, (want_ma && !ma_first));
		if (e) { FAIL("sign code %d e=%d", code, e); free(b); continue; }
		if (sz != ntohs(p->len)) FAIL("size");
		e = radius_pkt_chk(p, sz); if (e) FAIL("chk e=%d code=%d", e, code);
		/* reference */
		{
			uint8_t rb[4096]; size_t ro = 20; 
			rb[0] = code; rb[1] = 7;
			rb[ro++] = 1; rb[ro++] = unlen + 2; memcpy(rb + ro, un, unlen); ro += unlen;
			if (have_pw) {
				size_t pl = pwlen ? ((pwlen + 15) & ~15u) : 16; uint8_t pp[128], c[16]; memset(pp, 0, 128); memcpy(pp, pw, pwlen);
				rb[ro++] = 2; rb[ro++] = pl + 2;
				const uint8_t *prev = ra;
				for (i = 0; i < pl; i += 16) {
					MD5_CTX m; MD5_Init(&m); MD5_Update(&m, key, klen); MD5_Update(&m, prev, 16); MD5_Final(c, &m);
					for (int k = 0; k < 16; k++) rb[ro + i + k] = pp[i + k] ^ c[k];
					prev = rb + ro + i;
				}
				ro += pl;
			}
			rb[ro++] = 5; rb[ro++] = 6; rb[ro++] = 1; rb[ro++] = 2; rb[ro++] = 3; rb[ro++] = 4;
			size_t maoff = 0;
			if (want_ma && ma_first) { rb[ro++] = 80; rb[ro++] = 18; maoff = ro; memset(rb + ro, 0, 16); ro += 16; rb[ro++] = 18; rb[ro++] = 5; memcpy(rb+ro, "abc", 3); ro += 3; }
			else if (want_ma) { rb[ro++] = 80; rb[ro++] = 18; maoff = ro; memset(rb + ro, 0, 16); ro += 16; }
			rb[2] = ro >> 8; rb[3] = ro;
			/* authenticator field for MA */
			if (code == 1 || code == 12 || code == 13 || is_reply(code)) memcpy(rb + 4, ra, 16); else memset(rb + 4, 0, 16);
			if (maoff) { unsigned int hl = 16; uint8_t hm[16]; uint8_t dummy = 0; HMAC(EVP_md5(), klen ? key : &dummy, klen, rb, ro, hm, &hl); memcpy(rb + maoff, hm, 16); }
			if (!(code == 1 || code == 12 || code == 13)) { MD5_CTX m; uint8_t d[16]; MD5_Init(&m); MD5_Update(&m, rb, ro); MD5_Update(&m, key, klen); MD5_Final(d, &m); memcpy(rb + 4, d, 16); }
			if (ro != sz || memcmp(rb, b, ro)) { FAIL("radius bytes differ code=%d ro=%zu sz=%zu pw=%d ma=%d", code, ro, sz, have_pw, want_ma); }
		}
		/* verify */
		{
			uint8_t *c = malloc(sz); memcpy(c, b, sz);
			e = radius_pkt_verify((rad_pkt_hdr_p)c, key, klen, is_reply(code) ? req : NULL);
			if (e) FAIL("verify code=%d e=%d", code, e);
			if (have_pw) {
				size_t o2; uint8_t *d; size_t dl; uint8_t t;
				if (radius_pkt_attr_find((rad_pkt_hdr_p)c, 0, 2, &o2)) FAIL("find pw");
				radius_pkt_attr_get_data_ptr((rad_pkt_hdr_p)c, o2, &t, &d, &dl);
				if (dl != pwlen || memcmp(d, pw, pwlen)) FAIL("pw roundtrip dl=%zu pwlen=%zu", dl, pwlen);
			}
			free(c);
			/* attribute listing */
			{
				uint8_t gb[300]; size_t gl;
				e = radius_pkt_attr_get_data_to_buf(p, 0, 0, 1, gb, sizeof(gb), &gl);
				if (e || gl != unlen || memcmp(gb, un, unlen)) FAIL("gather e=%d", e);
			}
			/* wrong secret */
			if (!(code == 1 || code == 13) || want_ma) {
				uint8_t k2[256]; memcpy(k2, key, klen); size_t kl2 = klen; if (kl2) k2[rnd() % kl2] ^= 1 << (rnd() % 8); else { k2[0] = 'x'; kl2 = 1; }
				c = malloc(sz); memcpy(c, b, sz);
				e = radius_pkt_verify((rad_pkt_hdr_p)c, k2, kl2, is_reply(code) ? req : NULL);
				if (!e) FAIL("wrong secret accepted code=%d", code);
				free(c);
			}
			/* corruptions */
			if (it % 8 == 0 && (!(code == 1 || code == 13) || want_ma)) {
				for (i = 0; i < sz; i++) {
					c = malloc(sz); memcpy(c, b, sz);
					c[i] ^= 1 << (rnd() % 8);
					e = radius_pkt_chk((rad_pkt_hdr_p)c, sz);
					if (!e) e = radius_pkt_verify((rad_pkt_hdr_p)c, key, klen, is_reply(code) ? req : NULL);
					if (!e) FAIL("corruption at %zu accepted code=%d newbyte=%02x old=%02x ma=%d", i, code, c[i], b[i], want_ma);
					free(c);
				}
			}
		}
		free(b);
	}
}

int main(void) {
	srand(12345);
	if (sizeof(rad_attr_params)/sizeof(rad_attr_params[0]) != 256) FAIL("table size %zu", sizeof(rad_attr_params)/sizeof(rad_attr_params[0]));
	test_dns();
	printf("dns done fails=%d\n", fails);
	test_radius();
	printf("done fails=%d\n", fails);
	return fails ? 1 : 0;
}
