#!/bin/sh
T=${1:-/tmp/hunt/C15}
D=$(dirname "$0")
clang -g -O1 -fsanitize=address,undefined -fno-sanitize-recover=undefined -Wno-deprecated-declarations -DHAVE_ACCEPT4 -DHAVE_EXPLICIT_BZERO -DHAVE_MEMMEM -DHAVE_MEMRCHR -DHAVE_PIPE2 -DHAVE_PTHREAD_SETNAME_NP -DHAVE_REALLOCARRAY -DHAVE_SOCK_CLOEXEC -DHAVE_SOCK_NONBLOCK -DHAVE_STRNCASECMP -DLINUX -D_GNU_SOURCE -D__USE_GNU=1 -I$T/include $D/demo.c -o /tmp/c15_diff_demo -lcrypto || exit 2
/tmp/c15_diff_demo | sort | uniq -c | sort -rn | head -40
