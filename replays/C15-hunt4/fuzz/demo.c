#include <sys/param.h>
#include <sys/types.h>
#include <inttypes.h>
#include <string.h>
#include <stdio.h>
#include <stdlib.h>
#include <errno.h>
#include "utils/mem_utils.h"
#include "proto/dns.h"
#include "proto/radius.h"
static int fails = 0;
#define FAIL(...) do { printf("FAIL: " __VA_ARGS__); printf("\n"); fails++; } while (0)
static unsigned rnd(void) { return (unsigned)rand(); }

/* independent decompressor; returns name len or -1 */
static int ref_name(const uint8_t *m, size_t ms, size_t off, uint8_t *out, size_t outcap) {
	size_t n = 0; int jumps = 0;
	for (;;) {
		if (off >= ms) return -1;
		uint8_t l = m[off];
		if ((l & 0xC0) == 0xC0) { if (off + 2 > ms) return -1; size_t no = ((l & 0x3f) << 8) | m[off+1]; if (no >= ms || no < 12 || no == off) return -1; off = no; if (++jumps >= 64) return -2; continue; }
		if (l & 0xC0) return -3;
		off++;
		if (off + l > ms) return -1;
		if (l == 0) { if (n) n--; return (int)n; }
		if (n + l + 1 > outcap) return -4;
		memcpy(out + n, m + off, l); n += l; out[n++] = '.'; off += l;
	}
}

int main(void) {
	srand(777);
	for (int it = 0; it < 300000; it++) {
		/* build message with compression pointers by hand */
		uint8_t tmp[600]; size_t o = 12; memset(tmp, 0, 12);
		int nq = rnd() % 3, na = rnd() % 4;
		tmp[5] = nq; tmp[7] = na;
		size_t name_offs[16]; int nno = 0;
		for (int r = 0; r < nq + na; r++) {
			size_t start = o;
			int labels = rnd() % 5;
			for (int l = 0; l < labels; l++) { int ll = 1 + rnd() % ((rnd()%8==0) ? 63 : 8); if (nno < 16 && rnd()%2) name_offs[nno++] = o; tmp[o++] = ll; for (int k = 0; k < ll; k++) tmp[o++] = 'a' + rnd() % 26; }
			if (nno && rnd() % 2) { size_t t = name_offs[rnd() % nno]; if (rnd()%10==0) t = 12 + rnd() % 400; tmp[o++] = 0xC0 | (t >> 8); tmp[o++] = t; }
			else tmp[o++] = 0;
			(void)start;
			tmp[o++] = 0; tmp[o++] = 1 + rnd() % 40; tmp[o++] = 0; tmp[o++] = 1;
			if (r >= nq) { tmp[o++] = rnd(); tmp[o++] = rnd(); tmp[o++] = rnd(); tmp[o++] = rnd(); int dl = rnd() % 20; tmp[o++] = 0; tmp[o++] = dl; for (int k = 0; k < dl; k++) tmp[o++] = rnd(); }
		}
		/* random mutations */
		int nm = rnd() % 3;
		for (int k = 0; k < nm; k++) tmp[12 + rnd() % (o - 12 + 1 > 0 ? (o - 12 + 1) : 1)] = rnd();
		size_t ms = o; if (rnd() % 4 == 0 && ms > 12) ms = 12 + rnd() % (ms - 12);
		uint8_t *m = malloc(ms); memcpy(m, tmp, ms);
		dns_hdr_p h = (dns_hdr_p)m;
		size_t qd, an, ns, ar, cnt, rs;
		int e = dns_msg_info_get(h, ms, &qd, &an, &ns, &ar, &cnt, &rs);
		if (e == 0) {
			if (rs > ms) FAIL("size beyond");
			size_t off = qd;
			for (int r = 0; r < nq + na; r++) {
				uint8_t refn[1024]; int rl = ref_name(m, ms, off, refn, sizeof(refn));
				size_t nl = 0, sz = 0;
				int e2 = dns_msg_sequence_of_labels_get_name_len(h, ms, off, &nl);
				if (rl >= 0 && (e2 || nl != (size_t)rl)) FAIL("name_len e=%d nl=%zu rl=%d", e2, nl, rl);
				if (rl < 0 && e2 == 0) FAIL("name_len accepted bad rl=%d", rl);
				/* exact buffer */
				if (rl >= 0) {
					uint8_t *nb = malloc(rl + 1); size_t l2 = rl + 1;
					int e3 = dns_msg_sequence_of_labels2name(h, ms, off, nb, rl + 1, &l2);
					if (e3 || l2 != (size_t)rl || memcmp(nb, refn, rl) || nb[rl]) FAIL("2name e=%d l2=%zu rl=%d", e3, l2, rl);
					free(nb);
					if (rl > 0) { nb = malloc(rl); l2 = 0; e3 = dns_msg_sequence_of_labels2name(h, ms, off, nb, rl, &l2); if (e3 != EOVERFLOW || l2 != (size_t)rl + 1) FAIL("2name short e=%d l2=%zu rl=%d", e3, l2, rl); free(nb);} 
				} else {
					uint8_t nb[1100]; size_t l2; int e3 = dns_msg_sequence_of_labels2name(h, ms, off, nb, sizeof(nb), &l2);
					if (e3 == 0) FAIL("2name accepted bad rl=%d", rl);
				}
				if (r < nq) e2 = dns_msg_question_get_size(h, ms, off, &sz); else e2 = dns_msg_rr_get_size(h, ms, off, &sz);
				if (e2) { FAIL("get_size after validate"); break; }
				off += sz;
			}
		}
		free(m);
	}
	printf("dns fuzz done fails=%d\n", fails);
	/* radius fuzz */
	for (int it = 0; it < 300000; it++) {
		uint8_t tmp[400]; size_t o = 20;
		static const uint8_t codes[] = {1,2,3,4,5,11,12,13,40,41,42,43,44,45, 0, 6};
		tmp[0] = codes[rnd() % sizeof(codes)]; tmp[1] = rnd();
		for (int k = 4; k < 20; k++) tmp[k] = rnd();
		int na = rnd() % 6;
		for (int a = 0; a < na; a++) {
			static const uint8_t types[] = {1,2,2,80,80,79,89,5,4,26,97,241,245,0,17,200};
			uint8_t t = types[rnd() % sizeof(types)]; int dl = rnd() % 20; if (t == 80 || t == 2) dl = 16 * (1 + (t==2 ? rnd()%2 : 0)); if (t == 5 || t == 4) dl = 4; if (rnd()%10==0) dl = rnd()%40;
			if (t == 89 && rnd()%2) dl = 0;
			tmp[o++] = t; tmp[o++] = dl + 2; for (int k = 0; k < dl; k++) tmp[o++] = (rnd()%3) ? rnd() : 0;
		}
		tmp[2] = o >> 8; tmp[3] = o;
		if (rnd() % 6 == 0) tmp[20 + rnd() % (o - 20 + 1)] = rnd();
		if (rnd() % 10 == 0) { tmp[3] = rnd(); }
		size_t ms = o; if (rnd() % 8 == 0) ms = rnd() % (o + 1);
		uint8_t *m = malloc(ms ? ms : 1); memcpy(m, tmp, ms);
		rad_pkt_hdr_p p = (rad_pkt_hdr_p)m;
		if (0 == radius_pkt_chk(p, ms)) {
			uint8_t req[20] = {1}; req[3] = 20;
			uint8_t key[4] = "abc";
			uint8_t gb[64]; size_t gl = 0;
			for (int t = 1; t < 256; t += (rnd()%40)+1) {
				size_t cnt = rnd() % 3;
				size_t bs = rnd() % 64; uint8_t *g = malloc(bs ? bs : 1);
				int e = radius_pkt_attr_get_data_to_buf(p, 0, cnt, t, g, bs, &gl);
				if (gl > bs) FAIL("gather gl>bs");
				(void)e; free(g);
			}
			(void)gb;
			/* enumerate */
			size_t off = 20, len = ntohs(p->len); uint8_t ty, *d; size_t dl; int n = 0;
			while (0 == radius_pkt_attr_get_data_ptr(p, off, &ty, &d, &dl)) { rad_pkt_attr_p a; radius_pkt_attr_get_from_offset(p, off, &a); off += a->len; n++; if (n > 3000) { FAIL("loop"); break; } }
			if (off != len) FAIL("enum ended at %zu len %zu", off, len);
			radius_pkt_verify(p, key, 3, (rnd()%2) ? (rad_pkt_hdr_p)req : NULL);
		}
		free(m);
	}
	printf("done fails=%d\n", fails);
	return fails ? 1 : 0;
}
