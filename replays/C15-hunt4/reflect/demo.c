/* A client's own signed request (Accounting-Request / Disconnect-Request / CoA-Request),
 * sent back to it unchanged, passes radius_pkt_verify(pkt, key, pkt_req) - the call
 * radius_client_recv_cb() uses to decide "this is the authentic answer to my query".
 * No secret is needed to produce it. eeac27b closed this for codes 1/12/13 only. */
#include <sys/param.h>
#include <sys/types.h>
#include <inttypes.h>
#include <string.h>
#include <stdio.h>
#include <errno.h>
#include "proto/radius.h"

int main(void) {
	static const uint8_t codes[] = { RADIUS_PKT_TYPE_ACCOUNTING_REQUEST,
	    RADIUS_PKT_TYPE_DISCONNECT_REQUEST, RADIUS_PKT_TYPE_COA_REQUEST,
	    RADIUS_PKT_TYPE_ACCESS_REQUEST, RADIUS_PKT_TYPE_STATUS_SERVER };
	uint8_t key[] = "secret", ra[16] = {1,2,3,4,5,6,7,8,9,10,11,12,13,14,15,16};
	int fails = 0;

	for (size_t i = 0; i < sizeof(codes); i ++) {
		for (int with_ma = 0; with_ma < 2; with_ma ++) {
			uint8_t req[4096], rx[4096];
			size_t sz = 0;
			rad_pkt_hdr_p p = (rad_pkt_hdr_p)req;
			int e;

			if (RADIUS_PKT_TYPE_STATUS_SERVER == codes[i] && 0 == with_ma)
				continue; /* Not a legal packet. */
			e = radius_pkt_init(p, sizeof(req), &sz, codes[i], 42, ra);
			e |= radius_pkt_attr_add(p, sizeof(req), &sz, RADIUS_ATTR_TYPE_USER_NAME, 3, (uint8_t*)"bob", NULL);
			e |= radius_pkt_attr_add_uint32(p, sizeof(req), &sz, RADIUS_ATTR_TYPE_ACCT_STATUS_TYPE, htonl(1), NULL);
			e |= radius_pkt_sign(p, sizeof(req), &sz, key, 6, with_ma);
			if (e) { printf("setup failed %d\n", e); return 2; }
			/* The attacker reflects the datagram to the client (spoofed source). */
			memcpy(rx, req, sz);
			e = radius_pkt_chk((rad_pkt_hdr_p)rx, sz);
			if (0 == e)
				e = radius_pkt_verify((rad_pkt_hdr_p)rx, key, 6, p /* the pending request */);
			printf("code %2d msg-authenticator=%d: own request verified as the reply -> %d (%s)\n",
			    codes[i], with_ma, e, e ? "refused, ok" : "ACCEPTED");
			if (0 == e) fails ++;
		}
	}
	if (fails) { printf("FAIL: %d request-coded packets accepted as authentic replies\n", fails); return 1; }
	printf("OK\n");
	return 0;
}
