#!/bin/sh
# usage: common_run.sh <dir> <tree>
D=$1; T=${2:-/tmp/hunt/C15}
OUT=$(mktemp -d)
clang -g -O1 -fsanitize=address,undefined -w -DHAVE_ACCEPT4 -DHAVE_EXPLICIT_BZERO -DHAVE_MEMMEM -DHAVE_MEMRCHR -DHAVE_PIPE2 -DHAVE_POSIX_SPAWN_FILE_ACTIONS_ADDCLOSEFROM_NP -DHAVE_PTHREAD_SETNAME_NP -DHAVE_REALLOCARRAY -DHAVE_SOCK_CLOEXEC -DHAVE_SOCK_NONBLOCK -DHAVE_STRNCASECMP -DLINUX -D_GNU_SOURCE -D__USE_GNU=1 -I$T/include $D/demo.c -o $OUT/demo || exit 2
$OUT/demo; rc=$?
rm -rf $OUT
exit $rc
