#!/usr/bin/env python3
"""tools/mkhuntprompt.py : developer tool.  Writes /tmp/hunt/<Cxx>.prompt.txt: a defect-hunting brief (property text only) for a
sub-agent that audits the UNMODIFIED tree in its own scratch worktree /tmp/hunt/<Cxx>.  Findings are replayed by me, turned
into a rule that reports them, and only then repaired (fix: commit) or recorded."""
import json, os
tmpl = open("/verif/tools/hunt_prompt.tmpl").read()
os.makedirs("/tmp/hunt", exist_ok=True)
for line in open("/verif/properties.jsonl"):
    p = json.loads(line)
    d = "/tmp/hunt/" + p["id"]
    prop = json.dumps(p, indent=1)
    open(d + ".prompt.txt", "w").write(tmpl.replace("__DIR__", d).replace("__PROP__", prop))
    open(d + ".prop.txt", "w").write(prop)
print("hunt prompts written")
