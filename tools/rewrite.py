#!/usr/bin/env python3
"""tools/rewrite.py <kind> : developer tool (false-alarm hunt, DESIGN 10.8).  Applies one behaviour-preserving mechanical
rewrite to the working tree of /repo (include/**/*.h, src/**/*.c).  Undo with `git -C /repo checkout -- .`.
kinds: shift | flip | rename | step"""
import glob, re, sys
kind = sys.argv[1]
root = sys.argv[2] if len(sys.argv) > 2 else "/repo"       # a scratch worktree when given (then run the checks with LCB_REPO=<root>)
files = glob.glob(root + "/include/**/*.h", recursive=True) + glob.glob(root + "/src/**/*.c", recursive=True)
n = 0
for f in files:
    s = open(f, errors="surrogateescape").read()
    o = s
    if kind == "shift":
        i = s.find("*/")
        if i >= 0:
            s = s[:i + 2] + "\n\n\n" + s[i + 2:]
    elif kind == "flip":
        s = re.sub(r"\b(NULL|0) (==|!=) ([A-Za-z_][A-Za-z0-9_]*(?:->[A-Za-z_][A-Za-z0-9_]*)*)(?=[ )\n])", r"\3 \2 \1", s)
    elif kind == "rename":
        for a, b in (("tm_cnt", "cnt_left"), ("error", "rc_"), ("ptm", "cur_p"), ("ios", "io_n")):
            s = re.sub(r"(?<![A-Za-z0-9_>.])%s(?![A-Za-z0-9_(])" % a, b, s)
    elif kind == "step":
        s = re.sub(r"^(\s*)([A-Za-z_][A-Za-z0-9_>.\-\[\]\(\)\*]*) \+\+;$", r"\1\2 += 1;", s, flags=re.M)
        s = re.sub(r"^(\s*)([A-Za-z_][A-Za-z0-9_>.\-\[\]\(\)\*]*) --;$", r"\1\2 -= 1;", s, flags=re.M)
    if s != o:
        open(f, "w", errors="surrogateescape").write(s)
        n += 1
print("rewrote %d files (%s)" % (n, kind))
