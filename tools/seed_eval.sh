#!/bin/bash
# tools/seed_eval.sh <property> <seed-name> <seed_out_dir> [checks...]
# Confirms a seeded change: demo passes on pristine copy, fails on patched copy; then runs the
# given checks (default: the property's own) against /repo with the patch applied and undoes it.
set -u
PROP=$1; NAME=$2; SRC=$3; shift 3
CHECKS=${*:-$PROP}
DST=/verif/seeded/$NAME
mkdir -p $DST
if [ "$(readlink -f $SRC)" != "$(readlink -f $DST)" ]; then
  cp -r $SRC/patch.diff $SRC/meta.json $DST/ 2>/dev/null
  rm -rf $DST/demo; cp -r $SRC/demo $DST/demo
fi
S=/tmp/seedeval.$$; rm -rf $S; mkdir -p $S
rsync -a --exclude _build --exclude .git /repo/ $S/orig/
rsync -a --exclude _build --exclude .git /repo/ $S/chg/
( cd $S/chg && patch -p1 -s < $DST/patch.diff ) || { echo "PATCH DOES NOT APPLY to current /repo"; }
echo "== demo on pristine tree"; ( cd $DST/demo && timeout 600 bash ./run.sh $S/orig >/tmp/seedeval.orig.log 2>&1 ); RO=$?; tail -2 /tmp/seedeval.orig.log; echo "exit=$RO"
echo "== demo on changed tree";  ( cd $DST/demo && timeout 600 bash ./run.sh $S/chg  >/tmp/seedeval.chg.log 2>&1 ); RC=$?; tail -2 /tmp/seedeval.chg.log; echo "exit=$RC"
rm -rf $S
cd /verif
git -C /repo apply $DST/patch.diff || { echo "git apply failed"; exit 3; }
RES=""
for c in $CHECKS; do
  echo "== ./check $c (quick) with the change applied"
  ./check $c --tier quick > /tmp/seedeval.check.$c.log 2>&1; R=$?
  grep -E "violated:|VIOLATION|ANALYSIS-BROKEN|tier=" /tmp/seedeval.check.$c.log | cut -c1-400 | head -8
  RES="$RES $c:quick=$R"
  if [ $R -eq 0 ]; then
    ./check $c --tier thorough > /tmp/seedeval.check.$c.t.log 2>&1; R2=$?
    grep -E "violated:|VIOLATION|ANALYSIS-BROKEN|tier=" /tmp/seedeval.check.$c.t.log | cut -c1-400 | head -8
    RES="$RES $c:thorough=$R2"
  fi
done
git -C /repo checkout -- .
git -C /repo status --short | grep -v _build
echo "RESULT demo_orig=$RO demo_changed=$RC checks:$RES"
# restore evidence from the unchanged tree
for c in $CHECKS; do ./check $c --tier quick >/dev/null 2>&1; done
