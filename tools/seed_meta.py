#!/usr/bin/env python3
"""tools/seed_meta.py <seed-name> <property> <history> <detected_by|None> [why_missed] : writes the "verif" block of seeded/<name>/meta.json"""
import json, sys
name, prop, hist, det = sys.argv[1:5]
why = sys.argv[5] if len(sys.argv) > 5 else None
p = "/verif/seeded/%s/meta.json" % name
m = json.load(open(p))
v = {"property": prop,
     "confirmed_by_me": "demo run.sh exits 0 on a pristine copy of /repo HEAD and 1 on the copy with patch.diff applied (tools/seed_eval.sh)",
     "history": hist, "detected_by": None if det == "None" else det,
     "command": "git -C /repo apply /verif/seeded/%s/patch.diff && ./check %s; git -C /repo checkout -- ." % (name, prop)}
if why:
    v["why_missed"] = why
m["verif"] = v
json.dump(m, open(p, "w"), indent=1)
print("ok", name)
