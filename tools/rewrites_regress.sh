#!/bin/sh
# tools/rewrites_regress.sh : developer tool (DESIGN 10.8).  Each mechanical behaviour-preserving rewrite of tools/rewrite.py is
# applied to its own scratch worktree of /repo HEAD under /tmp/rw, all 20 quick checks run there (LCB_REPO), the exit codes
# are printed, and the worktrees removed.  Expected: rc 0 everywhere (rc 2 where the crude rename breaks compilation).
# The evidence files are rewritten by these runs: re-run the checks on /repo afterwards.
mkdir -p /tmp/rw
for k in shift flip rename step; do
  (
    git -C /repo worktree remove --force /tmp/rw/$k 2>/dev/null
    git -C /repo worktree add --detach /tmp/rw/$k HEAD -q
    python3 /verif/tools/rewrite.py $k /tmp/rw/$k >/dev/null
    for p in C01 C02 C03 C04 C05 C06 C07 C08 C09 C10 C11 C12 C13 C14 C15 C16 C17 C18 C19 C20; do
      LCB_REPO=/tmp/rw/$k /verif/check $p --tier quick >/tmp/rw/$k.$p.out 2>&1
      rc=$?
      [ $rc -ne 0 ] && { echo "$k $p rc=$rc"; grep -E "violated:|BROKEN" /tmp/rw/$k.$p.out | head -3 | cut -c1-300; }
    done
    echo "$k done"
    git -C /repo worktree remove --force /tmp/rw/$k
  ) &
done
wait
rm -rf /tmp/rw
