#!/usr/bin/env python3
"""tools/seeds_regress.py [pattern] [workers]: developer regression over the seeded changes, in parallel and without touching
/repo: every seeded/<name>/patch.diff is applied to one of <workers> scratch worktrees of /repo HEAD under /tmp/sr, the
property's quick check runs with LCB_REPO=<worktree>, and the exit code is compared with what meta.json records
(caught -> 1, recorded miss -> 0).  Patches that no longer apply (the repaired tree changed those lines) are listed.
The evidence files of /verif are rewritten by these runs: re-run the checks on /repo afterwards."""
import json, os, subprocess, sys, glob, concurrent.futures

V = "/verif"
pat = sys.argv[1] if len(sys.argv) > 1 else ""
workers = int(sys.argv[2]) if len(sys.argv) > 2 else 8


def sh(*a, **kw):
    return subprocess.run(a, stdout=subprocess.PIPE, stderr=subprocess.PIPE, **kw)


seeds = sorted(d for d in glob.glob(os.path.join(V, "seeded", "*" + pat + "*")) if os.path.isdir(d))
os.makedirs("/tmp/sr", exist_ok=True)
for i in range(workers):
    sh("git", "-C", "/repo", "worktree", "remove", "--force", "/tmp/sr/wt%d" % i)
    sh("git", "-C", "/repo", "worktree", "add", "--detach", "/tmp/sr/wt%d" % i, "HEAD")


def run(i):
    out = []
    wt = "/tmp/sr/wt%d" % i
    for d in seeds[i::workers]:
        n = os.path.basename(d)
        try:
            v = json.load(open(os.path.join(d, "meta.json")))["verif"]
        except Exception:
            continue
        prop = v["property"]
        want = 0 if v.get("detected_by") is None else 1
        if sh("git", "-C", wt, "apply", os.path.join(d, "patch.diff")).returncode != 0:
            out.append((n, "noapply", None, want))
            continue
        r = sh("./check", prop, "--tier", "quick", cwd=V, env=dict(os.environ, LCB_REPO=wt))
        sh("git", "-C", wt, "checkout", "--", ".")
        sh("git", "-C", wt, "clean", "-fdq")
        out.append((n, "ok" if r.returncode == want else "UNEXPECTED", r.returncode, want))
    return out


res = []
with concurrent.futures.ThreadPoolExecutor(max_workers=workers) as ex:
    for r in ex.map(run, range(workers)):
        res += r
for i in range(workers):
    sh("git", "-C", "/repo", "worktree", "remove", "--force", "/tmp/sr/wt%d" % i)
ok = sum(1 for r in res if r[1] == "ok")
bad = [r for r in res if r[1] == "UNEXPECTED"]
na = [r for r in res if r[1] == "noapply"]
for r in sorted(res):
    if r[1] != "ok":
        print("%s: %s rc=%s want=%s" % r)
print("seeds ok=%d unexpected=%d patch-does-not-apply=%d" % (ok, len(bad), len(na)))
