#!/bin/bash
# tools/seeds_regress.sh [name-pattern] : developer regression over the seeded changes.
# Applies each seeded/<name>/patch.diff to /repo (git apply), runs the property's quick check, restores /repo,
# and compares the exit code with what meta.json records (caught -> 1, recorded miss -> 0).
cd /verif
pat=${1:-}
ok=0; bad=0
for d in seeded/*${pat}*/; do
  n=$(basename $d)
  prop=$(python3 -c "import json;print(json.load(open('$d/meta.json'))['verif']['property'])" 2>/dev/null) || continue
  want=$(python3 -c "import json;v=json.load(open('$d/meta.json'))['verif'];print(0 if v.get('detected_by') is None else 1)")
  git -C /repo apply /verif/$d/patch.diff 2>/dev/null || { echo "$n: patch does not apply (the repaired tree may have changed these lines)"; continue; }
  ./check $prop --tier quick >/tmp/seedreg.log 2>&1; rc=$?
  git -C /repo checkout -- .
  if [ "$rc" = "$want" ]; then ok=$((ok+1)); echo "$n: ok (rc=$rc)"; else bad=$((bad+1)); echo "$n: UNEXPECTED rc=$rc want=$want"; fi
done
echo "seeds ok=$ok unexpected=$bad"
git -C /repo status --short | grep -v _build
