#!/usr/bin/env python3
"""tools/mkseedprompt.py <suffix> : developer tool.  Writes /tmp/seed/<Cxx><suffix>.prompt.txt / .prop.txt for a further seeding
round: the property text plus one-sentence summaries of all earlier seeded changes of that property (seeded/*/meta.json).
The sub-agent gets only that prompt and its own scratch worktree of /repo under /tmp/seed/<id>; nothing from /verif."""
import glob, json, os, sys
suf = sys.argv[1]
tmpl = open("/verif/tools/seed_prompt.tmpl").read()
more = open("/verif/tools/seed_prompt_further.txt").read()
os.makedirs("/tmp/seed", exist_ok=True)
for line in open("/verif/properties.jsonl"):
    p = json.loads(line)
    pid = p["id"]
    ident = pid + suf
    d = "/tmp/seed/" + ident
    prop = json.dumps(p, indent=1)
    earlier = []
    for m in sorted(glob.glob("/verif/seeded/%s*/meta.json" % pid)):
        earlier.append(' - "%s"' % json.load(open(m))["summary"][:330].replace("\n", " "))
    txt = tmpl.replace("__DIR__", d).replace("__ID__", ident).replace("__PROP__", prop)
    marker = "DELIVERABLES"
    i = txt.index(marker)
    txt = txt[:i] + more.replace("__EARLIER__", "\n".join(earlier)) + "\n" + txt[i:]
    open(d + ".prompt.txt", "w").write(txt)
    open(d + ".prop.txt", "w").write(prop)
print("prompts written for suffix", suf)
