#!/usr/bin/env python3
"""Regenerates MANIFEST.json from the table below (single place to edit)."""
import json
import os

V = os.path.dirname(os.path.dirname(os.path.abspath(__file__)))

CLAIMS = {
 "C01": ("Structural clauses only: all 10 digit-width/multiply configurations build; no bn_* status dropped (a capacity overflow detected in a leaf cannot be followed by a success return); bn_t locals initialised before use on every path; every variable divisor excluded from zero by a dominating test; variable shift amounts bounded by modulo/mask/guard (remaining ones listed undecided in evidence); no integer-promotion-sensitive digit expression in the 8/16-bit builds. Numerical exactness is NOT decided.",
         "Trusts clang 14 front end/CFG, derived status set, tabled exceptions confirmed by reading.",
         "static analysis: status-discipline dataflow, must-init typestate, guard evaluation for divisors/shifts, promotion lint per configuration"),
 "C02": ("Structural clauses only: all 960 coordinate/algorithm configurations build with every dispatch macro resolving to a declared function; no status dropped in elliptic_curve.h; bn/point locals and precompute-table elements initialised before use (index agreement); exceptional-case tests (x-equal, y-zero, operand at infinity, scalar 0) guard the general formulas with the right polarity; the 32 built-in curve records are arithmetically consistent (python big integers: p,n prime, non-singular, G on curve, nG=O, flag => a=p-3). Correctness of the group-law formulas and agreement between algorithms are NOT decided. Added after seeding: comb multipliers read scalar bits only when bitlen(scalar) <= curve->m (guard evaluation; bn_cmp(d,n) guards decided from the curve table); cofactor of every built-in curve lies in its Hasse interval.",
         "Trusts clang 14 front end/CFG, must-init dataflow, python big-integer arithmetic with Miller-Rabin (12 bases).",
         "static analysis: configuration compile witnesses, typestate dataflow, guard dominance, constant-table arithmetic"),
 "C03": ("Structural clauses only: no bn_/ec_/ecdsa_ status dropped in ecdsa.h (a failed internal computation cannot be followed by success), verifier/signer success paths dominated by range/zero/infinity/equality tests with correct polarity, switch(curve->algo) exhaustive. Standard conformance of the accept set is NOT decided. Added after seeding: aliased arguments (hash == sign_r etc.): no use of the other name after a write through one.",
         "Trusts clang 14 CFG, the extractor, and the derived status-function set (0/errno convention).",
         "static analysis: status-discipline dataflow + guard dominance over clang CFG"),
 "C04": ("Zeroisation clause decided completely (every *_final wipes the whole context via volatile memset on all paths as last access) in every SIMD/small-table variant; constant tables vs. independently derived values. Digest equality is NOT decided. Added after seeding: block-load macros of the SIMD transforms read lanes 0..N-1 once each, sibling macros agree (SHA-NI variant is part of the quick tier). Round 3: in `len & ~mask` the complement has the width of the length (R-WIDTH complement mask).",
         "Trusts clang 14 CFG/post-dominators computed in python; a call through a volatile function pointer is not elidable.",
         "static analysis: post-dominance of volatile wipe call, constant-table comparison"),
 "C05": ("Structural clauses only: every acyclic path of tpt_msg_send falls into one of the seven documented outcomes with the stated (return class, number of direct callback calls): at most one direct call, none when a failure is returned, each only under the flag that asks for it; packet atomicity preconditions (sizeof(packet) <= PIPE_BUF, one whole-packet write whose result is compared with that size, O_NONBLOCK pipe, read buffer a whole number of packets); dispatch only of magic+checksum verified packets with non-NULL callback, once per packet. Exactly-once / ordering / routing under concurrent senders is NOT decided. Added after seeding: tpt_is_running() holds exactly for STARTING and RUNNING.",
         "Trusts clang 14 CFG; POSIX pipe atomicity for writes <= PIPE_BUF; infeasible paths can only add rows that must still classify.",
         "static analysis: acyclic CFG path enumeration with per-path summaries, dominance/edge-removal reachability, compile-time probes"),
 "C08": ("Structural/specification clauses only (neither cipher is built by the test suite): ChaCha sigma/tau, the 64 statements of the double round (operands, rotations, column/diagonal index tuples), rounds loop, key/counter/IV word layout for both key sizes, HChaCha/XChaCha wiring, block macro word coverage, sibling agreement of the three block variants incl. counter carry, alignment dispatch; GOST 28147 round/key schedule and composition, f function in both table builds, table expansion formula (abstract evaluation with a synthetic S-box), S-box rows are permutations, aligned/unaligned and encrypt/decrypt I/O agreement; context wipes. Key-stream / cipher-text values are NOT decided. Added after seeding: S-box parameter sets equal the reference copy of the standards' tables (refdata/gost28147_sboxes.json, provenance recorded). Round 3: chacha_str_data_crypt writes dst[0..bytes) once each in order over 16 call classes (partial evaluation); R-TBAA: declared non-character objects of both headers are accessed only through compatible, character, may_alias or vector lvalues (strict aliasing; the ChaCha block macros were repaired, fix c7389f1).",
         "Trusts clang 14 front end; reference structure from RFC 8439 / RFC 5830.",
         "static analysis: statement-sequence comparison against a generated reference, canonicalised load/store sibling comparison, abstract expression evaluation, post-dominance of wipes"),
 "C09": ("Structural clauses only: every read of the 16 *_be/*_le entry points through a pointer whose size the caller passed stays inside that size; exporter/importer layout agreement for all encodings (size, prefix, coordinate offsets and lengths, parity bit handed to the root selection, neutral element), rejection of unknown sizes/prefixes, reported size equals bytes written; with validation enabled every accepting importer path passes ec_point_check_as_pub_key (on-curve and order checks) and a failing status cannot reach success; root parity selection in ec_point_restore_y_by_x; point->infinity defined before validation on finite arms; _be/_le sibling agreement. Numerical agreement of key generation / Diffie-Hellman with a reference and DH symmetry are NOT decided. Added after seeding: curve equation and coordinate ranges on every accepting path of ec_point_check_affine (polynomial domain); curve table incl. cofactor. Round 3: the scalar handed to a point multiplication is reduced modulo the group order (R-DOMAIN).",
         "Trusts clang 14 front end/CFG; bn_import_*_bin reads exactly its length argument, bn_export_*_bin writes exactly its length argument; unsized output buffers are as large as the header comment demands.",
         "static analysis: relational abstract interpretation of the byte API, partial evaluation of exporter and importer CFGs over finite argument classes (writer/reader table agreement), must-pass-through on the CFG, sibling comparison"),
 "C15": ("Structural clauses only: pointer/length agreement at call sites with constant lengths; every attribute class of radius_pkt_attr_add can succeed; the byte streams fed to MD5/HMAC-MD5 for the Request/Response Authenticator and the Message-Authenticator equal the RFC 2865/2866/3579/5176 streams for all 14 packet codes x authenticator mode x request presence x in-place output (342 cases), unknown codes fail, digest lands in the output argument; RFC 2865 5.2 password hiding equations for 1..3 blocks in encode and decode, separate and in-place buffers; DNS question/RR writer-reader agreement of field addresses, widths, byte orders and sizes; RADIUS append keeps header length and attribute length in step; QDCOUNT bumped exactly once on success; 16 header accessors are siblings; digests compared with timingsafe_bcmp. Whole-message byte identity with an independent RFC encoder, digest values and name round trips are NOT decided. Round 3: byte-order typestate of every wire field access (R-ENDIAN): no arithmetic on and no host-order store into a network-order field; the RFC's multi-byte fields must be converted somewhere (non-vacuity).",
         "Trusts clang 14 front end/CFG; the RFC streams as transcribed in props/c15.py; MD5/HMAC contexts behave as init/update*/final (C07).",
         "static analysis: partial evaluation of the builder/authenticator CFGs per argument class with a symbolic byte-content model (hash-input streams, hiding equations, writer/reader layouts), call-site pointer/length rule, path enumeration, sibling comparison"),
 "C17": ("Structural clauses only: ini_buf_gen's writes are guarded by offset + pending <= buf_size (the clause 'generation into a smaller buffer fails without writing past it'); ini_buf_calc_size adds per line what ini_buf_gen writes per line under the same skip condition; the case-sensitive and case-insensitive lookup pairs use the right comparator and are otherwise identical; realloc_items' success contract (*allocated > count); every slot store / slot-opening memmove in ini.c is dominated by a successful reservation for the current count and a failing reservation leaves; no free of a line already stored in the array; interior pointers re-derived after a record is reallocated. Ordered-map behaviour over operation histories and text round-trip equality are NOT decided. Round 3: R-BOUND follows every store of a generator iteration, not only the memcpy.",
         "Trusts clang 14 front end/CFG; C semantics of realloc/reallocarray/free; ini->lines[] capacity is maintained only by realloc_items.",
         "static analysis: guard evaluation over a finite grid covering every ordering of the compared quantities (partial evaluation), dominance and kill-path reachability on the CFG, sibling comparison, per-iteration effect counting"),
 "C20": ("Structural clauses only: http_req_sec_chk's rule section over all 54 combinations of Host/Content-Length/Transfer-Encoding counts and method accepts exactly the blocks without a duplicate/conflicting framing pattern, each refusal with its own code; the counted names are the RFC names with matching lengths; the byte scan classifies all 256 byte values (with each relevant next byte and at the end of the block) as the property demands; http_hdr_val_get_ex treats CRLF+SP/HTAB as a continuation and anything else as the field end (all 256 values), reports a field only when the case-insensitive comparator matched; http_hdr_val_get_count's loop structure; http_get_method_fast classifies every table spelling, an unknown and a prefix correctly. That every returned span equals the RFC 7230/3986 delimitation, path trimming and the query helpers are NOT decided.",
         "Trusts clang 14 front end/CFG; memcmp/mem_cmpin/mem_find* as documented (bodies under C12/C13).",
         "static analysis: partial evaluation of the checker's CFG over finite argument classes and a two/four byte abstract window (exhaustive over byte values), guard dominance, literal/length agreement, table agreement"),
 "C10": ("Structural clauses only: the shared countdown field is accessed under its lock after publication (lock-set dataflow), pre-publication accesses cannot follow a send; no dereference of the shared record after the countdown's unlock (the clause 'does not touch the caller's memory afterwards'); the heap record of the completion form is freed/handed over on every path; per-target sent/failed accounting and returned failure count; single completion site guarded by zero that frees after the user callback; one-by-one token order. Once-per-thread / completion-after-all under interleavings is NOT decided. Added after seeding: in one-by-one mode the caller's own callback is served exactly once (never with SELF_SKIP) over all SELF_SKIP/SELF_DIRECT combinations. Round 3: the one-by-one walk skips the originator and nobody else (finite-domain evaluation).",
         "Trusts clang 14 CFG, pthread mutex semantics, tpt_msg_send returning 0 = ownership transferred.",
         "static analysis: lock-set dataflow, reachability after release point, path enumeration for ownership and accounting"),
 "C06": ("Structural clauses only, Linux/epoll branch (the kqueue branch is not compiled here): timer unit-conversion constants coherent for s/ms/us/ns; registrations reach tpt_ev_post only after tpt_ev_validate returned 0; validator exhaustive over event kinds with failing default, per-kind fflags mask equals the defined flags, foreign set-flags and ONESHOT+DISPATCH refused; programmed value definitely assigned; DISABLED gate / one-shot forget / dispatch mark / EOF / ERROR stores on every path to the callback; interval zero iff one-shot; ABSTIME<->clock agreement; descriptors closed on failing paths; tpdata bit fields disjoint. Firing behaviour over registration histories is NOT decided. Added after seeding: event-record fields travel through helper parameters of the same width, no implicit narrowing on the way to tpt_ev_post. Round 3: the time-unit switch is recognised by role and evaluated for every unit x {relative, ABSTIME}.",
         "Trusts clang 14 CFG; constants evaluated by the compiler in a probe unit with the real flags; documented epoll/timerfd semantics.",
         "static analysis: constant extraction from case arms, guard evaluation over finite flag domains, cut-set reachability, path enumeration, compile-time probes"),
 "C11": ("Structural clauses only: every field-held resource (pool allocation, epoll fd, both pipe ends, queue, thread) has a release of that field on the tp_destroy path; failing exits of tp_create / tpt_msg_queue_create / tpt_data_init release what they acquired; the self-join guard (EDEADLK) dominates every join/poll/release and a failed wait releases nothing; worker hooks bracket the loop exactly once; the virtual thread's start hook follows its successful init and its stop hook runs only if it was started; the shutdown latch is atomic. Termination / no late callback for every schedule is NOT decided. Added after seeding: once the virtual thread's start hook may have run, every failing exit of tp_create finds the 'started' state. Round 3: no failing exit of tp_create lies between the 'started' store and the start hook.",
         "Trusts clang 14 CFG and the direct-call graph (function pointers are only user hooks/callbacks).",
         "static analysis: acquire/release pairing over the call graph, path enumeration of failing exits, guard dominance, race lint on life-cycle latch"),
 "C12": ("Per memory access, for every input: relational abstract interpretation (linear inequalities over cursors, sizes and offsets; strides; trace partitioning) proves that each dereference, subscript and library copy related to a caller-supplied (pointer,size) pair, local array or constant table stays inside it; a bound that is present but too weak by a small constant is reported; what the domain cannot bound is listed as undecided and NOT claimed. Also loop progress, short-circuit evaluation order, banned unbounded C-string calls, recursion depth. Added after seeding: the digit-count table pow10lst[k] = 10^k (shared with C14).",
         "Trusts clang 14 CFG, the abstract interpreter (LP entailment accepted only with an exactly verified Farkas certificate), the tabled (pointer,size) pairs, libc contracts of memchr/memmem/memcpy; mathematical integers except where unsigned subtraction is explicit.",
         "static analysis: relational abstract interpretation over the clang CFG (zones-like linear domain with congruences), custom lints"),
 "C13": ("Same engine as C12 over the DNS, RADIUS, DHCPv4, HTTP, SDP, SAP, RTP and MPEG-TS parsers: per access proved / reported / undecided (listed, not claimed); loop progress; short-circuit order; compression-pointer walks bounded by a jump counter. Round 3: header locators (sap_packet_get_payload, sap_packet_get_auth_data) never point past a packet sap_packet_is_valid accepts (R-AGREE, full enumeration of the header fields); network-order length/count fields are converted before arithmetic or ordering comparisons (R-ENDIAN).",
         "As C12; accesses whose capacity is a field of the packet itself are mostly outside the domain and listed as undecided/untracked.",
         "static analysis: relational abstract interpretation over the clang CFG, custom lints"),
 "C14": ("Structural clauses only: Base64 alphabet = RFC 4648 and decode table = its inverse; pow10lst[k] = 10^k; every CRC-32 table regenerated from the polynomial in its name (256- and 16-entry forms); XML entity / HTTP method / reason-phrase tables agree with their length tables; the decimal digit counter keeps counting at exact powers of ten; no signed negation of the minimum; utf8_decode's reported length depends on its output. Round-trip / inverse equality of the produced bytes is NOT decided.",
         "Trusts clang 14 front end; tables compared with values recomputed in python from the definitions.",
         "static analysis: constant-table comparison, finite-domain comparator evaluation, custom lints (negation, reported length)"),
 "C16": ("Structural clauses only: every event registration call in threadpool_task.c pairs the timer event with the timer record and the I/O event with the I/O record; the read/write handler has a single non-cyclic user-callback site; in each transfer loop the transferred count, file offset and all buffer cursors advance by the same I/O result; partial totals are saved on every re-arm exit, folded in and cleared before the callback; re-arm only on CONTINUE; pre/post handler symmetry; stop removes both registrations, destroy stops before free; the immediate first transfer requires offset+transfer <= size. Byte-exact delivery and EOF/error/timeout reporting over schedules are NOT decided.",
         "Trusts clang 14 CFG; IO_BUF_* saturating macros not analysed.",
         "static analysis: call-site argument agreement table, loop-body update-set comparison, dominance, guard evaluation"),
 "C07": ("Pad-wiping clause decided completely (k_ipad, k_opad, inner context wiped on every path; every local HMAC context reaches its final); no context read after final; RFC 2104 skeleton (strict block comparison, zero padding, 0x36/0x5c over whole block, inner/outer order). MAC equality is NOT decided.",
         "Trusts clang 14 CFG, typestate dataflow in rules/r_ts.py; *_final wiping its context is C04's obligation.",
         "static analysis: typestate dataflow + post-dominance + structural skeleton match"),
 "C18": ("Structural clauses only, of what the library adds around inet_ntop/inet_pton: sa_addr_port_to_str evaluated over family x output buffer size x callee outcome x port classes (210 classes): every capacity handed to a callee lies inside the caller's buffer (no unsigned wrap), the pieces '[' address ']' ':' port are contiguous and never overlap, every store is in bounds and the reported size is the end of the text; pref_to_mask equals the arithmetic masks in network order; inet_len2mask/inet6_len2mask for every prefix length 0..32 / 0..128 write each mask word once with the arithmetic value and refuse larger lengths, and inet_mask2len/inet6_mask2len return the length on each such mask (the conversions are inverse); in every switch over the address family each arm views and sizes the address through that family's records, and the 1/4 word counts of membership/truncation match the address sizes; sin_port/sin6_port are converted on every access (R-ENDIAN); both text parsers share the same trimming/copy/parse statements; relational abstract interpretation of all 33 functions of socket_address.c and net/utils.c (accesses proved or listed undecided). NOT decided: the text inet_ntop produces and inet_pton accepts (RFC 5952 form, round trip of address values), the set of spellings accepted or rejected, membership for arbitrary addresses.",
         "Trusts clang 14 CFG, the partial evaluator, libc contracts (inet_ntop/strlcpy write at most the size given); little-endian host for the mask table (the source has no big-endian branch).",
         "static analysis: partial evaluation over finite argument classes (text layout, prefix lengths), constant-table comparison, switch-arm/record agreement, byte-order typestate, sibling comparison, relational abstract interpretation"),
 "C19": ("Structural clauses only. The ring's functions touch positions only through comparisons of a few quantities, so their decisions are finite tables over the orderings of (reader round vs writer round incl. the wrap of the counter, reader block vs write block, write block + 1, last valid block): r_buf_rpos_check and r_buf_rpos_check_fast give the same verdict on all 1610 orderings; whenever r_buf_rpos_check rejects a position it stores a dropped amount and leaves the position repaired (checking the position it left behind succeeds - a lagging reader is resynchronised by the call that detects the lag and is told once); r_buf_data_avail_size and r_buf_data_get walk the same (first block, block count) ranges from the same offset and share the empty case; r_buf_wbuf_get / r_buf_wbuf_set evaluated over space-left / request / minimum-block / block-used classes: region handed out inside the ring, wrap exactly when the space left is too small, a wrap bumps the round once, records the last valid block and restarts at block 0, commit sets block length/base, write offset and last valid block; relational abstract interpretation of the file's 18 functions (proved / undecided as listed). NOT decided: stream order, byte identity and drop totals over histories of interleaved writer/reader steps; that block-table indices stay below iov_count.",
         "Trusts clang 14 CFG and the partial evaluator; assumes a commit never exceeds what r_buf_wbuf_get handed out.",
         "static analysis: finite-domain evaluation over all orderings of the compared quantities (partial evaluation), sibling comparison of call arguments, argument-class evaluation of the writer, relational abstract interpretation"),
}

NA = {
}


def main():
    props = [json.loads(l) for l in open(os.path.join(V, "properties.jsonl"))]
    checks = []
    for p in props:
        pid = p["id"]
        if pid not in CLAIMS:
            continue
        text, note, tech = CLAIMS[pid]
        checks.append({
            "property_id": pid,
            "quick_cmd": "./check %s --tier quick" % pid,
            "thorough_cmd": "./check %s --tier thorough" % pid,
            "evidence_file": "/verif/evidence/%s.json" % pid,
            "replay_cmd_template": "./check %s --replay {path}" % pid,
            "engine": "lcbfacts+rules",
            "level_claimed": {"category": "other", "text": text, "design_ref": "DESIGN.md section 4, " + pid},
            "level_note": note,
            "technique": tech,
        })
    na = []
    for p in props:
        pid = p["id"]
        if pid in CLAIMS:
            continue
        na.append({"property_id": pid, "reason": NA.get(
            pid, "check not built yet (work in progress); planned clauses are listed in DESIGN.md section 0")})
    m = {
        "version": 1,
        "setup_cmd": "./setup.sh",
        "hooks": {"guard": "LIBLCB_VERIF",
                  "enable": "none needed: the analysis reads unmodified sources; no hook commits exist",
                  "baseline_off_cmd": "cmake --build /repo/_build && ctest --test-dir /repo/_build -j8 --timeout 900",
                  "source_commits": [], "add_only": True},
        "engines": [{"name": "lcbfacts+rules", "path": "tool/lcbfacts.cc, rules/*.py, props/*.py",
                     "serves_properties": sorted(CLAIMS),
                     "kind_free_text": "clang-14 libTooling fact extractor (CFG + typed expression trees + evaluated "
                                       "constants) and python rule engines (dominance, typestate, tables, bounds)"}],
        "checks": checks,
        "notes": "Static analysis only. Exit 0 = claimed clauses hold (KNOWN-FINDING lines for listed findings); "
                 "exit 1 + VIOLATION line; exit 2 = analysis broken (unit does not parse / anchor vanished / "
                 "rule-instance floor).",
        "not_applicable": na,
    }
    with open(os.path.join(V, "MANIFEST.json"), "w") as f:
        json.dump(m, f, indent=1)
    print("MANIFEST: %d checks, %d not_applicable" % (len(checks), len(na)))


if __name__ == "__main__":
    main()
