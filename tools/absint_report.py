#!/usr/bin/env python3
"""developer tool: run the abstract interpreter over units/functions and print what is not proved"""
import sys, time
sys.path.insert(0, '/verif')
from rules import driver, absint
from props import common, memsafe

def main():
    args = sys.argv[1:]
    only = None
    if "--fn" in args:
        i = args.index("--fn"); only = set(args[i + 1].split(",")); del args[i:i + 2]
    specs = []
    for a in args:
        specs.append(common.src_unit(a) if a.startswith("src/") else common.hdr_unit(a, a))
    us = driver.load_units(specs)
    tot = {'proved': 0, 'alarm': 0, 'undecided': 0}
    for lab, u in us.items():
        for fn in u.function_list:
            rf = fn.relfile()
            if rf != lab and rf != "include/" + lab:
                continue
            if only and fn.name not in only:
                continue
            t = time.time()
            a = absint.Analysis(fn, pairs=memsafe.pairs_for(fn)).run()
            dt = time.time() - t
            for o in a.obligations:
                tot[o['status']] += 1
            bad = [o for o in a.obligations if o['status'] != 'proved']
            np = [p for p in a.progress if not p['ok']]
            if bad or np or dt > 3:
                print("%s  (%.1fs, %d obligations, %d untracked)" % (fn.name, dt, len(a.obligations), a.untracked))
                for o in bad:
                    print("    %-5s line %-5s %-45s %s" % (o['status'][:5], o['ln'], o['what'][:45], o['detail'][:90]))
                for p in np:
                    print("    loop  line %-5s no progress proved; condition vars %s" % (p['ln'], p['cands']))
    print(tot)

main()
