#!/usr/bin/env python3
"""tools/revert_seeds.py <first-commit> [workers]: developer tool.

Every repair ("fix:" commit) of /repo is the inverse of a seeded defect whose demo already exists (replays/).  This tool
takes each fix commit from <first-commit> to HEAD, splits its *reverse* diff into single hunks, applies each hunk that still
applies to HEAD in a scratch worktree (never in /repo), runs the quick check of the property the repair is recorded under
(LCB_REPO=<worktree>), and records the outcome:

  rc 1  -> seeded/R-<prop>-<hash>-<k>/ (patch.diff, meta.json with detected_by) : a regression seed for tools/seeds_regress.sh
  rc 0  -> listed in /verif/reports/revert_misses.txt for triage (a hunk can be harmless on its own: a comment, a
           declaration, one half of a two-part repair)
  rc 2  -> the reverted hunk does not parse / breaks an anchor: listed, not kept

The worktrees live under /tmp/rv and are removed at the end."""
import json, os, re, subprocess, sys, concurrent.futures

V = "/verif"
first = sys.argv[1]
workers = int(sys.argv[2]) if len(sys.argv) > 2 else 6


def sh(*a, **kw):
    return subprocess.run(a, stdout=subprocess.PIPE, stderr=subprocess.PIPE, **kw)


commits = sh("git", "-C", "/repo", "log", "--format=%h", "--grep", "^fix:", first + "^..HEAD").stdout.decode().split()
kf = json.load(open(os.path.join(V, "known_findings.json")))
prop_of = {}
for line in kf["fixed"]:
    m = re.match(r"fixed: property=(C\d\d) (\w+) ", line)
    if m:
        prop_of.setdefault(m.group(2), [])
        if m.group(1) not in prop_of[m.group(2)]:
            prop_of[m.group(2)].append(m.group(1))


def hunks_of(commit):
    d = sh("git", "-C", "/repo", "diff", "-U3", commit, commit + "^").stdout.decode(errors="replace")
    out = []
    files = re.split(r"(?m)^(?=diff --git )", d)
    for f in files:
        if not f.startswith("diff --git"):
            continue
        parts = re.split(r"(?m)^(?=@@ )", f)
        head = parts[0]
        for h in parts[1:]:
            out.append(head + h)
    return out


def work(args):
    idx, commit = args
    wt = "/tmp/rv/wt%d" % idx
    res = []
    props = prop_of.get(commit, [])
    if not props:
        return [(commit, -1, None, "no fixed: line")]
    for k, patch in enumerate(hunks_of(commit)):
        pf = "/tmp/rv/p%d.diff" % idx
        open(pf, "w").write(patch)
        if sh("git", "-C", wt, "apply", "--check", pf).returncode != 0:
            res.append((commit, k, None, "does not apply to HEAD"))
            continue
        # skip hunks that only touch comments / blank lines
        body = [l[1:].strip() for l in patch.splitlines() if l[:1] in "+-" and not l.startswith(("+++", "---"))]
        if all((not b) or b.startswith(("/*", "*", "//")) for b in body):
            res.append((commit, k, None, "comment only"))
            continue
        sh("git", "-C", wt, "apply", pf)
        verdict = None
        for p in props:
            env = dict(os.environ, LCB_REPO=wt)
            r = sh("./check", p, "--tier", "quick", cwd=V, env=env)
            out = r.stdout.decode(errors="replace")
            if r.returncode == 1:
                viol = [l.strip() for l in out.splitlines() if l.strip().startswith("violated:")]
                verdict = (p, 1, viol[0][:300] if viol else "")
                break
            verdict = verdict or (p, r.returncode, "")
        sh("git", "-C", wt, "checkout", "--", ".")
        res.append((commit, k, verdict, patch))
    return res


os.makedirs("/tmp/rv", exist_ok=True)
for i in range(workers):
    sh("git", "-C", "/repo", "worktree", "remove", "--force", "/tmp/rv/wt%d" % i)
    sh("git", "-C", "/repo", "worktree", "add", "--detach", "/tmp/rv/wt%d" % i, "HEAD")
jobs = [(i % workers, c) for i, c in enumerate(commits)]
# one commit at a time per worktree
buckets = {}
for i, c in jobs:
    buckets.setdefault(i, []).append(c)


def run_bucket(i):
    out = []
    for c in buckets.get(i, []):
        out += work((i, c))
    return out


allres = []
with concurrent.futures.ThreadPoolExecutor(max_workers=workers) as ex:
    for r in ex.map(run_bucket, range(workers)):
        allres += r
for i in range(workers):
    sh("git", "-C", "/repo", "worktree", "remove", "--force", "/tmp/rv/wt%d" % i)
os.makedirs(os.path.join(V, "reports"), exist_ok=True)
miss = open(os.path.join(V, "reports", "revert_misses.txt"), "w")   # copy the non-skipped lines to seeded/R-MISSES.txt when committing
kept = 0
for commit, k, verdict, patch in allres:
    if verdict is None:
        miss.write("%s#%s: skipped (%s)\n" % (commit, k, patch))
        continue
    p, rc, why = verdict
    if rc == 1:
        d = os.path.join(V, "seeded", "R-%s-%s-%d" % (p, commit, k))
        os.makedirs(d, exist_ok=True)
        open(os.path.join(d, "patch.diff"), "w").write(patch)
        json.dump({"property": p, "summary": "reverse of one hunk of repair %s (see known_findings.json 'fixed:' lines and replays/)" % commit,
                   "verif": {"property": p, "history": "reverted repair, generated by tools/revert_seeds.py",
                             "detected_by": why, "command": "git -C /repo apply /verif/seeded/%s/patch.diff && ./check %s; git -C /repo checkout -- ." % (os.path.basename(d), p)}},
                  open(os.path.join(d, "meta.json"), "w"), indent=1)
        kept += 1
    else:
        first_line = [l for l in patch.splitlines() if l.startswith("@@")][:1]
        files = [l for l in patch.splitlines() if l.startswith("+++ ")][:1]
        miss.write("%s#%d %s rc=%d %s %s\n" % (commit, k, p, rc, files, first_line))
miss.close()
print("reverted-repair seeds kept: %d; see reports/revert_misses.txt for the rest (%d hunks examined)" % (kept, len(allres)))
