#!/bin/bash
# tools/mut.sh <prop> <name> "<python acting on s>" [file]  : developer single-mutant harness (applies to /repo, runs the check, restores /repo)
prop=$1; name=$2; snippet=$3; file=${4:-include/crypto/dsa/ecdsa.h}
cd /repo && python3 - "$file" "$snippet" <<'PY'
import sys
p=sys.argv[1]; s=open(p).read(); o=s
exec(sys.argv[2])
assert s!=o, "mutation did not apply"
open(p,'w').write(s)
PY
[ $? -eq 0 ] || { git -C /repo checkout -- .; echo "$name: NOT APPLIED"; exit; }
cd /verif && out=$(./check $prop 2>&1); rc=$?
echo "$name: rc=$rc $(echo "$out" | grep -c 'violated:') violations; first: $(echo "$out" | grep -m1 'violated:' | cut -c1-260)"
git -C /repo checkout -- .
