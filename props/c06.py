"""C06 — event and timer registrations.

Decided clauses:
  * R-UNIT  timer unit conversion: for each unit case divisor = modulus = units-per-second and multiplier*U = 1e9
  * who-may-call: tpt_ev_post is reached only through tpt_ev_validate's zero return (plus the internal pvt registration)
  * validator: event-kind switch exhaustive with failing default; per kind the fflags mask equals the OR of the flags
    defined for that kind; set-flags outside TP_F_S_MASK and ONESHOT+DISPATCH together are refused
  * definite assignment of the programmed value: the unit switch covers every value of TP_FF_T_TM_MASK
  * R-MPT   dispatch loop: DISABLED gate dominates the callback; ONESHOT delete / DISPATCH mark / EOF / ERROR flag
            stores lie on every path from their test to the callback
  * one-shot vs periodic interval; ABSTIME <-> clock and settime flag agreement
  * R-PAIR  timer/process descriptors are closed on every failing path after creation
  * R-CFGX  tpdata bit fields pairwise disjoint and disjoint from the DISABLED bit
Not decided: firing behaviour over histories.
"""
from rules import driver, core, r_path, r_mpt
from rules.core import walk, key, const_val
from props import tp

TRUSTED = ["clang 14 front end + CFG builder", "tool/lcbfacts.cc", "rules/r_mpt.py", "rules/r_path.py", "python3"]
UNITS = {"TP_FF_T_SEC": 1, "TP_FF_T_MSEC": 10 ** 3, "TP_FF_T_USEC": 10 ** 6, "TP_FF_T_NSEC": 10 ** 9}


def switch_cases(fn, bid):
    """{case value: successor block} and default successor of the switch in block bid"""
    b = fn.blocks[bid]
    cases, dflt = {}, None
    for s in b.succ:
        if s is None:
            continue
        lab = fn.blocks[s].label or {}
        if "case" in lab:
            cases[int(lab["case"])] = s
        else:
            dflt = s
    return cases, dflt


def arm_blocks(fn, sw, start):
    """blocks of a case arm: reachable from `start` without passing the switch's join (post-dominator)"""
    pd = fn.pdom().get(sw, set()) - {sw}
    return fn.reach_from([start], avoid=pd)


def unit_rule(rep, fn, vals):
    # the unit switch is recognised by what it does (its arms program it_value), not by how its operand is spelled
    sw = None
    for bid in fn.reachable_blocks():
        b = fn.blocks[bid]
        if b.term and b.term["k"] == "SwitchStmt" and b.cond is not None and "fflags" in key(b.cond):
            cs, df = switch_cases(fn, bid)
            arms = set()
            for tgt in list(cs.values()) + ([df] if df is not None else []):
                arms |= set(arm_blocks(fn, bid, tgt))
            if any(e.get("k") == "bin" and e["op"] == "=" and key(e["x"]).endswith("it_value.tv_sec") for a in arms for e in fn.blocks[a].elems):
                sw = bid
    if sw is None:
        rep.violated("R-UNIT", fn, "unit-switch", "a switch over the unit bits of fflags programs the timer value", "not found")
        return 0
    c = core.strip_imp(fn.blocks[sw].cond)
    used = None
    if c.get("k") == "bin" and c["op"] == "&":
        used = const_val(c["x"]) if const_val(c["x"]) is not None else const_val(c["y"])
    desc = "the unit switch looks at the unit bits only (TP_FF_T_TM_MASK): TP_FF_T_ABSTIME or other fflags bits do not change the unit"
    cs, df = switch_cases(fn, sw)
    if used is None:
        rep.undecided("R-UNIT", fn, "unit-switch-mask", desc, "operand %s" % key(c))
    else:
        bad = []
        for name in UNITS:
            for extra_name in ("", "TP_FF_T_ABSTIME"):
                ff = vals[name] | (vals[extra_name] if extra_name else 0)
                sel = cs.get(ff & used, df)
                if sel != cs.get(vals[name]):
                    bad.append("%s%s selects %s" % (name, "|" + extra_name if extra_name else "",
                                                    "the default arm" if sel == df else "another unit's arm"))
        if bad:
            rep.violated("R-UNIT", fn, "unit-switch-mask", desc, "switch operand is (0x%x & fflags): %s" % (used, "; ".join(bad[:3])))
        else:
            rep.proved("R-UNIT", fn, "unit-switch-mask", desc, "operand mask 0x%x; 8 unit x ABSTIME combinations select the unit's own arm" % used)
    cases, dflt = switch_cases(fn, sw)
    mask = vals["TP_FF_T_TM_MASK"]
    missing = [v for v in range(mask + 1) if (v & mask) == v and v not in cases]
    desc = "the unit switch has a case for every value of TP_FF_T_TM_MASK, so the programmed value is definitely assigned"
    if missing and not (dflt is not None and (fn.blocks[dflt].label or {}).get("default")):
        rep.violated("R-CFGX", fn, "unit-switch-total", desc, "no case for %s" % missing)
    else:
        rep.proved("R-CFGX", fn, "unit-switch-total", desc, "cases %s" % sorted(cases))
    n = 0
    for name, U in UNITS.items():
        v = vals[name]
        if v not in cases:
            rep.violated("R-UNIT", fn, name, "unit case present", "missing")
            continue
        blocks = arm_blocks(fn, sw, cases[v])
        sec = nsec = None
        for b in blocks:
            for e in fn.blocks[b].elems:
                if e.get("k") == "bin" and e["op"] == "=":
                    l = key(e["x"])
                    if l.endswith("it_value.tv_sec"):
                        sec = e["y"]
                    elif l.endswith("it_value.tv_nsec"):
                        nsec = e["y"]
        n += 1
        desc = "unit %s: seconds = data / %d, nanoseconds = (data %% %d) * %d" % (name, U, U, 10 ** 9 // U)
        if sec is None or nsec is None:
            rep.violated("R-UNIT", fn, name, desc, "tv_sec/tv_nsec not both assigned in this case")
            continue
        D = M = K = None
        s0 = core.strip_casts(sec)
        if s0.get("k") == "bin" and s0["op"] == "/":
            D = const_val(s0["y"])
        elif U == 1 and "data" in key(s0):
            D = 1
        n0 = core.strip_casts(nsec)
        if const_val(n0) == 0 and U == 1:
            M, K = 1, 10 ** 9
        else:
            K = 1
            if n0.get("k") == "bin" and n0["op"] == "*":
                for a, b_ in ((n0["x"], n0["y"]), (n0["y"], n0["x"])):
                    if const_val(a) is not None:
                        K = const_val(a)
                        n0 = core.strip_casts(b_)
            if n0.get("k") == "bin" and n0["op"] == "%":
                M = const_val(n0["y"])
        if D == U and M == U and K is not None and K * U == 10 ** 9:
            rep.proved("R-UNIT", fn, name, desc, "divisor %s, modulus %s, multiplier %s" % (D, M, K))
        else:
            rep.violated("R-UNIT", fn, name, desc, "divisor %s, modulus %s, multiplier %s (multiplier*U = %s, must be 10^9)" % (
                D, M, K, (K or 0) * U))
    return n


def who_may_call(rep, u):
    """who-may-call in effect form: every call of tpt_ev_post outside the internal pvt registration sits behind a
    tpt_ev_validate() == 0 test on the way (in whichever function the test and the call are written), and every public entry
    registers through such a function."""
    callers = {}
    for fn in u.function_list:
        for pos, root, c, ps in fn.calls({"tpt_ev_post"}):
            callers.setdefault(fn.name, []).append(pos)
    internal = {"tpt_data_event_init"}
    fnp = tp.need(u, "tpt_ev_post")
    validating = set()
    for name, sites in sorted(callers.items()):
        if name in internal:
            continue
        fv = u.fn(name)
        rep.functions.add(name)
        if not any(c.get("fn") == "tpt_ev_validate" for pos, root, c, ps in fv.calls()):
            rep.violated("R-MPT", fv, "validator-called", "%s calls tpt_ev_post only after tpt_ev_validate" % name, "no call of tpt_ev_validate in the function")
            continue
        rep.proved("R-MPT", fv, "validator-called", "%s calls tpt_ev_validate" % name)
        res_ids = core.result_locals(fv, {"tpt_ev_validate"})
        before = len([o for o in rep.obs if o.status == "violated"])
        r_mpt.check_guard(rep, fv, "tpt_ev_validate()==0",
                          lambda n, ps: (n.get("k") == "ref" and n.get("id") in res_ids) or (n.get("k") == "call" and n.get("fn") == "tpt_ev_validate"),
                          (0, 22), (0,), targets=sites, target_desc="tpt_ev_post call")
        if len([o for o in rep.obs if o.status == "violated"]) == before:
            validating.add(name)
    bad = sorted(set(callers) - internal - validating)
    (rep.violated if bad or not validating else rep.proved)(
        "R-MPT", fnp, "callers", "tpt_ev_post is called only behind a successful tpt_ev_validate (and by the internal pvt registration)",
        ("unvalidated callers: %s" % bad) if bad else "validating callers: %s" % sorted(validating))
    # every public entry registers through a validating function (itself, a wrapper, or another public entry)
    pub = ["tpt_ev_add", "tpt_ev_add_args", "tpt_ev_add_args2", "tpt_ev_del", "tpt_ev_del_args1", "tpt_ev_enable",
           "tpt_ev_enable_args", "tpt_ev_enable_args1"]
    ok_set = set(validating)
    changed = True
    while changed:
        changed = False
        for nm in pub + [f.name for f in u.function_list if f.relfile() == tp.TP_C and f.has_cfg]:
            f = u.fn(nm)
            if f is None or nm in ok_set or not f.has_cfg:
                continue
            cs = {c.get("fn") for pos, root, c, ps in f.calls()}
            if "tpt_ev_post" not in cs and cs & ok_set:
                ok_set.add(nm)
                changed = True
    for nm in pub:
        f = u.fn(nm)
        if f is None:
            continue
        rep.functions.add(nm)
        (rep.proved if nm in ok_set else rep.violated)("R-MPT", f, "entry-validates", "public entry %s registers only behind the validator" % nm)
    return len(pub)


def validator(rep, u, vals):
    fn = tp.need(u, "tpt_ev_validate")
    rep.functions.add(fn.name)
    kinds = {"TP_EV_READ": vals["TP_EV_READ"], "TP_EV_WRITE": vals["TP_EV_WRITE"], "TP_EV_TIMER": vals["TP_EV_TIMER"],
             "TP_EV_PROC": vals["TP_EV_PROC"]}
    n = r_mpt.check_switch_exhaustive(rep, fn, lambda c: key(c).endswith("->event"), kinds, u, inst="switch(ev->event)")
    if n != 1:
        rep.violated("R-CFGX", fn, "switch(ev->event)", "validator switches over the event kind", "%d switches" % n)
        return
    sw = [b for b in fn.reachable_blocks() if fn.blocks[b].term and fn.blocks[b].term["k"] == "SwitchStmt"][0]
    cases, dflt = switch_cases(fn, sw)
    want_mask = {"TP_EV_READ": vals["TP_FF_RW_LOWAT"], "TP_EV_WRITE": vals["TP_FF_RW_LOWAT"],
                 "TP_EV_TIMER": vals["TP_FF_T_TM_MASK"] | vals["TP_FF_T_ABSTIME"] | vals["TP_FF_T_SEC"] | vals["TP_FF_T_MSEC"] |
                 vals["TP_FF_T_USEC"] | vals["TP_FF_T_NSEC"], "TP_EV_PROC": vals["TP_FF_P_EXIT"]}
    succ_ret = r_mpt.success_returns(fn)
    for kname, kv in kinds.items():
        if kv not in cases:
            continue
        arm = arm_blocks(fn, sw, cases[kv])
        found = None
        for b in arm:
            blk = fn.blocks[b]
            c = blk.cond
            if c is None:
                continue
            for x, ps in walk(c):
                if x.get("k") == "bin" and x["op"] == "&" and "fflags" in key(x):
                    cm = const_val(x["x"]) if const_val(x["x"]) is not None else const_val(x["y"])
                    if cm is not None:
                        found = (b, c, x, (~cm) & 0xffffffff)
        desc = "%s: fflags outside the flags defined for this kind (0x%x) are refused" % (kname, want_mask[kname])
        if not found:
            rep.violated("R-TBL", fn, "fflags-mask:" + kname, desc, "no fflags mask test in this arm")
            continue
        b, c, atom, mask = found
        ok = True
        why = "accepted mask 0x%x" % mask
        if mask != want_mask[kname]:
            ok = False
            why += " != defined flags 0x%x" % want_mask[kname]
        else:
            # polarity: a value with a foreign bit must not reach success; zero must
            sbad, k1 = r_mpt.edge_for_value(fn, b, c, atom, 0x10)
            sgood, k0 = r_mpt.edge_for_value(fn, b, c, atom, 0)
            if not (k1 and k0) or r_mpt.can_reach(fn, sbad, succ_ret, avoid=[b]) or not r_mpt.can_reach(fn, sgood, succ_ret, avoid=[b]):
                ok = False
                why += "; foreign bit not refused"
        (rep.proved if ok else rep.violated)("R-TBL", fn, "fflags-mask:" + kname, desc, why)
    # set flags
    fl_mask = vals["TP_F_S_MASK"]
    defined = vals["TP_F_ONESHOT"] | vals["TP_F_DISPATCH"] | vals.get("TP_F_EDGE", 0) | vals.get("TP_F_EXCLUSIVE", 0)
    (rep.proved if defined & ~fl_mask == 0 else rep.violated)(
        "R-TBL", fn, "TP_F_S_MASK", "every defined set-flag lies inside TP_F_S_MASK", "defined 0x%x mask 0x%x" % (defined, fl_mask))
    # flags tests: foreign bit refused, ONESHOT|DISPATCH refused, each alone accepted
    flag_conds = []
    for bid, c, atom in r_mpt.branches_with(fn, lambda x, ps: x.get("k") == "bin" and x["op"] == "&" and key(x).endswith("ev->flags)")):
        flag_conds.append((bid, c, atom))
    def verdict(fv):
        """can a flags value reach success through all flags tests?"""
        for bid, c, _ in flag_conds:
            env = {}
            for x, ps in walk(c):
                if x.get("k") == "bin" and x["op"] == "&" and key(x).endswith("ev->flags)"):
                    cm = const_val(x["x"]) if const_val(x["x"]) is not None else const_val(x["y"])
                    env[id(x)] = (cm & fv) & 0xffffffff if cm is not None else 0
            try:
                v = r_mpt.eval_expr(c, env)
            except r_mpt.Unknown:
                return None
            s = fn.blocks[bid].succ[0] if v else fn.blocks[bid].succ[1]
            if not r_mpt.can_reach(fn, s, succ_ret, avoid=[bid]):
                return False
        return True
    one, dis = vals["TP_F_ONESHOT"], vals["TP_F_DISPATCH"]
    checks = [(0, True), (one, True), (dis, True), (one | dis, False), (0x10, False), (0x100, False), (one | 0x40, False)]
    res = [(fv, verdict(fv), want) for fv, want in checks]
    ok = bool(flag_conds) and all(r == want for fv, r, want in res)
    (rep.proved if ok else rep.violated)("R-TBL", fn, "flags-accept-set",
                                         "flags: none/ONESHOT/DISPATCH accepted; ONESHOT|DISPATCH and bits outside TP_F_S_MASK refused",
                                         "; ".join("0x%x->%s" % (fv, r) for fv, r, w in res))


def must_pass(fn, start_block, via, targets, avoid=()):
    """every path from the start of start_block to a target passes an element position in `via`"""
    via_blocks = {p[0] for p in via}
    # a via position in the same block as the target but after it does not count
    tb = {t[0]: t[1] for t in targets}
    via_blocks = {p[0] for p in via if not (p[0] in tb and p[1] > tb[p[0]])}
    r = fn.reach_from([start_block], avoid=set(via_blocks) | set(avoid))
    return not any(t[0] in r for t in targets)


def must_pass_by_kind(fn, start_block, via, targets, avoid, kinds, evkey="ev.event"):
    """must_pass, decided separately for every event kind: successors of tests of `ev.event` (==, != against a constant,
    or the switch over it) that contradict the kind are not followed.  The loop treats timers differently from
    descriptors in two places that are correlated through ev.event; one kind at a time is exact for that."""
    tb = {t[0]: t[1] for t in targets}
    via_blocks = {p[0] for p in via if not (p[0] in tb and p[1] > tb[p[0]])}
    for k in kinds:
        seen = set()
        st = [start_block]
        hit = False
        while st:
            b = st.pop()
            if b in seen or b in via_blocks or b in avoid:
                continue
            seen.add(b)
            if b in tb:
                hit = True
                break
            blk = fn.blocks[b]
            succ = blk.rsucc()
            c = blk.cond
            if c is not None:
                if blk.term and blk.term["k"] == "SwitchStmt" and key(core.strip_casts(c)) == evkey:
                    keep = []
                    dflt = None
                    for s_ in succ:
                        lab = fn.blocks[s_].label or {}
                        if "case" in lab and int(lab["case"]) == k:
                            keep.append(s_)
                        elif "case" not in lab:
                            dflt = s_
                    succ = keep or ([dflt] if dflt is not None else [])
                else:
                    c0 = core.strip_casts(c)
                    if c0.get("k") == "bin" and c0["op"] in ("==", "!=") and len(blk.succ) == 2:
                        a, b2 = core.strip_casts(c0["x"]), core.strip_casts(c0["y"])
                        cv = const_val(a) if key(b2) == evkey else (const_val(b2) if key(a) == evkey else None)
                        if cv is not None:
                            truth = (k == cv) if c0["op"] == "==" else (k != cv)
                            succ = [blk.succ[0] if truth else blk.succ[1]]
                            succ = [x for x in succ if x is not None]
            st.extend(succ)
        if hit:
            return False
    return True


def loop_rules(rep, u, vals):
    fn = tp.need(u, "tpt_loop")
    rep.functions.add(fn.name)
    cbs = [pos for pos, root, c, ps in fn.nodes() if c.get("k") == "call" and "callee" in c and key(c["callee"]).endswith("->cb_func")]
    if len(cbs) != 1:
        rep.violated("R-MPT", fn, "dispatch-site", "one callback dispatch site in the event loop", "%d" % len(cbs))
        return
    cb = cbs[0]
    DIS = vals["TPDATA_F_DISABLED"]
    def and_const(cval):
        return lambda x, ps: x.get("k") == "bin" and x["op"] == "&" and cval in (const_val(x["x"]), const_val(x["y"]))
    r_mpt.check_guard(rep, fn, "TPDATA_F_DISABLED", and_const(DIS), (0, DIS), (0,), targets=[cb], target_desc="callback dispatch",
                      stable=True)

    def flag_then_store(inst, flagval, flagkeypart, store_pred, desc):
        """when (flag & X) is set, every path to the callback passes a store satisfying store_pred"""
        stores = [pos for pos, root, x, ps in fn.nodes() if store_pred(x)]
        found = False
        allok = True
        tests = list(r_mpt.branches_with(fn, lambda x, ps: and_const(flagval)(x, ps) and flagkeypart in key(x)))
        for bid, c, atom in tests:
            found = True
            s, known = r_mpt.edge_for_value(fn, bid, c, atom, flagval)
            # a later test of the same (unchanged) flag word takes its flag-set edge too, and is verified in its own turn:
            # it cuts the path like a store does
            cuts = stores + [(b2, len(fn.blocks[b2].elems) - 1) for b2, c2, a2 in tests if b2 != bid]
            kinds = [vals[n_] for n_ in ("TP_EV_READ", "TP_EV_WRITE", "TP_EV_TIMER", "TP_EV_PROC")]
            if not known or not must_pass_by_kind(fn, s, cuts, [cb], [bid], kinds):
                allok = False
        if found and allok and stores:
            rep.proved("R-MPT", fn, inst, desc, "%d store site(s) cut every path from the flag-set edge to the dispatch" % len(stores))
        else:
            rep.violated("R-MPT", fn, inst, desc, "flag test %s; stores %d" % ("found" if found else "missing", len(stores)))

    def is_tpdata_zero(x):
        return x.get("k") == "bin" and x["op"] == "=" and key(x["x"]).endswith("->tpdata") and const_val(x["y"]) == 0

    def is_disable_mark(x):
        return x.get("k") == "bin" and x["op"] == "|=" and key(x["x"]).endswith("->tpdata") and const_val(x["y"]) == DIS
    flag_then_store("ONESHOT-forget", vals["TP_F_ONESHOT"], "tpev_flags", is_tpdata_zero,
                    "a one-shot registration is forgotten (tpdata = 0) before its callback runs")
    flag_then_store("DISPATCH-disable", vals["TP_F_DISPATCH"], "tpev_flags", is_disable_mark,
                    "a dispatch registration is marked disabled before its callback runs")
    flag_then_store("EOF-flag", vals["EPOLL_HUP"], "events",
                    lambda x: x.get("k") == "bin" and x["op"] == "|=" and key(x["x"]).endswith("ev.flags") and const_val(x["y"]) == vals["TP_F_EOF"],
                    "hang-up conditions reach the callback with TP_F_EOF")
    flag_then_store("ERROR-flag", vals["EPOLLERR"], "events",
                    lambda x: x.get("k") == "bin" and x["op"] == "|=" and key(x["x"]).endswith("ev.flags") and const_val(x["y"]) == vals["TP_F_ERROR"],
                    "error conditions reach the callback with TP_F_ERROR")
    # flag translation: both ONESHOT and DISPATCH map to EPOLLONESHOT
    ft = tp.need(u, "tp_flags_to_ep")
    ok = False
    for bid, c, atom in r_mpt.branches_with(ft, lambda x, ps: x.get("k") == "bin" and x["op"] == "&" and
                                            (vals["TP_F_ONESHOT"] | vals["TP_F_DISPATCH"]) in (const_val(x["x"]), const_val(x["y"]))):
        stores = [pos for pos, root, x, ps in ft.nodes() if x.get("k") == "bin" and x["op"] == "|=" and const_val(x["y"]) == vals["EPOLLONESHOT"]]
        s1, k1 = r_mpt.edge_for_value(ft, bid, c, atom, vals["TP_F_ONESHOT"])
        s2, k2 = r_mpt.edge_for_value(ft, bid, c, atom, vals["TP_F_DISPATCH"])
        s0, k0 = r_mpt.edge_for_value(ft, bid, c, atom, 0)
        ok = k1 and k2 and k0 and stores and s1 == s2 and stores[0][0] in ft.reach_from([s1], avoid=[bid]) and \
            stores[0][0] not in ft.reach_from([s0], avoid=[bid])
    (rep.proved if ok else rep.violated)("R-TBL", ft, "oneshot-map", "ONESHOT and DISPATCH both translate to EPOLLONESHOT, nothing else does")


def timer_programming(rep, fn, vals):
    OD = vals["TP_F_ONESHOT"] | vals["TP_F_DISPATCH"]
    zero = [pos for pos, root, c, ps in fn.calls({"memset"}) if "it_interval" in key(c["args"][0]) and const_val(c["args"][1]) == 0]
    per = [pos for pos, root, x, ps in fn.nodes() if x.get("k") == "bin" and x["op"] == "=" and key(x["x"]).endswith("it_interval")]
    ok = False
    for bid, c, atom in r_mpt.branches_with(fn, lambda x, ps: x.get("k") == "bin" and x["op"] == "&" and OD in (const_val(x["x"]), const_val(x["y"]))
                                            and "flags" in key(x)):
        s1, k1 = r_mpt.edge_for_value(fn, bid, c, atom, vals["TP_F_ONESHOT"])
        s2, k2 = r_mpt.edge_for_value(fn, bid, c, atom, vals["TP_F_DISPATCH"])
        s0, k0 = r_mpt.edge_for_value(fn, bid, c, atom, 0)
        if not (k1 and k2 and k0) or not zero or not per:
            continue
        # with neither flag the interval is the value - unless the time is absolute (a point in time has no period): the
        # zeroing is then reachable only through a test of the ABSTIME bit
        abt = [b2 for b2 in fn.reachable_blocks() if fn.blocks[b2].cond is not None and "fflags" in key(fn.blocks[b2].cond) and
               any(const_val(y) == vals["TP_FF_T_ABSTIME"] for y, _ in walk(fn.blocks[b2].cond))]
        pd = fn.pdom().get(bid, set()) - {bid}
        ok = s1 == s2 and zero[0][0] in arm_blocks(fn, bid, s1) and per[0][0] not in arm_blocks(fn, bid, s1) and \
            per[0][0] in arm_blocks(fn, bid, s0) and zero[0][0] not in fn.reach_from([s0], avoid=set(pd) | set(abt))
    # an absolute expiration time is a point in time: it is never copied into the repeat interval
    ok_abs = False
    for bid, c, atom in r_mpt.branches_with(fn, lambda x, ps: x.get("k") == "bin" and x["op"] == "&" and OD in (const_val(x["x"]), const_val(x["y"])) and "flags" in key(x)):
        s0, k0 = r_mpt.edge_for_value(fn, bid, c, atom, 0)
        abt2 = [b2 for b2 in fn.reachable_blocks() if fn.blocks[b2].cond is not None and "fflags" in key(fn.blocks[b2].cond) and
                any(const_val(y) == vals["TP_FF_T_ABSTIME"] for y, _ in walk(fn.blocks[b2].cond))]
        pd2 = fn.pdom().get(bid, set()) - {bid}
        if k0 and zero and abt2 and zero[0][0] in fn.reach_from([s0], avoid=pd2) and any(b2 in fn.reach_from([s0], avoid=pd2) for b2 in abt2):
            ok_abs = True
    (rep.proved if ok_abs else rep.violated)("R-MPT", fn, "abstime-has-no-interval", "an absolute expiration time is not used as repeat interval",
                                             "" if ok_abs else "a persistent TP_FF_T_ABSTIME timer gets it_interval = the absolute time (a period of about 56 years after the first expiration)")
    (rep.proved if ok else rep.violated)("R-MPT", fn, "interval-iff-periodic",
                                         "the repeat interval is zero iff ONESHOT or DISPATCH is set (or the time is absolute), else equals the value")
    # ABSTIME agreement
    AB = vals["TP_FF_T_ABSTIME"]

    def unlazy(a):
        a = core.strip_casts(a)
        if a is not None and a.get("k") == "lazy" and a["op"] == "?:":
            return a["lz"]
        return a

    def cond_arg(call, idx):
        a = unlazy(call["args"][idx])
        if a.get("k") == "bin" and a["op"] == "|":
            for s_ in (a["x"], a["y"]):
                if unlazy(s_).get("k") == "cond":
                    return unlazy(s_)
        return a if a.get("k") == "cond" else None

    def abst(cnd):
        """returns (value if ABSTIME set, value if clear) of a ?: testing ABSTIME"""
        if cnd is None:
            return None
        atom = [x for x, ps in walk(cnd["c"]) if x.get("k") == "bin" and x["op"] == "&" and AB in (const_val(x["x"]), const_val(x["y"]))]
        if not atom:
            return None
        try:
            t = r_mpt.eval_expr(cnd["c"], {id(atom[0]): AB})
        except r_mpt.Unknown:
            return None
        xs, ys = const_val(cnd["x"]), const_val(cnd["y"])
        return (xs, ys) if t else (ys, xs)
    cr = [c for pos, root, c, ps in fn.calls({"timerfd_create"})]
    st = [c for pos, root, c, ps in fn.calls({"timerfd_settime"}) if const_val(c["args"][1]) is None]
    a1 = abst(cond_arg(cr[0], 0)) if cr else None
    a2 = abst(cond_arg(st[0], 1)) if st else None
    ok = a1 == (vals["CLOCK_REALTIME"], vals["CLOCK_MONOTONIC"]) and a2 == (vals["TFD_TIMER_ABSTIME"], 0)
    (rep.proved if ok else rep.violated)("R-TBL", fn, "abstime-agreement",
                                         "TP_FF_T_ABSTIME selects CLOCK_REALTIME at creation and TFD_TIMER_ABSTIME when arming; otherwise monotonic/relative",
                                         "create %s, settime %s" % (a1, a2))


def fd_pairing(rep, fn):
    """after a successful timerfd_create / pidfd_open every path that returns an error closes the descriptor"""
    n = 0
    for pos, root, c, ps in fn.calls({"timerfd_create", "pidfd_open"}):
        n += 1
        paths = r_path.enum_paths(fn, pos[0], max_paths=20000)
        leaks = []
        for p in paths:
            closed = False
            failed_create = False
            ret = None
            for ev in r_path.events(fn, p):
                if ev[0] == "elem":
                    if ev[1][0] == pos[0] and ev[1][1] < pos[1]:
                        continue
                    for x, _ in walk(ev[2]):
                        if x.get("k") == "call" and x.get("fn") == "close" and key(x["args"][0]) == "tfd":
                            closed = True
                    if ev[2].get("k") == "ret":
                        ret = ev[2]
                else:
                    _, b, cond, truth = ev
                    k = key(core.strip_imp(cond))
                    if k in ("(-(1)==tfd)", "(tfd==-(1))") and truth:
                        failed_create = True
            if ret is None or failed_create:
                continue
            rv = const_val(ret.get("e"))
            if rv == 0:
                continue
            if not closed:
                leaks.append(ret["ln"])
        desc = "%s: every failing path after the descriptor was obtained closes it" % c["fn"]
        if leaks:
            rep.violated("R-PAIR", fn, "close-after-" + c["fn"], desc, "error return(s) at line(s) %s without close(tfd)" % sorted(set(leaks)))
        else:
            rep.proved("R-PAIR", fn, "close-after-" + c["fn"], desc, "%d paths" % len(paths))
    return n


def bitfields(rep, fn):
    ex = {"DIS": "TPDATA_F_DISABLED"}
    def mask_expr(getter):
        # bit b belongs to the field when setting it changes what the getter returns (the getter may be biased: fd + 1)
        return " | ".join("(((%s) != (%s)) ? (1ull << %d) : 0ull)" % (getter % ("(1ull << %d)" % b), getter % "0ull", b) for b in range(64))
    ex["TFD"] = mask_expr("(unsigned)TPDATA_TFD_GET(%s)")
    ex["EV"] = mask_expr("TPDATA_EVENT_GET(%s)")
    for e in range(4):
        ex["FL%d" % e] = mask_expr("TPDATA_FLAGS_GET(%%s, %d)" % e)
    ex["EVLAST"] = "TP_EV_LAST"
    ex["MAPN"] = "sizeof(tp_event_to_ep_map) / sizeof(tp_event_to_ep_map[0])"
    pr = tp.probe(tp.TP_C, ex, "probe:tpdata")
    names = ["TFD", "EV", "FL0", "FL1", "FL2", "FL3", "DIS"]
    for extra in ("TPDATA_F_ADDED", "TPDATA_F_ABSTIME"):          # later additions to the packing: part of the same disjointness claim
        v_ = tp.probe(tp.TP_C, {"X": "IFDEF:" + extra}, "probe:tpdata:" + extra)["X"]
        if v_ is not None:
            pr[extra] = v_
            names.append(extra)
    if any(pr[n] is None for n in names):
        raise driver.AnalysisBroken("tpdata field probes not constant: %s" % pr)
    bad = []
    for i, a in enumerate(names):
        for b in names[i + 1:]:
            if pr[a] & pr[b]:
                bad.append("%s&%s" % (a, b))
    (rep.proved if not bad else rep.violated)("R-CFGX", fn, "tpdata-fields-disjoint",
                                              "descriptor, event, per-event flags and the DISABLED bit occupy disjoint bits of tpdata",
                                              ", ".join("%s=0x%x" % (n, pr[n]) for n in names) if not bad else "overlap: %s" % bad)
    (rep.proved if pr["EVLAST"] < pr["MAPN"] else rep.violated)("R-CFGX", fn, "event-map-size",
                                                                "tp_event_to_ep_map has an entry for every event kind",
                                                                "TP_EV_LAST=%s entries=%s" % (pr["EVLAST"], pr["MAPN"]))
    ev_bits = bin(pr["EV"]).count("1")
    (rep.proved if pr["EVLAST"] < (1 << ev_bits) else rep.violated)("R-CFGX", fn, "event-field-width", "the event field can hold every event kind")


def epoll_masks(rep, u, vals):
    """epoll(7): EPOLLHUP and EPOLLERR are always reported, EPOLLRDHUP (the peer closed or half-closed its end) only when it
    was requested.  The loop turns hang-up bits into TP_F_EOF, so the interest mask of a read registration must request every
    optional bit the EOF test looks at, and the EOF test must cover both hang-up kinds (Linux ABI values)."""
    fn = tp.need(u, "tpt_loop")
    EPOLLIN, EPOLLOUT, EPOLLERR, EPOLLHUP, EPOLLRDHUP = 0x1, 0x4, 0x8, 0x10, 0x2000
    g = u.globals.get("tp_event_to_ep_map")
    if g is None:
        raise driver.AnalysisBroken("anchor tp_event_to_ep_map vanished")
    m = [int(x) for x in core.global_value(u, g)]
    rd, wr = m[vals["TP_EV_READ"]], m[vals["TP_EV_WRITE"]]
    eof = vals["EPOLL_HUP"]
    always = EPOLLHUP | EPOLLERR
    desc = "a read registration requests every hang-up bit that is reported only on request and that the loop maps to TP_F_EOF"
    miss = eof & ~always & ~rd
    (rep.violated if miss else rep.proved)("R-TBL", fn, "eof-bits-requested", desc,
                                           ("bit(s) 0x%x (EPOLLRDHUP) are tested for TP_F_EOF but never requested by the TP_EV_READ entry 0x%x: "
                                            "a half-closed peer is reported without TP_F_EOF" % (miss, rd)) if miss else "EOF test 0x%x, read interest 0x%x" % (eof, rd))
    desc = "the EOF test covers hang-up and peer-closed (EPOLLHUP | EPOLLRDHUP); read interest has EPOLLIN, write interest EPOLLOUT and not EPOLLIN"
    ok = (eof & (EPOLLHUP | EPOLLRDHUP)) == (EPOLLHUP | EPOLLRDHUP) and rd & EPOLLIN and not rd & EPOLLOUT and wr & EPOLLOUT and not wr & EPOLLIN
    (rep.proved if ok else rep.violated)("R-TBL", fn, "epoll-interest", desc, "EOF test 0x%x, read 0x%x, write 0x%x" % (eof, rd, wr))


def add_or_modify(rep, u):
    """epoll_ctl_ex makes an "add or modify" guess recover: ADD that fails with EEXIST is retried as MOD, MOD that fails with
    ENOENT is retried as ADD.  Evaluated over operation x first result x second result: the function returns 0 exactly when the
    descriptor ended up registered (first call succeeded, or the recoverable error occurred and the retry succeeded); a stale
    error after a successful retry makes the caller forget an event that is armed."""
    from rules import r_stride
    fn = u.fn("epoll_ctl_ex")
    if fn is None or not fn.has_cfg:
        raise driver.AnalysisBroken("anchor epoll_ctl_ex vanished")
    rep.functions.add(fn.name)
    ADD, DEL, MOD = 1, 2, 3
    EEXIST, ENOENT, EBADF = 17, 2, 9
    pn = [p["n"] for p in fn.params]
    calls = {}
    for pos, root, c, ps in fn.calls({"epoll_ctl"}):
        calls.setdefault(const_val(c["args"][1]), []).append(key(c))
    n = 0
    bad = undec = None
    for op, err1, ok2 in [(o, e, k) for o in (ADD, MOD, DEL) for e in (0, EEXIST, ENOENT, EBADF) for k in (True, False)]:
        other = {ADD: MOD, MOD: ADD}.get(op)
        pe = r_stride.PE(u)
        bind = {pn[0]: 5, pn[1]: op, pn[2]: 7, pn[3]: 0x1000, "*(__errno_location())": err1 if err1 else 0}
        for k_ in calls.get(op, []):
            bind[k_] = 0 if err1 == 0 else -1
        # the retry uses the other operation; its errno (when it fails) is EBADF
        for k_ in calls.get(other, []):
            bind[k_] = 0 if ok2 else -1
        outs = {v for v, s_ in pe.outcomes(fn, bind, 0)}
        n += 1
        recover = {ADD: EEXIST, MOD: ENOENT}.get(op)
        registered = err1 == 0 or (recover is not None and err1 == recover and ok2)
        what = "%s: first call %s, retry %s" % ({ADD: "ADD", MOD: "MOD", DEL: "DEL"}[op], "succeeds" if err1 == 0 else "fails with errno %d" % err1,
                                               "succeeds" if ok2 else "fails")
        if None in outs:
            undec = undec or "%s: result not computable" % what
        elif registered and outs != {0}:
            bad = bad or "%s: the descriptor is registered but %s is returned" % (what, sorted(outs))
        elif not registered and 0 in outs:
            bad = bad or "%s: 0 is returned although nothing was registered" % what
    desc = "epoll_ctl_ex returns 0 exactly when the descriptor ended up registered (operation x first result x retry result)"
    (rep.violated if bad else rep.undecided if undec else rep.proved)("R-PATH", fn, "add-or-modify", desc, bad or undec or "%d combinations" % n)
    return n


def record_widths(rep, u):
    """the fields of the event record travel through helper parameters of the same width: a parameter named after a
    tp_event_t field has that field's integer type width, and no call narrows such a value implicitly"""
    rc = None
    for r in u.records.values():
        if {"event", "flags", "fflags", "data"} <= {f["n"] for f in r.get("fields", [])}:
            rc = r
    if rc is None:
        raise driver.AnalysisBroken("event record (event, flags, fflags, data) not found")
    fw = {f["n"]: u.type(f["t"]) for f in rc["fields"] if u.type(f["t"])["k"] == "int"}
    n = 0
    for fn in u.function_list:
        if fn.relfile() != tp.TP_C:
            continue
        if not any(c.get("fn") in ("tpt_ev_post", "tpt_ev_post_validate", "tpt_ev_post_validate_args", "tpt_ev_validate") for _, _, c, _ in fn.calls()) \
                and fn.name not in ("tpt_ev_post_validate_args",):
            continue
        for p in fn.params:
            t = u.type(p["t"])
            if p["n"] in fw and t["k"] == "int":
                n += 1
                rep.functions.add(fn.name)
                desc = "parameter '%s' of %s carries tp_event_t.%s without loss" % (p["n"], fn.name, p["n"])
                if t.get("w") == fw[p["n"]].get("w"):
                    rep.proved("R-WIDTH", fn, "param:" + p["n"], desc, "%s (%d bits)" % (t["s"], t["w"]))
                else:
                    rep.violated("R-WIDTH", fn, "param:" + p["n"], desc, "declared %s (%d bits), the field is %s (%d bits): values >= 2^%d are "
                                 "truncated on the way to tpt_ev_post" % (t["s"], t["w"], fw[p["n"]]["s"], fw[p["n"]]["w"], t["w"]))
        for pos, root, c, ps in fn.calls():
            for i, a in enumerate(c["args"]):
                if a.get("k") == "cast" and a.get("imp") and a.get("ck") == "IntegralCast" and "t" in a and "t" in a["e"]:
                    td, ts = u.type(a["t"]), u.type(a["e"]["t"])
                    src = core.strip_casts(a["e"])
                    nm = src.get("n") if src.get("k") == "ref" else (src.get("f") if src.get("k") == "mem" else None)
                    if nm in fw and td["k"] == "int" and ts["k"] == "int" and td.get("w", 0) < ts.get("w", 0):
                        n += 1
                        rep.violated("R-WIDTH", fn, "arg:%s->%s#%d" % (nm, c.get("fn"), i), "'%s' is passed on without narrowing" % nm,
                                     "implicitly converted from %s to %s in the call of %s" % (ts["s"], td["s"], c.get("fn")), c.get("ln"))
    return n


def run(rep, tier):
    us = tp.units((tp.TP_C,))
    rep.use_units(us)
    u = us[tp.TP_C]
    names = ["TP_EV_READ", "TP_EV_WRITE", "TP_EV_TIMER", "TP_EV_PROC", "TP_F_ONESHOT", "TP_F_DISPATCH", "TP_F_S_MASK",
             "TP_F_EOF", "TP_F_ERROR", "TP_FF_RW_LOWAT", "TP_FF_RW_MASK", "TP_FF_T_SEC", "TP_FF_T_MSEC", "TP_FF_T_USEC",
             "TP_FF_T_NSEC", "TP_FF_T_TM_MASK", "TP_FF_T_ABSTIME", "TP_FF_T_MASK", "TP_FF_P_EXIT", "TP_FF_P_MASK",
             "TPDATA_F_DISABLED", "EPOLL_HUP", "EPOLLERR", "EPOLLONESHOT", "CLOCK_REALTIME", "CLOCK_MONOTONIC", "TFD_TIMER_ABSTIME"]
    vals = tp.probe(tp.TP_C, {n: n for n in names}, "probe:tpconst")
    opt = tp.probe(tp.TP_C, {"TP_F_EDGE": "IFDEF:TP_F_EDGE", "TP_F_EXCLUSIVE": "IFDEF:TP_F_EXCLUSIVE"}, "probe:tpopt")
    vals.update({k: v for k, v in opt.items() if v is not None})
    if any(vals[n] is None for n in names):
        raise driver.AnalysisBroken("constant probes failed: %s" % [n for n in names if vals[n] is None])
    fp = tp.need(u, "tpt_ev_post")
    rep.functions.add(fp.name)
    n = unit_rule(rep, fp, vals)
    rep.floor("timer unit cases", n, 4)
    who_may_call(rep, u)
    validator(rep, u, vals)
    loop_rules(rep, u, vals)
    timer_programming(rep, fp, vals)
    nf = fd_pairing(rep, fp)
    rep.floor("descriptor creation sites", nf, 2)
    bitfields(rep, fp)
    epoll_masks(rep, u, vals)
    rep.floor("add-or-modify combinations", add_or_modify(rep, u), 20)
    rep.floor("event-record parameters", record_widths(rep, u), 8)
    from props import c06_audit
    fl_ = tp.need(u, "tpt_loop")
    c06_audit.timer_flags_fresh_rule(rep, fp)
    rep.floor("timerfd reads in the loop", c06_audit.timer_read_rule(rep, fl_), 1)
    rep.floor("epoll changes of a record's identifier", c06_audit.epoll_owner_rule(rep, u), 3)
    c06_audit.clock_rule(rep, fp, vals)
    rep.floor("read/write removal sites", c06_audit.rw_kind_rule(rep, fp, vals), 1)
    rep.floor("refusal obligations", c06_audit.refuse_rule(rep, u, vals, opt), 5)
    rep.floor("closes of pool-created descriptors", c06_audit.close_after_del_rule(rep, u), 5)
    rep.floor("tpdata marks and disabled stores", c06_audit.tpdata_bookkeeping_rule(rep, fp, fl_, vals), 3)
    rep.floor("thread stores in the add entry points", c06_audit.add_target_rule(rep, u), 1)
    rep.floor("refusable adds", c06_audit.refused_add_rule(rep, u), 1)
    rep.floor("live records re-added", c06_audit.live_record_rule(rep, u), 1)
    c06_audit.live_record_moved_rule(rep, u)
    ctl = tp.probe(tp.TP_C, {"TP_CTL_ADD": "TP_CTL_ADD"}, "probe:tpctl")
    if ctl.get("TP_CTL_ADD") is None:
        raise driver.AnalysisBroken("TP_CTL_ADD not foldable")
    vals2 = dict(vals)
    vals2.update(ctl)
    rep.floor("other-kind adds on a live record", c06_audit.other_kind_rule(rep, u, vals2), 6)
    rep.floor("descriptor-based ENOENT exits", c06_audit.tfd_kind_rule(rep, fp), 3)
    c06_audit.tpdata_snapshot_rule(rep, fl_)
    c06_audit.stale_errno_rule(rep, fl_)
    return driver.finish(
        rep, "other",
        "Static analysis of the Linux (epoll) branch of threadpool.c; the BSD/kqueue branch is not compiled here and is NOT "
        "analysed. Decided: timer unit conversion constants coherent for all four units; registrations reach tpt_ev_post only "
        "after tpt_ev_validate returned 0; validator exhaustive over event kinds, masks equal the defined flags, foreign bits and "
        "ONESHOT+DISPATCH refused; programmed value definitely assigned; DISABLED gate, one-shot forget, dispatch mark, EOF/ERROR "
        "flag stores dominate the callback; interval zero iff one-shot/dispatch; ABSTIME/clock agreement; descriptors closed on "
        "failing paths; tpdata bit fields disjoint; the read interest mask requests every on-request hang-up bit the loop maps to TP_F_EOF. NOT decided: firing behaviour over registration histories.",
        ["epoll/timerfd semantics as documented", "constants evaluated by the compiler with the real build flags (probe unit)"], TRUSTED)
