"""C01 rules that came out of the audit round (replays/C01-hunt): each decides a structural necessary condition of
"returns exactly the mathematical result or an explicit error" for one family of big_num.h routines.

  R-PARITY   digit-by-digit square root: the start bit is a power of FOUR (even exponent)
  R-TRUNC    a truncating in-place operation does not hand its upper bound to bn_update_digits__int (which never shrinks)
  R-FLUSH    a nibble/byte accumulator that is flushed inside the scan loop is looked at again after the loop
  R-CARRYOUT an addition into the caller's object (or an equal-capacity copy of it) observes the carry out
  R-SHIFTRNG a caller-chosen bit count is range-tested against the number's own length before the digit shifter sees it
  R-REMHI    the high remainder digit of a division by one digit is 0 on every success path that is straight-line
  R-DOMAIN   binary modular inverse: odd modulus test, and the gcd != 1 exit inside the main loop
  R-REDUCED  modular power: every success return has passed a reducing operation
"""
from rules import driver, core, r_range, r_mpt
from rules.core import key, const_val, walk

BN_H = "include/math/big_num.h"


def _assigns(fn, name):
    """(pos, rhs) of plain assignments / initialisers of the local or parameter `name`"""
    out = []
    for pos, root, x, ps in fn.nodes():
        if x.get("k") == "bin" and x["op"] == "=" and core.is_ref(core.strip_casts(x["x"]), name=name):
            out.append((pos, x["y"]))
        elif x.get("k") == "decl":
            for v in x["vars"]:
                if v["n"] == name and "init" in v:
                    out.append((pos, v["init"]))
    return out


# ------------------------------------------------------------------------------------------------ R-PARITY

def _parity(fn, e, depth=0):
    """abstract parity of an unsigned expression: 0 even, 1 odd, None unknown.  BN_DIGIT_BITS is 8..128, always even."""
    e = core.strip_casts(e)
    cv = const_val(e)
    if cv is not None:
        return cv & 1
    k = e.get("k")
    if k == "bin":
        op = e["op"]
        if op == "&":
            for side in ("x", "y"):
                m = const_val(core.strip_casts(e[side]))
                if m is None and core.strip_casts(e[side]).get("k") == "un" and core.strip_casts(e[side])["op"] == "~":
                    inner = const_val(core.strip_casts(core.strip_casts(e[side])["e"]))
                    if inner is not None and inner & 1:
                        return 0
                if m is not None and not (m & 1):
                    return 0
            a, b = _parity(fn, e["x"], depth), _parity(fn, e["y"], depth)
            if a == 0 or b == 0:
                return 0
            return 1 if a == 1 and b == 1 else None
        a, b = _parity(fn, e["x"], depth), _parity(fn, e["y"], depth)
        if op == "*":
            if a == 0 or b == 0:
                return 0
            return 1 if a == 1 and b == 1 else None
        if op in ("+", "-"):
            return None if a is None or b is None else (a ^ b)
        if op == "<<":
            sv = const_val(core.strip_casts(e["y"]))
            return 0 if sv else None
        return None
    if k == "ref" and depth < 4:
        ds = _assigns(fn, e["n"])
        ps = {_parity(fn, d, depth + 1) for _p, d in ds}
        # compound updates (x &= ~1) narrow it
        for pos, root, x, _ in fn.nodes():
            if x.get("k") == "bin" and x["op"] == "&=" and core.is_ref(core.strip_casts(x["x"]), name=e["n"]):
                y = core.strip_casts(x["y"])
                m = const_val(y)
                if m is None and y.get("k") == "un" and y["op"] == "~":
                    inner = const_val(core.strip_casts(y["e"]))
                    m = None if inner is None else ~inner
                if m is not None and not (m & 1):
                    return 0
        if len(ps) == 1:
            return ps.pop()
    return None


def sqrt_parity_rule(rep, u):
    """Digit-by-digit square root: `bit` runs over the powers of four (it is stepped down by two bit positions) and the
    recurrence is only valid from the highest power of FOUR not above the operand.  The exponent the start value is built
    from must be even for every operand; `bits - clz` is the bit length - odd for half of all operands, and then the
    routine returns success with a wrong root (sqrt(25) = 6)."""
    n = 0
    for fn in u.function_list:
        if fn.relfile() != BN_H or not fn.has_cfg or not fn.name.startswith("bn_sqrt") or fn.name in ("bn_sqrt4",):
            continue
        # the variable stepped by 2: bn_r_shift(&V, 2) on a bn local, or `v -= 2` on a scalar
        stepped = []
        for pos, root, c, ps in fn.calls({"bn_r_shift"}):
            if const_val(core.strip_casts(c["args"][1])) == 2:
                r = core.base_ref(c["args"][0])
                if r is not None:
                    stepped.append(("bn", r["n"]))
        for pos, root, x, ps in fn.nodes():
            st = core.step_of(x)
            if st is not None and st[1] == -2:
                stepped.append(("int", key(core.strip_casts(st[0]))))
        for kind, name in sorted(set(stepped)):
            starts = []
            if kind == "bn":
                for pos, root, c, ps in fn.calls({"bn_assign_2exp", "bn_bit_set"}):
                    r = core.base_ref(c["args"][0])
                    if r is not None and r["n"] == name and c["fn"] == "bn_assign_2exp":
                        starts.append((pos, c["args"][1], c.get("ln")))
            else:
                starts = [(pos, {"k": "ref", "n": name}, d.get("ln")) for pos, d in _assigns(fn, name)][:1]
            for pos, e, ln in starts:
                n += 1
                rep.functions.add(fn.name)
                desc = "%s: the start exponent of '%s' (stepped down two bit positions per round) is even for every operand" % (fn.name, name)
                par = _parity(fn, e)
                if par == 0:
                    rep.proved("R-PARITY", fn, "start-exponent:%s" % name, desc, "%s is even" % key(e)[:80], ln)
                else:
                    rep.violated("R-PARITY", fn, "start-exponent:%s" % name, desc,
                                 "%s is not even for every operand (parity %s): from an odd exponent the start value is 2*4^k and the "
                                 "recurrence returns success with a wrong root - sqrt(1) = 0, sqrt(25) = 6" % (key(e)[:80], "odd" if par else "unknown"), ln)
    return n


# ------------------------------------------------------------------------------------------------ R-TRUNC

def truncating_update_rule(rep, fn):
    """bn_update_digits__int(X, d) never shrinks: for d < X->digits it recounts from the OLD length.  A caller whose d is
    MIN(X->digits, ...) - an upper bound of a result that can be shorter than the destination's previous value - leaves
    the previous value's high digits in the result unless it resets X->digits (or stores the count itself)."""
    n = 0
    for pos, root, c, ps in fn.calls({"bn_update_digits__int"}):
        obj = core.base_ref(c["args"][0])
        if obj is None:
            continue
        n += 1
        d = core.strip_casts(c["args"][1])
        exprs = [d]
        if d.get("k") == "ref":
            exprs = [core.strip_casts(e) for _p, e in _assigns(fn, d["n"])]
        own = "%s->digits" % obj["n"]
        shrink = None
        for e in exprs:
            e0 = e.get("lz") if e.get("k") == "lazy" and e.get("lz") is not None else e
            if e0.get("k") == "cond":
                arms = (key(core.strip_casts(e0["x"])), key(core.strip_casts(e0["y"])))
                cnd = core.strip_casts(e0["c"])
                if own in arms and cnd.get("k") == "bin" and cnd["op"] in ("<", "<=", ">", ">="):
                    other = arms[1] if arms[0] == own else arms[0]
                    # which arm is chosen when own is the smaller one?
                    l, r = key(core.strip_casts(cnd["x"])), key(core.strip_casts(cnd["y"]))
                    lt = cnd["op"] in ("<", "<=")
                    small_first = (l if lt else r)
                    chosen_when_true = arms[0]
                    is_min = (chosen_when_true == small_first)
                    if is_min and "count" not in other:
                        shrink = "MIN(%s, %s)" % (own, other)
        inst = "update-digits:%s" % obj["n"]
        desc = "%s: the length handed to bn_update_digits__int(%s, ...) is not a truncation bound the callee would ignore" % (fn.name, obj["n"])
        if shrink is None:
            rep.proved("R-TRUNC", fn, inst, desc, "length %s: not below the previous length by construction, or recount wanted" % key(d)[:60], c.get("ln"))
            continue
        reset = False
        for p2, r2, x, _ in fn.nodes():
            if x.get("k") == "bin" and x["op"] == "=" and key(core.strip_casts(x["x"])) == own and fn.pos_dominates(p2, pos):
                reset = True
        if reset:
            rep.proved("R-TRUNC", fn, inst, desc, "%s is stored before the call" % own, c.get("ln"))
        else:
            rep.violated("R-TRUNC", fn, inst, desc, "the length is %s, never above the previous length: the callee recounts from the OLD length and the "
                         "previous value's digits above the bound stay in the result (0x7_..05_..03_..ff AND 0x0f = 0x7_..05_0_..0f)" % shrink, c.get("ln"))
    return n


# ------------------------------------------------------------------------------------------------ R-FLUSH

def pending_accumulator_rule(rep, fn):
    """A scan loop that collects sub-units (nibbles) in a counter, emits a unit when the counter reaches its threshold and
    resets the counter to 0: when the input ends between two emissions the counter is not 0 and a sub-unit is pending.
    After the loop a test of the counter must dominate every success return - otherwise the pending nibble is dropped
    silently ("123" imports as 0x23)."""
    n = 0
    loops = fn.loops()
    for h, body in loops.items():
        # counters: a local incremented in the body and assigned 0 in the body
        incs, zeros = {}, {}
        for pos, root, x, ps in fn.nodes():
            if pos[0] not in body:
                continue
            st = core.step_of(x)
            if st is not None and st[1] == 1 and core.strip_casts(st[0]).get("k") == "ref":
                incs[core.strip_casts(st[0])["n"]] = pos
            if x.get("k") == "bin" and x["op"] == "=" and const_val(core.strip_casts(x["y"])) == 0 and core.strip_casts(x["x"]).get("k") == "ref" \
                    and not fn.is_cond_root(pos):
                zeros[core.strip_casts(x["x"])["n"]] = pos
        for name in sorted(set(incs) & set(zeros)):
            # increment, then a threshold test of the counter, then the reset - in that order within one round
            if not fn.pos_dominates(incs[name], zeros[name]):
                continue
            thr = False
            for b in body:
                c = fn.blocks[b].cond
                if c is not None and any(nn.get("k") == "ref" and nn["n"] == name for nn, _ in walk(c)) and \
                        fn.dominates(incs[name][0], b) and fn.dominates(b, zeros[name][0]) and b != zeros[name][0]:
                    thr = True
            if not thr:
                continue
            n += 1
            rep.functions.add(fn.name)
            exits = {s for b in body for s in fn.blocks[b].rsucc() if s not in body}
            after = fn.reach_from(exits, avoid=body)
            tests = [b for b in after if fn.blocks[b].cond is not None and
                     any(nn.get("k") == "ref" and nn["n"] == name for nn, _ in walk(fn.blocks[b].cond))]
            succ = [pos for pos in r_mpt.success_returns(fn) if pos[0] in after]
            desc = "%s: the sub-unit counter '%s' is tested after the scan loop on every way to a success return" % (fn.name, name)
            ok = bool(succ) and all(any(fn.dominates(t, p[0]) for t in tests) for p in succ)
            if ok:
                rep.proved("R-FLUSH", fn, "pending:%s" % name, desc, "%d success return(s) dominated by a test of '%s'" % (len(succ), name))
            else:
                rep.violated("R-FLUSH", fn, "pending:%s" % name, desc, "no test of '%s' between the loop and the success return: an odd number of hex digits "
                             "loses the pending nibble and success is reported (\"123\" -> 0x23)" % name)
    return n


# ------------------------------------------------------------------------------------------------ R-CARRYOUT

CARRY_EXEMPT = {
    ("bn_mod_sqrt", "tm"): "m + 1 wraps only for m = 2^capacity - 1, which is divisible by 255 for every digit width: never the odd prime the routine is defined for",
}
CARRY_OUT_OF_SCOPE = {}     # (bn_mod_div_mont was listed here until the third audit pass showed the dropped carry through bn + m)


def carry_out_rule(rep, fn):
    """bn_add(X, ., carry) / bn_add_digit(X, ., carry) wrap modulo 2^capacity and say so only through `carry`.  Where X is
    the caller's object (a bn_p parameter) or a local made with bn_assign_init() from one (same capacity) the capacity
    can be fully used, so the carry is observed - a non-NULL argument that is read afterwards - unless
      * the addition is the repayment half of a compare/add/subtract triple (X < N tested, X += M, X -= N: the two wraps
        cancel exactly), or
      * X was reduced by bn_mod() immediately before and 1 is added (X < modulus <= 2^capacity - 1)."""
    if fn.name in CARRY_OUT_OF_SCOPE or not fn.has_cfg:
        return 0
    parms = {p["n"] for p in fn.params}
    same_cap = set(parms)
    for pos, root, c, ps in fn.calls({"bn_assign_init"}):
        d0, s0 = core.base_ref(c["args"][0]), core.base_ref(c["args"][1])
        if d0 is not None and s0 is not None and s0["n"] in parms:
            same_cap.add(d0["n"])
    n = 0
    k = 0
    for pos, root, c, ps in fn.calls({"bn_add", "bn_add_digit"}):
        dst = core.base_ref(c["args"][0])
        if dst is None or dst["n"] not in same_cap:
            continue
        # a destination of pointer type only: bn_p parameter or address of a local copy
        n += 1
        k += 1
        rep.functions.add(fn.name)
        inst = "carry-out#%d:%s" % (k, dst["n"])
        desc = "%s: %s(%s, ...) on the caller's capacity observes the carry out" % (fn.name, c["fn"], dst["n"])
        carg = core.strip_casts(c["args"][2])
        if const_val(carg) != 0:
            # &crr: read afterwards?
            r = core.base_ref(carg)
            read = False
            if r is not None:
                for p2, r2, x, ps2 in fn.nodes():
                    if x.get("k") == "ref" and x["n"] == r["n"] and p2 != pos and not fn.pos_dominates(p2, pos):
                        # not the address-of in another call argument
                        if not (ps2 and ps2[-1].get("k") == "un" and ps2[-1]["op"] == "&"):
                            read = True
            if r is not None and r["n"] in parms:
                read = True                                   # handed on to the caller
            if read:
                rep.proved("R-CARRYOUT", fn, inst, desc, "carry stored in '%s' and read" % (r["n"] if r else key(carg)), c.get("ln"))
            else:
                rep.violated("R-CARRYOUT", fn, inst, desc, "carry stored but never read", c.get("ln"))
            continue
        if (fn.name, dst["n"]) in CARRY_EXEMPT:
            rep.proved("R-CARRYOUT", fn, inst, desc, "tabled: " + CARRY_EXEMPT[(fn.name, dst["n"])], c.get("ln"))
            continue
        # NULL carry: repayment triple?
        repaid = None
        blk = pos[0]
        for bid, cnd, atom in r_range.guards_for(fn, pos, dst["n"]):
            for y, _ in walk(cnd):
                if y.get("k") == "call" and y.get("fn") == "bn_cmp":
                    a0, a1 = core.base_ref(y["args"][0]), core.base_ref(y["args"][1])
                    if a0 is not None and a1 is not None and a0["n"] == dst["n"]:
                        for p3, r3, c3, _ in fn.calls({"bn_sub"}):
                            d3, s3 = core.base_ref(c3["args"][0]), core.base_ref(c3["args"][1])
                            if d3 is not None and s3 is not None and d3["n"] == dst["n"] and s3["n"] == a1["n"] and \
                                    p3[0] in fn.reach_from([pos[0]]) and \
                                    all(fn.pos_dominates(p3, sp) for sp in r_mpt.success_returns(fn) if sp[0] in fn.reach_from([pos[0]])):
                                repaid = "under %s, followed by bn_sub(%s, %s): the two wraps cancel" % (key(y)[:40], dst["n"], a1["n"])
        if repaid:
            rep.proved("R-CARRYOUT", fn, inst, desc, repaid, c.get("ln"))
            continue
        if c["fn"] == "bn_add_digit" and const_val(core.strip_casts(c["args"][1])) == 1:
            mods = [p3 for p3, r3, c3, _ in fn.calls({"bn_mod"}) if core.base_ref(c3["args"][0]) is not None and
                    core.base_ref(c3["args"][0])["n"] == dst["n"] and fn.pos_dominates(p3, pos)]
            if mods:
                rep.proved("R-CARRYOUT", fn, inst, desc, "after bn_mod(%s, .): below a modulus that fits, so + 1 fits" % dst["n"], c.get("ln"))
                continue
        rep.violated("R-CARRYOUT", fn, inst, desc, "NULL carry: with the capacity fully used the sum wraps and success is reported - "
                     "bn_mult_digit(0x8000000000000001, 2) = 2, bn_mod_add(p-1, p-1, p) unreduced, NAF of 2^256-1 = {-1}", c.get("ln"))
    return n


# ------------------------------------------------------------------------------------------------ R-SHIFTRNG

def shift_range_rule(rep, fn):
    """bn_digits_l_shift / bn_digits_r_shift compute `count * BN_DIGIT_SIZE - bits / 8` as a size: a bit count above the
    length wraps it (memmove of (size_t)-1 bytes).  A routine that forwards its own caller's bit count unchanged must
    test it against the length it passes, and leave, before the call."""
    n = 0
    parms = {p["n"] for p in fn.params}
    for pos, root, c, ps in fn.calls({"bn_digits_l_shift", "bn_digits_r_shift"}):
        b = core.strip_casts(c["args"][2])
        if not (b.get("k") == "ref" and b["n"] in parms):
            continue
        n += 1
        rep.functions.add(fn.name)
        desc = "%s: the caller's bit count '%s' is range-tested against the number's length before %s" % (fn.name, b["n"], c["fn"])
        ok = None
        for bid, cnd, atom in r_range.guards_for(fn, pos, b["n"]):
            has_len = any(y.get("k") == "mem" and y.get("f") in ("count", "digits") for y, _ in walk(cnd))
            rel = any(y.get("k") == "bin" and y["op"] in ("<", "<=", ">", ">=") and
                      any(z.get("k") == "ref" and z["n"] == b["n"] for z, _ in walk(y)) for y, _ in walk(cnd))
            if has_len and rel and any(pos[0] not in fn.reach_from([s_]) for s_ in fn.blocks[bid].rsucc()):
                ok = key(cnd)[:80]                           # one outcome leaves before the call
        # no write to the parameter between
        if ok:
            rep.proved("R-SHIFTRNG", fn, "shift-range:%s" % c["fn"], desc, "guard %s" % ok, c.get("ln"))
        else:
            rep.violated("R-SHIFTRNG", fn, "shift-range:%s" % c["fn"], desc, "no dominating test relates '%s' to ->digits / ->count: "
                         "bn_r_shift(5, 72) calls memmove with size (size_t)-1" % b["n"], c.get("ln"))
    return n


# ------------------------------------------------------------------------------------------------ R-REMHI

def remainder_hi_rule(rep, fn):
    """division of a two-digit value by ONE digit: the remainder is below the divisor, so its high digit is 0.  Every
    store to *remainder_hi on a success path is the constant 0, the high half of a `% divisor` result, or the working
    register of the restoring-division loop (not re-derived here) - never a function of the dividend's high digit computed
    without the divisor."""
    if fn.name != "bn_digit_div__int" or not fn.has_cfg:
        return 0
    n = 0
    succ_blocks = {p[0] for p in r_mpt.success_returns(fn)}
    loops = fn.loops()
    inloop = set().union(*loops.values()) if loops else set()
    for pos, root, x, ps in fn.nodes():
        if not (x.get("k") == "bin" and x["op"] == "="):
            continue
        l = core.strip_casts(x["x"])
        if not (l.get("k") == "un" and l["op"] == "*" and core.is_ref(core.strip_casts(l["e"]), name="remainder_hi")):
            continue
        if not any(fn.dominates(pos[0], sb) or pos[0] == sb for sb in succ_blocks):
            continue                                     # an error return
        n += 1
        rep.functions.add(fn.name)
        v = core.strip_casts(x["y"])
        inst = "remainder-hi@%s" % ("loop" if any(fn.dominates(b, pos[0]) for b in loops) else "line")
        desc = "%s: the high remainder digit stored on a success path is 0 (remainder < one-digit divisor)" % fn.name
        if const_val(v) == 0:
            rep.proved("R-REMHI", fn, inst, desc, "constant 0", x.get("ln"))
            continue
        if v.get("k") == "bin" and v["op"] == ">>":
            src = core.strip_casts(v["x"])
            if src.get("k") == "ref" and any(core.strip_casts(d).get("k") == "bin" and core.strip_casts(d)["op"] == "%" for _p, d in _assigns(fn, src["n"])):
                rep.proved("R-REMHI", fn, inst, desc, "high half of a %% result", x.get("ln"))
                continue
        if v.get("k") == "ref":
            # under a dominating test that it is 0, or assigned 0, or after the division loop
            g = [1 for bid, cnd, atom in r_range.guards_for(fn, pos, v["n"])]
            after_loop = any(fn.dominates(h, pos[0]) and pos[0] not in body for h, body in loops.items())
            if after_loop:
                rep.proved("R-REMHI", fn, inst, desc, "working register after the restoring-division loop (loop invariant trusted)", x.get("ln"))
                continue
            if g:
                rep.proved("R-REMHI", fn, inst, desc, "'%s' under a dominating test of it" % v["n"], x.get("ln"))
                continue
        rep.violated("R-REMHI", fn, inst, desc, "stores %s: a function of the dividend's high digit that is not 0 for 3:0 / 4 "
                     "(the double-width build returns 0)" % key(v)[:80], x.get("ln"))
    return n


# ------------------------------------------------------------------------------------------------ R-DOMAIN

def mod_inv_domain_rule(rep, u, fname="bn_mod_inv_bin"):
    """binary extended Euclid: (a) x is halved after `if x is odd: x += m` - that is a division by two modulo m only when
    m is odd, so an odd-modulus test must dominate the loop; (b) the main loop runs until u or v is 1, which never
    happens when gcd(bn, m) != 1 - one of them reaches 0 instead, so the body needs a zero exit."""
    fn = u.fn(fname)
    if fn is None or not fn.has_cfg:
        raise driver.AnalysisBroken("anchor %s vanished" % fname)
    rep.functions.add(fname)
    m = fn.params[1]["n"]
    loops = fn.loops()
    main = None
    for h, body in loops.items():
        c = fn.blocks[h].cond
        ones = [b for b in body if fn.blocks[b].cond is not None and any(y.get("k") == "call" and y.get("fn") == "bn_is_one" for y, _ in walk(fn.blocks[b].cond))]
        if ones and (main is None or len(body) > len(main[1])):
            main = (h, body, ones)
    if main is None:
        raise driver.AnalysisBroken("%s: main loop (until u or v is one) not found" % fname)
    h, body, ones = main
    odd = False
    for bid in fn.reachable_blocks():
        c = fn.blocks[bid].cond
        if c is None or bid in body or not fn.dominates(bid, h):
            continue
        for y, _ in walk(c):
            if y.get("k") == "call" and y.get("fn") in ("bn_is_odd", "bn_is_even") and core.base_ref(y["args"][0]) is not None and \
                    core.base_ref(y["args"][0])["n"] == m:
                # one edge leaves the function without reaching the loop
                if any(h not in fn.reach_from([s]) for s in fn.blocks[bid].rsucc()):
                    odd = True
    desc = "%s: the halving steps run only for an odd modulus" % fname
    (rep.proved if odd else rep.violated)("R-DOMAIN", fn, "odd-modulus", desc, "parity test of '%s' dominates the loop" % m if odd else
                                          "no parity test of '%s' before the loop: bn_mod_inv(3, 8) returns success with 1 (3 * 3 = 1 mod 8)" % m)
    tracked = set()
    for b in ones:
        for y, _ in walk(fn.blocks[b].cond):
            if y.get("k") == "call" and y.get("fn") == "bn_is_one":
                r = core.base_ref(y["args"][0])
                if r is not None:
                    tracked.add(r["n"])
    zero_exit = set()
    for b in body:
        c = fn.blocks[b].cond
        if c is None:
            continue
        for y, _ in walk(c):
            if y.get("k") == "call" and y.get("fn") == "bn_is_zero":
                r = core.base_ref(y["args"][0])
                if r is not None and r["n"] in tracked:
                    zero_exit.add(r["n"])
    desc = "%s: the main loop leaves when %s reaches 0 (no inverse)" % (fname, " or ".join(sorted(tracked)))
    if tracked and zero_exit == tracked:
        rep.proved("R-DOMAIN", fn, "no-inverse-exit", desc, "bn_is_zero tests of %s in the loop" % ", ".join(sorted(zero_exit)))
    else:
        rep.violated("R-DOMAIN", fn, "no-inverse-exit", desc, "no zero test of %s inside the loop: bn_mod_inv(3, 9) never returns" %
                     ", ".join(sorted(tracked - zero_exit)))
    return 2


# ------------------------------------------------------------------------------------------------ R-REDUCED

REDUCERS = {"bn_mod", "bn_mod_mult", "bn_mod_square", "bn_mod_exp", "bn_mod_exp_digit", "bn_mod_mult_digit"}   # not bn_assign_digit(bn, 1): 1 mod 1 is 0


def _only_small_cases(fn, b, res, depth=0):
    """block b is entered only through `case 0:` / `case 1:` edges of a switch over res->num[0]"""
    blk = fn.blocks[b]
    lab = blk.label or {}
    if "case" not in lab or lab["case"] not in (0, "0") or depth > 3:           # 0 is reduced for every modulus; 1 is not (m = 1)
        return False
    for p in blk.preds:
        pb = fn.blocks[p]
        c = pb.cond
        if c is not None and pb.term and pb.term["k"] == "SwitchStmt":
            if key(core.strip_casts(c)) != "%s->num[0]" % res:
                return False
        elif not pb.elems and _only_small_cases(fn, p, res, depth + 1):
            continue
        else:
            return False
    return True


def reduced_exit_rule(rep, u, names=("bn_mod_exp", "bn_mod_exp_digit")):
    """x^e mod m: whatever shortcut is taken, the value returned with success is reduced - the path from the entry to every
    success return passes a reducing operation on the result (bn_mod*, or the assignment of the constant 1)."""
    n = 0
    for name in names:
        fn = u.fn(name)
        if fn is None or not fn.has_cfg:
            raise driver.AnalysisBroken("anchor %s vanished" % name)
        rep.functions.add(name)
        res = fn.params[0]["n"]
        red_blocks = set()
        for pos, root, c, ps in fn.calls(REDUCERS):
            r = core.base_ref(c["args"][0])
            if r is not None and r["n"] == res:
                red_blocks.add(pos[0])
        # a loop `for (; 0 != v; ...)` behind a switch over v whose `case 0` arm leaves is entered at least once: its
        # zero-iteration exit edge is not a path
        dead_edges = set()
        for h, body in fn.loops().items():
            c = fn.blocks[h].cond
            c0 = core.strip_casts(c) if c is not None else None
            if c0 is None or not (c0.get("k") == "bin" and c0["op"] == "!=" and len(fn.blocks[h].succ) == 2):
                continue
            a, b = core.strip_casts(c0["x"]), core.strip_casts(c0["y"])
            var = a if const_val(b) == 0 else (b if const_val(a) == 0 else None)
            if var is None or var.get("k") != "ref":
                continue
            for sb in fn.reachable_blocks():
                blk = fn.blocks[sb]
                if blk.term and blk.term["k"] == "SwitchStmt" and blk.cond is not None and key(core.strip_casts(blk.cond)) == var["n"] and fn.dominates(sb, h):
                    zero_arm = [s_ for s_ in blk.rsucc() if (fn.blocks[s_].label or {}).get("case") in (0, "0")]
                    written = any(x.get("k") == "bin" and x["op"].endswith("=") and x["op"] not in ("==", "!=", "<=", ">=") and core.is_ref(core.strip_casts(x["x"]), name=var["n"])
                                  for p_, r_, x, _ in fn.nodes() if fn.dominates(sb, p_[0]) and fn.dominates(p_[0], h) and p_[0] not in body)
                    if zero_arm and not written and all(h not in fn.reach_from([z]) for z in zero_arm):
                        exit_succ = [s_ for s_ in fn.blocks[h].rsucc() if s_ not in body]
                        for e_ in exit_succ:
                            dead_edges.add((h, e_))
        free = set()
        st_ = [fn.entry]
        while st_:
            b_ = st_.pop()
            if b_ in free or b_ in red_blocks:
                continue
            free.add(b_)
            for s_ in fn.blocks[b_].rsucc():
                if (b_, s_) not in dead_edges:
                    st_.append(s_)
        for pos in r_mpt.success_returns(fn):
            r = fn.blocks[pos[0]].elems[pos[1]]
            n += 1
            inst = "reduced-exit@%d" % n
            desc = "%s: the success return at line %s is reached only through a reducing operation on '%s'" % (name, r.get("ln"), res)
            if pos[0] in free and _only_small_cases(fn, pos[0], res):
                rep.proved("R-REDUCED", fn, inst, desc, "reached only when '%s' is 0: reduced for every modulus" % res, r.get("ln"))
            elif pos[0] in free:
                rep.violated("R-REDUCED", fn, inst, desc, "reachable from the entry without any of %s: bn_mod_exp(10, 1, 7) returns 10" %
                             "/".join(sorted(REDUCERS))[:90], r.get("ln"))
            else:
                rep.proved("R-REDUCED", fn, inst, desc, "every path passes a reducer", r.get("ln"))
    return n


def capacity_vs_length_rule(rep, fn):
    """a routine that must hold a value below the modulus needs room for the modulus' LENGTH (m->digits); comparing its
    capacity with the CAPACITY of the modulus object (m->count) refuses small moduli kept in large objects - and
    bn_mod_sqrt then reads the refusal as "no root" """
    n = 0
    for bid in fn.reachable_blocks():
        cnd = fn.blocks[bid].cond
        if cnd is None:
            continue
        for y, _ in walk(cnd):
            if y.get("k") == "bin" and y["op"] in ("<", ">", "<=", ">="):
                a, b = core.strip_casts(y["x"]), core.strip_casts(y["y"])
                if a.get("k") == "mem" and b.get("k") == "mem" and a["f"] == "count" and b["f"] in ("count", "digits") and \
                        core.base_ref(a) is not None and core.base_ref(b) is not None and core.base_ref(a)["n"] != core.base_ref(b)["n"] and \
                        core.base_ref(b).get("dk") == "parm" and core.base_ref(a).get("dk") == "parm":
                    n += 1
                    rep.functions.add(fn.name)
                    desc = "%s: the room test compares the destination's capacity with the other operand's length, not with the capacity of its object" % fn.name
                    if b["f"] == "count":
                        rep.violated("R-CAPLEN", fn, "capacity-vs-length", desc, "%s: m = 17 kept in a 2048-bit object makes bn_mod_exp answer EOVERFLOW; bn_mod_sqrt(2, 17) "
                                     "then returns 'no root' although 6*6 = 2 (mod 17)" % key(y)[:60], y.get("ln"))
                    else:
                        rep.proved("R-CAPLEN", fn, "capacity-vs-length", desc, key(y)[:60], y.get("ln"))
    return n


def tristate_status_rule(rep, fn, callee="bn_mod_legendre"):
    """bn_mod_legendre answers -1 / 0 / 1 or an error code (> 1): a caller that only asks `-1 != result` takes an error for
    'residue' """
    n = 0
    for pos, root, c, ps in fn.calls({callee}):
        n += 1
        rep.functions.add(fn.name)
        ids = core.result_locals(fn, {callee})
        ranged = False
        for bid in fn.reachable_blocks():
            cnd = fn.blocks[bid].cond
            if cnd is None:
                continue
            for y, _ in walk(cnd):
                if y.get("k") == "bin" and y["op"] in ("<", ">", "<=", ">=") and any(z.get("k") == "ref" and z.get("id") in ids for z, _ in walk(y)):
                    ranged = True
        direct = any(p.get("k") == "bin" and p["op"] in ("==", "!=") for p in ps)
        desc = "%s: the result of %s is range-tested, so that an error is not read as a residue class" % (fn.name, callee)
        if ranged and not direct:
            rep.proved("R-ERR", fn, "tristate-status#%d" % n, desc, "", c.get("ln"))
        else:
            rep.violated("R-ERR", fn, "tristate-status#%d" % n, desc, "compared with -1 only: EOVERFLOW from the power routine counts as 'residue' and the search gives up with 'no root'", c.get("ln"))
    return n


def capacity_kept_rule(rep, fn):
    """bn_assign_init() gives its destination the capacity of the source: applied to the caller's result object it silently
    changes the declared capacity (gcd into a 64-bit object returns 201 bits; into a 2048-bit one shrinks it to 128)"""
    if not fn.has_cfg:
        return 0
    parms = {p["n"] for p in fn.params}
    alias = set()
    for pos, root, x, ps in fn.nodes():
        if x.get("k") == "decl":
            for v in x["vars"]:
                if "init" in v and core.strip_casts(v["init"]).get("k") == "ref" and core.strip_casts(v["init"])["n"] in parms:
                    alias.add(v["n"])
    n = 0
    for pos, root, c, ps in fn.calls({"bn_assign_init", "bn_init"}):
        a0 = core.strip_casts(c["args"][0])
        n += 1
        if a0.get("k") == "ref" and (a0["n"] in alias or (a0["n"] in parms and a0.get("dk") == "parm")):
            rep.functions.add(fn.name)
            rep.violated("R-CAPKEEP", fn, "capacity-kept#%d" % n, "%s: the capacity of a caller's object is not re-declared" % fn.name,
                         "%s(%s, ...) re-declares the caller's object with the source's capacity: gcd(2^200, 3*2^201) into a 64-bit object returns 0 with 201 bits" % (c["fn"], a0["n"]), c.get("ln"))
    return n


def no_inverse_exit_rule(rep, u, names=("bn_mod_inv1", "bn_mod_inv2", "bn_mod_div_mont")):
    n = 0
    for name in names:
        fn = u.fn(name)
        if fn is None or not fn.has_cfg:
            continue
        n += 1
        rep.functions.add(name)
        loops = fn.loops()
        inloop = set().union(*loops.values()) if loops else set()
        ok = False
        for bid in fn.reachable_blocks():
            cnd = fn.blocks[bid].cond
            if cnd is None or bid in inloop:
                continue
            if any(y.get("k") == "call" and y.get("fn") == "bn_is_one" for y, _ in walk(cnd)) and \
                    any(const_val(r.get("e")) not in (None, 0) and fn.dominates(bid, p[0]) for p, r in fn.returns()):
                ok = True
        desc = "%s: after the Euclid loop the gcd is tested to be 1 before success is reported" % name
        (rep.proved if ok else rep.violated)("R-DOMAIN", fn, "gcd-is-one", desc, "" if ok else "no test: inverse of 6 modulo 15 returns 0 with 13 (6 * 13 = 3 mod 15)")
    return n


# ------------------------------------------------------------------------------------------------ R-TOPDIGIT (third pass)
# functions whose operands may legally have no digits at all (value 0) and that look at "the top digit" num[digits - 1]
TOP_DIGIT_ZERO_OK = {"bn_sub": "0 - 0 is a legal call (ec_point_proj_add_mix with a zero coordinate reaches it through bn_mod_sub)",
                     "bn_clz": "the leading-zero count of 0 is the capacity (bn_sqrt3/4/5 ask for it); gcc -O0 and clang return capacity + one digit"}


def top_digit_rule(rep, fn):
    """num[digits - 1] is read only where digits == 0 is excluded (index -1 reads the word in front of the array)"""
    from rules import r_range
    if fn.name not in TOP_DIGIT_ZERO_OK:
        return 0
    n = 0
    for pos, root, x, ps in fn.nodes():
        if x.get("k") != "sub":
            continue
        i = core.strip_casts(x["i"])
        if not (i.get("k") == "bin" and i["op"] == "-" and const_val(i["y"]) == 1):
            continue
        v = core.strip_casts(i["x"])
        if not (core.is_ref(v) or v.get("k") == "mem"):
            continue
        n += 1
        rep.functions.add(fn.name)
        ok, why = r_range.excludes_zero(fn, pos, v)
        desc = "%s: %s is read only when %s != 0" % (fn.name, key(x)[:40], key(v))
        (rep.proved if ok else rep.violated)("R-TOPDIGIT", fn, "top-digit-needs-a-digit:%s" % key(x)[:40], desc, why if ok else
                                             "with both operands 0 the index is -1 (UBSan: index 18446744073709551615 out of bounds for type 'bn_digit_t[22]'); %s" % TOP_DIGIT_ZERO_OK[fn.name], x.get("ln"))
    return n


# ------------------------------------------------------------------------------------------------ third pass (replays/C01-hunt3)

def halving_odd_modulus_rule(rep, u, fname="bn_mod_div_mont", midx=2):
    """the Montgomery-style division halves x after `x is odd: x += m`: a division by two modulo m only for odd m.  A parity
    test of the modulus with a leaving edge dominates the loop (its sibling bn_mod_inv_bin got the test in 3eba9ba)."""
    fn = u.fn(fname)
    if fn is None or not fn.has_cfg:
        raise driver.AnalysisBroken("anchor %s vanished" % fname)
    rep.functions.add(fname)
    m = fn.params[midx]["n"]
    loops = fn.loops()
    heads = [h for h, body in loops.items() if any(c.get("fn") == "bn_r_shift" for b in body for e in fn.blocks[b].elems for c, _ in walk(e) if c.get("k") == "call")]
    if not heads:
        raise driver.AnalysisBroken("%s: halving loop not found" % fname)
    h = max(heads, key=lambda x: len(loops[x]))
    odd = False
    for bid in fn.reachable_blocks():
        c = fn.blocks[bid].cond
        if c is None or bid in loops[h] or not fn.dominates(bid, h):
            continue
        for y, _ in walk(c):
            if y.get("k") == "call" and y.get("fn") in ("bn_is_odd", "bn_is_even") and core.base_ref(y["args"][0]) is not None and core.base_ref(y["args"][0])["n"] == m:
                if any(h not in fn.reach_from([s]) for s in fn.blocks[bid].rsucc()):
                    odd = True
    desc = "%s: the halving steps run only for an odd modulus" % fname
    (rep.proved if odd else rep.violated)("R-DOMAIN", fn, "odd-modulus", desc, "parity test of '%s' dominates the loop" % m if odd else
                                          "no parity test of '%s' before the loop: bn_mod_inv_mont(3, 4) returns success with 2 (3 * 2 = 2 mod 4); 370 coprime pairs with even m <= 64 fail" % m)
    return 1


def zero_modulus_loop_rule(rep, u, names=("bn_mod_small",)):
    """a reduce-by-subtraction loop `while (bn >= m) bn -= m` terminates only for m != 0: a zero test of the modulus with a
    leaving edge dominates the loop"""
    n = 0
    for fname in names:
        fn = u.fn(fname)
        if fn is None or not fn.has_cfg:
            raise driver.AnalysisBroken("anchor %s vanished" % fname)
        rep.functions.add(fname)
        m = fn.params[1]["n"]
        for h, body in fn.loops().items():
            subs = [c for b in body for e in fn.blocks[b].elems for c, _ in walk(e) if c.get("k") == "call" and c.get("fn") == "bn_sub" and
                    core.base_ref(c["args"][1]) is not None and core.base_ref(c["args"][1])["n"] == m]
            if not subs:
                continue
            n += 1
            ok = False
            for bid in fn.reachable_blocks():
                c = fn.blocks[bid].cond
                if c is None or bid in body or not fn.dominates(bid, h):
                    continue
                for y, _ in walk(c):
                    zt = (y.get("k") == "call" and y.get("fn") == "bn_is_zero" and core.base_ref(y["args"][0]) is not None and core.base_ref(y["args"][0])["n"] == m) or \
                         (y.get("k") == "mem" and y["f"] == "digits" and core.base_ref(y) is not None and core.base_ref(y)["n"] == m)
                    if zt and any(h not in fn.reach_from([s]) for s in fn.blocks[bid].rsucc()):
                        ok = True
            desc = "%s: the subtract-until-smaller loop is entered only for a modulus != 0" % fname
            (rep.proved if ok else rep.violated)("R-DOMAIN", fn, "nonzero-modulus", desc, "" if ok else
                                                 "%s(5, 0): bn_cmp(bn, 0) >= 0 is always true and bn_sub(bn, 0) changes nothing - the call never returns" % fname)
    return n


# in/out routines that compute in a wide temporary (confirmed by reading; the untabled form of the rule alarmed on routines
# whose first parameter is input only - bn_calc_naf, bn_calc_jsf, bn_mod_legendre - or is also computed in place)
COPY_BACK = {"bn_mod_div_mont": "u: bn + m does not fit the caller's object when both are full"}


def copy_back_rule(rep, fn):
    """a routine that copies its in/out operand into a temporary and computes there hands the result back: when the temporary
    T was made from the first parameter P (bn_assign / bn_assign_init), T is written by later calls and P is written by none
    of them, every success return is dominated by bn_assign(P, &T) (or an equivalent call that writes P from T)"""
    if not fn.has_cfg or not fn.params or fn.name not in COPY_BACK:
        return 0
    P = fn.params[0]
    temps = {}
    for pos, root, c, ps in fn.calls({"bn_assign", "bn_assign_init"}):
        d0, s0 = core.base_ref(c["args"][0]), core.base_ref(c["args"][1])
        if d0 is not None and s0 is not None and s0.get("id") == P["id"] and d0.get("dk") == "local":
            temps[d0["id"]] = (d0["n"], pos)
    if not temps:
        return 0
    writes_p = []
    writes_t = {t: [] for t in temps}
    back = {t: [] for t in temps}
    for pos, root, c, ps in fn.calls():
        if not (c.get("fn") or "").startswith("bn_") or not c.get("args"):
            continue
        d0 = core.base_ref(c["args"][0])
        if d0 is None:
            continue
        srcs = set()
        for a in c["args"][1:]:
            b = core.base_ref(a)
            if b is not None:
                srcs.add(b.get("id"))
        if d0.get("id") == P["id"]:
            hit = [t for t in temps if t in srcs]
            if hit and c["fn"] in ("bn_assign", "bn_assign_init"):
                for t in hit:
                    back[t].append(pos)
            elif c["fn"] not in ("bn_cmp", "bn_is_zero", "bn_is_one", "bn_is_even", "bn_is_odd", "bn_calc_bits", "bn_is_bit_set", "bn_cmp_digit"):
                writes_p.append(pos)
        elif d0.get("id") in temps and pos != temps[d0["id"]][1] and c["fn"] not in ("bn_cmp", "bn_is_zero", "bn_is_one", "bn_is_even", "bn_is_odd", "bn_calc_bits", "bn_is_bit_set", "bn_cmp_digit", "bn_init"):
            writes_t[d0["id"]].append(pos)
    n = 0
    for t, (tn, tpos) in temps.items():
        if not COPY_BACK[fn.name].startswith(tn + ":"):
            continue
        later_p = [w for w in writes_p if fn.pos_dominates(tpos, w)]
        if not writes_t[t] or later_p:
            continue                                       # the temporary is only read, or the operand itself is (also) computed in place
        n += 1
        rep.functions.add(fn.name)
        succ = [sp for sp in r_mpt.success_returns(fn) if sp[0] in fn.reach_from([tpos[0]]) and any(sp[0] in fn.reach_from([w[0]]) or sp[0] == w[0] for w in writes_t[t])]
        ok = bool(back[t]) and all(any(fn.pos_dominates(b_, sp) for b_ in back[t]) for sp in succ)
        desc = "%s: the result computed in the temporary %s is copied back to %s before every success return" % (fn.name, tn, P["n"])
        (rep.proved if ok else rep.violated)("R-COPYBACK", fn, "result-copied-back:%s" % tn, desc, "" if ok else
                                             "success is returned with %s left as it came in: the whole computation happened in %s" % (P["n"], tn))
    return n



def reduce_zero_modulus_rule(rep, u, fname="bn_mod_reduce"):
    """bn = (bn mod (m - 1)) + 1 has no meaning for m = 0: m - 1 wraps to 2^capacity - 1 and the call succeeds with a value that
    depends on the capacity of the object m happens to live in; a zero test of m with a leaving edge precedes the decrement"""
    fn = u.fn(fname)
    if fn is None or not fn.has_cfg:
        raise driver.AnalysisBroken("anchor %s vanished" % fname)
    rep.functions.add(fname)
    m = fn.params[1]["n"]
    dec = [pos for pos, root, c, ps in fn.calls({"bn_sub_digit"})]
    if not dec:
        raise driver.AnalysisBroken("%s: the decrement of the modulus not found" % fname)
    ok = False
    for bid in fn.reachable_blocks():
        c = fn.blocks[bid].cond
        if c is None or dec[0][0] not in fn.reach_from([bid]):
            continue
        for y, _ in walk(c):
            if y.get("k") == "call" and y.get("fn") == "bn_is_zero" and core.base_ref(y["args"][0]) is not None and core.base_ref(y["args"][0])["n"] == m and \
                    any(dec[0][0] not in fn.reach_from([s_]) and dec[0][0] != s_ for s_ in fn.blocks[bid].rsucc()):
                ok = True
    desc = "%s: a zero modulus is refused before m - 1 is formed" % fname
    (rep.proved if ok else rep.violated)("R-DOMAIN", fn, "nonzero-modulus", desc, "" if ok else
                                         "bn_mod_reduce(x, 0) returns 0 with (x mod (2^capacity(m) - 1)) + 1: a different value for m = 0 held in a one-digit and in a two-digit object")
    return 1
