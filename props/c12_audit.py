"""C12 rules from the second audit pass (replays/C12-hunt2).

  R-UACC      (shared with C14) the hexadecimal parsers, like the decimal ones, accumulate the magnitude and apply the sign in
              unsigned arithmetic (a left shift into the sign bit and the negation of the type minimum are undefined)
  R-NEEDSIZE  a Base64 routine with a size out-parameter stores the size it needs on every "buffer too small" return
  R-CAP0      a returned "capacity - 1" (the truncated length) is never computed for capacity 0
"""
from rules import driver, core, r_range
from rules.core import key, const_val, walk


def _walk(c):
    for y, ps in walk(c):
        yield y, ps
        if y.get("k") == "lazy" and y.get("lz") is not None:
            for r in _walk(y["lz"]):
                yield r


def need_size_rule(rep, u, hdr="include/utils/base64.h", code="ENOBUFS"):
    n = 0
    for fn in u.function_list:
        if fn.relfile() != hdr or not fn.has_cfg:
            continue
        outs = [p for p in fn.params if u.tstr(p["t"]).replace(" ", "") in ("size_t*", "size_t*const")]
        if not outs:
            continue
        oids = {p["id"] for p in outs}
        stores = []
        for pos, root, x, ps in fn.nodes():
            if x.get("k") == "bin" and x["op"] == "=":
                l = core.strip_casts(x["x"])
                if l.get("k") == "un" and l["op"] == "*" and core.ref_ids(l) & oids:
                    stores.append(pos)
        for rpos, root in fn.returns():
            val = root.get("e")
            if val is None or code not in core.macros(val):
                continue
            n += 1
            rep.functions.add(fn.name)
            ok = False
            for s_ in stores:
                if fn.pos_dominates(s_, rpos):
                    ok = True
                    break
                # the guarded form: if (NULL != out) { *out = need; }  whose test dominates the return
                preds = [b for b in fn.reachable_blocks() if s_[0] in fn.blocks[b].rsucc()]
                if len(preds) == 1 and fn.blocks[preds[0]].cond is not None and core.ref_ids(fn.blocks[preds[0]].cond) & oids and fn.dominates(preds[0], rpos[0]) \
                   and rpos[0] not in fn.reach_from([x for x in fn.blocks[preds[0]].rsucc() if x != s_[0]], avoid=[s_[0]]) - fn.reach_from([s_[0]]):
                    ok = True
                    break
            desc = "%s: the %s return at line %s is preceded by a store of the needed size" % (fn.name, code, root.get("ln"))
            (rep.proved if ok else rep.violated)("R-NEEDSIZE", fn, "needed-size-stored@%s" % _ordinal(fn, rpos, code), desc, "" if ok else
                                                 "the caller gets %s and an unwritten size: base64_decode_fmt(\"YQ==\", 4, dst, 3, &n) leaves n uninitialised, and no capacity "
                                                 "below the input length is ever reported as sufficient or insufficient by how much" % code, root.get("ln"))
    return n


def _ordinal(fn, rpos, code):
    k = 0
    for r, root in sorted(fn.returns(), key=lambda t: t[0]):
        val = root.get("e")
        if val is not None and code in core.macros(val):
            k += 1
            if r == rpos:
                return k
    return 0


def cap0_rule(rep, u, files):
    """return (cap - c) with cap an unsigned parameter: cap < c must not reach it"""
    n = 0
    for fn in u.function_list:
        if fn.relfile() not in files or not fn.has_cfg:
            continue
        pids = {p["id"]: p for p in fn.params if (u.type(p["t"]) or {}).get("k") == "int" and not u.type(p["t"]).get("sg")}
        for rpos, root in fn.returns():
            val = root.get("e")
            if val is None:
                continue
            for y, ps in _walk(val):
                if y.get("k") == "bin" and y["op"] == "-" and const_val(y["y"]) not in (None, 0):
                    l = core.strip_casts(y["x"])
                    if not (core.is_ref(l) and l.get("id") in pids):
                        continue
                    n += 1
                    rep.functions.add(fn.name)
                    # guarded inside the same expression (?: on the parameter) or by a dominating branch
                    inexpr = any(p_.get("k") == "cond" and l.get("id") in core.ref_ids(p_["c"]) for p_ in ps)
                    ok, why = (True, "guarded in the expression") if inexpr else r_range.excludes_zero(fn, rpos, l)
                    desc = "%s: the returned %s is not computed for %s = 0" % (fn.name, key(y), key(l))
                    (rep.proved if ok else rep.violated)("R-CAP0", fn, "capacity-minus-one:%s" % key(l), desc, why if ok else
                                                         "with capacity 0 the function reports SIZE_MAX characters written: `off += fmt_as_uptime(&ut, buf + off, cap - off)` wraps the caller's offset", y.get("ln"))
    return n
