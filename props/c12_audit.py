"""C12 rules from the second audit pass (replays/C12-hunt2).

  R-UACC      (shared with C14) the hexadecimal parsers, like the decimal ones, accumulate the magnitude and apply the sign in
              unsigned arithmetic (a left shift into the sign bit and the negation of the type minimum are undefined)
  R-NEEDSIZE  a Base64 routine with a size out-parameter stores the size it needs on every "buffer too small" return
  R-CAP0      a returned "capacity - 1" (the truncated length) is never computed for capacity 0
"""
from rules import driver, core, r_range
from rules.core import key, const_val, walk


def _walk(c):
    for y, ps in walk(c):
        yield y, ps
        if y.get("k") == "lazy" and y.get("lz") is not None:
            for r in _walk(y["lz"]):
                yield r


def need_size_rule(rep, u, hdr="include/utils/base64.h", code="ENOBUFS"):
    n = 0
    for fn in u.function_list:
        if fn.relfile() != hdr or not fn.has_cfg:
            continue
        outs = [p for p in fn.params if u.tstr(p["t"]).replace(" ", "") in ("size_t*", "size_t*const")]
        if not outs:
            continue
        oids = {p["id"] for p in outs}
        stores = []
        for pos, root, x, ps in fn.nodes():
            if x.get("k") == "bin" and x["op"] == "=":
                l = core.strip_casts(x["x"])
                if l.get("k") == "un" and l["op"] == "*" and core.ref_ids(l) & oids:
                    stores.append(pos)
        for rpos, root in fn.returns():
            val = root.get("e")
            if val is None or code not in core.macros(val):
                continue
            n += 1
            rep.functions.add(fn.name)
            ok = False
            for s_ in stores:
                if fn.pos_dominates(s_, rpos):
                    ok = True
                    break
                # the guarded form: if (NULL != out) { *out = need; }  whose test dominates the return
                preds = [b for b in fn.reachable_blocks() if s_[0] in fn.blocks[b].rsucc()]
                if len(preds) == 1 and fn.blocks[preds[0]].cond is not None and core.ref_ids(fn.blocks[preds[0]].cond) & oids and fn.dominates(preds[0], rpos[0]) \
                   and rpos[0] not in fn.reach_from([x for x in fn.blocks[preds[0]].rsucc() if x != s_[0]], avoid=[s_[0]]) - fn.reach_from([s_[0]]):
                    ok = True
                    break
            desc = "%s: the %s return at line %s is preceded by a store of the needed size" % (fn.name, code, root.get("ln"))
            (rep.proved if ok else rep.violated)("R-NEEDSIZE", fn, "needed-size-stored@%s" % _ordinal(fn, rpos, code), desc, "" if ok else
                                                 "the caller gets %s and an unwritten size: base64_decode_fmt(\"YQ==\", 4, dst, 3, &n) leaves n uninitialised, and no capacity "
                                                 "below the input length is ever reported as sufficient or insufficient by how much" % code, root.get("ln"))
    return n


def _ordinal(fn, rpos, code):
    k = 0
    for r, root in sorted(fn.returns(), key=lambda t: t[0]):
        val = root.get("e")
        if val is not None and code in core.macros(val):
            k += 1
            if r == rpos:
                return k
    return 0


def cap0_rule(rep, u, files):
    """return (cap - c) with cap an unsigned parameter: cap < c must not reach it"""
    n = 0
    for fn in u.function_list:
        if fn.relfile() not in files or not fn.has_cfg:
            continue
        pids = {p["id"]: p for p in fn.params if (u.type(p["t"]) or {}).get("k") == "int" and not u.type(p["t"]).get("sg")}
        for rpos, root in fn.returns():
            val = root.get("e")
            if val is None:
                continue
            for y, ps in _walk(val):
                if y.get("k") == "bin" and y["op"] == "-" and const_val(y["y"]) not in (None, 0):
                    l = core.strip_casts(y["x"])
                    if not (core.is_ref(l) and l.get("id") in pids):
                        continue
                    n += 1
                    rep.functions.add(fn.name)
                    # guarded inside the same expression (?: on the parameter) or by a dominating branch
                    inexpr = any(p_.get("k") == "cond" and l.get("id") in core.ref_ids(p_["c"]) for p_ in ps)
                    ok, why = (True, "guarded in the expression") if inexpr else r_range.excludes_zero(fn, rpos, l)
                    desc = "%s: the returned %s is not computed for %s = 0" % (fn.name, key(y), key(l))
                    (rep.proved if ok else rep.violated)("R-CAP0", fn, "capacity-minus-one:%s" % key(l), desc, why if ok else
                                                         "with capacity 0 the function reports SIZE_MAX characters written: `off += fmt_as_uptime(&ut, buf + off, cap - off)` wraps the caller's offset", y.get("ln"))
    return n


# ------------------------------------------------------------------ third pass (replays/C12-hunt3)

def hex2bin_exact_rule(rep, u, fname="cvt_hex2bin"):
    """the capacity the decoder demands is what it writes: separators are skipped by the loop, so they do not count; a refusal
    reports the size with which the retry succeeds (partial evaluation on concrete texts)"""
    from rules import r_stride
    fn = u.fn(fname)
    if fn is None or not fn.has_cfg:
        raise driver.AnalysisBroken("anchor %s vanished" % fname)
    rep.functions.add(fname)
    pn = [p["n"] for p in fn.params]
    n = 0
    for txt in (b"00:1b:21", b"de ad be ef", b"0x7f", b"abcd", b"a"):
        need = sum(1 for c in txt if chr(c) in "0123456789abcdefABCDEF") // 2
        for cap in sorted({max(1, need - 1), max(1, need), need + 1}):
            pe = r_stride.PE(u)
            pe.memory = {0x2000 + i: c for i, c in enumerate(txt)}
            ev, ret = pe.trace(fn, {pn[0]: 0x2000, pn[1]: len(txt), pn[2]: 0, pn[3]: 0x6000, pn[4]: cap, pn[5]: 0x7000}, max_steps=40000)
            got = ev[-1][1].get("*(%s)" % pn[5]) if ev else None
            n += 1
            inst = "hex-capacity[%r into %d]" % (txt.decode(), cap)
            desc = "%s(%r): %d byte(s) are produced; a buffer of %d is %s" % (fname, txt.decode(), need, cap, "enough" if cap >= need else "refused with the needed size")
            if isinstance(ret, str):
                rep.undecided("R-EXACT", fn, inst, desc, ret)
            elif cap >= need:
                (rep.proved if ret == 0 and got == need else rep.violated)("R-EXACT", fn, inst, desc, "returns 0, size %s" % got if ret == 0 and got == need else
                                                                           "returns %s (size %s): the capacity test counts the separators the decoder skips - \"00:1b:21:3c:9d:f8\" does not fit 6 bytes" % (ret, got))
            else:
                (rep.proved if ret != 0 and got == need else rep.violated)("R-EXACT", fn, inst, desc, "returns %s, reports %s" % (ret, got) if ret != 0 and got == need else
                                                                           "returns %s, reported size %s (needed %d)" % (ret, got, need))
    return n


def home_dir_rule(rep, u, fname="user_home_dir_get"):
    """the home directory is copied only into a buffer that holds it (the environment decides its length)"""
    from rules import r_stride
    fn = u.fn(fname)
    if fn is None or not fn.has_cfg:
        raise driver.AnalysisBroken("anchor %s vanished" % fname)
    rep.functions.add(fname)
    pn = [p["n"] for p in fn.params]
    n = 0
    for cap, L in ((31, 32), (32, 32), (0, 1), (1, 1)):
        pe = r_stride.PE(u, call_default={"getenv": 0x9000, "strlen": L})
        ev, ret = pe.trace(fn, {pn[0]: 0x6000, pn[1]: cap, pn[2]: 0x7000})
        copied = any(any(y.get("k") == "call" and "memcpy" in (y.get("fn") or "") for y, _ in walk(e)) for e, b in ev)
        n += 1
        inst = "home-dir[%d into %d]" % (L, cap)
        desc = "%s: a %d byte directory name and a buffer of %d" % (fname, L, cap)
        if isinstance(ret, str):
            rep.undecided("R-CAP0", fn, inst, desc, ret)
        elif cap < L:
            (rep.violated if copied or ret == 0 else rep.proved)("R-CAP0", fn, inst, desc, "the copy runs (status %s): `NULL == buf && buf_size < size` can never refuse a real buffer - "
                                                                 "HOME of 32 characters overflows a 31 byte heap buffer" % ret if copied or ret == 0 else "refused (%s)" % ret)
        else:
            (rep.proved if ret == 0 and copied else rep.violated)("R-CAP0", fn, inst, desc, "copied" if ret == 0 and copied else "status %s" % ret)
    return n


def sysctl_terminator_rule(rep, u, fname="sysctl_str_to_buf"):
    """the terminator after the value read from /proc lies inside the buffer even when the value fills what it was given"""
    from rules import r_stride
    fn = u.fn(fname)
    if fn is None or not fn.has_cfg:
        raise driver.AnalysisBroken("anchor %s vanished" % fname)
    rep.functions.add(fname)
    rd = [c for _p, _r, c, _ps in fn.calls({"read_file_buf"})]
    if len(rd) != 1:
        raise driver.AnalysisBroken("%s: expected one read_file_buf call" % fname)
    n = 0
    for buf_size, descr in ((9, 4), (13, 4), (6, 4)):
        # first trace: find the capacity handed to the reader; second: the file fills it
        cap = None
        for out in (1, None):
            pe = r_stride.PE(u, call_default={"read_file_buf": 0, "snprintf": 24})
            pe.out_default = {"read_file_buf": {4: out if out is not None else cap}}
            pe.memory = {0x6000 + i: 0x41 for i in range(0, 64)}
            bind = {"mib": 0x3000, "mib[0]": 0, "mib[1]": 0, "mib_cnt": 2, "descr": 0x4000, "descr_size": descr, "buf": 0x6000, "buf_size": buf_size, "buf_size_ret": 0x7000}
            ev, ret = pe.trace(fn, bind)
            if out is not None:
                for e, b in ev:
                    for y, _ in walk(e):
                        if y is rd[0]:
                            try:
                                cap = pe.evals(y["args"][3], b, 0)
                                cap = sorted(v for v, s_ in cap)[0] if cap else None
                            except Exception:
                                cap = None
                if not isinstance(cap, int):
                    break
        n += 1
        inst = "terminator-inside[buffer %d, prefix %d]" % (buf_size, descr)
        desc = "%s: a value that fills what the reader was given, buffer %d with a %d byte prefix" % (fname, buf_size, descr)
        if isinstance(ret, str) or not isinstance(cap, int):
            # refused up front (no room for a value) is fine
            if isinstance(ret, int) and ret != 0:
                rep.proved("R-TERMROOM", fn, inst, desc, "refused (%s)" % ret)
            else:
                rep.undecided("R-TERMROOM", fn, inst, desc, "not evaluated (%s, capacity %s)" % (ret, cap))
            continue
        if ret != 0:
            rep.proved("R-TERMROOM", fn, inst, desc, "refused (%s)" % ret)
            continue
        size = ev[-1][1].get("*(buf_size_ret)")
        ok = isinstance(size, int) and size < buf_size
        (rep.proved if ok else rep.violated)("R-TERMROOM", fn, inst, desc, "terminator at index %s" % size if ok else
                                             "the reader gets the whole rest of the buffer (%s bytes) and the terminator is stored at index %s of %d: one byte behind the buffer "
                                             "(sysctl_str_to_buf(.., \"OS: \", 4, malloc(9), 9) with \"Linux\")" % (cap, size, buf_size))
    return n


# ------------------------------------------------------------------ fourth audit (replays/C12-hunt4, replays/C17-hunt4)

def asn_length_octets_rule(rep, u, fname="asn_parse"):
    """long-form length: once the first significant octet is in the accumulator only sizeof(accumulator) - 1 further octets
    fit: the test that refuses longer lengths is true for a remaining count equal to the accumulator size (with 9 octets the
    first one is shifted out and 2^64 + 1 parses as 1)"""
    from rules import r_mpt
    fn = u.fn(fname)
    if fn is None or not fn.has_cfg:
        raise driver.AnalysisBroken("anchor %s vanished" % fname)
    rep.functions.add(fname)
    n = 0
    for bid in fn.reachable_blocks():
        c = fn.blocks[bid].cond
        if c is None:
            continue
        for y, _ in _walk(c):
            if y.get("k") == "bin" and y["op"] in (">", ">=", "<", "<=") and any(z.get("k") == "sizeof" for z, _z in _walk(y)):
                cnt = [z for z, _z in _walk(y) if core.is_ref(z) and z.get("dk") == "local"]
                sz = [const_val(z) for z, _z in _walk(y) if z.get("k") == "sizeof" and const_val(z) is not None]
                if not cnt or not sz:
                    continue
                # only the long-form length test: it leads to EOVERFLOW
                over = [s_ for s_ in fn.blocks[bid].rsucc() if any(e.get("k") == "ret" and "EOVERFLOW" in core.macros(e.get("e") or {}) for e in fn.blocks[s_].elems)]
                if not over:
                    continue
                n += 1
                try:
                    v = r_mpt.eval_expr(c, {id(z): sz[0] for z in cnt})
                except r_mpt.Unknown:
                    rep.undecided("R-LENOCT", fn, "length-octets-fit", "%s: the long-form length test refuses %d further octets" % (fname, sz[0]), "not evaluable")
                    continue
                s_ = fn.blocks[bid].succ[0] if v else fn.blocks[bid].succ[1]
                ok = s_ in over
                desc = "%s: with one significant length octet already accumulated, %d further octets are refused" % (fname, sz[0])
                (rep.proved if ok else rep.violated)("R-LENOCT", fn, "length-octets-fit", desc, key(y)[:40] if ok else
                                                     "%s lets %d more octets through: 04 89 01 00 00 00 00 00 00 00 01 (length 2^64 + 1) parses with data_size 1" % (key(y)[:40], sz[0]), y.get("ln"))
    return n


def record_realloc_rule(rep, u, fname="ini_val_set"):
    """growing a record: (a) the recorded capacity is updated on every way out of the realloc (glibc often grows in place and
    returns the same address; a stale small capacity makes the next, shorter set shrink the block under a value that points
    into it); (b) a value that points into the record is re-derived after the block may have moved"""
    fn = u.fn(fname)
    if fn is None or not fn.has_cfg:
        raise driver.AnalysisBroken("anchor %s vanished" % fname)
    rep.functions.add(fname)
    re_ = [pos for pos, root, c, ps in fn.calls({"realloc"})]
    cps = [pos for pos, root, c, ps in fn.calls({"memcpy", "memmove", "__builtin___memmove_chk", "__builtin___memcpy_chk"}) if
           core.base_ref(c["args"][1]) is not None and core.base_ref(c["args"][1]).get("n") == "val"]
    if not re_ or not cps:
        raise driver.AnalysisBroken("%s: realloc or the value copy not found" % fname)
    n = 0
    for rp in re_:
        n += 1
        caps = {pos[0] for pos, root, x, ps in fn.nodes() if x.get("k") == "bin" and x["op"] == "=" and key(core.strip_casts(x["x"])).endswith("data_allocated_size") and
                (pos[0] in fn.reach_from([rp[0]]) or pos[0] == rp[0])}
        # failure exit of the realloc (returns) is not a way to the copy
        bad = any(cp[0] in fn.reach_from([rp[0]], avoid=caps) for cp in cps) and rp[0] not in caps
        desc = "%s: the capacity of the record is stored on every path from the realloc to the value copy" % fname
        (rep.violated if bad else rep.proved)("R-RECAP", fn, "capacity-follows-realloc", desc,
                                              "when realloc returns the same address the stale capacity stays: a later shorter set reallocs again, shrinks the block and the "
                                              "value (a pointer from ini_val_get into it) is read from the freed tail - heap metadata in the stored value" if bad else "")
        n += 1
        rebased = any(x.get("k") == "bin" and x["op"] == "=" and core.is_ref(core.strip_casts(x["x"]), name="val") and (pos[0] in fn.reach_from([rp[0]]) or pos[0] == rp[0])
                      for pos, root, x, ps in fn.nodes())
        desc = "%s: a value that points into the record is re-derived after the realloc" % fname
        (rep.proved if rebased else rep.violated)("R-RECAP", fn, "aliased-value-rebased", desc, "" if rebased else
                                                  "the record moves and the value is then read through the old pointer: setting a key to bytes of its own record that need more "
                                                  "room is a heap use-after-free read")
    return n
