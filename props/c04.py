"""C04 — hash functions.

Decided clauses:
  * R-WIPE  zeroisation clause completely: md5/sha1/sha2/gost3411_2012 *_final wipe the whole
            context through the volatile memset pointer on every path, as last access
  * R-TS    no use of a context after finalisation (in the headers' own users)
  * R-TBL   constant tables against independently derived values (rules/r_tbl_hash.py)
  * R-BOUND update/final buffer writes bounded
Not decided: digest equality for all messages/chunkings.
"""
import itertools
from rules import driver, core, r_wipe
from rules.core import strip_casts, key
from props import common, fixtures, hashes

TRUSTED = ["clang 14 front end + CFG builder", "tool/lcbfacts.cc", "rules/core.py post-dominators", "python3"]


def wipe_obligations(rep, h, t, u):
    fn = u.fn(t["final"])
    if fn is None:
        raise driver.AnalysisBroken("anchor %s vanished in %s" % (t["final"], u.label))
    rep.functions.add(fn.name)
    obj, mention = r_wipe.param_obj(fn, 0)
    r_wipe.check_wipe(rep, fn, u, "context *%s" % fn.params[0]["n"], obj, mention)
    if not r_wipe.volatile_memset_ptrs(u):
        rep.violated("R-WIPE", fn, "volatile-pointer", "wipe primitive is a volatile function pointer to memset",
                     "no such file-scope pointer in unit")
    else:
        rep.proved("R-WIPE", fn, "volatile-pointer", "wipe primitive is a volatile function pointer to memset",
                   ",".join(sorted(r_wipe.volatile_memset_ptrs(u))))


def lane_rule(rep, u, own_file):
    """block-load macros: a group of vector loads from one block pointer (one macro expansion) reads lanes 0..N-1, each
    once, into distinct destinations in order; groups of sibling macros with the same destinations agree"""
    from rules.core import walk, key, strip_casts, const_val
    n = 0
    for fn in u.function_list:
        if fn.relfile() != own_file or not fn.has_cfg:
            continue
        groups = {}
        for bid in fn.rpo():
            for e in fn.blocks[bid].elems:
                if e.get("k") != "bin" or e["op"] != "=":
                    continue
                rv = strip_casts(e["y"])
                if rv.get("k") != "call" or "load" not in (rv.get("fn") or "") or not (rv.get("fn") or "").startswith("_mm"):
                    continue
                a = strip_casts(rv["args"][0]) if rv["args"] else None
                if a is None or a.get("k") != "un" or a.get("op") != "&":
                    continue
                sub = strip_casts(a["e"])
                if sub.get("k") != "sub" or const_val(sub["i"]) is None:
                    continue
                ms = [m for m in core.macro_chain(e) if "LOAD" in m]
                if not ms:
                    continue
                g = groups.setdefault((ms[0], key(strip_casts(sub["b"])), e.get("ln")), [])
                g.append((key(strip_casts(e["x"])), int(const_val(sub["i"])), rv.get("fn")))
        per = {}
        bydest = {}
        for (macro, base, ln), lanes in sorted(groups.items(), key=str):
            n += 1
            rep.functions.add(fn.name)
            per[macro] = per.get(macro, 0) + 1
            inst = "lanes:%s" % macro + ("" if per[macro] == 1 else "#%d" % per[macro])
            desc = "%s loads lanes 0..%d of %s, each once, into distinct destinations" % (macro, len(lanes) - 1, base)
            idx = [l[1] for l in lanes]
            dst = [l[0] for l in lanes]
            if idx == list(range(len(lanes))) and len(set(dst)) == len(dst):
                rep.proved("R-LANE", fn, inst, desc, "%s <- lanes %s" % (dst, idx), ln)
            else:
                rep.violated("R-LANE", fn, inst, desc, "destinations %s receive lanes %s" % (dst, idx), ln)
            bydest.setdefault(tuple(dst), []).append((macro, idx))
        for dst, lst in bydest.items():
            if len(lst) > 1 and len({tuple(i) for _, i in lst}) > 1:
                rep.violated("R-LANE", fn, "lanes-siblings:%s" % "/".join(m for m, _ in lst), "sibling load macros fill the same destinations from the same lanes",
                             str(lst))
    return n


def mask_width_rule(rep, u, own_file):
    """`wide & ~narrow`: the complement of an unsigned value narrower than the other operand is zero-extended, so the
    mask clears every high bit of the wide operand (lengths >= 2^32 are truncated).  Exact: the implicit widening cast sits
    directly on the `~`."""
    from rules.core import walk, key, strip_casts
    n = 0
    for fn in u.function_list:
        if fn.relfile() != own_file or not fn.has_cfg:
            continue
        per = 0
        for pos, root, x, ps in fn.nodes():
            if x.get("k") != "bin" or x["op"] not in ("&", "&="):
                continue
            for a, b in ((x["x"], x["y"]), (x["y"], x["x"])):
                inner = a
                widened_from = None
                while inner.get("k") == "cast":
                    if inner.get("imp") and inner.get("ck") == "IntegralCast" and "t" in inner and "t" in inner["e"]:
                        td, ts = u.type(inner["t"]), u.type(inner["e"]["t"])
                        if td["k"] == "int" and ts["k"] == "int" and td.get("w", 0) > ts.get("w", 0) and not ts.get("sg"):
                            widened_from = (ts, td)
                    inner = inner["e"]
                if inner.get("k") == "un" and inner.get("op") == "~":
                    n += 1
                    per += 1
                    rep.functions.add(fn.name)
                    inst = "mask:%s#%d" % (key(inner)[:40], per)
                    desc = "the complement mask %s keeps the high bits of the value it is applied to" % key(inner)[:60]
                    other = strip_casts(b)
                    caller_sized = other.get("k") == "ref" and other.get("dk") == "parm"
                    if widened_from is not None and not caller_sized:
                        rep.undecided("R-WIDTH", fn, inst, desc, "complement computed in a narrower type than the masked value %s, which is not a "
                                      "parameter: harmless if that value is known to be small" % key(other)[:40], x.get("ln"))
                    elif widened_from is not None:
                        ts, td = widened_from
                        rep.violated("R-WIDTH", fn, inst, desc, "~ is computed in %s (%d bits) and zero-extended to %s (%d bits): bits %d..%d of "
                                     "the other operand are always cleared" % (ts["s"], ts["w"], td["s"], td["w"], ts["w"], td["w"] - 1), x.get("ln"))
                    else:
                        rep.proved("R-WIDTH", fn, inst, desc, "computed in the width of the masked value", x.get("ln"))
    return n


def block_step_rule(rep, u, own_file):
    """Streebog's compression takes the running bit counter N as an input of every block (K = LPS(h xor N)), so N - and the
    checksum Sigma - must advance once per block *inside* the multi-block loop: an update hoisted out of the loop gives every
    block after the first a stale N.  For each transform_n_* variant: every call that advances the 512-bit counter or the
    checksum lies in the block loop itself (not in an inner loop, not after the loop), on every path of an iteration, and
    the counter advances by the function's own per-block bit count."""
    n = 0
    for fn in u.function_list:
        if fn.relfile() != own_file or not fn.has_cfg or "transform_n_" not in fn.name:
            continue
        loops = fn.loops()
        pptr = {p["n"] for p in fn.params if u.type(p["t"])["k"] == "ptr"}
        blk = None
        for h, body in loops.items():
            c = fn.blocks[h].cond
            c0 = strip_casts(c) if c is not None else None
            if c0 is not None and c0.get("k") == "bin" and c0["op"] in ("<", "!=", "<=") and \
                    {r["n"] for r in core.refs(c0)} <= pptr and len({r["n"] for r in core.refs(c0)}) == 2:
                blk = (h, body)
        upd = [(pos, c) for pos, root, c, ps in fn.calls() if (c.get("fn") or "").endswith("addmod512_digit") or (c.get("fn") or "").endswith("addmod512")]
        if blk is None or not upd:
            if "generic" in fn.name:
                raise driver.AnalysisBroken("%s: block loop or counter update not found" % fn.name)
            continue
        h, body = blk
        latches = [b for b in body if h in fn.blocks[b].rsucc()]
        for pos, c in upd:
            n += 1
            rep.functions.add(fn.name)
            what = "counter N" if c["fn"].endswith("_digit") else "checksum Sigma"
            inst = "block-step:%s:%s" % (c["fn"].split("2012_")[-1], key(strip_casts(c["args"][0]))[:30])
            desc = "%s: the %s advances once per block inside the block loop" % (fn.name, what)
            inner = [hh for hh, bb in loops.items() if hh != h and pos[0] in bb and set(bb) < set(body)]
            if pos[0] not in body:
                rep.violated("R-SPEC", fn, inst, desc, "the update at line %s is outside the block loop: every block after the first of one call is "
                             "compressed with a stale value" % c.get("ln"), c.get("ln"))
            elif inner:
                rep.violated("R-SPEC", fn, inst, desc, "the update at line %s sits in an inner loop" % c.get("ln"), c.get("ln"))
            elif not all(fn.dominates(pos[0], l) for l in latches):
                rep.violated("R-SPEC", fn, inst, desc, "the update at line %s is skipped on some path of an iteration" % c.get("ln"), c.get("ln"))
            elif c["fn"].endswith("_digit") and not (strip_casts(c["args"][1]).get("k") == "ref" and strip_casts(c["args"][1]).get("dk") == "parm"):
                rep.violated("R-SPEC", fn, inst, desc, "the counter advances by %s instead of the per-block bit count parameter" % key(c["args"][1])[:60], c.get("ln"))
            else:
                rep.proved("R-SPEC", fn, inst, desc, "line %s, in the loop at line %s" % (c.get("ln"), (fn.blocks[h].term or {}).get("ln")), c.get("ln"))
    return n


def bulk_advance_rule(rep, u, own_file):
    """update(): the whole blocks of the caller's data are compressed in place: transform(ctx, ..., p, p + E), and the cursor then
    moves on: p += E'.  The two extents are the same expression - otherwise blocks are compressed twice or bytes behind the
    caller's data are read."""
    n = 0
    for fn in u.function_list:
        if fn.relfile() != own_file or not fn.has_cfg or not fn.name.endswith("_update") or "hmac" in fn.name:
            continue
        for bid in fn.reachable_blocks():
            elems = fn.blocks[bid].elems
            for i, e in enumerate(elems):
                calls = [x for x, ps in core.walk(e) if x.get("k") == "call" and "transform" in (x.get("fn") or "")]
                for c in calls:
                    ptrs = [a for a in c["args"] if "t" in a and u.type(a["t"])["k"] == "ptr"]
                    if len(ptrs) < 3:
                        continue
                    p_, q_ = strip_casts(ptrs[-2]), strip_casts(ptrs[-1])
                    if p_.get("k") != "ref" or not (q_.get("k") == "bin" and q_["op"] == "+" and key(strip_casts(q_["x"])) == key(p_)):
                        continue
                    ext = strip_casts(q_["y"])
                    adv = None
                    for e2 in elems[i + 1:]:
                        if e2.get("k") == "bin" and e2["op"] == "+=" and key(strip_casts(e2["x"])) == key(p_):
                            adv = e2
                            break
                    if adv is None:
                        continue
                    n += 1
                    rep.functions.add(fn.name)
                    inst = "bulk-advance:%s" % c["fn"]
                    desc = "%s: the extent handed to %s and the advance of '%s' that follows are the same expression" % (fn.name, c["fn"], key(p_))
                    if key(ext) == key(strip_casts(adv["y"])):
                        rep.proved("R-AGREE", fn, inst, desc, key(ext)[:60], c.get("ln"))
                    else:
                        rep.violated("R-AGREE", fn, inst, desc, "blocks up to %s + %s are compressed but the cursor advances by %s" % (
                            key(p_), key(ext)[:50], key(strip_casts(adv["y"]))[:50]), c.get("ln"))
    return n


def loop_save_rule(rep, u, own_file):
    """block loops of the compression functions keep a copy of the chaining state for the feed-forward ("save current hash"):
    S = V with V updated in the loop and S read in the loop.  The copy is taken inside the loop, once per block - taken once
    before the loop, every block after the first adds the state at entry instead of the state after the previous block."""
    n = 0
    for fn in u.function_list:
        if fn.relfile() != own_file or not fn.has_cfg or "transform" not in fn.name:
            continue
        loops = fn.loops()
        pptr = {p["n"] for p in fn.params if u.type(p["t"])["k"] == "ptr"}
        blk = None
        for h, body in loops.items():
            c = fn.blocks[h].cond
            c0 = strip_casts(c) if c is not None else None
            if c0 is not None and c0.get("k") == "bin" and c0["op"] in ("<", "!=", "<=") and \
                    {r["n"] for r in core.refs(c0)} <= pptr and len({r["n"] for r in core.refs(c0)}) == 2:
                blk = (h, set(body))
        if blk is None:
            continue
        h, body = blk
        written_in_loop = set()
        read_in_loop = set()
        copies = []
        for pos, root, x, ps in fn.nodes():
            if x.get("k") == "bin" and x["op"].endswith("=") and x["op"] not in ("==", "!=", "<=", ">="):
                l = strip_casts(x["x"])
                if l.get("k") == "ref" and l.get("dk") == "local":
                    if pos[0] in body:
                        written_in_loop.add(l["id"])
                    r = strip_casts(x["y"])
                    if x["op"] == "=" and r.get("k") == "ref" and r.get("dk") == "local":
                        copies.append((pos, x, l, r))
            if x.get("k") == "ref" and x.get("dk") == "local" and pos[0] in body:
                is_lhs = ps and ps[-1].get("k") == "bin" and ps[-1]["op"] == "=" and strip_casts(ps[-1]["x"]) is x
                if not is_lhs:
                    read_in_loop.add(x["id"])
        for pos, x, l, r in copies:
            if r["id"] not in written_in_loop or l["id"] not in read_in_loop:
                continue
            others = [p2 for p2, x2, l2, r2 in copies if l2["id"] == l["id"]]
            n += 1
            rep.functions.add(fn.name)
            inst = "loop-save:%s=%s" % (l["n"], r["n"])
            desc = "%s: the copy %s = %s of the chaining state used by the feed-forward is taken inside the block loop" % (fn.name, l["n"], r["n"])
            if pos[0] in body:
                rep.proved("R-SPEC", fn, inst, desc, "line %s" % x.get("ln"), x.get("ln"))
            else:
                rep.violated("R-SPEC", fn, inst, desc, "the copy at line %s is taken before the loop while %s changes in every iteration: from the second "
                             "block of one call on, the feed-forward uses the state at entry" % (x.get("ln"), r["n"]), x.get("ln"))
    return n


def update_coverage(rep, u, h, t):
    """update(ctx, data, size), traced for every class of (bytes already buffered, size): each input byte is consumed exactly
    once and in order - either copied to the context buffer (inside it) or compressed in place in whole blocks -, the
    buffer is compressed exactly when it is full, in-place compression happens only with an empty buffer, and the bytes
    left in the buffer afterwards are (buffered + size) mod block.  This is the structural half of "however split"."""
    from rules import r_stride, r_mpt
    fn = u.fn(t["update"])
    if fn is None or not fn.has_cfg:
        raise driver.AnalysisBroken("anchor %s vanished" % t["update"])
    rep.functions.add(fn.name)
    BLK = t["blk"] if h != "sha2" else None
    rec = None
    pt = u.type(fn.params[0]["t"])
    rec = u.records.get(u.type(pt["to"]).get("rec")) if pt["k"] == "ptr" else None
    if rec is None:
        raise driver.AnalysisBroken("%s: context record not found" % fn.name)
    boff = [f["off"] // 8 for f in rec["fields"] if f["n"] == "buffer"]
    if not boff:
        raise driver.AnalysisBroken("%s: context has no buffer field" % fn.name)
    CTX, DATA = 0x100000, 0x400000
    BUF = CTX + boff[0]
    cn, dn, sn = [p["n"] for p in fn.params[:3]]
    usage_key = "%s->buffer_usage" % cn if any(f["n"] == "buffer_usage" for f in rec["fields"]) else "%s->count" % cn
    transforms = {c.get("fn") for _, _, c, _ in fn.calls() if "transform" in (c.get("fn") or "")}
    n = 0
    bad = undec = None
    for blk in ([BLK] if BLK else [64, 128]):
        for usage in (0, 1, blk // 2, blk - 1):
            sizes = sorted({1, blk - usage - 1, blk - usage, blk - usage + 1, blk, blk + 1, 2 * blk + 5, 3 * blk - usage, 2 * blk - usage + 7} - {0})
            for size in [x for x in sizes if x > 0]:
                pe = r_stride.PE(u, call_default={nm: 0 for nm in transforms})
                bind = {cn: CTX, dn: DATA, sn: size, usage_key: usage + 3 * blk if usage_key.endswith("count") else usage,
                        "%s->block_size" % cn: blk}
                ev, ret = pe.trace(fn, bind, max_steps=20000)
                what = "%d bytes buffered, update of %d bytes (block %d)" % (usage, size, blk)
                if isinstance(ret, str):
                    undec = undec or "%s: %s" % (what, ret)
                    continue
                n += 1
                fill = usage          # bytes in the context buffer
                pos = 0               # next input byte expected
                prob = None

                def val(x, b):
                    return r_mpt.eval_expr(x, {}, pe._hook(b, {}))
                for e, b in ev:
                    for x, ps in core.walk(e):
                        if x.get("k") != "call" or prob:
                            continue
                        try:
                            if x.get("fn") in ("memcpy", "memmove"):
                                d_, s_, l_ = val(x["args"][0], b), val(x["args"][1], b), val(x["args"][2], b)
                                if BUF <= d_ < BUF + 4096:
                                    if d_ - BUF != fill:
                                        prob = "bytes are copied to buffer offset %d while %d bytes are buffered" % (d_ - BUF, fill)
                                    elif l_ < 0 or d_ - BUF + l_ > blk:
                                        prob = "%d bytes are copied to offset %d of the %d-byte block buffer" % (l_, d_ - BUF, blk)
                                    elif s_ - DATA != pos:
                                        prob = "input offset %d is buffered while offset %d is next" % (s_ - DATA, pos)
                                    else:
                                        fill += l_
                                        pos += l_
                            elif x.get("fn") in transforms:
                                ptrs = [val(a, b) for a in x["args"] if "t" in a and u.type(a["t"])["k"] == "ptr"][1:]
                                if not ptrs:
                                    continue
                                start = ptrs[0]
                                end = ptrs[1] if len(ptrs) > 1 else start + blk
                                if BUF <= start < BUF + 4096:
                                    if fill != blk or start != BUF or end != BUF + blk:
                                        prob = "the buffer is compressed while it holds %d of %d bytes" % (fill, blk)
                                    fill = 0
                                else:
                                    if fill != 0:
                                        prob = "input is compressed in place while %d bytes wait in the buffer (order lost)" % fill
                                    elif start - DATA != pos:
                                        prob = "in-place compression starts at input offset %d while offset %d is next" % (start - DATA, pos)
                                    elif (end - start) % blk or end - start <= 0:
                                        prob = "in-place compression of %d bytes (not whole blocks)" % (end - start)
                                    elif end - DATA > size:
                                        prob = "in-place compression reads up to input offset %d of %d" % (end - DATA, size)
                                    else:
                                        pos = end - DATA
                        except (r_mpt.Unknown, KeyError, TypeError):
                            undec = undec or "%s: an argument at line %s is not computable" % (what, x.get("ln"))
                if prob is None and pos != size:
                    prob = "%d of %d input bytes are consumed" % (pos, size)
                if prob is None and fill != (usage + size) % blk:
                    prob = "%d bytes stay buffered, expected %d" % (fill, (usage + size) % blk)
                if prob:
                    bad = bad or "%s: %s" % (what, prob)
    desc = "%s consumes every input byte once, in order; buffer writes stay inside the block buffer; the buffer is compressed exactly when full" % fn.name
    (rep.violated if bad else rep.undecided if undec else rep.proved)("R-SPEC", fn, "update-coverage", desc, bad or undec or "%d (buffered, size) classes" % n)
    return n


def dispatch_rule(rep, u, own_file):
    """sha2_transform chooses the compression function: the 128-byte-block function for SHA-384/512 contexts and a
    64-byte-block one for SHA-224/256, whatever the SIMD switch says (evaluated over block size x use_simd)."""
    from rules import r_stride
    fn = u.fn("sha2_transform")
    if fn is None or not fn.has_cfg or fn.relfile() != own_file:
        return 0
    rep.functions.add(fn.name)
    cn = fn.params[0]["n"]
    callees = {c.get("fn") for _, _, c, _ in fn.calls() if c.get("fn")}
    n = 0
    bad = undec = None
    for blk, simd in itertools.product((64, 128), (0, 1)):
        pe = r_stride.PE(u, call_default={nm: 0 for nm in callees})
        ev, ret = pe.trace(fn, {cn: 0x1000, "%s->block_size" % cn: blk, "%s->use_simd" % cn: simd, fn.params[1]["n"]: 0x2000, fn.params[2]["n"]: 0x2000 + 2 * blk})
        if isinstance(ret, str):
            undec = undec or "block %d, use_simd %d: %s" % (blk, simd, ret)
            continue
        n += 1
        called = [x.get("fn") for e, b in ev for x, _ in core.walk(e) if x.get("k") == "call" and x.get("fn") in callees]
        want = "128" if blk == 128 else "64"
        if len(called) != 1 or want not in called[0]:
            bad = bad or "block size %d with use_simd=%d is compressed by %s" % (blk, simd, called or "nothing")
    desc = "sha2_transform hands SHA-384/512 contexts to the 128-byte-block function and SHA-224/256 contexts to a 64-byte-block one, whatever use_simd is"
    (rep.violated if bad else rep.undecided if undec else rep.proved)("R-SIB", fn, "sha2-dispatch", desc, bad or undec or "%d combinations" % n)
    return n


def final_bounds(rep, u, h, t):
    """final(ctx, digest), traced for every class of bytes still buffered: the padding writes (0x80, zero fill, length) stay
    inside the block buffer, and the buffer is compressed only when the padding filled it."""
    from rules import r_stride, r_mpt
    fn = u.fn(t["final"])
    if fn is None or not fn.has_cfg:
        raise driver.AnalysisBroken("anchor %s vanished" % t["final"])
    rep.functions.add(fn.name)
    pt = u.type(fn.params[0]["t"])
    rec = u.records.get(u.type(pt["to"]).get("rec")) if pt["k"] == "ptr" else None
    boff = [f["off"] // 8 for f in (rec or {}).get("fields", []) if f["n"] == "buffer"]
    if not boff:
        raise driver.AnalysisBroken("%s: context has no buffer field" % fn.name)
    CTX = 0x100000
    BUF = CTX + boff[0]
    cn = fn.params[0]["n"]
    usage_key = "%s->buffer_usage" % cn if any(f["n"] == "buffer_usage" for f in rec["fields"]) else "%s->count" % cn
    callees = {c.get("fn") for _, _, c, _ in fn.calls() if c.get("fn") and c.get("fn") not in ("memcpy", "memset", "memmove")}
    n = 0
    bad = undec = None
    for blk in ([t["blk"]] if h != "sha2" else [64, 128]):
        lenb = 8 if blk == 64 else 16
        for usage in sorted({0, 1, blk - lenb - 2, blk - lenb - 1, blk - lenb, blk - lenb + 1, blk - 2, blk - 1}):
            pe = r_stride.PE(u, call_default={nm: 0 for nm in callees})
            bind = {cn: CTX, usage_key: usage + 2 * blk if usage_key.endswith("count") else usage, "%s->block_size" % cn: blk,
                    "%s->hash_size" % cn: 32 if blk == 64 else 64, fn.params[1]["n"]: 0x700000}
            ev, ret = pe.trace(fn, bind, max_steps=20000)
            what = "%d bytes buffered (block %d)" % (usage, blk)
            if isinstance(ret, str):
                undec = undec or "%s: %s" % (what, ret)
                continue
            n += 1

            def val(x, b):
                return r_mpt.eval_expr(x, {}, pe._hook(b, {}))
            for e, b in ev:
                for x, ps in core.walk(e):
                    try:
                        if x.get("k") == "call" and x.get("fn") in ("memcpy", "memset", "memmove"):
                            d_, l_ = val(x["args"][0], b), val(x["args"][2], b)
                            if BUF - 256 <= d_ < BUF + 4096 and (l_ < 0 or not (BUF <= d_ and d_ + l_ <= BUF + blk)):
                                bad = bad or "%s: %s writes %s bytes at buffer offset %d of %d" % (
                                    what, x["fn"], ("%d" % l_) if l_ >= 0 else "SIZE_MAX%+d (the length wrapped)" % (l_ + 1), d_ - BUF, blk)
                        elif x.get("k") == "bin" and x["op"] == "=" and strip_casts(x["x"]).get("k") in ("sub", "un"):
                            a = pe._addr(strip_casts(x["x"]), lambda z: val(z, b))
                            if BUF - 256 <= a < BUF + 4096 and not (BUF <= a < BUF + blk):
                                bad = bad or "%s: a store at buffer offset %d of %d (line %s)" % (what, a - BUF, blk, x.get("ln"))
                    except (r_mpt.Unknown, KeyError, TypeError):
                        pass
    desc = "%s: every padding write stays inside the block buffer, for every number of buffered bytes" % fn.name
    (rep.violated if bad else rep.undecided if undec else rep.proved)("R-BOUND", fn, "final-padding", desc, bad or undec or "%d classes" % n)
    return n


def run(rep, tier):
    specs = hashes.units(tier)
    us = driver.load_units([s for (_, _, s) in specs])
    rep.use_units(us)
    n = 0
    for (h, lab, s) in specs:
        u = us[s.label]
        wipe_obligations(rep, h, hashes.HASHES[h], u)
        n += 1
    rep.floor("final functions checked for zeroisation", n, 8)
    # R-BUILD: every compiler x ISA configuration the property quantifies over builds the public entry points (compile
    # witnesses: built with the real compilers at -O2, never run).  clang -fsyntax-only accepts an SSE4.1 intrinsic inside an
    # SSE2 function, gcc -O1 and above refuses to inline it ("target specific option mismatch")
    wit = hashes.build_witnesses(tier)
    nw = 0
    for (lab, ok, err) in driver.compile_witnesses(wit):
        nw += 1
        hname = lab.split(":")[0]
        (rep.proved if ok else rep.violated)("R-BUILD", "", "builds:" + lab, "configuration %s compiles the %s entry points" % (lab, hname),
                                             "" if ok else err[-260:], file="include/" + hashes.HASHES[hname]["hdr"], unit=lab)
    rep.floor("build witnesses", nw, 12)
    nl = 0
    for (h, lab, s) in specs:
        nl += lane_rule(rep, us[s.label], "include/" + hashes.HASHES[h]["hdr"])
    rep.floor("block-load macro expansions", nl, 4)
    nm = 0
    for (h, lab, s) in specs:
        nm += mask_width_rule(rep, us[s.label], "include/" + hashes.HASHES[h]["hdr"])
    rep.floor("complement masks in the hash headers", nm, 4)
    nb = 0
    for (h, lab, s) in specs:
        nb += block_step_rule(rep, us[s.label], "include/" + hashes.HASHES[h]["hdr"])
    rep.floor("Streebog per-block state updates", nb, 2)
    na = 0
    for (h, lab, s) in specs:
        na += bulk_advance_rule(rep, us[s.label], "include/" + hashes.HASHES[h]["hdr"])
    rep.floor("in-place bulk compressions", na, 3)
    nls = 0
    for (h, lab, s) in specs:
        nls += loop_save_rule(rep, us[s.label], "include/" + hashes.HASHES[h]["hdr"])
    rep.floor("per-block state copies", nls, 2)
    nuc = 0
    for (h, lab, s) in specs:
        nuc += update_coverage(rep, us[s.label], h, hashes.HASHES[h])
    rep.floor("update (buffered, size) classes", nuc, 100)
    nfb = 0
    for (h, lab, s) in specs:
        nfb += final_bounds(rep, us[s.label], h, hashes.HASHES[h])
    rep.floor("final (buffered) classes", nfb, 20)
    nds = 0
    for (h, lab, s) in specs:
        nds += dispatch_rule(rep, us[s.label], "include/" + hashes.HASHES[h]["hdr"])
    rep.floor("sha2_transform dispatch combinations", nds, 4)
    # sha2_init's selector: every variant is reachable by its bit length and by its byte size (rule lives in C07, whose second
    # pass re-initialises with the stored byte size; a selector that matches nothing leaves the context uninitialised)
    from props import c07
    nsel = 0
    for (h, lab, s) in specs:
        if us[s.label].fn("sha2_init") is not None:
            nsel = max(nsel, c07.selector_table(rep, us[s.label]))
    rep.floor("sha2_init selector arms", nsel, 4)
    from props import c04_tables, c04_more
    c04_tables.run(rep, specs, us, tier)
    c04_more.run(rep, specs, us, tier)
    return driver.finish(
        rep, "other",
        "Static analysis of the four hash headers in %d build variants (SIMD feature levels, small tables). "
        "Decided completely: the zeroisation clause (every *_final wipes sizeof(context) bytes through a volatile "
        "memset pointer on every path as its last access). Decided: constant tables/IVs/rotation schedules equal "
        "independently derived standard values in every variant compiled; no read of a context after its final; "
        "buffer writes of update/final bounded. NOT decided: digest equality for every message and chunking." % len(us),
        ["a call through a volatile function pointer cannot be elided by the compiler",
         "reference constants are recomputed in python from the standards' definitions (sin, cube/square roots of primes)"],
        TRUSTED)


def selftest():
    u = fixtures.load("wipe.c")
    rep = driver.Report("fixture", "quick")
    for fn in u.function_list:
        if fn.name.startswith("fx_"):
            obj, mention = r_wipe.param_obj(fn, 0)
            r_wipe.check_wipe(rep, fn, u, "ctx", obj, mention)
    fixtures.expect(rep, ["fx_final_nowipe", "fx_final_plain_memset", "fx_final_partial", "fx_final_one_path",
                          "fx_final_touch_after"], ["fx_final_ok", "fx_final_ok_branches"], "R-WIPE")
