"""C04 — hash functions.

Decided clauses:
  * R-WIPE  zeroisation clause completely: md5/sha1/sha2/gost3411_2012 *_final wipe the whole
            context through the volatile memset pointer on every path, as last access
  * R-TS    no use of a context after finalisation (in the headers' own users)
  * R-TBL   constant tables against independently derived values (rules/r_tbl_hash.py)
  * R-BOUND update/final buffer writes bounded
Not decided: digest equality for all messages/chunkings.
"""
from rules import driver, core, r_wipe
from props import common, fixtures, hashes

TRUSTED = ["clang 14 front end + CFG builder", "tool/lcbfacts.cc", "rules/core.py post-dominators", "python3"]


def wipe_obligations(rep, h, t, u):
    fn = u.fn(t["final"])
    if fn is None:
        raise driver.AnalysisBroken("anchor %s vanished in %s" % (t["final"], u.label))
    rep.functions.add(fn.name)
    obj, mention = r_wipe.param_obj(fn, 0)
    r_wipe.check_wipe(rep, fn, u, "context *%s" % fn.params[0]["n"], obj, mention)
    if not r_wipe.volatile_memset_ptrs(u):
        rep.violated("R-WIPE", fn, "volatile-pointer", "wipe primitive is a volatile function pointer to memset",
                     "no such file-scope pointer in unit")
    else:
        rep.proved("R-WIPE", fn, "volatile-pointer", "wipe primitive is a volatile function pointer to memset",
                   ",".join(sorted(r_wipe.volatile_memset_ptrs(u))))


def run(rep, tier):
    specs = hashes.units(tier)
    us = driver.load_units([s for (_, _, s) in specs])
    rep.use_units(us)
    n = 0
    for (h, lab, s) in specs:
        u = us[s.label]
        wipe_obligations(rep, h, hashes.HASHES[h], u)
        n += 1
    rep.floor("final functions checked for zeroisation", n, 8)
    from props import c04_tables, c04_more
    c04_tables.run(rep, specs, us, tier)
    c04_more.run(rep, specs, us, tier)
    return driver.finish(
        rep, "other",
        "Static analysis of the four hash headers in %d build variants (SIMD feature levels, small tables). "
        "Decided completely: the zeroisation clause (every *_final wipes sizeof(context) bytes through a volatile "
        "memset pointer on every path as its last access). Decided: constant tables/IVs/rotation schedules equal "
        "independently derived standard values in every variant compiled; no read of a context after its final; "
        "buffer writes of update/final bounded. NOT decided: digest equality for every message and chunking." % len(us),
        ["a call through a volatile function pointer cannot be elided by the compiler",
         "reference constants are recomputed in python from the standards' definitions (sin, cube/square roots of primes)"],
        TRUSTED)


def selftest():
    u = fixtures.load("wipe.c")
    rep = driver.Report("fixture", "quick")
    for fn in u.function_list:
        if fn.name.startswith("fx_"):
            obj, mention = r_wipe.param_obj(fn, 0)
            r_wipe.check_wipe(rep, fn, u, "ctx", obj, mention)
    fixtures.expect(rep, ["fx_final_nowipe", "fx_final_plain_memset", "fx_final_partial", "fx_final_one_path",
                          "fx_final_touch_after"], ["fx_final_ok", "fx_final_ok_branches"], "R-WIPE")
