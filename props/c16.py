"""C16 — I/O tasks.

Decided clauses:
  * record agreement: every registration call with TP_EV_TIMER uses the task's timer record and every call
    with the task's I/O event uses the I/O record (the record decides which descriptor is armed / removed)
  * one user callback per handler invocation (single site, not in a cycle) for the read/write handler
  * per transfer step all cursors (transferred, offset, buffer offset/used/remaining) advance by the same amount
  * partial totals are saved on every re-arm exit and folded in and cleared before the callback
  * re-arm only when the callback returned CONTINUE; pre/post handlers disable/enable the opposite source
  * stop removes both registrations; destroy stops before free; the skip-first-I/O path validates the window
Not decided: byte-exact delivery, EOF/timeout reporting over schedules.
"""
from rules import driver, core, r_path, r_mpt
from rules.core import walk, key, const_val
from props import tp, common

TRUSTED = ["clang 14 front end + CFG builder", "tool/lcbfacts.cc", "rules/r_path.py", "rules/r_mpt.py", "python3"]
EV_FUNCS_PREFIX = ("tpt_ev_",)


def record_agreement(rep, u, vals):
    n = 0
    for fn in u.function_list:
        if fn.relfile() != tp.TASK_C:
            continue
        per = {}
        for pos, root, c, ps in fn.calls():
            nm = c.get("fn") or ""
            if not nm.startswith(EV_FUNCS_PREFIX) or not c["args"]:
                continue
            last = core.strip_casts(c["args"][-1])
            if not (last.get("k") == "un" and last["op"] == "&" and core.strip_casts(last["e"]).get("k") == "mem"):
                continue
            recf = core.strip_casts(last["e"])["f"]
            if recf not in ("tp_data", "tp_timer"):
                continue
            # event argument: a constant equal to TP_EV_TIMER spelled by that macro, or <task>->event
            evk = None
            for a in c["args"][:-1]:
                a0 = core.strip_imp(a)
                m = core.macro_chain(a)
                if m and m[0] == "TP_EV_TIMER":
                    evk = "timer"
                elif key(a0).endswith("->event"):
                    evk = "io"
            if evk is None:
                continue
            n += 1
            rep.functions.add(fn.name)
            per[(nm, evk)] = per.get((nm, evk), 0) + 1
            inst = "%s(%s)#%d" % (nm, evk, per[(nm, evk)])
            want = "tp_timer" if evk == "timer" else "tp_data"
            desc = "%s with the %s event operates on the task's %s record" % (nm, evk, want)
            if recf == want:
                rep.proved("R-REC", fn, inst, desc, "line %s" % c["ln"], c["ln"])
            else:
                rep.violated("R-REC", fn, inst, desc, "called with &...->%s: the %s registration is not the one affected "
                             "(an armed timer and its descriptor survive the failed start)" % (recf, evk), c["ln"])
    return n


def handler_rules(rep, u, vals):
    fn = tp.need(u, "tp_task_handler")
    rep.functions.add(fn.name)
    CONT = vals["TP_TASK_CB_CONTINUE"]
    cbs = [pos for pos, root, c, ps in fn.nodes() if c.get("k") == "call" and "callee" in c and key(c["callee"]).endswith("->cb_func")]
    ok = len(cbs) == 1 and cbs[0][0] not in fn.reach_from(fn.blocks[cbs[0][0]].rsucc())
    (rep.proved if ok else rep.violated)("R-PATH", fn, "one-callback", "the user callback has one call site that is not on a cycle "
                                         "(at most one callback per handler invocation)", "%d site(s)" % len(cbs))
    # names derived from roles, not spelling:
    #  verdict variable = the one that receives the user callback's result;
    #  per-invocation byte counter = the local added to tptask->tot_transfered_size
    verdict = None
    for pos, root, x, ps in fn.nodes():
        if x.get("k") == "bin" and x["op"] == "=" and core.strip_casts(x["x"]).get("k") == "ref":
            for y, _ in walk(x["y"]):
                if y.get("k") == "call" and "callee" in y and key(y["callee"]).endswith("->cb_func"):
                    verdict = core.strip_casts(x["x"])["n"]
    moved = None
    for pos, root, x, ps in fn.nodes():
        if x.get("k") == "bin" and x["op"] == "+=" and key(x["x"]).endswith("tot_transfered_size") and \
                core.strip_casts(x["y"]).get("k") == "ref":
            moved = core.strip_casts(x["y"])["n"]
    if verdict is None or moved is None:
        raise driver.AnalysisBroken("tp_task_handler: callback verdict variable / byte counter not found")
    # per-step cursor agreement inside the two transfer loops
    loops = fn.loops()
    nsteps = 0
    for h, body in loops.items():
        io = None
        iov = None      # the variable that receives the I/O call's result (whatever it is called)
        for b in body:
            for e in fn.blocks[b].elems:
                for x, ps in walk(e):
                    if x.get("k") == "call" and x.get("fn") in ("pread", "recv", "pwrite", "send", "recvfrom"):
                        io = x["fn"]
                        for p_ in reversed(ps):
                            if p_.get("k") == "bin" and p_["op"] == "=" and core.strip_casts(p_["x"]).get("k") == "ref":
                                iov = core.strip_casts(p_["x"])["n"]
                                break
        if io is None:
            continue
        if iov is None:
            rep.undecided("R-SIB", fn, "cursor-step@%s" % h, "the I/O result is stored in a variable", "no assignment of the %s result found" % io)
            continue
        nsteps += 1
        amounts = {}
        for b in body:
            for e in fn.blocks[b].elems:
                for x, ps in walk(e):
                    if x.get("k") == "bin" and x["op"] in ("+=", "-="):
                        amounts.setdefault(key(core.strip_casts(x["y"])), []).append((key(x["x"]), x["op"]))
        kind = "read" if io in ("pread", "recv", "recvfrom") else "write"
        want = {(moved, "+="), ("tptask->offset", "+="), ("tptask->buf->offset", "+="), ("tptask->buf->transfer_size", "-=")}
        if kind == "read":
            want.add(("tptask->buf->used", "+="))
        got = set()
        for amt, lst in amounts.items():
            if amt == iov:
                got = set(lst)
        other = {amt: lst for amt, lst in amounts.items() if amt != iov and any(t in [w[0] for w in want] for t, _ in lst)}
        desc = "%s loop: transferred count, file offset and all buffer cursors advance by the same amount (the I/O result)" % kind
        if got == want and not other:
            rep.proved("R-SIB", fn, "cursor-step:" + kind, desc, "%d updates by '%s'" % (len(got), iov))
        else:
            rep.violated("R-SIB", fn, "cursor-step:" + kind, desc, "updates by %s: %s; by other amounts: %s; expected %s" % (
                iov, sorted(got), other, sorted(want)))
    rep.floor("transfer loops", nsteps, 2)
    # partial totals: every assignment cb_ret = CONTINUE is preceded (same block) by tot += transfered
    conts = [(pos, x) for pos, root, x, ps in fn.nodes() if x.get("k") == "bin" and x["op"] == "=" and key(x["x"]) == verdict
             and const_val(x["y"]) == CONT]
    okc = bool(conts)
    for pos, x in conts:
        blk = fn.blocks[pos[0]]
        saved = any(e.get("k") == "bin" and e["op"] == "+=" and key(e["x"]).endswith("tot_transfered_size") and
                    key(core.strip_casts(e["y"])) == moved for e in blk.elems[:pos[1]])
        okc = okc and saved
    (rep.proved if okc else rep.violated)("R-PATH", fn, "partial-total-saved",
                                          "every exit that re-arms without calling back saves the bytes moved so far", "%d re-arm exits" % len(conts))
    # before the callback: transfered += tot ; tot = 0
    if len(cbs) == 1:
        cb = cbs[0]
        fold = [pos for pos, root, x, ps in fn.nodes() if x.get("k") == "bin" and x["op"] == "+=" and key(x["x"]) == moved
                and key(core.strip_casts(x["y"])).endswith("tot_transfered_size")]
        clr = [pos for pos, root, x, ps in fn.nodes() if x.get("k") == "bin" and x["op"] == "=" and key(x["x"]).endswith("tot_transfered_size")
               and const_val(x["y"]) == 0]
        ok = fold and clr and fn.pos_dominates(fold[0], clr[0]) and fn.pos_dominates(clr[0], cb) and \
            fn.pos_postdominates(cb, fold[0])
        (rep.proved if ok else rep.violated)("R-PATH", fn, "total-folded-before-callback",
                                             "the saved partial total is added and cleared immediately before the single callback")
    # re-arm only for CONTINUE
    fp = tp.need(u, "tp_task_handler_post_int")
    rep.functions.add(fp.name)
    en = [pos for pos, root, c, ps in fp.calls() if (c.get("fn") or "").startswith("tpt_ev_")]
    r_mpt.check_guard(rep, fp, "cb_ret==CONTINUE", lambda x, ps: r_mpt.is_param(fp, x, 2), (-1, 0, 1, CONT), (CONT,), targets=en,
                      target_desc="re-arm call", require_dominance=True)
    # pre/post symmetry
    fpre = tp.need(u, "tp_task_handler_pre_int")
    rep.functions.add(fpre.name)

    def calls_sig(f):
        """(effect, record) of every registration call - by what the call does, not by which spelling of the API is used"""
        out = set()
        for pos, root, c, ps in f.calls():
            nm = c.get("fn") or ""
            if not nm.startswith("tpt_ev_") and nm != "tp_task_stop":
                continue
            last = core.strip_casts(c["args"][-1]) if c["args"] else None
            recf = core.strip_casts(last["e"])["f"] if last is not None and last.get("k") == "un" and core.strip_casts(last["e"]).get("k") == "mem" else None
            if nm == "tp_task_stop":
                eff = "stop"
            elif "_del_" in nm:
                eff = "remove"
            elif "_add_" in nm:
                eff = "enable"
            elif "enable" in nm:
                eff = {0: "disable", 1: "enable"}.get(const_val(c["args"][0]) if c["args"] else None, "?")
            else:
                eff = nm
            out.add((eff, recf))
        return out
    pre, post = calls_sig(fpre), calls_sig(fp)
    want_pre = {("disable", "tp_data"), ("disable", "tp_timer"), ("remove", "tp_timer"), ("stop", None)}
    want_post = {("enable", "tp_timer"), ("enable", "tp_data")}
    okp = pre == want_pre and post == want_post
    (rep.proved if okp else rep.violated)("R-SIB", fpre, "pre-post-symmetry",
                                          "the pre-handler disables/removes the opposite source and the post-handler re-enables exactly those",
                                          "pre=%s post=%s" % (sorted(map(str, pre)), sorted(map(str, post))))


def disable_enable_cases(rep, u, vals):
    """finite-domain evaluation: whenever the pre-handler disabled the task's I/O registration (a timeout on a persistent
    task) and the callback asks to continue, the post-handler enables it again; same for the timer"""
    from rules import r_stride
    fpre, fpost = tp.need(u, "tp_task_handler_pre_int"), tp.need(u, "tp_task_handler_post_int")
    more = tp.probe(tp.TASK_C, {"TP_EV_READ": "TP_EV_READ", "TP_F_ONESHOT": "TP_F_ONESHOT", "TP_F_DISPATCH": "TP_F_DISPATCH"}, "probe:task2")
    if any(v is None for v in more.values()):
        raise driver.AnalysisBroken("task flag constants not foldable")
    TIMER, READ, ONE, DISP, CONT = vals["TP_EV_TIMER"], more["TP_EV_READ"], more["TP_F_ONESHOT"], more["TP_F_DISPATCH"], vals["TP_TASK_CB_CONTINUE"]

    def sites(fn, enable):
        out = {"tp_data": [], "tp_timer": []}
        for pos, root, c, ps in fn.calls():
            nm = c.get("fn") or ""
            if not c["args"]:
                continue
            if "_add_args" in nm and nm.startswith("tpt_ev_"):
                if enable != 1:
                    continue                      # adding (arming) a registration enables it
            elif "enable_args" not in nm or const_val(c["args"][0]) != enable:
                continue
            last = core.strip_casts(c["args"][-1])
            if last.get("k") == "un" and core.strip_casts(last["e"]).get("k") == "mem":
                out.setdefault(core.strip_casts(last["e"])["f"], []).append((pos, c))
        return out
    pre_dis, post_en = sites(fpre, 0), sites(fpost, 1)
    n = 0
    bad = None
    undec = None
    for evk, one, disp, tmo in [(a, b, c, d) for a in (TIMER, READ) for b in (0, 1) for c in (0, 1) for d in (0, 30)]:
        fl = (ONE if one else 0) | (DISP if disp else 0)
        if one and disp:
            continue        # refused by the validator
        pe = r_stride.PE(u)
        bpre = {"ev": 0x1000, "ev->event": evk, "ev->flags": 0, "tp_udata": 0x2000, "tp_udata->ident": 0x3000, "tptask": 0x4000,
                "*(tptask)": 0x3000, "*(tptask)->event_flags": fl, "*(tptask)->timeout": tmo, "*(tptask)->event": READ,
                "eof": 0x5000, "data2transfer_size": 0x5008}
        bpost = {"ev": 0x1000, "ev->event": evk, "tptask": 0x3000, "tptask->event_flags": fl, "tptask->timeout": tmo, "tptask->event": READ,
                 "cb_ret": CONT}
        res = {}
        for what in ("tp_data", "tp_timer"):
            d = e = "no"
            for pos, c in pre_dis.get(what, []):
                r, _ = pe.reach_stmt(fpre, fpre.entry, set(fpre.reachable_blocks()), bpre, pos[0], fpre.blocks[pos[0]].elems[pos[1]])
                d = "sure" if r == "sure" else ("unsure" if r == "unsure" and d != "sure" else d)
            for pos, c in post_en.get(what, []):
                r, _ = pe.reach_stmt(fpost, fpost.entry, set(fpost.reachable_blocks()), bpost, pos[0], fpost.blocks[pos[0]].elems[pos[1]])
                e = "sure" if r == "sure" else ("unsure" if r == "unsure" and e != "sure" else e)
            res[what] = (d, e)
            if "unsure" in (d, e):
                undec = "guard not evaluable for event=%s flags=0x%x" % ("TIMER" if evk == TIMER else "I/O", fl)
            elif what == "tp_timer" and tmo == 0:
                pass        # no timer is configured: switching the (possibly stale) timer off needs no counterpart
            elif d == "sure" and e != "sure":
                bad = bad or "%s event, ONESHOT=%d DISPATCH=%d timeout=%d: the pre-handler disables %s but the post-handler does not enable it again " \
                             "(the task never sees that source again)" % ("timeout" if evk == TIMER else "I/O", one, disp, tmo, "the I/O registration" if what == "tp_data" else "the timer")
        n += 1
    desc = "what tp_task_handler_pre_int disables on a persistent task, tp_task_handler_post_int enables again when the callback continues"
    if bad:
        rep.violated("R-SIB", fpost, "disable-enable-cases", desc, bad)
    elif undec:
        rep.undecided("R-SIB", fpost, "disable-enable-cases", desc, undec)
    else:
        rep.proved("R-SIB", fpost, "disable-enable-cases", desc, "%d combinations of event kind, ONESHOT, DISPATCH and timeout" % n)
    return n


def lifecycle(rep, u, vals):
    fs = tp.need(u, "tp_task_stop")
    rep.functions.add(fs.name)
    sig = set()
    for pos, root, c, ps in fs.calls({"tpt_ev_del_args1"}):
        last = core.strip_casts(c["args"][-1])
        sig.add(core.strip_casts(last["e"])["f"])
    (rep.proved if sig == {"tp_data", "tp_timer"} else rep.violated)("R-PAIR", fs, "stop-removes-both",
                                                                     "stop removes the I/O registration and the timer registration", str(sorted(sig)))
    fd = tp.need(u, "tp_task_destroy")
    rep.functions.add(fd.name)
    st = [pos for pos, root, c, ps in fd.calls({"tp_task_stop"})]
    fr = [pos for pos, root, c, ps in fd.calls({"free"})]
    ok = st and fr and fd.pos_dominates(st[0], fr[0])
    (rep.proved if ok else rep.violated)("R-PAIR", fd, "stop-before-free", "destroy removes the registrations before it frees the task")
    # the registrations are removed while the descriptor still names the registered file: every close / invalidation of the
    # task's identifier is dominated by the stop (a deregistration issued with ident == -1 is refused by the validator, and
    # closing one reference does not remove an epoll registration while the open file has other references)
    nclose = 0
    for fc in u.function_list:
        if fc.relfile() != tp.TASK_C or not fc.has_cfg:
            continue
        stops = [pos for pos, root, c, ps in fc.calls({"tp_task_stop"})]
        if not stops:
            continue
        sites = [(pos, "close", c.get("ln")) for pos, root, c, ps in fc.calls({"close"}) if "ident" in key(c["args"][0])]
        sites += [(pos, "ident = -1", x.get("ln")) for pos, root, x, ps in fc.nodes() if x.get("k") == "bin" and x["op"] == "=" and
                  key(core.strip_casts(x["x"])).endswith("tp_data.ident") and const_val(x["y"]) is not None]
        for pos, what, ln_ in sites:
            nclose += 1
            rep.functions.add(fc.name)
            ok = any(fc.pos_dominates(s_, pos) for s_ in stops)
            (rep.proved if ok else rep.violated)("R-PAIR", fc, "stop-before-close:%s" % what, "%s: the registrations are removed (tp_task_stop) before the "
                                                 "descriptor is closed / invalidated" % fc.name,
                                                 "" if ok else "the %s at line %s is not dominated by tp_task_stop: the deregistration then runs with an invalid "
                                                 "identifier and is refused; callbacks continue while another reference keeps the file open" % (what, ln_), ln_)
    rep.floor("descriptor close / invalidate sites behind a stop", nclose, 2)
    # every transfer system call moves the caller's *window*: it starts at data + offset and is at most transfer_size long
    IO_CALLS = {"read": (1, 2), "recv": (1, 2), "recvfrom": (1, 2), "write": (1, 2), "send": (1, 2), "pread": (1, 2), "pwrite": (1, 2)}
    nio = 0
    for fc in u.function_list:
        if fc.relfile() != tp.TASK_C or not fc.has_cfg:
            continue
        per = 0
        for pos, root, c, ps in fc.calls(set(IO_CALLS)):
            bi, li = IO_CALLS[c["fn"]]
            bk, lk = key(core.strip_casts(c["args"][bi])), key(core.strip_casts(c["args"][li]))
            if "->data" not in bk:
                continue            # not a transfer into/out of the task's io buffer
            nio += 1
            per += 1
            rep.functions.add(fc.name)
            obj = bk.split("->data")[0].lstrip("(")
            ok = bk.replace(" ", "") == "(%s->data+%s->offset)" % (obj, obj) and lk == "%s->transfer_size" % obj
            (rep.proved if ok else rep.violated)(
                "R-SIB", fc, "io-window:%s#%d" % (c["fn"], per), "%s: %s() transfers inside the window [offset, offset + transfer_size) of the task's buffer" % (fc.name, c["fn"]),
                ("buffer %s, length %s" % (bk[:40], lk[:40])) if ok else
                "it is given the buffer %s and the length %s: a transfer longer than the window reaches bytes the caller did not offer and the reported "
                "size exceeds what was asked for" % (bk[:50], lk[:50]), c.get("ln"))
    rep.floor("transfer system calls on the task buffer", nio, 4)
    # the saturating cursor updates (IO_BUF_*_INC): a cursor that would pass the end stops at the buffer's capacity (->size),
    # not at another cursor (->used ends the *data*, and a receive window may lie above it)
    nsat = 0
    for fc in u.function_list:
        if fc.relfile() != tp.TASK_C or not fc.has_cfg:
            continue
        per = 0
        for pos, root, x, ps in fc.nodes():
            if not (x.get("k") == "bin" and x["op"] == "="):
                continue
            l, r = core.strip_casts(x["x"]), core.strip_casts(x["y"])
            if l.get("k") == "mem" and l.get("f") in ("offset", "used", "transfer_size") and r.get("k") == "mem" and \
                    key(core.strip_casts(l["b"])) == key(core.strip_casts(r["b"])) and l.get("rec") == r.get("rec"):
                nsat += 1
                per += 1
                rep.functions.add(fc.name)
                ok = r.get("f") == "size"
                (rep.proved if ok else rep.violated)(
                    "R-SIB", fc, "cursor-saturation:%s#%d" % (l["f"], per), "%s: the cursor '%s' saturates at the buffer capacity" % (fc.name, l["f"]),
                    "" if ok else "it is clamped to '%s': a window above that mark makes the cursor jump backwards after the first transfer" % r.get("f"), x.get("ln"))
    # one-shot handlers: a user callback whose result is discarded cannot ask for another round, so the handler must have removed
    # both registrations (I/O event and timeout timer) before it reports the outcome - otherwise the other one fires later
    # and the outcome is reported twice
    nvoid = 0
    for fc in u.function_list:
        if fc.relfile() != tp.TASK_C or not fc.has_cfg:
            continue
        stops = [pos for pos, root, c, ps in fc.calls({"tp_task_stop"})]
        for pos, root, c, ps in fc.calls():
            if c.get("fn"):
                continue
            if "cb_func" not in key(c.get("callee") or c.get("f") or c):
                continue
            if any(p_.get("k") not in ("cast", "paren") for p_ in ps):
                continue                    # the result is used (the CONTINUE / re-arm protocol of the other handlers)
            nvoid += 1
            rep.functions.add(fc.name)
            ok = any(fc.pos_dominates(sp, pos) for sp in stops)
            (rep.proved if ok else rep.violated)(
                "R-PAIR", fc, "stop-before-void-callback#%d" % nvoid, "%s: the user callback that cannot ask to continue is called only after tp_task_stop" % fc.name,
                "" if ok else "no tp_task_stop call dominates the callback at line %s: a registration that is still armed (the timeout timer after "
                "a successful connect) fires later and the outcome is reported a second time" % c.get("ln"), c.get("ln"))
    rep.floor("void user callbacks", nvoid, 2)
    rep.floor("saturating cursor updates", nsat, 3)
    fx = tp.need(u, "tp_task_start_ex")
    rep.functions.add(fx.name)
    direct = [pos for pos, root, c, ps in fx.calls({"tp_task_handler"})]
    ok = False
    if direct:
        # evaluated, not matched: the direct transfer is reachable for an exactly fitting window and not for one byte more
        # (whatever form the test has: one comparison, a short-circuit chain, a subtraction instead of the sum)
        def reach_direct(off, tr, size):
            fields = {"offset": off, "transfer_size": tr, "size": size}
            seen, work = set(), [fx.entry]
            while work:
                b = work.pop()
                if b in seen:
                    continue
                seen.add(b)
                blk = fx.blocks[b]
                succ = [s_ for s_ in blk.rsucc() if s_ is not None]
                c = blk.cond
                if c is not None and len(blk.succ) == 2:
                    atoms = [y for y, _ in walk(c) if y.get("k") == "mem" and y["f"] in fields and "buf" in key(y["b"])]
                    env = {id(a): fields[a["f"]] for a in atoms}
                    # the task is a socket transfer task: its handler is tp_task_sr_handler on every test of it (the two
                    # tests of the handler kind are correlated, which a path-insensitive walk would not know)
                    for y, _ in walk(c):
                        if y.get("k") == "mem" and y["f"] == "cb_func":
                            env[id(y)] = 0x111
                            atoms.append(y)
                        elif core.is_ref(y, name="tp_task_sr_handler"):
                            env[id(y)] = 0x111
                        elif core.is_ref(y, name="tp_task_rw_handler"):
                            env[id(y)] = 0x222
                        elif core.is_ref(y) and y.get("dk") == "parm" and (fx.unit.type(y["t"]) or {}).get("k") == "ptr" and "io_buf" in fx.unit.tstr(y["t"]):
                            env[id(y)] = 0x5000                 # ... and it has a buffer
                            atoms.append(y)
                    if atoms:
                        try:
                            v = r_mpt.eval_expr(c, env)
                            succ = [blk.succ[0] if v else blk.succ[1]]
                        except r_mpt.Unknown:
                            pass
                work.extend(succ)
            return direct[0][0] in seen
        ok = reach_direct(4, 6, 10) and not reach_direct(4, 7, 10) and not reach_direct(11, 1, 10)

        # the same window test guards the scheduling of the first I/O through the pool, for each of the three handlers that
        # transfer into an io buffer (stream, file, datagram receiver): no registration call is reached with a bad window
        sched = {pos[0] for pos, root, c, ps in fx.calls() if (c.get("fn") or "").startswith(("tpt_ev_add", "tpt_ev_enable", "tpt_ev_q_", "tp_task_enable", "tp_task_restart", "tp_task_handler"))}

        def reach_sched(handler, off, tr, size, buf_val=0x5000):
            fields = {"offset": off, "transfer_size": tr, "size": size}
            hv = {"tp_task_sr_handler": 0x111, "tp_task_rw_handler": 0x222, "tp_task_pkt_rcvr_handler": 0x333}
            seen, work = set(), [fx.entry]
            while work:
                b = work.pop()
                if b in seen:
                    continue
                seen.add(b)
                blk = fx.blocks[b]
                succ = [s_ for s_ in blk.rsucc() if s_ is not None]
                c = blk.cond
                if c is not None and len(blk.succ) == 2:
                    env = {}
                    for y, _ in walk(c):
                        if y.get("k") == "mem" and y["f"] in fields and "buf" in key(y["b"]):
                            env[id(y)] = fields[y["f"]]
                        elif y.get("k") == "mem" and y["f"] == "cb_func":
                            env[id(y)] = hv[handler]
                        elif core.is_ref(y) and y.get("n") in hv:
                            env[id(y)] = hv[y["n"]]
                        elif core.is_ref(y) and y.get("dk") == "parm" and (fx.unit.type(y["t"]) or {}).get("k") == "ptr" and "io_buf" in fx.unit.tstr(y["t"]):
                            env[id(y)] = buf_val
                    if env and not (buf_val == 0 and any(k_ in fields.values() and False for k_ in ())):
                        try:
                            v = r_mpt.eval_expr(c, env)
                            succ = [blk.succ[0] if v else blk.succ[1]]
                        except r_mpt.Unknown:
                            pass
                work.extend(succ)
            return bool(seen & sched)
        # no buffer at all: the documented "notify only" mode of the two stream handlers (the callback attaches a buffer later);
        # the datagram receiver has no such mode and would dereference it
        for hnd, want in (("tp_task_sr_handler", True), ("tp_task_rw_handler", True), ("tp_task_pkt_rcvr_handler", False)):
            got = reach_sched(hnd, 0, 0, 0, buf_val=0)
            (rep.proved if got == want else rep.violated)(
                "R-BOUND", fx, "null-buffer:%s" % hnd, "a task of %s started without a buffer is %s" % (hnd, "scheduled (notify-only mode)" if want else "refused"),
                "" if got == want else ("refused with EINVAL although threadpool_task.h documents 'If buf is null then tp_task_cb() called every time'" if want else
                                       "scheduled: the handler dereferences the NULL buffer"))
        for hnd in ("tp_task_sr_handler", "tp_task_rw_handler", "tp_task_pkt_rcvr_handler"):
            good = reach_sched(hnd, 4, 6, 10)
            bad_w = reach_sched(hnd, 4, 7, 10) or reach_sched(hnd, 16, 64, 32) or reach_sched(hnd, 11, 1, 10)
            (rep.proved if good and not bad_w else rep.violated)(
                "R-BOUND", fx, "window-validated:%s" % hnd, "a task of %s is scheduled only with a window inside its buffer" % hnd,
                "" if good and not bad_w else ("a fitting window is refused" if not good else
                                               "offset 16 + transfer_size 64 in a buffer of 32 is scheduled: recvfrom writes 64 bytes at offset 16 of the 32-byte buffer"))
    (rep.proved if ok else rep.violated)("R-BOUND", fx, "window-validated", "the immediate first transfer happens only if offset + transfer size <= buffer size "
                                         "(an exactly fitting window is accepted)")


def run(rep, tier):
    us = tp.units((tp.TASK_C,))
    rep.use_units(us)
    u = us[tp.TASK_C]
    vals = tp.probe(tp.TASK_C, {"TP_TASK_CB_CONTINUE": "TP_TASK_CB_CONTINUE", "TP_EV_TIMER": "TP_EV_TIMER"}, "probe:task")
    n = record_agreement(rep, u, vals)
    rep.floor("event registration call sites with a task record", n, 12)
    handler_rules(rep, u, vals)
    lifecycle(rep, u, vals)
    rep.floor("pre/post combinations", disable_enable_cases(rep, u, vals), 10)
    from props import c16_audit
    rep.floor("timer switch-off sites", c16_audit.stop_timer_rule(rep, u, vals), 4)
    rep.floor("(re-)registrations of the task's own event", c16_audit.own_event_flags_rule(rep, u), 3)
    rep.floor("timer arming sites", c16_audit.timer_arm_rule(rep, u, vals), 2)
    rep.floor("errno overwrites of the event error", c16_audit.event_error_live_rule(rep, u), 1)
    rep.floor("positional transfers", c16_audit.seek_fallback_rule(rep, u), 2)
    rep.floor("re-arming calls in connect-ex", c16_audit.cursor_clobber_rule(rep, u), 1)
    fl16 = tp.probe(tp.TASK_C, {"TP_F_DISPATCH": "TP_F_DISPATCH", "TP_F_ONESHOT": "TP_F_ONESHOT"}, "probe:task3")
    rep.floor("re-arm mode tests", c16_audit.rearm_mask_rule(rep, u, fl16), 1)
    rep.floor("event-error overrides", c16_audit.event_error_priority_rule(rep, u), 1)
    uio = driver.load_units([common.hdr_unit("utils/io_buf.h", "utils/io_buf.h")])["utils/io_buf.h"]
    c16_audit.window_clamp_rule(rep, uio)
    c16_audit.datagram_receiver_rule(rep, u)
    c16_audit.window_validation_rule(rep, u)
    rep.floor("stores of the task setters", c16_audit.setter_null_rule(rep, u), 3)
    return driver.finish(
        rep, "other",
        "Static analysis of threadpool_task.c. Decided: %d registration calls agree on (event kind, record); single non-cyclic "
        "callback site; all cursors of a transfer step advance by the I/O result; partial totals saved/folded/cleared; re-arm only "
        "on CONTINUE; pre/post handler symmetry; stop removes both registrations, destroy stops before free; the immediate "
        "first transfer is bounded by the buffer. NOT decided: byte-exact delivery and EOF/error/timeout reporting under kernel "
        "fragmentation and timing." % n,
        ["IO_BUF_* macros saturate instead of wrapping (not analysed here)"], TRUSTED)
