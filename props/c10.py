"""C10 — broadcasts.

Decided clauses:
  * R-LOCK  the shared countdown field is accessed only under its lock after the record is published;
            pre-publication accesses dominate (and are not reachable from) the first send
  * R-LOCK  no dereference of the shared record after the release point of the countdown
            ("the synchronous form does not touch the caller's memory afterwards")
  * R-PAIR  the heap record of the completion form is disposed of on every path
  * R-PATH  send loop: per iteration exactly one of {skip self, sent++, (sent++, sent--, failed++, err++)};
            the function returns the failure count
  * single completion site; completion frees the record after the user callback; one-by-one token order
Not decided: once-per-thread and completion-after-all under interleavings.
"""
import itertools
from rules import driver, core, r_path, r_mpt, r_ts
from rules.core import walk, key, const_val
from props import tp, fixtures

TRUSTED = ["clang 14 front end + CFG builder", "tool/lcbfacts.cc", "rules/r_ts.py dataflow", "rules/r_path.py", "python3"]
COUNT = "active_thr_count"
REC = "tpt_msg_data_s"


def lock_states(fn):
    """dict pos -> frozenset of lock keys held *before* the element at pos (may-hold = must-hold here
    because joins intersect)"""
    def locks_of(elem):
        out = []
        for n, ps in walk(elem):
            if n.get("k") == "call" and n.get("fn") in ("pthread_mutex_lock", "pthread_mutex_unlock"):
                out.append((n["fn"], r_ts.obj_key(n["args"][0])))
        return out

    def transfer(block, st):
        for e in block.elems:
            for f, k in locks_of(e):
                st = (st | {k}) if f == "pthread_mutex_lock" else (st - {k})
        return st
    ins = core.forward(fn, frozenset(), transfer, lambda a, b: a & b)
    res = {}
    for bid, st in ins.items():
        for i, e in enumerate(fn.blocks[bid].elems):
            res[(bid, i)] = st
            for f, k in locks_of(e):
                st = (st | {k}) if f == "pthread_mutex_lock" else (st - {k})
    return res


def count_accesses(fn):
    """(pos, node, base key, is_write)"""
    out = []
    for pos, root, n, ps in fn.nodes():
        if n.get("k") == "mem" and n["f"] == COUNT and n.get("rec") == REC:
            par = ps[-1] if ps else None
            w = par is not None and ((par.get("k") == "bin" and par["op"].endswith("=") and par["op"] not in ("==", "!=", "<=", ">=")
                                      and core.strip_casts(par["x"]) is n) or
                                     (par.get("k") == "un" and par["op"] in ("post++", "post--", "pre++", "pre--")))
            out.append((pos, n, key(n["b"]), w))
    return out


def lock_rule(rep, u):
    n_acc = 0
    publishers = {"tpt_msg_broadcast_send__int", "tpt_msg_send", "tpt_msg_one_by_one_send_next__int"}
    for fn in u.function_list:
        acc = count_accesses(fn)
        if not acc:
            continue
        rep.functions.add(fn.name)
        ls = lock_states(fn)
        # first publication sites in this function (calls that hand the record to other threads)
        pubs = [pos for pos, root, c, ps in fn.calls(publishers)]
        seen = {}
        for pos, n, base, w in acc:
            n_acc += 1
            held = ls.get(pos, frozenset())
            lockkey = "%s->lock" % base if not base.startswith("&") else None
            under = any(k and k.endswith("->lock") and k.startswith(base) for k in held) or \
                any(k and k.startswith(base.replace("*", "")) and k.endswith("lock") for k in held)
            seen[fn.name] = seen.get(fn.name, 0) + 1
            inst = "%s#%d" % (COUNT, seen[fn.name])
            desc = "%s->%s is accessed under %s->lock once the record is shared" % (base, COUNT, base)
            if under:
                rep.proved("R-LOCK", fn, inst, desc, "lock held on every path (lock-set dataflow)", n["ln"])
                continue
            # not under lock: must be before publication
            if not pubs:
                # no publication in this function: is it a helper called before publication? only the initialisers are
                rep.violated("R-LOCK", fn, inst, desc, "access without the lock in a function that runs after publication", n["ln"])
                continue
            before = not any((pos[0] in fn.reach_from(fn.blocks[p[0]].rsucc())) or (pos[0] == p[0] and pos[1] > p[1])
                             for p in pubs)
            if before:
                rep.proved("R-LOCK", fn, inst, desc, "unlocked access happens before the record is published "
                           "(not reachable from any send of this function)", n["ln"])
            else:
                rep.violated("R-LOCK", fn, inst, desc, "unlocked access can happen after the record was published", n["ln"])
    return n_acc


def no_deref_after_release(rep, u):
    """in every function that decrements the countdown under the lock: after the unlock no dereference of the record"""
    n = 0
    for fn in u.function_list:
        dec = [a for a in count_accesses(fn) if a[3]]
        ls = lock_states(fn)
        dec = [a for a in dec if any(k and k.endswith("lock") for k in ls.get(a[0], ()))]
        if not dec:
            continue
        rep.functions.add(fn.name)
        base = dec[0][2]
        bref = core.base_ref(dec[0][1]["b"])
        unlocks = [pos for pos, root, c, ps in fn.calls({"pthread_mutex_unlock"}) if fn.pos_dominates(dec[0][0], pos)]
        bad = None
        for up in unlocks:
            later = list(fn.blocks[up[0]].elems[up[1] + 1:])
            for b in fn.reach_from(fn.blocks[up[0]].rsucc()):
                later.extend(fn.blocks[b].elems)
            for e in later:
                for x, ps in walk(e):
                    if x.get("k") == "mem" and x["arrow"] and core.is_ref(x["b"], id=bref["id"]):
                        bad = x
                    if x.get("k") == "un" and x["op"] == "*" and core.is_ref(x["e"], id=bref["id"]):
                        bad = x
                    if bad:
                        break
                if bad:
                    break
        n += 1
        desc = "after the countdown releases its lock the record (possibly the waiting caller's stack object) is not dereferenced"
        if bad is None:
            rep.proved("R-LOCK", fn, "no-deref-after-release", desc, "only the pointer value is used after the unlock")
        else:
            rep.violated("R-LOCK", fn, "no-deref-after-release", desc,
                         "%s->%s is read at line %s after the unlock: when the count reached 0 the synchronous caller may already "
                         "have returned and destroyed the record" % (base, bad.get("f", "*"), bad["ln"]), bad["ln"])
    return n


def ownership(rep, u):
    fn = tp.need(u, "tpt_msg_cbsend")
    rep.functions.add(fn.name)
    allocs = [(pos, root) for pos, root, c, ps in fn.calls({"calloc", "malloc"})]
    if len(allocs) != 1:
        rep.violated("R-PAIR", fn, "record-alloc", "one heap record is allocated", "%d allocation sites" % len(allocs))
        return 0
    apos, aroot = allocs[0]
    var = None
    for lhs, rhs in core.assigned_lhs(aroot):
        var = core.strip_casts(lhs)
    paths = r_path.enum_paths(fn, apos[0])
    bc_ids = core.result_locals(fn, {"tpt_msg_broadcast_send__int"})
    bad = []
    for p in paths:
        disposed = None
        pending_chain = None      # call whose zero result transfers ownership
        bcast = False
        for ev in r_path.events(fn, p):
            if ev[0] == "elem":
                if ev[1][0] == apos[0] and ev[1][1] <= apos[1]:
                    continue
                for n, ps in walk(ev[2]):
                    if n.get("k") != "call":
                        continue
                    args = [core.strip_casts(a) for a in n["args"]]
                    has = any(a.get("k") == "ref" and a["id"] == var["id"] for a in args)
                    if not has:
                        continue
                    if n.get("fn") == "free":
                        disposed = "free"
                    elif n.get("fn") == "tpt_msg_active_thr_count_dec":
                        disposed = "count_dec (posts completion, which frees)"
                    elif n.get("fn") in ("tpt_msg_one_by_one_send_next__int", "tpt_msg_send"):
                        pending_chain = n             # result 0: a worker has the record in its queue
                    elif n.get("fn") == "tpt_msg_broadcast_send__int":
                        bcast = True
            else:
                _, b, cond, truth = ev
                if pending_chain is not None and any(x is pending_chain for x, _ in walk(cond)):
                    try:
                        v0 = r_mpt.eval_expr(cond, {id(pending_chain): 0})
                        if bool(v0) == bool(truth):
                            disposed = "chain scheduled (%s returned 0)" % pending_chain.get("fn")
                    except r_mpt.Unknown:
                        pass
                    pending_chain = None
                vrefs = [x for x, _ in walk(cond) if x.get("k") == "ref" and x.get("id") == var["id"]]
                if vrefs:
                    # a test of the allocation result, in whatever spelling: the edge taken is the one a NULL result takes
                    try:
                        v_null = r_mpt.eval_expr(cond, {id(x): 0 for x in vrefs})
                        v_ok = r_mpt.eval_expr(cond, {id(x): 1 for x in vrefs})
                        if bool(v_null) != bool(v_ok) and bool(v_null) == bool(truth):
                            disposed = "allocation failed"
                    except r_mpt.Unknown:
                        pass
                if bcast and any(x.get("k") == "ref" and x.get("id") in bc_ids for x, _ in walk(cond)):
                    try:
                        # 0 == <failed sends> true: everything scheduled, workers own the record
                        atom = [x for x, _ in walk(cond) if x.get("k") == "ref" and x.get("id") in bc_ids][0]
                        v0 = r_mpt.eval_expr(cond, {id(atom): 0})
                        if bool(v0) == bool(truth):
                            disposed = "all sends scheduled (workers count down and complete)"
                    except (r_mpt.Unknown, IndexError):
                        pass
        if disposed is None:
            # describe the exit
            last = [e for e in r_path.events(fn, p) if e[0] == "elem" and e[2].get("k") == "ret"]
            bad.append(last[-1][2].get("ln") if last else None)
    desc = "the heap record is freed, handed to the completion path, or owned by scheduled workers on every path"
    if not bad:
        rep.proved("R-PAIR", fn, "msg_data-ownership", desc, "%d paths from the allocation" % len(paths))
    else:
        for ln in sorted(set(bad), key=lambda x: x or 0):
            rep.violated("R-PAIR", fn, "msg_data-leak@return-%d" % (sorted(set(bad), key=lambda x: x or 0).index(ln) + 1), desc,
                         "the return at line %s is reached with the record neither freed nor handed over" % ln, ln)
    return len(paths)


def send_loop(rep, u):
    fn = tp.need(u, "tpt_msg_broadcast_send__int")
    rep.functions.add(fn.name)
    sends = [pos for pos, root, c, ps in fn.calls({"tpt_msg_send"})]
    loops = fn.loops()
    hdr = [h for h, body in loops.items() if sends and sends[0][0] in body]
    if not hdr:
        rep.violated("R-PATH", fn, "send-loop", "send loop found", "no loop contains tpt_msg_send")
        return 0
    h = hdr[0]
    body_start = [s for s in fn.blocks[h].rsucc() if s in loops[h]][0]
    paths = r_path.enum_paths(fn, body_start, stop_blocks=[h])
    # counters by role, not by spelling: 'err' is what the function returns; 'failed' is the other counter bumped on the
    # paths that bump 'err'; 'sent' is the counter bumped on the remaining paths that call tpt_msg_send
    rets_k = {key(core.strip_casts(r.get("e"))) for pos, r in fn.returns() if r.get("e") is not None}
    per_path = []
    for p in paths:
        incs = {}
        nsend = 0
        for ev in r_path.events(fn, p):
            if ev[0] != "elem":
                continue
            for n, ps in walk(ev[2]):
                st_ = core.step_of(n)
                if st_ is not None and abs(st_[1]) == 1:
                    k = key(core.strip_casts(st_[0]))
                    incs[k] = incs.get(k, 0) + st_[1]
                if n.get("k") == "call" and n.get("fn") == "tpt_msg_send":
                    nsend += 1
        per_path.append((nsend, {k: v for k, v in incs.items() if v != 0}))
    loopvar = {k for _, incs in per_path for k in incs if all(k in i2 for _, i2 in per_path)}   # the loop index, bumped on every path
    errk = next((k for k in rets_k if any(k in incs for _, incs in per_path)), None)
    failk = None
    sentk = None
    for nsend, incs in per_path:
        others = [k for k in incs if k != errk and k not in loopvar]
        if errk in incs and others:
            failk = others[0]
    for nsend, incs in per_path:
        others = [k for k in incs if k not in (errk, failk) and k not in loopvar]
        if nsend and errk not in incs and others:
            sentk = others[0]
    sums = set()
    for nsend, incs in per_path:
        extra = [k for k in incs if k not in (errk, failk, sentk) and k not in loopvar]
        sums.add((nsend, incs.get(sentk, 0), incs.get(failk, 0), incs.get(errk, 0)) + ((tuple(extra),) if extra else ()))
    want = {(0, 0, 0, 0), (1, 1, 0, 0), (1, 0, 1, 1)}
    desc = "per target thread exactly one of: skipped (no counters), sent (+1 sent), failed (+1 failed, +1 returned error count)"
    if sums == want:
        rep.proved("R-PATH", fn, "send-loop-accounting", desc, "%d body paths: %s" % (len(paths), sorted(sums)))
    else:
        rep.violated("R-PATH", fn, "send-loop-accounting", desc, "path summaries (sends, sent, failed, err) = %s" % sorted(sums))
    # the sent counter is what the completion counts down from: it must already include a message when that message is
    # handed to tpt_msg_send (the callback may run - synchronously with SELF_DIRECT - and count down before the send returns)
    late = None
    checked = 0
    for p in paths:
        order = []
        for ev in r_path.events(fn, p):
            if ev[0] != "elem":
                continue
            for n, ps in walk(ev[2]):
                if core.step_of(n) is not None and core.step_of(n)[1] == 1 and key(core.strip_casts(core.step_of(n)[0])) == sentk:
                    order.append(("inc", n.get("ln")))
                if n.get("k") == "call" and n.get("fn") == "tpt_msg_send":
                    order.append(("send", n.get("ln")))
        if any(o[0] == "send" for o in order):
            checked += 1
            first_send = next(i for i, o in enumerate(order) if o[0] == "send")
            if not any(o[0] == "inc" for o in order[:first_send]):
                late = late or "on a path through the loop body the message is sent at line %s before the counter is raised%s" % (
                    order[first_send][1], (" (line %s)" % next(o[1] for o in order if o[0] == "inc")) if any(o[0] == "inc" for o in order) else "")
    desc = "the count of messages in flight is raised before the message is handed to tpt_msg_send (and taken back if the send fails)"
    if sentk is None:
        rep.undecided("R-PATH", fn, "count-before-send", desc, "sent counter not identified")
    elif late:
        rep.violated("R-PATH", fn, "count-before-send", desc, late + ": a callback that completes first counts down from a total that does not include it yet")
    else:
        rep.proved("R-PATH", fn, "count-before-send", desc, "%d sending paths" % checked)
    # return value is the error counter
    rets = [r for pos, r in fn.returns()]
    ok = rets and errk is not None and all(key(core.strip_casts(r.get("e"))) == errk for r in rets)
    (rep.proved if ok else rep.violated)("R-PATH", fn, "returns-failure-count", "the function returns the number of failed sends")
    return len(paths)


def _origin(fn, e, depth=0):
    """where a value comes from: locals with one definition are followed; calls and parameters are named by role"""
    e = core.strip_casts(e)
    if e is None:
        return ("?",)
    k = e.get("k")
    if k == "ref" and e.get("dk") == "local" and depth < 4:
        defs = [x["y"] for _p, _r, x, _ps in fn.nodes() if x.get("k") == "bin" and x["op"] == "=" and core.is_ref(core.strip_casts(x["x"]), id=e.get("id"))]
        for _p, _r, x, _ps in fn.nodes():
            if x.get("k") == "decl":
                defs += [v["init"] for v in x.get("vars", []) if v.get("id") == e.get("id") and v.get("init") is not None]
        if len(defs) == 1:
            return _origin(fn, defs[0], depth + 1)
        return ("local", len(defs))
    if k == "ref" and e.get("dk") == "parm":
        return ("parm", fn.unit.tstr(e["t"]) if "t" in e else "")
    if k == "call":
        return ("call", e.get("fn")) + tuple(_origin(fn, a, depth + 1) for a in e.get("args", []))
    if k == "mem":
        return ("field", e.get("rec"), e.get("f"), _origin(fn, e.get("b"), depth + 1))
    if core.const_val(e) is not None:
        return ("const", core.const_val(e))
    return ("expr", key(e))


def countdown_initial(rep, u, field="active_thr_count", loop_fn="tpt_msg_broadcast_send__int"):
    """the countdown is decremented once per iteration of the send loop: by the receiving thread for a message that was
    sent, by the sender for a skipped or failed one.  Its initial value is therefore the number of iterations - the same
    quantity the loop is bounded by, not the number of threads that happen to run"""
    fl = tp.need(u, loop_fn)
    sends = [pos for pos, root, c, ps in fl.calls({"tpt_msg_send"})]
    hdr = [h for h, body in fl.loops().items() if sends and sends[0][0] in body]
    if not hdr or fl.blocks[hdr[0]].cond is None:
        raise driver.AnalysisBroken("send loop of %s not found" % loop_fn)
    c = core.strip_casts(fl.blocks[hdr[0]].cond)
    if not (c.get("k") == "bin" and c["op"] in ("<", ">", "!=")):
        raise driver.AnalysisBroken("send loop condition of %s has an unexpected form" % loop_fn)
    sides = [core.strip_casts(c["x"]), core.strip_casts(c["y"])]
    bound = [s_ for s_ in sides if not any(core.step_of(n) is not None and key(core.strip_casts(core.step_of(n)[0])) == key(s_)
                                           for _p, _r, n, _ps in fl.nodes())]
    if len(bound) != 1:
        raise driver.AnalysisBroken("send loop bound of %s not identified" % loop_fn)
    want = _origin(fl, bound[0])
    n = 0
    for fn in u.function_list:
        if fn.relfile() != tp.MSG_C or not fn.has_cfg:
            continue
        for pos, root, x, ps in fn.nodes():
            if x.get("k") == "bin" and x["op"] == "=" and core.strip_casts(x["x"]).get("k") == "mem" and core.strip_casts(x["x"]).get("f") == field:
                n += 1
                rep.functions.add(fn.name)
                got = _origin(fn, x["y"])
                desc = "%s: the countdown starts at the number of iterations of the send loop of %s" % (fn.name, loop_fn)
                ok = got == want
                if not ok and got[0] != want[0]:
                    rep.undecided("R-AGREE", fn, "countdown-initial@%s" % fn.name, desc, "the loop bound is %s and the initial value %s: "
                                  "different kinds of expression, equality not decided" % (want, got), x.get("ln"))
                    continue
                (rep.proved if ok else rep.violated)(
                    "R-AGREE", fn, "countdown-initial@%s" % fn.name, desc,
                    ("both are %s" % (want,)) if ok else "the loop runs %s times but the countdown starts at %s: a target that is skipped or fails is "
                    "subtracted by the sender although it was never counted (or the reverse), so the completion fires early or never" % (want, got),
                    x.get("ln"))
    return n


def completion_destination(rep, u):
    """the completion (done) message goes to the thread that issued the broadcast: at every site that posts the completion
    proxy, the destination argument of tpt_msg_send is the record's originator field (->tpt, directly or through a local that
    was loaded from it) and the source argument is not"""
    n = 0
    for fn in u.function_list:
        if not fn.has_cfg:
            continue
        orig_ids = core.result_locals(fn, field_suffix="tpt")
        for pos, root, c, ps in fn.calls({"tpt_msg_send"}):
            if len(c["args"]) < 5 or key(core.strip_casts(c["args"][3])) != "tpt_msg_cb_done_proxy_cb":
                continue
            n += 1
            rep.functions.add(fn.name)

            def is_orig(a):
                a = core.strip_casts(a)
                return (a.get("k") == "mem" and a.get("f") == "tpt" and a.get("rec") == REC) or (a.get("k") == "ref" and a.get("id") in orig_ids)
            desc = "%s posts the completion to the originator of the broadcast (the record's ->tpt)" % fn.name
            if is_orig(c["args"][0]) and not is_orig(c["args"][1]):
                rep.proved("R-SIB", fn, "completion-destination", desc, "destination %s" % key(core.strip_casts(c["args"][0])), c.get("ln"))
            else:
                rep.violated("R-SIB", fn, "completion-destination", desc, "the destination argument is %s and the source argument %s: the completion callback runs "
                             "on another thread than the one that asked for it" % (key(core.strip_casts(c["args"][0]))[:40], key(core.strip_casts(c["args"][1]))[:40]), c.get("ln"))
    return n


def completion(rep, u):
    n = 0
    # who references the completion proxy
    users = {}
    for fn in u.function_list:
        for pos, root, x, ps in fn.nodes():
            if x.get("k") == "ref" and x["n"] == "tpt_msg_cb_done_proxy_cb" and x.get("dk") == "fn":
                users.setdefault(fn.name, []).append(pos)
    want = {"tpt_msg_active_thr_count_dec", "tpt_msg_one_by_one_proxy_cb"}
    (rep.proved if set(users) == want else rep.violated)(
        "R-MPT", tp.need(u, "tpt_msg_cb_done_proxy_cb"), "completion-sites", "completion is posted only by the countdown reaching zero and by the "
        "terminal arm of the one-by-one chain", "posted from %s" % sorted(users))
    n += 1
    # countdown: posting guarded by snapshot == 0
    fn = tp.need(u, "tpt_msg_active_thr_count_dec")
    if "tpt_msg_active_thr_count_dec" in users:
        snap_ids = core.result_locals(fn, field_suffix=COUNT)
        r_mpt.check_guard(rep, fn, "snapshot==0", lambda x, ps: x.get("k") == "ref" and x.get("id") in snap_ids and x.get("dk") == "local",
                          (0, 1, 2), (0,), targets=users["tpt_msg_active_thr_count_dec"], target_desc="completion post",
                          require_dominance=True)
        n += 1
    # proxy: done_cb then free, nothing after free
    fp = tp.need(u, "tpt_msg_cb_done_proxy_cb")
    rep.functions.add(fp.name)
    dcs = [pos for pos, root, c, ps in fp.nodes() if c.get("k") == "call" and "callee" in c and "done_cb" in key(c["callee"])]
    frs = [pos for pos, root, c, ps in fp.calls({"free"})]
    ok = len(dcs) == 1 and len(frs) == 1 and fp.pos_dominates(dcs[0], frs[0]) and fp.pos_postdominates(frs[0], dcs[0])
    if ok:
        fb, fi = frs[0]
        later = list(fp.blocks[fb].elems[fi + 1:])
        for b in fp.reach_from(fp.blocks[fb].rsucc()):
            later.extend(fp.blocks[b].elems)
        ok = not any(x.get("k") == "mem" and x["arrow"] for e in later for x, _ in walk(e))
    (rep.proved if ok else rep.violated)("R-PAIR", fp, "done-then-free", "completion runs the user callback once, then frees the record, "
                                         "and does not touch it afterwards")
    n += 1
    # mutex destroy guarded by the same predicate as init
    fc = tp.need(u, "tpt_msg_cbsend")
    init_guard = None
    for pos, root, c, ps in fc.calls({"pthread_mutex_init", "pthread_mutexattr_init"}):
        # dominated by the false edge of the ONE_BY_ONE test
        init_guard = pos
    dg = [pos for pos, root, c, ps in fp.calls({"pthread_mutex_destroy"})]
    okg = False
    if init_guard is not None and dg:
        # init: reachable only when ONE_BY_ONE flag clear; destroy: same
        def clear_only(fn_, pos_):
            for bid, cnd, atom in r_mpt.branches_with(fn_, lambda x, ps: x.get("k") == "bin" and x["op"] == "&" and
                                                      any("TP_CBMSG_F_ONE_BY_ONE" in (core.macros(core.strip_imp(s_), ps + (x,)) or []) for s_ in (x["x"], x["y"]))):
                s1, k1 = r_mpt.edge_for_value(fn_, bid, cnd, atom, 1 << 16)
                s0, k0 = r_mpt.edge_for_value(fn_, bid, cnd, atom, 0)
                if k1 and k0 and not r_mpt.can_reach(fn_, s1, [pos_], avoid=[bid]) and r_mpt.can_reach(fn_, s0, [pos_], avoid=[bid]):
                    return True
            return False
        okg = clear_only(fc, init_guard) and clear_only(fp, dg[0])
    (rep.proved if okg else rep.violated)("R-PAIR", fc, "mutex-init-destroy-same-predicate",
                                          "the record's mutex is initialised and destroyed under the same (not ONE_BY_ONE) predicate")
    n += 1
    # one-by-one token: callback -> index advance -> next send
    fo = tp.need(u, "tpt_msg_one_by_one_proxy_cb")
    rep.functions.add(fo.name)
    cb = [pos for pos, root, c, ps in fo.nodes() if c.get("k") == "call" and "callee" in c and key(c["callee"]).endswith("->msg_cb")]
    inc = [pos for pos, root, x, ps in fo.nodes() if core.step_of(x) is not None and core.step_of(x)[1] == 1 and
           key(core.strip_casts(core.step_of(x)[0])).endswith("cur_thr_idx")]
    nxt = [pos for pos, root, c, ps in fo.calls({"tpt_msg_one_by_one_send_next__int"})]
    ok = len(cb) == 1 and inc and nxt and fo.pos_dominates(cb[0], inc[0]) and fo.pos_dominates(inc[0], nxt[0]) and \
        cb[0][0] not in fo.reach_from(fo.blocks[nxt[0][0]].rsucc())
    (rep.proved if ok else rep.violated)("R-MPT", fo, "one-by-one-order", "in one-by-one mode the user callback returns before the index "
                                         "advances and the next thread is messaged (no overlap)")
    n += 1
    return n


def self_once(rep, u):
    """one-by-one chains: the calling thread's callback is served by exactly one of the two sites that can serve it (the direct
    call in tpt_msg_cbsend, the end-of-chain send in tpt_msg_one_by_one_proxy_cb) unless SELF_SKIP is set, then by none.
    Finite-domain evaluation over the SELF_SKIP / SELF_DIRECT flag bits."""
    from rules import r_stride
    fa, fb = tp.need(u, "tpt_msg_cbsend"), tp.need(u, "tpt_msg_one_by_one_proxy_cb")
    rep.functions.update([fa.name, fb.name])
    vals = tp.probe(tp.MSG_C, {n: n for n in ("TP_BMSG_F_SELF_SKIP", "TP_MSG_F_SELF_DIRECT", "TP_CBMSG_F_ONE_BY_ONE")}, "probe:bmsgflags")
    if any(v is None for v in vals.values()):
        raise driver.AnalysisBroken("broadcast flag constants not foldable")
    S, D, O = vals["TP_BMSG_F_SELF_SKIP"], vals["TP_MSG_F_SELF_DIRECT"], vals["TP_CBMSG_F_ONE_BY_ONE"]
    # site A: indirect calls through the msg_cb parameter in cbsend
    a_sites = [(pos, c) for pos, root, c, ps in fa.nodes() if c.get("k") == "call" and "callee" in c and
               core.strip_casts(c["callee"]).get("k") == "ref" and core.strip_casts(c["callee"])["n"] == fa.params[3]["n"]]
    # site B: tpt_msg_send(..., tpt_msg_one_by_one_proxy_cb, ...) in the proxy itself
    b_sites = [(pos, c) for pos, root, c, ps in fb.calls({"tpt_msg_send"}) if any(key(core.strip_casts(a)) == fb.name for a in c["args"])]
    nxt = [c for pos, root, c, ps in fb.calls({"tpt_msg_one_by_one_send_next__int"})]
    desc = "in one-by-one mode the caller's own callback is served exactly once (never with SELF_SKIP), by the direct call or by the end-of-chain send"
    if not a_sites or len(b_sites) != 1 or len(nxt) != 1:
        rep.violated("R-STATE", fb, "self-once", desc, "sites not found: %d direct, %d end-of-chain, %d chain calls" % (len(a_sites), len(b_sites), len(nxt)))
        return 0
    n = 0
    bad = None
    undec = None
    for skip, direct in ((0, 0), (0, 1), (1, 0), (1, 1)):
        fl = O | (S if skip else 0) | (D if direct else 0)
        # the originator is one of the pool's slots: tp_thread_get(tp, its number) is the originator itself
        pe = r_stride.PE(u, call_default={"calloc": 0x900000, "tp_thread_get": 0x2000, "tpt_get_num": 1})
        binda = {"tp": 0x1000, "src": 0x2000, "flags": fl, "msg_cb": 0x3000, "udata": 0x4000, "done_cb": 0x5000,
                 "tp_thread_count_max_get(tp)": 4,
                 # the originator is a running thread of this pool and is the caller
                 "tpt_is_running(src)": 1, "tpt_get_tp(src)": 0x1000, "tpt_get_current()": 0x2000}
        ca = 0
        for pos, c in a_sites:
            r, path = pe.reach_stmt(fa, fa.entry, set(fa.reachable_blocks()), binda, pos[0], fa.blocks[pos[0]].elems[pos[1]])
            if r == "unsure":
                undec = "direct-call guard not evaluable"
            ca += 1 if r == "sure" else 0
        pe = r_stride.PE(u, call_default={"tp_thread_get": 0x1111, "tpt_get_num": 1})
        bindb = {"tpt": 0x2222, "udata": 0x6000, "msg_data": 0x6000, "msg_data->flags": fl, "msg_data->tpt": 0x1111, key(nxt[0]): 29,
                 # originator and forwarding thread belong to the same pool (the foreign-originator case is R-OBO's)
                 "tpt_get_tp(msg_data->tpt)": 0x1000, "tpt_get_tp(tpt)": 0x1000}
        pos, c = b_sites[0]
        r, path = pe.reach_stmt(fb, fb.entry, set(fb.reachable_blocks()), bindb, pos[0], fb.blocks[pos[0]].elems[pos[1]])
        if r == "unsure":
            undec = "end-of-chain guard not evaluable"
        cb = 1 if r == "sure" else 0
        n += 1
        want = 0 if skip else 1
        if ca + cb != want:
            bad = bad or "SELF_SKIP=%d SELF_DIRECT=%d: the caller's callback is served %d time(s) (direct call %d, end-of-chain send %d), expected %d" % (
                skip, direct, ca + cb, ca, cb, want)
    if bad:
        rep.violated("R-STATE", fb, "self-once", desc, bad)
    elif undec:
        rep.undecided("R-STATE", fb, "self-once", desc, undec)
    else:
        rep.proved("R-STATE", fb, "self-once", desc, "4 flag combinations")
    # an originator that belongs to the pool but is not one of its slots (the pool virtual thread, tp_thread_get_pvt) is no
    # target: neither site serves it, whatever the flags (tpt_get_tp(originator) == tp holds for it, the slot identity does not)
    bad2 = undec2 = None
    for skip, direct in ((0, 0), (0, 1)):
        fl = O | (S if skip else 0) | (D if direct else 0)
        pe = r_stride.PE(u, call_default={"calloc": 0x900000, "tp_thread_get": 0x7777, "tpt_get_num": 1})
        binda = {"tp": 0x1000, "src": 0x2000, "flags": fl, "msg_cb": 0x3000, "udata": 0x4000, "done_cb": 0x5000, "tp_thread_count_max_get(tp)": 4,
                 "tpt_is_running(src)": 1, "tpt_get_tp(src)": 0x1000, "tpt_get_current()": 0x2000}
        served = 0
        for pos, c in a_sites:
            r, path = pe.reach_stmt(fa, fa.entry, set(fa.reachable_blocks()), binda, pos[0], fa.blocks[pos[0]].elems[pos[1]])
            if r == "unsure":
                undec2 = "direct-call guard not evaluable"
            served += 1 if r == "sure" else 0
        # ... nor the "schedule the caller itself when the chain cannot start" send of tpt_msg_cbsend
        c_sites = [(pos_, c_) for pos_, root_, c_, ps_ in fa.calls({"tpt_msg_send"}) if any(key(core.strip_casts(a_)) == fb.name for a_ in c_["args"])]
        nxt_a = [c_ for pos_, root_, c_, ps_ in fa.calls({"tpt_msg_one_by_one_send_next__int"})]
        if nxt_a:
            pe = r_stride.PE(u, call_default={"calloc": 0x900000, "tp_thread_get": 0x7777, "tpt_get_num": 1})
            bindc = dict(binda)
            bindc[key(nxt_a[0])] = 29
            for pos_, c_ in c_sites:
                r, path = pe.reach_stmt(fa, fa.entry, set(fa.reachable_blocks()), bindc, pos_[0], fa.blocks[pos_[0]].elems[pos_[1]])
                if r == "unsure":
                    undec2 = "chain-failure guard not evaluable"
                served += 1 if r == "sure" else 0
        pe = r_stride.PE(u, call_default={"tp_thread_get": 0x7777, "tpt_get_num": 1})
        bindb = {"tpt": 0x2222, "udata": 0x6000, "msg_data": 0x6000, "msg_data->flags": fl, "msg_data->tpt": 0x1111, key(nxt[0]): 29,
                 "tpt_get_tp(msg_data->tpt)": 0x1000, "tpt_get_tp(tpt)": 0x1000}
        pos, c = b_sites[0]
        r, path = pe.reach_stmt(fb, fb.entry, set(fb.reachable_blocks()), bindb, pos[0], fb.blocks[pos[0]].elems[pos[1]])
        if r == "unsure":
            undec2 = "end-of-chain guard not evaluable"
        served += 1 if r == "sure" else 0
        n += 1
        if served:
            bad2 = bad2 or "SELF_DIRECT=%d: an originator with tpt_get_tp() == tp that is no slot of the pool (the virtual thread) is served %d time(s): 5 callbacks and sent = 5 in a pool of 4" % (direct, served)
    desc2 = "in one-by-one mode an originator that is not one of the pool's thread slots (the pool virtual thread) is not a target"
    (rep.violated if bad2 else rep.undecided if undec2 else rep.proved)("R-STATE", fb, "non-slot-originator-not-served", desc2, bad2 or undec2 or "2 flag combinations")
    # the chain walk skips exactly the originator (msg_data->tpt), whoever is forwarding at the moment
    fw = tp.need(u, "tpt_msg_one_by_one_send_next__int")
    rep.functions.add(fw.name)
    gets = [c for pos, root, c, ps in fw.calls({"tp_thread_get"})]
    sends = [(pos, c) for pos, root, c, ps in fw.calls({"tpt_msg_send"})]
    desc2 = "the one-by-one walk skips the originating thread and only that thread, whichever thread forwards"
    if len(gets) != 1 or len(sends) != 1:
        rep.violated("R-STATE", fw, "skip-originator", desc2, "walk not recognised: %d tp_thread_get, %d tpt_msg_send" % (len(gets), len(sends)))
        return n
    ORIG, FWD, OTHER = 0x1111, 0x2222, 0x3333
    bad2 = None
    und2 = None
    for cand, nm in ((ORIG, "the originator"), (FWD, "the forwarding thread"), (OTHER, "a third thread")):
        pe = r_stride.PE(u)
        bind = {"tp": 0x1000, "src": FWD, "msg_data": 0x6000, "msg_data->tpt": ORIG, "msg_data->cur_thr_idx": 0, "msg_data->flags": O,
                "tp_thread_count_max_get(tp)": 3, key(gets[0]): cand}
        pos, c = sends[0]
        r, _ = pe.reach_stmt(fw, fw.entry, set(fw.reachable_blocks()), bind, pos[0], fw.blocks[pos[0]].elems[pos[1]])
        n += 1
        if r == "unsure":
            und2 = "skip test not evaluable"
        elif (r == "sure") != (cand != ORIG):
            bad2 = bad2 or "%s is %s" % (nm, "sent to" if r == "sure" else "skipped")
    if bad2:
        rep.violated("R-STATE", fw, "skip-originator", desc2, bad2 + " (originator, forwarder and a third thread evaluated)")
    elif und2:
        rep.undecided("R-STATE", fw, "skip-originator", desc2, und2)
    else:
        rep.proved("R-STATE", fw, "skip-originator", desc2, "originator skipped; forwarder and third thread sent to")
    return n


def slot_lookup(rep, fname="tp_thread_get"):
    """R-SPEC slot-lookup: every "is the originator one of the pool's workers" test of the broadcast code is spelt
    `tp_thread_get(tp, tpt_get_num(src)) == src`.  It means that only if the lookup answers NULL for every number that is not a
    worker's - in particular for `threads_max`, the slot of the pool's virtual thread, which lies inside the array.  The lookup
    is evaluated for numbers below, at and above the configured count."""
    from rules import r_stride
    us0 = tp.units((tp.TP_C,))
    rep.use_units(us0)
    u0 = us0[tp.TP_C]
    fn = tp.need(u0, fname)
    rep.functions.add(fn.name)
    TP, ARR = 0x10000, 0x20000
    tpn, num = fn.params[0]["n"], fn.params[1]["n"]
    n = 0
    bad = undec = None
    for tmax, k in itertools.product((1, 4, 16), (0, -1, 0.5, 1, 2, 1000)):
        i = {0: 0, -1: tmax - 1, 0.5: tmax // 2, 1: tmax, 2: tmax + 1, 1000: tmax + 1000}[k]
        pe = r_stride.PE(u0)
        ev, ret = pe.trace(fn, {tpn: TP, num: i, tpn + "->s.threads_max": tmax, tpn + "->threads": ARR})
        what = "%d workers, thread number %d" % (tmax, i)
        if isinstance(ret, str):
            undec = undec or "%s: %s" % (what, ret)
            continue
        n += 1
        if i >= tmax and ret != 0:
            bad = bad or ("%s: the lookup answers a slot instead of NULL%s" % (
                what, " - slot %d is the pool's virtual thread, which then counts as a broadcast target/originator worker" % tmax if i == tmax else ""))
        elif i < tmax and (not isinstance(ret, int) or ret == 0):
            bad = bad or "%s: the lookup answers %s for a worker's number" % (what, ret)
    desc = "tp_thread_get answers a slot exactly for numbers below threads_max; the virtual thread's slot (number threads_max) and anything above give NULL"
    (rep.violated if bad else rep.undecided if undec else rep.proved)("R-SPEC", fn, "slot-lookup", desc, bad or undec or "%d classes" % n)
    return n


def run(rep, tier):
    us = tp.units((tp.MSG_C,))
    rep.use_units(us)
    u = us[tp.MSG_C]
    n1 = lock_rule(rep, u)
    n2 = no_deref_after_release(rep, u)
    n3 = ownership(rep, u)
    n4 = send_loop(rep, u)
    n5 = completion(rep, u)
    rep.floor("completion post sites", completion_destination(rep, u), 2)
    rep.floor("self-serving flag combinations", self_once(rep, u), 4)
    rep.floor("countdown initialisations", countdown_initial(rep, u), 2)
    rep.floor("slot lookup classes", slot_lookup(rep), 18)
    rep.floor("countdown accesses", n1, 6)
    rep.floor("countdown release sites", n2, 1)
    rep.floor("cbsend paths from allocation", n3, 5)
    rep.floor("send loop body paths", n4, 3)
    # the accounting above takes "tpt_msg_send returned non-zero" to mean "the callback did not and will not run for this
    # target": the outcome table of tpt_msg_send (return value, number of direct calls per path class) is C05's rule
    from props import c05
    rep.floor("tpt_msg_send acyclic paths", c05.send_paths(rep, tp.need(u, "tpt_msg_send")), 10)
    from props import c10_audit
    fl = tp.probe(tp.MSG_C, {"SYNC": "TP_BMSG_F_SYNC", "USLEEP": "TP_BMSG_F_SYNC_USLEEP", "SELF_DIRECT": "TP_MSG_F_SELF_DIRECT",
                             "SELF_SKIP": "TP_BMSG_F_SELF_SKIP"}, "probe:bmsgflags2")
    if any(v is None for v in fl.values()):
        raise driver.AnalysisBroken("broadcast flag constants not foldable")
    rep.floor("sites that act on behalf of the originator", c10_audit.self_membership_rule(rep, u), 3)
    rep.floor("bsend_ex direct calls and single sends", c10_audit.bsend_count_rule(rep, u), 2)
    rep.floor("synchronous broadcast send sites", c10_audit.sync_self_rule(rep, u, fl), 1)
    c10_audit.sync_waiter_rule(rep, u, fl)
    c10_audit.sync_mask_rule(rep, u, fl)
    rep.floor("one-by-one chain starters", c10_audit.obo_sibling_rule(rep, u), 2)
    c10_audit.origin_running_rule(rep, u)
    rep.floor("plain-mode exits of cbsend", c10_audit.cbsend_exit_rules(rep, u), 2)
    return driver.finish(
        rep, "other",
        "Static analysis of the broadcast code in threadpool_msg_sys.c. Decided: the shared countdown is touched only "
        "under its lock after publication; no dereference of the record after the countdown releases the lock (the clause "
        "'does not touch the caller's memory afterwards'); the heap record is disposed of on every path; per-target accounting "
        "of sent/failed; single guarded completion site that frees after the user callback; one-by-one ordering. NOT decided: "
        "once-per-thread and completion-after-all under interleavings.",
        ["pthread mutex semantics", "tpt_msg_send returning 0 transfers the message to the destination"], TRUSTED)
