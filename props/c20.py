"""C20 — HTTP request parsing and smuggling checks: structural clauses.

Decided:
  * R-RULES   http_req_sec_chk's rule section, evaluated over every combination of the three field counts (0,1,2) and the method
              (GET / other): it returns 0 exactly when Host <= 1, Content-Length <= 1, Transfer-Encoding <= 1, not (Content-Length
              and GET) and not (Content-Length and Transfer-Encoding); every refusal has its own code.
  * R-LIT     the three counted field names are the RFC names in lower case and their length arguments equal the literal lengths.
  * R-CLASS   the byte scan classifies each of the 256 byte values (with each relevant following byte and with/without a following
              byte): control bytes other than HTAB and CRLF, bytes > 126, a bare CR or LF are refused with 2; SP directly before
              ':' with 1; everything else continues.
  * R-FOLD    http_hdr_val_get_ex treats CRLF followed by SP or HTAB as a continuation of the value and anything else as the end
              of the field (byte window after the CRLF match, all 256 values).
  * R-MPT     a field is reported as found only when mem_cmpin (the case-insensitive comparator) returned 0 for its name.
  * R-COUNT   http_hdr_val_get_count bumps its result once per successful http_hdr_val_get_ex and threads the same offset variable
              in and out.
  * R-TBL     http_get_method_fast returns the table index of exactly the method whose spelling equals the input, for every table
              entry, and UNKNOWN when no comparison matches.
Not decided: that every returned span equals the RFC 7230/3986 delimitation, path trimming, query access.
"""
import itertools
from rules import driver, core, r_mpt, r_stride
from rules.core import key, walk, strip_casts, const_val
from props import common, fixtures

HTTP_C = "src/proto/http.c"
TRUSTED = ["clang 14 front end + CFG builder", "tool/lcbfacts.cc", "rules/r_stride.py partial evaluator", "python3"]
NAMES = {"host": "Host", "content-length": "Content-Length", "transfer-encoding": "Transfer-Encoding"}


HTTP_C_PORTABLE = HTTP_C + " [-UHAVE_STRNCASECMP]"


def specs():
    # second configuration: a platform without strncasecmp compiles the repository's own case-insensitive comparison
    return [common.src_unit(HTTP_C), common.src_unit(HTTP_C, label=HTTP_C_PORTABLE, cflags=("-UHAVE_STRNCASECMP",))]


def need(u, name):
    fn = u.fn(name)
    if fn is None:
        raise driver.AnalysisBroken("anchor %s vanished" % name)
    return fn


def _str_of(arg):
    a = strip_casts(arg)
    while a.get("k") == "cast":
        a = a["e"]
    if a.get("k") != "str":
        return None
    if "v" in a:
        return a["v"]
    if "hex" in a:
        return bytes.fromhex(a["hex"]).decode("latin-1")
    return None


# ------------------------------------------------------------------ R-RULES / R-LIT

def rules_section(rep, u, consts):
    fn = need(u, "http_req_sec_chk")
    rep.functions.add(fn.name)
    counts = {}
    for pos, root, c, ps in fn.calls({"http_hdr_val_get_count"}):
        s = _str_of(c["args"][2])
        ln = const_val(c["args"][3])
        inst = "literal:%s" % s
        desc = "the field counted for the rule is spelled as in RFC 7230 (lower case) with the matching length argument"
        if s is None:
            rep.undecided("R-LIT", fn, "literal@%s" % c.get("ln"), desc, "field name is not a literal")
            continue
        counts[s] = key(c)
        if s in NAMES and ln == len(s):
            rep.proved("R-LIT", fn, inst, desc, "%r, %d" % (s, ln), c.get("ln"))
        else:
            rep.violated("R-LIT", fn, inst, desc, "%r with length argument %s (literal has %d bytes%s)" % (
                s, ln, len(s), "" if s in NAMES else "; not one of %s" % sorted(NAMES)), c.get("ln"))
    missing = [s for s in NAMES if s not in counts]
    if missing:
        rep.violated("R-LIT", fn, "literals", "Host, Content-Length and Transfer-Encoding are all counted", "not counted: %s" % missing)
        return 0
    pe = r_stride.PE(u)
    GET = consts["HTTP_REQ_METHOD_GET"]
    n = 0
    codes = {}
    bad = None
    undec = None
    for h, cl, te, meth in itertools.product((0, 1, 2), (0, 1, 2), (0, 1, 2), (GET, consts["HTTP_REQ_METHOD_POST"])):
        bind = {"http_hdr": 0x10000, "hdr_size": 0, "method_code": meth, counts["host"]: h, counts["content-length"]: cl,
                counts["transfer-encoding"]: te}
        outs = pe.explore(fn, fn.entry, bind)
        n += 1
        vals = {(o[1], o[2]) for o in outs if o[0] == "ret"}
        if len(vals) != 1 or not list(vals)[0][1] or list(vals)[0][0] is None:
            undec = "result not determined for host=%d content-length=%d transfer-encoding=%d: %s" % (h, cl, te, sorted(vals, key=str))
            continue
        got = list(vals)[0][0]
        reasons = []
        if h > 1:
            reasons.append("host")
        if cl > 1:
            reasons.append("cl")
        if cl and meth == GET:
            reasons.append("get-body")
        if te > 1:
            reasons.append("te")
        if cl and te:
            reasons.append("both")
        if (got == 0) != (not reasons):
            bad = bad or "host=%d content-length=%d transfer-encoding=%d method=%s returns %d (smuggling patterns present: %s)" % (
                h, cl, te, "GET" if meth == GET else "POST", got, reasons or "none")
        if got != 0 and len(reasons) == 1:
            codes.setdefault(reasons[0], set()).add(got)
    desc = "http_req_sec_chk accepts exactly the header blocks with none of the duplicate / conflicting framing patterns"
    if bad:
        rep.violated("R-RULES", fn, "rule-table", desc, bad)
    elif undec:
        rep.undecided("R-RULES", fn, "rule-table", desc, undec)
    else:
        rep.proved("R-RULES", fn, "rule-table", desc, "%d combinations of counts and method" % n)
    distinct = all(len(v) == 1 for v in codes.values()) and len({list(v)[0] for v in codes.values()}) == len(codes) and len(codes) == 5
    (rep.proved if distinct else rep.violated)("R-RULES", fn, "distinct-codes", "each of the five patterns is refused with its own code", str({k_: sorted(v) for k_, v in codes.items()}))
    return n


# ------------------------------------------------------------------ R-CLASS

def byte_scan(rep, u):
    fn = need(u, "http_req_sec_chk")
    loops = fn.loops()
    # the scan loop: the loop that dereferences its cursor and is left before the first count call
    head = None
    for h, body in loops.items():
        if any(x.get("k") == "un" and x.get("op") == "*" for b in body for e in fn.blocks[b].elems for x, _ in walk(e)):
            head = h
    desc = "the scan refuses control bytes (except HTAB and CRLF), bytes above 126 and SP before ':', and passes every other byte"
    if head is None:
        rep.violated("R-CLASS", fn, "byte-scan", desc, "no scanning loop found")
        return 0
    body = loops[head]
    # cursor variable: the pointer compared in the loop head condition
    cur = None
    endv = None
    hc = fn.blocks[head].cond
    for r in core.refs(hc) if hc is not None else []:
        t = fn.unit.type(r["t"])
        if t["k"] == "ptr":
            if cur is None:
                cur = r["n"]
            else:
                endv = r["n"]
    c0 = strip_casts(hc)
    if c0.get("k") == "bin" and c0["op"] in ("<", ">"):
        a, b = strip_casts(c0["x"]), strip_casts(c0["y"])
        cur, endv = (a["n"], b["n"]) if c0["op"] == "<" else (b["n"], a["n"])
    # extent of the scan: from the first byte of the block to its last one: limit = http_hdr + hdr_size (linear normal form)
    from props import c17
    p0, p1 = fn.params[0]["n"], fn.params[1]["n"]
    lim_defs = [x["y"] for _p, _r, x, _ps in fn.nodes() if x.get("k") == "bin" and x["op"] == "=" and core.is_ref(strip_casts(x["x"]), name=endv)
                and fn.pos_dominates(_p, (head, 0))]
    start_defs = [x["y"] for _p, _r, x, _ps in fn.nodes() if x.get("k") == "bin" and x["op"] == "=" and core.is_ref(strip_casts(x["x"]), name=cur)
                  and fn.pos_dominates(_p, (head, 0)) and _p[0] not in body]
    desc_e = "the scan runs over the whole block: from %s to %s + %s, cursor compared with '<'" % (p0, p0, p1)
    lim = c17._lin(fn, lim_defs[-1]) if lim_defs else None
    st = c17._lin(fn, start_defs[-1]) if start_defs else None
    if lim is None or st is None:
        rep.undecided("R-CLASS", fn, "scan-extent", desc_e, "limit or start of the scan not found as a linear expression")
    elif {k_: v for k_, v in lim.items() if v} == {p0: 1, p1: 1} and {k_: v for k_, v in st.items() if v} == {p0: 1} and c0.get("op") in ("<", ">"):
        rep.proved("R-CLASS", fn, "scan-extent", desc_e, "limit %s" % key(lim_defs[-1]))
    else:
        rep.violated("R-CLASS", fn, "scan-extent", desc_e, "the cursor starts at %s and stops at %s: %s" % (
            key(start_defs[-1])[:40], key(lim_defs[-1])[:50],
            "the last byte(s) of the block are never examined" if lim.get("", 0) < 0 else "the scan leaves the block"))
    P = 0x20000
    # the first block of the loop body = successor of the head inside the body
    first = [s for s in fn.blocks[head].succ if s in body][0]
    exits = {s for b in body for s in fn.blocks[b].rsucc() if s not in body}
    n = 0
    bad = None
    undec = None
    # scan state kept between bytes (flags such as "inside the field name"): every valuation is evaluated; the state may
    # only decide whether HTAB ':' is refused (htab_name_rule states when it must be)
    state = sorted({r["n"] for b in body for e in fn.blocks[b].elems for r in core.refs(e)
                    if r.get("dk") == "local" and fn.unit.type(r["t"])["k"] == "int" and r["n"] not in (cur, endv)})
    if len(state) > 3:
        rep.undecided("R-CLASS", fn, "byte-scan", desc, "more than three state variables in the scan loop: %s" % state)
        return 0
    import itertools as _it
    for c in range(256):
        nexts = sorted({ord(":"), 10, 65, c})
        for (nx, have_next), sv in _it.product([(x, True) for x in nexts] + [(0, False)], _it.product((0, 1), repeat=len(state))):
            pe = r_stride.PE(u)
            pe.memory = {P: c}
            if have_next:
                pe.memory[P + 1] = nx
            bind = {cur: P, endv: P + (2 if have_next else 1), "http_hdr": P}
            bind.update(dict(zip(state, sv)))
            outs = pe.explore(fn, first, bind, stops={head})
            n += 1
            kinds = set()
            for o in outs:
                if o[0] == "ret":
                    kinds.add(("ret", o[1], o[2]))
                else:
                    kinds.add(("continue" if o[1] == head else "exit", None, o[2]))
            if len(kinds) != 1 or not list(kinds)[0][2]:
                undec = undec or "byte 0x%02x followed by %s: outcome not determined (%s)" % (c, ("0x%02x" % nx) if have_next else "nothing", sorted(kinds, key=str))
                continue
            k0 = list(kinds)[0]
            if c > 126:
                want = ("ret", 2)
            elif c == 32 and have_next and nx == ord(":"):
                want = ("ret", 1)
            elif c > 31 or c == 9:
                want = ("continue", None)
            elif c == 13 and have_next and nx == 10:
                want = ("continue", None)
            else:
                want = ("ret", 2)
            if c == 9 and have_next and nx == ord(":") and state and (k0[0], k0[1]) == ("ret", 1):
                continue                                   # HTAB ':' refused in this scan state
            if (k0[0], k0[1]) != want:
                bad = bad or "byte 0x%02x followed by %s: %s, expected %s" % (c, ("0x%02x" % nx) if have_next else "the end of the block", k0[:2], want)
    if bad:
        rep.violated("R-CLASS", fn, "byte-scan", desc, bad)
    elif undec:
        rep.undecided("R-CLASS", fn, "byte-scan", desc, undec)
    else:
        rep.proved("R-CLASS", fn, "byte-scan", desc, "%d (byte, next byte) classes evaluated on the loop body" % n)
    return n


def htab_name_rule(rep, u):
    """whitespace between a field name and its colon is refused for both spellings (SP, HTAB); HTAB ':' inside a field value
    or on a continuation line is content and passes (the block has none of the listed patterns).  Evaluated by running the
    scan of http_req_sec_chk over small concrete blocks in the partial evaluator."""
    fn = need(u, "http_req_sec_chk")
    loops = fn.loops()
    head = None
    for h, body in loops.items():
        if any(x.get("k") == "un" and x.get("op") == "*" for b in body for e in fn.blocks[b].elems for x, _ in walk(e)):
            head = h
    if head is None:
        raise driver.AnalysisBroken("http_req_sec_chk: scan loop not found")
    body = loops[head]
    exits = {s_ for b in body for s_ in fn.blocks[b].rsucc() if s_ not in body and not any(e.get("k") == "ret" for e in fn.blocks[s_].elems)}
    P = 0x20000
    n = 0
    cases = [(b"G / H\r\nA\t: 1", 1, "HTAB between the first field name and its colon"),
             (b"G / H\r\nA : 1", 1, "SP between the field name and its colon"),
             (b"G / H\r\nA: b\r\nCd\t:e", 1, "HTAB between a later field name and its colon"),
             (b"G / H\r\nA: b\r\nCd\t:e\r\nF: g", 1, "HTAB before the colon of a middle field"),
             (b"G / H\r\nA: b\t:c", 0, "HTAB ':' inside a field value"),
             (b"G / H\r\nA: b\r\n\t:c", 0, "HTAB ':' on a continuation line"),
             (b"G / H\r\nA: b\r\n c\t:d", 0, "HTAB ':' later on a continuation line"),
             (b"G / H\r\nA: b", 0, "plain block"),
             (b"G / H\r\n A: b\r\nC: d", 1, "SP in front of the first field line (it would continue the request line and hide the field)"),
             (b"G / H\r\n\tA: b", 1, "HTAB in front of the first field line"),
             (b"G / H\r\nA: b\r\n c\r\nD: e", 0, "continuation line after a field")]
    for blk, want, what in cases:
        pe = r_stride.PE(u)
        pe.memory = {P + i: c for i, c in enumerate(blk)}
        bind = {fn.params[0]["n"]: P, fn.params[1]["n"]: len(blk), fn.params[2]["n"]: 1}
        outs = pe.explore(fn, fn.entry, bind, stops=exits)
        n += 1
        kinds = {(o[0], o[1] if o[0] == "ret" else None, o[2]) for o in outs}
        inst = "name-colon-whitespace[%s]" % what
        desc = "http_req_sec_chk: %s is %s" % (what, "refused (rule 1)" if want else "passed by the byte scan")
        if len(kinds) != 1 or not list(kinds)[0][2]:
            rep.undecided("R-CLASS", fn, inst, desc, "outcome not determined: %s" % sorted(kinds, key=str)[:3])
            continue
        k0 = list(kinds)[0]
        got = k0[1] if k0[0] == "ret" else 0
        if got == want:
            rep.proved("R-CLASS", fn, inst, desc, "scan result %s" % got)
        elif want:
            rep.violated("R-CLASS", fn, inst, desc, "the scan passes %r: 'Content-Length HTAB :' is neither refused nor counted by the duplicate rules (the name compared is "
                         "\"content-length\\t\"), so a second framing field goes through" % blk.decode("latin1"))
        else:
            rep.violated("R-CLASS", fn, inst, desc, "the scan returns %s for %r, a block with none of the listed patterns" % (got, blk.decode("latin1")))
    return n


def colon_in_line_rule(rep, u, fname="http_hdr_val_get_ex"):
    """the ':' that ends a field name is searched inside that line: its search limit is derived from the line end (the CRLF
    search), not from the end of the block - otherwise a line without ':' takes the next line's colon, the next field
    (Host, Content-Length, Transfer-Encoding) disappears from the counts and rules 3-7 of the security check stay silent"""
    fn = need(u, fname)
    rep.functions.add(fname)
    colon = [(pos, c) for pos, root, c, ps in fn.calls() if (c.get("fn") or "").startswith(("mem_chr", "memchr")) and any(const_val(a) == 0x3a for a in c["args"])]
    if not colon:
        raise driver.AnalysisBroken("%s: the ':' search not found" % fname)
    crlf_locals = set()
    for pos, root, x, ps in fn.nodes():
        if x.get("k") == "bin" and x["op"] == "=" and core.is_ref(strip_casts(x["x"])) and strip_casts(x["x"]).get("dk") == "local":
            r = strip_casts(x["y"])
            if r.get("k") == "call" and (r.get("fn") or "").startswith("mem_find") and any(_str_of(a) == "\r\n" for a in r["args"]):
                crlf_locals.add(strip_casts(x["x"])["id"])
    n = 0
    for pos, c in colon:
        n += 1
        lim = [a for a in c["args"][1:] if core.ref_ids(a) & crlf_locals]
        ok = bool(lim)
        desc = "%s: the field-name colon is searched up to the end of the line" % fname
        (rep.proved if ok else rep.violated)("R-FOLD", fn, "name-colon-inside-line", desc, "limit %s" % key(lim[0])[:40] if ok else
                                             "the search runs to the end of the block (%s): \"Host: a\\r\\nX\\r\\nHost: b\" has one visible Host (the name of the second is \"X\\r\\nHost\"), "
                                             "http_req_sec_chk returns 0 for it and for the same trick with Content-Length / Transfer-Encoding" % ", ".join(key(a)[:20] for a in c["args"][1:3]), c.get("ln"))
    return n


def remove_fold_end_rule(rep, u, fname="http_hdr_val_remove"):
    """the field to remove includes its continuation lines also when the last of them ends the block without a CRLF: once
    the search for the next CRLF inside the continuation loop finds nothing, the fallback that looks for a lone LF from the
    field name on (it would find the LF of the fold itself) must not run.  Decided by exploring the function from the
    continuation search with its result bound to NULL (partial evaluator, everything else unknown)."""
    fn = need(u, fname)
    rep.functions.add(fname)
    loops = fn.loops()
    crlf = []
    for pos, root, c, ps in fn.calls():
        if (c.get("fn") or "").startswith("mem_find") and any(_str_of(a) == "\r\n" for a in c["args"]):
            hs = [h for h, b in loops.items() if pos[0] in b]
            if hs:
                crlf.append((min(len(loops[h]) for h in hs), pos, c))
    lf = [pos for pos, root, c, ps in fn.calls() if (c.get("fn") or "").startswith("mem_chr") and any(const_val(a) == 10 for a in c["args"])]
    desc0 = "%s: the end of the field to remove is searched past its continuation lines (CRLF followed by SP / HTAB)" % fname
    nested = [t for t in crlf if len([h for h, b in loops.items() if t[1][0] in b]) >= 2]
    if not nested:
        prim = {"mem_find_ptr", "mem_find_ptr_cstr", "mem_chr_ptr", "memcmp", "memmove", "mem_find", "mem_find_cstr", "mem_chr", "__builtin_memcmp", "__builtin___memmove_chk"}
        others = {c.get("fn") for _p, _r, c, _ps in fn.calls()} - prim
        if crlf and not others:
            rep.violated("R-FOLD", fn, "continuation-lines-followed", desc0, "the CRLF search runs once per field and no loop follows continuation lines: of a folded field only "
                         "the first physical line is removed, the rest is appended to the field before it")
            return 1
        raise driver.AnalysisBroken("%s: continuation loop with a CRLF search not found" % fname)
    rep.proved("R-FOLD", fn, "continuation-lines-followed", desc0, "CRLF search inside a nested loop")
    crlf = nested + [t for t in crlf if t not in nested]
    _sz, pos, call = min(nested, key=lambda t: t[0])
    desc = "%s: a folded field whose last continuation line ends the block is removed to the end of the block" % fname
    if not lf:
        rep.proved("R-FOLD", fn, "folded-last-field-removed-whole", desc, "no lone-LF fallback in the function")
        return 1
    pe = r_stride.PE(u)
    bind = {key(call): 0}
    for i, p_ in enumerate(fn.params):
        bind[p_["n"]] = 0x20000 * (i + 1) if fn.unit.type(p_["t"])["k"] == "ptr" else 64
    # the end of the field is decided when the removal (memmove) starts: the exploration stays within this field
    moves = {p_[0] for p_, _r, c_, _ps in fn.calls() if "memmove" in (c_.get("fn") or "")}
    if not moves:
        raise driver.AnalysisBroken("%s: removal (memmove) not found" % fname)
    lfb = {p_[0] for p_ in lf}
    outs = pe.explore(fn, pos[0], bind, stops=lfb | moves)
    hit = [o for o in outs if o[0] == "stop" and o[1] in lfb]
    (rep.violated if hit else rep.proved)("R-FOLD", fn, "folded-last-field-removed-whole", desc,
                                          "after the continuation search returns NULL the lone-LF search at line %s runs from the field name: it finds the LF of the fold, only the "
                                          "first physical line is removed and \"\\r\\n evil=1\" is appended to the field before it" % fn.blocks[lf[0][0]].elems[lf[0][1]].get("ln") if hit else
                                          "outcomes: %s" % sorted({o[0] for o in outs}))
    return 1


def min_size_rule(rep, u, fname="http_parse_resp_line"):
    """the size the function demands up front is exactly what its fixed-position tests read: one more than the highest
    constant index (less: a read behind the block; more: the shortest legal status line "HTTP/1.1 204 " is refused)"""
    fn = need(u, fname)
    rep.functions.add(fname)
    buf, size = fn.params[0], fn.params[1]
    hi = -1
    for pos, root, x, ps in fn.nodes():
        if x.get("k") == "sub" and core.is_ref(strip_casts(x["b"]), name=buf["n"]) and const_val(x["i"]) is not None:
            hi = max(hi, const_val(x["i"]))
    guards = []
    for bid in fn.reachable_blocks():
        c = fn.blocks[bid].cond
        if c is None:
            continue
        for y, _ in walk(c):
            if y.get("k") == "bin" and y["op"] in ("<", ">", "<=", ">="):
                a, b = strip_casts(y["x"]), strip_casts(y["y"])
                for cst, var, op in ((a, b, y["op"]), (b, a, {"<": ">", ">": "<", "<=": ">=", ">=": "<="}[y["op"]])):
                    if const_val(cst) is not None and core.is_ref(var, name=size["n"]):
                        # normalised: const OP size
                        k_ = const_val(cst)
                        need_ = {">": k_, ">=": k_ + 1}.get(op)      # refused when size < need_
                        if need_ is not None:
                            guards.append((need_, y))
    desc = "%s: the size demanded up front is one more than the highest fixed index tested (%d)" % (fname, hi)
    if hi < 0 or not guards:
        raise driver.AnalysisBroken("%s: fixed-index tests or the size guard not found" % fname)
    need_, y = max(guards, key=lambda t: t[0])
    if need_ == hi + 1:
        rep.proved("R-SPAN", fn, "minimal-size", desc, "%s with indices up to %d" % (key(y), hi))
    elif need_ > hi + 1:
        rep.violated("R-SPAN", fn, "minimal-size", desc, "%s refuses blocks of %d bytes although nothing behind index %d is read: the status line \"HTTP/1.1 204 \" "
                     "(empty reason phrase, %d bytes) is rejected" % (key(y), hi + 1, hi, hi + 1), y.get("ln"))
    else:
        rep.violated("R-SPAN", fn, "minimal-size", desc, "%s admits blocks of %d bytes, index %d is read" % (key(y), need_, hi), y.get("ln"))
    return 1


def trim_rule(rep, u, fname="skip_spwsp2"):
    """the trimmed size does not depend on whether the pointer is asked for"""
    fn = need(u, fname)
    rep.functions.add(fname)
    pn = [p_["n"] for p_ in fn.params]
    n = 0
    for blk in (b"abc", b"\t  abc  ", b" a", b"a ", b"  ", b" a b "):
        want = len(blk.strip(b" \t"))
        res = []
        for ptr in (0x7000, 0):
            pe = r_stride.PE(u)
            pe.memory = {0x20000 + i: c for i, c in enumerate(blk)}
            ev, ret = pe.trace(fn, {pn[0]: 0x20000, pn[1]: len(blk), pn[2]: ptr, pn[3]: 0x7100})
            res.append((ret, ev[-1][1].get("*(%s)" % pn[3]) if ev else None))
        n += 1
        inst = "trimmed-size[%r]" % blk.decode()
        desc = "%s(%r): the size is %d with and without the pointer out-parameter" % (fname, blk.decode(), want)
        if any(isinstance(r_[0], str) or not isinstance(r_[1], int) for r_ in res):
            rep.undecided("R-TRIM", fn, inst, desc, "not evaluated: %s" % (res,))
        elif all(r_ == (0, want) for r_ in res):
            rep.proved("R-TRIM", fn, inst, desc, "")
        else:
            rep.violated("R-TRIM", fn, inst, desc, "size %s with the pointer, %s without: the leading blanks are skipped only when the pointer is asked for, so "
                         "http_hdr_val_get(.., NULL, &size) counts the OWS after the colon" % (res[0][1], res[1][1]))
    return n


# ------------------------------------------------------------------ R-FOLD / R-MPT on the field iterator

def fold_rule(rep, u):
    fn = need(u, "http_hdr_val_get_ex")
    rep.functions.add(fn.name)
    loops = fn.loops()
    # calls that search for CRLF inside a loop: bind each to the match address
    crlf_calls = []
    for pos, root, c, ps in fn.calls():
        if (c.get("fn") or "").startswith("mem_find") and any(_str_of(a) == "\r\n" for a in c["args"]):
            inner = None
            for h, body in loops.items():
                if pos[0] in body and (inner is None or len(body) < len(loops[inner])):
                    inner = h
            crlf_calls.append((pos, c, inner))
    desc = "CRLF followed by SP or HTAB continues the field value; CRLF followed by anything else ends the field"
    cands = [x for x in crlf_calls if x[2] is not None]
    # the LWS loop is the innermost loop with a CRLF search
    if not cands:
        rep.violated("R-FOLD", fn, "obs-fold", desc, "no loop searching for CRLF found")
        return 0
    pos, call, head = min(cands, key=lambda x: len(loops[x[2]]))
    body = loops[head]
    exits = {s for b in body for s in fn.blocks[b].rsucc() if s not in body}
    S, END = 0x20010, 0x20100
    sep = None
    # variable receiving the search result
    for e in fn.blocks[pos[0]].elems:
        if e.get("k") == "bin" and e["op"] == "=" and any(x is call for x, _ in walk(e["y"])):
            sep = key(strip_casts(e["x"]))
    if sep is None:
        rep.undecided("R-FOLD", fn, "obs-fold", desc, "result variable of the CRLF search not found")
        return 0
    n = 0
    bad = None
    undec = None
    endk = None
    for x, _ in fn_nodes(fn):
        pass
    for c in range(256):
        pe = r_stride.PE(u)
        pe.memory = {S: 13, S + 1: 10, S + 2: c, S + 3: 65}
        bind = {key(call): S, "http_hdr": 0x20000, "hdr_size": END - 0x20000, "http_hdr_end": END, "val": 0x20008, sep: 0x20008}
        outs = pe.explore(fn, pos[0], bind, stops={head} | exits)
        n += 1
        kinds = {("continue" if o[1] == head else "end", o[2]) if o[0] == "stop" else ("ret", o[2]) for o in outs}
        if len(kinds) != 1 or not list(kinds)[0][1]:
            undec = undec or "byte 0x%02x after CRLF: outcome not determined %s" % (c, sorted(kinds, key=str))
            continue
        got = list(kinds)[0][0]
        want = "continue" if c in (9, 32) else "end"
        if got != want:
            bad = bad or "byte 0x%02x after CRLF is treated as %s of the field value, expected %s" % (
                c, "a continuation" if got == "continue" else "the end", "a continuation" if want == "continue" else "the end")
    if bad:
        rep.violated("R-FOLD", fn, "obs-fold", desc, bad)
    elif undec:
        rep.undecided("R-FOLD", fn, "obs-fold", desc, undec)
    else:
        rep.proved("R-FOLD", fn, "obs-fold", desc, "256 values of the byte after the CRLF match evaluated on the loop body")
    # name comparison: found only if the case-insensitive comparator says equal
    r_mpt.check_guard(rep, fn, "mem_cmpin(name, ..., val_name, val_name_size)", r_mpt.call_atom("mem_cmpin", [None, None, None, None]),
                      (-1, 0, 1), (0,), require_dominance=True)
    cmps = {c.get("fn") for _, _, c, _ in fn.calls()} & {"mem_cmpn", "memcmp", "mem_cmp", "strncmp"}
    (rep.violated if cmps else rep.proved)("R-MPT", fn, "case-insensitive-only", "field names are compared with the case-insensitive comparator only",
                                           "also calls %s" % sorted(cmps) if cmps else "mem_cmpin")
    return n


def fn_nodes(fn):
    return []


def count_rule(rep, u):
    fn = need(u, "http_hdr_val_get_count")
    rep.functions.add(fn.name)
    desc = "the count grows by one per field found and the search resumes from the offset the previous call returned"
    calls = [c for _, _, c, _ in fn.calls({"http_hdr_val_get_ex"})]
    bad = []
    if len(calls) != 1:
        bad.append("%d calls of http_hdr_val_get_ex" % len(calls))
    else:
        c = calls[0]
        off_in = key(strip_casts(c["args"][4]))
        off_out = strip_casts(c["args"][7])
        if not (off_out.get("k") == "un" and off_out.get("op") == "&" and key(strip_casts(off_out["e"])) == off_in):
            bad.append("offset passed in (%s) is not the variable that receives the next offset (%s)" % (off_in, key(off_out)))
        for i in (0, 1, 2, 3):
            if key(strip_casts(c["args"][i])) != fn.params[i]["n"]:
                bad.append("argument %d is %s, not the caller's %s" % (i, key(strip_casts(c["args"][i])), fn.params[i]["n"]))
    # the resume offset is handed back unchanged: apart from its initialisation the variable is written only by the call
    if len(calls) == 1:
        from rules.r_range import direct_writes_of
        off_id = None
        a4 = strip_casts(calls[0]["args"][4])
        if a4.get("k") == "ref":
            off_id = a4["id"]
        def writes_off(x):
            if x.get("k") == "bin" and x["op"].endswith("=") and x["op"] not in ("==", "!=", "<=", ">="):
                l = strip_casts(x["x"])
                return l.get("k") == "ref" and l.get("id") == off_id
            if x.get("k") == "un" and ("++" in x["op"] or "--" in x["op"]):
                l = strip_casts(x["e"])
                return l.get("k") == "ref" and l.get("id") == off_id
            return False
        for pos, root, x, ps in fn.nodes():
            if off_id is not None and writes_off(x):
                bad.append("the resume offset '%s' is modified at line %s between two searches: the search no longer resumes at the CRLF "
                           "the previous call stopped at (the next field line can be skipped or found twice)" % (a4["n"], x.get("ln")))
                break
    incs = [x for _, _, x, _ in fn.nodes() if core.step_of(x) is not None and core.step_of(x)[1] == 1 and
            not (len(calls) == 1 and key(strip_casts(core.step_of(x)[0])) == key(strip_casts(calls[0]["args"][4])))]
    loops = fn.loops()
    if len(incs) != 1 or not loops or not any(True for h, b in loops.items()):
        bad.append("expected exactly one increment inside the loop, found %d" % len(incs))
    else:
        rv = key(strip_casts(core.step_of(incs[0])[0]))
        rets = [key(strip_casts(r["e"])) for _, r in fn.returns() if r.get("e") is not None]
        if rets != [rv]:
            bad.append("returns %s, counts in %s" % (rets, rv))
    # the loop continues only while the call returns 0
    r_mpt_ok = True
    (rep.violated if bad else rep.proved)("R-COUNT", fn, "count-loop", desc, "; ".join(bad) if bad else "one call, one increment, offset threaded")
    return 1


# ------------------------------------------------------------------ R-TBL method table

def method_table(rep, u, consts):
    fn = need(u, "http_get_method_fast")
    rep.functions.add(fn.name)
    g = u.globals.get("HTTPReqMethod")
    tbl = core.global_value(u, g) if g else None
    desc = "http_get_method_fast returns the table index of exactly the method spelled in the input"
    if not isinstance(tbl, list):
        rep.undecided("R-TBL", fn, "method-table", desc, "HTTPReqMethod not evaluable")
        return 0
    cmp_calls = [(key(c), c) for _, _, c, _ in fn.calls({"memcmp", "mem_cmp"})]
    n = 0
    bad = None
    undec = None

    def idx_of(c):
        for a in c["args"]:
            a0 = strip_casts(a)
            if a0.get("k") == "sub" and key(strip_casts(a0["b"])) == "HTTPReqMethod":
                return const_val(a0["i"])
        return None
    for I, s in list(enumerate(tbl)) + [(0, "XGETX"), (0, "GE")]:
        if not isinstance(s, str) or (I == 0 and s not in ("XGETX", "GE")):
            continue
        pe = r_stride.PE(u)
        M = 0x20000
        pe.memory = {M + i: ord(ch) for i, ch in enumerate(s)}
        bind = {"m": M, "m_size": len(s)}
        for kk, c in cmp_calls:
            j = idx_of(c)
            other = tbl[j] if j is not None and 0 <= j < len(tbl) and isinstance(tbl[j], str) else None
            ln = len(s)
            bind[kk] = 0 if (other is not None and other[:ln] == s and len(other) >= ln and other[:ln] == s[:ln] and other == s) or \
                (other is not None and len(other) > ln and other[:ln] == s) else 1
            # memcmp(m, table[j], m_size) compares m_size bytes: equal iff the table string starts with the input
            bind[kk] = 0 if (other is not None and other[:ln] == s) else 1
        outs = pe.explore(fn, fn.entry, bind)
        n += 1
        vals = {(o[1], o[2]) for o in outs if o[0] == "ret"}
        if len(vals) != 1 or not list(vals)[0][1]:
            undec = undec or "%r: result not determined %s" % (s, sorted(vals, key=str))
            continue
        got = list(vals)[0][0]
        if got != I:
            bad = bad or "%r (table index %d) is classified as %s" % (s, I, got)
    if bad:
        rep.violated("R-TBL", fn, "method-table", desc, bad)
    elif undec:
        rep.undecided("R-TBL", fn, "method-table", desc, undec)
    else:
        rep.proved("R-TBL", fn, "method-table", desc, "%d spellings (every table entry, one unknown, one prefix)" % n)
    return n


SEARCHES = {"mem_chr": (0, 1), "mem_chr_ptr": (1, 2), "mem_chr_off": (1, 2), "mem_rchr": (0, 1), "mem_find": (0, 1), "mem_find_ptr": (1, 2),
            "mem_find_off": (1, 2), "memchr": (0, 2), "memmem": (0, 1)}


def span_rule(rep, u, fname="http_parse_req_line"):
    """authority, path and query are sub-spans of the request target: once the target span (uri, uri_size) is stored, every
    search whose result delimits one of its components is bounded by that span - not by the request line or the header
    block, which extend beyond the target (a delimiter found behind the target gives an authority that swallows the
    protocol version and a path length that wraps)."""
    fn = need(u, fname)
    rep.functions.add(fname)
    out = fn.params[-1]["n"]
    span_store = None
    for pos, root, x, ps in fn.nodes():
        if x.get("k") == "bin" and x["op"] == "=" and key(strip_casts(x["x"])) == "%s->uri_size" % out:
            span_store = pos
    if span_store is None:
        raise driver.AnalysisBroken("%s: the store of the target span was not found" % fname)
    # the components: fields of the out record stored after the span (other than the span itself)
    comp_stores = [pos for pos, root, x, ps in fn.nodes() if x.get("k") == "bin" and x["op"] == "=" and
                   key(strip_casts(x["x"])).startswith(out + "->") and fn.pos_dominates(span_store, pos) and pos != span_store and
                   key(strip_casts(x["x"])) not in ("%s->proto_ver" % out,)]
    last_comp = {p[0] for p in comp_stores}
    # names for the span: the fields themselves and locals copied from / into them
    def aliases(field):
        out_ = {"%s->%s" % (out, field)}
        for _p, _r, x, _ps in fn.nodes():
            if x.get("k") == "bin" and x["op"] == "=":
                l, r = key(strip_casts(x["x"])), key(strip_casts(x["y"]))
                if l in out_ and strip_casts(x["y"]).get("k") == "ref":
                    out_.add(r)
                if r in out_ and strip_casts(x["x"]).get("k") == "ref":
                    out_.add(l)
            if x.get("k") == "decl":
                for v in x.get("vars", []):
                    if v.get("init") is not None and key(strip_casts(v["init"])) in out_:
                        out_.add(v["n"])
        return out_
    # the enclosing spans: what the searches *before* the target was fixed ran over (request line, header block)
    outer = set()
    for pos, root, c, ps in fn.calls(set(SEARCHES)):
        if fn.pos_dominates(pos, span_store) and pos != span_store:
            bi, si = SEARCHES[c["fn"]]
            outer.add((key(strip_casts(c["args"][bi])), key(strip_casts(c["args"][si]))))
    a_buf, a_size = aliases("uri"), aliases("uri_size")
    n = 0
    per = 0
    for pos, root, c, ps in fn.calls(set(SEARCHES)):
        if not fn.pos_dominates(span_store, pos) or pos == span_store:
            continue
        # only searches from which a component store is reachable (the version parser behind the target is none)
        if not (fn.reach_from([pos[0]]) & last_comp or pos[0] in last_comp):
            continue
        bi, si = SEARCHES[c["fn"]]
        buf, size = key(strip_casts(c["args"][bi])), key(strip_casts(c["args"][si]))
        n += 1
        per += 1
        inst = "span:%s#%d" % (c["fn"], per)
        desc = "the search at line %s that delimits a component of the request target is bounded by the target span" % c.get("ln")
        if buf in a_buf and size in a_size:
            rep.proved("R-SPAN", fn, inst, desc, "%s(%s, %s)" % (c["fn"], buf, size), c.get("ln"))
        elif (buf, size) in outer or buf in {b_ for b_, _s in outer} or size in {s_ for _b, s_ in outer}:
            rep.violated("R-SPAN", fn, inst, desc, "it searches (%s, %s), the span that encloses the target: a delimiter behind the target is found, the "
                         "component reaches outside the target and the length computed from the target's end wraps" % (buf, size), c.get("ln"))
        else:
            rep.undecided("R-SPAN", fn, inst, desc, "it searches (%s, %s), which is neither the target span nor an enclosing one known here" % (buf, size), c.get("ln"))
    return n


def macro_consts(names):
    txt = '#include "%s/src/proto/http.c"\n' % driver.REPO
    for nm in names:
        txt += "static const long long lcb_probe_%s = (long long)(%s);\n" % (nm, nm)
    u = driver.load_units([driver.UnitSpec("probe:http-consts", "text", txt)], no_bodies=True)["probe:http-consts"]
    res = {}
    for nm in names:
        g = u.globals.get("lcb_probe_" + nm)
        v = core.global_value(u, g) if g else None
        res[nm] = int(v) if v is not None and str(v).lstrip("-").isdigit() else None
    return res


def target_delimiters_rule(rep, u, fname="http_parse_req_line"):
    """RFC 7230 5.3 / RFC 3986 3: a request target that begins with '/' is in origin form - it has no scheme and no authority,
    whatever its path or query contains; in absolute form the authority ends at the first '/', '?' or '#'.  Structurally:
    (a) the search for "://" is reached only through a test of the target's first byte against '/';
    (b) the end of the host is looked for with '?' among the delimiters, not with '/' alone."""
    fn = need(u, fname)
    rep.functions.add(fname)
    n = 0
    searches = [(pos, c) for pos, root, c, ps in fn.calls() if (c.get("fn") or "").startswith(("mem_find", "memmem")) and
                any(_str_of(a) == "://" for a in c.get("args", []))]
    for pos, c in searches:
        n += 1
        guarded = False
        for bid in fn.reachable_blocks():
            cnd = fn.blocks[bid].cond
            if cnd is None or bid == pos[0] or not fn.dominates(bid, pos[0]):
                continue
            has_slash = any(const_val(y) == 0x2f for y, _ in walk(cnd))
            first_byte = any((y.get("k") == "sub" and const_val(y["i"]) == 0 and "uri" in key(y["b"])) or
                             (y.get("k") == "un" and y.get("op") == "*" and "uri" in key(y["e"])) for y, _ in walk(cnd))
            if has_slash and first_byte:
                guarded = True
        desc = "%s looks for a scheme only in a target that does not begin with '/'" % fname
        (rep.proved if guarded else rep.violated)(
            "R-SPAN", fn, "scheme-only-in-absolute-form", desc,
            "" if guarded else "the search for \"://\" at line %s is not preceded by a test of the first byte: GET /r?u=http://evil.example/x is split "
            "into scheme \"/r?u=http\", host evil.example, path /x" % c.get("ln"), c.get("ln"))
    # (b) host end
    host_pos = [pos for pos, root, x, ps in fn.nodes() if x.get("k") == "bin" and x["op"] == "=" and key(strip_casts(x["x"])).endswith("->host") and
                any(pos[0] in fn.reach_from([pos_[0]]) for pos_, c_ in searches)]
    size_pos = [pos for pos, root, x, ps in fn.nodes() if x.get("k") == "bin" and x["op"] == "=" and key(strip_casts(x["x"])).endswith("->host_size") and
                host_pos and fn.pos_dominates(host_pos[0], pos)]
    if host_pos and size_pos:
        n += 1
        between = [y for pos, root, y, ps in fn.nodes() if fn.pos_dominates(host_pos[0], pos) and (pos[0] in fn.reach_from([host_pos[0][0]])) and
                   any(sp[0] in fn.reach_from([pos[0]]) or sp[0] == pos[0] for sp in size_pos) and const_val(y) == 0x3f]
        desc = "%s ends the authority at the first '/', '?' (or '#'), not at the first '/' only" % fname
        (rep.proved if between else rep.violated)(
            "R-SPAN", fn, "authority-delimiters", desc,
            "" if between else "no '?' among the delimiters between the start of the host (line %s) and its size: GET http://example.com?next=/admin "
            "yields host \"example.com?next=\" and path /admin" % fn.blocks[host_pos[0][0]].elems[host_pos[0][1]].get("ln"))
    return n


def cmpi_fallback(rep, u, fname="mem_cmpi"):
    """the field-name comparison on a build without strncasecmp is the repository's own loop: over one byte, every pair
    (c, c'), c' in {c, c ^ 0x20, c | 0x20, c & ~0x20, c + 1}, compares equal exactly when the ASCII case folds agree"""
    fn = need(u, fname)
    if any(c.get("fn") == "strncasecmp" for _p, _r, c, _ps in fn.calls()):
        raise driver.AnalysisBroken("the portable configuration still calls strncasecmp")
    rep.functions.add(fname)
    A, B = 0x1000, 0x2000
    fold = lambda c: c | 32 if 65 <= c <= 90 else c
    n = 0
    bad = undec = None
    for c1 in range(256):
        for c2 in sorted({c1, c1 ^ 32, c1 | 32, c1 & ~32 & 255, (c1 + 1) & 255}):
            pe = r_stride.PE(u)
            pe.memory = {A: c1, B: c2}
            ev, ret = pe.trace(fn, {"buf1": A, "buf2": B, "size": 1})
            n += 1
            if isinstance(ret, str) or ret is None:
                undec = undec or "bytes 0x%02x / 0x%02x: %s" % (c1, c2, ret)
            elif (ret == 0) != (fold(c1) == fold(c2)):
                bad = bad or "bytes %r (0x%02x) and %r (0x%02x) compare %s: a field name that differs only in the case of this letter is %s" % (
                    chr(c1), c1, chr(c2), c2, "equal" if ret == 0 else "different (%d)" % ret, "matched wrongly" if ret == 0 else "not found")
    desc = "%s without strncasecmp: one-byte comparisons agree with ASCII case folding for every byte value" % fname
    if bad:
        rep.violated("R-SPEC", fn, "case-fold-table", desc, bad)
    elif undec:
        rep.undecided("R-SPEC", fn, "case-fold-table", desc, undec)
    else:
        rep.proved("R-SPEC", fn, "case-fold-table", desc, "%d byte pairs" % n)
    return n


def run(rep, tier):
    us = driver.load_units(specs())
    rep.use_units(us)
    u = us[HTTP_C]
    consts = macro_consts(["HTTP_REQ_METHOD_GET", "HTTP_REQ_METHOD_POST"])
    if any(v is None for v in consts.values()):
        raise driver.AnalysisBroken("HTTP method constants not foldable")
    rep.floor("rule-table combinations", rules_section(rep, u, consts), 54)
    rep.floor("byte classes", byte_scan(rep, u), 1000)
    rep.floor("fold byte classes", fold_rule(rep, u), 256)
    rep.floor("field-name/colon whitespace cases", htab_name_rule(rep, u), 11)
    rep.floor("field-name colon searches", colon_in_line_rule(rep, u), 1)
    remove_fold_end_rule(rep, u)
    min_size_rule(rep, u)
    rep.floor("trim cases", trim_rule(rep, u), 6)
    usrv = driver.load_units([common.src_unit("src/proto/http_server.c")])
    rep.use_units(usrv)
    rep.floor("server framing obligations", server_framing_rules(rep, usrv), 5)
    count_rule(rep, u)
    rep.floor("method spellings", method_table(rep, u, consts), 14)
    rep.floor("target component searches", span_rule(rep, u), 2)
    rep.floor("target form rules", target_delimiters_rule(rep, u), 2)
    rep.floor("portable case-fold byte pairs", cmpi_fallback(rep, us[HTTP_C_PORTABLE]), 700)
    # "returns the trimmed value": pointer and length outputs of the lookup helpers are stored together (R-OUTDEF)
    from rules import r_outdef
    nout = 0
    for f_ in u.function_list:
        if f_.relfile() == HTTP_C and f_.has_cfg:
            k_ = r_outdef.check(rep, f_)
            if k_:
                rep.functions.add(f_.name)
            nout += k_
    rep.floor("success returns of multi-output functions", nout, 4)
    return driver.finish(
        rep, "other",
        "HTTP smuggling checks and field lookup, structural clauses: the rule section of http_req_sec_chk over all count/method "
        "combinations, literal field names, the per-byte classification of the control scan (all byte values), obs-fold handling in "
        "http_hdr_val_get_ex (all byte values after CRLF), case-insensitive name match guards the found path, count loop structure, method "
        "table classification; the searches that split the request target are bounded by the target span.  NOT decided: that returned spans equal the RFC 7230/3986 delimitation for every request; query helpers.",
        ["memcmp/mem_cmpin compare as documented", "mem_find* return the first match or NULL (C13 covers their bodies)"], TRUSTED)


# ------------------------------------------------------------------ the server's request framing (src/proto/http_server.c, anchored file)

def server_framing_rules(rep, us):
    """(a) every method whose arm does not end the request at the header block consults Content-Length: the switch over the
    method code has a default arm that looks the field up (a PUT / DELETE / NOTIFY body left in the buffer is parsed as the
    next pipelined request); (b) when the receive buffer is re-allocated while request pointers into it are live, they are
    re-derived: stores to the request's hdr / data pointers follow the io_buf_realloc call on its path."""
    u = us["src/proto/http_server.c"]
    fn = need(u, "http_srv_recv_done_cb")
    rep.functions.add(fn.name)
    n = 0
    sw = [b for b in fn.reachable_blocks() if fn.blocks[b].term and fn.blocks[b].term["k"] == "SwitchStmt" and fn.blocks[b].cond is not None and "method_code" in key(fn.blocks[b].cond)]
    if not sw:
        raise driver.AnalysisBroken("http_srv_recv_done_cb: switch over the method code not found")
    for b in sw:
        n += 1
        dflt = [s_ for s_ in fn.blocks[b].succ if s_ is not None and (fn.blocks[s_].label or {}).get("default")]
        ok = False
        if dflt:
            pd = fn.pdom().get(b, set()) - {b}
            arm = fn.reach_from([dflt[0]], avoid=pd) | {dflt[0]}
            for pos, root, c, ps in fn.calls():
                if pos[0] in arm and (c.get("fn") or "").startswith("http_hdr_val_get") and any((_str_of(a) or "").lower() == "content-length" for a in c["args"]):
                    ok = True
        desc = "http_srv_recv_done_cb: methods without an arm of their own have their body length taken from Content-Length"
        (rep.proved if ok else rep.violated)("R-FRAME", fn, "default-arm-reads-content-length", desc, "" if ok else
                                             "PUT, DELETE, OPTIONS, NOTIFY ... fall out of the switch with data_size 0: 'PUT /file ... Content-Length: 43' followed by 43 bytes "
                                             "that spell 'GET /smuggled HTTP/1.1' runs the callback twice")
    # (a') an arm of its own that ends the request at the header block exists only for GET, for which the security check
    # refuses Content-Length; every other method's arm consults the field (SUBSCRIBE had such an arm: its body was parsed as
    # the next request)
    for b in sw:
        pd = fn.pdom().get(b, set()) - {b}
        for s_ in fn.blocks[b].succ:
            lab = fn.blocks[s_].label if s_ is not None else None
            if not lab or "case" not in lab:
                continue
            # the blocks that belong to this arm alone: those its label block dominates (the function re-enters the switch
            # for a pipelined request, so plain reachability covers everything)
            arm = {x_ for x_ in fn.reachable_blocks() if fn.dominates(s_, x_)}
            reads_cl = any(pos[0] in arm and (c.get("fn") or "").startswith("http_hdr_val_get") and any((_str_of(a) or "").lower() == "content-length" for a in c["args"])
                           for pos, root, c, ps in fn.calls())
            if reads_cl:
                continue
            n += 1
            nm = lab.get("case_macro") or str(lab.get("case"))
            ok = nm == "HTTP_REQ_METHOD_GET"
            (rep.proved if ok else rep.violated)("R-FRAME", fn, "bodyless-arm:%s" % nm, "http_srv_recv_done_cb: the arm of %s ends the request at the header block only because Content-Length is refused for it" % nm,
                                                 "" if ok else "'%s /evt .. Content-Length: 37' + 37 bytes spelling a DELETE request runs the callback twice" % nm.replace("HTTP_REQ_METHOD_", ""))
    for pos, root, c, ps in fn.calls({"io_buf_realloc"}):
        if "rcv_buf" not in key(c["args"][0]):
            continue
        n += 1
        after = fn.reach_from([pos[0]]) | {pos[0]}
        stored = set()
        for p2, r2, x, _ in fn.nodes():
            if x.get("k") == "bin" and x["op"] == "=" and p2[0] in after and (p2[0] != pos[0] or p2[1] > pos[1]) and fn.dominates(pos[0], p2[0]):
                k_ = key(strip_casts(x["x"]))
                for f_ in ("req.hdr", "req.data"):
                    if k_.endswith(f_):
                        stored.add(f_)
        ok = stored == {"req.hdr", "req.data"}
        desc = "http_srv_recv_done_cb: the request's pointers into the receive buffer are re-derived after the buffer was re-allocated"
        (rep.proved if ok else rep.violated)("R-FRAME", fn, "pointers-rebased-after-realloc", desc, "" if ok else
                                             "io_buf_realloc moves the block; cli->req.hdr / .data / .line.* and cli->buf keep pointing into the freed one: a POST with "
                                             "Content-Length 20000 into the 4 KiB buffer is a heap use-after-free (write at the response set-up, reads in the header lookups)", c.get("ln"))
    # (c) the body length is 1*DIGIT that fits size_t: no lenient number parser on the Content-Length value
    LENIENT = ("str2u", "ustr2u", "str2s", "ustr2s", "strtoul", "strtol", "atoi", "atol", "strtoull")
    n += 1
    cl_gets = [pos for pos, root, c, ps in fn.calls() if (c.get("fn") or "").startswith("http_hdr_val_get") and any((_str_of(a) or "").lower() == "content-length" for a in c["args"])]
    len_parsers = [(pos, c) for pos, root, c, ps in fn.calls() if (c.get("fn") or "").startswith(LENIENT) and not (c.get("fn") or "").endswith("_chk") and
                   any(pos[0] in fn.reach_from([g[0]]) for g in cl_gets)]
    stores = [pos for pos, root, x, ps in fn.nodes() if x.get("k") == "bin" and x["op"] == "=" and key(strip_casts(x["x"])).endswith("req.data_size") and const_val(x["y"]) != 0]
    desc = "http_srv_recv_done_cb: the Content-Length value is parsed strictly (digits only, no wrap)"
    if len_parsers and any(any(y is c_ for y, _ in walk(fn.blocks[s_[0]].elems[s_[1]])) for s_ in stores for p_, c_ in len_parsers):
        rep.violated("R-FRAME", fn, "content-length-strict", desc, "data_size = %s(...): non-digits are skipped and the value wraps modulo 2^64 - 'Content-Length: 18446744073709551616' is a body "
                     "of 0 bytes here and the body is parsed as the next request; '4, 4' is 44" % len_parsers[0][1]["fn"], len_parsers[0][1].get("ln"))
    else:
        rep.proved("R-FRAME", fn, "content-length-strict", desc, "no lenient number parser feeds req.data_size")
    # (d) a request with Transfer-Encoding is not framed by this server (it does not decode codings): the field is looked up
    # before the method switch and leads to an error response
    n += 1
    te = [pos for pos, root, c, ps in fn.calls() if (c.get("fn") or "").startswith("http_hdr_val_get") and any((_str_of(a) or "").lower() == "transfer-encoding" for a in c["args"])]
    ok = any(all(fn.dominates(t_[0], b_) for b_ in sw) for t_ in te)
    desc = "http_srv_recv_done_cb: a request that carries Transfer-Encoding is refused before its method is looked at"
    (rep.proved if ok else rep.violated)("R-FRAME", fn, "transfer-encoding-not-ignored", desc, "" if ok else
                                         "no code path looks at Transfer-Encoding: 'PUT /a .. Transfer-Encoding: chunked' is answered 200 with data_size 0 and its chunked body is parsed "
                                         "as the next pipelined request")
    return n
