"""C19 rules from the second audit pass (replays/C19-hunt2).

  R-INITBASE   every block-table entry the reader side may look at has a base: entry 0 after allocation, and the freshly
               opened entry of the writer before the wrap decision (it marks the end of the round for lapped readers)
  R-EXACTREAD  a request of exactly the pending size is served (the "nothing to take" test is strict)
  R-HISTORY    the walk into the previous round (history for a new reader) is bounded by the writer's byte position
"""
from rules import driver, core
from rules.core import key, const_val, walk

SRC = "src/utils/ring_buffer.c"


def _walk(c):
    for y, ps in walk(c):
        yield y, ps
        if y.get("k") == "lazy" and y.get("lz") is not None:
            for r in _walk(y["lz"]):
                yield r


def _need(u, n):
    fn = u.fn(n)
    if fn is None or not fn.has_cfg:
        raise driver.AnalysisBroken("anchor %s vanished" % n)
    return fn


def init_base_rule(rep, u):
    n = 0
    fa = _need(u, "r_buf_alloc")
    rep.functions.add(fa.name)
    st = [x for p, r, x, _ in fa.nodes() if x.get("k") == "bin" and x["op"] == "=" and key(core.strip_casts(x["x"])).endswith("iov[0].iov_base")]
    n += 1
    (rep.proved if st else rep.violated)("R-INITBASE", fa, "entry0-base", "r_buf_alloc: block-table entry 0 gets its base (the ring start)", "" if st else
                                         "iov[0].iov_base stays NULL until the first r_buf_wbuf_get: r_buf_data_avail_size() of a fresh ring computes 0 - (NULL - buf) = "
                                         "the buffer address as the available size")
    for fname in ("r_buf_wbuf_get", "r_buf_wbuf_pos_inc"):
        fw = u.fn(fname)
        if fname != "r_buf_wbuf_get" and (fw is None or not fw.has_cfg):
            continue
        fw = _need(u, fname)
        rep.functions.add(fname)
        incs = [p for p, r, x, _ in fw.nodes() if core.step_of(x) is not None and core.step_of(x)[1] == 1 and key(core.strip_casts(core.step_of(x)[0])).endswith("iov_index")]
        if not incs:
            raise driver.AnalysisBroken("%s: iov_index increment not found" % fname)
        # every other write of the index (the reset to 0 of the wrapping path) makes the freshly opened entry unreachable for
        # the writer: its base must have been stored before, whichever branch stores it
        resets = [p for p, r, x, _ in fw.nodes() if x.get("k") == "bin" and x["op"] == "=" and key(core.strip_casts(x["x"])).endswith("iov_index") and p not in incs]
        bases = [p for p, r, x, _ in fw.nodes() if x.get("k") == "bin" and x["op"] == "=" and key(core.strip_casts(x["x"])).endswith("iov_index].iov_base")]
        if not resets:
            raise driver.AnalysisBroken("%s: the wrap (reset of iov_index) not found" % fname)
        n += 1
        ok = True
        for inc in incs:
            for rs in resets:
                if rs[0] != inc[0] and rs[0] not in fw.reach_from([inc[0]]):
                    continue
                # a base store between the two positions on every path: remove the blocks holding one and see whether the reset is still reached
                same = [b_ for b_ in bases if b_[0] == inc[0] and b_[1] > inc[1]] + [b_ for b_ in bases if b_[0] == rs[0] and b_[1] < rs[1] and (rs[0] != inc[0] or b_[1] > inc[1])]
                if same:
                    continue
                cut = {b_[0] for b_ in bases if b_[0] not in (inc[0], rs[0])}
                if rs[0] == inc[0] or rs[0] in fw.reach_from([inc[0]], avoid=cut):
                    ok = False
        (rep.proved if ok else rep.violated)("R-INITBASE", fw, "open-entry-base-before-wrap", "%s: the freshly opened entry has its base before the wrap decision" % fname, "" if ok else
                                             "on the wrapping path entry iov_index_max + 1 never gets a base: a reader that had caught up and is lapped twice gets a "
                                             "dropped amount computed from that garbage pointer (139726826569816 instead of 48)")
    return n


def exact_read_rule(rep, u, fname="iovec_aggregate_ex"):
    fn = _need(u, fname)
    rep.functions.add(fname)
    n = 0
    for bid in fn.reachable_blocks():
        cnd = fn.blocks[bid].cond
        if cnd is None:
            continue
        for y, _ in _walk(cnd):
            if y.get("k") == "bin" and y["op"] in (">", ">=", "<", "<=") and "iov[0].iov_len" in key(y) and any(core.is_ref(core.strip_casts(y[s_]), name="data_size") for s_ in ("x", "y")):
                n += 1
                # evaluated, not matched: with exactly data_size bytes pending in block 0 the test must not refuse, with one
                # byte more pending (a fragment would be cut) it must
                from rules import r_mpt

                def _ev(pending, want):
                    env = {}
                    for z, _ in _walk(y):
                        if z.get("k") == "mem" and key(z).endswith("iov[0].iov_len"):
                            env[id(z)] = pending
                        elif core.is_ref(z, name="off"):
                            env[id(z)] = 0
                        elif core.is_ref(z, name="data_size"):
                            env[id(z)] = want
                    return r_mpt.eval_expr(y, env)
                try:
                    strict = (not _ev(8, 8)) and bool(_ev(9, 8))
                except r_mpt.Unknown:
                    strict = y["op"] in (">", "<")
                (rep.proved if strict else rep.violated)("R-EXACTREAD", fn, "single-block-test", "%s: a request equal to what the first block holds is served" % fname,
                                                         key(y)[:60] if strict else "%s: with one committed block of 8 pending a request of 8 returns nothing (a request of 9 returns the 8 bytes)" % key(y)[:60], y.get("ln"))
    return n


def history_bound_rule(rep, u, fname="r_buf_rpos_init"):
    fn = _need(u, fname)
    rep.functions.add(fname)
    decs = [p for p, r, x, _ in fn.nodes() if core.step_of(x) is not None and core.step_of(x)[1] == -1 and key(core.strip_casts(core.step_of(x)[0])).endswith("round_num")]
    if not decs:
        raise driver.AnalysisBroken("%s: step into the previous round not found" % fname)
    ok = False
    for h, body in fn.loops().items():
        if not any(fn.pos_dominates(d_, (h, 0)) for d_ in decs):
            continue
        conds = [fn.blocks[b].cond for b in body if fn.blocks[b].cond is not None]
        if any(any(y.get("k") == "mem" and y["f"] == "wpos" for y, _ in _walk(c)) for c in conds):
            ok = True
    (rep.proved if ok else rep.violated)("R-HISTORY", fn, "history-bounded-by-wpos", "%s: the walk back into the previous round stops at the writer's byte position" % fname, "" if ok else
                                         "the walk only compares block indices: r_buf_rpos_init(.., 100) on a ring of 40 after 7 blocks yields a position that "
                                         "r_buf_rpos_check treats as overrun (drop 48 for a reader that never fell behind)")
    return 1


# ------------------------------------------------------------------ third pass (replays/C19-hunt3)

def lapped_advance_rule(rep, u, fname="r_buf_rpos_inc"):
    """a reader lapped between its data_get and its advance must not walk block-table entries the writer has rewritten: the
    advance first checks that the reader position is still valid and leaves otherwise"""
    from rules import r_mpt
    fn = _need(u, fname)
    rep.functions.add(fname)
    reads = [pos for pos, r, x, _ in fn.nodes() if x.get("k") == "mem" and x["f"] == "iov_len" and "iov[" in key(x)]
    if not reads:
        raise driver.AnalysisBroken("%s: block-table reads not found" % fname)
    checks = [(pos, c) for pos, r, c, _ in fn.calls({"r_buf_rpos_check_fast", "r_buf_rpos_check"})]
    ok = False
    for cpos, c in checks:
        bid = cpos[0]
        cnd = fn.blocks[bid].cond
        if cnd is None or not all(fn.dominates(bid, p_[0]) and p_[0] != bid for p_ in reads):
            continue
        atoms = [y for y, _ in _walk(cnd) if y is c]
        if not atoms:
            continue
        try:
            v = r_mpt.eval_expr(cnd, {id(a): 0 for a in atoms})
        except r_mpt.Unknown:
            continue
        s_ = fn.blocks[bid].succ[0] if v else fn.blocks[bid].succ[1]
        if s_ is None or not any(p_[0] in fn.reach_from([s_], avoid=[bid]) for p_ in reads):
            ok = True
    desc = "%s: the block table is walked only for a reader position that passed the validity check" % fname
    (rep.proved if ok else rep.violated)("R-LAPPED", fn, "advance-checks-reader", desc, "" if ok else
                                         "a writer wrap between r_buf_data_get(40) and r_buf_rpos_inc(40) makes the advance count rewritten entries: the reader lands on a wrong old "
                                         "block that still passes the check and three intact blocks are skipped with drop 0 (or the 'must never happen' branch traps)")
    return 1


def stale_drop_rule(rep, u, fname="r_buf_rpos_check"):
    """the amount reported as dropped for an overrun reader is not computed from the block-table entry at the READER's index:
    that entry belongs to the newer round by then (larger blocks in the newer round: under-report; see also the
    over-estimate kept as replays/C19-hunt2/drop_estimate).  Each such computation is one instance."""
    fn = _need(u, fname)
    rep.functions.add(fname)
    n = 0
    for pos, root, x, ps in fn.nodes():
        if not (x.get("k") == "bin" and x["op"] == "=" and core.is_ref(core.strip_casts(x["x"]), name="drop_size")):
            continue
        uses = [y for y, _ in _walk(x["y"]) if y.get("k") == "sub" and "rpos->iov_index" in key(y["i"]) and "iov" in key(y["b"])]
        if not uses:
            continue
        # an entry above the writer's current index has not been rewritten in this round: `rpos->iov_index > r_buf->iov_index`
        # on the way (true edge) makes the entry the reader's own
        fresh = False
        for bid in fn.reachable_blocks():
            c = fn.blocks[bid].cond
            if c is None or not fn.dominates(bid, pos[0]) or bid == pos[0]:
                continue
            for y, _ in _walk(c):
                if y.get("k") == "bin" and y["op"] in (">", "<"):
                    a, b = key(core.strip_casts(y["x"])), key(core.strip_casts(y["y"]))
                    hi, lo = (a, b) if y["op"] == ">" else (b, a)
                    if hi == "rpos->iov_index" and lo == "r_buf->iov_index":
                        t_ = fn.blocks[bid].succ[0]
                        f_ = fn.blocks[bid].succ[1]
                        if t_ is not None and (pos[0] == t_ or pos[0] in fn.reach_from([t_], avoid=[bid])) and not (f_ is not None and (pos[0] == f_ or pos[0] in fn.reach_from([f_], avoid=[bid]))):
                            fresh = True
        if fresh:
            continue
        n += 1
        # named by the case it serves (stable against line moves and against a further computation being added)
        case = "older-rounds"
        for bid in fn.reachable_blocks():
            c = fn.blocks[bid].cond
            if c is not None and fn.dominates(bid, pos[0]) and bid != pos[0] and "round_num+1" in key(c).replace(" ", "") and "==" in key(c):
                t_ = fn.blocks[bid].succ[0]
                if t_ is not None and (pos[0] == t_ or pos[0] in fn.reach_from([t_], avoid=[bid])):
                    case = "previous-round"
        rep.violated("R-STALEDROP", fn, "drop-from-reader-indexed-entry:%s" % case,
                     "%s: the dropped amount does not depend on the block-table entry at the reader's (overrun) index" % fname,
                     "drop_size at line %s is computed from %s, an entry the newer round has rewritten: ten 10-byte blocks, one read, then two 45-byte blocks report 145 dropped for "
                     "180 skipped" % (x.get("ln"), key(uses[0])[:40]), x.get("ln"))
    if n == 0:
        rep.proved("R-STALEDROP", fn, "drop-from-reader-indexed-entry", "%s: the dropped amount does not depend on the block-table entry at the reader's index" % fname, "")
    return max(n, 1)



def near_index_rule(rep, u, fname="r_buf_rpos_init_near"):
    """the search over the caller's reader array consults existing elements only: after the loop `for (i = 1; i < cnt; i++)`
    the index may equal cnt (the new reader is ahead of all), and rposs[i] is then behind the array - an exit for i == cnt
    lies between the loop and the first use of rposs[i]"""
    from rules import r_mpt
    fn = u.fn(fname)
    if fn is None or not fn.has_cfg:
        return 0
    rep.functions.add(fname)
    loops = fn.loops()
    if not loops:
        raise driver.AnalysisBroken("%s: search loop not found" % fname)
    h = max(loops, key=lambda x: len(loops[x]))
    body = loops[h]
    hc = fn.blocks[h].cond
    ivar = [y for y, _ in _walk(hc) if core.is_ref(y) and y.get("dk") == "local"] if hc is not None else []
    cnt = [y for y, _ in _walk(hc) if core.is_ref(y) and y.get("dk") == "parm"] if hc is not None else []
    if not ivar or not cnt:
        raise driver.AnalysisBroken("%s: loop index / count not found" % fname)
    iid, cid = ivar[0]["id"], cnt[0]["id"]
    uses = [pos for pos, r, x, _ in fn.nodes() if x.get("k") == "sub" and core.is_ref(core.strip_casts(x["i"])) and core.strip_casts(x["i"]).get("id") == iid and pos[0] not in body]
    if not uses:
        rep.proved("R-NEARIDX", fn, "index-inside-array", "%s: no use of the loop index as a subscript after the loop" % fname, "")
        return 1
    ok = False
    for bid in fn.reachable_blocks():
        c = fn.blocks[bid].cond
        if c is None or bid in body or bid == h or not all(fn.dominates(bid, u_[0]) for u_ in uses) or h not in fn.reach_from([fn.entry]) or bid not in fn.reach_from([h]):
            continue
        ai = [y for y, _ in _walk(c) if core.is_ref(y) and y.get("id") == iid]
        ac = [y for y, _ in _walk(c) if core.is_ref(y) and y.get("id") == cid]
        if not ai or not ac:
            continue
        try:
            v = r_mpt.eval_expr(c, dict([(id(a), 7) for a in ai] + [(id(a), 7) for a in ac]))
        except r_mpt.Unknown:
            continue
        s_ = fn.blocks[bid].succ[0] if v else fn.blocks[bid].succ[1]
        if s_ is None or not any(u_[0] in fn.reach_from([s_], avoid=[bid]) or u_[0] == s_ for u_ in uses):
            ok = True
    desc = "%s: rposs[i] is used after the search loop only when i < rposs_cnt" % fname
    (rep.proved if ok else rep.violated)("R-NEARIDX", fn, "index-inside-array", desc, "" if ok else
                                         "a new reader ahead of every listed reader leaves the loop with i == rposs_cnt: &rposs[rposs_cnt] is read, written by the check and may be copied out "
                                         "as the new cursor (heap-buffer-overflow with two readers at blocks 0 and 1 and four blocks committed)")
    return 1
