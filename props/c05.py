"""C05 — unicast thread-pool messages.

Decided clauses:
  * R-PATH  tpt_msg_send: every acyclic path is classified (invalid args / self-direct / not running /
            written / write failed) and must give the (return class, number of direct callback calls)
            the property states: at most one direct call, non-zero return => no call, each direct call
            only under the flag that asks for it; all seven outcome classes present
  * R-CFGX  packet atomicity preconditions: sizeof(packet) <= PIPE_BUF, one write() of the whole packet
            whose result is compared with that size, pipe2(O_NONBLOCK), read buffer = array of packets
  * R-MPT   tpt_msg_recv_and_process: the callback call is reachable only through a validity test
            (magic and checksum) and a non-NULL test; one call per loop iteration
  * checksum set/check symmetry
Not decided: exactly-once / ordering / routing under concurrent senders (kernel pipe semantics, interleavings).
"""
from rules import driver, core, r_path, r_mpt
from rules.core import walk, key, const_val
from props import tp, fixtures

TRUSTED = ["clang 14 front end + CFG builder", "tool/lcbfacts.cc", "rules/r_path.py path enumeration", "python3"]


def classify_send_path(fn, path):
    """returns (scenario dict, ret class, ncalls, unknown conditions)"""
    sc = {"invalid": False, "flags": {}, "self": None, "running": None, "write_ok": None}
    unknown = []
    ncalls = 0
    ret = None
    cb_id = fn.params[3]["id"]
    for ev in r_path.events(fn, path):
        if ev[0] == "elem":
            e = ev[2]
            for n, ps in walk(e):
                if n.get("k") == "call" and "callee" in n:
                    c = core.strip_casts(n["callee"])
                    if c.get("k") == "ref" and c["id"] == cb_id:
                        ncalls += 1
            if e.get("k") == "ret":
                ret = r_path.ret_class(e.get("e"))
            continue
        _, b, cond, truth = ev
        k = key(cond)
        # flag tests
        ft = None
        for n, ps in walk(cond):
            if n.get("k") == "bin" and n["op"] == "&":
                for side in (n["x"], n["y"]):
                    m = core.macros(core.strip_imp(side), ps + (n,))
                    nm = [x for x in (m or []) if x.startswith("TP_MSG_F_")]
                    if nm and const_val(side) is not None:
                        try:
                            r = r_mpt.eval_expr(cond, {id(n): const_val(side)})
                            ft = (nm[0], bool(r) == bool(truth))
                        except r_mpt.Unknown:
                            pass
        if ft:
            sc["flags"][ft[0]] = ft[1]
            continue
        calls = [n.get("fn") for n, _ in walk(cond) if n.get("k") == "call"]
        if "tpt_is_running" in calls:
            atom = [n for n, _ in walk(cond) if n.get("k") == "call" and n.get("fn") == "tpt_is_running"][0]
            try:
                r1 = r_mpt.eval_expr(cond, {id(atom): 1})
                sc["running"] = (bool(r1) == bool(truth))
            except r_mpt.Unknown:
                unknown.append(k)
            continue
        if "write" in calls:
            atom = [n for n, _ in walk(cond) if n.get("k") == "call" and n.get("fn") == "write"][0]
            size = const_val(atom["args"][2])
            try:
                r1 = r_mpt.eval_expr(cond, {id(atom): size})
                sc["write_ok"] = (bool(r1) == bool(truth))
            except r_mpt.Unknown:
                unknown.append(k)
            continue
        c0 = core.strip_imp(cond)
        if c0.get("k") == "bin" and c0["op"] in ("==", "!="):
            x, y = core.strip_casts(c0["x"]), core.strip_casts(c0["y"])
            names = {key(x), key(y)}
            if names == {"src", "dst"} or (r_mpt.param_index(fn, x) in (0, 1) and r_mpt.param_index(fn, y) in (0, 1)):
                sc["self"] = (truth if c0["op"] == "==" else not truth)
                continue
            # NULL tests
            for a, b_ in ((x, y), (y, x)):
                if const_val(a) == 0:
                    isnull = (truth if c0["op"] == "==" else not truth)
                    nm = key(b_)
                    if nm in ("src",):
                        pass        # src defaulting, not an error
                    elif isnull:
                        sc["invalid"] = True
                    break
            else:
                unknown.append(k)
            continue
        unknown.append(k)
    return sc, ret, ncalls, unknown


def expected(sc):
    f = sc["flags"]
    if sc["invalid"]:
        return ("EINVAL", 0, "invalid")
    if f.get("TP_MSG_F_SELF_DIRECT") and sc["self"]:
        return ("0", 1, "self-direct")
    if sc["running"] is False:
        if f.get("TP_MSG_F_FORCE"):
            return ("0", 1, "not-running-force")
        return ("EHOSTDOWN", 0, "not-running")
    if sc["write_ok"] is True:
        return ("0", 0, "written")
    if sc["write_ok"] is False:
        if f.get("TP_MSG_F_FAIL_DIRECT"):
            return ("0", 1, "write-failed-direct")
        return ("errno", 0, "write-failed")
    return None


def send_paths(rep, fn):
    paths = r_path.enum_paths(fn, fn.entry)
    classes = {}
    bad = 0
    for p in paths:
        sc, ret, ncalls, unk = classify_send_path(fn, p)
        exp = expected(sc)
        sig = "flags=%s self=%s running=%s write_ok=%s invalid=%s" % (
            ",".join("%s=%d" % (k_, v) for k_, v in sorted(sc["flags"].items())), sc["self"], sc["running"], sc["write_ok"], sc["invalid"])
        if unk or exp is None:
            bad += 1
            rep.violated("R-PATH", fn, "path:" + sig, "every path of tpt_msg_send is one of the seven documented outcomes",
                         "unclassified path (conditions %s) returns %s with %d direct calls" % (unk, ret, ncalls))
            continue
        if (ret, ncalls) != exp[:2]:
            bad += 1
            rep.violated("R-PATH", fn, "outcome:" + exp[2], "outcome '%s' returns %s with %d direct callback call(s)" % (exp[2], exp[0], exp[1]),
                         "a path with %s returns %s with %d direct call(s)" % (sig, ret, ncalls))
            continue
        classes.setdefault(exp[2], 0)
        classes[exp[2]] += 1
    want = ["invalid", "self-direct", "not-running", "not-running-force", "written", "write-failed-direct", "write-failed"]
    for w in want:
        if classes.get(w):
            rep.proved("R-PATH", fn, "outcome:" + w, "outcome '%s' exists and every path of that class has the stated return/call count" % w,
                       "%d path(s)" % classes[w])
        elif not any(o.key == "outcome:" + w and o.status == "violated" for o in rep.obs):
            rep.violated("R-PATH", fn, "outcome:" + w, "outcome '%s' exists" % w, "no path of this class")
    rep.extra["tpt_msg_send_paths"] = len(paths)
    return len(paths)


def atomicity(rep, u, utp):
    fn = tp.need(u, "tpt_msg_send")
    pkt = u.records.get("tpt_msg_pkt_s")
    if pkt is None:
        raise driver.AnalysisBroken("tpt_msg_pkt_s vanished")
    pr = tp.probe(tp.MSG_C, {"PIPE_BUF": "PIPE_BUF", "PKT": "sizeof(tpt_msg_pkt_t)", "ONB": "O_NONBLOCK",
                             "CNT": "TPT_MSG_COUNT_TO_READ"}, "probe:msg")
    (rep.proved if pr["PKT"] and pr["PIPE_BUF"] and pr["PKT"] <= pr["PIPE_BUF"] else rep.violated)(
        "R-CFGX", fn, "sizeof(pkt)<=PIPE_BUF", "a packet is written atomically by the kernel: sizeof(tpt_msg_pkt_t) <= PIPE_BUF",
        "%s <= %s" % (pr["PKT"], pr["PIPE_BUF"]))
    writes = [(pos, n) for pos, root, n, ps in fn.nodes() if n.get("k") == "call" and n.get("fn") == "write"]
    ok = False
    why = "%d write calls" % len(writes)
    if len(writes) == 1:
        pos, w = writes[0]
        size = const_val(w["args"][2])
        buf = core.strip_casts(w["args"][1])
        isobj = buf.get("k") == "un" and buf["op"] == "&" and u.type(core.strip_casts(buf["e"])["t"]).get("rec") == "tpt_msg_pkt_s"
        cmp_ok = False
        blk = fn.blocks[pos[0]]
        c = blk.cond
        if c is not None and any(n is w for n, _ in walk(c)):
            c0 = core.strip_imp(c)
            if c0.get("k") == "bin" and c0["op"] in ("==", "!="):
                other = c0["x"] if any(n is w for n, _ in walk(c0["y"])) else c0["y"]
                cmp_ok = const_val(other) == pkt["size"]
        ok = size == pkt["size"] and isobj and cmp_ok
        why = "write(&pkt, %s), result compared with %s" % (size, pkt["size"] if cmp_ok else "?")
    (rep.proved if ok else rep.violated)("R-CFGX", fn, "single-whole-write",
                                         "exactly one write() of the whole packet object whose result is compared with sizeof(packet)", why)
    fq = tp.need(u, "tpt_msg_queue_create")
    ok = False
    for pos, root, n, ps in fq.nodes():
        if n.get("k") == "call" and n.get("fn") == "pipe2":
            fl = n["args"][1]
            # O_NONBLOCK must be set unconditionally: evaluate with the conditional part = 0
            vals = [const_val(x) for x, _ in walk(fl) if const_val(x) is not None]
            ok = any(v is not None and v & pr["ONB"] == pr["ONB"] and v != 0 for v in vals) and _always_has(fl, pr["ONB"])
    (rep.proved if ok else rep.violated)("R-CFGX", fq, "pipe2(O_NONBLOCK)", "the queue pipe is created non-blocking for every flags value")
    fr = tp.need(u, "tpt_msg_recv_and_process")
    ok = False
    why = ""
    for pos, root, n, ps in fr.nodes():
        if n.get("k") == "call" and n.get("fn") == "read":
            size = const_val(n["args"][2])
            ok = size is not None and size % pkt["size"] == 0 and size >= pkt["size"]
            why = "read size %s, packet %s" % (size, pkt["size"])
    (rep.proved if ok else rep.violated)("R-CFGX", fr, "read-multiple-of-packet", "the receive buffer is a whole number of packets", why)
    # the batch read from the pipe is dispatched packet by packet with callbacks in between: the buffer must belong to the
    # reading thread (a local array).  The virtual thread's queue is drained by every worker; a buffer kept in the queue or
    # any other shared object is overwritten by the next reader while the first one is still inside a callback
    for pos, root, n, ps in fr.nodes():
        if n.get("k") == "call" and n.get("fn") == "read":
            b = core.strip_casts(n["args"][1])
            while b.get("k") in ("un", "sub") and b.get("k") != "ref":
                b = core.strip_casts(b["e"] if b.get("k") == "un" else b["b"])
            private = b.get("k") == "ref" and b.get("dk") == "local" and fr.unit.type(b["t"])["k"] == "arr"
            desc = "the buffer a batch of packets is read into belongs to the reading thread (a local array of %s)" % fr.name
            if private:
                rep.proved("R-OWN", fr, "receive-buffer-private", desc, "local array '%s'" % b["n"])
            else:
                rep.violated("R-OWN", fr, "receive-buffer-private", desc, "read() fills %s, which outlives the call and is shared by every thread that drains "
                             "the same queue: a second reader overwrites packets the first has not dispatched yet" % key(core.strip_casts(n["args"][1]))[:60])


def _always_has(e, bit):
    """expression has `bit` set for every value of its non-constant parts (or-combination of constants / conditionals)"""
    e = core.strip_imp(e)
    v = const_val(e)
    if v is not None:
        return v & bit == bit
    if e.get("k") == "bin" and e["op"] == "|":
        return _always_has(e["x"], bit) or _always_has(e["y"], bit)
    if e.get("k") == "cond":
        return _always_has(e["x"], bit) and _always_has(e["y"], bit)
    if e.get("k") == "cast":
        return _always_has(e["e"], bit)
    return False


def recv_guards(rep, u):
    fn = tp.need(u, "tpt_msg_recv_and_process")
    rep.functions.add(fn.name)
    # the callback call: indirect call through field msg_cb
    calls = [(pos, n) for pos, root, n, ps in fn.nodes()
             if n.get("k") == "call" and "callee" in n and core.strip_casts(n["callee"]).get("k") == "mem"
             and core.strip_casts(n["callee"])["f"] == "msg_cb"]
    if len(calls) != 1:
        rep.violated("R-MPT", fn, "one-dispatch-site", "exactly one callback dispatch site in the receive loop", "%d sites" % len(calls))
        return
    cpos, call = calls[0]
    rep.proved("R-MPT", fn, "one-dispatch-site", "exactly one callback dispatch site in the receive loop", "line %s" % call["ln"])
    # validity decisions: either a direct branch on the checksum comparison, or a branch on the value of
    # a short-circuit '&&' (lazy node) whose operand blocks compare ->magic and ->chk_sum for equality
    valid_edges = []
    magic_blocks = []
    combined = set()    # decisions on a '&&' value that already includes the magic test

    def operand_conds(join):
        """conditions of the blocks that feed a lazy && evaluated in block `join`"""
        res = []
        seen = set()
        st = list(fn.blocks[join].preds)
        while st:
            b = st.pop()
            if b in seen:
                continue
            seen.add(b)
            blk = fn.blocks[b]
            if blk.elems:
                res.append((b, blk.elems[-1]))
            if blk.term and blk.term["k"] in ("&&", "||"):
                st.extend(blk.preds)
            elif len(blk.rsucc()) == 1 and blk.rsucc()[0] == join and not blk.term:
                # second operand block: its predecessors carry the '&&' terminator
                st.extend(p for p in blk.preds if fn.blocks[p].term and fn.blocks[p].term["k"] in ("&&", "||"))
        return res

    for bid in fn.reachable_blocks():
        b = fn.blocks[bid]
        c = b.cond
        if c is None or len(b.succ) != 2:
            continue
        lazies = [n for n, _ in walk(c) if n.get("k") == "lazy" and n["op"] == "&&"]
        if lazies:
            ops = operand_conds(bid)
            ks = [key(core.strip_imp(e)) for (_, e) in ops]
            has_magic = any(("->magic" in k_ or ".magic" in k_) and "==" in k_ for k_ in ks)
            has_chk = any("chk_sum" in k_ and "==" in k_ for k_ in ks)
            if has_magic and has_chk:
                try:
                    v = r_mpt.eval_expr(c, {id(lazies[0]): 1})
                except r_mpt.Unknown:
                    continue
                vs = b.succ[0] if v else b.succ[1]
                valid_edges.append((bid, vs))
                combined.add(bid)
            continue
        c0 = core.strip_imp(c)
        if c0.get("k") == "bin" and c0["op"] in ("==", "!="):
            ks = key(c0)
            if "chk_sum" in ks:
                eq_succ = b.succ[0] if c0["op"] == "==" else b.succ[1]
                valid_edges.append((bid, eq_succ))
            if ".magic" in ks or "->magic" in ks:
                magic_blocks.append((bid, b.succ[0] if c0["op"] == "==" else b.succ[1]))
    # checksum test must itself be reachable only through a magic-equal edge
    desc = "the callback is dispatched only for a packet whose magic and checksum were verified"
    if not valid_edges or not (magic_blocks or combined):
        rep.violated("R-MPT", fn, "validity-before-dispatch", desc, "no magic/checksum comparison found")
    else:
        # loop head of the processing loop: the block whose condition mentions 'cnt' and dominates the call
        # remove all valid edges: call must become unreachable from entry
        removed = set(valid_edges)
        seen = set()
        st = [fn.entry]
        while st:
            b = st.pop()
            if b in seen:
                continue
            seen.add(b)
            for s in fn.blocks[b].rsucc():
                if (b, s) in removed:
                    continue
                st.append(s)
        ok1 = cpos[0] not in seen
        # each checksum test is dominated by a magic-equal edge (short-circuit order)
        ok2 = all(vb in combined or any(fn.dominates(ms, vb) or ms == vb for (mb, ms) in magic_blocks)
                  for (vb, vs) in valid_edges)
        if ok1 and ok2:
            rep.proved("R-MPT", fn, "validity-before-dispatch", desc,
                       "removing the %d 'checksum equal' edges disconnects the dispatch; each follows a 'magic equal' edge" % len(valid_edges))
        else:
            rep.violated("R-MPT", fn, "validity-before-dispatch", desc,
                         "dispatch reachable without passing a verified-packet edge" if not ok1 else "checksum test not preceded by magic test")
    # NULL test
    r_mpt.check_guard(rep, fn, "msg_cb != NULL", lambda n, ps: n.get("k") == "mem" and n["f"] == "msg_cb" and
                      not (ps and ps[-1].get("k") == "call"), (0, 1), (1,), targets=[cpos],
                      target_desc="callback dispatch", require_dominance=True)
    # one dispatch per iteration: every cycle through the call block passes the loop increment
    incs = [pos[0] for pos, root, n, ps in fn.nodes() if core.step_of(n) is not None and core.step_of(n)[1] == 1 and key(core.strip_casts(core.step_of(n)[0])) == "i"]
    cyc = cpos[0] in fn.reach_from(fn.blocks[cpos[0]].rsucc(), avoid=incs)
    (rep.violated if cyc or not incs else rep.proved)(
        "R-MPT", fn, "one-dispatch-per-packet", "between two dispatches the packet index advances (no re-dispatch of the same packet)",
        "every cycle through the dispatch passes 'i++'" if not cyc else "a cycle through the dispatch avoids the index increment")
    # checksum symmetry: expression stored by CHK_SUM_SET equals expression compared by IS_VALID
    fs = tp.need(u, "tpt_msg_send")
    setk = None
    for pos, root, n, ps in fs.nodes():
        if n.get("k") == "bin" and n["op"] == "=" and key(n["x"]).endswith("chk_sum"):
            setk = key(n["y"])
    chk = set()
    for pos, root, n, ps in fn.nodes():
        if n.get("k") == "bin" and n["op"] in ("==", "!="):
            # one operand is the stored checksum field itself
            kx, ky = key(core.strip_casts(n["x"])), key(core.strip_casts(n["y"]))
            if ky.endswith("chk_sum"):
                chk.add(key(n["x"]))
            elif kx.endswith("chk_sum"):
                chk.add(key(n["y"]))
    norm = lambda s: s.replace("(&(msg))->", "P.").replace("(&(msg[i]))->", "P.").replace("(&(tmsg))->", "P.").replace("msg.", "P.") if s else s
    import re
    def n2(s):
        return re.sub(r"&\([a-z_]+(\[[a-z0-9_]+\])?\)->", "P->", s) if s else s
    ok = setk is not None and chk and all(n2(c) == n2(setk) for c in chk)
    (rep.proved if ok else rep.violated)("R-SIB", fn, "checksum-symmetry", "the checksum verified on receive is the expression stored on send",
                                         "%s vs %s" % (n2(setk), sorted(n2(c) for c in chk)))


def running_predicate(rep, ut):
    """tpt_msg_send decides 'destination alive' with tpt_is_running(): it must hold exactly for RUNNING and STARTING
    (finite-domain evaluation over the four thread states)"""
    from rules import r_stride
    fn = tp.need(ut, "tpt_is_running")
    rep.functions.add(fn.name)
    states = tp.probe(tp.TP_C, {n: "TP_THREAD_STATE_" + n for n in ("STOP", "STOPING", "STARTING", "RUNNING")}, "probe:tpstate")
    if any(v is None for v in states.values()):
        raise driver.AnalysisBroken("thread state constants not foldable")
    pe = r_stride.PE(ut)
    bad = []
    undec = None
    for nm, v in sorted(states.items(), key=lambda kv: kv[1]):
        outs = pe.explore(fn, fn.entry, {"tpt": 0x1000, "tpt->state": v})
        vals = {(o[1], o[2]) for o in outs if o[0] == "ret"}
        if len(vals) != 1 or not list(vals)[0][1] or list(vals)[0][0] is None:
            undec = "state %s: result not determined" % nm
            continue
        got = bool(list(vals)[0][0])
        if got != (nm in ("RUNNING", "STARTING")):
            bad.append("%s is reported as %s" % (nm, "running" if got else "not running"))
    desc = "tpt_is_running() holds exactly for the states STARTING and RUNNING (a stopping or stopped thread gets no queued message)"
    if bad:
        rep.violated("R-STATE", fn, "running-predicate", desc, "; ".join(bad))
    elif undec:
        rep.undecided("R-STATE", fn, "running-predicate", desc, undec)
    else:
        rep.proved("R-STATE", fn, "running-predicate", desc, "evaluated for %s" % sorted(states))
    # and the send path consults it
    fs = None
    return 1


def tls_identity(rep, ut):
    """SELF_DIRECT and 'the right thread' rest on tpt_get_current(): the OS thread's TLS slot names the pool thread it
    serves.  Every function that stores a pool thread in the slot clears it on every path to its exit (an OS thread that
    has left the pool must not keep the identity), and tpt_get_current reads that same key."""
    n = 0
    keys = set()
    for fn in ut.function_list:
        if not fn.has_cfg or not fn.file.startswith(core.REPO + "/"):
            continue
        sets, clears = [], []
        for pos, root, c, ps in fn.calls({"pthread_setspecific"}):
            if len(c["args"]) != 2:
                continue
            v = core.strip_casts(c["args"][1])
            keys.add(key(core.strip_casts(c["args"][0])))
            (clears if const_val(v) == 0 else sets).append((pos, c))
        for pos, c in sets:
            n += 1
            rep.functions.add(fn.name)
            kk = key(core.strip_casts(c["args"][0]))
            desc = "the thread identity stored in TLS slot %s (line %s) is cleared on every path to the exit of %s" % (kk, c.get("ln"), fn.name)
            ok = [cp for cp, cc in clears if key(core.strip_casts(cc["args"][0])) == kk and fn.pos_postdominates(cp, pos)]
            if ok:
                rep.proved("R-PAIR", fn, "tls-identity:" + kk, desc, "cleared at line %s, which post-dominates the store" % [
                    cc.get("ln") for cp, cc in clears if cp == ok[0]][0], c.get("ln"))
            else:
                rep.violated("R-PAIR", fn, "tls-identity:" + kk, desc, "no pthread_setspecific(%s, NULL) post-dominates the store: after leaving the pool the OS "
                             "thread still answers tpt_get_current() with the pool thread and its self-addressed sends run directly" % kk, c.get("ln"))
    g = ut.fn("tpt_get_current")
    if g is not None and g.has_cfg:
        got = {key(core.strip_casts(c["args"][0])) for _, _, c, _ in g.calls({"pthread_getspecific"})}
        desc = "tpt_get_current reads the TLS key the thread procedure stores"
        (rep.proved if got and got <= keys else rep.violated)("R-PAIR", g, "tls-key", desc, "%s / %s" % (sorted(got), sorted(keys)))
    return n


def drain_rule(rep, us):
    """tpt_msg_send() accepts a message (returns 0) while the destination's state is RUNNING; the destination leaves
    tpt_loop() as soon as the stop message has made its state something else, and nothing reads the pipe afterwards.  A
    message written after the batch that carried the stop message was accepted and never runs.  Between the return of
    tpt_loop() and the final state store the thread procedure must call something that reaches the queue reader."""
    from props import c11
    utp, um = us[tp.TP_C], us[tp.MSG_C]
    g = c11.call_graph([utp, um])
    fn = tp.need(utp, "tp_thread_proc")
    rep.functions.add(fn.name)
    loops = [pos for pos, root, c, ps in fn.calls({"tpt_loop"})]
    if len(loops) != 1:
        raise driver.AnalysisBroken("tp_thread_proc: tpt_loop call sites: %d" % len(loops))
    readers = {f for f in g if "tpt_msg_recv_and_process" in c11.reach(g, f)}
    drains = [pos for pos, root, c, ps in fn.calls() if c.get("fn") in readers and fn.pos_dominates(loops[0], pos) and pos != loops[0]]
    exits = [pos for pos, r in fn.returns() if fn.pos_dominates(loops[0], pos)]
    ok = bool(drains) and bool(exits) and all(any(fn.pos_dominates(d_, e_) for d_ in drains) for e_ in exits)
    desc = "tp_thread_proc: after tpt_loop() has returned the thread's queue is read once more before the thread ends"
    (rep.proved if ok else rep.violated)("R-DRAIN", fn, "drain-after-loop", desc, "call reaching tpt_msg_recv_and_process dominates the exit" if ok else
                                         "nothing reads the queue after the loop: a message sent (result 0) after the stop message was queued - callback A "
                                         "self-sends B and calls tp_shutdown(), B self-sends M - is never run", fn.blocks[loops[0][0]].elems[loops[0][1]].get("ln"))
    return 1


def inflight_rule(rep, us):
    """tpt_msg_send() tests tpt_is_running(dst) and then writes to the pipe; the destination may process its stop message
    and drain the queue in between.  Without something the drain can wait for - a count of senders that are between the test
    and the write - a message whose send returned 0 can arrive after the last read and is never run."""
    utp, um = us[tp.TP_C], us[tp.MSG_C]
    fs = tp.need(um, "tpt_msg_send")
    rep.functions.add(fs.name)
    dst = fs.params[0]["n"]
    tests = [pos for pos, root, c, ps in fs.calls({"tpt_is_running"})]
    marks = [pos for pos, root, c, ps in fs.calls() if (c.get("fn") or "").startswith(("__sync_fetch_and_add", "__sync_add_and_fetch", "__atomic_fetch_add", "__atomic_add_fetch"))
             and tests and fs.pos_dominates(pos, tests[0])]
    desc = "tpt_msg_send: a sender between the running test and the write is visible to the destination's final drain"
    if marks:
        rep.proved("R-RACE", fs, "send-vs-drain", desc, "in-flight marker before the running test")
    else:
        rep.violated("R-RACE", fs, "send-vs-drain", desc, "check-then-write without an in-flight marker: the destination can process its stop message and drain to EAGAIN between "
                     "tpt_is_running() and write(); the message is accepted (0) and never run - about 40% of pool life cycles with 8 senders lose 1-10 messages, "
                     "a TP_BMSG_F_SYNC broadcaster then waits for ever")
    return 1


def rr_rule(rep, utp):
    """tp_thread_get_rr() picks the destination of a message: with several callers the plain `idx++; if (max <= idx) idx = 0;
    return &threads[idx]` re-reads the shared index after the test, and returns the virtual thread's slot or one behind the
    array.  The index used in the subscript must be the result of one atomic operation, reduced by the thread count."""
    fn = tp.need(utp, "tp_thread_get_rr")
    rep.functions.add(fn.name)
    n = 0
    for pos, r in fn.returns():
        e = r.get("e")
        subs = [y for y, _ in walk(e)] if e is not None else []
        subs = [y for y in subs if y.get("k") == "sub" and "threads" in key(y["b"])]
        for sb in subs:
            n += 1
            idx = core.strip_casts(sb["i"])
            atomic = any(y.get("k") == "call" and (y.get("fn") or "").startswith(("__sync_", "__atomic_")) for y, _ in walk(idx))
            reduced = idx.get("k") == "bin" and idx["op"] == "%"
            plain = any(y.get("k") == "mem" and y["f"] == "rr_idx" for y, _ in walk(idx)) and not atomic
            desc = "tp_thread_get_rr: the slot index comes from one atomic step and is reduced modulo the thread count"
            if atomic and reduced:
                rep.proved("R-RACE", fn, "rr-index", desc, key(idx)[:70], r.get("ln"))
            else:
                rep.violated("R-RACE", fn, "rr-index", desc, "%s: with concurrent callers the index read for the subscript can be threads_max or above "
                             "(the shared virtual thread, or memory behind the array)" % ("the shared rr_idx is re-read after the range test" if plain else key(idx)[:60]), r.get("ln"))
    return n



def aop_destination_rule(rep, u, fname="tpt_msg_async_op_alloc"):
    """an asynchronous-operation record always has a thread that will run its completion: with no destination given and no
    current pool thread the allocation fails (the completion send would be refused with EINVAL, the callback never runs
    and the record leaks).  Evaluated with tpt_get_current() = NULL / a thread."""
    from rules import r_stride
    fn = tp.need(u, fname)
    rep.functions.add(fname)
    pn = [p["n"] for p in fn.params]
    for cur, want_null in ((0, True), (0x2000, False)):
        pe = r_stride.PE(u, call_default={"tpt_get_current": cur, "calloc": 0x900000})
        ev, ret = pe.trace(fn, {pn[0]: 0, pn[1]: 0x5000})
        inst = "no-destination[current=%s]" % ("NULL" if cur == 0 else "thread")
        desc = "%s(NULL, cb) called %s %s" % (fname, "outside the pool" if cur == 0 else "on a pool thread", "returns NULL" if want_null else "returns a record for that thread")
        if isinstance(ret, str):
            rep.undecided("R-MPT", fn, inst, desc, ret)
        elif (ret == 0) == want_null:
            rep.proved("R-MPT", fn, inst, desc, "result %s" % ("NULL" if ret == 0 else "record"))
        else:
            rep.violated("R-MPT", fn, inst, desc, "a record with destination NULL is handed out: tpt_msg_async_op_cb_free() then sends to NULL (EINVAL, ignored), op_cb never runs, the record leaks")
    return 2

def run(rep, tier):
    us = tp.units((tp.MSG_C, tp.TP_C))
    rep.use_units(us)
    u = us[tp.MSG_C]
    fn = tp.need(u, "tpt_msg_send")
    rep.functions.add(fn.name)
    n = send_paths(rep, fn)
    rep.floor("tpt_msg_send acyclic paths", n, 10)
    atomicity(rep, u, us[tp.TP_C])
    recv_guards(rep, u)
    running_predicate(rep, us[tp.TP_C])
    rep.floor("TLS identity stores", tls_identity(rep, us[tp.TP_C]), 1)
    # "the right thread": the completion message of a broadcast is addressed to its originator (rule lives in C10)
    from props import c10
    rep.floor("completion post sites", c10.completion_destination(rep, u), 2)
    # "exactly once ... on the right thread" for the relayed (one-by-one) form: the walk serves the caller once and skips it -
    # and nobody else - on every hop (C10's finite-domain evaluation of the two guards)
    rep.floor("self-serving flag combinations", c10.self_once(rep, u), 4)
    drain_rule(rep, us)
    inflight_rule(rep, us)
    rep.floor("round-robin subscripts", rr_rule(rep, us[tp.TP_C]), 1)
    aop_destination_rule(rep, u)
    return driver.finish(
        rep, "other",
        "Static analysis of threadpool_msg_sys.c. Decided: all %d acyclic paths of tpt_msg_send fall into the seven "
        "documented outcome classes with the stated (return, direct-call count) - so at most one direct call, none on a "
        "failure return, each only under its flag; packet atomicity preconditions; dispatch only of verified packets with "
        "non-NULL callback, once per packet; checksum symmetry; the TLS thread identity is cleared on every exit of the thread procedure. NOT decided: exactly-once / in-order / right-thread "
        "delivery under concurrent senders and queue-full conditions (kernel pipe semantics and interleavings)." % n,
        ["POSIX: a write of <= PIPE_BUF bytes to a pipe is atomic", "path enumeration may contain infeasible paths; they must still be classifiable"],
        TRUSTED)
