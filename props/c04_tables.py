"""R-TBL for the hash headers: constants compared with values recomputed from
the standards' definitions in python (no repository code is executed)."""
import math
from rules import driver, core
from rules.core import walk, key, const_val

M32 = 0xffffffff
M64 = 0xffffffffffffffff


def primes(n):
    ps = []
    c = 2
    while len(ps) < n:
        if all(c % p for p in ps):
            ps.append(c)
        c += 1
    return ps


def iroot(n, k):
    lo, hi = 0, 1
    while hi ** k <= n:
        hi *= 2
    while lo < hi - 1:
        mid = (lo + hi) // 2
        if mid ** k <= n:
            lo = mid
        else:
            hi = mid
    return lo


P80 = primes(80)
MD5_T = [int(abs(math.sin(i + 1)) * 4294967296) & M32 for i in range(64)]
MD5_S = [7, 12, 17, 22] * 4 + [5, 9, 14, 20] * 4 + [4, 11, 16, 23] * 4 + [6, 10, 15, 21] * 4
MD5_X = [i for i in range(16)] + [(5 * i + 1) % 16 for i in range(16)] + \
        [(3 * i + 5) % 16 for i in range(16)] + [(7 * i) % 16 for i in range(16)]
MD5_IV = [0x67452301, 0xefcdab89, 0x98badcfe, 0x10325476]
SHA1_IV = MD5_IV + [0xc3d2e1f0]
SHA1_K = [iroot(x << 60, 2) & M32 for x in (2, 3, 5, 10)]
SHA256_K = [iroot(p << 96, 3) & M32 for p in P80[:64]]
SHA512_K = [iroot(p << 192, 3) & M64 for p in P80[:80]]
SHA256_H0 = [iroot(p << 64, 2) & M32 for p in P80[:8]]
SHA512_H0 = [iroot(p << 128, 2) & M64 for p in P80[:8]]
SHA384_H0 = [iroot(p << 128, 2) & M64 for p in P80[8:16]]
SHA224_H0 = [x & M32 for x in SHA384_H0]

assert SHA1_K == [0x5a827999, 0x6ed9eba1, 0x8f1bbcdc, 0xca62c1d6]
assert SHA256_K[0] == 0x428a2f98 and SHA512_K[79] == 0x6c44198c4a475817
assert SHA224_H0[0] == 0xc1059ed8 and SHA256_H0[0] == 0x6a09e667


def u(v, bits):
    return int(v) & ((1 << bits) - 1)


def ordered_ints(fn, pred):
    """int literal nodes of fn satisfying pred(node, parents), in source order"""
    out = []
    seq = 0
    for pos, root, n, parents in fn.nodes():
        seq += 1
        if n.get("k") == "int" and pred(n, parents + (root,) if root is not n else parents):
            out.append((n["ln"], seq, int(n["v"])))
    out.sort()
    return [v for _, _, v in out]


def cmp_list(rep, fn, inst, desc, got, want, fmt=hex):
    if got == want:
        rep.proved("R-TBL", fn, inst, desc, "%d entries equal the reference" % len(want))
        return True
    diffs = []
    if len(got) != len(want):
        diffs.append("count %d != %d" % (len(got), len(want)))
    for i, (a, b) in enumerate(zip(got, want)):
        if a != b:
            diffs.append("[%d] %s != %s" % (i, fmt(a), fmt(b)))
            if len(diffs) > 4:
                break
    rep.violated("R-TBL", fn, inst, desc, "; ".join(diffs))
    return False


def hash_iv(rep, fn, want, bits, inst="IV"):
    """assignments ctx->hash[i] = const in an init function"""
    got = {}
    for pos, root, n, parents in fn.nodes():
        if n.get("k") == "bin" and n["op"] == "=":
            lhs = core.strip_casts(n["x"])
            if lhs.get("k") == "sub" and key(lhs["b"]).endswith("->hash"):
                i, v = const_val(lhs["i"]), const_val(n["y"])
                if i is not None and v is not None:
                    got[i] = u(v, bits)
    cmp_list(rep, fn, inst, "initial hash value equals the standard IV",
             [got.get(i) for i in range(len(want))], want, lambda x: hex(x) if x is not None else "None")


def md5(rep, unit):
    ft = unit.fn("md5_transform")
    fi = unit.fn("md5_init")
    if ft is None or fi is None:
        raise driver.AnalysisBroken("md5 anchors vanished")
    rep.functions.update(["md5_transform", "md5_init"])
    hash_iv(rep, fi, MD5_IV, 32)
    step_macros = {"MD5_FF", "MD5_GG", "MD5_HH", "MD5_II"}

    def in_step(n, parents):
        for p in (n,) + tuple(reversed(parents)):
            m = p.get("m")
            if m:
                return bool(step_macros & set(m))
        return False
    T = ordered_ints(ft, lambda n, ps: in_step(n, ps) and int(n["v"]) > 0xffff)
    cmp_list(rep, ft, "T[64]", "MD5 additive constants T[i] = floor(2^32*|sin(i+1)|) in step order", [u(v, 32) for v in T], MD5_T)
    # rotation amounts: left-shift counts inside the step macros
    shl = []
    seq = 0
    for pos, root, n, parents in ft.nodes():
        seq += 1
        if n.get("k") == "bin" and n["op"] == "<<" and in_step(n, parents + (root,)):
            c = const_val(n["y"])
            shl.append((n["ln"], seq, c))
    shl.sort()
    cmp_list(rep, ft, "S[64]", "MD5 per-step left-rotation amounts", [c for _, _, c in shl], MD5_S, str)
    xs = []
    seq = 0
    for pos, root, n, parents in ft.nodes():
        seq += 1
        if n.get("k") == "sub" and key(n["b"]) == "x" and in_step(n, parents + (root,)):
            xs.append((n["ln"], seq, const_val(n["i"])))
    xs.sort()
    cmp_list(rep, ft, "X[64]", "MD5 message-word index schedule", [c for _, _, c in xs], MD5_X, str)
    # step target registers rotate a,d,c,b
    tg = []
    seq = 0
    for pos, root, n, parents in ft.nodes():
        seq += 1
        if n.get("k") == "bin" and n["op"] == "=" and in_step(n, parents + (root,)) and core.strip_casts(n["x"]).get("k") == "ref":
            tg.append((n["ln"], seq, core.strip_casts(n["x"])["n"]))
    tg.sort()
    cmp_list(rep, ft, "register-rotation", "MD5 step target registers cycle a,d,c,b", [c for _, _, c in tg],
             ["a", "d", "c", "b"] * 16, str)


def big_ints(fn, minval=1 << 24):
    return ordered_ints(fn, lambda n, ps: int(n["v"]) >= minval or int(n["v"]) < -(1 << 24))


def sha1(rep, unit, variant):
    fi = unit.fn("sha1_init")
    fg = unit.fn("sha1_transform_generic")
    if fi is None or fg is None:
        raise driver.AnalysisBroken("sha1 anchors vanished")
    rep.functions.update(["sha1_init", "sha1_transform_generic"])
    hash_iv(rep, fi, SHA1_IV, 32)
    ks = [u(v, 32) for v in big_ints(fg)]
    cmp_list(rep, fg, "K[4]", "SHA-1 round constants floor(2^30*sqrt(2,3,5,10))", [k for k in ks if k in SHA1_K or True][:4], SHA1_K)
    fs = unit.fn("sha1_transform_sse")
    if fs is not None:
        rep.functions.add("sha1_transform_sse")
        ks = [u(v, 32) for v in big_ints(fs)]
        kk = [k for k in ks if (k >> 28) in (0x5, 0x6, 0x8, 0xc) and k not in (0x80000000,)]
        # the four K constants must all be present, each exactly once, in round order
        cmp_list(rep, fs, "K[4]-sse", "SHA-1 round constants in the SSE transform", kk[:4], SHA1_K)
    fsimd = unit.fn("sha1_transform_simd")
    if fsimd is not None:
        rep.functions.add("sha1_transform_simd")
        imm = []
        seq = 0
        for pos, root, n, parents in fsimd.nodes():
            seq += 1
            if n.get("k") == "call" and n.get("fn") in ("__builtin_ia32_sha1rnds4",):
                imm.append((n["ln"], seq, const_val(n["args"][2])))
        imm.sort()
        cmp_list(rep, fsimd, "sha1rnds4-imm", "SHA-NI round-function selectors: 5 x each of 0,1,2,3 in order",
                 [c for _, _, c in imm], [0] * 5 + [1] * 5 + [2] * 5 + [3] * 5, str)
    # rotation amounts 5 and 30 in the generic transform
    rots = set()
    for pos, root, n, parents in fg.nodes():
        if n.get("k") == "bin" and n["op"] == "<<" and const_val(n["y"]) is not None:
            rots.add(const_val(n["y"]))
    if {1, 5, 30} <= rots:
        rep.proved("R-TBL", fg, "rotations", "SHA-1 rotation amounts 1, 5, 30 present", str(sorted(rots)))
    else:
        rep.violated("R-TBL", fg, "rotations", "SHA-1 rotation amounts 1, 5, 30 present", str(sorted(rots)))


def gval(unit, name, fn=None):
    for g in unit.global_list:
        if g["n"] == name and (fn is None or g.get("fn") == fn):
            return core.global_value(unit, g)
    return None


def sha2(rep, unit, variant):
    fi = unit.fn("sha2_init")
    rep.functions.add("sha2_init")
    for nm, want, bits in (("SHA2_224_H0", SHA224_H0, 32), ("SHA2_256_H0", SHA256_H0, 32),
                           ("SHA2_384_H0", SHA384_H0, 64), ("SHA2_512_H0", SHA512_H0, 64)):
        v = gval(unit, nm)
        if v is None:
            raise driver.AnalysisBroken("table %s vanished" % nm)
        cmp_list(rep, fi, nm, "%s = fractional parts of square roots of primes" % nm, [u(x, bits) for x in v], want)
    for fname, want, bits in (("sha2_transform_block64_generic", SHA256_K, 32), ("sha2_transform_block128_generic", SHA512_K, 64)):
        f = unit.fn(fname)
        v = gval(unit, "K", fname)
        if f is None or v is None:
            raise driver.AnalysisBroken("K table of %s vanished" % fname)
        rep.functions.add(fname)
        cmp_list(rep, f, "K[%d]" % len(want), "SHA-2 round constants = fractional parts of cube roots of primes",
                 [u(x, bits) for x in v], want)
        # Sigma/sigma rotation triples: collect constant right-shift amounts used in the function
        want_sh = {2, 13, 22, 6, 11, 25, 7, 18, 3, 17, 19, 10} if bits == 32 else {28, 34, 39, 14, 18, 41, 1, 8, 7, 19, 61, 6}
        got = set()
        for pos, root, n, parents in f.nodes():
            if n.get("k") == "bin" and n["op"] == ">>" and const_val(n["y"]) is not None:
                got.add(const_val(n["y"]))
        if got == want_sh:
            rep.proved("R-TBL", f, "sigma-rotations", "the twelve Sigma/sigma shift amounts equal FIPS 180-4", str(sorted(got)))
        else:
            rep.violated("R-TBL", f, "sigma-rotations", "the twelve Sigma/sigma shift amounts equal FIPS 180-4",
                         "got %s want %s" % (sorted(got), sorted(want_sh)))
    fs = unit.fn("sha2_transform_block64_simd")
    if fs is not None:
        rep.functions.add(fs.name)
        words = []
        seq = 0
        calls = []
        for pos, root, n, parents in fs.nodes():
            seq += 1
            if n.get("k") == "call" and n.get("fn") == "_mm_set_epi64x":
                hi, lo = const_val(n["args"][0]), const_val(n["args"][1])
                calls.append((n["ln"], seq, hi, lo))
        calls.sort()
        for ln, _, hi, lo in calls:
            if hi is None or lo is None:
                continue
            hi, lo = u(hi, 64), u(lo, 64)
            words.append([lo & M32, lo >> 32, hi & M32, hi >> 32])
        # first call is the byte-shuffle MASK, the remaining 16 are K[0..63]
        flat = [w for ws in words[1:] for w in ws]
        cmp_list(rep, fs, "K[64]-simd", "SHA-256 round constants embedded in the SHA-NI transform, in round order", flat, SHA256_K)


def streebog(rep, unit_big, unit_small):
    Ax = gval(unit_big, "gost3411_2012_Ax")
    C = gval(unit_big, "gost3411_2012_C")
    sbox = gval(unit_small, "gost3411_2012_sbox")
    A = gval(unit_small, "gost3411_2012_A")
    tau = gval(unit_small, "gost3411_2012_tau")
    C2 = gval(unit_small, "gost3411_2012_C")
    fn = unit_big.fn("gost3411_2012_SLP")
    if None in (Ax, C, sbox, A, tau, C2) or fn is None:
        raise driver.AnalysisBroken("streebog tables vanished")
    rep.functions.add("gost3411_2012_SLP")
    Ax = [[u(x, 64) for x in row] for row in Ax]
    A = [u(x, 64) for x in A]
    # permutation properties
    (rep.proved if sorted(sbox) == list(range(256)) else rep.violated)(
        "R-TBL", fn, "sbox-permutation", "Streebog S-box is a permutation of 0..255")
    (rep.proved if [int(x) for x in tau] == [((i << 3) | (i >> 3)) & 0x3f for i in range(64)] else rep.violated)(
        "R-TBL", fn, "tau-transpose", "tau table equals the 8x8 byte transposition (and the TAU macro formula)")
    # Ax[w][x] = XOR_{b in bits(sbox[x])} A[63 - 8w - b]   (derived from the two SLP bodies)
    bad = []
    for w in range(8):
        for x in range(256):
            s = int(sbox[x])
            v = 0
            for b in range(8):
                if s >> b & 1:
                    v ^= A[63 - 8 * w - b]
            if v != Ax[w][x]:
                bad.append((w, x))
    if not bad:
        rep.proved("R-TBL", fn, "Ax=L.S", "expanded table Ax[w][x] equals the L∘S contribution computed from sbox and A "
                   "(2048 entries)", "all equal")
    else:
        rep.violated("R-TBL", fn, "Ax=L.S", "expanded table Ax[w][x] equals the L∘S contribution computed from sbox and A",
                     "%d mismatches, first at Ax[%d][%d]" % (len(bad), bad[0][0], bad[0][1]))
    (rep.proved if C == C2 else rep.violated)("R-TBL", fn, "C-both-builds", "iteration constants C agree between the two table builds")
    rep.note('Streebog iteration constants C are only cross-checked between the two table builds; no offline-derivable definition')


CPUID_WANT = {
    # variant -> {flag field: (leaf, reg, bit)}
    "nosimd": {},
    "default": {"use_sse": (1, "edx", 26)},
    "ssse3": {"use_sse": (1, "ecx", 9)},
    "sse41": {"use_sse": (1, "ecx", 19)},
    "avx": {"use_sse": (1, "ecx", 19), "use_avx": (1, "ecx", 28)},
    "avx2": {"use_sse": (1, "ecx", 19), "use_avx": (7, "ebx", 5)},
    "sha": {"use_sse": (1, "ecx", 19), "use_simd": (7, "ebx", 29)},
    "smalltbl": {}, "smalltbl_tau": {},
}


def cpuid(rep, unit, init_name, variant, fields):
    fn = unit.fn(init_name)
    rep.functions.add(init_name)
    got = {}
    leaf = None
    # straight-line search in source order
    items = []
    seq = 0
    for pos, root, n, parents in fn.nodes():
        seq += 1
        if n.get("k") == "call" and n.get("fn") == "__get_cpuid_count":
            items.append((n["ln"], seq, "leaf", const_val(n["args"][0])))
        if n.get("k") == "bin" and n["op"] in ("=", "|=") and core.strip_casts(n["x"]).get("k") == "mem" and \
                core.strip_casts(n["x"])["f"] in ("use_sse", "use_avx", "use_simd"):
            rhs = core.strip_casts(n["y"])
            if rhs.get("k") == "bin" and rhs["op"] == "&":
                reg = None
                bit = None
                for side in (rhs["x"], rhs["y"]):
                    s = core.strip_casts(side)
                    if s.get("k") == "ref":
                        reg = s["n"]
                    elif const_val(s) is not None:
                        c = const_val(s)
                        bit = c.bit_length() - 1 if c > 0 and c & (c - 1) == 0 else None
                items.append((n["ln"], seq, core.strip_casts(n["x"])["f"], (reg, bit)))
    items.sort()
    for ln, _, kind, val in items:
        if kind == "leaf":
            leaf = val
        else:
            got[kind] = (leaf, val[0], val[1])
    want = {k: v for k, v in CPUID_WANT[variant].items() if k in fields}
    desc = "CPUID (leaf, register, bit) tested for each enabled feature equals the architectural assignment"
    if got == want:
        rep.proved("R-TBL", fn, "cpuid:" + variant, desc, str(got))
    else:
        rep.violated("R-TBL", fn, "cpuid:" + variant, desc, "got %s want %s" % (got, want))


def run(rep, specs, us, tier):
    from props import common
    n = 0
    for (h, lab, s) in specs:
        u_ = us[s.label]
        if h == "md5":
            md5(rep, u_)
        elif h == "sha1":
            sha1(rep, u_, lab)
            cpuid(rep, u_, "sha1_init", lab, ("use_sse", "use_simd"))
        elif h == "sha2":
            sha2(rep, u_, lab)
            cpuid(rep, u_, "sha2_init", lab, ("use_simd",))
        elif h == "gost3411":
            cpuid(rep, u_, "gost3411_2012_init", lab, ("use_sse", "use_avx"))
        n += 1
    # Streebog table agreement needs both table builds
    sm = common.hdr_unit("gost3411:smalltbl", "crypto/hash/gost3411-2012.h", ("!__SSE2__", "GOST3411_2012_USE_SMALL_TABLES"))
    bg = common.hdr_unit("gost3411:nosimd", "crypto/hash/gost3411-2012.h", ("!__SSE2__",))
    two = driver.load_units([sm, bg])
    streebog(rep, two["gost3411:nosimd"], two["gost3411:smalltbl"])
    rep.floor("hash units with table checks", n, 8)
