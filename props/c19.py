"""C19 — packet ring buffer: structural clauses.

The statement quantifies over histories of writer and reader steps; stream order and byte identity over histories are
not decided.  The ring's code, however, touches its positions only through comparisons between a handful of
quantities (reader round / writer round, reader index / writer index / last valid index), so the *decisions* of each
function are a finite table over the orderings of those quantities, and several clauses are visible in that table or in
the shape of the code:

  * R-SIB (validity)    r_buf_rpos_check and r_buf_rpos_check_fast give the same verdict for every ordering of
                        (reader round vs writer round incl. the counter wrap, reader index vs writer index, index + 1,
                        last valid index)
  * R-STATE (resync)    whenever r_buf_rpos_check rejects a position it reports a dropped amount through its
                        out-parameter and leaves the position repaired: checking the position it left behind succeeds
                        (a lagging reader is resynchronised by the call that detects the lag, and is told once)
  * R-SIB (segments)    r_buf_data_avail_size and r_buf_data_get walk the same block ranges: same-round and
                        previous-round cases select the same (first block, block count) pairs, both start after the
                        reader's offset in its first block, both short-cut the empty case identically
  * R-SPEC (writer)     r_buf_wbuf_get, evaluated over the classes of (space left vs requested size vs minimum block
                        size, current block used or not): the region handed out lies inside the ring storage, the wrap
                        is taken exactly when the space left is too small, a wrap bumps the round counter once, records
                        the last valid block and restarts at block 0; r_buf_wbuf_set / r_buf_wbuf_set2 on a commit that
                        fits what was handed out: block length and base, write offset advance, last valid index
  * R-CURSOR            relational abstract interpretation of the file's functions (accesses proved / listed undecided)
"""
import itertools
from rules import driver, core, r_mpt, r_stride
from rules.core import walk, key, const_val, strip_casts
from props import common, memsafe, fixtures

TRUSTED = ["clang 14 front end + CFG builder", "tool/lcbfacts.cc", "rules/r_stride.py partial evaluator", "rules/absint.py", "python3"]
SRC = "src/utils/ring_buffer.c"
M64 = (1 << 64) - 1


def need(u, name):
    fn = u.fn(name)
    if fn is None or not fn.has_cfg:
        raise driver.AnalysisBroken("anchor %s vanished" % name)
    return fn


def _grid():
    """every ordering of the compared quantities: rounds (incl. the wrap of the counter), indices 0..5"""
    rounds = [(4, 6), (5, 6), (6, 6), (7, 6), (M64, 0), (M64 - 1, 0), (0, 0), (0, 1), (0, M64), (M64, M64)]
    for (rr, wr), ri, wi, wm in itertools.product(rounds, range(0, 7), range(0, 5), range(0, 6)):
        if wm < wi and wr != 0:
            continue            # the last valid index is at least the write index once a round completed
        yield rr, wr, ri, wi, wm


def _bind(fn, rr, wr, ri, wi, wm):
    rb, rp = fn.params[0]["n"], fn.params[1]["n"]
    return {rb: 0x1000, rp: 0x2000, rp + "->round_num": rr, rb + "->round_num": wr, rp + "->iov_index": ri,
            rb + "->iov_index": wi, rb + "->iov_index_max": wm, rp + "->iov_off": 0, rb + "->size": 4096,
            "%s->iov[%s->iov_index].iov_len" % (rb, rp): 100, "%s->iov[%s->iov_index].iov_len" % (rb, rb): 50}


def validity_siblings(rep, u, na="r_buf_rpos_check", nb="r_buf_rpos_check_fast"):
    fa, fb = need(u, na), need(u, nb)
    rep.functions.update([fa.name, fb.name])
    n = 0
    bad = undec = None
    for rr, wr, ri, wi, wm in _grid():
        pe = r_stride.PE(u, call_default={"r_buf_iovec_calc_size": 300})
        ba = _bind(fa, rr, wr, ri, wi, wm)
        ba[fa.params[2]["n"]] = 0x3000
        oa = {v for v, s in pe.outcomes(fa, ba, 0)}
        ob = {v for v, s in pe.outcomes(fb, _bind(fb, rr, wr, ri, wi, wm), 0)}
        n += 1
        if None in oa or None in ob or len(oa) != 1 or len(ob) != 1:
            undec = undec or "verdict not computable for reader (round %d, block %d), writer (round %d, block %d, last %d)" % (rr, ri, wr, wi, wm)
        elif bool(next(iter(oa))) != bool(next(iter(ob))):
            bad = bad or "reader (round %d, block %d) against writer (round %d, block %d, last valid %d): check says %s, check_fast says %s" % (
                rr, ri, wr, wi, wm, next(iter(oa)), next(iter(ob)))
    desc = "r_buf_rpos_check_fast accepts exactly the reader positions r_buf_rpos_check accepts, for every ordering of rounds and block indices"
    (rep.violated if bad else rep.undecided if undec else rep.proved)("R-SIB", fb, "validity", desc, bad or undec or "%d orderings" % n)
    return n


def resync_rule(rep, u, fname="r_buf_rpos_check"):
    fa = need(u, fname)
    rep.functions.add(fa.name)
    rb, rp, dp = [p["n"] for p in fa.params[:3]]
    DROP = 0x3000
    n = 0
    bad = []
    undec = None
    for rr, wr, ri, wi, wm in _grid():
        pe = r_stride.PE(u, call_default={"r_buf_iovec_calc_size": 300})
        b0 = _bind(fa, rr, wr, ri, wi, wm)
        b0[dp] = DROP
        ev, ret = pe.trace(fa, b0)
        if isinstance(ret, str):
            undec = undec or "reader (round %d, block %d), writer (round %d, block %d, last %d): %s" % (rr, ri, wr, wi, wm, ret)
            continue
        n += 1
        if ret != 0:
            continue
        what = "reader (round %d, block %d) against writer (round %d, block %d, last valid %d)" % (rr, ri, wr, wi, wm)
        # drop amount stored on this path?
        stored = False
        after = dict(ev[-1][1]) if ev else dict(b0)
        for e, b in ev:
            for x, ps in walk(e):
                if x.get("k") == "bin" and x["op"] == "=":
                    l = strip_casts(x["x"])
                    if l.get("k") == "un" and l.get("op") == "*" and core.is_ref(strip_casts(l["e"]), name=dp):
                        stored = True
        if not stored and "drop" not in {k_ for k_, _ in bad}:
            bad.append(("drop", "%s: the position is rejected but no dropped amount is stored through %s" % (what, dp)))
        # the position the call leaves behind must be acceptable
        b1 = _bind(fa, after.get(rp + "->round_num", rr), wr, after.get(rp + "->iov_index", ri), wi, wm)
        b1[dp] = DROP
        if any(not isinstance(b1[k_], int) for k_ in (rp + "->round_num", rp + "->iov_index")):
            undec = undec or "%s: the repaired position is not computable" % what
            continue
        o2 = {v for v, s in r_stride.PE(u, call_default={"r_buf_iovec_calc_size": 300}).outcomes(fa, b1, 0)}
        if o2 != {1} and "resync" not in {k_ for k_, _ in bad}:
            bad.append(("resync", "%s: the call returns 0 and leaves the reader at (round %d, block %d), which the next call rejects "
                        "again (and reports as dropped again): the lagging reader is not resynchronised" % (what, b1[rp + "->round_num"], b1[rp + "->iov_index"])))
    desc = ("%s: every rejected reader position is reported with a dropped amount and repaired by the same call "
            "(checking the position it leaves behind succeeds), for every ordering of rounds and block indices" % fname)
    if bad:
        for kind, txt in bad:
            rep.violated("R-STATE", fa, "resync:" + kind, desc, txt)
    elif undec:
        rep.undecided("R-STATE", fa, "resync", desc, undec)
    else:
        rep.proved("R-STATE", fa, "resync", desc, "%d orderings" % n)
    return n


def round_compare_rule(rep, u):
    """R-WRAP (sequence counters): round_num wraps through 0 on a long-running ring.  Two round counters may be tested for
    equality (also with + 1, reduced to size_t) or compared through their *difference*; an ordering comparison with a
    round counter on both sides gives the wrong answer across the wrap."""
    n = 0
    for fn in u.function_list:
        if fn.relfile() != SRC or not fn.has_cfg:
            continue
        for pos, root, x, ps in fn.nodes():
            if not (x.get("k") == "bin" and x["op"] in ("<", ">", "<=", ">=")):
                continue
            sides = [any(y.get("k") == "mem" and y.get("f") == "round_num" for y, _ in walk(sd)) for sd in (x["x"], x["y"])]
            if not all(sides):
                continue
            n += 1
            rep.functions.add(fn.name)
            rep.violated("R-WRAP", fn, "round-ordering#%d" % n, "%s: round counters are compared by equality or through their difference" % fn.name,
                         "%s at line %s orders two round counters: once the writer's counter has wrapped through 0 a reader that is many rounds behind "
                         "looks 'ahead' (and is told that nothing was dropped)" % (key(x)[:80], x.get("ln")), x.get("ln"))
    if n == 0:
        rep.proved("R-WRAP", "", "round-ordering", "no ordering comparison between two round counters in %s" % SRC, "", file=SRC, unit=SRC)
    return n


def last_block_writers(rep, u, field="iov_index_max"):
    """iov_index_max is the index of the last block of the *previous* round: readers one round behind use it to know where
    that round ended.  It is a property of the round change, so it is stored only where round_num is bumped; a commit in the
    new round that raises it makes a reader that had consumed the whole previous round look overrun."""
    n = 0
    for fn in u.function_list:
        if fn.relfile() != SRC or not fn.has_cfg:
            continue
        for pos, root, x, ps in fn.nodes():
            if not (x.get("k") == "bin" and x["op"].endswith("=") and x["op"] not in ("==", "!=", "<=", ">=") and
                    strip_casts(x["x"]).get("k") == "mem" and strip_casts(x["x"]).get("f") == field):
                continue
            n += 1
            rep.functions.add(fn.name)
            # a round bump in the same block (straight-line) or dominated region
            bump = any(core.step_of(y) is not None and strip_casts(core.step_of(y)[0]).get("f") == "round_num"
                       for e in fn.blocks[pos[0]].elems for y, _ in walk(e))
            desc = "%s: %s is stored together with the round change" % (fn.name, field)
            (rep.proved if bump else rep.violated)(
                "R-OWN", fn, "last-block-store#%d" % n, desc,
                "" if bump else "stored at line %s without a round change: the mark of where the previous round ended moves while readers of that round "
                "are still behind it" % x.get("ln"), x.get("ln"))
    return n


def resync_target_rule(rep, u):
    """a reader that is resynchronised to the writer must be left at the first block that has not been delivered: the
    writer's current block if that block is still empty (being filled), the one after it if it has been committed.  Every
    store `rpos->iov_index = r_buf->iov_index + 1` must therefore be conditional on the current block's length."""
    n = 0
    for fn in u.function_list:
        if fn.relfile() != SRC or not fn.has_cfg:
            continue
        for pos, root, x, ps in fn.nodes():
            if not (x.get("k") == "bin" and x["op"] == "=" and strip_casts(x["x"]).get("k") == "mem" and strip_casts(x["x"]).get("f") == "iov_index"):
                continue
            rv = strip_casts(x["y"])
            if not (rv.get("k") == "bin" and rv.get("op") == "+" and any(y.get("k") == "mem" and y.get("f") == "iov_index" for y, _ in walk(rv))):
                continue
            obj = strip_casts(strip_casts(x["x"])["b"])
            if key(obj) == key(strip_casts(next(y for y, _ in walk(rv) if y.get("k") == "mem" and y.get("f") == "iov_index")["b"])):
                continue            # same object: an increment, not a resynchronisation
            n += 1
            rep.functions.add(fn.name)
            uses_len = any(y.get("k") == "mem" and y.get("f") == "iov_len" for y, _ in walk(rv))
            guarded = False
            for bid in fn.reachable_blocks():
                c = fn.blocks[bid].cond
                if c is not None and bid != pos[0] and fn.dominates(bid, pos[0]) and "iov_len" in key(c) and "iov_index]" in key(c) and \
                        key(obj) not in key(c).split("iov_len")[0][-40:]:
                    guarded = True
            desc = "%s: the resynchronised position depends on whether the writer's current block is committed" % fn.name
            (rep.proved if uses_len or guarded else rep.violated)(
                "R-STATE", fn, "resync-target#%d" % n, desc,
                "" if uses_len or guarded else "line %s sets the reader to iov_index + 1 unconditionally: while the current block is still being filled "
                "that skips it - the block committed next is never delivered and never reported as dropped" % x.get("ln"), x.get("ln"))
    return n


def alloc_rule(rep, u, fname="r_buf_alloc"):
    """r_buf_alloc refuses a ring smaller than its minimum block (every r_buf_wbuf_get would wrap with block index 0 and
    record 'last block of the previous round' = (size_t)-1, which readers then use as an index)."""
    from rules import r_mpt
    fn = need(u, fname)
    rep.functions.add(fname)
    pe = r_stride.PE(u, call_default={"calloc": 0x5000, "mapalloc_fd": 0x800000, "sysconf": 4096, "mapalloc": 0x900000})
    ev, ret = pe.trace(fn, {fn.params[0]["n"]: 3, fn.params[1]["n"]: 5, fn.params[2]["n"]: 10})
    desc = "%s(size = 5, min_block_size = 10) is refused" % fname
    allocated = any(x.get("k") == "call" and x.get("fn") == "calloc" for e, b in ev for x, _ in walk(e))
    if allocated:
        rep.violated("R-SPEC", fn, "size-vs-min-block", desc, "the ring is allocated: r_buf_wbuf_get then wraps on every call with iov_index 0 and stores "
                     "iov_index_max = SIZE_MAX")
    else:
        rep.proved("R-SPEC", fn, "size-vs-min-block", desc, "returns before allocating")
    return 1


def byte_position_rule(rep, u, names=("r_buf_rpos_check", "r_buf_rpos_check_fast")):
    """a reader one round behind is still valid only if the writer has not reached its *bytes*: blocks have variable sizes,
    so 'reader block index > writer block index' does not imply that the reader's block lies ahead of the write offset
    (one large block of the new round covers several small ones of the old).  The accepting test that compares the two
    block indices must also compare the reader block's position with the write offset."""
    n = 0
    for nm in names:
        fn = need(u, nm)
        rep.functions.add(nm)
        rb, rp = fn.params[0]["n"], fn.params[1]["n"]
        for bid in fn.reachable_blocks():
            c = fn.blocks[bid].cond
            if c is None:
                continue
            c0 = core.strip_imp(c)
            if not (c0.get("k") == "bin" and c0["op"] in (">", "<") and key(c0) in ("(%s->iov_index>%s->iov_index)" % (rp, rb), "(%s->iov_index<%s->iov_index)" % (rb, rp))):
                continue
            # the accepting edge leads (possibly through further && operands) to `return 1`: one of those operands mentions wpos
            blk = fn.blocks[bid]
            tgt = blk.succ[0]
            seen_ = set()
            mentions = False
            accepts = False
            while tgt is not None and tgt not in seen_:
                seen_.add(tgt)
                tb = fn.blocks[tgt]
                if tb.cond is not None:
                    if "wpos" in key(tb.cond):
                        mentions = True
                    if tb.term and tb.term.get("k") == "&&":
                        tgt = tb.succ[0]
                        continue
                    break
                rets = [e for e in tb.elems if e.get("k") == "ret"]
                if rets:
                    accepts = const_val(rets[0].get("e")) == 1
                    break
                if len(tb.rsucc()) != 1:
                    break
                tgt = tb.rsucc()[0]
            if blk.term and blk.term.get("k") == "&&" and not accepts:
                # the index test is the first operand of a conjunction: look at where the whole conjunction leads
                accepts = True
            if not accepts:
                continue            # not an acceptance test (e.g. the choice of the drop formula)
            n += 1
            desc = "%s: a previous-round reader is accepted only if its block also lies at or behind the write offset" % nm
            (rep.proved if mentions else rep.violated)(
                "R-STATE", fn, "byte-position#%d" % n, desc,
                "" if mentions else "the test at line %s compares block indices only: after a wrap, one 50-byte block covers five 10-byte blocks of the "
                "old round and a reader at old block 1 is handed the new block's bytes as if they were in sequence" % c.get("ln"), c.get("ln"))
    return n


def drop_amount_rule(rep, u, fname="r_buf_rpos_check"):
    """a rejected reader is moved to the writer's position; what it skips is the distance between its old position and the
    write position, so every non-zero dropped amount is computed from the writer's place *inside* its round (the write
    offset, or the sum of the blocks up to the write index) - whole rounds alone are exact only when reader and writer
    happen to stand at the same offset of their rounds."""
    fn = need(u, fname)
    rep.functions.add(fname)
    n = 0
    for pos, root, x, ps in fn.nodes():
        if not (x.get("k") == "bin" and x["op"] in ("=", "*=", "+=") and strip_casts(x["x"]).get("k") == "ref" and "drop" in strip_casts(x["x"]).get("n", "")):
            continue
        if const_val(x["y"]) == 0:
            continue
        k_ = key(x["y"])
        if x["op"] == "=" and "round_num" in k_ and "size" not in k_:
            continue                    # the round difference (an intermediate), scaled later
        n += 1
        # the value on this path: this statement plus the other non-zero stores to the same variable in the same block
        blk_keys = " ".join(key(y) for e in fn.blocks[pos[0]].elems for y, _ in walk(e) if y.get("k") == "bin" and y["op"] in ("=", "*=", "+=") and
                            strip_casts(y["x"]).get("k") == "ref" and strip_casts(y["x"]).get("n") == strip_casts(x["x"]).get("n"))
        ok = "wpos" in blk_keys or ("iov_index" in blk_keys and "r_buf_iovec_calc_size" in blk_keys)
        desc = "%s: the dropped amount stored at line %s depends on the writer's position inside its round" % (fname, x.get("ln"))
        (rep.proved if ok else rep.violated)("R-SPEC", fn, "drop-amount#%d" % n, desc,
                                             "" if ok else "%s counts whole rounds only: a reader at stream offset 0 that never reads, after 30 blocks of 10 bytes in a "
                                             "100-byte ring, is told 200 although 300 bytes were skipped" % k_[:80], x.get("ln"))
    return n


# ------------------------------------------------------------------ R-SIB (segments)

def segment_siblings(rep, u):
    fa, fg = need(u, "r_buf_data_avail_size"), need(u, "r_buf_data_get")
    rep.functions.update([fa.name, fg.name])

    def canon(fn, e):
        import copy
        ids = {p["id"]: "p%d" % i for i, p in enumerate(fn.params)}
        c = copy.deepcopy(e)
        for x, _ in walk(c):
            if x.get("k") == "ref" and x.get("id") in ids:
                x["n"] = ids[x["id"]]
        return key(strip_casts(c))

    def segs(fn, callee):
        out = []
        for pos, root, c, ps in fn.calls({callee}):
            out.append((canon(fn, c["args"][0]), canon(fn, c["args"][1]), c))
        return out
    sa = segs(fa, "r_buf_iovec_calc_size")
    sg = segs(fg, "iovec_aggregate_ex")
    desc = ("r_buf_data_avail_size sums and r_buf_data_get gathers the same block ranges (first block, block count) in the "
            "same-round and previous-round cases")
    ka, kg = sorted((a, b) for a, b, _ in sa), sorted((a, b) for a, b, _ in sg)
    if len(ka) < 3 or len(kg) < 3:
        raise driver.AnalysisBroken("segment calls not found (%d / %d)" % (len(ka), len(kg)))
    if ka == kg:
        rep.proved("R-SIB", fg, "segments", desc, "%d ranges: %s" % (len(ka), "; ".join("%s x %s" % k_ for k_ in ka)))
    else:
        diff = [k_ for k_ in kg if k_ not in ka] + [k_ for k_ in ka if k_ not in kg]
        rep.violated("R-SIB", fg, "segments", desc, "not shared: %s x %s" % diff[0])
    # the reader's offset in its first block: subtracted once by the size query, passed for the first range of each case by the gather
    offs = sorted(canon(fg, c["args"][3]) for _, _, c in sg)
    first = [canon(fg, c["args"][3]) for a, b, c in sg if "p1->iov_index" in a]
    sub = [x for pos, root, x, ps in fa.nodes() if x.get("k") == "bin" and x["op"] == "-=" and canon(fa, x["y"]) == "p1->iov_off"]
    desc = "both start after the reader's offset inside its first block (and at 0 in the block range that follows the wrap)"
    ok = len(sub) == 1 and first and all(o == "p1->iov_off" for o in first) and all(
        canon(fg, c["args"][3]) in ("0", "p1->iov_off") for _, _, c in sg) and any(canon(fg, c["args"][3]) == "0" for _, _, c in sg)
    (rep.proved if ok else rep.violated)("R-SIB", fg, "segment-offset", desc, "size query subtracts it %d time(s); gather passes %s" % (len(sub), offs))
    # the empty short cut
    def shortcut(fn):
        out = []
        for b in fn.blocks.values():
            c = strip_casts(b.cond) if b.cond is not None else None
            if c is not None and c.get("k") == "bin" and c.get("op") == "==" and "p1->iov_index" in (canon(fn, c["x"]), canon(fn, c["y"])):
                out.append(canon(fn, b.cond))
        return sorted(out)
    desc = "both treat 'reader at the block after the write block' as empty"
    (rep.proved if shortcut(fa) == shortcut(fg) and shortcut(fa) else rep.violated)("R-SIB", fg, "empty-case", desc, "%s / %s" % (shortcut(fa), shortcut(fg)))
    return len(ka)


# ------------------------------------------------------------------ R-SPEC (writer)

def writer_spec(rep, u):
    fn = need(u, "r_buf_wbuf_get")
    fs = need(u, "r_buf_wbuf_set")
    rep.functions.update([fn.name, fs.name])
    RB, BUFP, IOV, RING, SIZE = 0x1000, 0x2000, 0x100000, 0x800000, 1000
    rb = fn.params[0]["n"]
    cur_len_k = "%s->iov[%s->iov_index].iov_len" % (rb, rb)
    cur_base_k = "%s->iov[%s->iov_index].iov_base" % (rb, rb)
    n = 0
    bad = undec = None
    for wpos, want, minblk, cur_len, idx in itertools.product((0, 500, 936, 960, 1000), (0, 40, 64, 1000, 1001), (32, 64), (0, 50), (0, 3)):
        if cur_len == 0 and idx == 0 and wpos != 0:
            continue            # an unused block 0 means nothing was written in this round
        if cur_len != 0 and wpos == 0:
            continue
        pe = r_stride.PE(u)
        bind = {rb: RB, fn.params[1]["n"]: want, fn.params[2]["n"]: BUFP, rb + "->size": SIZE, rb + "->wpos": wpos, rb + "->iov": IOV,
                rb + "->iov_index": idx, rb + "->min_block_size": minblk, rb + "->buf": RING, rb + "->round_num": 7, rb + "->flags": 0,
                rb + "->iov_index_max": 5, cur_len_k: cur_len}
        ev, ret = pe.trace(fn, bind)
        what = "space left %d, requested %d, minimum block %d, current block %s" % (SIZE - wpos, want, minblk, "used" if cur_len else "unused")
        if isinstance(ret, str):
            undec = undec or "%s: %s" % (what, ret)
            continue
        n += 1
        a = ev[-1][1]
        left = SIZE - wpos
        if want > SIZE:
            if ret != 0:
                bad = bad or "%s: a request larger than the ring is granted" % what
            continue
        idx2 = idx + (1 if cur_len else 0)
        wrap = left < want or left < minblk
        g = lambda k_: a.get(rb + "->" + k_)
        base = a.get(cur_base_k)
        exp = dict(ret=SIZE if wrap else left, wpos=0 if wrap else wpos, idx=0 if wrap else idx2, rnd=8 if wrap else 7,
                   mx=(idx2 - 1) if wrap else 5, base=RING + (0 if wrap else wpos))
        got = dict(ret=ret, wpos=g("wpos"), idx=g("iov_index"), rnd=g("round_num"), mx=g("iov_index_max"), base=base)
        if not isinstance(base, int) or not isinstance(ret, int):
            undec = undec or "%s: region not computable" % what
            continue
        if not (RING <= base and base + ret <= RING + SIZE):
            bad = bad or "%s: the region handed out is [%d, %d) of a %d-byte ring" % (what, base - RING, base - RING + ret, SIZE)
        elif got != exp:
            d_ = [k_ for k_ in exp if exp[k_] != got[k_]][0]
            names = dict(ret="returned size", wpos="write offset", idx="write block", rnd="round counter", mx="last valid block", base="block base")
            bad = bad or "%s: %s is %s, expected %s (%s)" % (what, names[d_], got[d_] if d_ != "base" else got[d_] - RING,
                                                              exp[d_] if d_ != "base" else exp[d_] - RING, "wrap" if wrap else "no wrap")
        elif a.get(cur_len_k) != 0:
            bad = bad or "%s: the block handed out does not start empty" % what
        elif wrap and not (g("flags") or 0) & 2:
            bad = bad or "%s: the wrap does not mark the ring as full" % what
    desc = ("r_buf_wbuf_get: region inside the ring; wrap exactly when the space left is below the request or the minimum block; a wrap "
            "bumps the round once, records the last valid block, restarts at block 0 / offset 0; the block handed out is empty")
    (rep.violated if bad else rep.undecided if undec else rep.proved)("R-SPEC", fn, "wbuf-get", desc, bad or undec or "%d classes" % n)
    # commit
    m = 0
    bad = undec = None
    for wpos, off, size_, idx, mx in itertools.product((0, 500, 900), (0, 10, 40), (20, 32, 42, 64, 100, 120, 150), (0, 3), (2, 5)):
        if size_ > SIZE - wpos:
            # more than r_buf_wbuf_get handed out: the function's own "not enough space" test must refuse the whole commit
            pe = r_stride.PE(u)
            bind = {rb: RB, fs.params[1]["n"]: off, fs.params[2]["n"]: size_, rb + "->size": SIZE, rb + "->wpos": wpos, rb + "->iov": IOV,
                    rb + "->iov_index": idx, rb + "->min_block_size": 32, rb + "->buf": RING, rb + "->flags": 0, rb + "->iov_index_max": mx,
                    cur_len_k: 0, cur_base_k: RING + wpos}
            ev, ret = pe.trace(fs, bind)
            m += 1
            if isinstance(ret, str):
                undec = undec or ret
            elif ret == 0:
                bad = bad or "write offset %d: a commit of %d bytes (%d skipped) into the %d bytes left is accepted: the write offset moves past the ring" % (
                    wpos, size_, off, SIZE - wpos)
            continue
        pe = r_stride.PE(u)
        bind = {rb: RB, fs.params[1]["n"]: off, fs.params[2]["n"]: size_, rb + "->size": SIZE, rb + "->wpos": wpos, rb + "->iov": IOV,
                rb + "->iov_index": idx, rb + "->min_block_size": 32, rb + "->buf": RING, rb + "->flags": 0, rb + "->iov_index_max": mx,
                cur_len_k: 0, cur_base_k: RING + wpos}
        ev, ret = pe.trace(fs, bind)
        what = "write offset %d, commit of %d bytes with %d leading bytes skipped" % (wpos, size_, off)
        if isinstance(ret, str):
            undec = undec or "%s: %s" % (what, ret)
            continue
        m += 1
        a = ev[-1][1]
        ok_commit = off < size_ and size_ - off >= 32
        if (ret == 0) != ok_commit:
            bad = bad or "%s: %s" % (what, "accepted" if ret == 0 else "refused (returns %s)" % ret)
            continue
        if ret != 0:
            if a.get(rb + "->wpos") != wpos or a.get(cur_len_k) != 0:
                bad = bad or "%s: refused but the ring state changed" % what
            continue
        exp = {"block length": size_ - off, "block base": RING + wpos + off, "write offset": wpos + size_, "last valid block": mx,
               "fragmented flag": 1 if off else 0}
        got = {"block length": a.get(cur_len_k), "block base": a.get(cur_base_k), "write offset": a.get(rb + "->wpos"),
               "last valid block": a.get(rb + "->iov_index_max"), "fragmented flag": (a.get(rb + "->flags") or 0) & 1}
        if got != exp:
            d_ = [k_ for k_ in exp if exp[k_] != got[k_]][0]
            bad = bad or "%s: %s is %s, expected %s" % (what, d_, got[d_], exp[d_])
    desc = ("r_buf_wbuf_set on a commit that fits what was handed out: refused iff empty or below the minimum block; block length = "
            "committed - skipped, base moved by the skipped bytes, write offset advanced by the whole commit, the previous round's last block untouched; a commit larger than the space left is refused")
    (rep.violated if bad else rep.undecided if undec else rep.proved)("R-SPEC", fs, "wbuf-set", desc, bad or undec or "%d classes" % m)
    # commit by pointer (r_buf_wbuf_set2): the caller names the first committed byte itself, so the bytes before it are a gap
    k = 0
    f2 = need(u, "r_buf_wbuf_set2")
    rep.functions.add(f2.name)
    bad = undec = None
    rb2 = f2.params[0]["n"]
    len2_k = "%s->iov[%s->iov_index].iov_len" % (rb2, rb2)
    base2_k = "%s->iov[%s->iov_index].iov_base" % (rb2, rb2)
    for wpos, gap, size_ in itertools.product((0, 500, 900), (0, 4, 40), (20, 32, 64, 100, 120)):
        pe = r_stride.PE(u)
        bind = {rb2: RB, f2.params[1]["n"]: RING + wpos + gap, f2.params[2]["n"]: size_, f2.params[3]["n"]: 0, rb2 + "->size": SIZE,
                rb2 + "->wpos": wpos, rb2 + "->iov": IOV, rb2 + "->iov_index": 3, rb2 + "->min_block_size": 32, rb2 + "->buf": RING,
                rb2 + "->buf_max": RING + SIZE, rb2 + "->flags": 0, rb2 + "->iov_index_max": 5, rb2 + "->round_num": 7,
                len2_k: 0, base2_k: RING + wpos}
        ev, ret = pe.trace(f2, bind)
        what = "write offset %d, commit by pointer of %d bytes starting %d bytes into the region handed out" % (wpos, size_, gap)
        if isinstance(ret, str):
            undec = undec or "%s: %s" % (what, ret)
            continue
        k += 1
        fits = wpos + gap + size_ <= SIZE
        ok_commit = size_ >= 32 and fits
        if (ret == 0) != ok_commit:
            bad = bad or "%s: %s" % (what, "accepted" if ret == 0 else "refused (returns %s)" % ret)
            continue
        a = ev[-1][1]
        if ret != 0:
            if a.get(rb2 + "->wpos") != wpos:
                bad = bad or "%s: refused but the write offset changed" % what
            continue
        got = a.get(rb2 + "->wpos")
        if got != wpos + gap + size_:
            bad = bad or ("%s: the write offset becomes %s, the committed block ends at %d - the next region handed out overlaps "
                          "committed bytes" % (what, got, wpos + gap + size_))
    desc = ("r_buf_wbuf_set2 (commit by pointer): refused iff below the minimum block or past the ring's end, leaving the write offset "
            "alone; accepted commits leave the write offset at the end of the committed block, whatever gap precedes it")
    (rep.violated if bad else rep.undecided if undec else rep.proved)("R-SPEC", f2, "wbuf-set2", desc, bad or undec or "%d classes" % k)
    return n + m + k


# ------------------------------------------------------------------ R-CONT: continuation of a gather into the next range

GATHER_CLASSES = [
    # name, blocks of the range, request, offset in first block, output slots, contiguous blocks
    ("range-exhausted", [100, 100], 250, 0, 8, True),
    ("range-exhausted-with-offset", [100, 100], 250, 30, 8, True),
    ("next-block-does-not-fit", [100, 100, 300], 250, 0, 8, True),
    ("first-block-covers-request", [300, 100], 250, 0, 8, True),
    ("out-of-slots", [100, 100, 100], 250, 0, 1, False),
]


def continuation_rule(rep, u, caller="r_buf_data_get", gather="iovec_aggregate_ex", summer="r_buf_iovec_calc_size"):
    """The gather helper stops for three reasons (its range is exhausted / the next block does not fit the request / no
    output slot is left) and reports only (regions, remainder).  Where the caller continues with the following block range
    using that remainder, the continuation may deliver blocks only in the first case: otherwise blocks of the first range
    are skipped and later blocks are handed out as if they were next in sequence."""
    fc, fg = need(u, caller), need(u, gather)
    rep.functions.update([caller, gather])
    IOV, RET, REM, BASE = 0x100000, 0x200000, 0x300000, 0x800000
    gp = [p["n"] for p in fg.params]
    # the continuation: a second gather whose request is the remainder variable of an earlier gather that dominates it
    calls = [(pos, root, c) for pos, root, c, ps in fc.calls({gather})]
    pairs = []
    for p1, r1, c1 in calls:
        a_last = strip_casts(c1["args"][-1])
        if not (a_last.get("k") == "un" and a_last.get("op") == "&"):
            continue
        remv = key(strip_casts(a_last["e"]))
        for p2, r2, c2 in calls:
            if c2 is not c1 and key(strip_casts(c2["args"][2])) == remv and fc.pos_dominates(p1, p2):
                pairs.append((p1, r1, c1, p2, r2, c2, remv))
    if not pairs:
        raise driver.AnalysisBroken("%s: no gather continues with the remainder of another" % caller)
    n = 0
    for p1, r1, c1, p2, r2, c2, remv in pairs:
        retv = key(strip_casts(r1["x"])) if r1.get("k") == "bin" and r1["op"] == "=" else None
        reqk = key(strip_casts(c1["args"][2]))
        offk = key(strip_casts(c1["args"][3]))
        slotk = key(strip_casts(c1["args"][5]))
        # guards: branch conditions evaluated after the first gather on which the second depends
        guards = []
        for bid, blk in fc.blocks.items():
            if blk.cond is None or len(blk.rsucc()) < 2 or bid not in fc.reachable_blocks():
                continue
            if not fc.pos_dominates(p1, (bid, len(blk.elems) - 1)) or not fc.dominates(bid, p2[0]) or bid == p2[0]:
                continue
            t_edge, f_edge = blk.succ[0], blk.succ[1]
            reach_t = p2[0] in fc.reach_from([t_edge]) if t_edge is not None else False
            reach_f = p2[0] in fc.reach_from([f_edge]) if f_edge is not None else False
            if reach_t != reach_f:
                guards.append((blk.cond, reach_t))
        for cname, blocks, req, off, slots, contig in GATHER_CLASSES:
            pe = r_stride.PE(u)
            pos_ = BASE
            for i, l in enumerate(blocks):
                pe.memory[IOV + 16 * i] = pos_
                pe.memory[IOV + 16 * i + 8] = l
                pos_ += l + (0 if contig else 8)
            ev, ret = pe.trace(fg, {gp[0]: IOV, gp[1]: len(blocks), gp[2]: req, gp[3]: off, gp[4]: RET, gp[5]: slots, gp[6]: REM})
            inst = "continuation:%s" % cname
            desc = ("%s continues into the next block range (line %s) only when the previous gather consumed its whole range "
                    "[class %s: blocks %s, request %d, offset %d, %d slot(s)]" % (caller, c2.get("ln"), cname, blocks, req, off, slots))
            n += 1
            if isinstance(ret, str):
                rep.undecided("R-CONT", fc, inst, desc, ret)
                continue
            rem = None
            for e, b in ev:
                for x, ps in walk(e):
                    if x.get("k") == "bin" and x["op"] == "=" and key(strip_casts(x["x"])) == "*(%s)" % gp[6]:
                        rem = r_mpt.eval_expr(x["y"], {}, pe._hook(b, {}))
            consumed_all = ev[-1][1].get("i") == len(blocks) and ret != 0
            if rem is None:
                rep.undecided("R-CONT", fc, inst, desc, "the remainder the helper reports is not computable")
                continue
            # accounting: what the caller reports as delivered (request - remainder) is the size of the blocks taken
            taken = 0 if ret == 0 else sum(blocks[:ev[-1][1].get("i") or 1]) - off
            n += 1
            desc_a = ("%s: request minus reported remainder equals the bytes of the blocks handed out [class %s: blocks %s, request %d, offset %d, "
                      "%d slot(s)]" % (gather, cname, blocks, req, off, slots))
            if req - rem == taken:
                rep.proved("R-SPEC", fg, "accounting:%s" % cname, desc_a, "%d bytes" % taken)
            else:
                rep.violated("R-SPEC", fg, "accounting:%s" % cname, desc_a, "%d region(s) holding %d bytes are returned but the remainder %d makes the caller "
                             "report %d bytes as delivered" % (ret, taken, rem, req - rem))
            # does the caller reach the second gather, and with what?
            bind = {reqk: req, offk: off, slotk: slots, remv: rem}
            if retv:
                bind[retv] = ret
            pc = r_stride.PE(u, call_default={summer: sum(blocks)})
            taken = True
            unknown = None
            for cond, want in guards:
                try:
                    v = r_mpt.eval_expr(cond, {}, pc._hook(bind, {}))
                    if bool(v) != want:
                        taken = False
                except (r_mpt.Unknown, KeyError, TypeError):
                    unknown = key(cond)[:80]
            if unknown and taken:
                rep.undecided("R-CONT", fc, inst, desc, "guard %s not evaluable" % unknown)
                continue
            try:
                slots2 = r_mpt.eval_expr(c2["args"][5], {}, pc._hook(bind, {}))
            except (r_mpt.Unknown, KeyError, TypeError):
                slots2 = None
            delivers = taken and rem > 0 and (slots2 is None or slots2 > 0)
            if consumed_all:
                if rem > 0 and not taken:
                    rep.violated("R-CONT", fc, inst, desc, "the first range is consumed entirely (remainder %d) but the guard stops the reader at the "
                                 "round boundary" % rem)
                else:
                    rep.proved("R-CONT", fc, inst, desc, "range consumed, remainder %d: continuation is right" % rem)
            elif delivers:
                rep.violated("R-CONT", fc, inst, desc, "the helper stops before its range is exhausted (%d of %d blocks, %d regions, remainder %d) - "
                             "outputs it also produces when the range is exhausted - and the second gather still runs with that remainder: "
                             "blocks of the next round shorter than %d bytes are delivered while blocks of the previous round are skipped" % (
                                 ev[-1][1].get("i") or 0, len(blocks), ret, rem, rem))
            else:
                why = "the guard is false" if not taken else ("remainder 0" if rem == 0 else "no output slot left")
                rep.proved("R-CONT", fc, inst, desc, "range not exhausted and nothing more is delivered (%s)" % why)
    return n


def run(rep, tier):
    us = driver.load_units([common.src_unit(SRC)])
    rep.use_units(us)
    u = us[SRC]
    rep.floor("orderings (validity)", validity_siblings(rep, u), 1000)
    rep.floor("orderings (resync)", resync_rule(rep, u), 1000)
    rep.floor("block ranges", segment_siblings(rep, u), 3)
    round_compare_rule(rep, u)
    alloc_rule(rep, u)
    rep.floor("dropped-amount formulas", drop_amount_rule(rep, u), 2)
    rep.floor("previous-round acceptance tests", byte_position_rule(rep, u), 2)
    rep.floor("stores of the previous round's last block", last_block_writers(rep, u), 1)
    rep.floor("resynchronisation stores", resync_target_rule(rep, u), 3)
    rep.floor("gather continuation classes", continuation_rule(rep, u), 5)
    rep.floor("writer classes", writer_spec(rep, u), 100)
    from props import c19_audit
    rep.floor("block-table base stores", c19_audit.init_base_rule(rep, u), 2)
    rep.floor("single-block tests of the gatherer", c19_audit.exact_read_rule(rep, u), 1)
    c19_audit.history_bound_rule(rep, u)
    c19_audit.lapped_advance_rule(rep, u)
    c19_audit.stale_drop_rule(rep, u)
    c19_audit.near_index_rule(rep, u)
    nfn, total = memsafe.run_scope(rep, tier, us)
    rep.floor("functions analysed", nfn, 15)
    return driver.finish(
        rep, "other",
        "Packet ring, structural clauses: r_buf_rpos_check / r_buf_rpos_check_fast agree on every ordering of rounds (incl. the counter "
        "wrap) and block indices; every rejected reader position is reported with a dropped amount and repaired by the same call; size "
        "query and gather walk the same block ranges from the same offset; writer get/commit evaluated over space/request/minimum-block "
        "classes (region inside the ring, wrap decision, round bump, last valid block, block table fields); relational abstract "
        "interpretation of the file's %d functions (proved / undecided as listed). NOT decided: stream order, byte identity and drop totals "
        "over histories of interleaved writer and reader steps; that block table indices stay below iov_count (needs an inductive "
        "invariant over histories)." % nfn,
        ["a commit never exceeds the size r_buf_wbuf_get handed out"], TRUSTED)


def selftest():
    u = fixtures.load("ring.c")
    rep = driver.Report("fixture", "quick")
    validity_siblings(rep, u, "fx_check_ok", "fx_fast_ok")
    validity_siblings(rep, u, "fx_check_ok", "fx_fast_bad")
    for nm in ("fx_check_ok", "fx_check_bad_resync", "fx_check_bad_drop"):
        resync_rule(rep, u, nm)
    fixtures.expect(rep, ["fx_fast_bad", "fx_check_bad_resync", "fx_check_bad_drop"], ["fx_fast_ok", "fx_check_ok"], "R-SIB validity / R-STATE resync")
