"""Shared tables for the four hash headers (C04, C07)."""
from props import common

HASHES = {
    "md5": dict(hdr="crypto/hash/md5.h", ctx="md5_ctx_t", init="md5_init", update="md5_update",
                final="md5_final", hmac_init="hmac_md5_init", hmac_update="hmac_md5_update",
                hmac_final="hmac_md5_final", hmac="hmac_md5", hctx_param_init=2, blk=64),
    "sha1": dict(hdr="crypto/hash/sha1.h", ctx="sha1_ctx_t", init="sha1_init", update="sha1_update",
                 final="sha1_final", hmac_init="hmac_sha1_init", hmac_update="hmac_sha1_update",
                 hmac_final="hmac_sha1_final", hmac="hmac_sha1", hctx_param_init=2, blk=64),
    "sha2": dict(hdr="crypto/hash/sha2.h", ctx="sha2_ctx_t", init="sha2_init", update="sha2_update",
                 final="sha2_final", hmac_init="hmac_sha2_init", hmac_update="hmac_sha2_update",
                 hmac_final="hmac_sha2_final", hmac="hmac_sha2", hctx_param_init=3, blk=128),
    "gost3411": dict(hdr="crypto/hash/gost3411-2012.h", ctx="gost3411_2012_ctx_t", init="gost3411_2012_init",
                     update="gost3411_2012_update", final="gost3411_2012_final",
                     hmac_init="hmac_gost3411_2012_init", hmac_update="hmac_gost3411_2012_update",
                     hmac_final="hmac_gost3411_2012_final", hmac="hmac_gost3411_2012", hctx_param_init=3, blk=64),
}

# build variants: (label, defines, cflags)
VARIANTS_QUICK = [
    ("nosimd", ("!__SSE2__",), ()),          # what tests/hash/main.c builds
    ("default", (), ()),                     # x86-64 default: __SSE2__
    ("sha", (), ("-msha", "-mssse3", "-msse4.1")),   # SHA-NI / SSE4.1 transforms and their block-load macros
]
VARIANTS_THOROUGH = VARIANTS_QUICK[:2] + [
    ("ssse3", (), ("-mssse3",)),
    ("sse41", (), ("-msse4.1",)),
    ("avx", (), ("-mavx",)),
    ("avx2", (), ("-mavx2",)),
    ("sha", (), ("-msha", "-mssse3", "-msse4.1")),
]
GOST_EXTRA = [
    ("smalltbl", ("!__SSE2__", "GOST3411_2012_USE_SMALL_TABLES"), ()),
    ("smalltbl_tau", ("!__SSE2__", "GOST3411_2012_USE_SMALL_TABLES", "GOST3411_2012_USE_SMALL_TABLES_TABLE_TAU"), ()),
]


def units(tier, extra_gost=True):
    res = []
    variants = VARIANTS_THOROUGH if tier == "thorough" else VARIANTS_QUICK
    for h, t in HASHES.items():
        for (lab, defs, cfl) in variants:
            res.append((h, lab, common.hdr_unit("%s:%s" % (h, lab), t["hdr"], defs, cfl)))
        if h == "gost3411" and extra_gost and tier == "thorough":
            for (lab, defs, cfl) in GOST_EXTRA:
                res.append((h, lab, common.hdr_unit("%s:%s" % (h, lab), t["hdr"], defs, cfl)))
    return res


# ---- build witnesses: a translation unit that instantiates the public entry points (unused static inline code is never
# ---- compiled, so including the header alone proves nothing about gcc's target checks)
WITNESS_BODY = {
    "md5": "md5_ctx_t c; md5_init(&c); md5_update(&c, m, n); md5_final(&c, out);",
    "sha1": "sha1_ctx_t c; sha1_init(&c); sha1_update(&c, m, n); sha1_final(&c, out);",
    "sha2": "sha2_ctx_t c; sha2_init(256, &c); sha2_update(&c, m, n); sha2_final(&c, out);",
    "gost3411": "gost3411_2012_ctx_t c; gost3411_2012_init(256, &c); gost3411_2012_update(&c, m, n); gost3411_2012_final(&c, out);",
}
ISA_QUICK = [(), ("-mssse3",), ("-msha",)]
ISA_THOROUGH = [(), ("-msse3",), ("-mssse3",), ("-msse4.1",), ("-mavx",), ("-mavx2",), ("-msha",), ("-msha", "-mssse3", "-msse4.1"), ("-mavx2", "-msha")]


def build_witnesses(tier):
    """[(label, compiler argv tail, source text)]: gcc and clang, -O2, every ISA set x every hash header, plus the
    Streebog small-table option in an ordinary (SIMD-capable) build"""
    import os
    from rules import driver
    out = []
    isas = ISA_THOROUGH if tier == "thorough" else ISA_QUICK
    ccs = ("gcc", "clang") if tier == "thorough" else ("gcc",)
    for h, t in HASHES.items():
        for isa in isas:
            for cc in ccs:
                for opt in (("-O2",) if tier != "thorough" else ("-O2", "-O3")):
                    txt = driver.PRELUDE + '#include "%s"\nvoid lcb_witness(const uint8_t *m, size_t n, uint8_t *out);\nvoid lcb_witness(const uint8_t *m, size_t n, uint8_t *out) { %s }\n' % (
                        t["hdr"], WITNESS_BODY[h])
                    out.append(("%s:%s:%s:%s" % (h, cc, opt, "+".join(isa) or "default"), [cc, opt] + list(isa), txt))
    for defs in (("GOST3411_2012_USE_SMALL_TABLES",), ("GOST3411_2012_USE_SMALL_TABLES", "GOST3411_2012_USE_SMALL_TABLES_TABLE_TAU")):
        for isa in ((), ("-mavx2",)):
            for cc in ccs:
                txt = driver.PRELUDE + "".join("#define %s 1\n" % d for d in defs) + '#include "%s"\nvoid lcb_witness(const uint8_t *m, size_t n, uint8_t *out);\nvoid lcb_witness(const uint8_t *m, size_t n, uint8_t *out) { %s }\n' % (
                    HASHES["gost3411"]["hdr"], WITNESS_BODY["gost3411"])
                out.append(("gost3411:%s:%s:%s" % (cc, "+".join(defs)[14:], "+".join(isa) or "default"), [cc, "-O2"] + list(isa), txt))
    return out
