"""Shared tables for the four hash headers (C04, C07)."""
from props import common

HASHES = {
    "md5": dict(hdr="crypto/hash/md5.h", ctx="md5_ctx_t", init="md5_init", update="md5_update",
                final="md5_final", hmac_init="hmac_md5_init", hmac_update="hmac_md5_update",
                hmac_final="hmac_md5_final", hmac="hmac_md5", hctx_param_init=2, blk=64),
    "sha1": dict(hdr="crypto/hash/sha1.h", ctx="sha1_ctx_t", init="sha1_init", update="sha1_update",
                 final="sha1_final", hmac_init="hmac_sha1_init", hmac_update="hmac_sha1_update",
                 hmac_final="hmac_sha1_final", hmac="hmac_sha1", hctx_param_init=2, blk=64),
    "sha2": dict(hdr="crypto/hash/sha2.h", ctx="sha2_ctx_t", init="sha2_init", update="sha2_update",
                 final="sha2_final", hmac_init="hmac_sha2_init", hmac_update="hmac_sha2_update",
                 hmac_final="hmac_sha2_final", hmac="hmac_sha2", hctx_param_init=3, blk=128),
    "gost3411": dict(hdr="crypto/hash/gost3411-2012.h", ctx="gost3411_2012_ctx_t", init="gost3411_2012_init",
                     update="gost3411_2012_update", final="gost3411_2012_final",
                     hmac_init="hmac_gost3411_2012_init", hmac_update="hmac_gost3411_2012_update",
                     hmac_final="hmac_gost3411_2012_final", hmac="hmac_gost3411_2012", hctx_param_init=3, blk=64),
}

# build variants: (label, defines, cflags)
VARIANTS_QUICK = [
    ("nosimd", ("!__SSE2__",), ()),          # what tests/hash/main.c builds
    ("default", (), ()),                     # x86-64 default: __SSE2__
    ("sha", (), ("-msha", "-mssse3", "-msse4.1")),   # SHA-NI / SSE4.1 transforms and their block-load macros
]
VARIANTS_THOROUGH = VARIANTS_QUICK[:2] + [
    ("ssse3", (), ("-mssse3",)),
    ("sse41", (), ("-msse4.1",)),
    ("avx", (), ("-mavx",)),
    ("avx2", (), ("-mavx2",)),
    ("sha", (), ("-msha", "-mssse3", "-msse4.1")),
]
GOST_EXTRA = [
    ("smalltbl", ("!__SSE2__", "GOST3411_2012_USE_SMALL_TABLES"), ()),
    ("smalltbl_tau", ("!__SSE2__", "GOST3411_2012_USE_SMALL_TABLES", "GOST3411_2012_USE_SMALL_TABLES_TABLE_TAU"), ()),
]


def units(tier, extra_gost=True):
    res = []
    variants = VARIANTS_THOROUGH if tier == "thorough" else VARIANTS_QUICK
    for h, t in HASHES.items():
        for (lab, defs, cfl) in variants:
            res.append((h, lab, common.hdr_unit("%s:%s" % (h, lab), t["hdr"], defs, cfl)))
        if h == "gost3411" and extra_gost and tier == "thorough":
            for (lab, defs, cfl) in GOST_EXTRA:
                res.append((h, lab, common.hdr_unit("%s:%s" % (h, lab), t["hdr"], defs, cfl)))
    return res
