"""C17 rules from the audit round (replays/C17-hunt): structural necessary conditions of "looking up a (section, name)
pair returns the value most recently parsed or set for it" and "generating text and parsing it again gives an equivalent
store".

  R-LAST     a value finder keeps scanning after a match (the last record of a name is the most recent one)
  R-ALLSECT  the pair lookups (get, get-insensitive, the lookup half of set) enumerate every section record of the name,
             they do not stop at the first one
  R-EMPTY    an empty name is a name: the finders do not reject size 0
  R-REPR     ini_val_set refuses what the line format cannot carry (CR/LF anywhere, '=' or a leading ';', '#', '[' in a key)
  R-BYTESTR  counted byte strings are not handed to NUL-terminated string functions
"""
from rules import driver, core, r_mpt
from rules.core import key, const_val, walk

INI_C = "src/utils/ini.c"
INVALID = (1 << 64) - 1


def _walk(c):
    for y, ps in walk(c):
        yield y, ps
        if y.get("k") == "lazy" and y.get("lz") is not None:
            for r in _walk(y["lz"]):
                yield r


def _need(u, name):
    fn = u.fn(name)
    if fn is None or not fn.has_cfg:
        raise driver.AnalysisBroken("anchor %s vanished" % name)
    return fn


def _first_match_exit(fn, enum_name, cmp_names):
    """(loop found, line of a return inside the enumeration loop that is control-dependent on a comparator call)"""
    loops = fn.loops()
    for h, body in loops.items():
        if not any(pos[0] in body for pos, root, c, ps in fn.calls({enum_name})):
            continue
        cmps = [b for b in body if fn.blocks[b].cond is not None and any(y.get("k") == "call" and y.get("fn") in cmp_names for y, _ in _walk(fn.blocks[b].cond))]
        for pos, r in fn.returns():
            if any(fn.dominates(cb, pos[0]) for cb in cmps):       # a return that only a comparison outcome leads to
                return True, r.get("ln")
        return True, None
    return False, None


def last_match_rule(rep, u):
    n = 0
    for fname in ("ini_sect_val_find", "ini_sect_val_findi", "ini_sect_find", "ini_sect_findi"):
        fn = _need(u, fname)
        rep.functions.add(fname)
        found, ln = _first_match_exit(fn, "ini_sect_val_enum" if "_val_" in fname else "ini_sect_enum", {"mem_cmpn", "mem_cmpin"})
        if not found:
            raise driver.AnalysisBroken("%s: enumeration loop not found" % fname)
        n += 1
        desc = "%s: the scan continues after a match, so the last (most recently parsed) record of the name is returned" % fname
        (rep.proved if ln is None else rep.violated)("R-LAST", fn, "last-record-wins", desc, "no return inside the loop under the comparison" if ln is None else
                                                     ("returns at the first match (line %s): " % ln) + ("\"k=old\\nk=new\" looks up as old" if "_val_" in fname else
                                                      "the two-step lookup ini_sect_find + ini_sect_val_find reads the first [main] record while ini_val_set wrote to the last"), ln)
    return n


def all_sections_rule(rep, u):
    from props import c11
    g = c11.call_graph([u])
    n = 0
    for fname in ("ini_val_get", "ini_vali_get", "ini_val_set"):
        fn = _need(u, fname)
        rep.functions.add(fname)
        n += 1
        direct_first = [c.get("ln") for pos, root, c, ps in fn.calls({"ini_sect_find", "ini_sect_findi"})]
        # somewhere below: a loop over ini_sect_enum without a first-match exit
        ok = False
        for callee in c11.reach(g, fname):
            f2 = u.fn(callee)
            if f2 is None or not f2.has_cfg or f2.relfile() != INI_C or callee in ("ini_sect_find", "ini_sect_findi"):
                continue
            found, ln = _first_match_exit(f2, "ini_sect_enum", {"mem_cmpn", "mem_cmpin"})
            if found and ln is None:
                ok = True
        desc = "%s: every section record with the name is searched (a name can be in the store more than once: parsed twice, or continued later in the text)" % fname
        if direct_first or not ok:
            rep.violated("R-ALLSECT", fn, "all-section-records", desc, "uses the first-match section finder (line %s): after parsing \"[main] host=default\" and then "
                         "\"[main] port=8080\", port is ENOENT and host stays default" % (direct_first[0] if direct_first else "?"))
        else:
            rep.proved("R-ALLSECT", fn, "all-section-records", desc, "enumerates all section records, last hit wins")
    return n


def empty_name_rule(rep, u):
    n = 0
    for fname, pn in (("ini_sect_find", "sect_name_size"), ("ini_sect_findi", "sect_name_size"), ("ini_sect_val_find", "val_name_size"),
                      ("ini_sect_val_findi", "val_name_size")):
        fn = _need(u, fname)
        rep.functions.add(fname)
        n += 1
        bad = None
        for bid in fn.reachable_blocks():
            cnd = fn.blocks[bid].cond
            if cnd is None:
                continue
            for y, _ in _walk(cnd):
                if y.get("k") == "bin" and y["op"] == "==":
                    a, b = core.strip_casts(y["x"]), core.strip_casts(y["y"])
                    for v, c_ in ((a, b), (b, a)):
                        if v.get("k") == "ref" and v["n"] == pn and const_val(c_) == 0:
                            bad = y.get("ln")
        desc = "%s: an empty name is looked up like any other (the parser stores \"[]\" and \"=v\" records, ini_val_set creates them)" % fname
        (rep.proved if bad is None else rep.violated)("R-EMPTY", fn, "empty-name-searchable", desc, "" if bad is None else
                                                      "size 0 is rejected at line %s: ini_val_set(\"\", k, v) returns 0 but the pair can never be read back, and every "
                                                      "repeated set appends another \"[]\" section" % bad, bad)
    return n


def representable_rule(rep, u):
    fn = _need(u, "ini_val_set")
    rep.functions.add(fn.name)
    einval = [pos for pos, r in fn.returns() if const_val(r.get("e")) == 22]
    # bytes searched for / compared with in conditions that guard an EINVAL return
    seen = {}
    for bid in fn.reachable_blocks():
        cnd = fn.blocks[bid].cond
        if cnd is None or not any(fn.dominates(bid, e[0]) or e[0] in fn.reach_from([bid]) for e in einval):
            continue
        # only conditions from which an EINVAL return is reachable without passing the first allocation
        for y, _ in _walk(cnd):
            if y.get("k") == "call" and y.get("fn") in ("mem_chr", "memchr"):
                cv = const_val(y["args"][2])
                who = core.base_ref(y["args"][0])
                if cv is not None and who is not None:
                    seen.setdefault(who["n"], set()).add(cv)
            if y.get("k") == "bin" and y["op"] == "==":
                a, b = core.strip_casts(y["x"]), core.strip_casts(y["y"])
                for v, c_ in ((a, b), (b, a)):
                    if v.get("k") == "sub" and const_val(v["i"]) == 0 and const_val(c_) is not None and core.base_ref(v) is not None:
                        seen.setdefault(core.base_ref(v)["n"] + "[0]", set()).add(const_val(c_))
    want = [("val", {10, 13}, "a line break in the value injects lines and sections (nick = \"bob\\nadmin=1\\n[x]\")"),
            ("val_name", {10, 13, 61}, "'=' or a line break in the key: (s, \"a=b\") = c is read back as (s, \"a\") = \"b=c\""),
            ("val_name[0]", {59, 35, 91}, "a key starting with ';', '#' or '[' is written as a comment / section header"),
            ("sect_name", {10, 13}, "a line break in the section name")]
    n = 0
    for who, chars, why in want:
        n += 1
        miss = chars - seen.get(who, set())
        desc = "ini_val_set: %s that the line format cannot carry is refused" % who
        (rep.proved if not miss else rep.violated)("R-REPR", fn, "refused:%s" % who, desc, "tests for %s" % sorted(chars) if not miss else
                                                   "no test for byte(s) %s: %s - the set returns 0 and gen + parse gives a different store" % (sorted(miss), why))
    return n


def byte_string_rule(rep, uh, files=("include/utils/mem_utils.h",)):
    """functions that take a (pointer, size) byte string do not pass it to functions that stop at NUL"""
    cstr = {"strncasecmp", "strcasecmp", "strncmp", "strcmp", "strlen", "strchr", "strrchr", "strstr", "strcasestr", "strnlen"}
    n = 0
    for fn in uh.function_list:
        if fn.relfile() not in files or not fn.has_cfg or not fn.name.startswith("mem_"):
            continue
        pn = {p["n"] for p in fn.params if uh.type(p["t"])["k"] == "ptr"}
        if not pn or not any(uh.type(p["t"])["k"] == "int" and "size" in p["n"] for p in fn.params):
            continue
        n += 1
        bad = None
        for pos, root, c, ps in fn.calls(cstr):
            if any(core.base_ref(a) is not None and core.base_ref(a)["n"] in pn for a in c["args"]):
                bad = (c["fn"], c.get("ln"))
        desc = "%s: the counted byte string is compared/scanned over all `size` bytes" % fn.name
        if bad:
            rep.functions.add(fn.name)
            rep.violated("R-BYTESTR", fn, "no-cstring-call", desc, "%s() at line %s stops at the first NUL: \"k\\0x\" and \"k\\0y\" compare equal, "
                         "ini_vali_get(\"k\\0y\") returns the k\\0x record" % bad, bad[1])
        else:
            rep.proved("R-BYTESTR", fn, "no-cstring-call", desc, "")
    return n


def null_value_rule(rep, u, fname="ini_val_set"):
    """the empty value is legal and may be given as (NULL, 0) (the argument check refuses NULL only with a non-zero size):
    the copy of the caller's value is excluded for size 0 (memcpy with a NULL source is undefined behaviour)"""
    from rules import r_range
    fn = _need(u, fname)
    n = 0
    pn = {p["n"] for p in fn.params}
    for pos, root, c, ps in fn.calls({"memcpy", "memmove"}):
        src = core.base_ref(c["args"][1])
        if src is None or src["n"] != "val" or src.get("dk") != "parm":
            continue
        n += 1
        ln_ = core.strip_casts(c["args"][2])
        ok, why = r_range.excludes_zero(fn, pos, ln_) if ln_.get("k") in ("ref", "mem") else (False, "")
        desc = "%s: the copy of the caller's value is not executed for the empty value" % fname
        (rep.proved if ok else rep.violated)("R-NULLARG", fn, "empty-value-copy", desc, why if ok else
                                             "memcpy(line->val, val, 0) is reached for the legal empty value (NULL, 0): undefined behaviour", c.get("ln"))
    return n


def gen_empty_rule(rep, u, fname="ini_buf_gen"):
    """an empty store has size 0 (ini_buf_calc_size): generating into a buffer of exactly that size succeeds with 0 bytes"""
    fn = _need(u, fname)
    bad = None
    for bid in fn.reachable_blocks():
        cnd = fn.blocks[bid].cond
        if cnd is None:
            continue
        for y, _ in _walk(cnd):
            if y.get("k") == "bin" and y["op"] == "==":
                a, b = core.strip_casts(y["x"]), core.strip_casts(y["y"])
                for v, c_ in ((a, b), (b, a)):
                    if core.is_ref(v, name="buf_size") and const_val(c_) == 0:
                        bad = y.get("ln")
    desc = "%s: a buffer of the size ini_buf_calc_size reports is accepted, also for the empty store (size 0)" % fname
    (rep.proved if bad is None else rep.violated)("R-AGREE", fn, "empty-store-generates", desc, "" if bad is None else
                                                  "buf_size 0 is refused with EINVAL at line %s although the calculated size of an empty store is 0" % bad, bad)
    return 1


def value_overlap_rule(rep, u, fname="ini_val_set", param="val"):
    """the value handed to ini_val_set may be (part of) the value the store returned for the same key - ini_val_get yields
    pointers into the records: the copy of the caller's value into the record tolerates overlap (memmove)"""
    fn = _need(u, fname)
    rep.functions.add(fname)
    pid = [p["id"] for p in fn.params if p["n"] == param]
    if not pid:
        raise driver.AnalysisBroken("%s: parameter %s not found" % (fname, param))
    n = 0
    for pos, root, c, ps in fn.calls({"memcpy", "memmove", "__builtin_memcpy", "__builtin___memcpy_chk", "__builtin_memmove", "__builtin___memmove_chk"}):
        s_ = core.base_ref(c["args"][1])
        d_ = core.strip_casts(c["args"][0])
        if s_ is None or s_.get("id") != pid[0]:
            continue
        n += 1
        mv = "memmove" in c["fn"]
        desc = "%s: the caller's value is copied into the record with memmove" % fname
        (rep.proved if mv else rep.violated)("R-INPLACE", fn, "value-copy-may-overlap", desc, "" if mv else
                                             "memcpy(%s, %s, ..): ini_val_get() returns a pointer into the record; setting a key to its own trimmed value replaces in place "
                                             "and copies between overlapping ranges (ASan: memcpy-param-overlap)" % (key(d_)[:30], param), c.get("ln"))
    return n


def keep_found_rule(rep, u, fname="ini_val_find__int"):
    """R-KEEP: the finder walks every block of the section and returns the last hit.  The variable it returns is overwritten
    inside the walk only under a test of the new candidate against a constant (the 'invalid' marker): a block of the section
    that lacks the key must not erase an earlier hit."""
    fn = _need(u, fname)
    rep.functions.add(fname)
    rets = {core.strip_casts(r["e"]).get("id") for pos, r in fn.returns() if r.get("e") is not None and core.strip_casts(r["e"]).get("k") == "ref"}
    n = 0
    for pos, root, x, ps in fn.nodes():
        if not (x.get("k") == "bin" and x["op"] == "=" and core.strip_casts(x["x"]).get("k") == "ref" and core.strip_casts(x["x"]).get("id") in rets):
            continue
        b = pos[0]
        if b not in fn.reach_from([s for s in fn.blocks[b].succ if s is not None]):
            continue            # not inside the walk
        src = core.strip_casts(x["y"])
        n += 1
        ok = False
        if src.get("k") == "ref":
            for q in fn.reachable_blocks():
                cq = fn.blocks[q].cond
                if cq is None or q == b or not fn.dominates(q, b):
                    continue
                for y, _ in _walk(cq):
                    if y.get("k") == "bin" and y["op"] in ("!=", "==") and any(core.strip_casts(y[s_]).get("k") == "ref" and core.strip_casts(y[s_]).get("id") == src.get("id") for s_ in ("x", "y")) \
                            and any(const_val(y[s_]) is not None for s_ in ("x", "y")):
                        ok = True
        desc = "%s: the returned hit is overwritten inside the walk only by a candidate that was tested against the 'invalid' marker (line %s)" % (fname, x.get("ln"))
        if ok:
            rep.proved("R-KEEP", fn, "keep-found#%d" % n, desc, "", x.get("ln"))
        else:
            rep.violated("R-KEEP", fn, "keep-found#%d" % n, desc, "the store is unconditional: a later block of the same section without the key erases the earlier hit - "
                         "the key reads as ENOENT and a set appends a duplicate", x.get("ln"))
    return n
