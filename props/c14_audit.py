"""C14 rules from the audit round (replays/C14-hunt).

  R-UACC   the decimal parsers accumulate the magnitude and apply the sign in unsigned arithmetic (the text of the type
           minimum, which the formatters produce, otherwise needs a signed overflow: UB, and gcc -O2 makes use of it)
  R-EXACT  base64_decode demands (and reports with ENOBUFS) exactly the number of bytes its decoding switch writes
"""
from rules import driver, core
from rules.core import key, const_val, walk


def unsigned_accumulation_rule(rep, u, hdr="include/utils/str2num.h"):
    n = 0
    for fn in u.function_list:
        if fn.relfile() != hdr or not fn.has_cfg:
            continue
        rt = u.type(fn.ret)
        if rt["k"] != "int" or not rt.get("sg"):
            continue
        n += 1
        rep.functions.add(fn.name)
        bad = None
        for pos, root, x, ps in fn.nodes():
            if x.get("k") == "bin" and x["op"] in ("*=", "+=", "-=", "<<=", "<<") and not (x["op"] == "<<" and const_val(x["x"]) is not None):
                l = core.strip_casts(x["x"])
                t = u.type(l["t"]) if "t" in l else None
                if t is not None and t["k"] == "int" and t.get("sg") and (t.get("size") or 4) >= 4:
                    bad = bad or (key(x)[:40], x.get("ln"))
        desc = "%s: digits are accumulated and the sign applied in unsigned arithmetic" % fn.name
        if bad:
            rep.violated("R-UACC", fn, "unsigned-accumulation", desc, "%s at line %s works on a signed %s: parsing the text of the type minimum (\"-2147483648\", which "
                         "s322str produces) overflows twice - undefined behaviour; gcc -O2 then folds `INT32_MIN == str2s32(...)` to false" % (bad[0], bad[1], u.tstr(fn.ret)), bad[1])
        else:
            rep.proved("R-UACC", fn, "unsigned-accumulation", desc, "")
    return n


def base64_exact_rule(rep, u, fname="base64_decode"):
    fn = u.fn(fname)
    if fn is None or not fn.has_cfg:
        raise driver.AnalysisBroken("anchor %s vanished" % fname)
    rep.functions.add(fname)
    # the decoding tail: the switch whose arms store through the write cursor
    switches = []
    for bid in fn.reachable_blocks():
        b = fn.blocks[bid]
        if b.term and b.term["k"] == "SwitchStmt" and b.cond is not None:
            switches.append(bid)

    def arms(bid):
        out = {}
        pd = fn.pdom().get(bid, set()) - {bid}
        for s_ in fn.blocks[bid].rsucc():
            lab = fn.blocks[s_].label or {}
            if "case" not in lab:
                continue
            blocks = fn.reach_from([s_], avoid=pd)
            out[int(lab["case"])] = blocks
        return out
    dec = size = None
    for bid in switches:
        a = arms(bid)
        stores = {k: sum(1 for b in bl for e in fn.blocks[b].elems for y, _ in walk(e)
                         if y.get("k") == "bin" and y["op"] == "=" and core.strip_casts(y["x"]).get("k") == "un" and core.strip_casts(y["x"])["op"] == "*" and
                         "wpos" in key(y["x"])) for k, bl in a.items()}
        incs = {}
        for k, bl in a.items():
            t = 0
            for b in bl:
                for e in fn.blocks[b].elems:
                    for y, _ in walk(e):
                        st = core.step_of(y)
                        if st is not None and key(core.strip_casts(st[0])) == "dcd_size":
                            t += st[1]
            incs[k] = t
        if any(stores.values()):
            dec = (bid, stores)
        elif any(incs.values()):
            size = (bid, incs)
    if dec is None:
        raise driver.AnalysisBroken("%s: decoding tail switch not found" % fname)
    desc = "%s: the capacity demanded (and reported with ENOBUFS) for a tail of k characters is what the decoder writes for it" % fname
    if size is None:
        rep.violated("R-EXACT", fn, "tail-size-agrees", desc, "the size is rounded up to whole groups of 3 whatever the tail is, the decoder writes %s: \"YQ==\" into a "
                     "1-byte buffer is ENOBUFS with 3 reported, with a larger buffer it reports 1" % dict(sorted(dec[1].items())))
        return 1
    same_cond = key(fn.blocks[size[0]].cond) == key(fn.blocks[dec[0]].cond)
    if same_cond and {k: v for k, v in size[1].items() if v} == {k: v for k, v in dec[1].items() if v} and fn.dominates(size[0], dec[0]):
        rep.proved("R-EXACT", fn, "tail-size-agrees", desc, "per tail length: %s" % dict(sorted(dec[1].items())))
    else:
        rep.violated("R-EXACT", fn, "tail-size-agrees", desc, "size switch %s vs decode switch %s" % (dict(sorted(size[1].items())), dict(sorted(dec[1].items()))))
    return 1
