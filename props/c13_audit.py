"""C13 rules from the second audit pass (replays/C13-hunt2).

  R-ENDPOS    an attribute locator does not hand out the end position as an attribute (its callers read type/len there)
  R-TERMROOM  a receive buffer that gets a terminating 0 at [received] is received into with capacity sizeof - 1
  R-CHUNKEND  the chunked-body decoder steps over the CRLF that ends a chunk's data before it reads the next size line
"""
from rules import driver, core
from rules.core import key, const_val, walk


def _walk(c):
    for y, ps in walk(c):
        yield y, ps
        if y.get("k") == "lazy" and y.get("lz") is not None:
            for r in _walk(y["lz"]):
                yield r


def end_position_rule(rep, u, fname="radius_pkt_attr_get_from_offset"):
    fn = u.fn(fname)
    if fn is None or not fn.has_cfg:
        raise driver.AnalysisBroken("anchor %s vanished" % fname)
    rep.functions.add(fname)
    off = fn.params[1]["n"]
    # comparisons of the offset with the packet size that lead to a failing return
    strict_only = None
    refused = False
    for bid in fn.reachable_blocks():
        cnd = fn.blocks[bid].cond
        if cnd is None:
            continue
        fails = any(const_val(r.get("e")) not in (None, 0) and fn.dominates(bid, p[0]) and p[0] != bid for p, r in fn.returns())
        for y, _ in _walk(cnd):
            if y.get("k") == "bin" and y["op"] in ("==", ">=", "<=", ">", "<") and fails:
                a, b = core.strip_casts(y["x"]), core.strip_casts(y["y"])
                names = {key(a), key(b)}
                if off in names and any("size" in n_ or "len" in n_ for n_ in names - {off}):
                    if y["op"] == "==" or (y["op"] == ">=" and key(a) == off) or (y["op"] == "<=" and key(b) == off):
                        refused = True
                    elif y["op"] in (">", "<"):
                        strict_only = y.get("ln")
    desc = "%s: the end position (offset == packet length) is not returned as an attribute" % fname
    if refused:
        rep.proved("R-ENDPOS", fn, "end-position-refused", desc, "")
    else:
        rep.violated("R-ENDPOS", fn, "end-position-refused", desc, "only offset > length is refused (line %s): walking a valid 26-byte packet with offset += len + 2 ends at 26, "
                     "radius_pkt_attr_get_data_ptr_raw then reads type/len behind the datagram (len = SIZE_MAX - 1 reported)" % strict_only)
    return 1


def terminator_room_rule(rep, u, rel):
    n = 0
    for fn in u.function_list:
        if fn.relfile() != rel or not fn.has_cfg:
            continue
        for pos, root, x, ps in fn.nodes():
            if not (x.get("k") == "bin" and x["op"] == "=" and const_val(x["y"]) == 0 and core.strip_casts(x["x"]).get("k") == "sub"):
                continue
            sub = core.strip_casts(x["x"])
            arr = core.strip_casts(sub["b"])
            idx = core.strip_casts(sub["i"])
            if arr.get("k") != "ref" or idx.get("k") != "ref" or fn.unit.type(arr["t"])["k"] != "arr":
                continue
            # the receive call that fills this array
            for p2, r2, c, _ in fn.calls():
                nm = c.get("fn") or ""
                if not any(t_ in nm for t_ in ("recv", "read")) or len(c.get("args", [])) < 3:
                    continue
                if not any(core.is_ref(core.strip_casts(a), name=arr["n"]) for a in c["args"][:2]):
                    continue
                n += 1
                rep.functions.add(fn.name)
                cap = [a for a in c["args"] if any(z.get("k") == "sizeof" for z, _ in walk(a))]
                full = bool(cap) and core.strip_casts(cap[0]).get("k") == "sizeof"
                desc = "%s: '%s[%s] = 0' has room - the datagram is received into sizeof(%s) - 1 bytes" % (fn.name, arr["n"], idx["n"], arr["n"])
                (rep.violated if full else rep.proved)("R-TERMROOM", fn, "terminator-room:%s" % arr["n"], desc,
                                                       "capacity is the whole array: a datagram of sizeof(%s) bytes or more puts the terminator one byte behind it" % arr["n"] if full else "", x.get("ln"))
    return n


def chunk_end_rule(rep, u, fname="http_data_decode_chunked"):
    fn = u.fn(fname)
    if fn is None or not fn.has_cfg:
        raise driver.AnalysisBroken("anchor %s vanished" % fname)
    rep.functions.add(fname)
    loops = fn.loops()
    body = set().union(*loops.values()) if loops else set()
    ok = False
    for bid in body:
        cnd = fn.blocks[bid].cond
        if cnd is None:
            continue
        for y, _ in _walk(cnd):
            if y.get("k") == "call" and y.get("fn") in ("memcmp", "mem_cmp") and any(a.get("k") == "str" or "\\r\\n" in key(a) or key(a) in ('"\r\n"',) for a in map(core.strip_casts, y["args"])):
                # the true/equal edge advances the read cursor by 2
                for s_ in fn.blocks[bid].rsucc():
                    for e in fn.blocks[s_].elems:
                        for z, _ in walk(e):
                            st = core.step_of(z)
                            if st is not None and st[1] == 2:
                                ok = True
    desc = "%s: the CRLF that ends a chunk's data is stepped over before the next chunk-size line is read" % fname
    (rep.proved if ok else rep.violated)("R-CHUNKEND", fn, "chunk-data-crlf", desc, "" if ok else
                                         "the cursor stays on the CRLF after the chunk data, the next size line is empty (= 0 = last chunk): "
                                         "'5 hello 6 world 0' decodes to 'hello' with success")
    return 1
